//! Executor for the intrusive doubly linked list (model: coq/L0/DList.v), through the
//! cfg-guarded re-export `futures_intrusive::verif::{LinkedList, ListNode}`.
use crate::core::*;
use futures_intrusive::verif::{LinkedList, ListNode};
use std::pin::Pin;

pub struct DListExec {
    list: LinkedList<u64>,
    nodes: Vec<Pin<Box<ListNode<u64>>>>,
}

impl DListExec {
    pub fn new(cfg: &[u64]) -> Self {
        let nodes = (0..cfg[0]).map(|i| Box::pin(ListNode::new(i))).collect();
        DListExec { list: LinkedList::new(), nodes }
    }
    fn id_of(&self, addr: usize) -> u64 {
        if addr == 0 {
            return 0;
        }
        for (i, n) in self.nodes.iter().enumerate() {
            if &**n as *const ListNode<u64> as usize == addr {
                return i as u64 + 1;
            }
        }
        DANGLING
    }
    fn node(&mut self, i: usize) -> &mut ListNode<u64> {
        unsafe { self.nodes[i].as_mut().get_unchecked_mut() }
    }
    fn observe(&self, o: &mut Obs) {
        let (h, t) = self.list.verif_ends();
        o.q.push(self.id_of(h));
        o.q.push(self.id_of(t));
        for n in &self.nodes {
            let (p, nx) = n.verif_links();
            o.q.push(self.id_of(p));
            o.q.push(self.id_of(nx));
        }
    }
}

impl Exec for DListExec {
    fn step(&mut self, op: &[u64]) -> Obs {
        let mut o = Obs::default();
        begin_step();
        let k = self.nodes.len();
        match op {
            [0, n] if (*n as usize) < k => {
                let node: *mut ListNode<u64> = self.node(*n as usize);
                let list = &mut self.list;
                o.r = vec![lib(|| unsafe { list.add_front(&mut *node) }).map_or(R_PANIC, |_| R_UNIT)];
            }
            [1] => {
                let list = &mut self.list;
                let r = lib(|| list.remove_first().map(|n| n as *const ListNode<u64> as usize));
                o.r = match r {
                    None => vec![R_PANIC],
                    Some(a) => vec![self.id_of(a.unwrap_or(0))],
                };
            }
            [2] => {
                let list = &mut self.list;
                let r = lib(|| list.remove_last().map(|n| n as *const ListNode<u64> as usize));
                o.r = match r {
                    None => vec![R_PANIC],
                    Some(a) => vec![self.id_of(a.unwrap_or(0))],
                };
            }
            [3, n] if (*n as usize) < k => {
                let node: *mut ListNode<u64> = self.node(*n as usize);
                let list = &mut self.list;
                o.r = vec![lib(|| unsafe { list.remove(&mut *node) }).map_or(R_PANIC, rbool)];
            }
            [4] | [5] => {
                let mut visited: Vec<usize> = Vec::new();
                let list = &mut self.list;
                let fwd = op[0] == 4;
                let ok = lib(|| {
                    if fwd {
                        list.drain(|n| unarmed(|| visited.push(n as *const ListNode<u64> as usize)))
                    } else {
                        list.reverse_drain(|n| unarmed(|| visited.push(n as *const ListNode<u64> as usize)))
                    }
                });
                o.r = if ok.is_none() { vec![R_PANIC] } else {
                    let mut r = vec![R_UNIT];
                    for a in visited { r.push(self.id_of(a) - 1); }
                    r
                };
            }
            [6] => {
                let list = &self.list;
                let a = lib(|| list.peek_first().map(|n| n as *const ListNode<u64> as usize));
                o.r = match a { None => vec![R_PANIC], Some(a) => vec![self.id_of(a.unwrap_or(0))] };
            }
            [7] => {
                let list = &self.list;
                let a = lib(|| list.peek_last().map(|n| n as *const ListNode<u64> as usize));
                o.r = match a { None => vec![R_PANIC], Some(a) => vec![self.id_of(a.unwrap_or(0))] };
            }
            [8] => {
                let list = &self.list;
                o.r = vec![lib(|| list.is_empty()).map_or(R_PANIC, rbool)];
            }
            _ => return Obs::bad(),
        }
        end_step(&mut o);
        self.observe(&mut o);
        o
    }
}
