//! Shared infrastructure of the executor: observations, id-wakers, counting
//! allocator, armed library calls, tagged drop-counting payloads.
#![allow(dead_code)]

use std::alloc::{GlobalAlloc, Layout, System};
use std::cell::{Cell, RefCell};
use std::panic::{catch_unwind, AssertUnwindSafe};
use std::sync::atomic::{AtomicBool, AtomicU64, Ordering};
use std::task::{RawWaker, RawWakerVTable, Waker};

pub const R_UNIT: u64 = 0;
pub const R_PENDING: u64 = 1;
pub const R_READY: u64 = 2;
pub const R_PANIC: u64 = 3;
pub const R_NONE: u64 = 4;
pub const R_SOME: u64 = 5;
pub const R_TRUE: u64 = 6;
pub const R_FALSE: u64 = 7;
pub const R_OK: u64 = 8;
pub const R_ERR: u64 = 9;
pub const R_BADOP: u64 = 99;

pub fn rbool(b: bool) -> u64 {
    if b {
        R_TRUE
    } else {
        R_FALSE
    }
}

/// Result code of a `CloseStatus`: decided by the variant itself; the two accessor methods must
/// agree with it (77 = an accessor lies).
pub fn close_code(c: futures_intrusive::channel::CloseStatus) -> u64 {
    use futures_intrusive::channel::CloseStatus::*;
    let newly = matches!(c, NewlyClosed);
    let already = matches!(c, AlreadyClosed);
    if c.is_newly_closed() != newly || c.is_already_closed() != already {
        return 77;
    }
    rbool(newly)
}

/// Marker printed in a queue snapshot for a node that belongs to no live future.
pub const DANGLING: u64 = 9999;

#[derive(Default, Debug, Clone)]
pub struct Obs {
    pub r: Vec<u64>,
    pub w: Vec<u64>,
    pub v: Vec<u64>,
    pub p: Vec<u64>,
    pub t: Vec<u64>,
    pub q: Vec<u64>,
    pub a: u64,
}

fn join(v: &[u64]) -> String {
    let mut s = String::new();
    for (i, x) in v.iter().enumerate() {
        if i > 0 {
            s.push(' ');
        }
        s.push_str(&x.to_string());
    }
    s
}

impl Obs {
    pub fn render(&self) -> String {
        format!(
            "r:{}|w:{}|v:{}|p:{}|t:{}|q:{}|a:{}",
            join(&self.r),
            join(&self.w),
            join(&self.v),
            join(&self.p),
            join(&self.t),
            join(&self.q),
            self.a
        )
    }
    pub fn bad() -> Obs {
        Obs { r: vec![R_BADOP], ..Default::default() }
    }
}

// ---------------------------------------------------------------------------
// counting allocator, armed only inside library calls

pub struct CountingAlloc;
static ARMED: AtomicBool = AtomicBool::new(false);
static ALLOC_EVENTS: AtomicU64 = AtomicU64::new(0);

unsafe impl GlobalAlloc for CountingAlloc {
    unsafe fn alloc(&self, l: Layout) -> *mut u8 {
        if ARMED.load(Ordering::Relaxed) {
            ALLOC_EVENTS.fetch_add(1, Ordering::Relaxed);
        }
        System.alloc(l)
    }
    unsafe fn dealloc(&self, p: *mut u8, l: Layout) {
        if ARMED.load(Ordering::Relaxed) {
            ALLOC_EVENTS.fetch_add(1, Ordering::Relaxed);
        }
        System.dealloc(p, l)
    }
    unsafe fn realloc(&self, p: *mut u8, l: Layout, n: usize) -> *mut u8 {
        if ARMED.load(Ordering::Relaxed) {
            ALLOC_EVENTS.fetch_add(1, Ordering::Relaxed);
        }
        System.realloc(p, l, n)
    }
}

/// Runs `f` with the allocation counter suspended (harness bookkeeping that
/// happens in the middle of a library call: wake log, drop log).
pub fn unarmed<R>(f: impl FnOnce() -> R) -> R {
    let prev = ARMED.swap(false, Ordering::Relaxed);
    let r = f();
    ARMED.store(prev, Ordering::Relaxed);
    r
}

// ---------------------------------------------------------------------------
// per-step logs

thread_local! {
    static WAKES: RefCell<Vec<u64>> = RefCell::new(Vec::with_capacity(1024));
    static VALS: RefCell<Vec<u64>> = RefCell::new(Vec::with_capacity(1024));
}

// live payloads: global (a value may be created on one thread and consumed on another in the
// threaded runs)
static LIVE_VALUES: std::sync::Mutex<Option<std::collections::HashSet<u64>>> = std::sync::Mutex::new(None);
static NEXT_SERIAL: AtomicU64 = AtomicU64::new(1);
fn live<R>(f: impl FnOnce(&mut std::collections::HashSet<u64>) -> R) -> R {
    let mut g = LIVE_VALUES.lock().unwrap_or_else(|e| e.into_inner());
    f(g.get_or_insert_with(Default::default))
}

pub const V_DELIVERED: u64 = 1;
pub const V_BACK: u64 = 2;
pub const V_DROPPED: u64 = 3;
pub const V_DOUBLE_DROP: u64 = 66;

pub fn log_val(kind: u64, tag: u64) {
    unarmed(|| VALS.with(|v| v.borrow_mut().extend_from_slice(&[kind, tag])));
}

/// Executes one library call: allocation counter armed, panics caught.
/// Returns `None` if the call panicked.
pub fn lib<R>(f: impl FnOnce() -> R) -> Option<R> {
    ARMED.store(true, Ordering::Relaxed);
    let r = catch_unwind(AssertUnwindSafe(f));
    ARMED.store(false, Ordering::Relaxed);
    if r.is_err() {
        // the panic machinery allocates; a panicking call is outside every allocation claim
        ALLOC_EVENTS.store(0, Ordering::Relaxed);
    }
    r.ok()
}

/// `lib(f)`, but a panic of the library call becomes the observation `R_PANIC` of the current
/// step (the executor observes, it never assumes that a constructor or `clone` cannot panic)
#[macro_export]
macro_rules! lib_or_panic {
    ($o:ident, $e:expr) => {
        match $crate::core::lib($e) {
            Some(x) => x,
            None => {
                $o.r = vec![$crate::core::R_PANIC];
                $crate::core::end_step(&mut $o);
                return $o;
            }
        }
    };
}

pub fn begin_step() {
    WAKES.with(|w| w.borrow_mut().clear());
    VALS.with(|w| w.borrow_mut().clear());
    ALLOC_EVENTS.store(0, Ordering::Relaxed);
}

pub fn end_step(o: &mut Obs) {
    WAKES.with(|w| o.w = w.borrow().clone());
    VALS.with(|w| o.v = w.borrow().clone());
    o.a = ALLOC_EVENTS.load(Ordering::Relaxed);
}

// ---------------------------------------------------------------------------
// id wakers: nothing allocated.  Waker ids 2k and 2k+1 share the DATA pointer (k + 1, never
// null) and differ in their VTABLE, so that "same waker" is decided correctly only by code that
// compares both, as `Waker::will_wake` does.

fn log_wake(id: u64) {
    unarmed(|| WAKES.with(|w| w.borrow_mut().push(id)));
}
fn vt_clone_a(p: *const ()) -> RawWaker {
    RawWaker::new(p, &VTABLE_A)
}
fn vt_clone_b(p: *const ()) -> RawWaker {
    RawWaker::new(p, &VTABLE_B)
}
fn vt_wake_a(p: *const ()) {
    log_wake(2 * (p as usize as u64 - 1));
}
fn vt_wake_b(p: *const ()) {
    log_wake(2 * (p as usize as u64 - 1) + 1);
}
fn vt_drop(_p: *const ()) {}
static VTABLE_A: RawWakerVTable = RawWakerVTable::new(vt_clone_a, vt_wake_a, vt_wake_a, vt_drop);
static VTABLE_B: RawWakerVTable = RawWakerVTable::new(vt_clone_b, vt_wake_b, vt_wake_b, vt_drop);

pub fn waker(id: u64) -> Waker {
    let data = (id / 2 + 1) as usize as *const ();
    let vt: &'static RawWakerVTable = if id % 2 == 0 { &VTABLE_A } else { &VTABLE_B };
    unsafe { Waker::from_raw(RawWaker::new(data, vt)) }
}

fn vt_tag(vt: &'static RawWakerVTable) -> usize {
    ((vt as *const RawWakerVTable as usize) & 0xffff_ffff) << 16
}

/// Stored waker as reported by the snapshot hook (data pointer + vtable tag, 0 = none) ->
/// `optN` encoding of the model (id + 1).
pub fn waker_code(code: usize) -> u64 {
    if code == 0 {
        return 0;
    }
    for (vt, b) in [(&VTABLE_A, 0u64), (&VTABLE_B, 1u64)] {
        let d = code.wrapping_sub(vt_tag(vt));
        if d >= 1 && d < 65536 {
            return 2 * (d as u64 - 1) + b + 1;
        }
    }
    7_000_000 + (code as u64 & 0xffff) // not one of the harness' wakers
}

// ---------------------------------------------------------------------------
// payloads: uniquely tagged, every drop is logged, double drops are detected

pub struct Val {
    pub tag: u64,
    serial: u64,
}

impl Val {
    pub fn new(tag: u64) -> Val {
        unarmed(|| {
            let serial = NEXT_SERIAL.fetch_add(1, Ordering::Relaxed);
            live(|l| l.insert(serial));
            Val { tag, serial }
        })
    }
    /// Takes the tag out without logging a drop (value consumed by the harness
    /// as "delivered" or "handed back").
    pub fn consume(self, kind: u64) -> u64 {
        let tag = self.tag;
        unarmed(|| {
            live(|l| l.remove(&self.serial));
        });
        log_val(kind, tag);
        std::mem::forget(self);
        tag
    }
}

impl Clone for Val {
    fn clone(&self) -> Val {
        Val::new(self.tag)
    }
}

impl Drop for Val {
    fn drop(&mut self) {
        let was_live = unarmed(|| live(|l| l.remove(&self.serial)));
        log_val(if was_live { V_DROPPED } else { V_DOUBLE_DROP }, self.tag);
    }
}

pub fn live_values() -> usize {
    live(|l| l.len())
}

pub fn reset_values() {
    live(|l| l.clear());
}

// ---------------------------------------------------------------------------

pub trait Exec {
    fn step(&mut self, op: &[u64]) -> Obs;
    /// A second executor over the SAME primitive with its own future slots (threaded runs:
    /// one per thread).  A view never frees the primitive.
    fn share(&self) -> Option<Box<dyn Exec>> {
        None
    }
}

/// global ticket counter for the invocation / response stamps of the threaded runs
pub static TICKET: AtomicU64 = AtomicU64::new(0);

pub fn silence_panics() {
    if std::env::var_os("VERIF_HARNESS_PANICS").is_some() {
        // diagnosis: print where panics come from (they are still caught where expected)
        std::panic::set_hook(Box::new(|i| eprintln!("panic: {}", i)));
    } else {
        std::panic::set_hook(Box::new(|_| {}));
    }
}

// ---------------------------------------------------------------------------
// future slots with stable addresses; dropped futures keep their memory mapped
// (graveyard) so that a dangling queue entry is observed instead of crashing.

use std::mem::ManuallyDrop;
use std::pin::Pin;

pub struct Slots<F> {
    slots: Vec<Option<Pin<Box<ManuallyDrop<F>>>>>,
    grave: Vec<Pin<Box<ManuallyDrop<F>>>>,
}

impl<F> Slots<F> {
    pub fn new(k: usize) -> Self {
        let mut slots = Vec::new();
        for _ in 0..k {
            slots.push(None);
        }
        Slots { slots, grave: Vec::new() }
    }
    pub fn len(&self) -> usize {
        self.slots.len()
    }
    pub fn alive(&self, i: usize) -> bool {
        i < self.slots.len() && self.slots[i].is_some()
    }
    pub fn put(&mut self, i: usize, f: F) {
        self.slots[i] = Some(Box::pin(ManuallyDrop::new(f)));
    }
    pub fn get(&mut self, i: usize) -> Pin<&mut F> {
        let b = self.slots[i].as_mut().unwrap();
        unsafe { b.as_mut().map_unchecked_mut(|m| &mut **m) }
    }
    pub fn peek(&self, i: usize) -> Option<&F> {
        self.slots.get(i).and_then(|s| s.as_ref()).map(|b| &***b)
    }
    /// Runs the future's destructor as a library call; returns false if it panicked.
    pub fn drop_slot(&mut self, i: usize) -> bool {
        let mut b = self.slots[i].take().unwrap();
        let ok = lib(|| unsafe { ManuallyDrop::drop(b.as_mut().get_unchecked_mut()) }).is_some();
        self.grave.push(b);
        ok
    }
    pub fn drop_all(&mut self) {
        for i in 0..self.slots.len() {
            if self.slots[i].is_some() {
                self.drop_slot(i);
            }
        }
    }
    /// slot index of the live future for which `addr_of` yields `addr`
    pub fn find(&self, addr: usize, addr_of: impl Fn(&F) -> usize) -> Option<usize> {
        for (i, s) in self.slots.iter().enumerate() {
            if let Some(b) = s {
                if addr_of(&***b) == addr {
                    return Some(i);
                }
            }
        }
        None
    }
}


/// `x` as a `Y` when `X` and `Y` are the same type (used to reach the crate's non-generic
/// convenience constructors and aliases from the generic executors)
pub fn cast<X: 'static, Y: 'static>(x: X) -> Result<Y, X> {
    if std::any::TypeId::of::<X>() == std::any::TypeId::of::<Y>() {
        let y = unsafe { std::ptr::read(&x as *const X as *const Y) };
        std::mem::forget(x);
        Ok(y)
    } else {
        Err(x)
    }
}
