//! Executor for GenericMutex (model: coq/Model/Mutex.v).
use crate::core::*;
use crate::lib_or_panic;
use futures_core::future::FusedFuture;
use futures_intrusive::sync::{GenericMutex, GenericMutexGuard, GenericMutexLockFuture};
use futures_intrusive::verif::VerifNode;
use lock_api::RawMutex;
use std::future::Future;
use std::task::{Context, Poll};

pub struct MutexExec<M: RawMutex + 'static> {
    mx: &'static GenericMutex<M, u64>,
    futs: Slots<GenericMutexLockFuture<'static, M, u64>>,
    // guard + the payload value this holder wrote through it (exclusive access: it must still
    // be there when the guard is dropped)
    guards: Vec<(GenericMutexGuard<'static, M, u64>, u64)>,
    view: bool,
}

impl<M: RawMutex + 'static> MutexExec<M> {
    pub fn new(cfg: &[u64]) -> Self {
        let k = cfg[0] as usize;
        let mx = Box::leak(Box::new(GenericMutex::<M, u64>::new(0, cfg[1] != 0)));
        MutexExec { mx, futs: Slots::new(k), guards: Vec::with_capacity(16), view: false }
    }

    fn observe(&self, o: &mut Obs) {
        o.p = vec![self.mx.is_locked() as u64, self.guards.len() as u64];
        o.t = (0..self.futs.len())
            .map(|i| match self.futs.peek(i) {
                None => 2,
                Some(f) => f.is_terminated() as u64,
            })
            .collect();
        let mut buf = [VerifNode { addr: 0, state: 0, waker: 0, extra: 0 }; 512];
        let n = self.mx.verif_snapshot(&mut buf);
        for node in &buf[..n] {
            let slot = self.futs.find(node.addr, |f| f.verif_node_addr());
            o.q.push(slot.map_or(DANGLING, |s| s as u64));
            o.q.push(node.state as u64);
            o.q.push(waker_code(node.waker));
        }
    }
}

impl<M: RawMutex + 'static> Exec for MutexExec<M> {
    fn step(&mut self, op: &[u64]) -> Obs {
        let mut o = Obs::default();
        begin_step();
        let mx = self.mx;
        match op {
            [0, f] if (*f as usize) < self.futs.len() && !self.futs.alive(*f as usize) => {
                let fut = lib_or_panic!(o, || mx.lock());
                self.futs.put(*f as usize, fut);
                o.r = vec![R_UNIT];
            }
            [1, f, w] if self.futs.alive(*f as usize) => {
                let wk = waker(*w);
                let mut cx = Context::from_waker(&wk);
                let fut = self.futs.get(*f as usize);
                o.r = match lib(|| fut.poll(&mut cx)) {
                    None => vec![R_PANIC],
                    Some(Poll::Pending) => vec![R_PENDING],
                    Some(Poll::Ready(mut g)) => {
                        let v = (*g).wrapping_add(1); // Deref
                        *g = v; // DerefMut
                        self.guards.push((g, v));
                        vec![R_READY]
                    }
                };
            }
            [2, f] if self.futs.alive(*f as usize) => {
                o.r = vec![if self.futs.drop_slot(*f as usize) { R_UNIT } else { R_PANIC }];
            }
            [3] => {
                o.r = match lib(|| mx.try_lock()) {
                    None => vec![R_PANIC],
                    Some(None) => vec![R_NONE],
                    Some(Some(mut g)) => {
                        let v = (*g).wrapping_add(1);
                        *g = v;
                        self.guards.push((g, v));
                        vec![R_SOME]
                    }
                };
            }
            [4] if !self.guards.is_empty() => {
                let (g, v) = self.guards.remove(0);
                // 78 = somebody else wrote the payload while this guard was alive
                let intact = *g == v;
                o.r = vec![lib(move || drop(g)).map_or(R_PANIC, |_| if intact { R_UNIT } else { 78 })];
            }
            [5] => {
                o.r = vec![lib(|| mx.is_locked()).map_or(R_PANIC, rbool)];
            }
            _ => return Obs::bad(),
        }
        end_step(&mut o);
        self.observe(&mut o);
        o
    }
    fn share(&self) -> Option<Box<dyn Exec>> {
        Some(Box::new(MutexExec { mx: self.mx, futs: Slots::new(self.futs.len()), guards: Vec::with_capacity(16), view: true }))
    }
}

impl<M: RawMutex + 'static> Drop for MutexExec<M> {
    fn drop(&mut self) {
        self.futs.drop_all();
        self.guards.clear();
        if self.view {
            return;
        }
        unsafe { drop(Box::from_raw(self.mx as *const _ as *mut GenericMutex<M, u64>)) };
    }
}
