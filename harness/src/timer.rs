//! Executors for GenericTimerService (model: coq/Model/Timer.v).
use crate::core::*;
use crate::lib_or_panic;
use futures_core::future::FusedFuture;
use futures_intrusive::timer::{
    GenericTimerService, LocalTimer, LocalTimerFuture, MockClock, Timer, TimerFuture,
};
use futures_intrusive::verif::VerifNode;
use lock_api::RawMutex;
use std::future::Future;
use std::task::{Context, Poll};
use std::time::Duration;

const EMPTY: VerifNode = VerifNode { addr: 0, state: 0, waker: 0, extra: 0 };

macro_rules! timer_exec {
    ($name:ident, $fut:ty, $bound:path, $trait:ident) => {
        pub struct $name<M: RawMutex + $bound + 'static> {
            clock: &'static MockClock,
            svc: &'static GenericTimerService<M>,
            futs: Slots<$fut>,
            view: bool,
        }
        impl<M: RawMutex + $bound + 'static> $name<M> {
            pub fn new(cfg: &[u64]) -> Self {
                let clock: &'static MockClock = Box::leak(Box::new(MockClock::new()));
                let svc = Box::leak(Box::new(GenericTimerService::<M>::new(clock)));
                $name { clock, svc, futs: Slots::new(cfg[0] as usize), view: false }
            }
            fn observe(&self, o: &mut Obs) {
                use futures_intrusive::timer::Clock;
                o.p = vec![self.clock.now()];
                match self.svc.next_expiration() {
                    Some(e) => {
                        o.p.push(1);
                        o.p.push(e);
                    }
                    None => o.p.push(0),
                }
                o.t = (0..self.futs.len())
                    .map(|i| match self.futs.peek(i) { None => 2, Some(f) => f.is_terminated() as u64 })
                    .collect();
                let mut buf = [EMPTY; 64];
                let n = self.svc.verif_snapshot(&mut buf);
                for node in &buf[..n] {
                    let slot = self.futs.find(node.addr, |f| f.verif_node_addr());
                    o.q.push(slot.map_or(DANGLING, |s| s as u64));
                    o.q.push(node.state as u64);
                    o.q.push(waker_code(node.waker));
                    o.q.push(node.extra & 0xffff_ffff_ffff);
                    o.q.push(node.extra >> 48);
                }
            }
        }
        impl<M: RawMutex + $bound + 'static> Exec for $name<M> {
            fn step(&mut self, op: &[u64]) -> Obs {
                let mut o = Obs::default();
                begin_step();
                let svc = self.svc;
                match op {
                    [0, t] => {
                        let c = self.clock;
                        o.r = vec![lib(|| c.set_time(*t)).map_or(R_PANIC, |_| R_UNIT)];
                    }
                    [1, f, t] if (*f as usize) < self.futs.len() && !self.futs.alive(*f as usize) => {
                        let fut = lib_or_panic!(o, || $trait::deadline(svc, *t));
                        self.futs.put(*f as usize, fut);
                        o.r = vec![R_UNIT, *t];
                    }
                    [2, f, secs, nanos] if (*f as usize) < self.futs.len() && !self.futs.alive(*f as usize) => {
                        let d = Duration::new(*secs, *nanos as u32);
                        let fut = lib_or_panic!(o, || $trait::delay(svc, d));
                        self.futs.put(*f as usize, fut);
                        // the deadline is not observable directly: report next_expiration-free view
                        // by registering nothing; the model's deadline is checked through later
                        // expirations and the heap snapshot
                        o.r = vec![R_UNIT];
                    }
                    [3, f, w] if self.futs.alive(*f as usize) => {
                        let wk = waker(*w);
                        let mut cx = Context::from_waker(&wk);
                        let fut = self.futs.get(*f as usize);
                        o.r = match lib(|| fut.poll(&mut cx)) {
                            None => vec![R_PANIC],
                            Some(Poll::Pending) => vec![R_PENDING],
                            Some(Poll::Ready(())) => vec![R_READY],
                        };
                    }
                    [4, f] if self.futs.alive(*f as usize) => {
                        o.r = vec![if self.futs.drop_slot(*f as usize) { R_UNIT } else { R_PANIC }]
                    }
                    [5] => o.r = vec![lib(|| svc.check_expirations()).map_or(R_PANIC, |_| R_UNIT)],
                    [6] => {
                        o.r = match lib(|| svc.next_expiration()) {
                            None => vec![R_PANIC],
                            Some(None) => vec![R_NONE],
                            Some(Some(e)) => vec![R_SOME, e],
                        }
                    }
                    _ => return Obs::bad(),
                }
                end_step(&mut o);
                self.observe(&mut o);
                o
            }
            fn share(&self) -> Option<Box<dyn Exec>> {
                Some(Box::new($name::<M> { clock: self.clock, svc: self.svc, futs: Slots::new(self.futs.len()), view: true }))
            }
        }
        impl<M: RawMutex + $bound + 'static> Drop for $name<M> {
            fn drop(&mut self) {
                self.futs.drop_all();
                if self.view {
                    return;
                }
                unsafe {
                    drop(Box::from_raw(self.svc as *const _ as *mut GenericTimerService<M>));
                    drop(Box::from_raw(self.clock as *const _ as *mut MockClock));
                }
            }
        }
    };
}

pub trait Any {}
impl<T> Any for T {}

timer_exec!(LocalTimerExec, LocalTimerFuture<'static>, Any, LocalTimer);
timer_exec!(SyncTimerExec, TimerFuture<'static>, Sync, Timer);
