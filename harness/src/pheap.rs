//! Executor for the intrusive pairing heap (model: coq/L0/PHeapPtr.v), through the
//! cfg-guarded re-export `futures_intrusive::verif::{PairingHeap, HeapNode}`.
use crate::core::*;
use futures_intrusive::verif::{HeapNode, PairingHeap};
use std::pin::Pin;

pub struct PHeapExec {
    heap: PairingHeap<u64>,
    nodes: Vec<Pin<Box<HeapNode<u64>>>>,
}

impl PHeapExec {
    pub fn new(cfg: &[u64]) -> Self {
        let nodes = cfg.iter().map(|k| Box::pin(HeapNode::new(*k))).collect();
        PHeapExec { heap: PairingHeap::new(), nodes }
    }
    fn id_of(&self, addr: usize) -> u64 {
        if addr == 0 {
            return 0;
        }
        for (i, n) in self.nodes.iter().enumerate() {
            if &**n as *const HeapNode<u64> as usize == addr {
                return i as u64 + 1;
            }
        }
        DANGLING
    }
    fn observe(&self, o: &mut Obs) {
        o.q.push(self.id_of(self.heap.verif_root()));
        for n in &self.nodes {
            let (p, pv, nx, fc) = n.verif_links();
            o.q.push(self.id_of(p));
            o.q.push(self.id_of(pv));
            o.q.push(self.id_of(nx));
            o.q.push(self.id_of(fc));
        }
    }
}

impl Exec for PHeapExec {
    fn step(&mut self, op: &[u64]) -> Obs {
        let mut o = Obs::default();
        begin_step();
        let k = self.nodes.len();
        match op {
            [0, n] if (*n as usize) < k => {
                let node: *mut HeapNode<u64> = unsafe { self.nodes[*n as usize].as_mut().get_unchecked_mut() };
                let heap = &mut self.heap;
                o.r = vec![lib(|| unsafe { heap.insert(&mut *node) }).map_or(R_PANIC, |_| R_UNIT)];
            }
            [1, n] if (*n as usize) < k => {
                let node: *mut HeapNode<u64> = unsafe { self.nodes[*n as usize].as_mut().get_unchecked_mut() };
                let heap = &mut self.heap;
                o.r = vec![lib(|| unsafe { heap.remove(&mut *node) }).map_or(R_PANIC, |_| R_UNIT)];
            }
            [2] => {
                let heap = &self.heap;
                o.r = match lib(|| heap.peek_min().map(|p| p.as_ptr() as usize)) {
                    None => vec![R_PANIC],
                    Some(a) => vec![self.id_of(a.unwrap_or(0))],
                };
            }
            _ => return Obs::bad(),
        }
        end_step(&mut o);
        self.observe(&mut o);
        o
    }
}
