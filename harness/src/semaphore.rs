//! Executors for GenericSemaphore / GenericSharedSemaphore (model: coq/Model/Semaphore.v).
use crate::core::*;
use crate::lib_or_panic;
use futures_core::future::FusedFuture;
use futures_intrusive::sync::{
    GenericSemaphore, GenericSemaphoreAcquireFuture, GenericSemaphoreReleaser,
    GenericSharedSemaphore, GenericSharedSemaphoreAcquireFuture, GenericSharedSemaphoreReleaser,
};
use futures_intrusive::verif::VerifNode;
use lock_api::RawMutex;
use std::future::Future;
use std::task::{Context, Poll};

macro_rules! sem_exec {
    ($name:ident, $sem:ty, $fut:ty, $rel:ty, $mk:expr) => {
        pub struct $name<M: RawMutex + 'static> {
            sem: $sem,
            futs: Slots<$fut>,
            rels: Vec<$rel>,
        }

        impl<M: RawMutex + 'static> $name<M> {
            pub fn new(cfg: &[u64]) -> Self {
                let k = cfg[0] as usize;
                let sem: $sem = $mk(cfg[1] != 0, cfg[2] as usize);
                $name { sem, futs: Slots::new(k), rels: Vec::with_capacity(64) }
            }

            fn observe(&self, o: &mut Obs) {
                o.p = vec![self.sem.permits() as u64, self.rels.len() as u64];
                o.t = (0..self.futs.len())
                    .map(|i| match self.futs.peek(i) {
                        None => 2,
                        Some(f) => f.is_terminated() as u64,
                    })
                    .collect();
                let mut buf = [VerifNode { addr: 0, state: 0, waker: 0, extra: 0 }; 64];
                let n = self.sem.verif_snapshot(&mut buf);
                for node in &buf[..n] {
                    let slot = self.futs.find(node.addr, |f| f.verif_node_addr());
                    o.q.push(slot.map_or(DANGLING, |s| s as u64));
                    o.q.push(node.state as u64);
                    o.q.push(waker_code(node.waker));
                    o.q.push(node.extra);
                }
            }
        }

        impl<M: RawMutex + 'static> Exec for $name<M> {
            fn step(&mut self, op: &[u64]) -> Obs {
                let mut o = Obs::default();
                begin_step();
                let before = self.sem.permits() as u64;
                match op {
                    [0, f, n] if (*f as usize) < self.futs.len() && !self.futs.alive(*f as usize) => {
                        let sem = &self.sem;
                        let fut = lib_or_panic!(o, || sem.acquire(*n as usize));
                        self.futs.put(*f as usize, fut);
                        o.r = vec![R_UNIT];
                    }
                    [1, f, w] if self.futs.alive(*f as usize) => {
                        let wk = waker(*w);
                        let mut cx = Context::from_waker(&wk);
                        let fut = self.futs.get(*f as usize);
                        o.r = match lib(|| fut.poll(&mut cx)) {
                            None => vec![R_PANIC],
                            Some(Poll::Pending) => vec![R_PENDING],
                            Some(Poll::Ready(r)) => {
                                self.rels.push(r);
                                // permits taken by this acquisition, as observed
                                vec![R_READY, before.wrapping_sub(self.sem.permits() as u64)]
                            }
                        };
                    }
                    [2, f] if self.futs.alive(*f as usize) => {
                        o.r = vec![if self.futs.drop_slot(*f as usize) { R_UNIT } else { R_PANIC }];
                    }
                    [3, n] => {
                        let sem = &self.sem;
                        o.r = match lib(|| sem.try_acquire(*n as usize)) {
                            None => vec![R_PANIC],
                            Some(None) => vec![R_NONE],
                            Some(Some(r)) => {
                                self.rels.push(r);
                                vec![R_SOME]
                            }
                        };
                    }
                    [4, n] => {
                        let sem = &self.sem;
                        o.r = vec![lib(|| sem.release(*n as usize)).map_or(R_PANIC, |_| R_UNIT)];
                    }
                    [5, i] if (*i as usize) < self.rels.len() => {
                        let r = &mut self.rels[*i as usize];
                        o.r = match lib(|| r.disarm()) {
                            None => vec![R_PANIC],
                            Some(a) => vec![R_UNIT, a as u64],
                        };
                    }
                    [6, i] if (*i as usize) < self.rels.len() => {
                        let r = self.rels.remove(*i as usize);
                        o.r = match lib(move || drop(r)) {
                            None => vec![R_PANIC],
                            // permits returned by the drop, as observed
                            Some(()) => vec![R_UNIT, (self.sem.permits() as u64).wrapping_sub(before)],
                        };
                    }
                    _ => return Obs::bad(),
                }
                end_step(&mut o);
                self.observe(&mut o);
                o
            }
            fn share(&self) -> Option<Box<dyn Exec>> {
                Some(Box::new($name::<M> { sem: self.sem.clone(), futs: Slots::new(self.futs.len()), rels: Vec::with_capacity(64) }))
            }
        }

        impl<M: RawMutex + 'static> Drop for $name<M> {
            fn drop(&mut self) {
                self.futs.drop_all();
                self.rels.clear();
            }
        }
    };
}

sem_exec!(
    SemExec,
    &'static GenericSemaphore<M>,
    GenericSemaphoreAcquireFuture<'static, M>,
    GenericSemaphoreReleaser<'static, M>,
    |fair, p| -> &'static GenericSemaphore<M> { Box::leak(Box::new(GenericSemaphore::<M>::new(fair, p))) }
);

sem_exec!(
    SharedSemExec,
    GenericSharedSemaphore<M>,
    GenericSharedSemaphoreAcquireFuture<M>,
    GenericSharedSemaphoreReleaser<M>,
    |fair, p| GenericSharedSemaphore::<M>::new(fair, p)
);
