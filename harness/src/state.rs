//! Executors for the state broadcast channel (model: coq/Model/StateBcast.v).
use crate::core::*;
use futures_core::future::FusedFuture;
use futures_intrusive::channel::shared::{
    generic_state_broadcast_channel, GenericStateReceiver, GenericStateSender, VerifStateObserver,
};
use futures_intrusive::channel::{ChannelSendError, GenericStateBroadcastChannel, StateId};
use futures_intrusive::verif::VerifNode;
use lock_api::RawMutex;
use std::future::Future;
use std::task::{Context, Poll};

const EMPTY: VerifNode = VerifNode { addr: 0, state: 0, waker: 0, extra: 0 };

fn send_res(r: Option<Result<(), ChannelSendError<Val>>>) -> Vec<u64> {
    match r {
        None => vec![R_PANIC],
        Some(Ok(())) => vec![R_OK],
        Some(Err(e)) => vec![R_ERR, e.0.consume(V_BACK)],
    }
}

fn recv_res(r: Option<Option<(StateId, Val)>>) -> Vec<u64> {
    match r {
        None => vec![R_PANIC],
        Some(None) => vec![R_NONE],
        Some(Some((id, v))) => vec![R_SOME, id.verif_raw(), v.consume(V_DELIVERED)],
    }
}

fn teardown_obs() -> Obs {
    let mut o = Obs::default();
    end_step(&mut o);
    let mut tags: Vec<u64> = o.v.chunks(2).filter(|c| c[0] == V_DROPPED).map(|c| c[1]).collect();
    let bad: Vec<u64> = o.v.chunks(2).filter(|c| c[0] != V_DROPPED).flat_map(|c| c.to_vec()).collect();
    tags.sort();
    tags.dedup();
    let mut v = Vec::new();
    for t in tags {
        v.push(V_DROPPED);
        v.push(t);
    }
    v.extend(bad);
    Obs { r: vec![R_UNIT], v, ..Default::default() }
}

/// requested id: the public constructor for the initial id, the raw hook otherwise
fn sid(i: u64) -> StateId {
    if i == 0 { StateId::new() } else { StateId::verif_from_raw(i) }
}

macro_rules! state_exec {
    ($name:ident, $fut:ty, { $($field:ident : $fty:ty),* }, $new:expr,
     send: $send:expr, close: $close:expr, try_recv: $tryr:expr, recv: $recv:expr,
     snap: $snap:expr, st: $st:expr, setid: $setid:expr,
     extra_ops: $extra:expr, teardown: $td:expr, share: $share:expr) => {
        pub struct $name<M: RawMutex + 'static> {
            $($field: $fty,)*
            futs: Slots<$fut>,
            gone: bool,
            view: bool,
        }
        impl<M: RawMutex + 'static> $name<M> {
            pub fn new(cfg: &[u64]) -> Self {
                let f: fn(usize) -> Self = $new;
                f(cfg[0] as usize)
            }
            fn observe(&self, o: &mut Obs) {
                let st: fn(&Self) -> (bool, u64, bool) = $st;
                let (c, id, v) = st(self);
                o.p = vec![c as u64, id, v as u64];
                o.t = (0..self.futs.len())
                    .map(|i| match self.futs.peek(i) { None => 2, Some(f) => f.is_terminated() as u64 })
                    .collect();
                let mut buf = [EMPTY; 64];
                let snap: fn(&Self, &mut [VerifNode]) -> usize = $snap;
                let n = snap(self, &mut buf);
                for node in &buf[..n] {
                    let slot = self.futs.find(node.addr, |f| f.verif_node_addr());
                    o.q.push(slot.map_or(DANGLING, |s| s as u64));
                    o.q.push(node.state as u64);
                    o.q.push(waker_code(node.waker));
                }
            }
        }
        impl<M: RawMutex + 'static> Exec for $name<M> {
            fn step(&mut self, op: &[u64]) -> Obs {
                let mut o = Obs::default();
                if self.gone { return Obs::bad(); }
                begin_step();
                match op {
                    [0, v] => {
                        let val = Val::new(*v);
                        let f: fn(&Self, Val) -> Option<Option<Result<(), ChannelSendError<Val>>>> = $send;
                        match f(self, val) { Some(r) => o.r = send_res(r), None => return Obs::bad() }
                    }
                    [1] => {
                        let f: fn(&Self) -> Option<Option<u64>> = $close;
                        match f(self) { Some(r) => o.r = vec![r.unwrap_or(R_PANIC)], None => return Obs::bad() }
                    }
                    [2, i] => {
                        let f: fn(&Self, StateId) -> Option<Option<Option<(StateId, Val)>>> = $tryr;
                        match f(self, sid(*i)) { Some(r) => o.r = recv_res(r), None => return Obs::bad() }
                    }
                    [3, f, i] if (*f as usize) < self.futs.len() && !self.futs.alive(*f as usize) => {
                        let g: fn(&Self, StateId) -> Option<$fut> = $recv;
                        match g(self, sid(*i)) {
                            Some(fut) => { self.futs.put(*f as usize, fut); o.r = vec![R_UNIT]; }
                            None => return Obs::bad(),
                        }
                    }
                    [4, f, w] if self.futs.alive(*f as usize) => {
                        let wk = waker(*w);
                        let mut cx = Context::from_waker(&wk);
                        let fut = self.futs.get(*f as usize);
                        o.r = match lib(|| fut.poll(&mut cx)) {
                            None => vec![R_PANIC],
                            Some(Poll::Pending) => vec![R_PENDING],
                            Some(Poll::Ready(x)) => recv_res(Some(x)),
                        };
                    }
                    [5, f] if self.futs.alive(*f as usize) => {
                        o.r = vec![if self.futs.drop_slot(*f as usize) { R_UNIT } else { R_PANIC }]
                    }
                    [15, n] => {
                        let f: fn(&Self, u64) = $setid;
                        f(self, *n);
                        o.r = vec![R_UNIT];
                    }
                    [20] => {
                        self.futs.drop_all();
                        let f: fn(&mut Self) = $td;
                        f(self);
                        self.gone = true;
                        return teardown_obs();
                    }
                    other => {
                        let f: fn(&mut Self, &[u64]) -> Option<Vec<u64>> = $extra;
                        match f(self, other) { Some(r) => o.r = r, None => return Obs::bad() }
                    }
                }
                end_step(&mut o);
                self.observe(&mut o);
                o
            }
            fn share(&self) -> Option<Box<dyn Exec>> {
                let f: fn(&Self) -> Option<Self> = $share;
                f(self).map(|x| -> Box<dyn Exec> { Box::new(x) })
            }
        }
        impl<M: RawMutex + 'static> Drop for $name<M> {
            fn drop(&mut self) {
                if !self.gone {
                    self.futs.drop_all();
                    let f: fn(&mut Self) = $td;
                    f(self);
                }
            }
        }
    };
}

state_exec!(BorrowedState, futures_intrusive::channel::StateReceiveFuture<'static, M, Val>,
    { ch: Option<&'static GenericStateBroadcastChannel<M, Val>> },
    |k| BorrowedState { ch: Some(Box::leak(Box::new(GenericStateBroadcastChannel::<M, Val>::new()))), futs: Slots::new(k), gone: false, view: false },
    send: |s, v| { let c = s.ch.unwrap(); Some(lib(|| c.send(v))) },
    close: |s| { let c = s.ch.unwrap(); Some(lib(|| c.close()).map(close_code)) },
    try_recv: |s, i| { let c = s.ch.unwrap(); Some(lib(|| c.try_receive(i))) },
    recv: |s, i| { let c = s.ch.unwrap(); lib(|| c.receive(i)) },
    snap: |s, out| s.ch.unwrap().verif_snapshot(out),
    st: |s| s.ch.unwrap().verif_state(),
    setid: |s, n| s.ch.unwrap().verif_set_state_id(n),
    extra_ops: |_s, _op| None,
    teardown: |s| { if let Some(c) = s.ch.take() { if !s.view { lib(|| unsafe { drop(Box::from_raw(c as *const _ as *mut GenericStateBroadcastChannel<M, Val>)) }); } } },
    share: |s| s.ch.map(|c| BorrowedState { ch: Some(c), futs: Slots::new(s.futs.len()), gone: false, view: true }));

state_exec!(SharedState, futures_intrusive::channel::shared::StateReceiveFuture<M, Val>,
    { senders: Vec<GenericStateSender<M, Val>>, receivers: Vec<GenericStateReceiver<M, Val>>, observer: Option<VerifStateObserver<M, Val>> },
    |k| {
        let (s, r): (GenericStateSender<M, Val>, GenericStateReceiver<M, Val>) =
            match cast(futures_intrusive::channel::shared::state_broadcast_channel::<Val>()) {
                Ok(p) => p,
                Err(p) => { drop(p); generic_state_broadcast_channel::<M, Val>() }
            };
        let observer = Some(s.verif_observer());
        let mut senders = Vec::with_capacity(16); senders.push(s);
        let mut receivers = Vec::with_capacity(16); receivers.push(r);
        SharedState { senders, receivers, observer, futs: Slots::new(k), gone: false, view: false }
    },
    send: |s, v| match s.senders.first() { Some(h) => Some(lib(|| h.send(v))), None => { std::mem::forget(v); None } },
    close: |_s| None,
    try_recv: |s, i| s.receivers.first().map(|h| lib(|| h.try_receive(i))),
    recv: |s, i| s.receivers.first().and_then(|h| lib(|| h.receive(i))),
    snap: |s, out| s.observer.as_ref().unwrap().verif_snapshot(out),
    st: |s| s.observer.as_ref().unwrap().verif_state(),
    setid: |s, n| s.observer.as_ref().unwrap().verif_set_state_id(n),
    extra_ops: |s, op| {
        let was = s.observer.as_ref().unwrap().verif_state().0;
        match op {
            [6] => { let c = s.senders.first().and_then(|h| lib(|| h.clone()))?; s.senders.push(c); Some(vec![R_UNIT]) }
            [10] => { let c = s.receivers.first().and_then(|h| lib(|| h.clone()))?; s.receivers.push(c); Some(vec![R_UNIT]) }
            [9] => { let h = s.senders.pop()?; lib(move || drop(h)); Some(vec![rbool(!was && s.observer.as_ref().unwrap().verif_state().0)]) }
            [13] => { let h = s.receivers.pop()?; lib(move || drop(h)); Some(vec![rbool(!was && s.observer.as_ref().unwrap().verif_state().0)]) }
            _ => None,
        }
    },
    teardown: |s| {
        while let Some(h) = s.senders.pop() { lib(move || drop(h)); }
        while let Some(h) = s.receivers.pop() { lib(move || drop(h)); }
        if let Some(o) = s.observer.take() { lib(move || drop(o)); }
    },
    share: |_s| None);
