//! Executors for the oneshot and oneshot-broadcast channels (model: coq/Model/Oneshot.v).
use crate::core::*;
use futures_core::future::FusedFuture;
use futures_intrusive::channel::shared::{
    self, generic_oneshot_broadcast_channel, generic_oneshot_channel, GenericOneshotBroadcastReceiver,
    GenericOneshotBroadcastSender, GenericOneshotReceiver, GenericOneshotSender,
    VerifBroadcastObserver, VerifOneshotObserver,
};
use futures_intrusive::channel::{
    ChannelReceiveFuture, ChannelSendError, CloseStatus, GenericOneshotBroadcastChannel, GenericOneshotChannel,
};
use futures_intrusive::verif::VerifNode;
use lock_api::RawMutex;
use std::future::Future;
use std::task::{Context, Poll};

const EMPTY: VerifNode = VerifNode { addr: 0, state: 0, waker: 0, extra: 0 };

fn send_res(r: Option<Result<(), ChannelSendError<Val>>>) -> Vec<u64> {
    match r {
        None => vec![R_PANIC],
        Some(Ok(())) => vec![R_OK],
        Some(Err(e)) => vec![R_ERR, e.0.consume(V_BACK)],
    }
}

fn teardown_obs() -> Obs {
    let mut o = Obs::default();
    end_step(&mut o);
    let mut tags: Vec<u64> = o.v.chunks(2).filter(|c| c[0] == V_DROPPED).map(|c| c[1]).collect();
    let bad: Vec<u64> = o.v.chunks(2).filter(|c| c[0] != V_DROPPED).flat_map(|c| c.to_vec()).collect();
    tags.sort();
    tags.dedup(); // broadcast: clones of the one value
    let mut v = Vec::new();
    for t in tags {
        v.push(V_DROPPED);
        v.push(t);
    }
    v.extend(bad);
    Obs { r: vec![R_UNIT], v, ..Default::default() }
}

/// What the executors need from a channel / handle set.
pub trait OneApi {
    type Fut: Future<Output = Option<Val>> + FusedFuture;
    fn send(&self, v: Val) -> Option<Result<(), ChannelSendError<Val>>>;
    fn close(&self) -> Option<CloseStatus>;
    fn receive(&self) -> Option<Self::Fut>;
    fn snapshot(&self, out: &mut [VerifNode]) -> usize;
    fn state(&self) -> (bool, u64, bool);
    fn node_addr(f: &Self::Fut) -> usize;
    fn drop_sender(&mut self) -> bool;
    fn clone_receiver(&mut self) -> bool;
    fn drop_receiver(&mut self) -> bool;
    fn teardown(&mut self);
    /// a second handle on the same channel that never frees it (threaded runs)
    fn view(&self) -> Option<Self>
    where
        Self: Sized,
    {
        None
    }
}

pub struct OneExec<C: OneApi> {
    ch: C,
    futs: Slots<C::Fut>,
    gone: bool,
}

impl<C: OneApi> OneExec<C> {
    pub fn with(ch: C, k: usize) -> Self {
        OneExec { ch, futs: Slots::new(k), gone: false }
    }
    fn observe(&self, o: &mut Obs) {
        let (f, _, v) = self.ch.state();
        o.p = vec![f as u64, v as u64];
        o.t = (0..self.futs.len())
            .map(|i| match self.futs.peek(i) {
                None => 2,
                Some(f) => f.is_terminated() as u64,
            })
            .collect();
        let mut buf = [EMPTY; 64];
        let n = self.ch.snapshot(&mut buf);
        for node in &buf[..n] {
            let slot = self.futs.find(node.addr, |f| C::node_addr(f));
            o.q.push(slot.map_or(DANGLING, |s| s as u64));
            o.q.push(node.state as u64);
            o.q.push(waker_code(node.waker));
        }
    }
}

impl<C: OneApi + 'static> Exec for OneExec<C> {
    fn step(&mut self, op: &[u64]) -> Obs {
        let mut o = Obs::default();
        if self.gone {
            return Obs::bad();
        }
        begin_step();
        match op {
            [0, v] => {
                let val = Val::new(*v);
                o.r = send_res(self.ch.send(val));
            }
            [1] => {
                o.r = vec![match self.ch.close() {
                    None => R_PANIC,
                    Some(c) => close_code(c),
                }]
            }
            [2, f] if (*f as usize) < self.futs.len() && !self.futs.alive(*f as usize) => match self.ch.receive() {
                Some(fut) => {
                    self.futs.put(*f as usize, fut);
                    o.r = vec![R_UNIT];
                }
                None => return Obs::bad(),
            },
            [3, f, w] if self.futs.alive(*f as usize) => {
                let wk = waker(*w);
                let mut cx = Context::from_waker(&wk);
                let fut = self.futs.get(*f as usize);
                o.r = match lib(|| fut.poll(&mut cx)) {
                    None => vec![R_PANIC],
                    Some(Poll::Pending) => vec![R_PENDING],
                    Some(Poll::Ready(None)) => vec![R_NONE],
                    Some(Poll::Ready(Some(v))) => vec![R_SOME, v.consume(V_DELIVERED)],
                };
            }
            [4, f] if self.futs.alive(*f as usize) => {
                o.r = vec![if self.futs.drop_slot(*f as usize) { R_UNIT } else { R_PANIC }]
            }
            [5] => {
                let was = self.ch.state().0;
                if !self.ch.drop_sender() {
                    return Obs::bad();
                }
                o.r = vec![rbool(!was && self.ch.state().0)];
            }
            [6] => {
                if !self.ch.clone_receiver() {
                    return Obs::bad();
                }
                o.r = vec![R_UNIT];
            }
            [9] => {
                let was = self.ch.state().0;
                if !self.ch.drop_receiver() {
                    return Obs::bad();
                }
                o.r = vec![rbool(!was && self.ch.state().0)];
            }
            [20] => {
                self.futs.drop_all();
                self.ch.teardown();
                self.gone = true;
                return teardown_obs();
            }
            _ => return Obs::bad(),
        }
        end_step(&mut o);
        self.observe(&mut o);
        o
    }
    fn share(&self) -> Option<Box<dyn Exec>> {
        let k = self.futs.len();
        self.ch.view().map(|c| -> Box<dyn Exec> { Box::new(OneExec::with(c, k)) })
    }
}

impl<C: OneApi> Drop for OneExec<C> {
    fn drop(&mut self) {
        if !self.gone {
            self.futs.drop_all();
            self.ch.teardown();
        }
    }
}

// ---- borrowed flavours -------------------------------------------------------------------

macro_rules! borrowed_api {
    ($name:ident, $chan:ident) => {
        pub struct $name<M: RawMutex + 'static>(Option<&'static $chan<M, Val>>, bool);
        impl<M: RawMutex + 'static> $name<M> {
            pub fn new() -> Self {
                $name(Some(Box::leak(Box::new($chan::<M, Val>::new()))), false)
            }
        }
        impl<M: RawMutex + 'static> OneApi for $name<M> {
            type Fut = ChannelReceiveFuture<'static, M, Val>;
            fn send(&self, v: Val) -> Option<Result<(), ChannelSendError<Val>>> {
                let c = self.0.unwrap();
                lib(|| c.send(v))
            }
            fn close(&self) -> Option<CloseStatus> {
                let c = self.0.unwrap();
                lib(|| c.close())
            }
            fn receive(&self) -> Option<Self::Fut> {
                let c = self.0.unwrap();
                lib(|| c.receive())
            }
            fn snapshot(&self, out: &mut [VerifNode]) -> usize {
                self.0.unwrap().verif_snapshot(out)
            }
            fn state(&self) -> (bool, u64, bool) {
                self.0.unwrap().verif_state()
            }
            fn node_addr(f: &Self::Fut) -> usize {
                f.verif_node_addr()
            }
            fn drop_sender(&mut self) -> bool {
                false
            }
            fn clone_receiver(&mut self) -> bool {
                false
            }
            fn drop_receiver(&mut self) -> bool {
                false
            }
            fn teardown(&mut self) {
                if let Some(c) = self.0.take() {
                    if !self.1 {
                        lib(|| unsafe { drop(Box::from_raw(c as *const _ as *mut $chan<M, Val>)) });
                    }
                }
            }
            fn view(&self) -> Option<Self> {
                self.0.map(|c| $name(Some(c), true))
            }
        }
    };
}
borrowed_api!(BorrowedOneshot, GenericOneshotChannel);
borrowed_api!(BorrowedBroadcast, GenericOneshotBroadcastChannel);

// ---- shared flavours ---------------------------------------------------------------------

macro_rules! shared_api {
    ($name:ident, $mk:ident, $conv:path, $snd:ident, $rcv:ident, $obs:ident, $clone:expr) => {
        pub struct $name<M: RawMutex + 'static> {
            sender: Option<$snd<M, Val>>,
            receivers: Vec<$rcv<M, Val>>,
            observer: Option<$obs<M, Val>>,
        }
        impl<M: RawMutex + 'static> $name<M> {
            pub fn new() -> Self {
                // parking_lot flavour: through the crate's convenience constructor
                let (s, r): ($snd<M, Val>, $rcv<M, Val>) = match cast($conv()) {
                    Ok(p) => p,
                    Err(p) => { drop(p); $mk::<M, Val>() }
                };
                let observer = Some(s.verif_observer());
                let mut receivers = Vec::with_capacity(16);
                receivers.push(r);
                $name { sender: Some(s), receivers, observer }
            }
        }
        impl<M: RawMutex + 'static> OneApi for $name<M> {
            type Fut = shared::ChannelReceiveFuture<M, Val>;
            fn send(&self, v: Val) -> Option<Result<(), ChannelSendError<Val>>> {
                match &self.sender {
                    Some(s) => lib(|| s.send(v)),
                    None => {
                        std::mem::forget(v);
                        None
                    }
                }
            }
            fn close(&self) -> Option<CloseStatus> {
                None
            }
            fn receive(&self) -> Option<Self::Fut> {
                let r = self.receivers.first()?;
                lib(|| r.receive())
            }
            fn snapshot(&self, out: &mut [VerifNode]) -> usize {
                self.observer.as_ref().unwrap().verif_snapshot(out)
            }
            fn state(&self) -> (bool, u64, bool) {
                self.observer.as_ref().unwrap().verif_state()
            }
            fn node_addr(f: &Self::Fut) -> usize {
                f.verif_node_addr()
            }
            fn drop_sender(&mut self) -> bool {
                match self.sender.take() {
                    Some(s) => {
                        lib(move || drop(s));
                        true
                    }
                    None => false,
                }
            }
            fn clone_receiver(&mut self) -> bool {
                let f: fn(&$rcv<M, Val>) -> Option<$rcv<M, Val>> = $clone;
                match self.receivers.first().and_then(|r| lib(|| f(r)).flatten()) {
                    Some(c) => {
                        self.receivers.push(c);
                        true
                    }
                    None => false,
                }
            }
            fn drop_receiver(&mut self) -> bool {
                match self.receivers.pop() {
                    Some(r) => {
                        lib(move || drop(r));
                        true
                    }
                    None => false,
                }
            }
            fn teardown(&mut self) {
                if let Some(s) = self.sender.take() {
                    lib(move || drop(s));
                }
                while let Some(r) = self.receivers.pop() {
                    lib(move || drop(r));
                }
                if let Some(o) = self.observer.take() {
                    lib(move || drop(o));
                }
            }
        }
    };
}
shared_api!(SharedOneshot, generic_oneshot_channel, futures_intrusive::channel::shared::oneshot_channel::<Val>, GenericOneshotSender, GenericOneshotReceiver, VerifOneshotObserver, |_r| None);
shared_api!(SharedBroadcast, generic_oneshot_broadcast_channel, futures_intrusive::channel::shared::oneshot_broadcast_channel::<Val>, GenericOneshotBroadcastSender, GenericOneshotBroadcastReceiver, VerifBroadcastObserver, |r| Some(r.clone()));

pub fn make<M: RawMutex + 'static>(cfg: &[u64], shared: bool) -> Box<dyn Exec> {
    let k = cfg[0] as usize;
    let bcast = cfg[1] != 0;
    match (shared, bcast) {
        (false, false) => Box::new(OneExec::with(BorrowedOneshot::<M>::new(), k)),
        (false, true) => Box::new(OneExec::with(BorrowedBroadcast::<M>::new(), k)),
        (true, false) => Box::new(OneExec::with(SharedOneshot::<M>::new(), k)),
        (true, true) => Box::new(OneExec::with(SharedBroadcast::<M>::new(), k)),
    }
}
