//! Executors for the mpmc channel (model: coq/Model/Mpmc.v): borrowed GenericChannel with
//! ArrayBuf / FixedHeapBuf / GrowingHeapBuf, and the shared sender/receiver flavour.
use crate::core::*;
use crate::lib_or_panic;
use futures_core::future::FusedFuture;
use futures_core::stream::{FusedStream, Stream};
use futures_intrusive::buffer::{ArrayBuf, FixedHeapBuf, GrowingHeapBuf, RingBuf};
use futures_intrusive::channel::shared::{
    self, generic_channel, GenericReceiver, GenericSender, SharedStream, VerifObserver,
};
use futures_intrusive::channel::{
    ChannelReceiveFuture, ChannelSendFuture, ChannelStream, GenericChannel, TryReceiveError, TrySendError,
};
use futures_intrusive::verif::VerifNode;
use lock_api::RawMutex;
use std::future::Future;
use std::task::{Context, Poll};

const EMPTY: VerifNode = VerifNode { addr: 0, state: 0, waker: 0, extra: 0 };

fn teardown_obs() -> Obs {
    // called after everything was dropped inside the current step: keep only the
    // (sorted) set of destroyed values
    let mut o = Obs::default();
    end_step(&mut o);
    let mut tags: Vec<u64> = o.v.chunks(2).filter(|c| c[0] == V_DROPPED).map(|c| c[1]).collect();
    let bad: Vec<u64> = o.v.chunks(2).filter(|c| c[0] != V_DROPPED).flat_map(|c| c.to_vec()).collect();
    tags.sort();
    let mut v = Vec::new();
    for t in tags {
        v.push(V_DROPPED);
        v.push(t);
    }
    v.extend(bad);
    Obs { r: vec![R_UNIT], v, ..Default::default() }
}

macro_rules! chan_common {
    () => {
        fn observe_queues(&self, o: &mut Obs, nr: usize, ns: usize, rb: &[VerifNode], sb: &[VerifNode]) {
            let kr = self.rf.len();
            for node in &rb[..nr] {
                let mut slot = self.rf.find(node.addr, |f| f.verif_node_addr());
                if slot.is_none() {
                    for k in 0..self.streams.len() {
                        if let Some(st) = self.streams.peek(k) {
                            if st.verif_future_node_addr() == node.addr {
                                slot = Some(kr - 1 - k);
                            }
                        }
                    }
                }
                o.q.push(slot.map_or(DANGLING, |s| s as u64));
                o.q.push(node.state as u64);
                o.q.push(waker_code(node.waker));
            }
            o.q.push(7777);
            for node in &sb[..ns] {
                let slot = self.sf.find(node.addr, |f| f.verif_node_addr());
                o.q.push(slot.map_or(DANGLING, |s| s as u64));
                o.q.push(node.state as u64);
                o.q.push(waker_code(node.waker));
                o.q.push(node.extra);
            }
            o.t = (0..self.sf.len())
                .map(|i| match self.sf.peek(i) {
                    None => 2,
                    Some(f) => f.is_terminated() as u64,
                })
                .chain((0..self.rf.len()).map(|i| match self.rf.peek(i) {
                    None => {
                        // the receive future owned by a stream occupies the stream's slot
                        let k = self.rf.len() - 1 - i;
                        match self.streams.peek(k) {
                            Some(st) if k < self.streams.len() && st.verif_future_node_addr() != 0 => 0,
                            _ => 2,
                        }
                    }
                    Some(f) => f.is_terminated() as u64,
                }))
                .chain((0..self.streams.len()).map(|k| match self.streams.peek(k) {
                    None => 2,
                    Some(st) => st.is_terminated() as u64,
                }))
                .collect();
        }

        fn poll_send(&mut self, f: usize, w: u64) -> Vec<u64> {
            let wk = waker(w);
            let mut cx = Context::from_waker(&wk);
            let fut = self.sf.get(f);
            match lib(|| fut.poll(&mut cx)) {
                None => vec![R_PANIC],
                Some(Poll::Pending) => vec![R_PENDING],
                Some(Poll::Ready(Ok(()))) => vec![R_OK],
                Some(Poll::Ready(Err(e))) => vec![R_ERR, e.0.consume(V_BACK)],
            }
        }

        fn cancel_send(&mut self, f: usize) -> Vec<u64> {
            let mut fut = self.sf.get(f);
            // cancel() takes &mut self; the futures are !Unpin, the harness never moves them
            let r = lib(|| unsafe { fut.as_mut().get_unchecked_mut().cancel() });
            match r {
                None => vec![R_PANIC],
                Some(None) => vec![R_NONE],
                Some(Some(v)) => vec![R_SOME, v.consume(V_BACK)],
            }
        }

        fn poll_stream(&mut self, k: usize, w: u64) -> Vec<u64> {
            let wk = waker(w);
            let mut cx = Context::from_waker(&wk);
            let st = self.streams.get(k);
            match lib(|| st.poll_next(&mut cx)) {
                None => vec![R_PANIC],
                Some(Poll::Pending) => vec![R_PENDING],
                Some(Poll::Ready(None)) => vec![R_NONE],
                Some(Poll::Ready(Some(v))) => vec![R_SOME, v.consume(V_DELIVERED)],
            }
        }

        fn poll_recv(&mut self, f: usize, w: u64) -> Vec<u64> {
            let wk = waker(w);
            let mut cx = Context::from_waker(&wk);
            let fut = self.rf.get(f);
            match lib(|| fut.poll(&mut cx)) {
                None => vec![R_PANIC],
                Some(Poll::Pending) => vec![R_PENDING],
                Some(Poll::Ready(None)) => vec![R_NONE],
                Some(Poll::Ready(Some(v))) => vec![R_SOME, v.consume(V_DELIVERED)],
            }
        }
    };
}

fn try_send_res(r: Option<Result<(), TrySendError<Val>>>) -> Vec<u64> {
    match r {
        None => vec![R_PANIC],
        Some(Ok(())) => vec![R_OK],
        Some(Err(TrySendError::Closed(v))) => vec![R_ERR, 1, v.consume(V_BACK)],
        Some(Err(TrySendError::Full(v))) => vec![R_ERR, 2, v.consume(V_BACK)],
    }
}

fn try_recv_res(r: Option<Result<Val, TryReceiveError>>) -> Vec<u64> {
    match r {
        None => vec![R_PANIC],
        Some(Ok(v)) => vec![R_SOME, v.consume(V_DELIVERED)],
        Some(Err(TryReceiveError::Closed)) => vec![R_ERR, 1],
        Some(Err(TryReceiveError::Empty)) => vec![R_ERR, 2],
    }
}

fn close_res(r: Option<futures_intrusive::channel::CloseStatus>) -> u64 {
    match r {
        None => R_PANIC,
        Some(c) => close_code(c),
    }
}

// ---------------------------------------------------------------------------
// borrowed flavour

pub struct ChanExec<M: RawMutex + 'static, A: RingBuf<Item = Val> + 'static> {
    ch: Option<&'static GenericChannel<M, Val, A>>,
    sf: Slots<ChannelSendFuture<'static, M, Val>>,
    rf: Slots<ChannelReceiveFuture<'static, M, Val>>,
    streams: Slots<ChannelStream<'static, M, Val, A>>,
    view: bool,
}

impl<M: RawMutex + 'static, A: RingBuf<Item = Val> + 'static> ChanExec<M, A> {
    pub fn new(cfg: &[u64]) -> Self {
        let ch = Box::leak(Box::new(GenericChannel::<M, Val, A>::with_capacity(cfg[2] as usize)));
        let ns = cfg.get(5).copied().unwrap_or(0) as usize;
        ChanExec { ch: Some(ch), sf: Slots::new(cfg[1] as usize), rf: Slots::new(cfg[0] as usize), streams: Slots::new(ns), view: false }
    }
    /// array-backed buffers: `new()` (the capacity is the array length)
    pub fn new_default(cfg: &[u64]) -> Self {
        let ch = Box::leak(Box::new(GenericChannel::<M, Val, A>::new()));
        let ns = cfg.get(5).copied().unwrap_or(0) as usize;
        ChanExec { ch: Some(ch), sf: Slots::new(cfg[1] as usize), rf: Slots::new(cfg[0] as usize), streams: Slots::new(ns), view: false }
    }
    chan_common!();

    fn observe(&self, o: &mut Obs) {
        let ch = self.ch.unwrap();
        let (c, n) = ch.verif_state();
        o.p = vec![c as u64, n as u64];
        let mut rb = [EMPTY; 64];
        let mut sb = [EMPTY; 64];
        let (nr, ns) = ch.verif_snapshot(&mut rb, &mut sb);
        self.observe_queues(o, nr, ns, &rb, &sb);
    }

    fn teardown(&mut self) {
        self.sf.drop_all();
        self.rf.drop_all();
        self.streams.drop_all();
        if let Some(ch) = self.ch.take() {
            if !self.view {
                lib(|| unsafe { drop(Box::from_raw(ch as *const _ as *mut GenericChannel<M, Val, A>)) });
            }
        }
    }
}

impl<M: RawMutex + 'static, A: RingBuf<Item = Val> + 'static> Exec for ChanExec<M, A> {
    fn step(&mut self, op: &[u64]) -> Obs {
        let mut o = Obs::default();
        let ch = match self.ch {
            Some(c) => c,
            None => return Obs::bad(),
        };
        begin_step();
        match op {
            [0, f, v] if (*f as usize) < self.sf.len() && !self.sf.alive(*f as usize) => {
                let val = Val::new(*v);
                let fut = lib_or_panic!(o, || ch.send(val));
                self.sf.put(*f as usize, fut);
                o.r = vec![R_UNIT];
            }
            [1, f, w] if self.sf.alive(*f as usize) => o.r = self.poll_send(*f as usize, *w),
            [2, f] if self.sf.alive(*f as usize) => o.r = self.cancel_send(*f as usize),
            [3, f] if self.sf.alive(*f as usize) => {
                o.r = vec![if self.sf.drop_slot(*f as usize) { R_UNIT } else { R_PANIC }]
            }
            [4, f] if (*f as usize) < self.rf.len() && !self.rf.alive(*f as usize) => {
                let fut = lib_or_panic!(o, || ch.receive());
                self.rf.put(*f as usize, fut);
                o.r = vec![R_UNIT];
            }
            [5, f, w] if self.rf.alive(*f as usize) => o.r = self.poll_recv(*f as usize, *w),
            [6, f] if self.rf.alive(*f as usize) => {
                o.r = vec![if self.rf.drop_slot(*f as usize) { R_UNIT } else { R_PANIC }]
            }
            [7, v] => {
                let val = Val::new(*v);
                o.r = try_send_res(lib(|| ch.try_send(val)));
            }
            [8] => o.r = try_recv_res(lib(|| ch.try_receive())),
            [9] => o.r = vec![close_res(lib(|| ch.close()))],
            [30, k] if (*k as usize) < self.streams.len() && !self.streams.alive(*k as usize) => {
                let st = lib_or_panic!(o, || ch.stream());
                self.streams.put(*k as usize, st);
                o.r = vec![R_UNIT];
            }
            [31, k, w] if self.streams.alive(*k as usize) => o.r = self.poll_stream(*k as usize, *w),
            [32, k] if self.streams.alive(*k as usize) => {
                o.r = vec![if self.streams.drop_slot(*k as usize) { R_UNIT } else { R_PANIC }]
            }
            [20] => {
                self.teardown();
                return teardown_obs();
            }
            _ => return Obs::bad(),
        }
        end_step(&mut o);
        self.observe(&mut o);
        o
    }
    fn share(&self) -> Option<Box<dyn Exec>> {
        self.ch.map(|ch| -> Box<dyn Exec> {
            Box::new(ChanExec::<M, A> { ch: Some(ch), sf: Slots::new(self.sf.len()), rf: Slots::new(self.rf.len()), streams: Slots::new(self.streams.len()), view: true })
        })
    }
}

impl<M: RawMutex + 'static, A: RingBuf<Item = Val> + 'static> Drop for ChanExec<M, A> {
    fn drop(&mut self) {
        self.teardown();
    }
}

// ---------------------------------------------------------------------------
// shared flavour

pub struct SharedChanExec<M: RawMutex + 'static, A: RingBuf<Item = Val> + 'static> {
    senders: Vec<GenericSender<M, Val, A>>,
    receivers: Vec<GenericReceiver<M, Val, A>>,
    observer: Option<VerifObserver<M, Val, A>>,
    sf: Slots<shared::ChannelSendFuture<M, Val>>,
    rf: Slots<shared::ChannelReceiveFuture<M, Val>>,
    streams: Slots<SharedStream<M, Val, A>>,
}

impl<M: RawMutex + 'static, A: RingBuf<Item = Val> + 'static> SharedChanExec<M, A> {
    pub fn new(cfg: &[u64]) -> Self {
        // the parking_lot + growing-buffer flavour goes through the crate's convenience
        // constructors `channel(capacity)` / `unbuffered_channel()`
        let cap = cfg[2] as usize;
        let conv = if cap == 0 { cast(shared::unbuffered_channel::<Val>()) } else { cast(shared::channel::<Val>(cap)) };
        let (s, r): (GenericSender<M, Val, A>, GenericReceiver<M, Val, A>) = match conv {
            Ok(p) => p,
            Err(p) => { drop(p); generic_channel::<M, Val, A>(cap) }
        };
        let observer = Some(s.verif_observer());
        let mut senders = Vec::with_capacity(16);
        let mut receivers = Vec::with_capacity(16);
        senders.push(s);
        receivers.push(r);
        let ns = cfg.get(5).copied().unwrap_or(0) as usize;
        SharedChanExec { senders, receivers, observer, sf: Slots::new(cfg[1] as usize), rf: Slots::new(cfg[0] as usize), streams: Slots::new(ns) }
    }
    chan_common!();

    fn observe(&self, o: &mut Obs) {
        let ob = self.observer.as_ref().unwrap();
        let (c, n) = ob.verif_state();
        o.p = vec![c as u64, n as u64];
        let mut rb = [EMPTY; 64];
        let mut sb = [EMPTY; 64];
        let (nr, ns) = ob.verif_snapshot(&mut rb, &mut sb);
        self.observe_queues(o, nr, ns, &rb, &sb);
    }

    fn teardown(&mut self) {
        self.sf.drop_all();
        self.rf.drop_all();
        self.streams.drop_all();
        while let Some(s) = self.senders.pop() {
            lib(move || drop(s));
        }
        while let Some(r) = self.receivers.pop() {
            lib(move || drop(r));
        }
        if let Some(ob) = self.observer.take() {
            lib(move || drop(ob));
        }
    }
}

impl<M: RawMutex + 'static, A: RingBuf<Item = Val> + 'static> Exec for SharedChanExec<M, A> {
    fn step(&mut self, op: &[u64]) -> Obs {
        let mut o = Obs::default();
        if self.observer.is_none() {
            return Obs::bad();
        }
        begin_step();
        match op {
            [0, f, v] if (*f as usize) < self.sf.len() && !self.sf.alive(*f as usize) && !self.senders.is_empty() => {
                let val = Val::new(*v);
                let s = &self.senders[0];
                let fut = lib_or_panic!(o, || s.send(val));
                self.sf.put(*f as usize, fut);
                o.r = vec![R_UNIT];
            }
            [1, f, w] if self.sf.alive(*f as usize) => o.r = self.poll_send(*f as usize, *w),
            [2, f] if self.sf.alive(*f as usize) => o.r = self.cancel_send(*f as usize),
            [3, f] if self.sf.alive(*f as usize) => {
                o.r = vec![if self.sf.drop_slot(*f as usize) { R_UNIT } else { R_PANIC }]
            }
            [4, f] if (*f as usize) < self.rf.len() && !self.rf.alive(*f as usize) && !self.receivers.is_empty() => {
                let r = &self.receivers[0];
                let fut = lib_or_panic!(o, || r.receive());
                self.rf.put(*f as usize, fut);
                o.r = vec![R_UNIT];
            }
            [5, f, w] if self.rf.alive(*f as usize) => o.r = self.poll_recv(*f as usize, *w),
            [6, f] if self.rf.alive(*f as usize) => {
                o.r = vec![if self.rf.drop_slot(*f as usize) { R_UNIT } else { R_PANIC }]
            }
            [7, v] if !self.senders.is_empty() => {
                let val = Val::new(*v);
                let s = &self.senders[0];
                o.r = try_send_res(lib(|| s.try_send(val)));
            }
            [8] if !self.receivers.is_empty() => {
                let r = &self.receivers[0];
                o.r = try_recv_res(lib(|| r.try_receive()));
            }
            [9] if !self.senders.is_empty() => {
                let s = &self.senders[0];
                o.r = vec![close_res(lib(|| s.close()))];
            }
            [9] if !self.receivers.is_empty() => {
                let r = &self.receivers[0];
                o.r = vec![close_res(lib(|| r.close()))];
            }
            [9] if (0..self.streams.len()).any(|k| self.streams.alive(k)) => {
                let k = (0..self.streams.len()).find(|k| self.streams.alive(*k)).unwrap();
                let st = self.streams.peek(k).unwrap();
                o.r = vec![close_res(lib(|| st.close()))];
            }
            [10] if !self.senders.is_empty() => {
                let s = &self.senders[0];
                let c = lib_or_panic!(o, || s.clone());
                self.senders.push(c);
                o.r = vec![R_UNIT];
            }
            [13] if !self.receivers.is_empty() => {
                let r = &self.receivers[0];
                let c = lib_or_panic!(o, || r.clone());
                self.receivers.push(c);
                o.r = vec![R_UNIT];
            }
            [14] if !self.senders.is_empty() => {
                // result codes of the model: [last?] ++ [newly closed?] if last
                let ob = self.observer.as_ref().unwrap();
                let was_closed = ob.verif_state().0;
                let s = self.senders.pop().unwrap();
                let ok = lib(move || drop(s)).is_some();
                o.r = if !ok { vec![R_PANIC] } else { vec![rbool(!was_closed && ob.verif_state().0)] };
            }
            [16] if !self.receivers.is_empty() => {
                let ob = self.observer.as_ref().unwrap();
                let was_closed = ob.verif_state().0;
                let r = self.receivers.pop().unwrap();
                let ok = lib(move || drop(r)).is_some();
                o.r = if !ok { vec![R_PANIC] } else { vec![rbool(!was_closed && ob.verif_state().0)] };
            }
            [30, k] if (*k as usize) < self.streams.len() && !self.streams.alive(*k as usize) && !self.receivers.is_empty() => {
                let r = self.receivers.pop().unwrap();
                let st = lib_or_panic!(o, move || r.into_stream());
                self.streams.put(*k as usize, st);
                o.r = vec![R_UNIT];
            }
            [31, k, w] if self.streams.alive(*k as usize) => o.r = self.poll_stream(*k as usize, *w),
            [32, k] if self.streams.alive(*k as usize) => {
                o.r = vec![if self.streams.drop_slot(*k as usize) { R_UNIT } else { R_PANIC }]
            }
            [20] => {
                self.teardown();
                return teardown_obs();
            }
            _ => return Obs::bad(),
        }
        end_step(&mut o);
        self.observe(&mut o);
        o
    }
}

impl<M: RawMutex + 'static, A: RingBuf<Item = Val> + 'static> Drop for SharedChanExec<M, A> {
    fn drop(&mut self) {
        self.teardown();
    }
}

// ---------------------------------------------------------------------------

pub type Arr0 = ArrayBuf<Val, [Val; 0]>;
pub type Arr1 = ArrayBuf<Val, [Val; 1]>;
pub type Arr2 = ArrayBuf<Val, [Val; 2]>;
pub type Arr3 = ArrayBuf<Val, [Val; 3]>;
pub type Fixed = FixedHeapBuf<Val>;
pub type Growing = GrowingHeapBuf<Val>;

pub fn make_array<M: RawMutex + 'static>(cfg: &[u64]) -> Option<Box<dyn Exec>> {
    Some(match cfg[2] {
        0 => Box::new(ChanExec::<M, Arr0>::new_default(cfg)),
        1 => Box::new(ChanExec::<M, Arr1>::new_default(cfg)),
        2 => Box::new(ChanExec::<M, Arr2>::new_default(cfg)),
        3 => Box::new(ChanExec::<M, Arr3>::new_default(cfg)),
        _ => return None,
    })
}
