//! Executor for the ring buffers (model: coq/L0/RingBuf.v). Public API only.
use crate::core::*;
use futures_intrusive::buffer::{ArrayBuf, FixedHeapBuf, GrowingHeapBuf, RingBuf};

pub struct BufExec<B: RingBuf<Item = Val>> {
    buf: Option<B>,
}

impl<B: RingBuf<Item = Val>> BufExec<B> {
    pub fn new(cap: usize) -> Self {
        BufExec { buf: Some(B::with_capacity(cap)) }
    }
}

impl<B: RingBuf<Item = Val>> Exec for BufExec<B> {
    fn step(&mut self, op: &[u64]) -> Obs {
        let mut o = Obs::default();
        if self.buf.is_none() {
            return Obs::bad();
        }
        begin_step();
        match op {
            [0, x] => {
                let v = Val::new(*x);
                let b = self.buf.as_mut().unwrap();
                o.r = vec![lib(|| b.push(v)).map_or(R_PANIC, |_| R_UNIT)];
            }
            [1] => {
                let b = self.buf.as_mut().unwrap();
                o.r = match lib(|| b.pop()) {
                    None => vec![R_PANIC],
                    Some(v) => vec![R_SOME, v.consume(V_DELIVERED)],
                };
            }
            [2] => o.r = vec![R_UNIT],
            [3] => {
                let b = self.buf.take().unwrap();
                o.r = vec![lib(move || drop(b)).map_or(R_PANIC, |_| R_UNIT)];
            }
            _ => return Obs::bad(),
        }
        end_step(&mut o);
        if let Some(b) = &self.buf {
            o.p = vec![b.len() as u64, b.is_empty() as u64, b.can_push() as u64, b.capacity() as u64];
        }
        o
    }
}

pub fn make(cfg: &[u64]) -> Option<Box<dyn Exec>> {
    let cap = cfg[1] as usize;
    Some(match (cfg[0], cap) {
        (0, 0) => Box::new(BufExec::<ArrayBuf<Val, [Val; 0]>>::new(cap)),
        (0, 1) => Box::new(BufExec::<ArrayBuf<Val, [Val; 1]>>::new(cap)),
        (0, 2) => Box::new(BufExec::<ArrayBuf<Val, [Val; 2]>>::new(cap)),
        (0, 3) => Box::new(BufExec::<ArrayBuf<Val, [Val; 3]>>::new(cap)),
        (0, 4) => Box::new(BufExec::<ArrayBuf<Val, [Val; 4]>>::new(cap)),
        (0, 5) => Box::new(BufExec::<ArrayBuf<Val, [Val; 5]>>::new(cap)),
        (1, _) => Box::new(BufExec::<FixedHeapBuf<Val>>::new(cap)),
        (2, _) => Box::new(BufExec::<GrowingHeapBuf<Val>>::new(cap)),
        _ => return None,
    })
}
