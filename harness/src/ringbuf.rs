//! Executor for the ring buffers (model: coq/L0/RingBuf.v). Public API only.
use crate::core::*;
use futures_intrusive::buffer::{ArrayBuf, FixedHeapBuf, GrowingHeapBuf, RingBuf};

pub struct BufExec<B: RingBuf<Item = Val>> {
    buf: Option<B>,
}

impl<B: RingBuf<Item = Val>> BufExec<B> {
    pub fn new(cap: usize) -> Self {
        BufExec { buf: Some(B::with_capacity(cap)) }
    }
}

impl<B: RingBuf<Item = Val>> Exec for BufExec<B> {
    fn step(&mut self, op: &[u64]) -> Obs {
        let mut o = Obs::default();
        if self.buf.is_none() {
            return Obs::bad();
        }
        begin_step();
        match op {
            [0, x] => {
                let v = Val::new(*x);
                let b = self.buf.as_mut().unwrap();
                o.r = vec![lib(|| b.push(v)).map_or(R_PANIC, |_| R_UNIT)];
            }
            [1] => {
                let b = self.buf.as_mut().unwrap();
                o.r = match lib(|| b.pop()) {
                    None => vec![R_PANIC],
                    Some(v) => vec![R_SOME, v.consume(V_DELIVERED)],
                };
            }
            [2] => o.r = vec![R_UNIT],
            [3] => {
                let b = self.buf.take().unwrap();
                o.r = vec![lib(move || drop(b)).map_or(R_PANIC, |_| R_UNIT)];
            }
            _ => return Obs::bad(),
        }
        end_step(&mut o);
        if let Some(b) = &self.buf {
            o.p = vec![b.len() as u64, b.is_empty() as u64, b.can_push() as u64, b.capacity() as u64];
        } else {
            // destruction of the buffer frees its storage: outside every allocation claim
            o.a = 0;
        }
        o
    }
}

// ---------------------------------------------------------------------------
// zero-sized elements: `size_of::<T>() == 0` changes what VecDeque / pointer arithmetic do
// underneath the buffers.  Elements are indistinguishable, so the executor keeps the tags of the
// stored elements in a shadow FIFO: a pop reports the oldest tag, every `Drop` of an element the
// buffer still owned reports the next one (a drop with an empty shadow is a double drop).

thread_local! {
    static ZST_SHADOW: std::cell::RefCell<std::collections::VecDeque<u64>> = std::cell::RefCell::new(std::collections::VecDeque::new());
}

pub struct Zst;

impl Drop for Zst {
    fn drop(&mut self) {
        match unarmed(|| ZST_SHADOW.with(|q| q.borrow_mut().pop_front())) {
            Some(t) => log_val(V_DROPPED, t),
            None => log_val(V_DOUBLE_DROP, 0),
        }
    }
}

pub struct ZstExec<B: RingBuf<Item = Zst>> {
    buf: Option<B>,
}

impl<B: RingBuf<Item = Zst>> ZstExec<B> {
    pub fn new(cap: usize) -> Self {
        unarmed(|| ZST_SHADOW.with(|q| { let mut q = q.borrow_mut(); q.clear(); q.reserve(64); }));
        ZstExec { buf: Some(B::with_capacity(cap)) }
    }
}

impl<B: RingBuf<Item = Zst>> Exec for ZstExec<B> {
    fn step(&mut self, op: &[u64]) -> Obs {
        let mut o = Obs::default();
        if self.buf.is_none() {
            return Obs::bad();
        }
        begin_step();
        match op {
            [0, x] => {
                let b = self.buf.as_mut().unwrap();
                unarmed(|| ZST_SHADOW.with(|q| q.borrow_mut().push_back(*x)));
                o.r = vec![lib(|| b.push(Zst)).map_or(R_PANIC, |_| R_UNIT)];
            }
            [1] => {
                let b = self.buf.as_mut().unwrap();
                o.r = match lib(|| b.pop()) {
                    None => vec![R_PANIC],
                    Some(v) => {
                        std::mem::forget(v);
                        let t = unarmed(|| ZST_SHADOW.with(|q| q.borrow_mut().pop_front()));
                        match t {
                            Some(t) => { log_val(V_DELIVERED, t); vec![R_SOME, t] }
                            None => vec![R_SOME, 9999],
                        }
                    }
                };
            }
            [2] => o.r = vec![R_UNIT],
            [3] => {
                let b = self.buf.take().unwrap();
                o.r = vec![lib(move || drop(b)).map_or(R_PANIC, |_| R_UNIT)];
            }
            _ => return Obs::bad(),
        }
        end_step(&mut o);
        if let Some(b) = &self.buf {
            o.p = vec![b.len() as u64, b.is_empty() as u64, b.can_push() as u64, b.capacity() as u64];
        } else {
            // destruction of the buffer frees its storage: outside every allocation claim
            o.a = 0;
        }
        o
    }
}

pub fn make_zst(cfg: &[u64]) -> Option<Box<dyn Exec>> {
    let cap = cfg[1] as usize;
    Some(match (cfg[0], cap) {
        (0, 0) => Box::new(ZstExec::<ArrayBuf<Zst, [Zst; 0]>>::new(cap)),
        (0, 1) => Box::new(ZstExec::<ArrayBuf<Zst, [Zst; 1]>>::new(cap)),
        (0, 2) => Box::new(ZstExec::<ArrayBuf<Zst, [Zst; 2]>>::new(cap)),
        (0, 3) => Box::new(ZstExec::<ArrayBuf<Zst, [Zst; 3]>>::new(cap)),
        (0, 4) => Box::new(ZstExec::<ArrayBuf<Zst, [Zst; 4]>>::new(cap)),
        (0, 5) => Box::new(ZstExec::<ArrayBuf<Zst, [Zst; 5]>>::new(cap)),
        (1, _) => Box::new(ZstExec::<FixedHeapBuf<Zst>>::new(cap)),
        (2, _) => Box::new(ZstExec::<GrowingHeapBuf<Zst>>::new(cap)),
        _ => return None,
    })
}

pub fn make(cfg: &[u64]) -> Option<Box<dyn Exec>> {
    let cap = cfg[1] as usize;
    Some(match (cfg[0], cap) {
        (0, 0) => Box::new(BufExec::<ArrayBuf<Val, [Val; 0]>>::new(cap)),
        (0, 1) => Box::new(BufExec::<ArrayBuf<Val, [Val; 1]>>::new(cap)),
        (0, 2) => Box::new(BufExec::<ArrayBuf<Val, [Val; 2]>>::new(cap)),
        (0, 3) => Box::new(BufExec::<ArrayBuf<Val, [Val; 3]>>::new(cap)),
        (0, 4) => Box::new(BufExec::<ArrayBuf<Val, [Val; 4]>>::new(cap)),
        (0, 5) => Box::new(BufExec::<ArrayBuf<Val, [Val; 5]>>::new(cap)),
        (1, _) => Box::new(BufExec::<FixedHeapBuf<Val>>::new(cap)),
        (2, _) => Box::new(BufExec::<GrowingHeapBuf<Val>>::new(cap)),
        _ => return None,
    })
}
