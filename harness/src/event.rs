//! Executor for GenericManualResetEvent (model: coq/Model/Event.v).
use crate::core::*;
use crate::lib_or_panic;
use futures_core::future::FusedFuture;
use futures_intrusive::sync::{GenericManualResetEvent, GenericWaitForEventFuture};
use futures_intrusive::verif::VerifNode;
use lock_api::RawMutex;
use std::future::Future;
use std::task::{Context, Poll};

pub struct EventExec<M: RawMutex + 'static> {
    ev: &'static GenericManualResetEvent<M>,
    futs: Slots<GenericWaitForEventFuture<'static, M>>,
    view: bool,
}

impl<M: RawMutex + 'static> EventExec<M> {
    pub fn new(cfg: &[u64]) -> Self {
        let k = cfg[0] as usize;
        let ev = Box::leak(Box::new(GenericManualResetEvent::<M>::new(cfg[1] != 0)));
        EventExec { ev, futs: Slots::new(k), view: false }
    }

    fn observe(&self, o: &mut Obs) {
        o.p = vec![self.ev.is_set() as u64];
        o.t = (0..self.futs.len())
            .map(|i| match self.futs.peek(i) {
                None => 2,
                Some(f) => f.is_terminated() as u64,
            })
            .collect();
        let mut buf = [VerifNode { addr: 0, state: 0, waker: 0, extra: 0 }; 512];
        let n = self.ev.verif_snapshot(&mut buf);
        for node in &buf[..n] {
            let slot = self.futs.find(node.addr, |f| f.verif_node_addr());
            o.q.push(slot.map_or(DANGLING, |s| s as u64));
            o.q.push(node.state as u64);
            o.q.push(waker_code(node.waker));
        }
    }
}

impl<M: RawMutex + 'static> Exec for EventExec<M> {
    fn step(&mut self, op: &[u64]) -> Obs {
        let mut o = Obs::default();
        begin_step();
        match op {
            [0, f] if (*f as usize) < self.futs.len() && !self.futs.alive(*f as usize) => {
                let ev = self.ev;
                let fut = lib_or_panic!(o, || ev.wait());
                self.futs.put(*f as usize, fut);
                o.r = vec![R_UNIT];
            }
            [1, f, w] if self.futs.alive(*f as usize) => {
                let wk = waker(*w);
                let mut cx = Context::from_waker(&wk);
                let fut = self.futs.get(*f as usize);
                o.r = match lib(|| fut.poll(&mut cx)) {
                    None => vec![R_PANIC],
                    Some(Poll::Pending) => vec![R_PENDING],
                    Some(Poll::Ready(())) => vec![R_READY],
                };
            }
            [2, f] if self.futs.alive(*f as usize) => {
                o.r = vec![if self.futs.drop_slot(*f as usize) { R_UNIT } else { R_PANIC }];
            }
            [3] => {
                let ev = self.ev;
                o.r = vec![lib(|| ev.set()).map_or(R_PANIC, |_| R_UNIT)];
            }
            [4] => {
                let ev = self.ev;
                o.r = vec![lib(|| ev.reset()).map_or(R_PANIC, |_| R_UNIT)];
            }
            [5] => {
                let ev = self.ev;
                o.r = vec![lib(|| ev.is_set()).map_or(R_PANIC, rbool)];
            }
            _ => return Obs::bad(),
        }
        end_step(&mut o);
        self.observe(&mut o);
        o
    }
    fn share(&self) -> Option<Box<dyn Exec>> {
        Some(Box::new(EventExec { ev: self.ev, futs: Slots::new(self.futs.len()), view: true }))
    }
}

impl<M: RawMutex + 'static> Drop for EventExec<M> {
    fn drop(&mut self) {
        self.futs.drop_all();
        if self.view {
            return;
        }
        unsafe { drop(Box::from_raw(self.ev as *const _ as *mut GenericManualResetEvent<M>)) };
    }
}
