//! fi-harness: executes operation histories on the real futures-intrusive crate.
//!   fi-harness <flavour>   < histories   > observations
//! flavour: local | sync | shared
mod core;
mod event;
mod mutex;
mod semaphore;
mod mpmc;
mod oneshot;
mod state;
mod timer;
mod ringbuf;
mod dlist;
mod pheap;

use crate::core::*;
use std::io::{BufRead, Write};

#[global_allocator]
static GLOBAL: CountingAlloc = CountingAlloc;

type Sync = parking_lot::RawMutex;
type Local = futures_intrusive::verif::NoopLockV;

fn make(prim: &str, flavour: &str, cfg: &[u64]) -> Option<Box<dyn Exec>> {
    Some(match (prim, flavour) {
        ("event", "local") => Box::new(event::EventExec::<Local>::new(cfg)),
        ("event", "sync") => Box::new(event::EventExec::<Sync>::new(cfg)),
        ("mutex", "local") => Box::new(mutex::MutexExec::<Local>::new(cfg)),
        ("mutex", "sync") => Box::new(mutex::MutexExec::<Sync>::new(cfg)),
        ("semaphore", "local") => Box::new(semaphore::SemExec::<Local>::new(cfg)),
        ("semaphore", "sync") => Box::new(semaphore::SemExec::<Sync>::new(cfg)),
        ("semaphore", "shared") => Box::new(semaphore::SharedSemExec::<Sync>::new(cfg)),
        ("mpmc", "local") => return mpmc::make_array::<Local>(cfg),
        ("mpmc", "sync") => return mpmc::make_array::<Sync>(cfg),
        ("mpmc", "fixed") => Box::new(mpmc::ChanExec::<Local, mpmc::Fixed>::new(cfg)),
        ("mpmc", "growing") => Box::new(mpmc::ChanExec::<Sync, mpmc::Growing>::new(cfg)),
        ("mpmc", "shared") => Box::new(mpmc::SharedChanExec::<Sync, mpmc::Fixed>::new(cfg)),
        ("mpmc", "shared-growing") => Box::new(mpmc::SharedChanExec::<Sync, mpmc::Growing>::new(cfg)),
        ("oneshot", "local") => oneshot::make::<Local>(cfg, false),
        ("oneshot", "sync") => oneshot::make::<Sync>(cfg, false),
        ("oneshot", "shared") => oneshot::make::<Sync>(cfg, true),
        ("state", "local") => Box::new(state::BorrowedState::<Local>::new(cfg)),
        ("state", "sync") => Box::new(state::BorrowedState::<Sync>::new(cfg)),
        ("state", "shared") => Box::new(state::SharedState::<Sync>::new(cfg)),
        ("timer", "local") => Box::new(timer::LocalTimerExec::<Local>::new(cfg)),
        ("timer", "sync") => Box::new(timer::SyncTimerExec::<Sync>::new(cfg)),
        ("ringbuf", _) => return ringbuf::make(cfg),
        ("dlist", _) => Box::new(dlist::DListExec::new(cfg)),
        ("pheap", _) => Box::new(pheap::PHeapExec::new(cfg)),
        _ => return None,
    })
}

fn nums(s: &str) -> Vec<u64> {
    s.split_whitespace().map(|x| x.parse().expect("number")).collect()
}

fn main() {
    let flavour = std::env::args().nth(1).unwrap_or_else(|| "local".into());
    silence_panics();
    let stdin = std::io::stdin();
    let stdout = std::io::stdout();
    let mut out = std::io::BufWriter::new(stdout.lock());
    for line in stdin.lock().lines() {
        let line = line.unwrap();
        let mut parts = line.split(';');
        let prim = parts.next().unwrap();
        let cfg = nums(parts.next().unwrap_or(""));
        let mode = parts.next().unwrap_or("A");
        let ops: Vec<Vec<u64>> = parts.map(nums).collect();
        match make(prim, &flavour, &cfg) {
            None => {
                writeln!(out, "UNSUPPORTED").unwrap();
            }
            Some(mut ex) => {
                let mut rendered: Vec<String> = Vec::new();
                let n = ops.len();
                for (i, op) in ops.iter().enumerate() {
                    let o = ex.step(op);
                    if mode == "A" || i + 1 == n {
                        rendered.push(o.render());
                    }
                }
                drop(ex);
                reset_values();
                writeln!(out, "{}", rendered.join(";")).unwrap();
            }
        }
    }
    out.flush().unwrap();
}
