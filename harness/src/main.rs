//! fi-harness: executes operation histories on the real futures-intrusive crate.
//!   fi-harness <flavour>   < histories   > observations
//! flavour: local | sync | shared
mod core;
mod event;
mod mutex;
mod semaphore;
mod mpmc;
mod oneshot;
mod state;
mod timer;
mod ringbuf;
mod dlist;
mod pheap;

use crate::core::*;
use std::io::{BufRead, Write};

#[global_allocator]
static GLOBAL: CountingAlloc = CountingAlloc;

type Sync = parking_lot::RawMutex;
type Local = futures_intrusive::verif::NoopLockV;

fn make(prim: &str, flavour: &str, cfg: &[u64]) -> Option<Box<dyn Exec>> {
    Some(match (prim, flavour) {
        ("event", "local") => Box::new(event::EventExec::<Local>::new(cfg)),
        ("event", "sync") => Box::new(event::EventExec::<Sync>::new(cfg)),
        ("mutex", "local") => Box::new(mutex::MutexExec::<Local>::new(cfg)),
        ("mutex", "sync") => Box::new(mutex::MutexExec::<Sync>::new(cfg)),
        ("semaphore", "local") => Box::new(semaphore::SemExec::<Local>::new(cfg)),
        ("semaphore", "sync") => Box::new(semaphore::SemExec::<Sync>::new(cfg)),
        ("semaphore", "shared") => Box::new(semaphore::SharedSemExec::<Sync>::new(cfg)),
        ("mpmc", "local") => return mpmc::make_array::<Local>(cfg),
        ("mpmc", "sync") => return mpmc::make_array::<Sync>(cfg),
        ("mpmc", "fixed") => Box::new(mpmc::ChanExec::<Local, mpmc::Fixed>::new(cfg)),
        ("mpmc", "growing") => Box::new(mpmc::ChanExec::<Sync, mpmc::Growing>::new(cfg)),
        ("mpmc", "shared") => Box::new(mpmc::SharedChanExec::<Sync, mpmc::Fixed>::new(cfg)),
        ("mpmc", "shared-growing") => Box::new(mpmc::SharedChanExec::<Sync, mpmc::Growing>::new(cfg)),
        ("oneshot", "local") => oneshot::make::<Local>(cfg, false),
        ("oneshot", "sync") => oneshot::make::<Sync>(cfg, false),
        ("oneshot", "shared") => oneshot::make::<Sync>(cfg, true),
        ("state", "local") => Box::new(state::BorrowedState::<Local>::new(cfg)),
        ("state", "sync") => Box::new(state::BorrowedState::<Sync>::new(cfg)),
        ("state", "shared") => Box::new(state::SharedState::<Sync>::new(cfg)),
        ("timer", "local") => Box::new(timer::LocalTimerExec::<Local>::new(cfg)),
        ("timer", "sync") => Box::new(timer::SyncTimerExec::<Sync>::new(cfg)),
        ("ringbuf", "zst") => return ringbuf::make_zst(cfg),
        ("ringbuf", _) => return ringbuf::make(cfg),
        ("dlist", _) => Box::new(dlist::DListExec::new(cfg)),
        ("pheap", _) => Box::new(pheap::PHeapExec::new(cfg)),
        _ => return None,
    })
}

/// thread that executes `op` (position `idx` of the history) in a threaded run: operations on a
/// future slot belong to the thread owning the slot, everything else is dealt round-robin
fn owner(prim: &str, idx: usize, op: &[u64], t: usize) -> usize {
    let slot_op = match (prim, op.first().copied().unwrap_or(99)) {
        ("event", 0..=2) | ("mutex", 0..=2) | ("semaphore", 0..=2) => true,
        ("mpmc", 0..=6) | ("mpmc", 30..=32) => true,
        ("oneshot", 2..=4) => true,
        ("state", 3..=5) => true,
        ("timer", 1..=4) => true,
        _ => false,
    };
    if slot_op && op.len() >= 2 {
        op[1] as usize % t
    } else if prim == "timer" && op.first() == Some(&0) {
        0 // the clock is advanced by one thread (monotone in program order)
    } else {
        idx % t
    }
}

struct SendExec(Box<dyn Exec>);
unsafe impl Send for SendExec {}

/// Threaded run: `t` threads over one primitive, every thread executes its share of the history
/// in history order; each executed operation is stamped with a global ticket before the call and
/// after it returned.  Output: `<start> <end>|<obs>` per operation, `-` for one that was not
/// applicable in the thread's local state.
fn threaded(prim: &str, ex: Box<dyn Exec>, t: usize, ops: &[Vec<u64>]) -> String {
    let mut views: Vec<SendExec> = Vec::new();
    for _ in 1..t {
        match ex.share() {
            Some(v) => views.push(SendExec(v)),
            None => return "UNSUPPORTED".into(),
        }
    }
    let mut execs: Vec<SendExec> = vec![SendExec(ex)];
    execs.append(&mut views);
    let mut plans: Vec<Vec<(usize, Vec<u64>)>> = vec![Vec::new(); t];
    for (i, op) in ops.iter().enumerate() {
        plans[owner(prim, i, op, t)].push((i, op.clone()));
    }
    let barrier = std::sync::Barrier::new(t);
    let mut results: Vec<Option<String>> = vec![None; ops.len()];
    let outs: Vec<(SendExec, Vec<(usize, String)>)> = std::thread::scope(|sc| {
        let hs: Vec<_> = execs
            .into_iter()
            .zip(plans.into_iter())
            .map(|(mut e, plan)| {
                let barrier = &barrier;
                sc.spawn(move || {
                    silence_panics();
                    let mut res = Vec::with_capacity(plan.len());
                    barrier.wait();
                    for (i, op) in plan {
                        let s = TICKET.fetch_add(1, std::sync::atomic::Ordering::SeqCst);
                        let o = e.0.step(&op);
                        let f = TICKET.fetch_add(1, std::sync::atomic::Ordering::SeqCst);
                        if o.r.first() != Some(&R_BADOP) {
                            res.push((i, format!("{} {}|{}", s, f, o.render())));
                        }
                    }
                    (e, res)
                })
            })
            .collect();
        hs.into_iter().map(|h| h.join().unwrap()).collect()
    });
    let mut keep = Vec::new();
    for (e, res) in outs {
        for (i, r) in res {
            results[i] = Some(r);
        }
        keep.push(e);
    }
    // views first, the owner of the primitive last
    while let Some(e) = keep.pop() {
        drop(e);
    }
    results.into_iter().map(|r| r.unwrap_or_else(|| "-".into())).collect::<Vec<_>>().join(";")
}

fn nums(s: &str) -> Vec<u64> {
    // a malformed field (e.g. a line cut off by a timed-out generator) becomes an operation no
    // executor knows: the line is answered with BADOP observations instead of a crash
    s.split_whitespace().map(|x| x.parse().unwrap_or(u64::MAX)).collect()
}

fn main() {
    let flavour = std::env::args().nth(1).unwrap_or_else(|| "local".into());
    silence_panics();
    let stdin = std::io::stdin();
    let stdout = std::io::stdout();
    let mut out = std::io::BufWriter::new(stdout.lock());
    for line in stdin.lock().lines() {
        let line = line.unwrap();
        let mut parts = line.split(';');
        let prim = parts.next().unwrap();
        let cfg = nums(parts.next().unwrap_or(""));
        let mode = parts.next().unwrap_or("A");
        let ops: Vec<Vec<u64>> = parts.map(nums).collect();
        match make(prim, &flavour, &cfg) {
            None => {
                writeln!(out, "UNSUPPORTED").unwrap();
            }
            Some(ex) if mode.starts_with('P') => {
                let t: usize = mode[1..].parse().unwrap_or(2);
                writeln!(out, "{}", threaded(prim, ex, t, &ops)).unwrap();
                reset_values();
            }
            Some(mut ex) => {
                let mut rendered: Vec<String> = Vec::new();
                let n = ops.len();
                for (i, op) in ops.iter().enumerate() {
                    let o = ex.step(op);
                    if mode == "A" || i + 1 == n {
                        rendered.push(o.render());
                    }
                }
                // destructors of guards / releasers / handles the executor still holds are
                // library code too: a panic there must not take the harness down
                let _ = std::panic::catch_unwind(std::panic::AssertUnwindSafe(move || drop(ex)));
                reset_values();
                writeln!(out, "{}", rendered.join(";")).unwrap();
            }
        }
    }
    out.flush().unwrap();
}
