#!/bin/bash
# Offline build of the whole framework: Coq development (full .vo build), extracted
# model runner, Rust harness (hooks on).  Idempotent.
set -e
cd "$(dirname "$0")"
export CARGO_NET_OFFLINE=true
mkdir -p build evidence
# C16: regenerate the type model from /repo before compiling
if [ -x tools/rs2coq_types.py ]; then python3 tools/rs2coq_types.py /repo/src coq/Gen/TypesGen.v; fi
( cd coq && coq_makefile -f _CoqProject -o Makefile >/dev/null 2>&1 && timeout 3000 make -j16 2>&1 | grep -v -E "conda|^COQDEP|^COQC|Closed under" || true )
( cd coq && make -j16 >/dev/null 2>&1 ) || { echo "setup: Coq build failed"; exit 1; }
./tools/build_modelrun.sh
./tools/build_harness.sh
echo "setup: ok"
