(* Pointer-level model of src/intrusive_pairing_heap.rs.  Addresses are node ids; each node
   has parent / prev / next / first_child links and a fixed key.  Functions follow the Rust
   code statement by statement; loops carry fuel; a failing debug_assert sets [ok := false]. *)
From FI Require Export Base.
From FI Require Import Timer.   (* the tree-level heap this model refines *)

Record hcell := mkH { h_parent : option nat; h_prev : option nat; h_next : option nat; h_child : option nat }.
Definition hclean : hcell := mkH None None None None.

Record pheap := mkPH { root : option nat; hcells : list hcell; keys : list N; ok : bool }.

Definition hget (h : pheap) (n : nat) : hcell := nth n (hcells h) hclean.
Definition hset (h : pheap) (n : nat) (c : hcell) : pheap := mkPH (root h) (upd n c (hcells h)) (keys h) (ok h).
Definition kof (h : pheap) (n : nat) : N := nth n (keys h) 0%N.
Definition chk (h : pheap) (b : bool) : pheap := mkPH (root h) (hcells h) (keys h) (ok h && b).
Definition set_root (h : pheap) (r : option nat) : pheap := mkPH r (hcells h) (keys h) (ok h).

Definition set_parent h n v := let c := hget h n in hset h n (mkH v (h_prev c) (h_next c) (h_child c)).
Definition set_hprev h n v := let c := hget h n in hset h n (mkH (h_parent c) v (h_next c) (h_child c)).
Definition set_hnext h n v := let c := hget h n in hset h n (mkH (h_parent c) (h_prev c) v (h_child c)).
Definition set_child h n v := let c := hget h n in hset h n (mkH (h_parent c) (h_prev c) (h_next c) v).

Definition onone (o : option nat) : bool := match o with None => true | Some _ => false end.
Definition oeqn (a b : option nat) : bool :=
  match a, b with Some x, Some y => Nat.eqb x y | None, None => true | _, _ => false end.

Definition is_root (h : pheap) (n : nat) : pheap * bool :=
  let c := hget h n in
  if onone (h_parent c) then (chk h (onone (h_prev c) && onone (h_next c)), true) else (h, false).

(* add_child(parent, child) *)
Definition add_child (h : pheap) (p c : nat) : pheap :=
  let h := chk h (negb (N.ltb (kof h c) (kof h p))) in
  let old := h_child (hget h p) in
  let h := set_child h p None in                       (* first_child.take() *)
  let h := match old with
           | Some o =>
               let h := set_hnext h c (Some o) in
               let h := chk h (onone (h_prev (hget h o))) in
               set_hprev h o (Some c)
           | None => h
           end in
  let h := set_child h p (Some c) in
  set_parent h c (Some p).

(* meld(left, right) -> new root *)
Definition meld (h : pheap) (l r : nat) : pheap * nat :=
  let '(h, _) := is_root h l in
  let '(h, _) := is_root h r in
  let h := chk h (onone (h_parent (hget h l)) && onone (h_parent (hget h r))) in
  if N.ltb (kof h l) (kof h r) then (add_child h l r, l) else (add_child h r l, r).

Definition maybe_meld (h : pheap) (cur : option nat) (r : nat) : pheap * nat :=
  match cur with Some l => meld h l r | None => (h, r) end.

Fixpoint last_child (fuel : nat) (h : pheap) (n : nat) : nat :=
  match fuel with
  | O => n
  | S k => match h_next (hget h n) with Some nx => last_child k h nx | None => n end
  end.

(* unlink_prev(node) *)
Definition unlink_prev (h : pheap) (n : nat) : pheap * option nat :=
  let h := chk h (onone (h_next (hget h n))) in
  match h_prev (hget h n) with
  | None => (h, None)
  | Some p =>
      let h := set_hprev h n None in                    (* prev.take() *)
      let h := chk h (oeqn (h_next (hget h p)) (Some n)) in
      (set_hnext h p None, Some p)
  end.

(* merge_children: the loop, [node] = first unprocessed child from the right *)
Fixpoint merge_loop (fuel : nat) (h : pheap) (common : option nat) (node : nat) (cur : option nat)
  : pheap * nat :=
  match fuel with
  | O => (chk h false, node)
  | S k =>
      let np := h_parent (hget h node) in
      let h := set_parent h node None in
      let h := chk h (oeqn np common) in
      let '(h, op) := unlink_prev h node in
      match op with
      | None => maybe_meld h cur node                                  (* odd case *)
      | Some p =>
          let pp := h_parent (hget h p) in
          let h := set_parent h p None in
          let h := chk h (oeqn pp common) in
          let '(h, opp) := unlink_prev h p in
          let '(h, m) := meld h p node in
          let '(h, c) := maybe_meld h cur m in
          match opp with
          | Some q => merge_loop k h common q (Some c)
          | None => (h, c)                                             (* even case *)
          end
      end
  end.

Definition merge_children (h : pheap) (fc : nat) : pheap * nat :=
  let common := h_parent (hget h fc) in
  let h := chk h (negb (onone common)) in
  let n := length (hcells h) in
  merge_loop (S n) h common (last_child n h fc) None.

(* PairingHeap::insert *)
Definition pinsert (h : pheap) (n : nat) : pheap :=
  let '(h, r) := is_root h n in
  let h := chk h (r && onone (h_child (hget h n))) in
  match root h with
  | Some rt => let '(h, m) := meld h rt n in set_root h (Some m)
  | None => set_root h (Some n)
  end.

(* PairingHeap::remove *)
Definition premove (h : pheap) (n : nat) : pheap :=
  let node := hget h n in
  let parent := h_parent node in
  let h := set_parent h n None in
  let h :=
    match parent with
    | Some p =>
        let h := match h_prev node with
                 | Some pv => set_hnext h pv (h_next node)
                 | None => set_child h p (h_next node)
                 end in
        let h := match h_next node with
                 | Some nx => set_hprev h nx (h_prev node)
                 | None => h
                 end in
        set_hprev (set_hnext h n None) n None
    | None =>
        let h := chk h (onone (h_next node) && onone (h_prev node) && oeqn (root h) (Some n)) in
        set_root h None
    end in
  match h_child (hget h n) with
  | Some fc =>
      let h := set_child h n None in                    (* first_child.take() *)
      let '(h, m) := merge_children h fc in
      match parent with
      | Some p => add_child h p m
      | None => set_root h (Some m)
      end
  | None => h
  end.

Definition ppeek (h : pheap) : option nat := root h.

(* ---------------------------------------------------------------------- *)
(* representation: the pointer structure describes the tree-level heap [t] *)
Definition first_id (l : list tree) : option nat :=
  match l with T m _ :: _ => Some m | [] => None end.

Fixpoint tree_repr (cs : list hcell) (parent prev next : option nat) (t : tree) : Prop :=
  match t with
  | T n ch =>
      n < length cs /\
      h_parent (nth n cs hclean) = parent /\
      h_prev (nth n cs hclean) = prev /\
      h_next (nth n cs hclean) = next /\
      h_child (nth n cs hclean) = first_id ch /\
      (fix forest (pv : option nat) (l : list tree) : Prop :=
         match l with
         | [] => True
         | c :: rest => tree_repr cs (Some n) pv (first_id rest) c /\ forest (Some (root_id c)) rest
         end) None ch
  end.

Definition heap_repr (h : pheap) (t : option tree) : Prop :=
  match t with
  | None => root h = None
  | Some t0 => root h = Some (root_id t0) /\ tree_repr (hcells h) None None None t0
  end /\
  NoDup (helements t) /\
  (forall n, ~ In n (helements t) -> nth n (hcells h) hclean = hclean).

(* ---------------------------------------------------------------------- *)
Inductive op := Insert (n : nat) | Remove (n : nat) | PeekMin.

Definition oN (o : option nat) : N := match o with Some n => N.of_nat (S n) | None => 0%N end.

Definition dump (h : pheap) : list N :=
  oN (root h) :: flat_map (fun c => [oN (h_parent c); oN (h_prev c); oN (h_next c); oN (h_child c)]) (hcells h).

Definition mk_obs (h : pheap) (res : list N) : obs :=
  mkObs (if ok h then res else [R_PANIC]) [] [] [] [] (dump h) 0.

(* executable membership: reachable from the root *)
Fixpoint reach_from (fuel : nat) (h : pheap) (n : option nat) : list nat :=
  match fuel with
  | O => []
  | S k => match n with
           | None => []
           | Some x => x :: reach_from k h (h_child (hget h x)) ++ reach_from k h (h_next (hget h x))
           end
  end.
Definition pmembers (h : pheap) : list nat := reach_from (S (length (hcells h))) h (root h).

(* documented preconditions: insert a node that is in no heap, remove a member *)
Definition legal (h : pheap) (o : op) : bool :=
  match o with
  | Insert n => Nat.ltb n (length (hcells h)) && negb (existsb (Nat.eqb n) (pmembers h))
  | Remove n => existsb (Nat.eqb n) (pmembers h)
  | PeekMin => true
  end.

Definition step (h : pheap) (o : op) : pheap * obs :=
  match o with
  | Insert n => let h' := pinsert h n in (h', mk_obs h' [R_UNIT])
  | Remove n => let h' := premove h n in (h', mk_obs h' [R_UNIT])
  | PeekMin => (h, mk_obs h [oN (ppeek h)])
  end.

Definition pempty (ks : list N) : pheap := mkPH None (repeat hclean (length ks)) ks true.

Inductive Reach (ks : list N) : pheap -> Prop :=
| reach_init : Reach ks (pempty ks)
| reach_step h o : Reach ks h -> legal h o = true -> Reach ks (fst (step h o)).

Definition decode (l : list N) : option op :=
  match l with
  | [0; n] => Some (Insert (N.to_nat n))
  | [1; n] => Some (Remove (N.to_nat n))
  | [2] => Some PeekMin
  | _ => None
  end%N.
Definition encode (o : op) : list N :=
  match o with Insert n => [0; nN n] | Remove n => [1; nN n] | PeekMin => [2] end%N.

Definition bad_obs : obs := mkObs [R_BADOP] [] [] [] [] [] 0.
Definition mstep (h : pheap) (l : list N) : pheap * obs :=
  match decode l with
  | Some o => if legal h o then step h o else (h, bad_obs)
  | None => (h, bad_obs)
  end.
(* cfg = the keys of the nodes *)
Definition minit (cfg : list N) : pheap := pempty cfg.
Definition enabled (h : pheap) : list (list N) :=
  map encode
    (flat_map (fun n => if existsb (Nat.eqb n) (pmembers h) then [Remove n] else [Insert n])
              (seq 0 (length (hcells h)))
     ++ [PeekMin]).

Definition machine : Base.machine := mkMachine pheap minit mstep enabled (fun x => x) (fun _ _ _ => true).
