(* Model of src/buffer/ring_buffer.rs: ArrayBuf (indices + MaybeUninit slots), FixedHeapBuf
   and GrowingHeapBuf (VecDeque + limit; VecDeque itself is trusted and modelled as a list). *)
From FI Require Export Base.

Inductive kind := Array | FixedHeap | GrowingHeap.

Record rbuf := mkBuf {
  b_kind : kind;
  b_cap : nat;
  (* ArrayBuf *)
  b_size : nat; b_recv : nat; b_send : nat;
  b_slots : list (option tag);      (* None = uninitialised memory *)
  (* heap buffers *)
  b_deque : list tag;
  b_dropped : bool
}.

Inductive op := Push (x : tag) | Pop | Probe | DropBuf.

Definition binit (k : kind) (c : nat) : rbuf :=
  mkBuf k c 0 0 0 (repeat None c) [] false.

(* ArrayBuf::next_idx *)
Definition next_idx (b : rbuf) (i : nat) : nat := if Nat.eqb (S i) (b_cap b) then 0 else S i.

Definition len (b : rbuf) : nat :=
  match b_kind b with Array => b_size b | _ => length (b_deque b) end.
Definition can_push (b : rbuf) : bool := negb (Nat.eqb (len b) (b_cap b)).
Definition is_empty (b : rbuf) : bool := Nat.eqb (len b) 0.

(* the documented discipline *)
Definition legal (b : rbuf) (o : op) : bool :=
  negb (b_dropped b) &&
  match o with
  | Push _ => can_push b
  | Pop => negb (is_empty b)
  | _ => true
  end.
Definition callable (b : rbuf) (o : op) : bool := negb (b_dropped b).

Definition V_DELIVERED : N := 1.
Definition V_DROPPED : N := 3.
Definition R_LEAK : N := 97.

Definition probe (b : rbuf) : list N :=
  [nN (len b); bN (is_empty b); bN (can_push b); nN (b_cap b)].

Definition mk_obs (b : rbuf) (res : list N) (vals : list N) : obs :=
  mkObs res [] vals (if b_dropped b then [] else probe b) [] [] 0.

Definition set_array (b : rbuf) (size recv send : nat) (slots : list (option tag)) : rbuf :=
  mkBuf (b_kind b) (b_cap b) size recv send slots (b_deque b) (b_dropped b).
Definition set_deque (b : rbuf) (d : list tag) : rbuf :=
  mkBuf (b_kind b) (b_cap b) (b_size b) (b_recv b) (b_send b) (b_slots b) d (b_dropped b).

(* ArrayBuf::drop: drop_in_place of [size] slots starting at recv_idx *)
Fixpoint drain_array (fuel : nat) (b : rbuf) (acc : list N) : rbuf * list N * bool :=
  match fuel with
  | O => (b, acc, true)
  | S k =>
      if Nat.eqb (b_size b) 0 then (b, acc, true)
      else match nth (b_recv b) (b_slots b) None with
           | None => (b, acc, false)                      (* drop_in_place of uninitialised memory *)
           | Some v =>
               drain_array k (set_array b (pred (b_size b)) (next_idx b (b_recv b)) (b_send b)
                                        (upd (b_recv b) None (b_slots b))) (acc ++ [V_DROPPED; v])
           end
  end.

(* [dbg] = debug assertions enabled (GrowingHeapBuf uses debug_assert!) *)
Definition step (dbg : bool) (b : rbuf) (o : op) : rbuf * obs :=
  match o with
  | Push x =>
      match b_kind b with
      | Array =>
          if negb (can_push b) then (b, mk_obs b [R_PANIC] [V_DROPPED; x])   (* assert!(self.can_push()); the argument is dropped by the unwind *)
          else
            let leak := match nth (b_send b) (b_slots b) None with Some _ => true | None => false end in
            let b' := set_array b (S (b_size b)) (b_recv b) (next_idx b (b_send b))
                                (upd (b_send b) (Some x) (b_slots b)) in
            (b', mk_obs b' [if leak then R_LEAK else R_UNIT] [])
      | FixedHeap =>
          if negb (can_push b) then (b, mk_obs b [R_PANIC] [V_DROPPED; x])
          else let b' := set_deque b (b_deque b ++ [x]) in (b', mk_obs b' [R_UNIT] [])
      | GrowingHeap =>
          if negb (can_push b) && dbg then (b, mk_obs b [R_PANIC] [V_DROPPED; x])     (* debug_assert! *)
          else let b' := set_deque b (b_deque b ++ [x]) in (b', mk_obs b' [R_UNIT] [])
      end
  | Pop =>
      match b_kind b with
      | Array =>
          if Nat.eqb (b_size b) 0 then (b, mk_obs b [R_PANIC] [])          (* assert!(self.size > 0) *)
          else match nth (b_recv b) (b_slots b) None with
               | None => (b, mk_obs b [R_UB] [])                           (* read of uninitialised memory *)
               | Some v =>
                   let b' := set_array b (pred (b_size b)) (next_idx b (b_recv b)) (b_send b)
                                       (upd (b_recv b) None (b_slots b)) in
                   (b', mk_obs b' [R_SOME; v] [V_DELIVERED; v])
               end
      | _ =>
          match b_deque b with
          | [] => (b, mk_obs b [R_PANIC] [])
          | v :: r => let b' := set_deque b r in (b', mk_obs b' [R_SOME; v] [V_DELIVERED; v])
          end
      end
  | Probe => (b, mk_obs b [R_UNIT] [])
  | DropBuf =>
      match b_kind b with
      | Array =>
          let '(b1, vals, ok) := drain_array (S (b_size b)) b [] in
          let b' := mkBuf (b_kind b1) (b_cap b1) (b_size b1) (b_recv b1) (b_send b1) (b_slots b1) (b_deque b1) true in
          (b', mk_obs b' [if ok then R_UNIT else R_UB] vals)
      | _ =>
          let b' := mkBuf (b_kind b) (b_cap b) (b_size b) (b_recv b) (b_send b) (b_slots b) [] true in
          (b', mk_obs b' [R_UNIT] (flat_map (fun v => [V_DROPPED; v]) (b_deque b)))
      end
  end.

(* the abstract FIFO content *)
Fixpoint window (fuel : nat) (b : rbuf) (i : nat) : list tag :=
  match fuel with
  | O => []
  | S k => match nth i (b_slots b) None with
           | Some v => v :: window k b (next_idx b i)
           | None => window k b (next_idx b i)
           end
  end.

Definition abs (b : rbuf) : list tag :=
  match b_kind b with
  | Array => window (b_size b) b (b_recv b)
  | _ => b_deque b
  end.

Inductive Reach (dbg : bool) (k : kind) (c : nat) : rbuf -> Prop :=
| reach_init : Reach dbg k c (binit k c)
| reach_step b o : Reach dbg k c b -> legal b o = true -> Reach dbg k c (fst (step dbg b o)).

(* ---------------------------------------------------------------------- *)
Definition decode (l : list N) : option op :=
  match l with
  | [0; x] => Some (Push x)
  | [1] => Some Pop
  | [2] => Some Probe
  | [3] => Some DropBuf
  | _ => None
  end%N.
Definition encode (o : op) : list N :=
  match o with Push x => [0; x] | Pop => [1] | Probe => [2] | DropBuf => [3] end%N.

Definition bad_obs : obs := mkObs [R_BADOP] [] [] [] [] [] 0.

Record xstate := mkX { xb : rbuf; x_dbg : bool; x_malformed : bool }.

(* cfg = [kind (0 array, 1 fixed, 2 growing); capacity; debug assertions; explore malformed calls too] *)
Definition minit (cfg : list N) : xstate :=
  match cfg with
  | [k; c; d; m] =>
      mkX (binit (match k with 0 => Array | 1 => FixedHeap | _ => GrowingHeap end%N) (N.to_nat c))
          (negb (N.eqb d 0)) (negb (N.eqb m 0))
  | _ => mkX (binit Array 0) true false
  end.

Definition xstep (x : xstate) (l : list N) : xstate * obs :=
  match decode l with
  | Some o => if callable (xb x) o
              then let '(b', ob) := step (x_dbg x) (xb x) o in (mkX b' (x_dbg x) (x_malformed x), ob)
              else (x, bad_obs)
  | None => (x, bad_obs)
  end.

Fixpoint fresh_tag (fuel : nat) (v : N) (used : list tag) : tag :=
  match fuel with
  | O => v
  | S k => if existsb (N.eqb v) used then fresh_tag k (v + 1)%N used else v
  end.

Definition enabled (x : xstate) : list (list N) :=
  let b := xb x in
  if b_dropped b then [] else
  let v := fresh_tag (S (length (abs b))) 1%N (abs b) in
  map encode
    ((if can_push b || x_malformed x && negb (match b_kind b with GrowingHeap => negb (x_dbg x) | _ => false end)
      then [Push v] else [])
     ++ (if negb (is_empty b) || x_malformed x then [Pop] else [])
     ++ [DropBuf]).

(* C19 as a monitor over an observed trace: a reference FIFO of the tags pushed and not yet
   popped; used to search the implementation's own traces for a failing input *)
Record rmon := mkRmon { rm_fifo : list N; rm_good : bool }.

Fixpoint pairs (l : list N) : list (N * N) :=
  match l with k :: v :: r => (k, v) :: pairs r | _ => [] end.

Fixpoint eqlN (a b : list N) : bool :=
  match a, b with
  | [], [] => true
  | x :: r, y :: t => N.eqb x y && eqlN r t
  | _, _ => false
  end.

Definition rmon_step (c : nat) (m : rmon) (e : list N * obs) : rmon :=
  let '(l, ob) := e in
  let r := hd 99%N (o_res ob) in
  let m1 :=
    match l with
    | [0%N; x] =>
        if N.eqb r R_UNIT then mkRmon (rm_fifo m ++ [x]) (rm_good m && Nat.ltb (length (rm_fifo m)) c)
        else mkRmon (rm_fifo m) (rm_good m && negb (Nat.ltb (length (rm_fifo m)) c))   (* may fail only when full *)
    | [1%N] =>
        match rm_fifo m with
        | v :: rest =>
            mkRmon rest (rm_good m && N.eqb r R_SOME && N.eqb (nth 1 (o_res ob) 0%N) v
                         && forallb (fun p => negb (N.eqb (fst p) V_DROPPED)) (pairs (o_val ob)))
        | [] => mkRmon [] (rm_good m && negb (N.eqb r R_SOME))
        end
    | [3%N] =>
        (* every element still inside is dropped exactly once, in order *)
        mkRmon [] (rm_good m && N.eqb r R_UNIT
                   && eqlN (map snd (pairs (o_val ob))) (rm_fifo m)
                   && forallb (fun p => N.eqb (fst p) V_DROPPED) (pairs (o_val ob)))
    | _ => m
    end in
  match l, o_probe ob with
  | [3%N], _ => m1
  | _, [ln; em; cp; cap] =>
      mkRmon (rm_fifo m1)
             (rm_good m1 && N.eqb ln (nN (length (rm_fifo m1))) && N.eqb em (bN (Nat.eqb (length (rm_fifo m1)) 0))
              && N.eqb cp (bN (Nat.ltb (length (rm_fifo m1)) c)) && N.eqb cap (nN c))
  | _, _ => mkRmon (rm_fifo m1) false
  end.

Definition monitor (which : N) (cfg : list N) (tr : list (list N * obs)) : bool :=
  match cfg, which with
  | [_; c; _; _], 19%N => rm_good (fold_left (rmon_step (N.to_nat c)) tr (mkRmon [] true))
  | _, _ => true
  end.

Definition machine : Base.machine := mkMachine xstate minit xstep enabled (fun x => x) monitor.
