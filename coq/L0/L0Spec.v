(* Abstract specifications refined by the pointer-level models: a deque of node ids for the
   intrusive list, the tree-level pairing heap (Model/Timer.v) for the intrusive heap. *)
From FI Require Import Base Timer TimerSpec.
From FI Require DList PHeapPtr.

(* ---- intrusive list as a deque (head of the Coq list = front of the deque) ---- *)
Definition list_spec (l : list nat) (o : DList.op) : list nat * list N :=
  match o with
  | DList.AddFront n => (n :: l, [R_UNIT])
  | DList.RemoveFirst => (tl l, [DList.oN (hd_error l)])
  | DList.RemoveLast => (removelast l, [DList.oN (olast l)])
  | DList.Remove n =>
      (* O(1) removal of a given member; a non-member is reported and nothing changes *)
      if existsb (Nat.eqb n) l then (Base.remove n l, [R_TRUE]) else (l, [R_FALSE])
  | DList.Drain => ([], R_UNIT :: map nN l)
  | DList.ReverseDrain => ([], R_UNIT :: map nN (rev l))
  | DList.PeekFirst => (l, [DList.oN (hd_error l)])
  | DList.PeekLast => (l, [DList.oN (olast l)])
  | DList.IsEmpty => (l, [Rbool (match l with [] => true | _ => false end)])
  end.

(* ---- intrusive pairing heap as the tree-level heap ---- *)
Definition heap_spec (key : nat -> N) (t : option tree) (o : PHeapPtr.op) : option tree * list N :=
  match o with
  | PHeapPtr.Insert n => (insert key t n, [R_UNIT])
  | PHeapPtr.Remove n => (remove key t n, [R_UNIT])
  | PHeapPtr.PeekMin => (t, [PHeapPtr.oN (peek_min t)])
  end.
