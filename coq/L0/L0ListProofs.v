(* Proofs for the pointer-level intrusive doubly linked list (L0/DList.v): the representation
   predicate is established by [empty], preserved by every legal operation, and the results
   are those of the deque specification [list_spec]. *)
From FI Require Import Base DList L0Spec.

(* ---------------------------------------------------------------------- *)
(* general list facts *)

Lemma NoDup_bound_length (l : list nat) n :
  NoDup l -> (forall x, In x l -> x < n) -> length l <= n.
Proof.
  intros Hnd Hb. rewrite <- (seq_length n 0). apply NoDup_incl_length; auto.
  intros x Hx. apply in_seq. specialize (Hb x Hx). lia.
Qed.

Lemma NoDup_app_l {A} (l1 l2 : list A) : NoDup (l1 ++ l2) -> NoDup l1.
Proof.
  induction l1 as [|a l1 IH]; simpl; intros H; constructor; inversion H; subst; auto.
  intro; apply H2; apply in_or_app; auto.
Qed.

Lemma olast_cons_ne {A} (x : A) l : olast (x :: l) <> None.
Proof. intro H. apply olast_None in H. discriminate. Qed.

Lemma olast_app_cons {A} (l1 : list A) x l2 : olast (l1 ++ x :: l2) = olast (x :: l2).
Proof.
  induction l1 as [|h t IH]; auto.
  change ((h :: t) ++ x :: l2) with (h :: (t ++ x :: l2)).
  destruct (t ++ x :: l2) eqn:E; [destruct t; discriminate|].
  rewrite <- IH. reflexivity.
Qed.

Lemma remove_mid (l1 : list nat) n l2 :
  NoDup (l1 ++ n :: l2) -> Base.remove n (l1 ++ n :: l2) = l1 ++ l2.
Proof.
  intros Hnd. pose proof (NoDup_remove_2 _ _ _ Hnd) as Hni.
  unfold Base.remove. rewrite filter_app. simpl. rewrite Nat.eqb_refl. simpl.
  fold (Base.remove n l1). fold (Base.remove n l2).
  rewrite !remove_notin; auto; intro; apply Hni; apply in_or_app; auto.
Qed.

Lemma existsb_eqb_In n l : existsb (Nat.eqb n) l = true <-> In n l.
Proof. apply memb_In. Qed.

Lemma existsb_eqb_notIn n l : existsb (Nat.eqb n) l = false <-> ~ In n l.
Proof. apply memb_false. Qed.

(* ---------------------------------------------------------------------- *)
(* segments: [chain] with an explicit successor of the last node *)

Definition hd_or (q : option nat) (l : list nat) : option nat :=
  match l with [] => q | m :: _ => Some m end.

Definition lastp (p : option nat) (l : list nat) : option nat :=
  match olast l with Some x => Some x | None => p end.

Fixpoint seg (cs : list cell) (p : option nat) (l : list nat) (q : option nat) : Prop :=
  match l with
  | [] => True
  | n :: rest =>
      n < length cs /\ c_prev (nth n cs clean) = p /\
      c_next (nth n cs clean) = hd_or q rest /\ seg cs (Some n) rest q
  end.

Lemma chain_seg cs p l : chain cs p l <-> seg cs p l None.
Proof.
  revert p; induction l as [|n r IH]; intros p; simpl; [tauto|].
  rewrite IH. destruct r; simpl; tauto.
Qed.

Lemma lastp_cons p n r : lastp p (n :: r) = lastp (Some n) r.
Proof.
  unfold lastp. destruct r as [|m r]; auto.
  change (olast (n :: m :: r)) with (olast (m :: r)).
  destruct (olast (m :: r)) eqn:E; auto. apply olast_cons_ne in E. contradiction.
Qed.

Lemma lastp_None l : lastp None l = olast l.
Proof. unfold lastp. destruct (olast l); auto. Qed.

Lemma seg_app cs p l1 l2 q :
  seg cs p (l1 ++ l2) q <-> seg cs p l1 (hd_or q l2) /\ seg cs (lastp p l1) l2 q.
Proof.
  revert p; induction l1 as [|n r IH]; intros p.
  - unfold lastp; simpl; tauto.
  - change ((n :: r) ++ l2) with (n :: (r ++ l2)). cbn [seg].
    rewrite IH, lastp_cons.
    assert (H : hd_or q (r ++ l2) = hd_or (hd_or q l2) r) by (destruct r; auto).
    rewrite H. tauto.
Qed.

Lemma seg_ext cs cs' p l q :
  length cs' = length cs ->
  (forall n, In n l -> nth n cs' clean = nth n cs clean) ->
  seg cs p l q -> seg cs' p l q.
Proof.
  intros Hlen. revert p; induction l as [|n r IH]; intros p Hf H; simpl in *; auto.
  destruct H as (H1 & H2 & H3 & H4). rewrite Hlen, Hf by auto. repeat split; auto.
Qed.

Lemma seg_bound cs p l q : seg cs p l q -> forall x, In x l -> x < length cs.
Proof.
  revert p; induction l as [|n r IH]; intros p H x Hx; simpl in *; [tauto|].
  destruct H as (H1 & _ & _ & H4). destruct Hx as [<-|Hx]; eauto.
Qed.

Lemma seg_length cs p l q : NoDup l -> seg cs p l q -> length l <= length cs.
Proof. intros Hnd H. apply NoDup_bound_length; auto. eapply seg_bound; eauto. Qed.

(* frame: updating a cell outside the segment *)
Lemma seg_upd_out cs p l q n c : ~ In n l -> seg cs p l q -> seg (upd n c cs) p l q.
Proof.
  intros Hni. apply seg_ext; [apply upd_length|].
  intros m Hm. apply nth_upd_other. intro; subst; auto.
Qed.

(* changing the successor of the last node of a segment *)
Lemma seg_relink_last cs p l x q q' :
  ~ In x l -> seg cs p (l ++ [x]) q ->
  seg (upd x (mkCell (c_prev (nth x cs clean)) q') cs) p (l ++ [x]) q'.
Proof.
  intros Hni H. apply seg_app in H. destruct H as [H1 H2]. apply seg_app. split.
  - apply seg_upd_out; auto.
  - simpl in *. destruct H2 as (Hx & Hp & _ & _).
    rewrite upd_length, nth_upd_same by auto. simpl. auto.
Qed.

(* changing the predecessor of the first node of a segment *)
Lemma seg_relink_first cs p p' x l q :
  ~ In x l -> seg cs p (x :: l) q ->
  seg (upd x (mkCell p' (c_next (nth x cs clean))) cs) p' (x :: l) q.
Proof.
  intros Hni H. simpl in *. destruct H as (Hx & Hp & Hn & Hr).
  rewrite upd_length, nth_upd_same by auto. simpl. repeat split; auto.
  apply seg_upd_out; auto.
Qed.

(* ---------------------------------------------------------------------- *)
(* the representation predicate, with [seg] *)

Lemma repr_seg d l :
  repr d l <->
  NoDup l /\ head d = hd_error l /\ tail d = olast l /\ seg (cells d) None l None /\
  (forall n, ~ In n l -> nth n (cells d) clean = clean).
Proof. unfold repr. rewrite chain_seg. tauto. Qed.

Lemma list_empty_repr : forall k, repr (empty k) [].
Proof.
  intros k. unfold repr, empty; simpl. repeat split; auto; try constructor.
  intros n _. destruct (Nat.lt_ge_cases n k).
  - apply nth_repeat.
  - apply nth_overflow. rewrite repeat_length. auto.
Qed.

Ltac unf := unfold add_front, remove_first, remove_last, remove_node, is_empty,
  set_next, set_prev, set_head, set_tail, cset, cget in *; cbn [head tail cells] in *.

Ltac cs1 :=
  first [ rewrite upd_length
        | rewrite nth_upd_same by (rewrite ?upd_length; auto; lia)
        | rewrite nth_upd_other by (auto; congruence) ].
Ltac cs := repeat (cs1; cbn [c_prev c_next]).

Lemma add_front_repr d l n :
  repr d l -> n < length (cells d) -> ~ In n l -> repr (add_front d n) (n :: l).
Proof.
  rewrite !repr_seg. destruct d as [hd tl cs]. cbn [head tail cells].
  intros (Hnd & Hh & Ht & Hc & Hcl) Hn Hni. subst hd tl.
  destruct l as [|h r].
  - unf. simpl. cs. repeat split; auto.
    + constructor; auto; constructor.
    + intros m Hm. destruct (Nat.eq_dec n m); [tauto|]. cs. apply Hcl; auto.
  - destruct (olast (h :: r)) as [t|] eqn:Et; [|apply olast_cons_ne in Et; tauto].
    assert (Hnh : n <> h) by (intro; subst; apply Hni; left; auto).
    assert (Hhn : h <> n) by auto.
    pose proof Hc as (Hhl & Hhp & Hhn' & Hr). inversion Hnd as [|? ? Hhr Hndr]; subst.
    unf. cbn -[olast]. cs. repeat split; auto.
    + constructor; auto.
    + assert (Hnr : ~ In n r) by (intro; apply Hni; right; auto).
      repeat apply seg_upd_out; auto.
    + intros m Hm. destruct (Nat.eq_dec n m); [tauto|]. destruct (Nat.eq_dec h m); [tauto|].
      cs. apply Hcl. simpl. tauto.
Qed.

Lemma remove_first_repr d l :
  repr d l -> exists d', remove_first d = (d', hd_error l, Ok) /\ repr d' (tl l).
Proof.
  intros H. pose proof H as H0. revert H0.
  rewrite repr_seg. setoid_rewrite repr_seg. destruct d as [hd tl cs]. cbn [head tail cells].
  intros (Hnd & Hh & Ht & Hc & Hcl). subst hd tl.
  destruct l as [|h r].
  - eexists; split; [reflexivity|]. apply repr_seg; auto.
  - pose proof Hc as (Hhl & Hhp & Hhn & Hr). inversion Hnd as [|? ? Hhr Hndr]; subst.
    destruct r as [|x r].
    + unf. cbn -[olast] in *. rewrite Hhn. cbn. rewrite Nat.eqb_refl.
      eexists; split; [reflexivity|]. cbn. repeat split; auto.
      intros m _. destruct (Nat.eq_dec h m); [subst; cs; auto|]. cs. apply Hcl. simpl; tauto.
    + unf. cbn -[olast] in *. rewrite Hhn. cbn -[olast].
      eexists; split; [reflexivity|]. cbn -[olast].
      destruct Hr as (Hxl & Hxp & Hxn & Hr).
      assert (Hhx : h <> x) by (intro; apply Hhr; auto).
      assert (Hxh : x <> h) by auto.
      assert (Hhr' : ~ In h r) by (intro; apply Hhr; auto).
      inversion Hndr as [|? ? Hxr Hndr']; subst.
      cs. repeat split; auto.
      * repeat apply seg_upd_out; auto.
      * intros m Hm. destruct (Nat.eq_dec h m); [subst; cs; auto|].
        destruct (Nat.eq_dec x m); [tauto|]. cs. apply Hcl. tauto.
Qed.

Lemma olast_snoc_cases {A} (l : list A) : l = [] \/ exists l0 x, l = l0 ++ [x].
Proof.
  destruct (olast l) as [x|] eqn:E.
  - right. exists (removelast l), x. apply olast_Some_split; auto.
  - left. apply olast_None; auto.
Qed.

Lemma hd_error_app_snoc {A} (l0 : list A) x l2 : hd_error ((l0 ++ [x]) ++ l2) = hd_error (l0 ++ [x]).
Proof. destruct l0; auto. Qed.

Lemma remove_last_repr d l :
  repr d l -> exists d', remove_last d = (d', olast l, Ok) /\ repr d' (removelast l).
Proof.
  rewrite repr_seg. setoid_rewrite repr_seg. destruct d as [hd tl cs]. cbn [head tail cells].
  intros (Hnd & Hh & Ht & Hc & Hcl). subst hd tl.
  destruct (olast_snoc_cases l) as [->|(l1 & t & ->)].
  - eexists; split; [reflexivity|]. auto.
  - rewrite removelast_last, olast_app.
    apply seg_app in Hc. destruct Hc as [Hc1 Hc2]. rewrite lastp_None in Hc2.
    destruct Hc2 as (Htl & Htp & Htn & _). cbn in Htn.
    pose proof (NoDup_remove_2 _ _ _ Hnd) as Htl1. rewrite app_nil_r in Htl1.
    pose proof (NoDup_remove_1 _ _ _ Hnd) as Hnd1. rewrite app_nil_r in Hnd1.
    destruct (olast_snoc_cases l1) as [->|(l0 & pv & ->)].
    + unf. cbn in *. rewrite Htp. cbn. rewrite Nat.eqb_refl.
      eexists; split; [reflexivity|]. cbn. repeat split; auto.
      intros m _. destruct (Nat.eq_dec t m); [subst; cs; auto|]. cs. apply Hcl. simpl; tauto.
    + rewrite olast_app in Htp. unf. rewrite Htp. cbn -[olast hd_error].
      eexists; split; [reflexivity|]. cbn -[olast hd_error].
      rewrite olast_app, hd_error_app_snoc.
      pose proof (NoDup_remove_2 _ _ _ Hnd1) as Hpv0. rewrite app_nil_r in Hpv0.
      assert (Htpv : t <> pv) by (intro; subst; apply Htl1; apply in_or_app; simpl; auto).
      assert (Hpvl : pv < length cs) by (eapply seg_bound; eauto; apply in_or_app; simpl; auto).
      repeat split; auto.
      * apply seg_upd_out; auto. eapply seg_relink_last; eauto.
      * intros m Hm. destruct (Nat.eq_dec t m); [subst; cs; auto|].
        destruct (Nat.eq_dec pv m); [subst; exfalso; apply Hm; apply in_or_app; simpl; auto|].
        cs. apply Hcl. intro Hin. apply in_app_or in Hin. simpl in Hin. tauto.
Qed.

Lemma remove_node_out d l n :
  repr d l -> ~ In n l -> remove_node d n = (d, false, Ok).
Proof.
  intros (Hnd & Hh & Ht & Hc & Hcl) Hni. unfold remove_node, cget.
  rewrite (Hcl n Hni). cbn. rewrite Hh.
  destruct l as [|h r]; cbn; auto.
  destruct (Nat.eqb_spec h n); auto. subst. exfalso; apply Hni; left; auto.
Qed.

Lemma remove_node_in d l1 n l2 :
  repr d (l1 ++ n :: l2) ->
  exists d', remove_node d n = (d', true, Ok) /\ repr d' (l1 ++ l2).
Proof.
  rewrite repr_seg. setoid_rewrite repr_seg. destruct d as [hd tl cs]. cbn [head tail cells].
  intros (Hnd & Hh & Ht & Hc & Hcl). subst hd tl.
  apply seg_app in Hc. destruct Hc as [Hc1 Hc2]. rewrite lastp_None in Hc2.
  destruct Hc2 as (Hnl & Hnp & Hnn & Hc2). cbn [hd_or] in Hc1.
  pose proof (NoDup_remove_2 _ _ _ Hnd) as Hn12.
  pose proof (NoDup_remove_1 _ _ _ Hnd) as Hnd12.
  assert (Hn1 : ~ In n l1) by (intro; apply Hn12; apply in_or_app; auto).
  assert (Hn2 : ~ In n l2) by (intro; apply Hn12; apply in_or_app; auto).
  rewrite olast_app_cons.
  destruct (olast_snoc_cases l1) as [->|(l0 & pv & ->)].
  - cbn [app hd_error] in *. cbn in Hnp.
    destruct l2 as [|x r].
    + unf. rewrite Hnp, Hnn. cbn. rewrite Nat.eqb_refl. cbn.
      eexists; split; [reflexivity|]. cbn. repeat split; auto.
      intros m _. destruct (Nat.eq_dec n m); [subst; cs; auto|]. cs. apply Hcl. simpl; tauto.
    + unf. rewrite Hnp, Hnn. cbn -[olast]. rewrite Nat.eqb_refl. cbn -[olast].
      destruct Hc2 as (Hxl & Hxp & Hxn & Hr). rewrite Hxp. cbn. rewrite Nat.eqb_refl.
      eexists; split; [reflexivity|]. cbn -[olast].
      assert (Hnx : n <> x) by (intro; apply Hn2; left; auto).
      assert (Hxn' : x <> n) by auto.
      assert (Hnr : ~ In n r) by (intro; apply Hn2; right; auto).
      inversion Hnd12 as [|? ? Hxr Hndr]; subst.
      cs. repeat split; auto.
      * repeat apply seg_upd_out; auto.
      * intros m Hm. destruct (Nat.eq_dec n m); [subst; cs; auto|].
        destruct (Nat.eq_dec x m); [tauto|]. cs. apply Hcl. simpl; tauto.
  - rewrite olast_app in Hnp.
    pose proof (NoDup_remove_2 _ _ _ Hnd) as Hn12'.
    assert (Hpvn : pv <> n) by (intro; subst; apply Hn1; apply in_or_app; simpl; auto).
    assert (Hnpv : n <> pv) by auto.
    assert (Hpvl : pv < length cs) by (apply (seg_bound _ _ _ _ Hc1); apply in_or_app; simpl; auto).
    assert (Hpvn' : c_next (nth pv cs clean) = Some n).
    { apply seg_app in Hc1. destruct Hc1 as [_ (_ & _ & Hx & _)]. auto. }
    rewrite !hd_error_app_snoc.
    destruct l2 as [|x r].
    + unf. rewrite Hnp, Hnn, Hpvn'. cbn. rewrite Nat.eqb_refl. cbn.
      eexists; split; [reflexivity|]. cbn -[olast]. rewrite !app_nil_r in *. rewrite olast_app.
      pose proof (NoDup_remove_2 _ _ _ Hnd12) as Hpv0. rewrite app_nil_r in Hpv0.
      repeat split; auto.
      * apply seg_upd_out; auto. eapply seg_relink_last; eauto.
      * intros m Hm. destruct (Nat.eq_dec n m); [subst; cs; auto|].
        destruct (Nat.eq_dec pv m); [subst; exfalso; apply Hm; apply in_or_app; simpl; auto|].
        cs. apply Hcl. intro Hin. apply in_app_or in Hin. simpl in Hin. tauto.
    + destruct Hc2 as (Hxl & Hxp & Hxn & Hr).
      assert (Hnx : n <> x) by (intro; apply Hn2; left; auto).
      assert (Hxn' : x <> n) by auto.
      assert (Hxpv : x <> pv).
      { intro; subst. apply NoDup_remove_2 in Hnd12. apply Hnd12. apply in_or_app; left.
        apply in_or_app; simpl; auto. }
      assert (Hpvx : pv <> x) by auto.
      unf. rewrite Hnp, Hnn, Hpvn'. cbn -[olast]. rewrite Nat.eqb_refl. cbn -[olast].
      rewrite (nth_upd_other pv x) by auto. rewrite Hxp. cbn -[olast]. rewrite Nat.eqb_refl.
      eexists; split; [reflexivity|]. cbn -[olast]. rewrite !olast_app_cons.
      assert (Hx1 : ~ In x (l0 ++ [pv])).
      { intro Hin. apply NoDup_remove_2 in Hnd12. apply Hnd12. apply in_or_app; auto. }
      assert (Hxr : ~ In x r).
      { intro Hin. apply NoDup_remove_2 in Hnd12. apply Hnd12. apply in_or_app; auto. }
      assert (Hpvr : ~ In pv r).
      { intro Hin. rewrite <- app_assoc in Hnd12. apply NoDup_remove_2 in Hnd12. apply Hnd12.
        apply in_or_app; right; right; auto. }
      assert (Hnr : ~ In n r) by (intro; apply Hn2; right; auto).
      pose proof (NoDup_remove_2 _ _ _ (NoDup_app_l _ _ Hnd12)) as Hpv0.
      repeat split; auto.
      * apply seg_upd_out; auto. apply seg_app. split.
        -- apply seg_upd_out; auto. cbn [hd_or]. eapply seg_relink_last; eauto.
           intro; apply Hpv0; apply in_or_app; auto.
        -- rewrite lastp_None, olast_app. cbn [seg]. cs. repeat split; auto.
           repeat apply seg_upd_out; auto.
      * intros m Hm. destruct (Nat.eq_dec n m); [subst; cs; auto|].
        assert (x <> m) by (intro; subst; apply Hm; apply in_or_app; simpl; auto).
        assert (pv <> m).
        { intro; subst; apply Hm; apply in_or_app; left; apply in_or_app; simpl; auto. }
        cs. apply Hcl. intro Hin. apply Hm. apply in_app_or in Hin. apply in_or_app.
        simpl in *. tauto.
Qed.

(* ---------------------------------------------------------------------- *)
(* drain / reverse_drain *)

Lemma hd_or_None l : hd_or None l = hd_error l.
Proof. destruct l; auto. Qed.

Lemma drain_fwd : forall rest fuel hd tl cs p acc,
  NoDup rest -> seg cs p rest None -> length rest < fuel ->
  exists cs',
    drain_from fuel (mkDL hd tl cs) (hd_error rest) true acc = (mkDL hd tl cs', acc ++ rest) /\
    length cs' = length cs /\
    (forall n, In n rest -> nth n cs' clean = clean) /\
    (forall n, ~ In n rest -> nth n cs' clean = nth n cs clean).
Proof.
  induction rest as [|x r IH]; intros fuel hd tl cs p acc Hnd Hs Hf;
    (destruct fuel as [|k]; [simpl in Hf; lia|]).
  - exists cs. simpl. rewrite app_nil_r. repeat split; auto. tauto.
  - destruct Hs as (Hxl & Hxp & Hxn & Hr). inversion Hnd as [|? ? Hxr Hndr]; subst.
    cbn [drain_from hd_error]. unfold cset, cget. cbn [head tail cells].
    rewrite Hxn, hd_or_None.
    destruct (IH k hd tl (upd x clean cs) (Some x) (acc ++ [x]) Hndr) as (cs' & He & Hl & Hin & Hout).
    { apply seg_upd_out; auto. }
    { simpl in Hf; lia. }
    exists cs'. rewrite He, <- app_assoc. simpl. rewrite Hl, upd_length. repeat split; auto.
    + intros n [<-|Hn]; auto. rewrite Hout by auto. cs. auto.
    + intros n Hn. rewrite Hout by tauto. apply nth_upd_other. tauto.
Qed.

Lemma drain_bwd : forall pre fuel hd tl cs q acc,
  NoDup pre -> seg cs None pre q -> length pre < fuel ->
  exists cs',
    drain_from fuel (mkDL hd tl cs) (olast pre) false acc = (mkDL hd tl cs', acc ++ rev pre) /\
    length cs' = length cs /\
    (forall n, In n pre -> nth n cs' clean = clean) /\
    (forall n, ~ In n pre -> nth n cs' clean = nth n cs clean).
Proof.
  induction pre as [|x r IH] using rev_ind; intros fuel hd tl cs q acc Hnd Hs Hf;
    (destruct fuel as [|k]; [simpl in Hf; lia|]).
  - exists cs. simpl. rewrite app_nil_r. repeat split; auto. tauto.
  - apply seg_app in Hs. destruct Hs as [Hr Hx]. rewrite lastp_None in Hx.
    destruct Hx as (Hxl & Hxp & Hxn & _). cbn [hd_or] in Hr.
    pose proof (NoDup_remove_2 _ _ _ Hnd) as Hxr. rewrite app_nil_r in Hxr.
    pose proof (NoDup_remove_1 _ _ _ Hnd) as Hndr. rewrite app_nil_r in Hndr.
    rewrite olast_app. cbn [drain_from]. unfold cset, cget. cbn [head tail cells].
    rewrite Hxp.
    destruct (IH k hd tl (upd x clean cs) (Some x) (acc ++ [x]) Hndr) as (cs' & He & Hl & Hin & Hout).
    { apply seg_upd_out; auto. }
    { rewrite app_length in Hf; simpl in Hf; lia. }
    exists cs'. rewrite He, <- app_assoc, rev_app_distr. simpl. rewrite Hl, upd_length.
    repeat split; auto.
    + intros n Hn. apply in_app_or in Hn. destruct Hn as [Hn|[<-|[]]]; auto.
      rewrite Hout by auto. cs. auto.
    + intros n Hn. rewrite Hout by (intro; apply Hn; apply in_or_app; auto).
      apply nth_upd_other. intro; subst; apply Hn; apply in_or_app; simpl; auto.
Qed.

Lemma drain_repr d l :
  repr d l -> exists d', drain d = (d', l) /\ repr d' [].
Proof.
  rewrite repr_seg. destruct d as [hd tl cs]. cbn [head tail cells].
  intros (Hnd & Hh & Ht & Hc & Hcl). subst hd tl.
  unfold drain. cbn [head tail cells].
  destruct (drain_fwd l (S (length cs)) None None cs None [] Hnd Hc) as (cs' & He & Hl & Hin & Hout).
  { pose proof (seg_length _ _ _ _ Hnd Hc). lia. }
  eexists; split; [exact He|]. unfold repr; cbn. repeat split; auto; try constructor.
  intros n _. destruct (in_dec Nat.eq_dec n l); auto. rewrite Hout; auto.
Qed.

Lemma reverse_drain_repr d l :
  repr d l -> exists d', reverse_drain d = (d', rev l) /\ repr d' [].
Proof.
  rewrite repr_seg. destruct d as [hd tl cs]. cbn [head tail cells].
  intros (Hnd & Hh & Ht & Hc & Hcl). subst hd tl.
  unfold reverse_drain. cbn [head tail cells].
  destruct (drain_bwd l (S (length cs)) None None cs None [] Hnd Hc) as (cs' & He & Hl & Hin & Hout).
  { pose proof (seg_length _ _ _ _ Hnd Hc). lia. }
  eexists; split; [exact He|]. unfold repr; cbn. repeat split; auto; try constructor.
  intros n _. destruct (in_dec Nat.eq_dec n l); auto. rewrite Hout; auto.
Qed.

(* ---------------------------------------------------------------------- *)
(* the executable membership walk computes the abstract list *)

Definition walk (d : dlist) : nat -> option nat -> list nat :=
  fix go (fuel : nat) (cur : option nat) : list nat :=
    match fuel with
    | O => []
    | S k => match cur with None => [] | Some n => n :: go k (c_next (cget d n)) end
    end.

Lemma members_walk d : members d = walk d (S (length (cells d))) (head d).
Proof. reflexivity. Qed.

Lemma walk_seg d : forall rest fuel p,
  seg (cells d) p rest None -> length rest < fuel -> walk d fuel (hd_error rest) = rest.
Proof.
  induction rest as [|x r IH]; intros fuel p Hs Hf;
    (destruct fuel as [|k]; [simpl in Hf; lia|]); auto.
  destruct Hs as (Hxl & Hxp & Hxn & Hr). cbn [walk hd_error]. unfold cget.
  rewrite Hxn, hd_or_None. f_equal. apply (IH k (Some x)); auto. simpl in Hf; lia.
Qed.

Lemma members_repr d l : repr d l -> members d = l.
Proof.
  rewrite repr_seg. intros (Hnd & Hh & Ht & Hc & Hcl).
  rewrite members_walk, Hh. apply (walk_seg d l _ None); auto.
  pose proof (seg_length _ _ _ _ Hnd Hc). lia.
Qed.

(* ---------------------------------------------------------------------- *)
(* the three statements of Properties/C20list.v *)

Lemma list_refines_deque : forall d l o,
  repr d l -> legal d o = true ->
  repr (fst (step d o)) (fst (list_spec l o)) /\
  o_res (snd (step d o)) = snd (list_spec l o).
Proof.
  intros d l o Hr Hleg. destruct o as [n| | |n| | | | |]; cbn [step list_spec legal] in *.
  - apply andb_prop in Hleg. destruct Hleg as [Hn Hm].
    apply Nat.ltb_lt in Hn. apply negb_true_iff in Hm.
    rewrite (members_repr d l Hr) in Hm. apply existsb_eqb_notIn in Hm.
    split; auto. cbn [fst]. apply add_front_repr; auto.
  - destruct (remove_first_repr d l Hr) as (d' & He & Hr'). rewrite He. cbn. auto.
  - destruct (remove_last_repr d l Hr) as (d' & He & Hr'). rewrite He. cbn. auto.
  - destruct (existsb (Nat.eqb n) l) eqn:E.
    + apply existsb_eqb_In in E. apply in_split in E. destruct E as (l1 & l2 & ->).
      destruct (remove_node_in d l1 n l2 Hr) as (d' & He & Hr'). rewrite He. cbn [fst snd].
      rewrite remove_mid by (destruct Hr; auto). auto.
    + apply existsb_eqb_notIn in E. rewrite (remove_node_out d l n Hr E). cbn. auto.
  - destruct (drain_repr d l Hr) as (d' & He & Hr'). rewrite He. cbn. auto.
  - destruct (reverse_drain_repr d l Hr) as (d' & He & Hr'). rewrite He. cbn. auto.
  - cbn. split; auto. destruct Hr as (_ & Hh & _). rewrite Hh. auto.
  - cbn. split; auto. destruct Hr as (_ & _ & Ht & _). rewrite Ht. auto.
  - pose proof Hr as (_ & Hh & Ht & _). unfold is_empty. rewrite Hh, Ht.
    destruct l as [|h r]; cbn; auto.
Qed.

Lemma list_reachable : forall k d, Reach k d -> exists l, repr d l.
Proof.
  intros k d H. induction H as [|d o H [l IH] Hleg].
  - exists []. apply list_empty_repr.
  - exists (fst (list_spec l o)). apply list_refines_deque; auto.
Qed.
