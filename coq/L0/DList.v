(* Pointer-level model of src/intrusive_double_linked_list.rs.  Addresses are node ids;
   the store gives each node its prev / next link.  Every function follows the Rust code
   statement by statement; a failing debug_assert is the outcome [AssertFail]. *)
From FI Require Export Base.

Record cell := mkCell { c_prev : option nat; c_next : option nat }.
Definition clean : cell := mkCell None None.

Record dlist := mkDL { head : option nat; tail : option nat; cells : list cell }.

Definition cget (d : dlist) (n : nat) : cell := nth n (cells d) clean.
Definition cset (d : dlist) (n : nat) (c : cell) : dlist := mkDL (head d) (tail d) (upd n c (cells d)).
Definition set_prev (d : dlist) (n : nat) (p : option nat) : dlist := cset d n (mkCell p (c_next (cget d n))).
Definition set_next (d : dlist) (n : nat) (p : option nat) : dlist := cset d n (mkCell (c_prev (cget d n)) p).
Definition set_head (d : dlist) (h : option nat) : dlist := mkDL h (tail d) (cells d).
Definition set_tail (d : dlist) (t : option nat) : dlist := mkDL (head d) t (cells d).

Definition oeq (a b : option nat) : bool :=
  match a, b with
  | Some x, Some y => Nat.eqb x y
  | None, None => true
  | _, _ => false
  end.

Inductive outcome := Ok | AssertFail.

Definition empty (k : nat) : dlist := mkDL None None (repeat clean k).

(* LinkedList::add_front *)
Definition add_front (d : dlist) (n : nat) : dlist :=
  let d := set_next d n (head d) in
  let d := set_prev d n None in
  let d := match head d with Some h => set_prev d h (Some n) | None => d end in
  let d := set_head d (Some n) in
  match tail d with None => set_tail d (Some n) | Some _ => d end.

(* LinkedList::remove_first *)
Definition remove_first (d : dlist) : dlist * option nat * outcome :=
  match head d with
  | None => (d, None, Ok)
  | Some h =>
      let d1 := set_head d (c_next (cget d h)) in
      let '(d2, oc) :=
        match c_next (cget d1 h) with
        | None => (set_tail d1 None, if oeq (Some h) (tail d1) then Ok else AssertFail)
        | Some nx => (set_prev d1 nx None, Ok)
        end in
      (cset d2 h clean, Some h, oc)
  end.

(* LinkedList::remove_last *)
Definition remove_last (d : dlist) : dlist * option nat * outcome :=
  match tail d with
  | None => (d, None, Ok)
  | Some t =>
      let d1 := set_tail d (c_prev (cget d t)) in
      let '(d2, oc) :=
        match c_prev (cget d1 t) with
        | None => (set_head d1 None, if oeq (Some t) (head d1) then Ok else AssertFail)
        | Some pv => (set_next d1 pv None, Ok)
        end in
      (cset d2 t clean, Some t, oc)
  end.

(* LinkedList::remove *)
Definition remove_node (d : dlist) (n : nat) : dlist * bool * outcome :=
  let node := cget d n in
  match c_prev node with
  | None =>
      if negb (oeq (head d) (Some n)) then
        (d, false, match c_next node with None => Ok | Some _ => AssertFail end)
      else
        let d1 := set_head d (c_next node) in
        let '(d2, oc) :=
          match c_next node with
          | None => (set_tail d1 (c_prev node), if oeq (tail d1) (Some n) then Ok else AssertFail)
          | Some nx => (set_prev d1 nx (c_prev node),
                        if oeq (c_prev (cget d1 nx)) (Some n) then Ok else AssertFail)
          end in
        (cset d2 n clean, true, oc)
  | Some pv =>
      let oc1 := if oeq (c_next (cget d pv)) (Some n) then Ok else AssertFail in
      let d1 := set_next d pv (c_next node) in
      let '(d2, oc2) :=
        match c_next node with
        | None => (set_tail d1 (c_prev node), if oeq (tail d1) (Some n) then Ok else AssertFail)
        | Some nx => (set_prev d1 nx (c_prev node),
                      if oeq (c_prev (cget d1 nx)) (Some n) then Ok else AssertFail)
        end in
      (cset d2 n clean, true, match oc1 with Ok => oc2 | AssertFail => AssertFail end)
  end.

(* LinkedList::drain / reverse_drain: visit from one end, clearing the links of every node *)
Fixpoint drain_from (fuel : nat) (d : dlist) (cur : option nat) (fwd : bool) (acc : list nat)
  : dlist * list nat :=
  match fuel with
  | O => (d, acc)
  | S k =>
      match cur with
      | None => (d, acc)
      | Some n =>
          let nxt := if fwd then c_next (cget d n) else c_prev (cget d n) in
          drain_from k (cset d n clean) nxt fwd (acc ++ [n])
      end
  end.

Definition drain (d : dlist) : dlist * list nat :=
  drain_from (S (length (cells d))) (mkDL None None (cells d)) (head d) true [].
Definition reverse_drain (d : dlist) : dlist * list nat :=
  drain_from (S (length (cells d))) (mkDL None None (cells d)) (tail d) false [].

Definition is_empty (d : dlist) : bool * outcome :=
  match head d with
  | Some _ => (false, Ok)
  | None => (true, match tail d with None => Ok | Some _ => AssertFail end)
  end.

(* ---------------------------------------------------------------------- *)
(* the representation predicate: [l] (head first) is what the links describe *)
Fixpoint chain (cs : list cell) (prev : option nat) (l : list nat) : Prop :=
  match l with
  | [] => True
  | n :: rest =>
      n < length cs /\ c_prev (nth n cs clean) = prev /\
      c_next (nth n cs clean) = hd_error rest /\ chain cs (Some n) rest
  end.

Definition repr (d : dlist) (l : list nat) : Prop :=
  NoDup l /\ head d = hd_error l /\ tail d = olast l /\ chain (cells d) None l /\
  (forall n, ~ In n l -> nth n (cells d) clean = clean).

(* ---------------------------------------------------------------------- *)
Inductive op :=
| AddFront (n : nat) | RemoveFirst | RemoveLast | Remove (n : nat)
| Drain | ReverseDrain | PeekFirst | PeekLast | IsEmpty.

Definition oN (o : option nat) : N := match o with Some n => N.of_nat (S n) | None => 0%N end.
Definition ocN (o : outcome) : list N := match o with Ok => [] | AssertFail => [R_PANIC] end.

Definition dump (d : dlist) : list N :=
  oN (head d) :: oN (tail d) :: flat_map (fun c => [oN (c_prev c); oN (c_next c)]) (cells d).

Definition mk_obs (d : dlist) (res : list N) : obs := mkObs res [] [] [] [] (dump d) 0.

Definition members (d : dlist) : list nat :=   (* executable: follow next from head *)
  (fix go (fuel : nat) (cur : option nat) : list nat :=
     match fuel with
     | O => []
     | S k => match cur with None => [] | Some n => n :: go k (c_next (cget d n)) end
     end) (S (length (cells d))) (head d).

(* documented preconditions *)
Definition legal (d : dlist) (o : op) : bool :=
  match o with
  | AddFront n => Nat.ltb n (length (cells d)) && negb (existsb (Nat.eqb n) (members d))
  | Remove n => Nat.ltb n (length (cells d))
  | _ => true
  end.

Definition step (d : dlist) (o : op) : dlist * obs :=
  match o with
  | AddFront n => let d' := add_front d n in (d', mk_obs d' [R_UNIT])
  | RemoveFirst => let '(d', r, oc) := remove_first d in (d', mk_obs d' (ocN oc ++ [oN r]))
  | RemoveLast => let '(d', r, oc) := remove_last d in (d', mk_obs d' (ocN oc ++ [oN r]))
  | Remove n => let '(d', r, oc) := remove_node d n in (d', mk_obs d' (ocN oc ++ [Rbool r]))
  | Drain => let '(d', vs) := drain d in (d', mk_obs d' (R_UNIT :: map nN vs))
  | ReverseDrain => let '(d', vs) := reverse_drain d in (d', mk_obs d' (R_UNIT :: map nN vs))
  | PeekFirst => (d, mk_obs d [oN (head d)])
  | PeekLast => (d, mk_obs d [oN (tail d)])
  | IsEmpty => let '(r, oc) := is_empty d in (d, mk_obs d (ocN oc ++ [Rbool r]))
  end.

Inductive Reach (k : nat) : dlist -> Prop :=
| reach_init : Reach k (empty k)
| reach_step d o : Reach k d -> legal d o = true -> Reach k (fst (step d o)).

Definition decode (l : list N) : option op :=
  match l with
  | [0; n] => Some (AddFront (N.to_nat n))
  | [1] => Some RemoveFirst
  | [2] => Some RemoveLast
  | [3; n] => Some (Remove (N.to_nat n))
  | [4] => Some Drain
  | [5] => Some ReverseDrain
  | [6] => Some PeekFirst
  | [7] => Some PeekLast
  | [8] => Some IsEmpty
  | _ => None
  end%N.
Definition encode (o : op) : list N :=
  match o with
  | AddFront n => [0; nN n] | RemoveFirst => [1] | RemoveLast => [2] | Remove n => [3; nN n]
  | Drain => [4] | ReverseDrain => [5] | PeekFirst => [6] | PeekLast => [7] | IsEmpty => [8]
  end%N.

Definition bad_obs : obs := mkObs [R_BADOP] [] [] [] [] [] 0.
Definition mstep (d : dlist) (l : list N) : dlist * obs :=
  match decode l with
  | Some o => if legal d o then step d o else (d, bad_obs)
  | None => (d, bad_obs)
  end.
Definition minit (cfg : list N) : dlist :=
  match cfg with [k] => empty (N.to_nat k) | _ => empty 0 end.
Definition enabled (d : dlist) : list (list N) :=
  map encode
    (flat_map (fun n => (if existsb (Nat.eqb n) (members d) then [] else [AddFront n]) ++ [Remove n])
              (seq 0 (length (cells d)))
     ++ [RemoveFirst; RemoveLast; Drain; ReverseDrain; PeekFirst; PeekLast; IsEmpty]).

Definition machine : Base.machine := mkMachine dlist minit mstep enabled (fun x => x) (fun _ _ _ => true).
