(* C20 (heap half): the pointer-level intrusive pairing heap (L0/PHeapPtr.v) refines the
   tree-level pairing heap (Model/Timer.v).

   Structure:
     0. a counting tactic [cnt_auto] for NoDup / In / Permutation / incl side conditions
     1. representation over a cell FUNCTION ([R], [chain], [rchain]), frame lemmas,
        one-hole contexts ([plug]) and tree-level remove as a context operation
     2. primitive pointer operations ([hget] after each [set_*]), [add_child] cell by cell
     3. [add_child] / [meld] / [maybe_meld] at the representation level
     4. [merge_children]: [detach_last], the loop invariant [merge_loop_R], [last_child]
     5. [unlink]: the first half of [premove] for an inner node
     6. [premove] for an inner node, relative to its parent's subtree
     7. membership walk, insert / remove / peek, the refinement theorems *)
From FI Require Import Base Timer TimerSpec TimerProofs PHeapPtr L0Spec.
From Coq Require Import Permutation.

Local Ltac inv H := inversion H; subst; clear H.

(* ====================================================================== *)
(* part 0 *)
(* Part 0: counting tactic for NoDup / In / Permutation goals *)

Definition cnt (l : list nat) (x : nat) : nat := count_occ Nat.eq_dec l x.
Definition ind (a x : nat) : nat := if Nat.eq_dec a x then 1 else 0.

Lemma NoDup_cnt l : NoDup l <-> forall x, cnt l x <= 1.
Proof. apply NoDup_count_occ. Qed.
Lemma In_cnt l x : In x l <-> 1 <= cnt l x.
Proof. unfold cnt. rewrite (count_occ_In Nat.eq_dec). lia. Qed.
Lemma cnt_app l1 l2 x : cnt (l1 ++ l2) x = cnt l1 x + cnt l2 x.
Proof. apply count_occ_app. Qed.
Lemma cnt_cons a l x : cnt (a :: l) x = ind a x + cnt l x.
Proof. unfold cnt, ind. simpl. destruct (Nat.eq_dec a x); lia. Qed.
Lemma cnt_nil x : cnt [] x = 0.
Proof. reflexivity. Qed.
Lemma ind_same a : ind a a = 1.
Proof. unfold ind. destruct (Nat.eq_dec a a); congruence. Qed.
Lemma ind_neq a x : a <> x -> ind a x = 0.
Proof. unfold ind. destruct (Nat.eq_dec a x); congruence. Qed.
Lemma ind_le a x : ind a x <= 1.
Proof. unfold ind. destruct (Nat.eq_dec a x); lia. Qed.
Lemma Perm_cnt l l' : Permutation l l' -> forall x, cnt l x = cnt l' x.
Proof. intros H x. apply Permutation_count_occ. exact H. Qed.
Lemma iff_cnt l l' : (forall x, cnt l x = cnt l' x) -> Permutation l l'.
Proof. intros H. apply (Permutation_count_occ Nat.eq_dec). exact H. Qed.

Inductive done_inst {A : Type} (a : A) (v : nat) : Prop := Done_inst.

Ltac cnt_hyps :=
  repeat match goal with
  | H : NoDup _ |- _ => rewrite NoDup_cnt in H
  | H : In _ _ |- _ => rewrite In_cnt in H
  | H : ~ In _ _ |- _ => rewrite In_cnt in H
  | H : Permutation ?a ?b |- _ => let H' := fresh in pose proof (Perm_cnt a b H) as H'; clear H
  end.

Ltac cnt_goal :=
  repeat match goal with
  | |- forall _, _ => intro
  | |- _ -> _ => intro
  | |- ~ _ => intro
  | |- _ <> _ => intro
  end;
  subst;
  try match goal with
  | |- NoDup _ => apply NoDup_cnt; intro
  | |- Permutation _ _ => apply iff_cnt; intro
  | |- In _ _ => apply In_cnt
  | |- incl _ _ => intros ? ?
  end;
  try match goal with
  | |- In _ _ => apply In_cnt
  end.

Ltac inst_with H :=
  repeat match goal with
  | v : ?ty |- _ =>
      match ty with nat => idtac | fid => idtac end;
      lazymatch goal with
      | _ : done_inst H v |- _ => fail
      | _ => pose proof (H v); assert (done_inst H v) by constructor
      end
  end.

Ltac cnt_inst :=
  repeat match goal with
  | H : forall x : _, cnt _ x <= 1 |- _ => progress (inst_with H)
  | H : forall x : _, cnt _ x = cnt _ x |- _ => progress (inst_with H)
  | H : forall x : _, cnt _ x = _ |- _ => progress (inst_with H)
  end.

Ltac cnt_norm :=
  cbn [elements flat_map helements app] in *;
  repeat (rewrite ?flat_map_app, ?cnt_app, ?cnt_cons, ?cnt_nil, ?ind_same in *;
          cbn [elements flat_map helements app] in * );
  repeat match goal with
  | H : ?a <> ?x |- _ => rewrite (ind_neq a x H) in *
  | H : ?x <> ?a |- _ => rewrite (ind_neq a x (not_eq_sym H)) in *
  end.

Ltac cnt_split :=
  match goal with
  | |- context [ind ?a ?x] =>
      destruct (Nat.eq_dec a x) as [?|?Hne]; [subst; cnt_norm | rewrite ?(ind_neq a x Hne) in *]
  | H : context [ind ?a ?x] |- _ =>
      destruct (Nat.eq_dec a x) as [?|?Hne]; [subst; cnt_norm | rewrite ?(ind_neq a x Hne) in *]
  end.

Ltac cnt_auto := cnt_goal; cnt_hyps; cnt_goal; cnt_inst; cnt_norm; try lia; repeat (cnt_split; try lia).

(* ====================================================================== *)
(* part 1 *)
(* Part 1: structural lemmas *)


(* ---------------------------------------------------------------------- *)
(* representation over a cell FUNCTION *)
Definition hd_id (l : list tree) (d : option nat) : option nat :=
  match l with c :: _ => Some (root_id c) | [] => d end.

Fixpoint last_id (l : list tree) (d : option nat) : option nat :=
  match l with [] => d | c :: rest => last_id rest (Some (root_id c)) end.

Lemma first_id_hd l : first_id l = hd_id l None.
Proof. destruct l as [|[m ch] l]; reflexivity. Qed.

Lemma hd_id_app l1 l2 d : hd_id (l1 ++ l2) d = hd_id l1 (hd_id l2 d).
Proof. destruct l1; reflexivity. Qed.

Lemma last_id_app l1 l2 d : last_id (l1 ++ l2) d = last_id l2 (last_id l1 d).
Proof. revert d; induction l1; simpl; auto. Qed.

Lemma last_id_rev l d : last_id l d = hd_id (rev l) d.
Proof.
  revert d; induction l as [|c rest IH]; intros d; simpl; auto.
  rewrite IH, hd_id_app. reflexivity.
Qed.

Fixpoint R (f : nat -> hcell) (P PV NX : option nat) (t : tree) : Prop :=
  match t with
  | T n ch =>
      h_parent (f n) = P /\ h_prev (f n) = PV /\ h_next (f n) = NX /\ h_child (f n) = first_id ch /\
      (fix forest (pv : option nat) (l : list tree) : Prop :=
         match l with
         | [] => True
         | c :: rest => R f (Some n) pv (first_id rest) c /\ forest (Some (root_id c)) rest
         end) None ch
  end.

Fixpoint chain (f : nat -> hcell) (par pv nxt : option nat) (l : list tree) : Prop :=
  match l with
  | [] => True
  | c :: rest => R f par pv (hd_id rest nxt) c /\ chain f par (Some (root_id c)) nxt rest
  end.

Fixpoint rchain (f : nat -> hcell) (par pv nxt : option nat) (rl : list tree) : Prop :=
  match rl with
  | [] => True
  | c :: rest => R f par (hd_id rest pv) nxt c /\ rchain f par pv (Some (root_id c)) rest
  end.

Lemma R_unfold f P PV NX n ch :
  R f P PV NX (T n ch) <->
  h_parent (f n) = P /\ h_prev (f n) = PV /\ h_next (f n) = NX /\ h_child (f n) = first_id ch /\
  chain f (Some n) None None ch.
Proof.
  cbn [R].
  assert (E : forall l pv,
    (fix forest (pv : option nat) (l : list tree) : Prop :=
         match l with
         | [] => True
         | c :: rest => R f (Some n) pv (first_id rest) c /\ forest (Some (root_id c)) rest
         end) pv l <-> chain f (Some n) pv None l).
  { induction l as [|c rest IH]; intros pv; cbn [chain]; [tauto|].
    rewrite IH, first_id_hd. tauto. }
  rewrite E. tauto.
Qed.

Lemma R_root f P PV NX t :
  R f P PV NX t -> h_parent (f (root_id t)) = P /\ h_prev (f (root_id t)) = PV /\ h_next (f (root_id t)) = NX.
Proof. destruct t as [n ch]. rewrite R_unfold. cbn [root_id]. tauto. Qed.

Lemma tree_repr_R cs : forall t P PV NX,
  tree_repr cs P PV NX t <->
  (forall x, In x (elements t) -> x < length cs) /\ R (fun x => nth x cs hclean) P PV NX t.
Proof.
  induction t as [n ch IH] using tree_ind'. intros P PV NX.
  cbn [tree_repr R elements].
  assert (E : forall pv,
    (fix forest (pv : option nat) (l : list tree) : Prop :=
         match l with
         | [] => True
         | c :: rest => tree_repr cs (Some n) pv (first_id rest) c /\ forest (Some (root_id c)) rest
         end) pv ch <->
    (forall x, In x (flat_map elements ch) -> x < length cs) /\
    (fix forest (pv : option nat) (l : list tree) : Prop :=
         match l with
         | [] => True
         | c :: rest => R (fun x => nth x cs hclean) (Some n) pv (first_id rest) c /\ forest (Some (root_id c)) rest
         end) pv ch).
  { induction IH as [|c rest Hc Hrest IHf]; intros pv.
    - simpl. tauto.
    - rewrite Hc, IHf. cbn [flat_map]. split.
      + intros [[A B] [C D]]. split; [|tauto]. intros x Hx. apply in_app_or in Hx. destruct Hx; auto.
      + intros [A [B C]]. repeat split; auto; intros x Hx; apply A; apply in_or_app; auto. }
  rewrite E. split.
  - intros (A & B & C & D & F & G & H). split; [|tauto]. intros x [<-|Hx]; auto.
  - intros (A & B & C & D & F & G). split; [apply A; simpl; auto|]. repeat split; auto.
    intros x Hx; apply A; right; auto.
Qed.

Lemma R_ext f g : forall t P PV NX,
  (forall x, In x (elements t) -> g x = f x) -> R f P PV NX t -> R g P PV NX t.
Proof.
  induction t as [n ch IH] using tree_ind'. intros P PV NX He. rewrite !R_unfold.
  rewrite (He n) by (simpl; auto). intros (A & B & C & D & F). repeat split; auto.
  assert (He' : forall x, In x (flat_map elements ch) -> g x = f x) by (intros; apply He; simpl; auto).
  clear He A B C D. revert F. generalize (@None nat) at 1 3. generalize (@None nat).
  induction IH as [|c rest Hc Hrest IHf]; intros nxt pv; cbn [chain]; auto.
  intros [A B]. split.
  - apply Hc; auto. intros; apply He'; simpl; apply in_or_app; auto.
  - apply IHf; auto. intros; apply He'; simpl; apply in_or_app; auto.
Qed.

Lemma chain_ext f g par : forall l pv nxt,
  (forall x, In x (flat_map elements l) -> g x = f x) -> chain f par pv nxt l -> chain g par pv nxt l.
Proof.
  induction l as [|c rest IH]; intros pv nxt He; cbn [chain]; auto. intros [A B]. split.
  - eapply R_ext; [|exact A]. intros; apply He; simpl; apply in_or_app; auto.
  - apply IH; auto. intros; apply He; simpl; apply in_or_app; auto.
Qed.

Lemma chain_app f par : forall l1 l2 pv nxt,
  chain f par pv nxt (l1 ++ l2) <->
  chain f par pv (hd_id l2 nxt) l1 /\ chain f par (last_id l1 pv) nxt l2.
Proof.
  induction l1 as [|c rest IH]; intros l2 pv nxt; cbn [app chain last_id]; [tauto|].
  rewrite IH, hd_id_app. tauto.
Qed.

Lemma chain_rchain f par pv : forall l nxt, chain f par pv nxt l <-> rchain f par pv nxt (rev l).
Proof.
  induction l as [|c l IH] using rev_ind; intros nxt; [simpl; tauto|].
  rewrite rev_app_distr. cbn [rev app rchain]. rewrite chain_app. cbn [chain hd_id].
  rewrite IH, last_id_rev. tauto.
Qed.

Lemma rchain_ext f g par : forall l pv nxt,
  (forall x, In x (flat_map elements l) -> g x = f x) -> rchain f par pv nxt l -> rchain g par pv nxt l.
Proof.
  induction l as [|c rest IH]; intros pv nxt He; cbn [rchain]; auto. intros [A B]. split.
  - eapply R_ext; [|exact A]. intros; apply He; simpl; apply in_or_app; auto.
  - apply IH; auto. intros; apply He; simpl; apply in_or_app; auto.
Qed.

(* changing the external links of the root of a represented tree *)
Lemma R_reroot f g n ch P PV NX P' PV' NX' :
  R f P PV NX (T n ch) ->
  (forall x, In x (flat_map elements ch) -> g x = f x) ->
  h_parent (g n) = P' -> h_prev (g n) = PV' -> h_next (g n) = NX' -> h_child (g n) = h_child (f n) ->
  R g P' PV' NX' (T n ch).
Proof.
  rewrite !R_unfold. intros (A & B & C & D & F) He H1 H2 H3 H4. repeat split; auto; try congruence.
  eapply chain_ext; eauto.
Qed.

(* ---------------------------------------------------------------------- *)
(* NoDup helpers *)
Lemma NoDup_app_inv {A} (l1 l2 : list A) :
  NoDup (l1 ++ l2) -> NoDup l1 /\ NoDup l2 /\ (forall x, In x l1 -> ~ In x l2).
Proof.
  intros H. split; [eapply NoDup_app_l; eauto|]. split; [eapply NoDup_app_r; eauto|].
  intros x. eapply NoDup_app_disj; eauto.
Qed.

Lemma NoDup_app_intro {A} (l1 l2 : list A) :
  NoDup l1 -> NoDup l2 -> (forall x, In x l1 -> ~ In x l2) -> NoDup (l1 ++ l2).
Proof.
  induction l1 as [|a l1 IH]; simpl; auto. intros H1 H2 H3. inv H1. constructor.
  - intro Hin. apply in_app_or in Hin. destruct Hin; auto. eapply H3; eauto.
  - apply IH; auto.
Qed.

Lemma root_in_elements t : In (root_id t) (elements t).
Proof. destruct t; simpl; auto. Qed.

Lemma in_forest_elements c l x : In c l -> In x (elements c) -> In x (flat_map elements l).
Proof. intros. apply in_flat_map. exists c; auto. Qed.

(* ---------------------------------------------------------------------- *)
(* one-hole contexts *)
Inductive plug : tree -> tree -> tree -> tree -> Prop :=
| plug_here s s' : plug s s s' s'
| plug_child r a c b s c' s' :
    plug c s c' s' -> plug (T r (a ++ c :: b)) s (T r (a ++ c' :: b)) s'.

Lemma plug_root t s t' s' : plug t s t' s' -> root_id s = root_id s' -> root_id t = root_id t'.
Proof. induction 1; auto. Qed.

Lemma plug_incl t s t' s' : plug t s t' s' -> incl (elements s) (elements t).
Proof.
  induction 1; [apply incl_refl|]. intros x Hx. apply IHplug in Hx. cbn [elements]. right.
  rewrite flat_map_app. apply in_or_app. right. simpl. apply in_or_app. auto.
Qed.

Lemma R_plug_sub f t s t' s' : plug t s t' s' ->
  forall P PV NX, R f P PV NX t -> exists P' PV' NX', R f P' PV' NX' s.
Proof.
  induction 1; intros P PV NX HR; [eauto|].
  apply R_unfold in HR. destruct HR as (_ & _ & _ & _ & HC).
  apply chain_app in HC. destruct HC as [_ HC]. cbn [chain] in HC. destruct HC as [HC _].
  eapply IHplug; eauto.
Qed.

Lemma plug_ordered key t s t' s' : plug t s t' s' -> heap_ordered key t -> heap_ordered key s.
Proof.
  induction 1; auto. intros Ho. apply heap_ordered_unfold in Ho.
  apply Forall_app in Ho. destruct Ho as [_ Ho]. inv Ho. apply IHplug. apply H2.
Qed.

Lemma R_plug f g : forall t s t' s', plug t s t' s' -> root_id s = root_id s' ->
  NoDup (elements t) ->
  (forall x, In x (elements t) -> ~ In x (elements s) -> g x = f x) ->
  (forall P PV NX, R f P PV NX s -> R g P PV NX s') ->
  forall P PV NX, R f P PV NX t -> R g P PV NX t'.
Proof.
  induction 1 as [s s'|r a c b s c' s' Hp IH]; intros Hroot Hnd Hfr Hs P PV NX HR; auto.
  pose proof (plug_root _ _ _ _ Hp Hroot) as Hrc.
  pose proof (plug_incl _ _ _ _ Hp) as Hinc.
  cbn [elements] in Hnd. inv Hnd. rewrite flat_map_app in H1, H2. cbn [flat_map] in H1, H2.
  apply NoDup_app_inv in H2. destruct H2 as (Na & Ncb & Dacb).
  apply NoDup_app_inv in Ncb. destruct Ncb as (Nc & Nb & Dcb).
  assert (Hin : forall x, In x (elements (T r (a ++ c :: b))) <->
                          x = r \/ In x (flat_map elements a) \/ In x (elements c) \/ In x (flat_map elements b)).
  { intros x. cbn [elements In]. rewrite flat_map_app. cbn [flat_map]. rewrite !in_app_iff.
    split; intros [?|?]; auto. }
  apply R_unfold in HR. destruct HR as (A1 & A2 & A3 & A4 & HC).
  apply R_unfold.
  assert (Er : g r = f r).
  { apply Hfr; [apply Hin; auto|]. intro Hx. apply Hinc in Hx. apply H1.
    apply in_or_app. right. apply in_or_app. auto. }
  rewrite Er. repeat split; auto.
  - rewrite A4, !first_id_hd, !hd_id_app. cbn [hd_id]. rewrite Hrc. reflexivity.
  - apply chain_app in HC. destruct HC as [HC1 HC2]. cbn [chain] in HC2. destruct HC2 as [HC2 HC3].
    apply chain_app. cbn [chain hd_id]. cbn [hd_id] in HC1. rewrite <- Hrc. repeat split.
    + eapply chain_ext; [|exact HC1]. intros x Hx. apply Hfr; [apply Hin; auto|].
      intro Hx'. apply Hinc in Hx'. eapply Dacb; eauto. apply in_or_app; auto.
    + apply IH; auto. intros x Hx Hnx. apply Hfr; auto. apply Hin; auto.
    + eapply chain_ext; [|exact HC3]. intros x Hx. apply Hfr; [apply Hin; auto|].
      intro Hx'. apply Hinc in Hx'. eapply Dcb; eauto.
Qed.

(* ---------------------------------------------------------------------- *)
(* tree-level remove as a context operation *)
Definition olist (o : option tree) : list tree := match o with Some m => [m] | None => [] end.

Section Pure.
  Variable key : nat -> N.

  Lemma merge_rev_fuel : forall k k' rl cur, length rl < k -> length rl < k' ->
    merge_rev key k rl cur = merge_rev key k' rl cur.
  Proof.
    induction k as [|k IH]; intros k' rl cur H1 H2; [lia|]. destruct k' as [|k']; [lia|].
    destruct rl as [|n [|p rest]]; cbn [merge_rev]; auto.
    apply IH; simpl in *; lia.
  Qed.

  Definition rm_res (f : nat) (fc l1 l2 : list tree) : list tree :=
    olist (Timer.merge_children key fc) ++ l1 ++ l2.

  Lemma go_with_plug f rec :
    (forall rc rc', rec rc = (rc', true) -> forall r,
       exists p l1 fc l2, plug (T r rc) (T p (l1 ++ T f fc :: l2)) (T r rc') (T p (rm_res f fc l1 l2))) ->
    forall cs cs', go_with rec cs = (cs', true) -> forall r,
       exists p l1 fc l2, plug (T r cs) (T p (l1 ++ T f fc :: l2)) (T r cs') (T p (rm_res f fc l1 l2)).
  Proof.
    intros Hrec cs cs' H r.
    assert (G : exists p l1 fc l2 a c b c', cs = a ++ c :: b /\ cs' = a ++ c' :: b /\
                 plug c (T p (l1 ++ T f fc :: l2)) c' (T p (rm_res f fc l1 l2))).
    { revert cs' H. induction cs as [|[r0 rc] rest IH]; intros cs' H; simpl in H; [discriminate|].
      destruct (rec rc) as [rc' found] eqn:E. destruct found.
      - inv H. destruct (Hrec _ _ E r0) as (p & l1 & fc & l2 & Hp).
        exists p, l1, fc, l2, [], (T r0 rc), rest, (T r0 rc'). auto.
      - destruct (go_with rec rest) as [rest' found'] eqn:E2. inv H.
        destruct (IH _ eq_refl) as (p & l1 & fc & l2 & a & c & b & c' & -> & -> & Hp).
        exists p, l1, fc, l2, (T r0 rc :: a), c, b, c'. auto. }
    destruct G as (p & l1 & fc & l2 & a & c & b & c' & -> & -> & Hp).
    exists p, l1, fc, l2. constructor. exact Hp.
  Qed.

  Lemma remove_in_plug : forall fuel f cs cs', remove_in key fuel f cs = (cs', true) -> forall r,
    exists p l1 fc l2, plug (T r cs) (T p (l1 ++ T f fc :: l2)) (T r cs') (T p (rm_res f fc l1 l2)).
  Proof.
    induction fuel as [|k IH]; intros f cs cs' H r; [simpl in H; discriminate|].
    rewrite remove_in_S in H.
    destruct (find_root f cs) as [[others fc]|] eqn:E.
    - apply find_root_Some in E. destruct E as (l1 & l2 & -> & ->).
      exists r, l1, fc, l2.
      replace cs' with (rm_res f fc l1 l2); [constructor|].
      unfold rm_res. destruct (Timer.merge_children key fc); inv H; reflexivity.
    - eapply go_with_plug; [|exact H]. intros rc rc'. apply IH.
  Qed.

  Lemma remove_plug r cs n : In n (flat_map elements cs) -> r <> n ->
    exists p l1 fc l2 cs', Timer.remove key (Some (T r cs)) n = Some (T r cs') /\
      plug (T r cs) (T p (l1 ++ T n fc :: l2)) (T r cs') (T p (rm_res n fc l1 l2)).
  Proof.
    intros Hin Hne. unfold Timer.remove. destruct (Nat.eqb_spec r n); [congruence|].
    pose proof (remove_in_found key (size (T r cs)) n cs) as F.
    rewrite size_T in F. specialize (F ltac:(lia) Hin). rewrite <- size_T with (r := r) in F.
    destruct (remove_in key (size (T r cs)) n cs) as [cs' found] eqn:E. cbn [snd] in F. subst found.
    destruct (remove_in_plug _ _ _ _ E r) as (p & l1 & fc & l2 & Hp).
    exists p, l1, fc, l2, cs'. auto.
  Qed.
End Pure.

(* ====================================================================== *)
(* part 2 *)
(* Part 2: primitive pointer operations *)


Lemma hget_hset h n c x : n < length (hcells h) ->
  hget (hset h n c) x = if Nat.eqb x n then c else hget h x.
Proof.
  intros Hn. unfold hget, hset. cbn [hcells]. rewrite nth_upd.
  rewrite (Nat.eqb_sym n x). destruct (Nat.eqb_spec x n) as [->|]; simpl; auto.
  apply Nat.ltb_lt in Hn. rewrite Hn. reflexivity.
Qed.

Lemma hget_set_parent h n v x : n < length (hcells h) ->
  hget (set_parent h n v) x =
  if Nat.eqb x n then mkH v (h_prev (hget h n)) (h_next (hget h n)) (h_child (hget h n)) else hget h x.
Proof. apply hget_hset. Qed.
Lemma hget_set_hprev h n v x : n < length (hcells h) ->
  hget (set_hprev h n v) x =
  if Nat.eqb x n then mkH (h_parent (hget h n)) v (h_next (hget h n)) (h_child (hget h n)) else hget h x.
Proof. apply hget_hset. Qed.
Lemma hget_set_hnext h n v x : n < length (hcells h) ->
  hget (set_hnext h n v) x =
  if Nat.eqb x n then mkH (h_parent (hget h n)) (h_prev (hget h n)) v (h_child (hget h n)) else hget h x.
Proof. apply hget_hset. Qed.
Lemma hget_set_child h n v x : n < length (hcells h) ->
  hget (set_child h n v) x =
  if Nat.eqb x n then mkH (h_parent (hget h n)) (h_prev (hget h n)) (h_next (hget h n)) v else hget h x.
Proof. apply hget_hset. Qed.
Lemma hget_chk h b x : hget (chk h b) x = hget h x.
Proof. reflexivity. Qed.
Lemma hget_set_root h r x : hget (set_root h r) x = hget h x.
Proof. reflexivity. Qed.

Lemma len_set_parent h n v : length (hcells (set_parent h n v)) = length (hcells h).
Proof. apply upd_length. Qed.
Lemma len_set_hprev h n v : length (hcells (set_hprev h n v)) = length (hcells h).
Proof. apply upd_length. Qed.
Lemma len_set_hnext h n v : length (hcells (set_hnext h n v)) = length (hcells h).
Proof. apply upd_length. Qed.
Lemma len_set_child h n v : length (hcells (set_child h n v)) = length (hcells h).
Proof. apply upd_length. Qed.
Lemma len_chk h b : length (hcells (chk h b)) = length (hcells h).
Proof. reflexivity. Qed.
Lemma len_set_root h r : length (hcells (set_root h r)) = length (hcells h).
Proof. reflexivity. Qed.

Global Hint Rewrite len_set_parent len_set_hprev len_set_hnext len_set_child len_chk len_set_root : plen.

Lemma ok_set_parent h n v : ok (set_parent h n v) = ok h. Proof. reflexivity. Qed.
Lemma ok_set_hprev h n v : ok (set_hprev h n v) = ok h. Proof. reflexivity. Qed.
Lemma ok_set_hnext h n v : ok (set_hnext h n v) = ok h. Proof. reflexivity. Qed.
Lemma ok_set_child h n v : ok (set_child h n v) = ok h. Proof. reflexivity. Qed.
Lemma ok_set_root h r : ok (set_root h r) = ok h. Proof. reflexivity. Qed.
Lemma ok_chk h b : ok (chk h b) = (ok h && b)%bool. Proof. reflexivity. Qed.
Lemma kof_set_parent h n v : kof (set_parent h n v) = kof h. Proof. reflexivity. Qed.
Lemma kof_set_hprev h n v : kof (set_hprev h n v) = kof h. Proof. reflexivity. Qed.
Lemma kof_set_hnext h n v : kof (set_hnext h n v) = kof h. Proof. reflexivity. Qed.
Lemma kof_set_child h n v : kof (set_child h n v) = kof h. Proof. reflexivity. Qed.
Lemma kof_set_root h r : kof (set_root h r) = kof h. Proof. reflexivity. Qed.
Lemma kof_chk h b : kof (chk h b) = kof h. Proof. reflexivity. Qed.
Global Hint Rewrite ok_set_parent ok_set_hprev ok_set_hnext ok_set_child ok_set_root ok_chk
  kof_set_parent kof_set_hprev kof_set_hnext kof_set_child kof_set_root kof_chk : pok.

Ltac lens := autorewrite with plen; first [assumption | lia | auto; fail].

Ltac hsimp :=
  repeat first
    [ rewrite hget_chk
    | rewrite hget_set_root
    | rewrite hget_set_parent by lens
    | rewrite hget_set_hprev by lens
    | rewrite hget_set_hnext by lens
    | rewrite hget_set_child by lens ].

Ltac eqb_cases :=
  repeat match goal with
  | |- context [Nat.eqb ?a ?b] => destruct (Nat.eqb_spec a b); try subst; try congruence; try lia
  end.

(* fields that never change *)
Definition pres (h h' : pheap) : Prop :=
  length (hcells h') = length (hcells h) /\ keys h' = keys h /\ root h' = root h.

Definition frame (S : list nat) (h h' : pheap) : Prop :=
  pres h h' /\ forall x, ~ In x S -> hget h' x = hget h x.

Lemma frame_refl S h : frame S h h.
Proof. repeat split; auto. Qed.

Lemma frame_trans S1 S2 S h1 h2 h3 :
  frame S1 h1 h2 -> frame S2 h2 h3 -> incl S1 S -> incl S2 S -> frame S h1 h3.
Proof.
  intros [(A1 & A2 & A3) A4] [(B1 & B2 & B3) B4] I1 I2. repeat split; try congruence.
  intros x Hx. rewrite B4, A4; auto.
Qed.

Lemma frame_incl S S' h h' : frame S h h' -> incl S S' -> frame S' h h'.
Proof. intros [A B] I. split; auto. Qed.

Lemma kof_pres h h' : keys h' = keys h -> kof h' = kof h.
Proof. intros H. unfold kof. rewrite H. reflexivity. Qed.

Lemma add_child_cells h p c :
  p < length (hcells h) -> c < length (hcells h) -> p <> c ->
  (forall o, h_child (hget h p) = Some o -> o < length (hcells h) /\ o <> p /\ o <> c) ->
  let h' := add_child h p c in
  pres h h' /\
  ok h' = (ok h && negb (N.ltb (kof h c) (kof h p)) &&
           match h_child (hget h p) with Some o => onone (h_prev (hget h o)) | None => true end)%bool /\
  hget h' p = mkH (h_parent (hget h p)) (h_prev (hget h p)) (h_next (hget h p)) (Some c) /\
  hget h' c = mkH (Some p) (h_prev (hget h c))
                  (match h_child (hget h p) with Some o => Some o | None => h_next (hget h c) end)
                  (h_child (hget h c)) /\
  (forall o, h_child (hget h p) = Some o ->
     hget h' o = mkH (h_parent (hget h o)) (Some c) (h_next (hget h o)) (h_child (hget h o))) /\
  (forall x, x <> p -> x <> c -> h_child (hget h p) <> Some x -> hget h' x = hget h x).
Proof.
  intros Hp Hc Hpc Ho h'. subst h'. unfold add_child. hsimp.
  destruct (h_child (hget h p)) as [o|] eqn:E.
  - destruct (Ho o eq_refl) as (Ho1 & Ho2 & Ho3).
    split; [unfold pres; autorewrite with plen; auto|].
    split; [autorewrite with pok; hsimp; eqb_cases; try reflexivity|].
    split; [hsimp; eqb_cases; try reflexivity|].
    split; [hsimp; eqb_cases; try reflexivity|].
    split.
    + intros o' Eo. inv Eo. hsimp. eqb_cases; try reflexivity.
    + intros x H1 H2 H3. hsimp. eqb_cases; try reflexivity.
  - split; [unfold pres; autorewrite with plen; auto|].
    split; [autorewrite with pok; rewrite !andb_true_r; reflexivity|].
    split; [hsimp; eqb_cases; try reflexivity|].
    split; [hsimp; eqb_cases; try reflexivity|].
    split; [intros; discriminate|].
    intros x H1 H2 H3. hsimp. eqb_cases; try reflexivity.
Qed.

(* ====================================================================== *)
(* part 3 *)
(* Part 3: add_child / meld at the representation level *)


Ltac nd_break :=
  repeat match goal with
  | H : NoDup (elements (T _ _)) |- _ => cbn [elements] in H
  | H : NoDup (flat_map elements (_ :: _)) |- _ => cbn [flat_map] in H
  | H : NoDup (flat_map elements (_ ++ _)) |- _ => rewrite flat_map_app in H
  | H : NoDup (helements (Some _)) |- _ => cbn [helements] in H
  | H : NoDup ((_ :: _) ++ _) |- _ => rewrite <- app_comm_cons in H
  | H : NoDup (_ :: _) |- _ => apply NoDup_cons_iff in H; destruct H
  | H : NoDup (_ ++ _) |- _ => apply NoDup_app_inv in H; destruct H as (? & ? & ?)
  end.

Ltac in_simp :=
  cbn [elements flat_map helements] in *;
  repeat (rewrite ?flat_map_app, ?in_app_iff in *; cbn [In elements flat_map] in * ).

Ltac in_norm :=
  cbn [elements flat_map helements app In] in *;
  repeat match goal with
  | H : context [flat_map _ (_ ++ _)] |- _ => setoid_rewrite flat_map_app in H
  | |- context [flat_map _ (_ ++ _)] => setoid_rewrite flat_map_app
  end;
  cbn [elements flat_map helements app In] in *;
  repeat match goal with
  | H : context [In _ (_ ++ _)] |- _ => setoid_rewrite in_app_iff in H
  | |- context [In _ (_ ++ _)] => setoid_rewrite in_app_iff
  end;
  cbn [elements flat_map helements app In] in *.

Ltac nd_auto := nd_break; in_norm; try solve [intuition (subst; eauto) | firstorder (subst; eauto)].

Lemma add_child_R h p c pcs ccs P PV NX :
  R (hget h) P PV NX (T p pcs) -> R (hget h) None None None (T c ccs) ->
  NoDup (elements (T p pcs) ++ elements (T c ccs)) ->
  (forall x, In x (elements (T p pcs) ++ elements (T c ccs)) -> x < length (hcells h)) ->
  let h' := add_child h p c in
  R (hget h') P PV NX (T p (T c ccs :: pcs)) /\
  frame (elements (T p pcs) ++ elements (T c ccs)) h h' /\
  ok h' = (ok h && negb (N.ltb (kof h c) (kof h p)))%bool.
Proof.
  intros Rp Rc Hnd Hb h'.
  assert (Hp : p < length (hcells h)) by (apply Hb; simpl; auto).
  assert (Hc : c < length (hcells h)) by (apply Hb; apply in_or_app; right; simpl; auto).
  apply R_unfold in Rp. destruct Rp as (P1 & P2 & P3 & P4 & PC).
  pose proof Rc as Rc0.
  apply R_unfold in Rc. destruct Rc as (C1 & C2 & C3 & C4 & CC).
  assert (Hpc : p <> c) by (intro; subst; nd_auto).
  assert (Ho : forall o, h_child (hget h p) = Some o -> o < length (hcells h) /\ o <> p /\ o <> c /\
            exists och rest, pcs = T o och :: rest).
  { intros o Eo. rewrite P4 in Eo. destruct pcs as [|[o' och] rest]; inv Eo.
    split; [apply Hb; in_simp; auto|].
    split; [intro; subst; nd_auto|]. split; [intro; subst; nd_auto|]. eauto. }
  destruct (add_child_cells h p c Hp Hc Hpc) as (Hpres & Hok & Gp & Gc & Go & Gx).
  { intros o Eo. destruct (Ho o Eo) as (? & ? & ? & _). auto. }
  fold h' in Hpres, Hok, Gp, Gc, Go, Gx.
  split; [|split].
  - apply R_unfold. rewrite Gp. cbn [h_parent h_prev h_next h_child first_id].
    split; [|split; [|split; [|split]]]; auto.
    cbn [chain]. split.
    + eapply R_reroot; [exact Rc0| |rewrite Gc; reflexivity|rewrite Gc; exact C2| |rewrite Gc; reflexivity].
      * intros x Hx. apply Gx.
        -- intro; subst; nd_auto.
        -- intro; subst; nd_auto.
        -- intro Eo. destruct (Ho _ Eo) as (_ & _ & _ & och & rest & ->). nd_auto.
      * rewrite Gc. cbn [h_next]. rewrite P4, C3. destruct pcs as [|[o och] rest]; reflexivity.
    + destruct pcs as [|[o och] rest]; [exact I|]. cbn [chain] in PC |- *. destruct PC as [PC1 PC2].
      cbn [root_id] in *. cbn [first_id] in P4. split.
      * eapply R_reroot; [exact PC1| | | | |]; try (rewrite (Go o P4); reflexivity).
        -- intros x Hx. apply Gx.
           ++ intro; subst; nd_auto.
           ++ intro; subst; nd_auto.
           ++ rewrite P4. intro Eo; inv Eo. nd_auto.
        -- rewrite (Go o P4). cbn. apply R_root in PC1. tauto.
        -- rewrite (Go o P4). cbn. apply R_root in PC1. tauto.
      * eapply chain_ext; [|exact PC2]. intros x Hx. apply Gx.
        -- intro; subst; nd_auto.
        -- intro; subst; nd_auto.
        -- rewrite P4. intro Eo; inv Eo. nd_auto.
  - split; auto. intros x Hx. apply Gx.
    + intro; subst; apply Hx; in_simp; auto.
    + intro; subst; apply Hx; in_simp; auto.
    + intro Eo. destruct (Ho _ Eo) as (_ & _ & _ & och & rest & ->). apply Hx; in_simp; auto.
  - rewrite Hok. destruct (h_child (hget h p)) as [o|] eqn:Eo; [|apply andb_true_r].
    destruct (Ho _ eq_refl) as (_ & _ & _ & och & rest & ->). cbn [chain] in PC. destruct PC as [PC1 _].
    apply R_root in PC1. cbn [root_id] in PC1. destruct PC1 as (_ & -> & _). apply andb_true_r.
Qed.

(* ---------------------------------------------------------------------- *)
Lemma chk_true h : chk h true = h.
Proof. destruct h; unfold chk; simpl. rewrite andb_true_r. reflexivity. Qed.

Lemma is_root_clean h n :
  h_parent (hget h n) = None -> h_prev (hget h n) = None -> h_next (hget h n) = None ->
  is_root h n = (h, true).
Proof. intros A B C. unfold is_root. rewrite A, B, C. simpl. rewrite chk_true. reflexivity. Qed.

Lemma NoDup_app_comm {A} (l1 l2 : list A) : NoDup (l1 ++ l2) -> NoDup (l2 ++ l1).
Proof. apply Permutation_NoDup. apply Permutation_app_comm. Qed.

Lemma meld_R h l r lcs rcs :
  R (hget h) None None None (T l lcs) -> R (hget h) None None None (T r rcs) ->
  NoDup (elements (T l lcs) ++ elements (T r rcs)) ->
  (forall x, In x (elements (T l lcs) ++ elements (T r rcs)) -> x < length (hcells h)) ->
  let mt := Timer.meld (kof h) (T l lcs) (T r rcs) in
  exists h', meld h l r = (h', root_id mt) /\
    R (hget h') None None None mt /\ frame (elements (T l lcs) ++ elements (T r rcs)) h h' /\ ok h' = ok h.
Proof.
  intros Rl Rr Hnd Hb mt. subst mt.
  pose proof (R_root _ _ _ _ _ Rl) as (L1 & L2 & L3). pose proof (R_root _ _ _ _ _ Rr) as (R1 & R2 & R3).
  cbn [root_id] in *.
  unfold meld. rewrite (is_root_clean h l), (is_root_clean h r) by auto.
  rewrite L1, R1. cbn [onone andb]. rewrite chk_true. unfold Timer.meld.
  destruct (N.ltb_spec (kof h l) (kof h r)) as [Hlt|Hge].
  - destruct (add_child_R h l r lcs rcs None None None Rl Rr Hnd Hb) as (A & B & C).
    eexists. split; [reflexivity|]. split; [exact A|]. split; [exact B|].
    rewrite C. replace (N.ltb (kof h r) (kof h l)) with false; [apply andb_true_r|].
    symmetry. apply N.ltb_ge. lia.
  - destruct (add_child_R h r l rcs lcs None None None Rr Rl) as (A & B & C).
    { apply NoDup_app_comm. exact Hnd. }
    { intros x Hx. apply Hb. apply in_app_or in Hx. apply in_or_app. tauto. }
    eexists. split; [reflexivity|]. split; [exact A|]. split.
    + eapply frame_incl; [exact B|]. intros x Hx. apply in_app_or in Hx. apply in_or_app. tauto.
    + rewrite C. replace (N.ltb (kof h l) (kof h r)) with false; [apply andb_true_r|].
      symmetry. apply N.ltb_ge. lia.
Qed.

Definition oR (f : nat -> hcell) (o : option tree) : Prop :=
  match o with Some t => R f None None None t | None => True end.

Lemma meld_R' h tl tr :
  R (hget h) None None None tl -> R (hget h) None None None tr ->
  NoDup (elements tl ++ elements tr) ->
  (forall x, In x (elements tl ++ elements tr) -> x < length (hcells h)) ->
  let mt := Timer.meld (kof h) tl tr in
  exists h', meld h (root_id tl) (root_id tr) = (h', root_id mt) /\
    R (hget h') None None None mt /\ frame (elements tl ++ elements tr) h h' /\ ok h' = ok h.
Proof. destruct tl, tr. apply meld_R. Qed.

Lemma maybe_meld_R h cur rt :
  oR (hget h) cur -> R (hget h) None None None rt ->
  NoDup (helements cur ++ elements rt) ->
  (forall x, In x (helements cur ++ elements rt) -> x < length (hcells h)) ->
  let mt := Timer.maybe_meld (kof h) cur rt in
  exists h', maybe_meld h (option_map root_id cur) (root_id rt) = (h', root_id mt) /\
    R (hget h') None None None mt /\ frame (helements cur ++ elements rt) h h' /\ ok h' = ok h.
Proof.
  destruct cur as [ct|]; cbn [oR helements option_map maybe_meld Timer.maybe_meld].
  - apply meld_R'.
  - intros _ Rr _ _. exists h. split; [reflexivity|]. split; [exact Rr|]. split; [apply frame_refl|reflexivity].
Qed.

(* ====================================================================== *)
(* part 4 *)
(* Part 4: merge_children *)


Lemma oeqn_refl a : oeqn a a = true.
Proof. destruct a; simpl; auto. apply Nat.eqb_refl. Qed.

Definition detach (h : pheap) (common : option nat) (node : nat) : pheap * option nat :=
  unlink_prev (chk (set_parent h node None) (oeqn (h_parent (hget h node)) common)) node.

Lemma merge_loop_S k h common node cur :
  merge_loop (S k) h common node cur =
  let '(h, op) := detach h common node in
  match op with
  | None => maybe_meld h cur node
  | Some p =>
      let '(h, opp) := detach h common p in
      let '(h, m) := meld h p node in
      let '(h, c) := maybe_meld h cur m in
      match opp with
      | Some q => merge_loop k h common q (Some c)
      | None => (h, c)
      end
  end.
Proof. reflexivity. Qed.

Ltac reroot_tac :=
  first [ intros ?x ?Hx; hsimp; eqb_cases; try reflexivity; nd_auto
        | hsimp; eqb_cases; try reflexivity; auto ].

Lemma detach_last h common nd rest :
  rchain (hget h) common None None (nd :: rest) ->
  NoDup (flat_map elements (nd :: rest)) ->
  (forall x, In x (flat_map elements (nd :: rest)) -> x < length (hcells h)) ->
  exists h2, detach h common (root_id nd) = (h2, hd_id rest None) /\
    R (hget h2) None None None nd /\ rchain (hget h2) common None None rest /\
    frame (flat_map elements (nd :: rest)) h h2 /\ ok h2 = ok h.
Proof.
  destruct nd as [n nch]. cbn [rchain root_id]. intros [Rn RC] Hnd Hb.
  pose proof (R_root _ _ _ _ _ Rn) as (N1 & N2 & N3). cbn [root_id] in *.
  assert (Hn : n < length (hcells h)) by (apply Hb; in_simp; auto).
  unfold detach, unlink_prev. rewrite N1, oeqn_refl, chk_true. hsimp. rewrite Nat.eqb_refl.
  cbn [h_next h_prev]. rewrite N3, N2. cbn [onone]. rewrite chk_true.
  destruct rest as [|[p pch] rest']; cbn [hd_id root_id].
  - eexists. split; [reflexivity|]. split; [|split; [exact I|split]].
    + eapply R_reroot; [exact Rn| | | | |]; reroot_tac.
    + split; [unfold pres; autorewrite with plen; auto|]. intros x Hx. hsimp. eqb_cases.
      exfalso; apply Hx; in_simp; auto.
    + reflexivity.
  - cbn [rchain] in RC. destruct RC as [Rp RC].
    pose proof (R_root _ _ _ _ _ Rp) as (Q1 & Q2 & Q3). cbn [root_id] in *.
    assert (Hp : p < length (hcells h)) by (apply Hb; in_simp; auto).
    assert (Hpn : p <> n) by (intro; subst; nd_auto).
    hsimp. destruct (Nat.eqb_spec p n); [congruence|]. rewrite Q3. cbn [oeqn]. rewrite Nat.eqb_refl, chk_true.
    eexists. split; [reflexivity|]. split; [|split; [|split]].
    + eapply R_reroot; [exact Rn| | | | |]; reroot_tac.
    + cbn [rchain]. split.
      * eapply R_reroot; [exact Rp| | | | |]; reroot_tac.
      * eapply rchain_ext; [|exact RC]. intros x Hx. hsimp. eqb_cases; nd_auto.
    + split; [unfold pres; autorewrite with plen; auto|]. intros x Hx. hsimp. eqb_cases.
      * exfalso; apply Hx; in_simp; auto.
      * exfalso; apply Hx; in_simp; auto.
    + reflexivity.
Qed.

Lemma oR_ext f g cur : (forall x, In x (helements cur) -> g x = f x) -> oR f cur -> oR g cur.
Proof. destruct cur; simpl; auto. apply R_ext. Qed.

Lemma frame_keys S h h' : frame S h h' -> kof h' = kof h.
Proof. intros [(_ & K & _) _]. apply kof_pres; auto. Qed.
Lemma frame_len S h h' : frame S h h' -> length (hcells h') = length (hcells h).
Proof. intros [(L & _ & _) _]. auto. Qed.
Lemma frame_get S h h' x : frame S h h' -> ~ In x S -> hget h' x = hget h x.
Proof. intros [_ F]. apply F. Qed.

Lemma merge_loop_R : forall fuel h common nd rest cur,
  rchain (hget h) common None None (nd :: rest) ->
  oR (hget h) cur ->
  NoDup (flat_map elements (nd :: rest) ++ helements cur) ->
  (forall x, In x (flat_map elements (nd :: rest) ++ helements cur) -> x < length (hcells h)) ->
  length rest < fuel ->
  exists h' mt, merge_loop fuel h common (root_id nd) (option_map root_id cur) = (h', root_id mt) /\
    merge_rev (kof h) fuel (nd :: rest) cur = Some mt /\
    R (hget h') None None None mt /\
    frame (flat_map elements (nd :: rest) ++ helements cur) h h' /\ ok h' = ok h.
Proof.
  induction fuel as [|k IH]; intros h common nd rest cur RC Rcur Hnd Hb Hlen; [lia|].
  rewrite merge_loop_S.
  destruct (detach_last h common nd rest RC) as (h2 & E2 & Rn2 & RC2 & F2 & O2).
  { cnt_auto. }
  { intros x Hx. apply Hb. cnt_auto. }
  rewrite E2.
  assert (Rcur2 : oR (hget h2) cur).
  { eapply oR_ext; [|exact Rcur]. intros x Hx. eapply frame_get; [exact F2|]. cnt_auto. }
  destruct rest as [|pt rest']; cbn [hd_id].
  - (* odd case *)
    destruct (maybe_meld_R h2 cur nd Rcur2 Rn2) as (h3 & E3 & R3 & F3 & O3).
    { cnt_auto. }
    { intros x Hx. rewrite (frame_len _ _ _ F2). apply Hb. cnt_auto. }
    rewrite (frame_keys _ _ _ F2) in E3, R3.
    exists h3, (Timer.maybe_meld (kof h) cur nd). split; [exact E3|]. split; [reflexivity|].
    split; [exact R3|]. split; [|congruence].
    eapply frame_trans; [exact F2|exact F3| |]; cnt_auto.
  - (* a pair *)
    destruct (detach_last h2 common pt rest' RC2) as (h3 & E3 & Rp3 & RC3 & F3 & O3).
    { cnt_auto. }
    { intros x Hx. rewrite (frame_len _ _ _ F2). apply Hb. cnt_auto. }
    rewrite E3.
    assert (Rn3 : R (hget h3) None None None nd).
    { eapply R_ext; [|exact Rn2]. intros x Hx. eapply frame_get; [exact F3|]. cnt_auto. }
    assert (Rcur3 : oR (hget h3) cur).
    { eapply oR_ext; [|exact Rcur2]. intros x Hx. eapply frame_get; [exact F3|]. cnt_auto. }
    destruct (meld_R' h3 pt nd Rp3 Rn3) as (h4 & E4 & R4 & F4 & O4).
    { cnt_auto. }
    { intros x Hx. rewrite (frame_len _ _ _ F3), (frame_len _ _ _ F2). apply Hb. cnt_auto. }
    rewrite (frame_keys _ _ _ F3), (frame_keys _ _ _ F2) in E4, R4.
    rewrite E4.
    pose proof (meld_perm (kof h) pt nd) as Pm.
    set (m1 := Timer.meld (kof h) pt nd) in *.
    assert (Rcur4 : oR (hget h4) cur).
    { eapply oR_ext; [|exact Rcur3]. intros x Hx. eapply frame_get; [exact F4|]. cnt_auto. }
    destruct (maybe_meld_R h4 cur m1 Rcur4 R4) as (h5 & E5 & R5 & F5 & O5).
    { cnt_auto. }
    { intros x Hx. rewrite (frame_len _ _ _ F4), (frame_len _ _ _ F3), (frame_len _ _ _ F2). apply Hb. cnt_auto. }
    rewrite (frame_keys _ _ _ F4), (frame_keys _ _ _ F3), (frame_keys _ _ _ F2) in E5, R5.
    rewrite E5.
    pose proof (maybe_meld_perm (kof h) cur m1) as Pm2.
    set (m2 := Timer.maybe_meld (kof h) cur m1) in *.
    assert (F25 : frame (flat_map elements (nd :: pt :: rest') ++ helements cur) h h5).
    { eapply frame_trans; [eapply frame_trans; [eapply frame_trans; [exact F2|exact F3| |]|exact F4| |]|exact F5| |];
      try apply incl_refl; cnt_auto. }
    cbn [merge_rev]. fold m1. fold m2.
    destruct rest' as [|qt rest'']; cbn [hd_id].
    + exists h5, m2. split; [reflexivity|]. split; [destruct k; reflexivity|].
      split; [exact R5|]. split; [exact F25|congruence].
    + assert (RC5 : rchain (hget h5) common None None (qt :: rest'')).
      { eapply rchain_ext; [|exact RC3]. intros x Hx.
        rewrite (frame_get _ _ _ x F5), (frame_get _ _ _ x F4); auto; cnt_auto. }
      destruct (IH h5 common qt rest'' (Some m2) RC5 R5) as (h6 & mt & E6 & M6 & R6 & F6 & O6).
      { cnt_auto. }
      { intros x Hx. rewrite (frame_len _ _ _ F25). apply Hb. cnt_auto. }
      { simpl in Hlen. lia. }
      rewrite (frame_keys _ _ _ F25) in M6.
      exists h6, mt. split; [exact E6|]. split; [exact M6|]. split; [exact R6|]. split; [|congruence].
      eapply frame_trans; [exact F25|exact F6| |]; try apply incl_refl; cnt_auto.
Qed.

Lemma last_child_spec h par : forall l fuel c pv,
  chain (hget h) par pv None (c :: l) -> length l <= fuel ->
  last_id (c :: l) pv = Some (last_child fuel h (root_id c)).
Proof.
  induction l as [|c' l IH]; intros fuel c pv HC Hl.
  - cbn [chain hd_id] in HC. destruct HC as [HR _]. apply R_root in HR. destruct HR as (_ & _ & Hn).
    cbn [last_id]. destruct fuel; cbn [last_child]; [reflexivity|]. rewrite Hn. reflexivity.
  - cbn [chain hd_id] in HC. destruct HC as [HR HC]. apply R_root in HR. destruct HR as (_ & _ & Hn).
    destruct fuel as [|k]; [simpl in Hl; lia|]. cbn [last_child]. rewrite Hn.
    change (last_id (c :: c' :: l) pv) with (last_id (c' :: l) (Some (root_id c))).
    apply IH; auto. simpl in Hl. lia.
Qed.

Lemma nodup_bound_length (l : list nat) n : NoDup l -> (forall x, In x l -> x < n) -> length l <= n.
Proof.
  intros Hnd Hb. rewrite <- (seq_length n 0). apply NoDup_incl_length; auto.
  intros x Hx. apply in_seq. specialize (Hb x Hx). lia.
Qed.

Lemma length_elements t : length (elements t) = size t.
Proof.
  induction t as [r cs IH] using tree_ind'. cbn [elements size length]. f_equal.
  induction IH as [|c rest Hc _ IHr]; simpl; auto. rewrite app_length, Hc, IHr. reflexivity.
Qed.

Lemma length_flat_elements cs : length (flat_map elements cs) = fsize cs.
Proof.
  induction cs as [|c rest IH]; simpl; auto. rewrite app_length, length_elements, IH. reflexivity.
Qed.

Lemma length_le_fsize cs : length cs <= fsize cs.
Proof.
  induction cs as [|c rest IH]; [simpl; auto|]. rewrite fsize_cons. cbn [length].
  pose proof (size_pos c). lia.
Qed.

Lemma merge_children_R h par c0 l :
  chain (hget h) (Some par) None None (c0 :: l) ->
  NoDup (flat_map elements (c0 :: l)) ->
  (forall x, In x (flat_map elements (c0 :: l)) -> x < length (hcells h)) ->
  exists h' mt, merge_children h (root_id c0) = (h', root_id mt) /\
    Timer.merge_children (kof h) (c0 :: l) = Some mt /\
    R (hget h') None None None mt /\
    frame (flat_map elements (c0 :: l)) h h' /\ ok h' = ok h.
Proof.
  intros HC Hnd Hb. set (cs := c0 :: l) in *.
  assert (Hlen : length cs <= length (hcells h)).
  { eapply Nat.le_trans; [apply length_le_fsize|]. rewrite <- length_flat_elements.
    apply nodup_bound_length; auto. }
  unfold merge_children.
  assert (Hpar : h_parent (hget h (root_id c0)) = Some par).
  { cbn [chain] in HC. destruct HC as [HR _]. apply R_root in HR. tauto. }
  rewrite Hpar. cbn [onone negb]. rewrite chk_true.
  pose proof (last_child_spec h (Some par) l (length (hcells h)) c0 None HC) as HL.
  specialize (HL ltac:(simpl in Hlen; lia)). fold cs in HL. rewrite last_id_rev in HL.
  apply chain_rchain in HC.
  pose proof (Permutation_flat_map elements (Permutation_rev cs)) as Pr.
  pose proof (rev_length cs) as Hrl.
  unfold Timer.merge_children.
  destruct (rev cs) as [|nd rest] eqn:Er; [simpl in Hrl; discriminate|].
  cbn [hd_id] in HL. inv HL.
  destruct (merge_loop_R (S (length (hcells h))) h (Some par) nd rest None HC I) as (h' & mt & E & M & HR & F & O).
  { cnt_auto. }
  { intros x Hx. apply Hb. cnt_auto. }
  { change (length (nd :: rest)) with (S (length rest)) in Hrl. lia. }
  cbn [option_map] in E.
  exists h', mt. split; [exact E|]. split.
  - rewrite <- M. change (length (nd :: rest)) with (S (length rest)) in Hrl.
    apply merge_rev_fuel; cbn [length]; lia.
  - split; [exact HR|]. split; [|exact O]. eapply frame_incl; [exact F|]. cnt_auto.
Qed.

(* ====================================================================== *)
(* part 5 *)
(* Part 5: premove *)


Definition unlink (h : pheap) (n p : nat) : pheap :=
  let node := hget h n in
  let h := set_parent h n None in
  let h := match h_prev node with
           | Some pv => set_hnext h pv (h_next node)
           | None => set_child h p (h_next node)
           end in
  let h := match h_next node with
           | Some nx => set_hprev h nx (h_prev node)
           | None => h
           end in
  set_hprev (set_hnext h n None) n None.

Lemma premove_inner_eq h n p : h_parent (hget h n) = Some p ->
  premove h n =
  let hc := unlink h n p in
  match h_child (hget hc n) with
  | Some fc => let '(h, m) := merge_children (set_child hc n None) fc in add_child h p m
  | None => hc
  end.
Proof. intros E. unfold premove, unlink. rewrite E. reflexivity. Qed.

Lemma list_rev_case {A} (l : list A) : l = [] \/ exists l' a, l = l' ++ [a].
Proof. destruct l using rev_ind; eauto. Qed.

Ltac reroot_tac ::=
  first [ intros ?x ?Hx; hsimp; eqb_cases; try reflexivity; exfalso; cnt_auto
        | hsimp; eqb_cases; try reflexivity; auto ].

Ltac split5 := split; [|split; [|split; [|split]]].

Lemma unlink_R h p n fc l1 l2 P PV NX :
  R (hget h) P PV NX (T p (l1 ++ T n fc :: l2)) ->
  NoDup (elements (T p (l1 ++ T n fc :: l2))) ->
  (forall x, In x (elements (T p (l1 ++ T n fc :: l2))) -> x < length (hcells h)) ->
  let hc := unlink h n p in
  R (hget hc) P PV NX (T p (l1 ++ l2)) /\ R (hget hc) None None None (T n fc) /\
  frame (elements (T p (l1 ++ T n fc :: l2))) h hc /\ ok hc = ok h.
Proof.
  intros HR Hnd Hb.
  apply R_unfold in HR. destruct HR as (P1 & P2 & P3 & P4 & HC).
  apply chain_app in HC. destruct HC as [HC1 HC2]. cbn [chain hd_id root_id] in HC1, HC2.
  destruct HC2 as [Rn HC2].
  pose proof (R_root _ _ _ _ _ Rn) as (N1 & N2 & N3). cbn [root_id] in N1, N2, N3.
  assert (Hn : n < length (hcells h)) by (apply Hb; cnt_auto).
  assert (Hp : p < length (hcells h)) by (apply Hb; cnt_auto).
  assert (Hpn : p <> n) by cnt_auto.
  unfold unlink. rewrite N2, N3.
  destruct (list_rev_case l1) as [->|(l1' & [a ach] & ->)]; destruct l2 as [|[b bch] l2'];
    cbn [last_id hd_id root_id app] in *; rewrite ?last_id_app in *; cbn [last_id hd_id root_id app] in *.
  - (* only child *)
    split; [|split; [|split]].
    + apply R_unfold. split5; hsimp; eqb_cases; auto.
    + eapply R_reroot; [exact Rn| | | | |]; reroot_tac.
    + split; [unfold pres; autorewrite with plen; auto|]. intros x Hx. hsimp. eqb_cases; exfalso; apply Hx; cnt_auto.
    + reflexivity.
  - (* first child, has a next sibling *)
    destruct HC2 as [Rb HC2]. cbn [root_id] in *.
    pose proof (R_root _ _ _ _ _ Rb) as (B1 & B2 & B3). cbn [root_id] in B1, B2, B3.
    assert (Hbl : b < length (hcells h)) by (apply Hb; cnt_auto).
    assert (Hbn : b <> n) by cnt_auto. assert (Hbp : b <> p) by cnt_auto.
    split; [|split; [|split]].
    + apply R_unfold. split5; [hsimp; eqb_cases; auto ..|].
      cbn [chain hd_id]. split.
      * eapply R_reroot; [exact Rb| | | | |]; reroot_tac.
      * eapply chain_ext; [|exact HC2]. reroot_tac.
    + eapply R_reroot; [exact Rn| | | | |]; reroot_tac.
    + split; [unfold pres; autorewrite with plen; auto|]. intros x Hx. hsimp. eqb_cases; exfalso; apply Hx; cnt_auto.
    + reflexivity.
  - (* last child, has a previous sibling *)
    apply chain_app in HC1. destruct HC1 as [HC1 Ra]. cbn [chain hd_id root_id] in HC1, Ra. destruct Ra as [Ra _].
    pose proof (R_root _ _ _ _ _ Ra) as (A1 & A2 & A3). cbn [root_id] in A1, A2, A3.
    assert (Hal : a < length (hcells h)) by (apply Hb; cnt_auto).
    assert (Han : a <> n) by cnt_auto. assert (Hap : a <> p) by cnt_auto.
    rewrite first_id_hd, !hd_id_app in P4. cbn [hd_id root_id] in P4.
    split; [|split; [|split]].
    + apply R_unfold. rewrite app_nil_r, first_id_hd, !hd_id_app. cbn [hd_id root_id].
      split5; [hsimp; eqb_cases; auto ..|].
      apply chain_app. cbn [chain hd_id root_id]. split; [|split; [|exact I]].
      * eapply chain_ext; [|exact HC1]. reroot_tac.
      * eapply R_reroot; [exact Ra| | | | |]; reroot_tac.
    + eapply R_reroot; [exact Rn| | | | |]; reroot_tac.
    + split; [unfold pres; autorewrite with plen; auto|]. intros x Hx. hsimp. eqb_cases; exfalso; apply Hx; cnt_auto.
    + reflexivity.
  - (* middle child *)
    apply chain_app in HC1. destruct HC1 as [HC1 Ra]. cbn [chain hd_id root_id] in HC1, Ra. destruct Ra as [Ra _].
    pose proof (R_root _ _ _ _ _ Ra) as (A1 & A2 & A3). cbn [root_id] in A1, A2, A3.
    destruct HC2 as [Rb HC2]. cbn [root_id] in *.
    pose proof (R_root _ _ _ _ _ Rb) as (B1 & B2 & B3). cbn [root_id] in B1, B2, B3.
    assert (Hal : a < length (hcells h)) by (apply Hb; cnt_auto).
    assert (Han : a <> n) by cnt_auto. assert (Hap : a <> p) by cnt_auto.
    assert (Hbl : b < length (hcells h)) by (apply Hb; cnt_auto).
    assert (Hbn : b <> n) by cnt_auto. assert (Hbp : b <> p) by cnt_auto.
    assert (Hab : a <> b) by cnt_auto.
    rewrite first_id_hd, !hd_id_app in P4. cbn [hd_id root_id] in P4.
    split; [|split; [|split]].
    + apply R_unfold. rewrite first_id_hd, !hd_id_app. cbn [hd_id root_id].
      split5; [hsimp; eqb_cases; auto ..|].
      apply chain_app. rewrite last_id_app. cbn [chain hd_id last_id root_id]. split; [|split].
      * apply chain_app. cbn [chain hd_id root_id]. split; [|split; [|exact I]].
        -- eapply chain_ext; [|exact HC1]. reroot_tac.
        -- eapply R_reroot; [exact Ra| | | | |]; reroot_tac.
      * eapply R_reroot; [exact Rb| | | | |]; reroot_tac.
      * eapply chain_ext; [|exact HC2]. reroot_tac.
    + eapply R_reroot; [exact Rn| | | | |]; reroot_tac.
    + split; [unfold pres; autorewrite with plen; auto|]. intros x Hx. hsimp. eqb_cases; exfalso; apply Hx; cnt_auto.
    + reflexivity.
Qed.

(* ====================================================================== *)
(* part 6 *)
(* Part 6: premove, inner node *)


Lemma hcell_eta c : c = mkH (h_parent c) (h_prev c) (h_next c) (h_child c).
Proof. destruct c; reflexivity. Qed.

Lemma frame_set_child h n v : n < length (hcells h) -> frame [n] h (set_child h n v).
Proof.
  intros Hn. split; [unfold pres; autorewrite with plen; auto|].
  intros x Hx. hsimp. eqb_cases. exfalso; apply Hx; simpl; auto.
Qed.

Lemma premove_inner h n p fc l1 l2 P PV NX :
  let s := T p (l1 ++ T n fc :: l2) in
  R (hget h) P PV NX s -> NoDup (elements s) ->
  (forall x, In x (elements s) -> x < length (hcells h)) ->
  heap_ordered (kof h) s ->
  let h' := premove h n in
  R (hget h') P PV NX (T p (rm_res (kof h) n fc l1 l2)) /\ frame (elements s) h h' /\
  hget h' n = hclean /\ ok h' = ok h.
Proof.
  intros s HR Hnd Hb Hord h'. subst h'.
  assert (N1 : h_parent (hget h n) = Some p).
  { pose proof HR as HR'. apply R_unfold in HR'. destruct HR' as (_ & _ & _ & _ & HC).
    apply chain_app in HC. destruct HC as [_ HC]. cbn [chain] in HC. destruct HC as [Rn _].
    apply R_root in Rn. tauto. }
  rewrite (premove_inner_eq h n p N1).
  destruct (unlink_R h p n fc l1 l2 P PV NX HR Hnd Hb) as (Rp & Rn & F & O).
  set (hc := unlink h n p) in *. cbv zeta.
  assert (Hn : n < length (hcells h)) by (apply Hb; subst s; cnt_auto).
  pose proof (frame_len _ _ _ F) as Lc.
  pose proof Rn as Rn'. apply R_unfold in Rn'. destruct Rn' as (C1 & C2 & C3 & C4 & CC).
  rewrite C4. destruct fc as [|c0 l].
  - cbn [first_id]. unfold rm_res. change (Timer.merge_children (kof h) []) with (@None tree).
    cbn [olist app]. split; [exact Rp|]. split; [exact F|]. split; [|exact O].
    rewrite (hcell_eta (hget hc n)), C1, C2, C3, C4. reflexivity.
  - replace (first_id (c0 :: l)) with (Some (root_id c0)) by (destruct c0; reflexivity).
    set (hd := set_child hc n None).
    assert (Fd : frame [n] hc hd) by (apply frame_set_child; lia).
    assert (Gd : hget hd n = hclean).
    { unfold hd. hsimp. rewrite Nat.eqb_refl, C1, C2, C3. reflexivity. }
    assert (CCd : chain (hget hd) (Some n) None None (c0 :: l)).
    { eapply chain_ext; [|exact CC]. intros x Hx. eapply frame_get; [exact Fd|]. subst s. cnt_auto. }
    destruct (merge_children_R hd n c0 l CCd) as (he & mt & E & M & Rm & Fm & Om).
    { subst s. cnt_auto. }
    { intros x Hx. rewrite (frame_len _ _ _ Fd), Lc. apply Hb. subst s. cnt_auto. }
    rewrite E.
    rewrite (frame_keys _ _ _ Fd), (frame_keys _ _ _ F) in M.
    pose proof (merge_children_perm (kof h) (c0 :: l)) as Pm. rewrite M in Pm. cbn [helements] in Pm.
    unfold rm_res. rewrite M. cbn [olist app].
    destruct mt as [m mch]. cbn [root_id].
    assert (Rp' : R (hget he) P PV NX (T p (l1 ++ l2))).
    { eapply R_ext; [|exact Rp]. intros x Hx.
      rewrite (frame_get _ _ _ x Fm), (frame_get _ _ _ x Fd); auto; subst s; cnt_auto. }
    destruct (add_child_R he p m (l1 ++ l2) mch P PV NX Rp' Rm) as (Rf & Ff & Of).
    { subst s. cnt_auto. }
    { intros x Hx. rewrite (frame_len _ _ _ Fm), (frame_len _ _ _ Fd), Lc. apply Hb. subst s. cnt_auto. }
    split; [exact Rf|]. split; [|split].
    + eapply frame_trans; [eapply frame_trans; [eapply frame_trans; [exact F|exact Fd| |]|exact Fm| |]|exact Ff| |];
        try apply incl_refl; subst s; cnt_auto.
    + rewrite (frame_get _ _ _ n Ff), (frame_get _ _ _ n Fm); auto; subst s; cnt_auto.
    + rewrite Of, Om. change (ok hd) with (ok hc). rewrite O.
      rewrite (frame_keys _ _ _ Fm), (frame_keys _ _ _ Fd), (frame_keys _ _ _ F).
      replace (N.ltb (kof h m) (kof h p)) with false; [apply andb_true_r|].
      symmetry. apply N.ltb_ge.
      subst s. apply heap_ordered_unfold in Hord. apply Forall_app in Hord. destruct Hord as [_ Hord].
      inv Hord. destruct H1 as [A B]. cbn [root_id] in A. apply heap_ordered_unfold in B.
      apply (merge_children_ok (kof h) (kof h n)) in B. rewrite M in B. destruct B as [B _].
      cbn [root_id] in B. lia.
Qed.

(* ====================================================================== *)
(* part 7 *)
(* Part 7: the refinement theorems *)


Lemma heap_repr_R h t0 :
  heap_repr h (Some t0) <->
  root h = Some (root_id t0) /\ (forall x, In x (elements t0) -> x < length (hcells h)) /\
  R (hget h) None None None t0 /\ NoDup (elements t0) /\
  (forall n, ~ In n (elements t0) -> hget h n = hclean).
Proof.
  unfold heap_repr. rewrite tree_repr_R. cbn [helements].
  change (fun x => nth x (hcells h) hclean) with (hget h). unfold hget at 2. tauto.
Qed.

Lemma nth_repeat_hclean k n : nth n (repeat hclean k) hclean = hclean.
Proof. revert n; induction k; intros [|n]; simpl; auto. Qed.

Lemma heap_empty_repr : forall ks, heap_repr (pempty ks) None.
Proof.
  intros ks. unfold heap_repr, pempty. cbn [root hcells helements]. split; [reflexivity|].
  split; [constructor|]. intros n _. apply nth_repeat_hclean.
Qed.

(* ---------------------------------------------------------------------- *)
(* membership walk *)
Lemma reach_chain h : forall fuel l par pv,
  chain (hget h) par pv None l -> fsize l <= fuel ->
  reach_from fuel h (hd_id l None) = flat_map elements l.
Proof.
  induction fuel as [|k IH]; intros l par pv HC Hs.
  - destruct l as [|c rest]; [reflexivity|]. rewrite fsize_cons in Hs. pose proof (size_pos c). lia.
  - destruct l as [|[x ch] rest]; [reflexivity|].
    cbn [hd_id root_id reach_from flat_map elements]. cbn [chain] in HC. destruct HC as [HR HC].
    apply R_unfold in HR. destruct HR as (_ & _ & Hnx & Hch & HCc).
    rewrite fsize_cons, size_T in Hs.
    rewrite Hch, Hnx, first_id_hd.
    rewrite (IH ch (Some x) None HCc) by lia.
    rewrite (IH rest par (Some x) HC) by lia. reflexivity.
Qed.

Lemma pmembers_repr h t : heap_repr h t -> pmembers h = helements t.
Proof.
  destruct t as [t0|].
  - intros H. apply heap_repr_R in H. destruct H as (Hr & Hb & HR & Hnd & _).
    unfold pmembers. rewrite Hr. change (Some (root_id t0)) with (hd_id [t0] None).
    rewrite (reach_chain h _ [t0] None None).
    + cbn [flat_map helements]. apply app_nil_r.
    + cbn [chain hd_id]. auto.
    + rewrite fsize_cons. change (fsize []) with 0. rewrite Nat.add_0_r, <- length_elements.
      apply Nat.le_le_succ_r. apply nodup_bound_length; auto.
  - intros (Hr & _). unfold pmembers. rewrite Hr. reflexivity.
Qed.

Lemma heap_repr_clean h t n : heap_repr h t -> ~ In n (helements t) -> hget h n = hclean.
Proof. intros (_ & _ & H). apply H. Qed.

(* ---------------------------------------------------------------------- *)
Lemma pinsert_clean h n : hget h n = hclean ->
  pinsert h n = match root h with
                | Some rt => let '(h', m) := meld h rt n in set_root h' (Some m)
                | None => set_root h (Some n)
                end.
Proof.
  intros Hc. unfold pinsert. rewrite is_root_clean by (rewrite Hc; reflexivity).
  rewrite Hc. cbn [hclean h_child onone andb]. rewrite chk_true. reflexivity.
Qed.

Lemma insert_refines h t n :
  heap_repr h t -> n < length (hcells h) -> ~ In n (helements t) ->
  let h' := pinsert h n in
  heap_repr h' (Timer.insert (kof h) t n) /\ ok h' = ok h /\ keys h' = keys h.
Proof.
  intros Hrep Hn Hni h'. subst h'.
  pose proof (heap_repr_clean h t n Hrep Hni) as Hc.
  rewrite (pinsert_clean h n Hc).
  destruct t as [t0|].
  - apply heap_repr_R in Hrep. destruct Hrep as (Hr & Hb & HR & Hnd & Hout). cbn [helements] in Hni.
    rewrite Hr.
    assert (Rn : R (hget h) None None None (T n [])).
    { apply R_unfold. rewrite Hc. cbn. auto. }
    destruct (meld_R' h t0 (T n []) HR Rn) as (h1 & E & R1 & F1 & O1).
    { cnt_auto. }
    { intros x Hx. apply in_app_or in Hx. destruct Hx as [Hx|Hx]; auto. simpl in Hx. destruct Hx as [<-|[]]. auto. }
    cbn [root_id] in E. rewrite E. cbn [Timer.insert].
    pose proof (meld_perm (kof h) t0 (T n [])) as Pm.
    set (mt := Timer.meld (kof h) t0 (T n [])) in *.
    split; [|split].
    + apply heap_repr_R. split; [reflexivity|]. split; [|split; [exact R1|split]].
      * intros x Hx. rewrite len_set_root, (frame_len _ _ _ F1).
        assert (Hx' : In x (elements t0 ++ elements (T n []))) by cnt_auto.
        apply in_app_or in Hx'. destruct Hx' as [Hx'|Hx']; auto. simpl in Hx'. destruct Hx' as [<-|[]]. auto.
      * cnt_auto.
      * intros x Hx. rewrite hget_set_root. rewrite (frame_get _ _ _ x F1).
        -- apply Hout. cnt_auto.
        -- cnt_auto.
    + rewrite ok_set_root. exact O1.
    + destruct F1 as [(_ & K & _) _]. exact K.
  - destruct Hrep as (Hr & _ & Hout). rewrite Hr. cbn [Timer.insert].
    split; [|split]; try reflexivity.
    apply heap_repr_R. split; [reflexivity|]. split; [|split; [|split]].
    + intros x [<-|[]]. exact Hn.
    + apply R_unfold. rewrite hget_set_root, Hc. cbn. auto.
    + repeat constructor. simpl. tauto.
    + intros x Hx. rewrite hget_set_root. apply Hout. simpl. tauto.
Qed.

(* ---------------------------------------------------------------------- *)
Lemma premove_root_eq h n : h_parent (hget h n) = None ->
  premove h n =
  let h1 := set_parent h n None in
  let h2 := set_root (chk h1 (onone (h_next (hget h n)) && onone (h_prev (hget h n)) && oeqn (root h1) (Some n))) None in
  match h_child (hget h2 n) with
  | Some fc => let '(h3, m) := merge_children (set_child h2 n None) fc in set_root h3 (Some m)
  | None => h2
  end.
Proof. intros E. unfold premove. rewrite E. reflexivity. Qed.

Lemma remove_root_refines h n cs :
  heap_repr h (Some (T n cs)) ->
  let h' := premove h n in
  heap_repr h' (Timer.remove (kof h) (Some (T n cs)) n) /\ ok h' = ok h /\ keys h' = keys h.
Proof.
  intros Hrep h'. subst h'.
  apply heap_repr_R in Hrep. destruct Hrep as (Hr & Hb & HR & Hnd & Hout). cbn [root_id] in Hr.
  apply R_unfold in HR. destruct HR as (P1 & P2 & P3 & P4 & HC).
  assert (Hn : n < length (hcells h)) by (apply Hb; simpl; auto).
  rewrite (premove_root_eq h n P1). cbv zeta. rewrite P2, P3. change (root (set_parent h n None)) with (root h).
  rewrite Hr. cbn [onone andb oeqn]. rewrite Nat.eqb_refl, chk_true.
  set (h2 := set_root (set_parent h n None) None).
  assert (G2 : forall x, hget h2 x = if Nat.eqb x n then mkH None None None (first_id cs) else hget h x).
  { intros x. unfold h2. hsimp. rewrite P2, P3, P4. reflexivity. }
  unfold Timer.remove. rewrite Nat.eqb_refl.
  rewrite G2, Nat.eqb_refl. cbn [h_child].
  destruct cs as [|c0 l].
  - cbn [first_id]. change (Timer.merge_children (kof h) []) with (@None tree).
    split; [|split]; try reflexivity.
    split; [reflexivity|]. split; [constructor|]. intros x _. change (nth x (hcells h2) hclean) with (hget h2 x).
    rewrite G2. destruct (Nat.eqb_spec x n); [reflexivity|]. apply Hout. simpl. intros [?|[]]. congruence.
  - replace (first_id (c0 :: l)) with (Some (root_id c0)) by (destruct c0; reflexivity).
    set (hd := set_child h2 n None).
    assert (L2 : length (hcells h2) = length (hcells h)) by (unfold h2; autorewrite with plen; auto).
    assert (Gd : forall x, hget hd x = if Nat.eqb x n then hclean else hget h x).
    { intros x. unfold hd. hsimp. rewrite !G2, Nat.eqb_refl. destruct (Nat.eqb x n); reflexivity. }
    assert (Ld : length (hcells hd) = length (hcells h)) by (unfold hd; autorewrite with plen; auto).
    assert (HCd : chain (hget hd) (Some n) None None (c0 :: l)).
    { eapply chain_ext; [|exact HC]. intros x Hx. rewrite Gd. destruct (Nat.eqb_spec x n); [|reflexivity].
      exfalso. cnt_auto. }
    destruct (merge_children_R hd n c0 l HCd) as (he & mt & E & M & Rm & Fm & Om).
    { cnt_auto. }
    { intros x Hx. rewrite Ld. apply Hb. cnt_auto. }
    rewrite E. change (kof hd) with (kof h) in M. rewrite M.
    pose proof (merge_children_perm (kof h) (c0 :: l)) as Pm. rewrite M in Pm. cbn [helements] in Pm.
    split; [|split].
    + apply heap_repr_R. split; [reflexivity|]. split; [|split; [exact Rm|split]].
      * intros x Hx. rewrite len_set_root, (frame_len _ _ _ Fm), Ld. apply Hb. cnt_auto.
      * cnt_auto.
      * intros x Hx. rewrite hget_set_root, (frame_get _ _ _ x Fm) by cnt_auto.
        rewrite Gd. destruct (Nat.eqb_spec x n); [reflexivity|]. apply Hout. cnt_auto.
    + rewrite ok_set_root. exact Om.
    + destruct Fm as [(_ & K & _) _]. exact K.
Qed.

Lemma plug_nodup t s t' s' : plug t s t' s' -> NoDup (elements t) -> NoDup (elements s).
Proof. induction 1; auto. intros Hnd. apply IHplug. cnt_auto. Qed.

Lemma remove_inner_refines h r cs n :
  heap_repr h (Some (T r cs)) -> heap_ordered (kof h) (T r cs) ->
  In n (flat_map elements cs) ->
  let h' := premove h n in
  heap_repr h' (Timer.remove (kof h) (Some (T r cs)) n) /\ ok h' = ok h /\ keys h' = keys h.
Proof.
  intros Hrep Hord Hin h'. subst h'.
  apply heap_repr_R in Hrep. destruct Hrep as (Hr & Hb & HR & Hnd & Hout). cbn [root_id] in Hr.
  assert (Hrn : r <> n) by cnt_auto.
  destruct (remove_plug (kof h) r cs n Hin Hrn) as (p & l1 & fc & l2 & cs' & Erm & Hplug).
  pose proof (pheap_remove (kof h) (Some (T r cs)) n Hnd) as [Prm _]; [simpl; auto|].
  rewrite Erm in *. cbn [helements] in Prm.
  set (s := T p (l1 ++ T n fc :: l2)) in *.
  destruct (R_plug_sub _ _ _ _ _ Hplug _ _ _ HR) as (P' & PV' & NX' & Rs).
  pose proof (plug_incl _ _ _ _ Hplug) as Hinc.
  destruct (premove_inner h n p fc l1 l2 P' PV' NX' Rs) as (Rs' & F & Gn & O).
  { eapply plug_nodup; eauto. }
  { intros x Hx. apply Hb. apply Hinc. exact Hx. }
  { eapply plug_ordered; eauto. }
  fold s in F.
  assert (HR' : R (hget (premove h n)) None None None (T r cs')).
  { eapply (R_plug (hget h)); [exact Hplug|reflexivity|exact Hnd| | |exact HR].
    - intros x Hx Hnx. eapply frame_get; [exact F|exact Hnx].
    - intros P PV NX HRs. pose proof (R_root _ _ _ _ _ HRs) as (A1 & A2 & A3).
      pose proof (R_root _ _ _ _ _ Rs) as (B1 & B2 & B3). subst. exact Rs'. }
  split; [|split].
  - apply heap_repr_R. split; [|split; [|split; [exact HR'|split]]].
    + destruct F as [(_ & _ & Rt) _]. rewrite Rt. exact Hr.
    + intros x Hx. rewrite (frame_len _ _ _ F). apply Hb. cnt_auto.
    + cnt_auto.
    + intros x Hx. destruct (Nat.eq_dec x n) as [->|Hne]; [exact Gn|].
      rewrite (frame_get _ _ _ x F).
      * apply Hout. cnt_auto.
      * intro Hxs. apply Hinc in Hxs. cnt_auto.
  - exact O.
  - destruct F as [(_ & K & _) _]. exact K.
Qed.

(* ---------------------------------------------------------------------- *)
Lemma existsb_eqb_In n l : existsb (Nat.eqb n) l = true <-> In n l.
Proof. apply (memb_In n l). Qed.

Lemma legal_insert h t n : heap_repr h t -> PHeapPtr.legal h (Insert n) = true ->
  n < length (hcells h) /\ ~ In n (helements t).
Proof.
  intros Hrep Hl. cbn [PHeapPtr.legal] in Hl. apply andb_true_iff in Hl. destruct Hl as [A B].
  apply Nat.ltb_lt in A. split; auto. rewrite (pmembers_repr h t Hrep) in B.
  apply negb_true_iff in B. intro Hin. apply existsb_eqb_In in Hin. congruence.
Qed.

Lemma legal_remove h t n : heap_repr h t -> PHeapPtr.legal h (Remove n) = true -> In n (helements t).
Proof.
  intros Hrep Hl. cbn [PHeapPtr.legal] in Hl. rewrite (pmembers_repr h t Hrep) in Hl.
  apply existsb_eqb_In. exact Hl.
Qed.

Lemma remove_refines h t n :
  heap_repr h t -> hordered (kof h) t -> In n (helements t) ->
  let h' := premove h n in
  heap_repr h' (Timer.remove (kof h) t n) /\ ok h' = ok h /\ keys h' = keys h.
Proof.
  intros Hrep Hord Hin. destruct t as [[r cs]|]; [|destruct Hin].
  cbn [helements elements] in Hin. destruct (Nat.eq_dec r n) as [->|Hne].
  - apply remove_root_refines. exact Hrep.
  - destruct Hin as [Hin|Hin]; [congruence|]. apply remove_inner_refines; auto.
Qed.

Lemma heap_refines_tree : forall h t o,
  heap_repr h t -> ok h = true -> hordered (kof h) t -> PHeapPtr.legal h o = true ->
  let h' := fst (PHeapPtr.step h o) in
  heap_repr h' (fst (heap_spec (kof h) t o)) /\ ok h' = true /\ keys h' = keys h /\
  o_res (snd (PHeapPtr.step h o)) = snd (heap_spec (kof h) t o).
Proof.
  intros h t o Hrep Hok Hord Hl. destruct o as [n|n|]; cbn [PHeapPtr.step heap_spec fst snd].
  - destruct (legal_insert h t n Hrep Hl) as [Hn Hni].
    destruct (insert_refines h t n Hrep Hn Hni) as (A & B & C).
    split; [exact A|]. split; [congruence|]. split; [exact C|].
    unfold mk_obs. cbn [o_res]. rewrite B, Hok. reflexivity.
  - pose proof (legal_remove h t n Hrep Hl) as Hin.
    destruct (remove_refines h t n Hrep Hord Hin) as (A & B & C).
    split; [exact A|]. split; [congruence|]. split; [exact C|].
    unfold mk_obs. cbn [o_res]. rewrite B, Hok. reflexivity.
  - split; [exact Hrep|]. split; [exact Hok|]. split; [reflexivity|].
    unfold mk_obs. cbn [o_res]. rewrite Hok. unfold ppeek.
    destruct t as [t0|]; destruct Hrep as (Hr & _).
    + destruct Hr as [Hr _]. rewrite Hr. reflexivity.
    + rewrite Hr. reflexivity.
Qed.

Lemma heap_repr_nodup h t : heap_repr h t -> NoDup (helements t).
Proof. intros (_ & H & _). exact H. Qed.

Lemma heap_reachable : forall ks h,
  PHeapPtr.Reach ks h -> exists t, heap_repr h t /\ ok h = true /\ hordered (kof h) t.
Proof.
  intros ks h HR. induction HR as [|h o HR IH Hl].
  - exists None. split; [apply heap_empty_repr|]. split; [reflexivity|exact I].
  - destruct IH as (t & Hrep & Hok & Hord).
    destruct (heap_refines_tree h t o Hrep Hok Hord Hl) as (A & B & C & _).
    exists (fst (heap_spec (kof h) t o)). split; [exact A|]. split; [exact B|].
    rewrite (kof_pres _ _ C).
    destruct o as [n|n|]; cbn [heap_spec fst].
    + apply (pheap_insert (kof h) t n). exact Hord.
    + pose proof (legal_remove h t n Hrep Hl) as Hin.
      apply (pheap_remove (kof h) t n (heap_repr_nodup h t Hrep) Hin). exact Hord.
    + exact Hord.
Qed.
