(* diagnostics for the C16 check: printed, never used as a theorem *)
From Coq Require Import List String Bool.
From FI Require Import AutoTraits AutoTraitsSpec TypesGen.
Eval vm_compute in (unsound structs impls).
Eval vm_compute in (incomplete structs impls).
Eval vm_compute in (unpinned_futures structs impls).
