(* diagnostics for the C16 check: printed, never used as a theorem *)
From Coq Require Import List String Bool.
From FI Require Import AutoTraits AutoTraitsSpec TypesGen.
Eval vm_compute in ("UNSOUND"%string, unsound_summary structs impls).
Eval vm_compute in ("INCOMPLETE"%string, incomplete_summary structs impls).
Eval vm_compute in ("UNPINNED"%string, unpinned_futures structs impls).
Eval vm_compute in ("ERASED"%string, erased_summary structs impls).
