(* Common vocabulary of all models: ids, list-as-intrusive-deque operations,
   future tables, observations.  No proofs about primitives live here. *)
From Coq Require Export List Bool Arith NArith ZArith Lia.
Export ListNotations.

Arguments N.add : simpl never.
Arguments N.sub : simpl never.
Arguments N.mul : simpl never.
Arguments N.eqb : simpl never.
Arguments N.ltb : simpl never.
Arguments N.leb : simpl never.

Definition fid := nat.   (* future slot index *)
Definition wid := nat.   (* waker id *)
Definition tag := N.     (* payload identity *)

(* ---------------------------------------------------------------------- *)
(* Observation of one step, as compared with the implementation.
   Every field is a list of numbers; the harness prints the same encoding. *)
Record obs := mkObs {
  o_res   : list N;   (* result code and payload of the call *)
  o_wake  : list N;   (* waker ids woken by the call, in order *)
  o_val   : list N;   (* payload movements: delivered / handed back / dropped *)
  o_probe : list N;   (* read-only probes taken after the call *)
  o_term  : list N;   (* is_terminated() of every slot: 0 no, 1 yes, 2 absent *)
  o_queue : list N;   (* wait-queue snapshot (hook) *)
  o_alloc : N         (* heap allocations + frees inside the call *)
}.

(* result codes shared by all primitives *)
Definition R_UNIT    : N := 0.
Definition R_PENDING : N := 1.
Definition R_READY   : N := 2.
Definition R_PANIC   : N := 3.
Definition R_NONE    : N := 4.
Definition R_SOME    : N := 5.
Definition R_TRUE    : N := 6.
Definition R_FALSE   : N := 7.
Definition R_OK      : N := 8.
Definition R_ERR     : N := 9.
Definition R_BADOP   : N := 99.
Definition R_UB      : N := 98.

Definition bN (b : bool) : N := if b then 1%N else 0%N.
Definition nN (n : nat) : N := N.of_nat n.
Definition Rbool (b : bool) : N := if b then R_TRUE else R_FALSE.

(* A machine over numerically encoded operations: what the extracted driver
   and the in-kernel [cases.v] evaluation both run. *)
Record machine := mkMachine {
  m_state : Type;
  m_init : list N -> m_state;                      (* configuration -> initial state *)
  m_step : m_state -> list N -> m_state * obs;     (* encoded op *)
  m_enabled : m_state -> list (list N);            (* contract-respecting alphabet for exploration *)
  m_key : m_state -> m_state;                      (* erases ghost counters from the exploration key *)
  (* property monitors over an observed trace (encoded op, observation) *)
  m_monitor : N -> list N -> list (list N * obs) -> bool
}.

Fixpoint m_run (m : machine) (s : m_state m) (ops : list (list N)) : list obs :=
  match ops with
  | [] => []
  | o :: r => let '(s', ob) := m_step m s o in ob :: m_run m s' r
  end.

(* ---------------------------------------------------------------------- *)
(* Tables indexed by slot *)
Fixpoint upd {A} (n : nat) (x : A) (l : list A) : list A :=
  match l, n with
  | [], _ => []
  | _ :: t, O => x :: t
  | h :: t, S n' => h :: upd n' x t
  end.

Lemma upd_length {A} n (x : A) l : length (upd n x l) = length l.
Proof. revert n; induction l as [|h t IH]; intros [|n]; simpl; auto. Qed.

Lemma nth_upd_same {A} n (x d : A) l : n < length l -> nth n (upd n x l) d = x.
Proof. revert n; induction l as [|h t IH]; intros [|n] H; simpl in *; try lia; auto. apply IH; lia. Qed.

Lemma nth_upd_other {A} n m (x d : A) l : n <> m -> nth m (upd n x l) d = nth m l d.
Proof. revert n m; induction l as [|h t IH]; intros [|n] [|m] H; simpl; auto; try congruence. Qed.

Lemma nth_upd_oob {A} n (x : A) l : length l <= n -> upd n x l = l.
Proof. revert n; induction l as [|h t IH]; intros [|n] H; simpl in *; auto; try lia. f_equal; apply IH; lia. Qed.

Lemma nth_upd {A} n m (x d : A) l :
  nth m (upd n x l) d = if (Nat.eqb n m && Nat.ltb m (length l))%bool then x else nth m l d.
Proof.
  destruct (Nat.eqb_spec n m) as [->|Hne]; simpl.
  - destruct (Nat.ltb_spec m (length l)).
    + apply nth_upd_same; auto.
    + rewrite nth_upd_oob; auto.
  - apply nth_upd_other; auto.
Qed.

(* ---------------------------------------------------------------------- *)
(* The intrusive list as a deque of slot ids: head = newest (add_front),
   last = oldest.  [remove] is what LinkedList::remove does for a member of a
   duplicate-free list. *)
Definition remove (f : fid) (l : list fid) : list fid :=
  filter (fun x => negb (Nat.eqb x f)) l.

Definition memb (f : fid) (l : list fid) : bool := existsb (Nat.eqb f) l.

Fixpoint olast {A} (l : list A) : option A :=
  match l with
  | [] => None
  | [x] => Some x
  | _ :: t => olast t
  end.

Lemma memb_In f l : memb f l = true <-> In f l.
Proof.
  unfold memb; rewrite existsb_exists; split.
  - intros [x [Hin Heq]]; apply Nat.eqb_eq in Heq; subst; auto.
  - intros H; exists f; split; auto; apply Nat.eqb_refl.
Qed.

Lemma memb_false f l : memb f l = false <-> ~ In f l.
Proof. rewrite <- memb_In; destruct (memb f l); split; congruence. Qed.

Lemma In_remove x f l : In x (remove f l) <-> In x l /\ x <> f.
Proof.
  unfold remove; rewrite filter_In; split; intros [H1 H2]; split; auto.
  - intro; subst; rewrite Nat.eqb_refl in H2; discriminate.
  - apply Bool.negb_true_iff; apply Nat.eqb_neq; auto.
Qed.

Lemma NoDup_remove f l : NoDup l -> NoDup (remove f l).
Proof. apply NoDup_filter. Qed.

Lemma remove_notin f l : ~ In f l -> remove f l = l.
Proof.
  induction l as [|h t IH]; simpl; auto; intros H.
  destruct (Nat.eqb_spec h f) as [->|Hne]; simpl.
  - exfalso; apply H; auto.
  - f_equal; apply IH; intro; apply H; auto.
Qed.

Lemma olast_app {A} (l : list A) x : olast (l ++ [x]) = Some x.
Proof. induction l as [|h t IH]; simpl; auto. rewrite IH. destruct (t ++ [x]) eqn:E; auto. destruct t; discriminate. Qed.

Lemma olast_None {A} (l : list A) : olast l = None <-> l = [].
Proof. induction l as [|h t IH]; simpl; split; auto; try discriminate. destruct t; try discriminate. intros H; apply IH in H; discriminate. Qed.

Lemma olast_Some_split {A} (l : list A) x : olast l = Some x -> l = removelast l ++ [x].
Proof.
  induction l as [|h t IH]; simpl; try discriminate.
  destruct t as [|h' t']; intros H.
  - inversion H; auto.
  - simpl in *. f_equal. apply IH; auto.
Qed.

Lemma olast_In {A} (l : list A) x : olast l = Some x -> In x l.
Proof. intros H; apply olast_Some_split in H; rewrite H; apply in_or_app; right; simpl; auto. Qed.

Lemma removelast_In {A} (l : list A) x : In x (removelast l) -> In x l.
Proof.
  induction l as [|h t IH]; simpl; auto. destruct t as [|h' t']; [simpl; tauto|].
  intros [H|H]; [left; auto|right; apply IH; auto].
Qed.

Lemma NoDup_removelast {A} (l : list A) : NoDup l -> NoDup (removelast l).
Proof.
  induction l as [|h t IH]; simpl; auto. intros H; inversion H; subst.
  destruct t; auto. constructor; auto. intro Hin; apply H2; apply removelast_In; auto.
Qed.

Lemma NoDup_last_notin {A} (l : list A) x : NoDup l -> olast l = Some x -> ~ In x (removelast l).
Proof.
  intros Hnd Hl. apply olast_Some_split in Hl. rewrite Hl in Hnd.
  apply NoDup_remove_2 in Hnd. rewrite app_nil_r in Hnd. auto.
Qed.

Lemma remove_last_is_remove (l : list fid) x :
  NoDup l -> olast l = Some x -> removelast l = remove x l.
Proof.
  intros Hnd Hl. pose proof (NoDup_last_notin l x Hnd Hl) as Hni.
  apply olast_Some_split in Hl. rewrite Hl at 2.
  unfold remove. rewrite filter_app. simpl. rewrite Nat.eqb_refl. simpl.
  rewrite app_nil_r. symmetry. apply (remove_notin x _ Hni).
Qed.

(* encodings used by the observation functions *)
Definition optN (o : option nat) : N :=
  match o with None => 0%N | Some w => N.of_nat (S w) end.

Lemma flat_map_ext_in {A B} (f g : A -> list B) l :
  (forall a, In a l -> f a = g a) -> flat_map f l = flat_map g l.
Proof.
  induction l as [|h t IH]; simpl; auto. intros H. rewrite H by auto. f_equal. apply IH. auto.
Qed.

(* insertion sort on N, used to canonicalise unordered observations *)
Fixpoint insertN (x : N) (l : list N) : list N :=
  match l with
  | [] => [x]
  | h :: t => if N.leb x h then x :: l else h :: insertN x t
  end.
Definition sortN (l : list N) : list N := fold_right insertN [] l.
