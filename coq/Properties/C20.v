(* C20 -- the intrusive list behaves as a deque, the intrusive pairing heap as a min-priority
   queue; links stay mutually consistent and removed nodes carry no links. *)
From FI Require Import Base Timer TimerSpec DList PHeapPtr L0Spec L0ListProofs L0HeapProofs.

(* ---- list ---- *)
(* [DList.repr d l]: head/tail and every prev/next link describe exactly the list l (no
   duplicates), and every node outside l has both links cleared. *)
Theorem C20_list_empty : forall k, DList.repr (DList.empty k) [].
Proof. exact list_empty_repr. Qed.

(* every operation under its documented precondition refines the deque operation: same
   return value, consistent links afterwards, no failing debug assertion; in particular
   remove(member) unlinks exactly that node and clears its links, remove(non-member) reports
   false and changes nothing, drain / reverse_drain visit the nodes in order / reverse order *)
Theorem C20_list_refines_deque : forall d l o,
  DList.repr d l -> DList.legal d o = true ->
  DList.repr (fst (DList.step d o)) (fst (list_spec l o)) /\
  o_res (snd (DList.step d o)) = snd (list_spec l o).
Proof. exact list_refines_deque. Qed.

Theorem C20_list_reachable : forall k d, DList.Reach k d -> exists l, DList.repr d l.
Proof. exact list_reachable. Qed.

(* ---- pairing heap ---- *)
(* [heap_repr h t]: root and the parent / prev / next / first_child links of every node
   describe exactly the tree t (children in first_child/next order), no node occurs twice,
   and every node outside t has all four links cleared. *)
Theorem C20_heap_empty : forall ks, heap_repr (pempty ks) None.
Proof. exact heap_empty_repr. Qed.

(* insert of a node that is in no heap, remove of any member (duplicate keys and
   re-insertion allowed), peek_min: the pointer code computes exactly the tree-level
   operation, keeps the links consistent and trips no debug assertion *)
Theorem C20_heap_refines_tree : forall h t o,
  heap_repr h t -> ok h = true -> hordered (kof h) t -> PHeapPtr.legal h o = true ->
  let h' := fst (PHeapPtr.step h o) in
  heap_repr h' (fst (heap_spec (kof h) t o)) /\ ok h' = true /\ keys h' = keys h /\
  o_res (snd (PHeapPtr.step h o)) = snd (heap_spec (kof h) t o).
Proof. exact heap_refines_tree. Qed.

(* the tree-level heap is a min-priority queue (C15_pheap_* in Properties/C15.v): the root
   is a minimum, insert adds one element, remove deletes exactly the given one *)
Theorem C20_heap_reachable : forall ks h,
  PHeapPtr.Reach ks h -> exists t, heap_repr h t /\ ok h = true /\ hordered (kof h) t.
Proof. exact heap_reachable. Qed.

Print Assumptions C20_list_empty.
Print Assumptions C20_list_refines_deque.
Print Assumptions C20_list_reachable.
Print Assumptions C20_heap_empty.
Print Assumptions C20_heap_refines_tree.
Print Assumptions C20_heap_reachable.
