(* C09 -- MPMC channel is a bounded FIFO (order, capacity, rendezvous when unbuffered). *)
From FI Require Import Base Mpmc MpmcSpec MpmcProofs.

(* For every contract-respecting history with uniquely tagged values: values are received in
   the order in which their sends took effect (first poll of the send future, or the try_send
   call), whichever sender or receiver is polled first and with cancelled senders anywhere in
   the order; at most `capacity` accepted-but-unreceived values exist at any time; a send
   future completes successfully only once its value is stored or taken, and with capacity 0
   only after a receiver has taken it.  [fifo_ok] is the reference-FIFO monitor over the
   observable trace. *)
Theorem C09_fifo : forall kr ks c ops,
  legal_run (init kr ks c) ops -> unique_tags ops ->
  fifo_ok ks c (trace (init kr ks c) ops) = true.
Proof. exact fifo_holds. Qed.

(* Refinement: while the channel is open its contents -- the buffer followed by the values
   parked in waiting senders, oldest first -- are exactly the reference FIFO. *)
Theorem C09_refines_queue : forall kr ks c ops,
  legal_run (init kr ks c) ops -> unique_tags ops ->
  closed (run (init kr ks c) ops) = false ->
  fifo_of ks c (trace (init kr ks c) ops) = abs_queue (run (init kr ks c) ops).
Proof. exact refines_queue. Qed.

(* Capacity on the model state: the buffer never exceeds the capacity, a sender is parked
   only while the buffer is full, and an unbuffered channel buffers nothing. *)
Theorem C09_capacity : forall kr ks c s,
  Reach kr ks c s ->
  length (buf s) <= cap s /\ (sendq s <> [] -> length (buf s) = cap s) /\ cap s = c.
Proof. exact capacity_inv. Qed.

Example C09_witness :
  (* capacity 1: value 1 is buffered, 2 and 3 park; 2 is cancelled in the middle; the receiver
     gets 1 then 3 *)
  let ops := [TrySend 1%N; CreateSend 0 2%N; PollSend 0 64; CreateSend 1 3%N; PollSend 1 66; CancelSend 0;
              TryRecv; TryRecv; PollSend 1 66] in
  legal_run (init 1 2 1) ops /\ unique_tags ops /\
  map (fun e => o_res (snd e)) (trace (init 1 2 1) ops) =
    [[R_OK]; [R_UNIT]; [R_PENDING]; [R_UNIT]; [R_PENDING]; [R_SOME; 2]; [R_SOME; 1]; [R_SOME; 3]; [R_OK]]%N.
Proof. vm_compute. repeat split; try reflexivity. repeat constructor; simpl; intuition discriminate. Qed.

Print Assumptions C09_fifo.
Print Assumptions C09_refines_queue.
Print Assumptions C09_capacity.
