(* C11 -- close semantics and shared-handle lifecycle (mpmc part; the oneshot, broadcast
   and state-broadcast parts are in C11b.v). *)
From FI Require Import Base Mpmc MpmcSpec MpmcProofs MpmcCloseProofs MpmcHandleProofs.

(* close() is permanent and idempotent: NewlyClosed exactly once. *)
Theorem C11_close_status : forall s,
  o_res (snd (step s Close)) = [Rbool (negb (closed s))] /\ closed (fst (step s Close)) = true.
Proof. exact close_status. Qed.

Theorem C11_closed_monotone : forall s o,
  closed s = true -> closed (fst (step s o)) = true.
Proof. exact closed_monotone. Qed.

(* after close every send attempt fails and returns the caller's own value *)
Theorem C11_send_after_close : forall kr ks c s,
  Reach kr ks c s -> closed s = true ->
  (forall v, legal s (TrySend v) = true -> o_res (snd (step s (TrySend v))) = [R_ERR; 1%N; v]) /\
  (forall f w, legal s (PollSend f w) = true -> s_st (gets s f) <> SComplete ->
     exists v, s_val (gets s f) = Some v /\ o_res (snd (step s (PollSend f w))) = [R_ERR; v]).
Proof. exact send_after_close. Qed.

(* every future queued at the moment of the close is woken through its latest waker and
   unlinked; both queues are empty afterwards *)
Theorem C11_close_wakes_all : forall kr ks c s,
  Reach kr ks c s -> closed s = false ->
  let s' := fst (step s Close) in
  recvq s' = [] /\ sendq s' = [] /\
  (forall f, In f (recvq s) -> r_woken (getr s' f) = true /\ r_st (getr s' f) = RUnreg) /\
  (forall f, In f (sendq s) -> s_woken (gets s' f) = true /\ s_st (gets s' f) = SUnreg).
Proof. exact close_wakes_all. Qed.

(* receivers still get everything accepted before the close, in order, then None / Closed *)
Theorem C11_drain_then_none : forall kr ks c s,
  Reach kr ks c s -> closed s = true -> legal s TryRecv = true ->
  o_res (snd (step s TryRecv)) =
    match buf s with v :: _ => [R_SOME; v] | [] => [R_ERR; 1%N] end /\
  (forall f w, legal s (PollRecv f w) = true ->
     o_res (snd (step s (PollRecv f w))) = match buf s with v :: _ => [R_SOME; v] | [] => [R_NONE] end).
Proof. exact drain_then_none. Qed.

(* a shared channel closes implicitly exactly when the last sender or the last receiver handle
   has been dropped -- never while a handle of each side is alive -- for every interleaving
   of the atomic sections of clone / drop of any number of handles *)
Theorem C11_implicit_close : forall kr ks c s,
  Reach kr ks c s -> explicit s = false -> gone s = false ->
  (closed s = true -> senders s = 0 \/ receivers s = 0) /\
  (senders s = 0 -> pend_sclose s = 0 -> closed s = true) /\
  (receivers s = 0 -> pend_rclose s = 0 -> closed s = true).
Proof. exact implicit_close. Qed.

(* dropping the last receiver discards the buffered values immediately *)
Theorem C11_last_receiver_clears : forall kr ks c s,
  Reach kr ks c s ->
  (receivers s = 0 -> pend_rclose s = 0 -> pend_clear s = 0 -> buf s = []) /\
  (legal s DropReceiverClear = true ->
     buf (fst (step s DropReceiverClear)) = [] /\
     o_val (snd (step s DropReceiverClear)) = vals_of V_DROPPED (buf s)).
Proof. exact last_receiver_clears. Qed.

(* The same on the observable trace of encoded operations (whole-call handle drops): whenever
   a call closes the channel - close() reporting NewlyClosed, or the drop of the last sender /
   last receiver handle reporting that it closed the channel - no send or receive future is
   left pending without having been woken through the waker of its latest poll (trace monitor
   [close_wakes_ok] of Model/MpmcSpec.v, which the check also evaluates on the real crate). *)
Theorem C11_close_wakes_trace : forall kr ks c ls,
  mlegal_run (init kr ks c) ls = true ->
  close_wakes_ok kr ks (mtrace (init kr ks c) ls) = true.
Proof. exact close_wakes_trace_holds. Qed.

(* The handle-lifecycle monitor [handles_ok] (the one the check evaluates on the real crate's
   traces) holds on every contract-respecting encoded history with whole-call handle drops:
   without an explicit close() the channel is closed exactly when one side has no handle left
   (handles counted from the clone / drop operations of the trace), and once the last receiver
   handle is gone nothing stays buffered. *)
Theorem C11_handles_trace : forall kr ks c ls,
  mlegal_run (init kr ks c) ls = true ->
  handles_ok true (mtrace (init kr ks c) ls) = true.
Proof. exact handles_trace_holds. Qed.

Example C11_witness :
  (* two sender handles: dropping one does not close, dropping the second does; a pending
     receive future outlives its handle and is woken by the implicit close *)
  let ops := [CloneSender; CreateRecv 0; PollRecv 0 0; DropSenderDec; DropSenderDec; DropSenderClose] in
  legal_run (init 1 1 1) ops /\
  map (fun e => (o_res (snd e), o_wake (snd e))) (trace (init 1 1 1) ops) =
    [([R_UNIT], []); ([R_UNIT], []); ([R_PENDING], []); ([R_FALSE], []); ([R_TRUE], []); ([R_TRUE], [0])]%N.
Proof. vm_compute. repeat split; reflexivity. Qed.

Print Assumptions C11_close_status.
Print Assumptions C11_closed_monotone.
Print Assumptions C11_send_after_close.
Print Assumptions C11_close_wakes_all.
Print Assumptions C11_close_wakes_trace.
Print Assumptions C11_handles_trace.
Print Assumptions C11_drain_then_none.
Print Assumptions C11_implicit_close.
Print Assumptions C11_last_receiver_clears.
