(* C13 -- state broadcast: ids strictly increase, receivers converge on the latest state. *)
From FI Require Import Base StateBcast StateBcastSpec StateBcastProofs StateIdProofs StateHandleProofs.

(* For every contract-respecting history (any number of receive futures with any requested
   ids, wakers private to each future, borrowed or shared handles) the monitor [state_ok] of
   Model/StateBcastSpec.v holds on the observable trace: every successful send publishes
   under an id strictly larger than all earlier ones (and only while open and below u64::MAX;
   a rejected send returns its own value); receive(id) / try_receive(id) complete only with
   the most recently published state and its id, and only if that id is larger than the one
   passed in (so a receiver feeding back the id it got sees a strictly increasing
   subsequence); None only after close and only if the receiver has seen the latest state;
   a receiver waiting for something newer has been woken, through its latest waker, by the
   next send or by close. *)
Theorem C13_protocol : forall k ops,
  legal_run (init k) ops -> private_wakers ops ->
  state_ok k (trace (init k) ops) = true.
Proof. exact protocol_holds. Qed.

(* The published id (the probe after every call of the trace) moves only with a successful
   send - strictly upwards - or with the id test hook: no other call, in particular no REJECTED
   send, re-labels the stored state. *)
Theorem C13_ids_move_only_with_send : forall k ops,
  legal_run (init k) ops -> ids_stable (trace (init k) ops) = true.
Proof. exact ids_stable_holds. Qed.

(* a successful send increments the id by exactly one and replaces the state; a send is
   rejected iff the channel is closed or the ids are exhausted, and then changes nothing *)
Theorem C13_send : forall s v,
  let s' := fst (step s (Send v)) in
  if (closed s || N.eqb (state_id s) MAXID)%bool
  then s' = s /\ o_res (snd (step s (Send v))) = [R_ERR; v]
  else state_id s' = (state_id s + 1)%N /\ value s' = Some v /\ waiters s' = [] /\
       o_res (snd (step s (Send v))) = [R_OK].
Proof. exact send_spec. Qed.

Theorem C13_ids_bounded : forall k s, Reach k s -> (state_id s <= MAXID)%N.
Proof. exact ids_bounded. Qed.

(* send / close on an open channel wake every queued receiver through its latest waker *)
Theorem C13_wakes_all : forall k s o,
  Reach k s -> legal s o = true ->
  (o = Close /\ closed s = false \/ exists v, o = Send v /\ closed s = false /\ state_id s <> MAXID) ->
  let s' := fst (step s o) in
  waiters s' = [] /\
  o_wake (snd (step s o)) =
    map (fun f => match r_lastw (getr s f) with Some w => nN w | None => 0%N end) (rev (waiters s)) /\
  (forall f, In f (waiters s) -> r_woken (getr s' f) = true /\ r_st (getr s' f) = RUnreg).
Proof. exact wakes_all. Qed.

Theorem C13_queue_exact : forall k s,
  Reach k s ->
  NoDup (waiters s) /\
  (forall f, In f (waiters s) <-> (r_alive (getr s f) = true /\ r_hp (getr s f) = true /\ r_st (getr s f) = RReg)) /\
  (closed s = true -> waiters s = []) /\
  (forall f, In f (waiters s) -> deliverable s (r_id (getr s f)) = None).
Proof. exact queue_exact. Qed.

(* C11 for the state broadcast channel *)
Theorem C11c_close_status : forall s,
  o_res (snd (step s Close)) = [Rbool (negb (closed s))] /\ closed (fst (step s Close)) = true.
Proof. exact close_status. Qed.

Theorem C11c_closed_monotone : forall s o, closed s = true -> closed (fst (step s o)) = true.
Proof. exact closed_monotone. Qed.

Theorem C11c_implicit_close : forall k s,
  Reach k s -> explicit s = false -> gone s = false ->
  (closed s = true -> senders s = 0 \/ receivers s = 0) /\
  (senders s = 0 -> pend_sclose s = 0 -> closed s = true) /\
  (receivers s = 0 -> pend_rclose s = 0 -> closed s = true).
Proof. exact implicit_close. Qed.

(* after close a receiver that has not yet seen the latest state still gets it, one that has
   gets None *)
Theorem C13_after_close : forall k s i,
  Reach k s -> closed s = true -> legal s (TryReceive i) = true ->
  o_res (snd (step s (TryReceive i))) =
    match value s with
    | Some v => if N.ltb i (state_id s) then [R_SOME; state_id s; v] else [R_NONE]
    | None => [R_NONE]
    end.
Proof. exact after_close. Qed.

Example C13_witness :
  let ops := [CreateRecv 0 0%N; PollRecv 0 0; Send 5%N; PollRecv 0 0; CreateRecv 1 1%N; PollRecv 1 2;
              Send 6%N; PollRecv 1 2; TryReceive 2%N; Close; TryReceive 1%N] in
  legal_run (init 2) ops /\
  map (fun e => (o_res (snd e), o_wake (snd e))) (trace (init 2) ops) =
    [([R_UNIT], []); ([R_PENDING], []); ([R_OK], [0]); ([R_SOME; 1; 5], []); ([R_UNIT], []);
     ([R_PENDING], []); ([R_OK], [2]); ([R_SOME; 2; 6], []); ([R_NONE], []); ([R_TRUE], []);
     ([R_SOME; 2; 6], [])]%N.
Proof. vm_compute. repeat split; reflexivity. Qed.

(* The handle-lifecycle monitor [handles_ok] of Model/StateBcastSpec.v (the one the check
   evaluates on the real crate's traces of the shared state-broadcast flavour) holds on every
   contract-respecting encoded history with whole-call handle drops: without an explicit
   close() the channel is closed exactly when one side has no handle left. *)
Theorem C11c_handles_trace : forall k ls,
  mlegal_run (init k) ls = true ->
  handles_ok (mtrace (init k) ls) = true.
Proof. exact handles_trace_holds. Qed.

Print Assumptions C13_protocol.
Print Assumptions C13_ids_move_only_with_send.
Print Assumptions C13_send.
Print Assumptions C13_ids_bounded.
Print Assumptions C13_wakes_all.
Print Assumptions C13_queue_exact.
Print Assumptions C11c_close_status.
Print Assumptions C11c_closed_monotone.
Print Assumptions C11c_implicit_close.
Print Assumptions C13_after_close.
Print Assumptions C11c_handles_trace.
