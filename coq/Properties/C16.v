(* C16 -- type-level safety contract: futures are !Unpin; Send / Sync only when sound.
   The type facts (Gen/TypesGen.v) are regenerated from /repo/src on every run; the
   assignment space (Send, Sync, Unpin bits per type parameter) is finite, so the theorems
   are complete case analyses closed by vm_compute. *)
From Coq Require Import List String Bool.
From FI Require Import AutoTraits AutoTraitsSpec TypesGen.
Import ListNotations.

(* every future and stream of the crate is !Unpin, for every instantiation of its parameters *)
Theorem C16_futures_not_unpin :
  forall sd, In sd structs -> s_future sd = true ->
  forall a, In a (assignments (s_nparams sd)) -> holds structs impls Unpin (s_name sd) a = false.
Proof. apply futures_lift. vm_compute. reflexivity. Qed.

(* at least 12 futures / streams are covered (non-vacuity) *)
Example C16_future_count : 12 <= List.length (filter s_future structs).
Proof. vm_compute. repeat constructor. Qed.

(* soundness: whenever a public type is Send / Sync for some instantiation of its
   parameters, the bounds that soundness requires hold for that instantiation *)
Theorem C16_sound :
  forall r, In r required ->
  forall n, nparams structs (r_name r) = Some n ->
  forall a, In a (assignments n) ->
  holds structs impls (r_trait r) (r_name r) a = true ->
  r_never r = false /\ bounds_hold (r_bounds r) a = true.
Proof. apply sound_lift. vm_compute. reflexivity. Qed.

(* every type named in the requirement table exists, and every explicit Send / Sync impl of
   the crate is covered by the table *)
Theorem C16_table_covers_impls :
  forallb (fun r => match nparams structs (r_name r) with Some _ => true | None => false end) required = true /\
  forallb covered impls = true.
Proof. split; vm_compute; reflexivity. Qed.

(* types with an unconditional unsafe Send impl are only handed out by trait impls that demand
   a thread-safe lock type: every `impl Timer for ...` requires `MutexType: Sync` *)
Theorem C16_producers_guarded : producers_guarded trait_impls = true.
Proof. vm_compute. reflexivity. Qed.

(* a type-erased component shared between threads on the strength of an unsafe impl that cannot
   name it is thread-safe by its trait: `trait Clock: Sync` *)
Theorem C16_erased_guarded : erased_guarded dyn_traits = true.
Proof. vm_compute. reflexivity. Qed.

(* a future that erases the type of its channel behind `dyn ...Access<T>` is Send only if the
   channel behind the reference may be reached from the other thread - for every link outside
   the recorded finding D5 (the mpmc futures cannot name the buffer type A; see
   known_findings.json and DESIGN 4).  The links of the class D5 are evaluated by the check
   (Gen/C16Diag.v) and reported as KNOWN-FINDING while they fail. *)
Theorem C16_erased_links_sound :
  forall l, In l erased_links -> known_gap l = false -> link_ok structs impls l = true.
Proof.
  assert (H : forallb (fun l => known_gap l || link_ok structs impls l) erased_links = true)
    by (vm_compute; reflexivity).
  intros l Hin Hk. rewrite forallb_forall in H. specialize (H l Hin). rewrite Hk in H. exact H.
Qed.

(* completeness: what the crate promises for thread-safe locks and Send payloads holds *)
Theorem C16_complete :
  forall r, In r promised ->
  forall n, nparams structs (r_name r) = Some n ->
  forall a, In a (assignments n) ->
  bounds_hold (r_bounds r) a = true ->
  holds structs impls (r_trait r) (r_name r) a = true.
Proof. apply complete_lift. vm_compute. reflexivity. Qed.

Print Assumptions C16_futures_not_unpin.
Print Assumptions C16_sound.
Print Assumptions C16_table_covers_impls.
Print Assumptions C16_complete.
Print Assumptions C16_producers_guarded.
Print Assumptions C16_erased_guarded.
Print Assumptions C16_erased_links_sound.
