(* C11 (oneshot and oneshot-broadcast part): close semantics and shared-handle lifecycle. *)
From FI Require Import Base Oneshot OneshotSpec OneshotProofs OneshotHandleProofs.

Theorem C11b_close_status : forall s,
  o_res (snd (step s Close)) = [Rbool (negb (fulfilled s))] /\ fulfilled (fst (step s Close)) = true.
Proof. exact close_status. Qed.

Theorem C11b_closed_monotone : forall s o,
  fulfilled s = true -> fulfilled (fst (step s o)) = true.
Proof. exact closed_monotone. Qed.

(* With counted receiver handles (the repaired broadcast channel; the single-consumer
   receiver cannot be cloned): in histories without an explicit close and without a send,
   the channel is closed exactly when the sender handle or the last receiver handle has been
   dropped -- never while a handle of each side is alive -- for every interleaving of the
   atomic sections of clone / drop. *)
Theorem C11b_implicit_close : forall k b s,
  Reach k b true s -> explicit s = false -> sent s = false -> gone s = false ->
  (fulfilled s = true -> has_sender s = false \/ receivers s = 0) /\
  (has_sender s = false -> fulfilled s = true) /\
  (receivers s = 0 -> pend_rclose s = 0 -> fulfilled s = true).
Proof. exact implicit_close. Qed.

(* The pinned broadcast code (every receiver drop closes) violates it: finding D3. *)
Theorem C11b_refuted_pinned :
  exists s, Reach 1 true false s /\ explicit s = false /\ sent s = false /\ gone s = false /\
            fulfilled s = true /\ has_sender s = true /\ receivers s = 1.
Proof. exact refuted_pinned. Qed.

(* The handle-lifecycle monitor [handles_ok] of Model/OneshotSpec.v (the one the check evaluates
   on the real crate's traces of the shared oneshot / oneshot-broadcast flavours) holds on every
   contract-respecting encoded history with whole-call receiver drops of the repaired model
   (receiver handles counted): unless close() was called or a value was sent, the channel is
   fulfilled / closed exactly when the sender is gone or no receiver handle is left. *)
Theorem C11b_handles_trace : forall k b ls,
  mlegal_run (init k b true) ls = true ->
  handles_ok (mtrace (init k b true) ls) = true.
Proof. exact handles_trace_holds. Qed.

Print Assumptions C11b_close_status.
Print Assumptions C11b_closed_monotone.
Print Assumptions C11b_implicit_close.
Print Assumptions C11b_refuted_pinned.
Print Assumptions C11b_handles_trace.
