(* C11 (oneshot and oneshot-broadcast part): close semantics and shared-handle lifecycle. *)
From FI Require Import Base Oneshot OneshotSpec OneshotProofs.

Theorem C11b_close_status : forall s,
  o_res (snd (step s Close)) = [Rbool (negb (fulfilled s))] /\ fulfilled (fst (step s Close)) = true.
Proof. exact close_status. Qed.

Theorem C11b_closed_monotone : forall s o,
  fulfilled s = true -> fulfilled (fst (step s o)) = true.
Proof. exact closed_monotone. Qed.

(* With counted receiver handles (the repaired broadcast channel; the single-consumer
   receiver cannot be cloned): in histories without an explicit close and without a send,
   the channel is closed exactly when the sender handle or the last receiver handle has been
   dropped -- never while a handle of each side is alive -- for every interleaving of the
   atomic sections of clone / drop. *)
Theorem C11b_implicit_close : forall k b s,
  Reach k b true s -> explicit s = false -> sent s = false -> gone s = false ->
  (fulfilled s = true -> has_sender s = false \/ receivers s = 0) /\
  (has_sender s = false -> fulfilled s = true) /\
  (receivers s = 0 -> pend_rclose s = 0 -> fulfilled s = true).
Proof. exact implicit_close. Qed.

(* The pinned broadcast code (every receiver drop closes) violates it: finding D3. *)
Theorem C11b_refuted_pinned :
  exists s, Reach 1 true false s /\ explicit s = false /\ sent s = false /\ gone s = false /\
            fulfilled s = true /\ has_sender s = true /\ receivers s = 1.
Proof. exact refuted_pinned. Qed.

Print Assumptions C11b_close_status.
Print Assumptions C11b_closed_monotone.
Print Assumptions C11b_implicit_close.
Print Assumptions C11b_refuted_pinned.
