(* C06 -- semaphore: the longest-waiting acquirer is never stranded (no lost wake-up). *)
From FI Require Import Base Semaphore SemaphoreSpec SemaphoreProofs.

(* For every contract-respecting history of the repaired code ([fixed = true]), with wakers
   private to each future so that wake events are attributable from the trace: at every
   quiescent point, if acquire futures are pending and none of them holds an unconsumed
   wake-up (woken through the waker of its latest poll since that poll), then the
   longest-waiting pending request does not fit into permits().  "Longest-waiting" orders
   pending futures by the start of their current wait: the first Pending poll and -- unfair
   mode only -- again the poll at which a woken future found too few permits
   ([mon_track] in Model/SemaphoreSpec.v).  Both fairness modes, any number of futures. *)
Theorem C06_head_not_stranded : forall k b p0 ops,
  legal_run (init k b p0 true) ops ->
  private_wakers ops ->
  no_stranded_waiter k b (trace (init k b p0 true) ops) = true.
Proof. exact head_not_stranded. Qed.

(* Progress: a notified request polled while it fits completes. *)
Theorem C06_progress : forall k b p0 s f w,
  Reach k b p0 true s ->
  f_alive (get s f) = true -> f_hp (get s f) = true -> f_st (get s f) = Notified ->
  (f_req (get s f) <= permits s)%N ->
  res_is R_READY (snd (step s (Poll f w))) = true.
Proof. exact notified_poll_succeeds. Qed.

(* The pinned code (before the two repairs) violates the property: D1a. *)
Theorem C06_refuted_pinned :
  exists ops, legal_run (init 2 false 0 false) ops /\ private_wakers ops /\
              no_stranded_waiter 2 false (trace (init 2 false 0 false) ops) = false.
Proof. exact refuted_pinned. Qed.

Example C06_witness :
  (* the D1a history on the repaired model: A(2) and B(1) wait, release(1), A is dropped:
     B is woken *)
  let ops := [Create 0 1; Create 1 2; Poll 1 2; Poll 0 0; Release 1; DropFut 1] in
  legal_run (init 2 false 0 true) ops /\
  o_wake (snd (last (trace (init 2 false 0 true) ops) (DropFut 0, bad_obs))) = [0%N].
Proof. vm_compute. repeat split; reflexivity. Qed.

Print Assumptions C06_head_not_stranded.
Print Assumptions C06_progress.
Print Assumptions C06_refuted_pinned.
