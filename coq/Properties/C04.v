(* C04 -- fair mutex grants the lock strictly in arrival order (no barging). *)
From FI Require Import Base Mutex MutexSpec MutexProofs MutexMonProofs.

(* Fair mode, any history, any number of futures.  [arrivals] is the list of pending
   futures in the order of the poll that first returned Pending, recomputed from the
   observable trace.  A lock future completes only if it is the oldest pending one (or
   nobody is pending); try_lock succeeds only if nobody is pending -- whoever is polled
   first and even if the mutex is momentarily free. *)
Theorem C04_fifo : forall k ops o,
  legal_run (init k true) (ops ++ [o]) ->
  let s := run (init k true) ops in
  let arr := arrivals (trace (init k true) ops) in
  (forall f w, o = Poll f w -> o_res (snd (step s o)) = [R_READY] -> arr = [] \/ olast arr = Some f) /\
  (o = TryLock -> o_res (snd (step s o)) = [R_SOME] -> arr = []).
Proof. exact fair_fifo. Qed.

(* The wait queue of the implementation model is that arrival order, duplicate free. *)
Theorem C04_queue_is_arrivals : forall k ops,
  legal_run (init k true) ops ->
  waiters (run (init k true) ops) = arrivals (trace (init k true) ops) /\
  NoDup (arrivals (trace (init k true) ops)).
Proof. exact queue_is_arrivals. Qed.

(* Dropping a pending future removes it from the order without disturbing the others. *)
Theorem C04_drop_is_filter : forall k ops f,
  legal_run (init k true) (ops ++ [DropFut f]) ->
  arrivals (trace (init k true) (ops ++ [DropFut f])) =
  filter (fun x => negb (Nat.eqb x f)) (arrivals (trace (init k true) ops)).
Proof. exact drop_is_filter. Qed.

Example C04_witness :
  (* 0 holds the lock; 1 then 2 start waiting; after unlock, 2 is polled first and must
     keep waiting, 1 gets the lock *)
  let ops := [Create 0; Create 1; Create 2; Poll 0 0; Poll 1 2; Poll 2 4; DropGuard; Poll 2 4; Poll 1 2] in
  legal_run (init 3 true) ops /\
  map (fun e => o_res (snd e)) (trace (init 3 true) ops) =
    [[R_UNIT]; [R_UNIT]; [R_UNIT]; [R_READY]; [R_PENDING]; [R_PENDING]; [R_UNIT]; [R_PENDING]; [R_READY]].
Proof. vm_compute. repeat split; reflexivity. Qed.

(* The boolean monitor the check evaluates on the real crate's traces (fair mode: a lock future
   completes only as the oldest pending one, try_lock only if nobody is pending) holds on every
   contract-respecting history of the model. *)
Theorem C04_monitor : forall k ops,
  legal_run (init k true) ops ->
  mm_good (fold_left mon04_step (trace (init k true) ops) mmon0) = true.
Proof. exact mon04_holds. Qed.

Print Assumptions C04_fifo.
Print Assumptions C04_queue_is_arrivals.
Print Assumptions C04_drop_is_filter.
Print Assumptions C04_monitor.
