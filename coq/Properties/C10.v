(* C10 -- MPMC channel: no lost wake-up for receivers or senders. *)
From FI Require Import Base Mpmc MpmcSpec MpmcProofs MpmcWakeProofs.

(* For every contract-respecting history with wakers private to each future (any number of
   send / receive futures, every capacity including 0, with try-operations, cancel, close and
   handle drops): after every call, if a value is available -- buffered, or parked in a waiting
   sender of an open unbuffered channel -- while receive futures are pending, at least one
   pending receiver has been woken since its last poll through the waker of that poll.
   [recv_wakeup_ok] is the monitor of Model/MpmcSpec.v over the observable trace. *)
Theorem C10_recv_woken_trace : forall kr ks c ops,
  legal_run (init kr ks c) ops -> private_wakers ops ->
  recv_wakeup_ok kr ks c (trace (init kr ks c) ops) = true.
Proof. exact recv_woken_trace. Qed.

(* the same on the model state ([r_woken]: woken through the latest waker since the latest poll) *)
Theorem C10_recv_woken : forall kr ks c s,
  Reach kr ks c s -> 0 < available s ->
  (exists f, pendingR (getr s f) = true) ->
  exists g, pendingR (getr s g) = true /\ r_woken (getr s g) = true.
Proof. exact recv_woken. Qed.

(* a pending sender whose value has been accepted has been woken *)
Theorem C10_sender_woken : forall kr ks c s f,
  Reach kr ks c s -> pendingS (gets s f) = true -> s_st (gets s f) = SComplete ->
  s_woken (gets s f) = true.
Proof. exact sender_woken. Qed.

(* after close() every pending future has been woken *)
Theorem C10_after_close_all_woken : forall kr ks c s,
  Reach kr ks c s -> closed s = true ->
  (forall f, pendingR (getr s f) = true -> r_woken (getr s f) = true) /\
  (forall f, pendingS (gets s f) = true -> s_woken (gets s f) = true).
Proof. exact after_close_all_woken. Qed.

(* progress: a receiver that is not queued (in particular a woken one) polled while a value is
   available gets the oldest value; a sender whose value was accepted completes when polled *)
Theorem C10_progress : forall kr ks c s f w,
  Reach kr ks c s -> 0 < available s -> legal s (PollRecv f w) = true -> r_st (getr s f) <> RReg ->
  exists v, o_res (snd (step s (PollRecv f w))) = [R_SOME; v] /\ hd_error (abs_queue s) = Some v.
Proof. exact recv_progress. Qed.

Theorem C10_sender_progress : forall kr ks c s f w,
  Reach kr ks c s -> legal s (PollSend f w) = true -> s_st (gets s f) = SComplete ->
  o_res (snd (step s (PollSend f w))) = [R_OK].
Proof. exact sender_progress. Qed.

Example C10_witness :
  (* capacity 1, two receivers wait; a value is sent: the oldest is notified; it is dropped
     instead of polled: the notification is passed on to the other one *)
  let ops := [CreateRecv 0; CreateRecv 1; PollRecv 0 0; PollRecv 1 2; TrySend 1%N; DropRecv 0] in
  legal_run (init 2 1 1) ops /\
  map (fun e => o_wake (snd e)) (trace (init 2 1 1) ops) = [[]; []; []; []; [0]; [2]]%N.
Proof. vm_compute. repeat split; reflexivity. Qed.

Print Assumptions C10_recv_woken_trace.
Print Assumptions C10_recv_woken.
Print Assumptions C10_sender_woken.
Print Assumptions C10_after_close_all_woken.
Print Assumptions C10_progress.
Print Assumptions C10_sender_progress.
