(* C05 -- semaphore: permits are conserved and never over-granted.  Statements only. *)
From FI Require Import Base Semaphore SemaphoreSpec SemaphoreProofs.

(* For every contract-respecting history (any number of acquire futures, any request sizes
   and initial count, fair or unfair, with or without the wake-up repairs): after every
   call permits() equals initial + released - taken by completed acquisitions + returned by
   dropped releasers; an acquisition for n completes only when n are available and takes
   exactly n; a releaser returns exactly what its acquisition took, once, and nothing after
   disarm.  [ledger_ok] is the monitor of Model/SemaphoreSpec.v over the observable trace. *)
Theorem C05_ledger : forall k b p0 fixed ops,
  legal_run (init k b p0 fixed) ops ->
  ledger_ok k p0 (trace (init k b p0 fixed) ops) = true.
Proof. exact ledger_holds. Qed.

(* The same facts on the model state, one step at a time. *)
Theorem C05_grant_exact : forall k b p0 fixed s o,
  Reach k b p0 fixed s -> legal s o = true ->
  (res_is R_READY (snd (step s o)) = true \/ res_is R_SOME (snd (step s o)) = true) ->
  exists n, (match o with Poll f _ => n = f_req (get s f) | TryAcquire m => n = m | _ => False end) /\
            (n <= permits s)%N /\
            permits (fst (step s o)) = (permits s - n)%N /\
            rels (fst (step s o)) = rels s ++ [n].
Proof. exact grant_exact. Qed.

Theorem C05_releaser_once : forall s i,
  legal s (DropReleaser i) = true ->
  let s' := fst (step s (DropReleaser i)) in
  permits s' = (permits s + nth i (rels s) 0)%N /\ rels s' = remove_nth i (rels s).
Proof. exact releaser_once. Qed.

Theorem C05_disarm : forall s i,
  step s (Disarm i) =
  (mkState (fair s) (permits s) (waiters s) (futs s) (upd i 0%N (rels s)) (fx s) (clock s),
   mk_obs (mkState (fair s) (permits s) (waiters s) (futs s) (upd i 0%N (rels s)) (fx s) (clock s))
          [R_UNIT; nth i (rels s) 0%N] []).
Proof. exact disarm_spec. Qed.

Example C05_witness :
  let ops := [Create 0 2; Create 1 1; Poll 0 0; Poll 1 2; Release 1; Poll 1 2; Disarm 0; DropReleaser 0; DropReleaser 0] in
  legal_run (init 2 false 2 true) ops /\
  map (fun e => (o_res (snd e), o_probe (snd e))) (trace (init 2 false 2 true) ops) =
    [([R_UNIT], [2; 0]); ([R_UNIT], [2; 0]); ([R_READY; 2], [0; 1]); ([R_PENDING], [0; 1]);
     ([R_UNIT], [1; 1]); ([R_READY; 1], [0; 2]); ([R_UNIT; 2], [0; 2]); ([R_UNIT; 0], [0; 1]);
     ([R_UNIT; 1], [1; 0])]%N.
Proof. vm_compute. repeat split; reflexivity. Qed.

Print Assumptions C05_ledger.
Print Assumptions C05_grant_exact.
Print Assumptions C05_releaser_once.
Print Assumptions C05_disarm.
