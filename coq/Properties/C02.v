(* C02 -- async mutex: at most one guard exists at any time.  Statements only. *)
From FI Require Import Base Mutex MutexSpec MutexProofs MutexMonProofs.

(* In every reachable state (any number of lock futures, either fairness mode, any
   contract-respecting history) at most one guard is alive, and the mutex is marked
   locked exactly while one is. *)
Theorem C02_guards_le_1 : forall k b s,
  Reach k b s -> guards s <= 1 /\ (locked s = true <-> guards s = 1).
Proof. exact guards_le_1. Qed.

(* A lock attempt (future poll or try_lock) completes only while no guard is alive, and
   creates exactly one. *)
Theorem C02_grant_only_when_free : forall k b s o,
  Reach k b s -> legal s o = true ->
  (o_res (snd (step s o)) = [R_READY] \/ o_res (snd (step s o)) = [R_SOME]) ->
  guards s = 0 /\ locked s = false /\ guards (fst (step s o)) = 1.
Proof. exact grant_only_when_free. Qed.

(* The model's guard counter counts guard objects: it grows by one exactly on a grant,
   shrinks by one exactly on a guard drop and is otherwise unchanged (the harness
   reports the number of guard objects it holds after every step; compared as a probe). *)
Theorem C02_guard_count : forall k b s o,
  Reach k b s -> legal s o = true ->
  guards (fst (step s o)) =
    if (existsb (N.eqb R_READY) (o_res (snd (step s o))) || existsb (N.eqb R_SOME) (o_res (snd (step s o))))%bool
    then S (guards s)
    else match o with DropGuard => pred (guards s) | _ => guards s end.
Proof. exact guard_count. Qed.

(* is_locked() is true exactly while a guard is alive and does not change the state. *)
Theorem C02_is_locked_exact : forall k b s,
  Reach k b s ->
  o_res (snd (step s IsLocked)) = [Rbool (Nat.eqb (guards s) 1)] /\ fst (step s IsLocked) = s.
Proof. exact is_locked_exact. Qed.

(* non-vacuity: a contended history in which the second future has to wait *)
Example C02_witness :
  let ops := [Create 0; Create 1; Poll 0 0; Poll 1 2; DropGuard; Poll 1 2] in
  legal_run (init 2 true) ops /\ guards (run (init 2 true) ops) = 1 /\
  map (fun e => o_res (snd e)) (trace (init 2 true) ops) =
    [[R_UNIT]; [R_UNIT]; [R_READY]; [R_PENDING]; [R_UNIT]; [R_READY]].
Proof. vm_compute. repeat split; reflexivity. Qed.

(* The boolean monitor the check evaluates on the real crate's traces (at most one guard, a
   grant only while no guard is alive, is_locked() exact, the number of guard objects) holds on
   every contract-respecting history of the model. *)
Theorem C02_monitor : forall k b ops,
  legal_run (init k b) ops ->
  mm_good (fold_left mon02_step (trace (init k b) ops) mmon0) = true.
Proof. exact mon02_holds. Qed.

Print Assumptions C02_guards_le_1.
Print Assumptions C02_grant_only_when_free.
Print Assumptions C02_guard_count.
Print Assumptions C02_is_locked_exact.
Print Assumptions C02_monitor.
