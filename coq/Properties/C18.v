(* C18 -- no heap allocation at run time for non-growing flavours.
   The theorem side of C18 is deliberately thin: the algorithms of every primitive are
   modelled without any storage beyond the embedded nodes of live futures, and every step of
   every model reports an allocation count of zero.  It cannot see an allocation the model
   does not mention; detection rests on the allocation observable of the correspondence
   check (a counting global allocator armed only inside library calls, compared with this
   zero on every step of every explored history).  Level claimed: other. *)
From FI Require Import Base ProtocolProofs.
From FI Require Event Mutex Semaphore Mpmc Oneshot StateBcast Timer DList PHeapPtr.

Theorem C18_alloc_zero :
  (forall s o, o_alloc (snd (Event.step s o)) = 0%N) /\
  (forall s o, o_alloc (snd (Mutex.step s o)) = 0%N) /\
  (forall s o, o_alloc (snd (Semaphore.step s o)) = 0%N) /\
  (forall s o, o_alloc (snd (Mpmc.step s o)) = 0%N) /\
  (forall s o, o_alloc (snd (Oneshot.step s o)) = 0%N) /\
  (forall s o, o_alloc (snd (StateBcast.step s o)) = 0%N) /\
  (forall s o, o_alloc (snd (Timer.step s o)) = 0%N).
Proof. exact alloc_zero. Qed.

(* footprint: the wait queues only ever contain slots of live futures (C01), i.e. the
   containers need no cells beyond the nodes embedded in live futures; the pointer-level
   operations never change the domain of the cell store (length of the cell table) *)
Theorem C18_store_domain_preserved :
  (forall d o, length (DList.cells (fst (DList.step d o))) = length (DList.cells d)) /\
  (forall h o, length (PHeapPtr.hcells (fst (PHeapPtr.step h o))) = length (PHeapPtr.hcells h)).
Proof. exact store_domain_preserved. Qed.

Print Assumptions C18_alloc_zero.
Print Assumptions C18_store_domain_preserved.
