(* C01 -- cancelling or completing a future at any point never leaves a dangling waiter.
   For every primitive: in every reachable state (any history, any number of futures, every
   fairness / capacity / handle configuration) the wait queue holds exactly the futures that
   are alive and currently waiting, each once; and no contract-respecting call panics or
   leaves the intrusive-container protocol (R_UB = add of a linked node / removal of a
   non-member, which is what a dangling or foreign node would cause).  The pointer-level
   safety of the containers under exactly this protocol is C20. *)
From FI Require Import Base ProtocolProofs.
From FI Require Event EventProofs Mutex Semaphore Mpmc Oneshot StateBcast Timer.

Definition ok_res (r : list N) : Prop := hd 0%N r <> R_PANIC /\ hd 0%N r <> R_UB.

(* ---- manual reset event ---- *)
Theorem C01_event_queue : forall k b s, Event.Reach k b s ->
  NoDup (Event.waiters s) /\
  (forall f, In f (Event.waiters s) <->
     (Event.f_alive (Event.get s f) = true /\ Event.f_st (Event.get s f) = Event.Waiting)).
Proof. exact event_queue. Qed.
Theorem C01_event_no_panic : forall k b s o, Event.Reach k b s -> Event.legal s o = true ->
  ok_res (o_res (snd (Event.step s o))).
Proof. exact event_no_panic. Qed.

(* ---- mutex ---- *)
Theorem C01_mutex_queue : forall k b s, Mutex.Reach k b s ->
  NoDup (Mutex.waiters s) /\
  (forall f, In f (Mutex.waiters s) <->
     (Mutex.f_alive (Mutex.get s f) = true /\ Mutex.f_hp (Mutex.get s f) = true /\
      (Mutex.f_st (Mutex.get s f) = Mutex.Waiting \/
       (Mutex.fair s = true /\ Mutex.f_st (Mutex.get s f) = Mutex.Notified)))).
Proof. exact mutex_queue. Qed.
Theorem C01_mutex_no_panic : forall k b s o, Mutex.Reach k b s -> Mutex.legal s o = true ->
  ok_res (o_res (snd (Mutex.step s o))).
Proof. exact mutex_no_panic. Qed.

(* ---- semaphore (repaired code) ---- *)
Theorem C01_semaphore_queue : forall k b p s, Semaphore.Reach k b p true s ->
  NoDup (Semaphore.waiters s) /\
  (forall f, In f (Semaphore.waiters s) <->
     (Semaphore.f_alive (Semaphore.get s f) = true /\ Semaphore.f_hp (Semaphore.get s f) = true /\
      (Semaphore.f_st (Semaphore.get s f) = Semaphore.Waiting \/
       (Semaphore.fair s = true /\ Semaphore.f_st (Semaphore.get s f) = Semaphore.Notified)))).
Proof. exact semaphore_queue. Qed.
Theorem C01_semaphore_no_panic : forall k b p s o, Semaphore.Reach k b p true s -> Semaphore.legal s o = true ->
  ok_res (o_res (snd (Semaphore.step s o))).
Proof. exact semaphore_no_panic. Qed.

(* ---- mpmc channel: both queues ---- *)
Theorem C01_mpmc_queues : forall kr ks c s, Mpmc.Reach kr ks c s ->
  NoDup (Mpmc.recvq s) /\ NoDup (Mpmc.sendq s) /\
  (forall f, In f (Mpmc.recvq s) <->
     (Mpmc.r_alive (Mpmc.getr s f) = true /\ Mpmc.r_hp (Mpmc.getr s f) = true /\ Mpmc.r_st (Mpmc.getr s f) = Mpmc.RReg)) /\
  (forall f, In f (Mpmc.sendq s) <->
     (Mpmc.s_alive (Mpmc.gets s f) = true /\ Mpmc.s_hp (Mpmc.gets s f) = true /\ Mpmc.s_st (Mpmc.gets s f) = Mpmc.SReg)).
Proof. exact mpmc_queues. Qed.
Theorem C01_mpmc_no_panic : forall kr ks c s o, Mpmc.Reach kr ks c s -> Mpmc.legal s o = true ->
  ok_res (o_res (snd (Mpmc.step s o))).
Proof. exact mpmc_no_panic. Qed.

(* ---- oneshot / oneshot broadcast ---- *)
Theorem C01_oneshot_queue : forall k b cnt s, Oneshot.Reach k b cnt s ->
  NoDup (Oneshot.waiters s) /\
  (forall f, In f (Oneshot.waiters s) <->
     (Oneshot.r_alive (Oneshot.getr s f) = true /\ Oneshot.r_hp (Oneshot.getr s f) = true /\
      Oneshot.r_st (Oneshot.getr s f) = Oneshot.RReg)).
Proof. exact oneshot_queue. Qed.
Theorem C01_oneshot_no_panic : forall k b cnt s o, Oneshot.Reach k b cnt s -> Oneshot.legal s o = true ->
  ok_res (o_res (snd (Oneshot.step s o))).
Proof. exact oneshot_no_panic. Qed.

(* ---- state broadcast ---- *)
Theorem C01_state_queue : forall k s, StateBcast.Reach k s ->
  NoDup (StateBcast.waiters s) /\
  (forall f, In f (StateBcast.waiters s) <->
     (StateBcast.r_alive (StateBcast.getr s f) = true /\ StateBcast.r_hp (StateBcast.getr s f) = true /\
      StateBcast.r_st (StateBcast.getr s f) = StateBcast.RReg)).
Proof. exact state_queue. Qed.
Theorem C01_state_no_panic : forall k s o, StateBcast.Reach k s -> StateBcast.legal s o = true ->
  ok_res (o_res (snd (StateBcast.step s o))).
Proof. exact state_no_panic. Qed.

(* ---- timer: the heap ---- *)
Theorem C01_timer_heap : forall k s, Timer.Reach k s ->
  NoDup (Timer.helements (Timer.heap s)) /\
  (forall f, In f (Timer.helements (Timer.heap s)) <->
     (Timer.f_alive (Timer.get s f) = true /\ Timer.f_hp (Timer.get s f) = true /\ Timer.f_st (Timer.get s f) = Timer.Reg)).
Proof. exact timer_heap. Qed.
Theorem C01_timer_no_panic : forall k s o, Timer.Reach k s -> Timer.legal s o = true ->
  ok_res (o_res (snd (Timer.step s o))).
Proof. exact timer_no_panic. Qed.

Print Assumptions C01_event_queue. Print Assumptions C01_event_no_panic.
Print Assumptions C01_mutex_queue. Print Assumptions C01_mutex_no_panic.
Print Assumptions C01_semaphore_queue. Print Assumptions C01_semaphore_no_panic.
Print Assumptions C01_mpmc_queues. Print Assumptions C01_mpmc_no_panic.
Print Assumptions C01_oneshot_queue. Print Assumptions C01_oneshot_no_panic.
Print Assumptions C01_state_queue. Print Assumptions C01_state_no_panic.
Print Assumptions C01_timer_heap. Print Assumptions C01_timer_no_panic.
