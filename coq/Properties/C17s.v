(* C17 (streams): channel streams yield exactly the values successive receives would, return
   None once the channel is closed and drained, and report terminated from then on.  A stream
   is the composition of receive-future steps defined in Model/MpmcStream.v (create the future
   if absent, poll it, drop it when ready); the composition is tied to ChannelStream /
   SharedStream by the correspondence runs. *)
From FI Require Import Base Mpmc MpmcSpec MpmcStream.

(* once terminated, poll_next keeps returning None and touches nothing *)
Theorem C17s_terminated_stays : forall z k w,
  st_term (sget z k) = true ->
  fst (stream_poll z k w) = z /\ o_res (snd (stream_poll z k w)) = [R_NONE].
Proof. exact stream_terminated_stays. Qed.

(* an item (or Pending, or the terminating None) is exactly the result of the poll of the
   stream's receive future -- so by C09/C11 the items are the FIFO contents in order and None
   appears exactly when the channel is closed and drained *)
Theorem C17s_item_is_receive : forall z k w,
  st_term (sget z k) = false ->
  let f := slot_of z k in
  let s1 := if r_alive (getr (zs z) f) then zs z else fst (step_c (zs z) (CreateRecv f)) in
  o_res (snd (stream_poll z k w)) = o_res (snd (step_c s1 (PollRecv f w))).
Proof. exact stream_item_is_receive. Qed.

Print Assumptions C17s_terminated_stays.
Print Assumptions C17s_item_is_receive.
