(* C03 -- async mutex: no lost wake-up, including cancellation and waker replacement. *)
From FI Require Import Base Mutex MutexSpec MutexProofs MutexMonProofs.

(* After every contract-respecting history, of any length and over any number of lock
   futures: if the mutex is free while lock futures are pending, at least one pending
   future -- in fair mode the longest-waiting one -- has been woken since its last poll
   through the waker supplied at that last poll.  "Woken" and "longest-waiting" are
   recomputed from the observable trace alone ([wk_track], [arrivals]). *)
Theorem C03_woken_when_free : forall k b ops,
  legal_run (init k b) ops ->
  let s := run (init k b) ops in
  let tr := trace (init k b) ops in
  locked s = false ->
  (exists f, pending (get s f) = true) ->
  exists g, pending (get s g) = true /\
            wk_woken (wk_track tr g) = true /\
            (b = true -> olast (arrivals tr) = Some g).
Proof. exact woken_when_free. Qed.

(* The pending set used above is the one visible in the trace (fair mode: exactly the
   futures in arrival order). *)
Theorem C03_pending_is_arrivals : forall k ops,
  legal_run (init k true) ops ->
  forall f, In f (arrivals (trace (init k true) ops)) <-> pending (get (run (init k true) ops) f) = true.
Proof. exact pending_is_arrivals. Qed.

(* Progress ("hence" clause): a notified future polled while the mutex is free obtains it;
   so if guards are dropped and woken tasks poll again some pending attempt completes, and
   in fair mode the notified one is the oldest (previous theorem), hence every one does. *)
Theorem C03_progress : forall k b s f w,
  Reach k b s -> locked s = false ->
  f_alive (get s f) = true -> f_hp (get s f) = true -> f_st (get s f) = Notified ->
  o_res (snd (step s (Poll f w))) = [R_READY].
Proof. exact notified_poll_succeeds. Qed.

Example C03_witness :
  (* unfair: 0 holds the lock, 1 and 2 wait; unlock notifies 1; 1 is dropped un-polled:
     the wake-up is passed on to 2 *)
  let ops := [Create 0; Create 1; Create 2; Poll 0 0; Poll 1 2; Poll 2 4; DropGuard; DropFut 1] in
  legal_run (init 3 false) ops /\
  locked (run (init 3 false) ops) = false /\
  pending (get (run (init 3 false) ops) 2) = true /\
  wk_woken (wk_track (trace (init 3 false) ops) 2) = true.
Proof. vm_compute. repeat split; reflexivity. Qed.

(* The boolean monitor the check evaluates on the real crate's traces (after every call: free
   and somebody pending => a pending future - fair: the oldest - holds a wake-up through the
   waker of its latest poll) holds on every contract-respecting history of the model. *)
Theorem C03_monitor : forall k b ops,
  legal_run (init k b) ops ->
  mm_good (fold_left (mon03_step b) (trace (init k b) ops) mmon0) = true.
Proof. exact mon03_holds. Qed.

Print Assumptions C03_woken_when_free.
Print Assumptions C03_pending_is_arrivals.
Print Assumptions C03_progress.
Print Assumptions C03_monitor.
