(* C17 -- future protocol: complete once, is_terminated is exact, re-poll panics.
   [x_hp] is the model of `is_terminated() = false`.  For every primitive and every
   reachable state: a future is created non-terminated; a contract-respecting step changes
   the flag of a surviving future only by completing it (a poll that returns a Ready-type
   result, or cancel() on a send future), and then sets it; since a poll is legal only while
   the flag is unset, Ready is yielded at most once; a poll after completion panics and
   changes nothing.  (The stream part of C17 is in C17s.v.) *)
From FI Require Import Base ProtocolProofs.
From FI Require Event Mutex Semaphore Mpmc Oneshot StateBcast Timer.

Definition hdr (ob : obs) : N := hd 99%N (o_res ob).
Definition is_in (x : N) (l : list N) : bool := existsb (N.eqb x) l.

(* ---- event ---- *)
Theorem C17_event : forall k b s o, Event.Reach k b s -> Event.legal s o = true ->
  let s' := fst (Event.step s o) in let ob := snd (Event.step s o) in
  (forall f, Event.f_alive (Event.get s f) = true -> Event.f_alive (Event.get s' f) = true ->
     Event.f_hp (Event.get s' f) =
       Event.f_hp (Event.get s f) &&
       negb (match o with Event.Poll g _ => Nat.eqb g f && N.eqb (hdr ob) R_READY | _ => false end)) /\
  (forall f, o = Event.Create f -> Event.f_alive (Event.get s' f) = true /\ Event.f_hp (Event.get s' f) = true).
Proof. exact event_protocol. Qed.
Theorem C17_event_repoll : forall s f w, Event.f_hp (Event.get s f) = false ->
  fst (Event.step s (Event.Poll f w)) = s /\ o_res (snd (Event.step s (Event.Poll f w))) = [R_PANIC].
Proof. exact event_repoll. Qed.

(* ---- mutex ---- *)
Theorem C17_mutex : forall k b s o, Mutex.Reach k b s -> Mutex.legal s o = true ->
  let s' := fst (Mutex.step s o) in let ob := snd (Mutex.step s o) in
  (forall f, Mutex.f_alive (Mutex.get s f) = true -> Mutex.f_alive (Mutex.get s' f) = true ->
     Mutex.f_hp (Mutex.get s' f) =
       Mutex.f_hp (Mutex.get s f) &&
       negb (match o with Mutex.Poll g _ => Nat.eqb g f && N.eqb (hdr ob) R_READY | _ => false end)) /\
  (forall f, o = Mutex.Create f -> Mutex.f_alive (Mutex.get s' f) = true /\ Mutex.f_hp (Mutex.get s' f) = true).
Proof. exact mutex_protocol. Qed.
Theorem C17_mutex_repoll : forall s f w, Mutex.f_hp (Mutex.get s f) = false ->
  fst (Mutex.step s (Mutex.Poll f w)) = s /\ o_res (snd (Mutex.step s (Mutex.Poll f w))) = [R_PANIC].
Proof. exact mutex_repoll. Qed.

(* ---- semaphore ---- *)
Theorem C17_semaphore : forall k b p s o, Semaphore.Reach k b p true s -> Semaphore.legal s o = true ->
  let s' := fst (Semaphore.step s o) in let ob := snd (Semaphore.step s o) in
  (forall f, Semaphore.f_alive (Semaphore.get s f) = true -> Semaphore.f_alive (Semaphore.get s' f) = true ->
     Semaphore.f_hp (Semaphore.get s' f) =
       Semaphore.f_hp (Semaphore.get s f) &&
       negb (match o with Semaphore.Poll g _ => Nat.eqb g f && N.eqb (hdr ob) R_READY | _ => false end)) /\
  (forall f n, o = Semaphore.Create f n -> Semaphore.f_alive (Semaphore.get s' f) = true /\ Semaphore.f_hp (Semaphore.get s' f) = true).
Proof. exact semaphore_protocol. Qed.
Theorem C17_semaphore_repoll : forall s f w, Semaphore.f_hp (Semaphore.get s f) = false ->
  fst (Semaphore.step s (Semaphore.Poll f w)) = s /\ o_res (snd (Semaphore.step s (Semaphore.Poll f w))) = [R_PANIC].
Proof. exact semaphore_repoll. Qed.

(* ---- mpmc: receive futures and send futures (cancel() terminates a send future) ---- *)
Theorem C17_mpmc_recv : forall kr ks c s o, Mpmc.Reach kr ks c s -> Mpmc.legal s o = true -> o <> Mpmc.Teardown ->
  let s' := fst (Mpmc.step s o) in let ob := snd (Mpmc.step s o) in
  (forall f, Mpmc.r_alive (Mpmc.getr s f) = true -> Mpmc.r_alive (Mpmc.getr s' f) = true ->
     Mpmc.r_hp (Mpmc.getr s' f) =
       Mpmc.r_hp (Mpmc.getr s f) &&
       negb (match o with Mpmc.PollRecv g _ => Nat.eqb g f && is_in (hdr ob) [R_SOME; R_NONE] | _ => false end)) /\
  (forall f, o = Mpmc.CreateRecv f -> Mpmc.r_alive (Mpmc.getr s' f) = true /\ Mpmc.r_hp (Mpmc.getr s' f) = true).
Proof. exact mpmc_recv_protocol. Qed.
Theorem C17_mpmc_send : forall kr ks c s o, Mpmc.Reach kr ks c s -> Mpmc.legal s o = true -> o <> Mpmc.Teardown ->
  let s' := fst (Mpmc.step s o) in let ob := snd (Mpmc.step s o) in
  (forall f, Mpmc.s_alive (Mpmc.gets s f) = true -> Mpmc.s_alive (Mpmc.gets s' f) = true ->
     Mpmc.s_hp (Mpmc.gets s' f) =
       Mpmc.s_hp (Mpmc.gets s f) &&
       negb (match o with
             | Mpmc.PollSend g _ => Nat.eqb g f && is_in (hdr ob) [R_OK; R_ERR]
             | Mpmc.CancelSend g => Nat.eqb g f
             | _ => false end)) /\
  (forall f v, o = Mpmc.CreateSend f v -> Mpmc.s_alive (Mpmc.gets s' f) = true /\ Mpmc.s_hp (Mpmc.gets s' f) = true).
Proof. exact mpmc_send_protocol. Qed.
Theorem C17_mpmc_repoll : forall s f w,
  (Mpmc.r_hp (Mpmc.getr s f) = false ->
     fst (Mpmc.step s (Mpmc.PollRecv f w)) = s /\ o_res (snd (Mpmc.step s (Mpmc.PollRecv f w))) = [R_PANIC]) /\
  (Mpmc.s_hp (Mpmc.gets s f) = false ->
     fst (Mpmc.step s (Mpmc.PollSend f w)) = s /\ o_res (snd (Mpmc.step s (Mpmc.PollSend f w))) = [R_PANIC]).
Proof. exact mpmc_repoll. Qed.

(* ---- oneshot / broadcast ---- *)
Theorem C17_oneshot : forall k b cnt s o, Oneshot.Reach k b cnt s -> Oneshot.legal s o = true -> o <> Oneshot.Teardown ->
  let s' := fst (Oneshot.step s o) in let ob := snd (Oneshot.step s o) in
  (forall f, Oneshot.r_alive (Oneshot.getr s f) = true -> Oneshot.r_alive (Oneshot.getr s' f) = true ->
     Oneshot.r_hp (Oneshot.getr s' f) =
       Oneshot.r_hp (Oneshot.getr s f) &&
       negb (match o with Oneshot.PollRecv g _ => Nat.eqb g f && is_in (hdr ob) [R_SOME; R_NONE] | _ => false end)) /\
  (forall f, o = Oneshot.CreateRecv f -> Oneshot.r_alive (Oneshot.getr s' f) = true /\ Oneshot.r_hp (Oneshot.getr s' f) = true).
Proof. exact oneshot_protocol. Qed.
Theorem C17_oneshot_repoll : forall s f w, Oneshot.r_hp (Oneshot.getr s f) = false ->
  fst (Oneshot.step s (Oneshot.PollRecv f w)) = s /\ o_res (snd (Oneshot.step s (Oneshot.PollRecv f w))) = [R_PANIC].
Proof. exact oneshot_repoll. Qed.

(* ---- state broadcast ---- *)
Theorem C17_state : forall k s o, StateBcast.Reach k s -> StateBcast.legal s o = true -> o <> StateBcast.Teardown ->
  let s' := fst (StateBcast.step s o) in let ob := snd (StateBcast.step s o) in
  (forall f, StateBcast.r_alive (StateBcast.getr s f) = true -> StateBcast.r_alive (StateBcast.getr s' f) = true ->
     StateBcast.r_hp (StateBcast.getr s' f) =
       StateBcast.r_hp (StateBcast.getr s f) &&
       negb (match o with StateBcast.PollRecv g _ => Nat.eqb g f && is_in (hdr ob) [R_SOME; R_NONE] | _ => false end)) /\
  (forall f i, o = StateBcast.CreateRecv f i -> StateBcast.r_alive (StateBcast.getr s' f) = true /\ StateBcast.r_hp (StateBcast.getr s' f) = true).
Proof. exact state_protocol. Qed.
Theorem C17_state_repoll : forall s f w, StateBcast.r_hp (StateBcast.getr s f) = false ->
  fst (StateBcast.step s (StateBcast.PollRecv f w)) = s /\ o_res (snd (StateBcast.step s (StateBcast.PollRecv f w))) = [R_PANIC].
Proof. exact state_repoll. Qed.

(* ---- timer ---- *)
Theorem C17_timer : forall k s o, Timer.Reach k s -> Timer.legal s o = true ->
  let s' := fst (Timer.step s o) in let ob := snd (Timer.step s o) in
  (forall f, Timer.f_alive (Timer.get s f) = true -> Timer.f_alive (Timer.get s' f) = true ->
     Timer.f_hp (Timer.get s' f) =
       Timer.f_hp (Timer.get s f) &&
       negb (match o with Timer.Poll g _ => Nat.eqb g f && N.eqb (hdr ob) R_READY | _ => false end)) /\
  (forall f, (exists t, o = Timer.Deadline f t) \/ (exists a b, o = Timer.Delay f a b) ->
     Timer.f_alive (Timer.get s' f) = true /\ Timer.f_hp (Timer.get s' f) = true).
Proof. exact timer_protocol. Qed.
Theorem C17_timer_repoll : forall s f w, Timer.f_hp (Timer.get s f) = false ->
  fst (Timer.step s (Timer.Poll f w)) = s /\ o_res (snd (Timer.step s (Timer.Poll f w))) = [R_PANIC].
Proof. exact timer_repoll. Qed.

Print Assumptions C17_event. Print Assumptions C17_event_repoll.
Print Assumptions C17_mutex. Print Assumptions C17_mutex_repoll.
Print Assumptions C17_semaphore. Print Assumptions C17_semaphore_repoll.
Print Assumptions C17_mpmc_recv. Print Assumptions C17_mpmc_send. Print Assumptions C17_mpmc_repoll.
Print Assumptions C17_oneshot. Print Assumptions C17_oneshot_repoll.
Print Assumptions C17_state. Print Assumptions C17_state_repoll.
Print Assumptions C17_timer. Print Assumptions C17_timer_repoll.
