(* C19 -- ring buffers are exact bounded FIFOs and drop every element exactly once. *)
From FI Require Import Base RingBuf RingBufProofs.

(* For every sequence of push / pop that respects can_push() / is_empty(), for every
   capacity including 0 and for ArrayBuf, FixedHeapBuf and GrowingHeapBuf: [abs b] is the
   FIFO content (for ArrayBuf: the initialised slots in the cyclic window starting at the
   receive index). *)
Theorem C19_refines_fifo : forall dbg k c b,
  Reach dbg k c b ->
  (forall x, legal b (Push x) = true ->
     abs (fst (step dbg b (Push x))) = abs b ++ [x] /\ o_res (snd (step dbg b (Push x))) = [R_UNIT]) /\
  (legal b Pop = true ->
     exists v rest, abs b = v :: rest /\ abs (fst (step dbg b Pop)) = rest /\
                    o_res (snd (step dbg b Pop)) = [R_SOME; v] /\
                    o_val (snd (step dbg b Pop)) = [V_DELIVERED; v]).
Proof. exact refines_fifo. Qed.

(* len(), is_empty(), can_push() and capacity() are consistent with the stored elements *)
Theorem C19_accessors : forall dbg k c b,
  Reach dbg k c b -> b_dropped b = false ->
  len b = length (abs b) /\ b_cap b = c /\ length (abs b) <= c /\
  is_empty b = Nat.eqb (length (abs b)) 0 /\
  can_push b = Nat.ltb (length (abs b)) c.
Proof. exact accessors. Qed.

(* dropping the buffer drops exactly the stored elements, each once, in order; popped
   elements are never dropped by the buffer *)
Theorem C19_drop_exact : forall dbg k c b,
  Reach dbg k c b -> legal b DropBuf = true ->
  o_res (snd (step dbg b DropBuf)) = [R_UNIT] /\
  o_val (snd (step dbg b DropBuf)) = flat_map (fun v => [V_DROPPED; v]) (abs b).
Proof. exact drop_exact. Qed.

(* no assertion failure, no read / drop of uninitialised memory, no overwrite of a live slot *)
Theorem C19_no_ub : forall dbg k c b o,
  Reach dbg k c b -> legal b o = true ->
  hd 0%N (o_res (snd (step dbg b o))) <> R_PANIC /\
  hd 0%N (o_res (snd (step dbg b o))) <> R_UB /\
  hd 0%N (o_res (snd (step dbg b o))) <> R_LEAK.
Proof. exact no_ub. Qed.

(* the ArrayBuf index invariant, including wrap-around *)
Theorem C19_array_indices : forall dbg c b,
  Reach dbg Array c b -> b_dropped b = false ->
  length (b_slots b) = c /\ b_size b <= c /\
  (0 < c -> b_recv b < c /\ b_send b < c /\ b_send b = (b_recv b + b_size b) mod c) /\
  (forall i, i < c -> (nth i (b_slots b) None <> None <->
                       exists j, j < b_size b /\ i = (b_recv b + j) mod c)).
Proof. exact array_indices. Qed.

Example C19_witness :
  (* capacity 2: wrap-around of both indices *)
  let ops := [Push 1; Push 2; Pop; Push 3; Pop; Push 4; DropBuf]%N in
  map (fun o => o_val o) (m_run machine (minit [0; 2; 1; 0]%N) (map encode ops)) =
    [[]; []; [V_DELIVERED; 1]; []; [V_DELIVERED; 2]; []; [V_DROPPED; 3; V_DROPPED; 4]]%N.
Proof. vm_compute. reflexivity. Qed.

Print Assumptions C19_refines_fifo.
Print Assumptions C19_accessors.
Print Assumptions C19_drop_exact.
Print Assumptions C19_no_ub.
Print Assumptions C19_array_indices.
