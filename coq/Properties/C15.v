(* C15 -- timer: never early, nothing due missed, deadline order, exact next_expiration. *)
From FI Require Import Base Timer TimerSpec TimerProofs.
From Coq Require Import Permutation.

(* For every contract-respecting history (any number of timer futures, any deadlines
   including duplicates, monotone clock, wakers private to each future) the monitor
   [timer_ok] of Model/TimerSpec.v holds on the observable trace: a future completes at its
   first poll iff the clock has reached its deadline, and later only after a
   check_expirations() that observed clock >= deadline; each check_expirations() wakes,
   through their latest wakers and in non-decreasing deadline order, all and only the
   registered futures that are due; next_expiration() (probed after every call) is the
   smallest deadline among registered, not yet expired, not dropped futures, None if there
   are none; delay(d) means deadline(now + d), saturating. *)
Theorem C15_protocol : forall k ops,
  legal_run (init k) ops -> private_wakers ops ->
  timer_ok k (trace (init k) ops) = true.
Proof. exact protocol_holds. Qed.

(* The heap holds exactly the registered futures, each once, and is heap ordered. *)
Theorem C15_heap_exact : forall k s,
  Reach k s ->
  NoDup (helements (heap s)) /\
  (forall f, In f (helements (heap s)) <->
             (f_alive (get s f) = true /\ f_hp (get s f) = true /\ f_st (get s f) = Reg)) /\
  hordered (keyof (futs s)) (heap s).
Proof. exact heap_exact. Qed.

(* Pairing heap, tree level (the shape-exact model of intrusive_pairing_heap.rs). *)
Theorem C15_pheap_insert : forall key h f,
  Permutation (helements (insert key h f)) (f :: helements h) /\
  (hordered key h -> hordered key (insert key h f)).
Proof. exact pheap_insert. Qed.

Theorem C15_pheap_remove : forall key h f,
  NoDup (helements h) -> In f (helements h) ->
  Permutation (f :: helements (remove key h f)) (helements h) /\
  (hordered key h -> hordered key (remove key h f)).
Proof. exact pheap_remove. Qed.

Theorem C15_pheap_min : forall key h r,
  hordered key h -> peek_min h = Some r ->
  forall x, In x (helements h) -> (key r <= key x)%N.
Proof. exact pheap_min. Qed.

(* delay: milliseconds, saturating in both steps *)
Theorem C15_delay_saturating : forall n secs nanos,
  (n <= MAXU)%N ->
  let ms := (secs * 1000 + nanos / 1000000)%N in
  (deadline_from_now n secs nanos <= MAXU)%N /\
  ((n + ms <= MAXU)%N -> deadline_from_now n secs nanos = (n + ms)%N) /\
  ((MAXU < n + ms)%N -> deadline_from_now n secs nanos = MAXU).
Proof. exact delay_saturating. Qed.

Example C15_witness :
  (* deadlines 5,3,5,1,3,9,1 registered in this order; at time 10 all are woken in
     non-decreasing deadline order, ties broken exactly as the crate does: 7,4,2,5,1,3,6
     (futures numbered from 1 in DESIGN.md, from 0 here) *)
  let ops := [Deadline 0 5%N; Deadline 1 3%N; Deadline 2 5%N; Deadline 3 1%N; Deadline 4 3%N; Deadline 5 9%N; Deadline 6 1%N;
              Poll 0 0; Poll 1 2; Poll 2 4; Poll 3 6; Poll 4 8; Poll 5 10; Poll 6 12; SetTime 10%N; CheckExp] in
  legal_run (init 7) ops /\
  o_wake (snd (last (trace (init 7) ops) (CheckExp, bad_obs))) = [12; 6; 2; 8; 0; 4; 10]%N.
Proof. vm_compute. repeat split; reflexivity. Qed.

Print Assumptions C15_protocol.
Print Assumptions C15_heap_exact.
Print Assumptions C15_pheap_insert.
Print Assumptions C15_pheap_remove.
Print Assumptions C15_pheap_min.
Print Assumptions C15_delay_saturating.
