(* C12 -- oneshot channels deliver a single value: to one receiver, or to all (broadcast). *)
From FI Require Import Base Oneshot OneshotSpec OneshotProofs.

(* For every contract-respecting history (any number of receive futures, wakers private to
   each future, borrowed or shared handles, single-consumer [b = false] or broadcast
   [b = true]) the monitor [oneshot_ok] of Model/OneshotSpec.v holds on the observable trace:
   the first send on an open channel succeeds and every other send fails and returns its own
   value; a receive waits only while nothing was sent and the channel is open; single
   consumer: exactly one receive ever yields the value, every other completion yields None;
   broadcast: every completion after the send yields the value, None only if closed without
   one; every receiver pending at the moment of the send or close has been woken through its
   latest waker. *)
Theorem C12_protocol : forall k b cnt ops,
  legal_run (init k b cnt) ops -> private_wakers ops ->
  oneshot_ok k b (trace (init k b cnt) ops) = true.
Proof. exact protocol_holds. Qed.

Theorem C12_single_send : forall s v,
  o_res (snd (step s (Send v))) = if fulfilled s then [R_ERR; v] else [R_OK].
Proof. exact single_send. Qed.

(* send / close on an open channel wake every queued receiver (oldest first, latest wakers)
   and leave the queue empty *)
Theorem C12_wakes_all : forall k b cnt s o,
  Reach k b cnt s -> fulfilled s = false -> legal s o = true ->
  (o = Close \/ exists v, o = Send v) ->
  let s' := fst (step s o) in
  waiters s' = [] /\ fulfilled s' = true /\
  o_wake (snd (step s o)) =
    map (fun f => match r_lastw (getr s f) with Some w => nN w | None => 0%N end) (rev (waiters s)) /\
  (forall f, In f (waiters s) -> r_woken (getr s' f) = true /\ r_st (getr s' f) = RUnreg).
Proof. exact wakes_all. Qed.

(* the `unreachable!("Not possible for Oneshot")` arm is unreachable, the queue is exactly the
   registered live futures *)
Theorem C12_queue_exact : forall k b cnt s,
  Reach k b cnt s ->
  NoDup (waiters s) /\
  (forall f, In f (waiters s) <-> (r_alive (getr s f) = true /\ r_hp (getr s f) = true /\ r_st (getr s f) = RReg)) /\
  (forall f, r_alive (getr s f) = true -> r_st (getr s f) <> RNotified) /\
  (fulfilled s = true -> waiters s = []).
Proof. exact queue_exact. Qed.

Example C12_witness :
  (* single consumer: two receivers wait, the send wakes both (oldest first), the one polled
     first gets the value, the other None; a second send is rejected *)
  let ops := [CreateRecv 0; CreateRecv 1; PollRecv 0 0; PollRecv 1 2; Send 7%N; PollRecv 1 2; PollRecv 0 0; Send 8%N] in
  legal_run (init 2 false true) ops /\
  map (fun e => (o_res (snd e), o_wake (snd e))) (trace (init 2 false true) ops) =
    [([R_UNIT], []); ([R_UNIT], []); ([R_PENDING], []); ([R_PENDING], []); ([R_OK], [0; 2]);
     ([R_SOME; 7], []); ([R_NONE], []); ([R_ERR; 8], [])]%N.
Proof. vm_compute. repeat split; reflexivity. Qed.

Print Assumptions C12_protocol.
Print Assumptions C12_single_send.
Print Assumptions C12_wakes_all.
Print Assumptions C12_queue_exact.
