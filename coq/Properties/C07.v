(* C07 -- fair semaphore serves requests in arrival order. *)
From FI Require Import Base Semaphore SemaphoreSpec SemaphoreProofs.

(* Fair mode, any history: a request for n > 0 (future or try_acquire) completes only if no
   other still-pending request started waiting earlier, whichever future is polled first
   and however many permits are free; requests for zero permits complete at their first
   poll.  [fair_order_ok] is the monitor over the observable trace. *)
Theorem C07_fifo : forall k p0 ops,
  legal_run (init k true p0 true) ops ->
  fair_order_ok k (trace (init k true p0 true) ops) = true.
Proof. exact fair_order_holds. Qed.

(* The wait queue is the arrival order recomputed from the trace. *)
Theorem C07_queue_is_arrivals : forall k p0 ops,
  legal_run (init k true p0 true) ops ->
  waiters (run (init k true p0 true) ops) = arrivals k true (trace (init k true p0 true) ops) /\
  NoDup (waiters (run (init k true p0 true) ops)).
Proof. exact queue_is_arrivals. Qed.

(* Cancelling a pending request removes it without reordering the rest. *)
Theorem C07_drop_is_filter : forall k p0 ops f,
  legal_run (init k true p0 true) (ops ++ [DropFut f]) ->
  arrivals k true (trace (init k true p0 true) (ops ++ [DropFut f])) =
  filter (fun x => negb (Nat.eqb x f)) (arrivals k true (trace (init k true p0 true) ops)).
Proof. exact drop_is_filter. Qed.

Example C07_witness :
  (* a large request at the head is not overtaken by a later small one *)
  let ops := [Create 0 3; Create 1 1; Poll 0 0; Poll 1 2; Release 1; Poll 1 2; TryAcquire 1] in
  legal_run (init 2 true 0 true) ops /\
  map (fun e => o_res (snd e)) (trace (init 2 true 0 true) ops) =
    [[R_UNIT]; [R_UNIT]; [R_PENDING]; [R_PENDING]; [R_UNIT]; [R_PENDING]; [R_NONE]].
Proof. vm_compute. repeat split; reflexivity. Qed.

Print Assumptions C07_fifo.
Print Assumptions C07_queue_is_arrivals.
Print Assumptions C07_drop_is_filter.
