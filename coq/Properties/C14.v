(* C14 -- ManualResetEvent: a wait completes iff the event was set while it waited.
   Statements only; every proof is [exact] of a lemma from Proofs/EventProofs.v. *)
From FI Require Import Base Event EventProofs.

(* (a) For every contract-respecting history [ops] followed by a poll of future [f]:
   the poll returns Ready iff the event is set at that instant, or was set at some
   instant since the first poll of [f] (tracked on the operations alone, independent of
   any reset in between); otherwise it returns Pending. *)
Theorem C14_iff_latched : forall k b ops f w,
  legal_run (init k b) (ops ++ [Poll f w]) ->
  let s := run (init k b) ops in
  let t := track b ops in
  (o_res (snd (step s (Poll f w))) = [R_READY] <-> (t_set t = true \/ t_seen t f = Some true)) /\
  (o_res (snd (step s (Poll f w))) = [R_PENDING] <-> ~ (t_set t = true \/ t_seen t f = Some true)).
Proof. exact poll_completes_iff_set_seen. Qed.

(* (b) set() on an unset event wakes exactly the pending waiters (alive, polled, not
   yet notified), oldest first, each through the waker of its latest poll, and empties
   the queue. *)
Theorem C14_set_wakes_all : forall k b s,
  Reach k b s -> is_set s = false ->
  let s' := fst (step s SetEv) in
  o_wake (snd (step s SetEv)) = map (lastw_of s) (rev (waiters s)) /\
  waiters s' = [] /\ is_set s' = true /\
  (forall f, In f (waiters s) <->
             (f_alive (get s f) = true /\ f_polled (get s f) = true /\ f_st (get s f) <> Done)) /\
  (forall f, In f (waiters s) -> f_st (get s' f) = Done /\ f_hp (get s' f) = true).
Proof. intros k b s Hr. exact (set_wakes_all s (reach_inv k b s Hr)). Qed.

(* (c) reset() neither wakes nor completes anyone. *)
Theorem C14_reset_inert : forall s,
  fst (step s ResetEv) = mkState false (waiters s) (futs s) /\
  o_wake (snd (step s ResetEv)) = [].
Proof. exact reset_inert. Qed.

(* (d) is_set() reflects the last set/reset. *)
Theorem C14_is_set : forall s o,
  is_set (fst (step s o)) = match o with SetEv => true | ResetEv => false | _ => is_set s end.
Proof. exact is_set_tracks. Qed.

Theorem C14_is_set_probe : forall s, step s IsSet = (s, mk_obs s [Rbool (is_set s)] []).
Proof. exact is_set_probe. Qed.

(* non-vacuity: a concrete history in which a future is woken by set, the event is reset,
   and the future still completes *)
Example C14_witness :
  let ops := [Create 0; Poll 0 7; SetEv; ResetEv] in
  legal_run (init 2 false) (ops ++ [Poll 0 8]) /\
  o_res (snd (step (run (init 2 false) ops) (Poll 0 8))) = [R_READY] /\
  is_set (run (init 2 false) ops) = false.
Proof. vm_compute. repeat split; reflexivity. Qed.

Print Assumptions C14_iff_latched.
Print Assumptions C14_set_wakes_all.
Print Assumptions C14_reset_inert.
Print Assumptions C14_is_set.
Print Assumptions C14_is_set_probe.
