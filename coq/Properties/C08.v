(* C08 -- MPMC channel: each value is delivered exactly once, or handed back, or destroyed
   exactly once; never lost, never duplicated.  Statements only. *)
From FI Require Import Base Mpmc MpmcSpec MpmcProofs MpmcDropsProofs.
From Coq Require Import Permutation.

(* For every contract-respecting history with uniquely tagged values (any number of send and
   receive futures, any capacity including 0, borrowed or shared handles, with close, cancel,
   try_send / try_receive): every value movement the caller observes (returned by a receive,
   handed back by an error or cancel(), destroyed) concerns a value that is still in
   flight, and takes it out of flight -- so no value is observed twice; and when everything
   is torn down nothing is left in flight -- so no value is lost.  [conservation_ok] is the
   monitor of Model/MpmcSpec.v over the observable trace. *)
Theorem C08_conservation : forall kr ks c ops,
  legal_run (init kr ks c) ops -> unique_tags ops ->
  conservation_ok (trace (init kr ks c) ops) = true.
Proof. exact conservation_holds. Qed.

(* The values in flight according to the trace are exactly those the channel holds: in its
   buffer or inside a live send future. *)
Theorem C08_in_flight : forall kr ks c ops,
  legal_run (init kr ks c) ops -> unique_tags ops ->
  Permutation (c_live (fold_left cons_step (trace (init kr ks c) ops) (mkCons [] true)))
              (in_flight (run (init kr ks c) ops)).
Proof. exact live_is_in_flight. Qed.

(* Values are destroyed only together with their send future, by the last receiver's
   clear(), or with the channel -- never while receivers could still reach them. *)
Theorem C08_drops_only_where_allowed : forall kr ks c s o v,
  Reach kr ks c s -> legal s o = true ->
  In (V_DROPPED, v) (pairs (o_val (snd (step s o)))) ->
  (exists f, o = DropSend f /\ s_val (gets s f) = Some v) \/ o = DropReceiverClear \/ o = Teardown.
Proof. exact drops_only_where_allowed. Qed.

(* The same on the observable trace of encoded operations with whole-call handle drops (the
   trace the harness produces): the placement monitor -- destruction only with the carrying
   send future, by the drop of the LAST receiver handle (receiver handles counted from the
   clone / drop operations of the trace), or with the channel -- holds for every
   contract-respecting history with uniquely tagged values. *)
Theorem C08_drops_placed : forall kr ks c sh ls,
  mlegal_run (init kr ks c) ls = true -> NoDup (minjected ls) ->
  drops_placed_ok sh ks (mtrace (init kr ks c) ls) = true.
Proof. exact drops_placed_holds. Qed.

Example C08_witness :
  let ops := [CreateSend 0 1%N; PollSend 0 64; CreateSend 1 2%N; PollSend 1 66; CreateRecv 0; PollRecv 0 0;
              Close; PollSend 1 66; Teardown] in
  legal_run (init 1 2 1) ops /\ unique_tags ops /\
  map (fun e => o_val (snd e)) (trace (init 1 2 1) ops) =
    [[]; []; []; []; []; [V_DELIVERED; 1]; []; []; [V_DROPPED; 2]]%N.
Proof. vm_compute. repeat split; try reflexivity. repeat constructor; simpl; intuition discriminate. Qed.

Print Assumptions C08_conservation.
Print Assumptions C08_in_flight.
Print Assumptions C08_drops_only_where_allowed.
Print Assumptions C08_drops_placed.
