(* Invariants and lemmas for Model/Oneshot.v (oneshot and oneshot-broadcast channels) *)
From FI Require Import Base Oneshot OneshotSpec.

Local Ltac inv H := inversion H; subst; clear H.

Ltac bool_hyps :=
  repeat match goal with
  | H : (_ && _)%bool = true |- _ => apply andb_true_iff in H; destruct H
  | H : negb _ = true |- _ => apply negb_true_iff in H
  | H : negb _ = false |- _ => apply negb_false_iff in H
  | H : Nat.ltb _ _ = true |- _ => apply Nat.ltb_lt in H
  | H : Nat.eqb _ _ = true |- _ => apply Nat.eqb_eq in H
  end.

Lemma alive_lt s f : r_alive (getr s f) = true -> f < length (rfs s).
Proof.
  unfold getr. intros H. destruct (Nat.lt_ge_cases f (length (rfs s))) as [|Hge]; auto.
  rewrite nth_overflow in H by auto. discriminate.
Qed.

Lemma nth_repeat_rabsent k f : nth f (repeat rabsent k) rabsent = rabsent.
Proof. revert f; induction k; intros [|f]; simpl; auto. Qed.

Lemma nth_upd_cases {A} (fs : list A) f g x d :
  f < length fs ->
  (g = f /\ nth g (upd f x fs) d = x) \/
  (g <> f /\ nth g (upd f x fs) d = nth g fs d).
Proof.
  intros Hlt. rewrite nth_upd. destruct (Nat.eqb_spec f g) as [->|Hne]; simpl.
  - left. split; auto. apply Nat.ltb_lt in Hlt. rewrite Hlt. auto.
  - right. split; auto.
Qed.

Lemma nth_const_map (fs : list rfut) g : nth g (map (fun _ => rabsent) fs) rabsent = rabsent.
Proof. revert g; induction fs as [|h t IH]; intros [|g]; simpl; auto. Qed.

(* ------------------------------------------------------------------ *)
(* histories *)
Lemma legal_run_app s a c : legal_run s (a ++ c) <-> legal_run s a /\ legal_run (run s a) c.
Proof. revert s; induction a as [|o r IH]; simpl; intros s; [tauto|]. rewrite IH. tauto. Qed.

Lemma run_app s a c : run s (a ++ c) = run (run s a) c.
Proof. unfold run. apply fold_left_app. Qed.

Lemma reach_run_gen k b cnt s ops : Reach k b cnt s -> legal_run s ops -> Reach k b cnt (run s ops).
Proof.
  revert s; induction ops as [|o r IH]; simpl; intros s Hr Hl; auto.
  destruct Hl. apply IH; auto. apply reach_step; auto.
Qed.

Lemma reach_run k b cnt ops : legal_run (init k b cnt) ops -> Reach k b cnt (run (init k b cnt) ops).
Proof. apply reach_run_gen. apply reach_init. Qed.

(* ------------------------------------------------------------------ *)
(* the receive futures and the wait queue *)
Record RfOk (ful : bool) (x : rfut) : Prop := {
  ro_reg : r_st x = RReg ->
           r_hp x = true /\ r_task x = r_lastw x /\ r_lastw x <> None /\ ful = false;
  ro_notn : r_st x <> RNotified;
  ro_nohp : r_hp x = false -> r_st x = RUnreg /\ r_lastw x <> None
}.

Record Inv (s : state) : Prop := {
  inv_nodup : NoDup (waiters s);
  inv_exact : forall f, In f (waiters s) <->
                        (r_alive (getr s f) = true /\ r_hp (getr s f) = true /\ r_st (getr s f) = RReg);
  inv_ful : fulfilled s = true -> waiters s = [];
  inv_fut : forall f, r_alive (getr s f) = true -> RfOk (fulfilled s) (getr s f);
  inv_dead : forall f, r_alive (getr s f) = false -> getr s f = rabsent;
  inv_val : value s <> None -> fulfilled s = true /\ sent s = true;
  inv_sent : sent s = true -> fulfilled s = true
}.

Lemma inv_init k b cnt : Inv (init k b cnt).
Proof.
  constructor; simpl; auto; try discriminate; try congruence.
  - constructor.
  - intros f. unfold getr; simpl. rewrite nth_repeat_rabsent. simpl. split; [tauto|intros [H _]; discriminate].
  - intros f. unfold getr; simpl. rewrite nth_repeat_rabsent. discriminate.
  - intros f _. unfold getr; simpl. apply nth_repeat_rabsent.
Qed.

(* Inv does not read the handle counters, the flavour flags nor [explicit] / [gone] *)
Lemma inv_view s s' :
  fulfilled s' = fulfilled s -> value s' = value s -> waiters s' = waiters s -> rfs s' = rfs s ->
  sent s' = sent s -> Inv s -> Inv s'.
Proof.
  intros E1 E2 E3 E4 E5 [A B C D E F G].
  constructor; unfold getr in *; rewrite ?E1, ?E2, ?E3, ?E4, ?E5; auto.
Qed.

(* one slot rewritten, the queue adjusted accordingly *)
Lemma inv_set s f x' ws v snt :
  Inv s -> f < length (rfs s) ->
  NoDup ws ->
  (forall g, g <> f -> (In g ws <-> In g (waiters s))) ->
  (In f ws <-> (r_alive x' = true /\ r_hp x' = true /\ r_st x' = RReg)) ->
  (r_alive x' = true -> RfOk (fulfilled s) x') ->
  (r_alive x' = false -> x' = rabsent) ->
  (v <> None -> fulfilled s = true /\ snt = true) ->
  (snt = true -> fulfilled s = true) ->
  forall b ful hs rc pr cnt ex gn, ful = fulfilled s ->
  Inv (mkState b ful v ws (upd f x' (rfs s)) hs rc pr cnt snt ex gn).
Proof.
  intros [Hnd Hex Hful Hfut Hdead Hval Hsent] Hlt Hndw Hoth Hf Hok Hd Hv Hs b ful hs rc pr cnt ex gn ->.
  constructor; cbn [waiters fulfilled value sent]; auto; unfold getr; cbn [rfs].
  - intros g. destruct (nth_upd_cases (rfs s) f g x' rabsent Hlt) as [[-> E]|[Hne E]]; rewrite E; auto.
    rewrite Hoth by auto. apply Hex.
  - intros E. destruct ws as [|g r]; auto. exfalso.
    assert (Hg : In g (g :: r)) by (left; auto).
    destruct (Nat.eq_dec g f) as [->|Hne].
    + apply Hf in Hg. destruct Hg as (Ha & _ & Hr). destruct (Hok Ha) as [R _ _].
      destruct (R Hr) as (_ & _ & _ & D). congruence.
    + apply Hoth in Hg; auto. rewrite (Hful E) in Hg. destruct Hg.
  - intros g. destruct (nth_upd_cases (rfs s) f g x' rabsent Hlt) as [[-> E]|[Hne E]]; rewrite E; auto.
    apply Hfut.
  - intros g. destruct (nth_upd_cases (rfs s) f g x' rabsent Hlt) as [[-> E]|[Hne E]]; rewrite E; auto.
    apply Hdead.
Qed.

(* wake_all touches exactly the listed (distinct) slots *)
Lemma wake_all_spec : forall order fs acc,
  NoDup order ->
  let '(fs', wk) := wake_all fs order acc in
  length fs' = length fs /\
  wk = acc ++ flat_map (fun f => wk_list (r_task (nth f fs rabsent))) order /\
  (forall g, ~ In g order -> nth g fs' rabsent = nth g fs rabsent) /\
  (forall g, In g order -> g < length fs ->
     let x := nth g fs rabsent in
     nth g fs' rabsent =
     mkR (r_alive x) (r_hp x) RUnreg None (r_woken x || woke_by (r_task x) (r_lastw x)) (r_lastw x)).
Proof.
  induction order as [|f r IH]; intros fs acc Hnd; simpl.
  - rewrite app_nil_r. repeat split; auto. intros g [].
  - inv Hnd.
    set (x := nth f fs rabsent).
    set (fs1 := upd f (mkR (r_alive x) (r_hp x) RUnreg None (r_woken x || woke_by (r_task x) (r_lastw x)) (r_lastw x)) fs).
    specialize (IH fs1 (acc ++ wk_list (r_task x)) H2).
    destruct (wake_all fs1 r (acc ++ wk_list (r_task x))) as [fs' wk].
    destruct IH as (Hlen & Hwk & Hother & Hin).
    assert (Hfs1 : forall g, g <> f -> nth g fs1 rabsent = nth g fs rabsent).
    { intros g Hg. unfold fs1. apply nth_upd_other. auto. }
    repeat split.
    + rewrite Hlen. unfold fs1. apply upd_length.
    + rewrite Hwk. rewrite <- app_assoc. f_equal. f_equal.
      apply flat_map_ext_in. intros a Ha. rewrite Hfs1; auto. intro; subst; auto.
    + intros g Hg. rewrite Hother by (intro; apply Hg; right; auto).
      apply Hfs1. intro; subst; apply Hg; left; auto.
    + intros g [Hg|Hg] Hlt.
      * subst g. rewrite Hother by auto. unfold fs1. rewrite nth_upd_same; auto.
      * unfold fs1 in *. rewrite upd_length in Hin. rewrite Hin; auto.
        rewrite nth_upd_other; auto. intro; subst; auto.
Qed.

Definition lastw_of (s : state) (f : fid) : N :=
  match r_lastw (getr s f) with Some w => nN w | None => 0%N end.

Definition drained (x : rfut) : rfut := mkR (r_alive x) (r_hp x) RUnreg None true (r_lastw x).

(* the drain loop of send / close on a state satisfying the invariant *)
Lemma drain_spec s :
  Inv s ->
  let '(fs', wk) := wake_all (rfs s) (rev (waiters s)) [] in
  length fs' = length (rfs s) /\
  map nN wk = map (lastw_of s) (rev (waiters s)) /\
  (forall g, nth g fs' rabsent = if memb g (waiters s) then drained (getr s g) else getr s g).
Proof.
  intros [Hnd Hex Hful Hfut Hdead Hval Hsent].
  pose proof (wake_all_spec (rev (waiters s)) (rfs s) []) as W.
  assert (Hndr : NoDup (rev (waiters s))) by (apply NoDup_rev; auto).
  specialize (W Hndr).
  destruct (wake_all (rfs s) (rev (waiters s)) []) as [fs' wk].
  destruct W as (Wlen & Wwk & Wother & Win).
  assert (Hreg : forall g, In g (waiters s) ->
            exists w, r_task (getr s g) = Some w /\ r_lastw (getr s g) = Some w).
  { intros g Hg. apply Hex in Hg. destruct Hg as (Ha & _ & Hr).
    destruct (Hfut g Ha) as [R _ _]. destruct (R Hr) as (_ & P1 & P2 & _).
    destruct (r_lastw (getr s g)) as [w|] eqn:E; [|congruence]. exists w. auto. }
  split; [auto|split].
  - rewrite Wwk. simpl.
    assert (G : forall l, (forall f, In f l -> In f (waiters s)) ->
             map nN (flat_map (fun f => wk_list (r_task (nth f (rfs s) rabsent))) l) = map (lastw_of s) l).
    { induction l as [|h r IH]; [reflexivity|]. intros Hl. cbn [flat_map map].
      rewrite map_app.
      change (lastw_of s h :: map (lastw_of s) r) with ([lastw_of s h] ++ map (lastw_of s) r).
      f_equal; [|apply IH; intros; apply Hl; right; auto].
      destruct (Hreg h) as (w & E1 & E2); [apply Hl; left; auto|].
      unfold lastw_of. fold (getr s h). rewrite E1, E2. reflexivity. }
    apply G. intros f Hin. apply in_rev; auto.
  - intros g. destruct (memb g (waiters s)) eqn:Em.
    + apply memb_In in Em. rewrite Win.
      * destruct (Hreg g Em) as (w & E1 & E2). fold (getr s g). unfold drained.
        rewrite E1, E2. simpl. rewrite Nat.eqb_refl, orb_true_r. reflexivity.
      * apply -> in_rev; auto.
      * apply Hex in Em. destruct Em. apply alive_lt; auto.
    + apply memb_false in Em. apply Wother. intro Hin. apply Em. apply in_rev; auto.
Qed.

Lemma inv_drained s fs' :
  Inv s -> length fs' = length (rfs s) ->
  (forall g, nth g fs' rabsent = if memb g (waiters s) then drained (getr s g) else getr s g) ->
  forall b v hs rc pr cnt snt ex gn,
  (v <> None -> snt = true) ->
  Inv (mkState b true v [] fs' hs rc pr cnt snt ex gn).
Proof.
  intros [Hnd Hex Hful Hfut Hdead Hval Hsent] Hlen Hg b v hs rc pr cnt snt ex gn Hv.
  constructor; cbn [waiters fulfilled value sent]; auto; unfold getr; cbn [rfs].
  - constructor.
  - intros g. split; [intros []|]. rewrite Hg. intros (Ha & Hh & Hr).
    destruct (memb g (waiters s)) eqn:Em; [discriminate|].
    apply memb_false in Em. apply Em. apply Hex. auto.
  - intros g. rewrite Hg. destruct (memb g (waiters s)) eqn:Em.
    + apply memb_In in Em. apply Hex in Em. destruct Em as (Ha & Hh & Hr). intros _.
      constructor; simpl; try discriminate. congruence.
    + intros Ha. destruct (Hfut g Ha) as [R N P]. constructor; auto.
      intros E. exfalso. apply memb_false in Em. apply Em. apply Hex.
      destruct (R E) as (P1 & _). auto.
  - intros g. rewrite Hg. destruct (memb g (waiters s)) eqn:Em.
    + apply memb_In in Em. apply Hex in Em. destruct Em as (Ha & _). simpl. congruence.
    + apply Hdead.
Qed.

Lemma inv_do_close s e : Inv s -> Inv (fst (fst (do_close s e))).
Proof.
  intros I. unfold do_close. destruct (fulfilled s) eqn:Ef; [exact I|].
  pose proof (drain_spec s I) as W.
  destruct (wake_all (rfs s) (rev (waiters s)) []) as [fs' wk].
  destruct W as (Wlen & _ & Wg). simpl.
  apply inv_drained with (s := s); auto.
  intros Hv. destruct (inv_val s I Hv). congruence.
Qed.

Lemma inv_step s o : Inv s -> legal s o = true -> Inv (fst (step s o)).
Proof.
  intros I Hl. pose proof I as [Hnd Hex Hful Hfut Hdead Hval Hsent].
  destruct o as [v| |f|f w|f| | | | |]; unfold legal in Hl; bool_hyps.
  - (* Send *)
    unfold step. destruct (fulfilled s) eqn:Ef; [exact I|].
    pose proof (drain_spec s I) as W.
    destruct (wake_all (rfs s) (rev (waiters s)) []) as [fs' wk].
    destruct W as (Wlen & _ & Wg). simpl.
    apply inv_drained with (s := s); auto.
  - (* Close *)
    unfold step. pose proof (inv_do_close s true I) as J.
    destruct (do_close s true) as [[s' n] wk]. exact J.
  - (* CreateRecv *)
    simpl. unfold with_rfs. apply inv_set; auto.
    + intros; tauto.
    + simpl. split; [|intros (_ & _ & D); discriminate].
      intros Hin. apply Hex in Hin. destruct Hin. congruence.
    + intros _. constructor; simpl; try discriminate.
    + discriminate.
  - (* PollRecv *)
    pose proof (alive_lt s f H0) as Hlt.
    pose proof (Hfut f H0) as [Fr Fn Fh].
    unfold step. rewrite H1. simpl negb. cbv iota.
    destruct (r_st (getr s f)) eqn:Est.
    + assert (Hni : ~ In f (waiters s)).
      { intro Hin. apply Hex in Hin. destruct Hin as (_ & _ & D). congruence. }
      destruct (value s) as [v|] eqn:Ev.
      * (* value delivered *)
        destruct (Hval ltac:(congruence)) as [Ef Es].
        simpl. apply inv_set; auto.
        -- intros; tauto.
        -- simpl. split; [tauto|intros (_ & D & _); discriminate].
        -- intros _. constructor; simpl; try discriminate. split; auto. discriminate.
        -- discriminate.
      * destruct (fulfilled s) eqn:Ef.
        -- simpl. unfold with_rfs. rewrite Ev. apply inv_set; auto.
           ++ intros; tauto.
           ++ simpl. split; [tauto|intros (_ & D & _); discriminate].
           ++ intros _. constructor; simpl; try discriminate. split; auto. discriminate.
           ++ discriminate.
        -- apply memb_false in Hni. rewrite Hni. apply memb_false in Hni.
           simpl. unfold with_rfs. rewrite Ev. apply inv_set; auto.
           ++ constructor; auto.
           ++ intros g Hne. simpl. split; [intros [D|D]; congruence|auto].
           ++ simpl. tauto.
           ++ intros _. constructor; simpl; try discriminate.
              intros _. repeat split; auto. discriminate.
           ++ discriminate.
           ++ rewrite Ef. auto.
    + (* RReg: waker update *)
      destruct (Fr eq_refl) as (P1 & P2 & P3 & P4).
      simpl. unfold with_rfs. apply inv_set; auto.
      * intros; tauto.
      * simpl. split; auto. intros _. apply Hex. auto.
      * intros _. constructor; simpl; try discriminate.
        intros _. repeat split; auto. discriminate.
      * discriminate.
    + congruence.
  - (* DropRecv *)
    pose proof (alive_lt s f H0) as Hlt.
    assert (Hgen : forall ws, (forall g, In g ws <-> In g (waiters s) /\ g <> f) -> NoDup ws ->
                   Inv (with_rfs s ws (upd f rabsent (rfs s)))).
    { intros ws Hws Hndw. unfold with_rfs. apply inv_set; auto.
      - intros g Hne. rewrite Hws. tauto.
      - simpl. rewrite Hws. split; [tauto|intros (D & _); discriminate].
      - discriminate. }
    assert (Hsame : ~ In f (waiters s) -> Inv (with_rfs s (waiters s) (upd f rabsent (rfs s)))).
    { intros Hni. apply Hgen; auto. intros g. split; [|tauto]. intros Hin; split; auto. intro; subst; auto. }
    unfold step.
    destruct (r_hp (getr s f)) eqn:Ehp.
    + destruct (r_st (getr s f)) eqn:Est.
      * simpl. apply Hsame. intro Hin. apply Hex in Hin. destruct Hin as (_ & _ & D); congruence.
      * assert (Hin : In f (waiters s)) by (apply Hex; auto).
        apply memb_In in Hin. rewrite Hin. simpl.
        apply Hgen.
        -- intros g. apply In_remove.
        -- apply NoDup_remove; auto.
      * simpl. apply Hsame. intro Hin. apply Hex in Hin. destruct Hin as (_ & _ & D); congruence.
    + simpl. apply Hsame. intro Hin. apply Hex in Hin. destruct Hin as (_ & D & _). congruence.
  - (* DropSender *)
    unfold step.
    pose proof (inv_do_close (with_sr s false (receivers s) (pend_rclose s)) false) as J.
    destruct (do_close _ false) as [[s' n] wk]. apply J.
    apply (inv_view s); auto.
  - (* CloneReceiver *)
    simpl. apply (inv_view s); auto.
  - (* DropReceiverDec *)
    simpl. apply (inv_view s); auto.
  - (* DropReceiverClose *)
    unfold step.
    pose proof (inv_do_close (with_sr s (has_sender s) (receivers s) (pred (pend_rclose s))) false) as J.
    destruct (do_close _ false) as [[s' n] wk]. apply J.
    apply (inv_view s); auto.
  - (* Teardown *)
    simpl. constructor; cbn [waiters fulfilled value sent]; auto; unfold getr; cbn [rfs]; try congruence.
    + constructor.
    + intros g. rewrite nth_const_map. simpl. split; [intros []|intros (D & _); discriminate].
    + intros g. rewrite nth_const_map. discriminate.
    + intros g _. apply nth_const_map.
Qed.

Theorem reach_inv k b cnt s : Reach k b cnt s -> Inv s.
Proof. induction 1; [apply inv_init|apply inv_step; auto]. Qed.

(* ------------------------------------------------------------------ *)
(* fields no step rewrites *)
Local Ltac brk :=
  repeat match goal with
  | |- context [match ?c with _ => _ end] => destruct c eqn:?
  end.

Lemma step_flags s o :
  bcast (fst (step s o)) = bcast s /\ counted (fst (step s o)) = counted s /\
  (o <> Teardown -> gone (fst (step s o)) = gone s).
Proof.
  assert (C : forall s0 e, bcast (fst (fst (do_close s0 e))) = bcast s0 /\
                           counted (fst (fst (do_close s0 e))) = counted s0 /\
                           gone (fst (fst (do_close s0 e))) = gone s0).
  { intros s0 e. unfold do_close. brk; simpl; auto. }
  destruct o; unfold step;
    try (match goal with |- context [do_close ?s0 ?e] =>
           pose proof (C s0 e) as C0; destruct (do_close s0 e) as [[s' n] wk]; simpl in *; tauto end);
    brk; simpl; repeat split; auto; congruence.
Qed.

Lemma reach_flags k b cnt s : Reach k b cnt s -> bcast s = b /\ counted s = cnt.
Proof.
  induction 1 as [|s o Hr [IH1 IH2] Hl]; [split; reflexivity|].
  destruct (step_flags s o) as (E1 & E2 & _). split; congruence.
Qed.

(* ------------------------------------------------------------------ *)
(* C12, the parts that do not need the trace monitor *)
Theorem single_send : forall s v,
  o_res (snd (step s (Send v))) = if fulfilled s then [R_ERR; v] else [R_OK].
Proof.
  intros s v. unfold step. destruct (fulfilled s); [reflexivity|].
  destruct (wake_all (rfs s) (rev (waiters s)) []). reflexivity.
Qed.

Theorem queue_exact : forall k b cnt s,
  Reach k b cnt s ->
  NoDup (waiters s) /\
  (forall f, In f (waiters s) <-> (r_alive (getr s f) = true /\ r_hp (getr s f) = true /\ r_st (getr s f) = RReg)) /\
  (forall f, r_alive (getr s f) = true -> r_st (getr s f) <> RNotified) /\
  (fulfilled s = true -> waiters s = []).
Proof.
  intros k b cnt s Hr. destruct (reach_inv k b cnt s Hr) as [Hnd Hex Hful Hfut Hdead Hval Hsent].
  split; [auto|split; [exact Hex|split; [|exact Hful]]].
  intros f Ha. apply (ro_notn _ _ (Hfut f Ha)).
Qed.

Theorem wakes_all : forall k b cnt s o,
  Reach k b cnt s -> fulfilled s = false -> legal s o = true ->
  (o = Close \/ exists v, o = Send v) ->
  let s' := fst (step s o) in
  waiters s' = [] /\ fulfilled s' = true /\
  o_wake (snd (step s o)) =
    map (fun f => match r_lastw (getr s f) with Some w => nN w | None => 0%N end) (rev (waiters s)) /\
  (forall f, In f (waiters s) -> r_woken (getr s' f) = true /\ r_st (getr s' f) = RUnreg).
Proof.
  intros k b cnt s o Hr Ef _ Ho.
  pose proof (reach_inv k b cnt s Hr) as I.
  pose proof (drain_spec s I) as W.
  destruct Ho as [->|[v ->]]; unfold step, do_close; rewrite Ef;
    destruct (wake_all (rfs s) (rev (waiters s)) []) as [fs' wk];
    destruct W as (Wlen & Wwk & Wg); cbn [fst snd waiters fulfilled mk_obs o_wake];
    (split; [reflexivity|split; [reflexivity|split; [exact Wwk|]]]);
    intros f Hin; unfold getr; cbn [rfs]; rewrite Wg;
    apply memb_In in Hin; rewrite Hin; split; reflexivity.
Qed.

(* ------------------------------------------------------------------ *)
(* C11 (oneshot flavours) *)
Theorem close_status : forall s,
  o_res (snd (step s Close)) = [Rbool (negb (fulfilled s))] /\ fulfilled (fst (step s Close)) = true.
Proof.
  intros s. unfold step, do_close. destruct (fulfilled s) eqn:Ef.
  - simpl. auto.
  - destruct (wake_all (rfs s) (rev (waiters s)) []). simpl. auto.
Qed.

Theorem closed_monotone : forall s o,
  fulfilled s = true -> fulfilled (fst (step s o)) = true.
Proof.
  intros s o Ef. destruct o; unfold step, do_close; cbn [fulfilled with_sr]; rewrite ?Ef; brk; simpl; auto.
Qed.

(* handle bookkeeping of the shared flavour with counted receiver handles *)
Record HInv (s : state) : Prop := {
  h_pr0 : pend_rclose s > 0 -> receivers s = 0;
  h_pr1 : pend_rclose s <= 1;
  h_snd : has_sender s = false -> fulfilled s = true;
  h_rcv : receivers s = 0 -> pend_rclose s = 0 -> fulfilled s = true;
  h_impl : explicit s = false -> sent s = false -> fulfilled s = true ->
           has_sender s = false \/ receivers s = 0
}.

Definition HOk (s : state) : Prop := counted s = true -> gone s = false -> HInv s.

Definition hview (s : state) :=
  (fulfilled s, has_sender s, receivers s, pend_rclose s, (counted s, sent s, explicit s, gone s)).

Lemma hok_view s s' : hview s' = hview s -> HOk s -> HOk s'.
Proof.
  unfold hview. intros E. inv E. intros H Hc Hg.
  destruct H as [A B C D F]; try congruence.
  constructor; rewrite ?H0, ?H1, ?H2, ?H3, ?H5, ?H6; auto.
Qed.

Lemma frame_view s o :
  match o with CreateRecv _ | PollRecv _ _ | DropRecv _ => True | _ => False end ->
  hview (fst (step s o)) = hview s.
Proof.
  destruct o; try (intros []; fail); intros _; unfold step, hview; brk; simpl; congruence.
Qed.

Lemma hok_step s o : HOk s -> legal s o = true -> HOk (fst (step s o)).
Proof.
  intros H Hl.
  destruct o as [v| |f|f w|f| | | | |]; try (apply (hok_view s); [apply frame_view; exact I|exact H]);
    unfold legal in Hl; bool_hyps; intros Hc Hg; unfold step, do_close in *.
  - (* Send *)
    destruct (fulfilled s) eqn:Ef; [destruct (H Hc Hg); constructor; auto|].
    destruct (wake_all (rfs s) (rev (waiters s)) []) as [fs' wk]. simpl in *.
    destruct (H Hc Hg) as [A B C D F]. constructor; simpl; auto. discriminate.
  - (* Close *)
    destruct (fulfilled s) eqn:Ef; [destruct (H Hc Hg); constructor; auto|].
    destruct (wake_all (rfs s) (rev (waiters s)) []) as [fs' wk]. simpl in *.
    destruct (H Hc Hg) as [A B C D F]. constructor; simpl; auto.
    rewrite orb_true_r. discriminate.
  - (* DropSender *)
    cbn [fulfilled with_sr] in *.
    destruct (fulfilled s) eqn:Ef; simpl in *.
    + destruct (H Hc Hg) as [A B C D F]. constructor; simpl; auto.
    + destruct (wake_all (rfs s) (rev (waiters s)) []) as [fs' wk]. simpl in *.
      destruct (H Hc Hg) as [A B C D F]. constructor; simpl; auto.
  - (* CloneReceiver *)
    simpl in *. destruct (H Hc Hg) as [A B C D F]. constructor; simpl; auto; try lia.
    intros E1 E2 E3. destruct (F E1 E2 E3); auto. lia.
  - (* DropReceiverDec *)
    simpl in *. rewrite Hc in *. simpl in *. destruct (H Hc Hg) as [A B C D F].
    assert (P0 : pend_rclose s = 0) by lia.
    destruct (Nat.eqb_spec (receivers s) 1) as [E|E]; constructor; simpl; auto; try lia;
      intros E1 E2 E3; destruct (F E1 E2 E3); auto; lia.
  - (* DropReceiverClose *)
    cbn [fulfilled with_sr] in *.
    destruct (fulfilled s) eqn:Ef; simpl in *.
    + destruct (H Hc Hg) as [A B C D F].
      assert (P1 : pend_rclose s = 1) by lia. assert (R0 : receivers s = 0) by lia.
      constructor; simpl; auto; lia.
    + destruct (wake_all (rfs s) (rev (waiters s)) []) as [fs' wk]. simpl in *.
      destruct (H Hc Hg) as [A B C D F].
      assert (P1 : pend_rclose s = 1) by lia. assert (R0 : receivers s = 0) by lia.
      constructor; simpl; auto; lia.
  - (* Teardown *)
    simpl in Hg. discriminate.
Qed.

Lemma reach_hok k b cnt s : Reach k b cnt s -> HOk s.
Proof.
  induction 1; [|apply hok_step; auto].
  intros _ _. constructor; simpl; auto; try lia; discriminate.
Qed.

Theorem implicit_close : forall k b s,
  Reach k b true s -> explicit s = false -> sent s = false -> gone s = false ->
  (fulfilled s = true -> has_sender s = false \/ receivers s = 0) /\
  (has_sender s = false -> fulfilled s = true) /\
  (receivers s = 0 -> pend_rclose s = 0 -> fulfilled s = true).
Proof.
  intros k b s Hr He Hs Hg.
  destruct (reach_flags k b true s Hr) as [_ Hc].
  destruct (reach_hok k b true s Hr Hc Hg) as [A B C D F]. auto.
Qed.

Theorem refuted_pinned :
  exists s, Reach 1 true false s /\ explicit s = false /\ sent s = false /\ gone s = false /\
            fulfilled s = true /\ has_sender s = true /\ receivers s = 1.
Proof.
  exists (run (init 1 true false) [CloneReceiver; DropReceiverDec; DropReceiverClose]).
  split; [|vm_compute; repeat split; reflexivity].
  apply reach_run. vm_compute. repeat split; reflexivity.
Qed.

(* ------------------------------------------------------------------ *)
(* C12: the trace monitor [oneshot_ok] against the model state *)
Definition pnone : option N * bool := (None, false).

(* what the monitor knows about one receive slot *)
Definition pend_of (x : rfut) : option N * bool :=
  if (r_alive x && r_hp x)%bool then
    match r_lastw x with
    | Some w => (Some (nN w), match r_st x with RReg => false | _ => true end)
    | None => pnone
    end
  else pnone.

Definition mon_pre (is_bcast : bool) (m : omon) (o : op) (ob : obs) : omon :=
  match o with
  | Send v =>
      if o_done m
      then mkOmon (o_sent m) (o_done m) (o_taken m) (o_pend m)
                  (o_good m && res_is R_ERR ob && N.eqb (res_arg ob) v)
      else mkOmon (Some v) (o_done m) (o_taken m) (o_pend m) (o_good m && res_is R_OK ob)
  | CreateRecv f | DropRecv f =>
      mkOmon (o_sent m) (o_done m) (o_taken m) (upd f (None, false) (o_pend m)) (o_good m)
  | PollRecv f w =>
      if res_is R_PENDING ob then
        mkOmon (o_sent m) (o_done m) (o_taken m) (upd f (Some (nN w), false) (o_pend m))
               (o_good m && negb (o_done m))
      else if res_is R_SOME ob then
        mkOmon (o_sent m) (o_done m) true (upd f (None, false) (o_pend m))
               (o_good m && match o_sent m with Some v => N.eqb v (res_arg ob) | None => false end
                && (is_bcast || negb (o_taken m)))
      else if res_is R_NONE ob then
        mkOmon (o_sent m) (o_done m) (o_taken m) (upd f (None, false) (o_pend m))
               (o_good m && o_done m &&
                match o_sent m with None => true | Some _ => negb is_bcast && o_taken m end)
      else m
  | _ => m
  end.

Definition all_woken (pend : list (option N * bool)) : bool :=
  forallb (fun x => match x with (Some _, false) => false | _ => true end) pend.

Definition mon_post (o : op) (ob : obs) (m1 : omon) : omon :=
  let done' := negb (N.eqb (hd 0%N (o_probe ob)) 0) in
  let pend := map (om_wake (o_wake ob)) (o_pend m1) in
  match o with
  | Teardown => mkOmon (o_sent m1) done' (o_taken m1) pend (o_good m1)
  | _ => mkOmon (o_sent m1) done' (o_taken m1) pend (o_good m1 && (negb done' || all_woken pend))
  end.

Lemma omon_step_eq b m o ob : omon_step b m (o, ob) = mon_post o ob (mon_pre b m o ob).
Proof. reflexivity. Qed.

Lemma pre_pending b m f w s wk vals :
  mon_pre b m (PollRecv f w) (mk_obs s [R_PENDING] wk vals) =
  mkOmon (o_sent m) (o_done m) (o_taken m) (upd f (Some (nN w), false) (o_pend m))
         (o_good m && negb (o_done m)).
Proof. reflexivity. Qed.

Lemma pre_some b m f w s v wk vals :
  mon_pre b m (PollRecv f w) (mk_obs s [R_SOME; v] wk vals) =
  mkOmon (o_sent m) (o_done m) true (upd f pnone (o_pend m))
         (o_good m && match o_sent m with Some v' => N.eqb v' v | None => false end
          && (b || negb (o_taken m))).
Proof. reflexivity. Qed.

Lemma pre_none b m f w s wk vals :
  mon_pre b m (PollRecv f w) (mk_obs s [R_NONE] wk vals) =
  mkOmon (o_sent m) (o_done m) (o_taken m) (upd f pnone (o_pend m))
         (o_good m && o_done m &&
          match o_sent m with None => true | Some _ => negb b && o_taken m end).
Proof. reflexivity. Qed.

Lemma pre_send_err b m v s wk vals :
  o_done m = true ->
  mon_pre b m (Send v) (mk_obs s [R_ERR; v] wk vals) =
  mkOmon (o_sent m) (o_done m) (o_taken m) (o_pend m) (o_good m).
Proof.
  intros E. unfold mon_pre. rewrite E.
  change (res_is R_ERR (mk_obs s [R_ERR; v] wk vals)) with true.
  change (res_arg (mk_obs s [R_ERR; v] wk vals)) with v.
  rewrite N.eqb_refl, !andb_true_r. reflexivity.
Qed.

Lemma pre_send_ok b m v s wk vals :
  o_done m = false ->
  mon_pre b m (Send v) (mk_obs s [R_OK] wk vals) =
  mkOmon (Some v) (o_done m) (o_taken m) (o_pend m) (o_good m).
Proof.
  intros E. unfold mon_pre. rewrite E.
  change (res_is R_OK (mk_obs s [R_OK] wk vals)) with true.
  rewrite andb_true_r. reflexivity.
Qed.

(* value part of the link *)
Record VLink (b : bool) (s : state) (m : omon) : Prop := {
  vl_unf : fulfilled s = false -> o_sent m = None /\ o_taken m = false;
  vl_val : forall v, value s = Some v -> o_sent m = Some v /\ (b = false -> o_taken m = false);
  vl_none : value s = None -> o_sent m <> None -> b = false /\ o_taken m = true
}.

(* receive-slot part of the link *)
Record PLink (s : state) (P : list (option N * bool)) : Prop := {
  pl_len : length P = length (rfs s);
  pl_nth : forall f, nth f P pnone = pend_of (getr s f)
}.

Record Link (b : bool) (s : state) (m : omon) : Prop := {
  lk_done : o_done m = fulfilled s;
  lk_v : VLink b s m;
  lk_p : PLink s (o_pend m)
}.

Lemma vlink_view b s s' m m' :
  fulfilled s' = fulfilled s -> value s' = value s -> o_sent m' = o_sent m -> o_taken m' = o_taken m ->
  VLink b s m -> VLink b s' m'.
Proof. intros E1 E2 E3 E4 [A B C]. constructor; rewrite ?E1, ?E2, ?E3, ?E4; auto. Qed.

Lemma plink_view s s' P : rfs s' = rfs s -> PLink s P -> PLink s' P.
Proof. intros E [A B]. constructor; unfold getr in *; rewrite ?E; auto. Qed.

Lemma link_view b s s' m :
  fulfilled s' = fulfilled s -> value s' = value s -> rfs s' = rfs s -> Link b s m -> Link b s' m.
Proof.
  intros E1 E2 E3 [A B C]. constructor.
  - congruence.
  - apply (vlink_view b s s' m m); auto.
  - apply (plink_view s); auto.
Qed.

Lemma plink_set s s' f x' P y :
  PLink s P -> f < length (rfs s) -> y = pend_of x' -> rfs s' = upd f x' (rfs s) ->
  PLink s' (upd f y P).
Proof.
  intros [A B] Hlt -> E. constructor.
  - rewrite E, !upd_length. auto.
  - intros g. unfold getr. rewrite E.
    assert (Hlt' : f < length P) by lia.
    destruct (nth_upd_cases (rfs s) f g x' rabsent Hlt) as [[-> E1]|[Hne E1]]; rewrite E1.
    + apply nth_upd_same. auto.
    + rewrite nth_upd_other by auto. apply B.
Qed.

Lemma om_wake_nil x : om_wake [] x = x.
Proof. destruct x as [[w|] c]; simpl; auto. rewrite orb_false_r. auto. Qed.

Lemma map_om_wake_nil P : map (om_wake (map nN [])) P = P.
Proof. induction P as [|x r IH]; simpl; auto. rewrite om_wake_nil. simpl in IH. rewrite IH. auto. Qed.

Lemma nth_map_om_wake wl P g : nth g (map (om_wake wl) P) pnone = om_wake wl (nth g P pnone).
Proof. change pnone with (om_wake wl pnone) at 1. apply map_nth. Qed.

(* the drain loop marks every pending slot as woken *)
Lemma plink_drain s s' P fs' wk :
  Inv s -> PLink s P ->
  length fs' = length (rfs s) ->
  map nN wk = map (lastw_of s) (rev (waiters s)) ->
  (forall g, nth g fs' rabsent = if memb g (waiters s) then drained (getr s g) else getr s g) ->
  rfs s' = fs' ->
  PLink s' (map (om_wake (map nN wk)) P).
Proof.
  intros [Hnd Hex Hful Hfut Hdead Hval Hsent] [A B] Hlen Hwk Hg E. constructor.
  - rewrite map_length, E. congruence.
  - intros g. rewrite nth_map_om_wake, B. unfold getr at 2. rewrite E, Hg.
    destruct (memb g (waiters s)) eqn:Em.
    + apply memb_In in Em. pose proof Em as Hin. apply Hex in Em. destruct Em as (Ha & Hh & Hr).
      destruct (Hfut g Ha) as [R _ _]. destruct (R Hr) as (_ & P1 & P2 & _).
      unfold pend_of, drained. simpl. rewrite Ha, Hh, Hr. simpl.
      destruct (r_lastw (getr s g)) as [w|] eqn:El; [|congruence]. simpl.
      f_equal. unfold memN. apply existsb_exists. exists (nN w). split; [|apply N.eqb_refl].
      rewrite Hwk. apply in_map_iff. exists g. split.
      * unfold lastw_of. rewrite El. auto.
      * apply -> in_rev. auto.
    + apply memb_false in Em. unfold pend_of.
      destruct (r_alive (getr s g) && r_hp (getr s g))%bool eqn:Eb; [|reflexivity].
      destruct (r_lastw (getr s g)) as [w|]; [|reflexivity].
      destruct (r_st (getr s g)) eqn:Est; try reflexivity.
      exfalso. apply Em. apply Hex. bool_hyps. auto.
Qed.

Lemma all_woken_closed s P : Inv s -> PLink s P -> fulfilled s = true -> all_woken P = true.
Proof.
  intros [Hnd Hex Hful Hfut Hdead Hval Hsent] [A B] Ef.
  unfold all_woken. apply forallb_forall. intros x Hin.
  destruct (In_nth P x pnone Hin) as (n & Hn & En). rewrite B in En. subst x.
  unfold pend_of.
  destruct (r_alive (getr s n) && r_hp (getr s n))%bool eqn:Eb; [|reflexivity].
  destruct (r_lastw (getr s n)) as [w|]; [|reflexivity].
  destruct (r_st (getr s n)) eqn:Est; try reflexivity.
  exfalso. bool_hyps. assert (Hi : In n (waiters s)) by (apply Hex; auto).
  rewrite (Hful Ef) in Hi. destruct Hi.
Qed.

Lemma done_mk s r wk vals :
  negb (N.eqb (hd 0%N (o_probe (mk_obs s r wk vals))) 0) = fulfilled s.
Proof. simpl. destruct (fulfilled s); reflexivity. Qed.

Lemma post_link b s' m1 o r wk vals (g0 : bool) :
  o <> Teardown -> Inv s' -> VLink b s' m1 -> PLink s' (map (om_wake (map nN wk)) (o_pend m1)) ->
  (g0 = true -> o_good m1 = true) ->
  Link b s' (mon_post o (mk_obs s' r wk vals) m1) /\
  (g0 = true -> o_good (mon_post o (mk_obs s' r wk vals) m1) = true).
Proof.
  intros Ho I V Pl Hg.
  assert (E : mon_post o (mk_obs s' r wk vals) m1 =
              mkOmon (o_sent m1) (fulfilled s') (o_taken m1) (map (om_wake (map nN wk)) (o_pend m1))
                     (o_good m1 && (negb (fulfilled s') || all_woken (map (om_wake (map nN wk)) (o_pend m1))))).
  { unfold mon_post. rewrite done_mk. destruct o; try congruence; reflexivity. }
  rewrite E. split.
  - constructor; cbn [o_done o_pend]; auto.
    apply (vlink_view b s' s' m1); auto.
  - intros G. cbn [o_good]. rewrite (Hg G). simpl.
    destruct (fulfilled s') eqn:Ef; [|reflexivity]. simpl.
    apply (all_woken_closed s'); auto.
Qed.

Lemma link_do_close b s e m o :
  (forall ob, mon_pre b m o ob = m) -> o <> Teardown ->
  Inv s -> Link b s m ->
  Link b (fst (fst (do_close s e)))
       (mon_post o (mk_obs (fst (fst (do_close s e))) [Rbool (snd (fst (do_close s e)))] (snd (do_close s e)) []) m) /\
  (o_good m = true ->
   o_good (mon_post o (mk_obs (fst (fst (do_close s e))) [Rbool (snd (fst (do_close s e)))] (snd (do_close s e)) []) m) = true).
Proof.
  intros _ Ho I [Ld Lv Lp]. pose proof (inv_do_close s e I) as I'. unfold do_close in *.
  destruct (fulfilled s) eqn:Ef.
  - cbn [fst snd] in *. apply post_link; auto.
    rewrite map_om_wake_nil. auto.
  - pose proof (drain_spec s I) as W.
    destruct (wake_all (rfs s) (rev (waiters s)) []) as [fs' wk].
    destruct W as (Wlen & Wwk & Wg). cbn [fst snd] in *.
    apply post_link; auto.
    + destruct Lv as [A B C]. constructor; cbn [fulfilled value]; auto; discriminate.
    + apply (plink_drain s _ _ fs' wk); auto.
Qed.

Lemma link_step b s m o :
  Inv s -> bcast s = b -> legal s o = true -> o <> Teardown -> Link b s m ->
  Link b (fst (step s o)) (omon_step b m (o, snd (step s o))) /\
  (o_good m = true -> o_good (omon_step b m (o, snd (step s o))) = true).
Proof.
  intros I Eb Hl Ho L. pose proof (inv_step s o I Hl) as I'.
  pose proof I as [Hnd Hex Hful Hfut Hdead Hval Hsent].
  pose proof L as [Ld Lv Lp].
  rewrite omon_step_eq.
  destruct o as [v| |f|f w|f| | | | |]; unfold legal in Hl; bool_hyps; try congruence.
  - (* Send *)
    unfold step in *. destruct (fulfilled s) eqn:Ef.
    + cbn [fst snd] in *. rewrite pre_send_err by congruence.
      apply post_link; auto.
      * apply (vlink_view b s s m); auto.
      * rewrite map_om_wake_nil. auto.
    + pose proof (drain_spec s I) as W.
      destruct (wake_all (rfs s) (rev (waiters s)) []) as [fs' wk].
      destruct W as (Wlen & Wwk & Wg). cbn [fst snd] in *.
      rewrite pre_send_ok by congruence.
      apply post_link; auto.
      * destruct Lv as [A B C]. destruct (A Ef) as [A1 A2].
        constructor; cbn [fulfilled value o_sent o_taken]; try discriminate.
        intros v0 E. inv E. auto.
      * apply (plink_drain s _ _ fs' wk); auto.
  - (* Close *)
    unfold step in *. pose proof (link_do_close b s true m Close (fun _ => eq_refl) Ho I L) as J.
    destruct (do_close s true) as [[s' n] wk]. exact J.
  - (* CreateRecv *)
    cbn [step fst snd mon_pre] in *.
    apply post_link; auto.
    + apply (vlink_view b s _ m); auto.
    + rewrite map_om_wake_nil. cbn [o_pend].
      apply (plink_set s _ f (mkR true true RUnreg None false None)); auto.
  - (* PollRecv *)
    pose proof (alive_lt s f H0) as Hlt.
    pose proof (Hfut f H0) as [Fr Fn Fh].
    unfold step in *. rewrite H1 in *. simpl negb in *. cbv iota in *.
    destruct (r_st (getr s f)) eqn:Est.
    + destruct (value s) as [v|] eqn:Ev.
      * (* the value *)
        destruct (Hval ltac:(congruence)) as [Ef Es].
        cbn [fst snd] in *. rewrite pre_some.
        destruct Lv as [A B C]. destruct (B v Ev) as [B1 B2].
        apply post_link; auto.
        -- constructor; cbn [fulfilled value o_sent o_taken].
           ++ congruence.
           ++ rewrite Eb. destruct b; intros v0 E; inv E. split; auto; discriminate.
           ++ rewrite Eb. destruct b; [discriminate|auto].
        -- rewrite map_om_wake_nil. cbn [o_pend].
           apply (plink_set s _ f (mkR true false RUnreg (r_task (getr s f)) false (Some w))); auto.
        -- intros G. cbn [o_good]. rewrite G, B1, N.eqb_refl. simpl.
           destruct b; auto. rewrite B2; auto.
      * destruct (fulfilled s) eqn:Ef.
        -- (* None *)
           cbn [fst snd] in *. rewrite pre_none.
           apply post_link; auto.
           ++ apply (vlink_view b s _ m); auto.
           ++ rewrite map_om_wake_nil. cbn [o_pend].
              apply (plink_set s _ f (mkR true false RUnreg (r_task (getr s f)) false (Some w))); auto.
           ++ intros G. cbn [o_good]. rewrite G, Ld. simpl.
              destruct (o_sent m) as [v0|] eqn:E0; auto.
              destruct Lv as [A B C]. destruct C as [C1 C2]; auto; [congruence|].
              rewrite C1, C2. reflexivity.
        -- assert (Hni : ~ In f (waiters s)).
           { intro Hin. apply Hex in Hin. destruct Hin as (_ & _ & D). congruence. }
           apply memb_false in Hni. rewrite Hni in *.
           cbn [fst snd] in *. rewrite pre_pending.
           apply post_link; auto.
           ++ apply (vlink_view b s _ m); auto.
           ++ rewrite map_om_wake_nil. cbn [o_pend].
              apply (plink_set s _ f (mkR true true RReg (Some w) false (Some w))); auto.
           ++ intros G. cbn [o_good]. rewrite G, Ld. reflexivity.
    + (* RReg *)
      destruct (Fr eq_refl) as (P1 & P2 & P3 & P4).
      cbn [fst snd] in *. rewrite pre_pending.
      apply post_link; auto.
      * apply (vlink_view b s _ m); auto.
      * rewrite map_om_wake_nil. cbn [o_pend].
        apply (plink_set s _ f (mkR true true RReg (Some w) false (Some w))); auto.
      * intros G. cbn [o_good]. rewrite G, Ld, P4. reflexivity.
    + congruence.
  - (* DropRecv *)
    pose proof (alive_lt s f H0) as Hlt.
    assert (Hgen : forall ws, Inv (with_rfs s ws (upd f rabsent (rfs s))) ->
       Link b (with_rfs s ws (upd f rabsent (rfs s)))
            (mon_post (DropRecv f) (mk_obs (with_rfs s ws (upd f rabsent (rfs s))) [R_UNIT] [] [])
               (mkOmon (o_sent m) (o_done m) (o_taken m) (upd f (None, false) (o_pend m)) (o_good m))) /\
       (o_good m = true ->
        o_good (mon_post (DropRecv f) (mk_obs (with_rfs s ws (upd f rabsent (rfs s))) [R_UNIT] [] [])
               (mkOmon (o_sent m) (o_done m) (o_taken m) (upd f (None, false) (o_pend m)) (o_good m))) = true)).
    { intros ws J. apply post_link; auto.
      - apply (vlink_view b s _ m); auto.
      - rewrite map_om_wake_nil. cbn [o_pend].
        apply (plink_set s _ f rabsent); auto. }
    unfold step in *.
    destruct (r_hp (getr s f)) eqn:Ehp; [|apply Hgen; exact I'].
    destruct (r_st (getr s f)) eqn:Est; try (apply Hgen; exact I').
    assert (Hin : In f (waiters s)) by (apply Hex; auto).
    apply memb_In in Hin. rewrite Hin in *. apply Hgen; exact I'.
  - (* DropSender *)
    unfold step in *.
    assert (L0 : Link b (with_sr s false (receivers s) (pend_rclose s)) m) by (apply (link_view b s); auto).
    assert (I0 : Inv (with_sr s false (receivers s) (pend_rclose s))) by (apply (inv_view s); auto).
    pose proof (link_do_close b _ false m DropSender (fun _ => eq_refl) Ho I0 L0) as J.
    destruct (do_close _ false) as [[s' n] wk]. exact J.
  - (* CloneReceiver *)
    cbn [step fst snd mon_pre] in *.
    apply post_link; auto.
    + apply (vlink_view b s _ m); auto.
    + rewrite map_om_wake_nil. apply (plink_view s); auto.
  - (* DropReceiverDec *)
    cbn [step fst snd mon_pre] in *.
    apply post_link; auto.
    + apply (vlink_view b s _ m); auto.
    + rewrite map_om_wake_nil. apply (plink_view s); auto.
  - (* DropReceiverClose *)
    unfold step in *.
    assert (L0 : Link b (with_sr s (has_sender s) (receivers s) (pred (pend_rclose s))) m)
      by (apply (link_view b s); auto).
    assert (I0 : Inv (with_sr s (has_sender s) (receivers s) (pred (pend_rclose s))))
      by (apply (inv_view s); auto).
    pose proof (link_do_close b _ false m DropReceiverClose (fun _ => eq_refl) Ho I0 L0) as J.
    destruct (do_close _ false) as [[s' n] wk]. exact J.
Qed.

Lemma link_init k b cnt : Link b (init k b cnt) (mkOmon None false false (repeat (None, false) k) true).
Proof.
  constructor; simpl; auto.
  - constructor; simpl; auto; try discriminate. congruence.
  - constructor; simpl.
    + rewrite !repeat_length. auto.
    + intros f. unfold getr; simpl. rewrite nth_repeat_rabsent.
      clear. revert f. induction k; intros [|f]; simpl; auto.
Qed.

Theorem protocol_holds : forall k b cnt ops,
  legal_run (init k b cnt) ops -> private_wakers ops ->
  oneshot_ok k b (trace (init k b cnt) ops) = true.
Proof.
  intros k b cnt ops Hl _. unfold oneshot_ok.
  assert (G : forall ops s m,
            Reach k b cnt s -> Link b s m -> o_good m = true -> legal_run s ops ->
            o_good (fold_left (omon_step b) (trace s ops) m) = true).
  { induction ops0 as [|o r IH]; cbn [trace fold_left legal_run]; intros s m Hr L Hg Hlr; auto.
    destruct Hlr as [H1 H2].
    assert (Hd : {o = Teardown} + {o <> Teardown}) by (destruct o; (left; reflexivity) || (right; discriminate)).
    destruct Hd as [->|Hne].
    - (* nothing is legal after the teardown *)
      destruct r as [|o' r'].
      + simpl. rewrite Hg. reflexivity.
      + destruct H2 as [H2 _]. unfold legal in H2. simpl in H2. discriminate.
    - destruct (reach_flags k b cnt s Hr) as [Eb _].
      destruct (link_step b s m o (reach_inv k b cnt s Hr) Eb H1 Hne L) as [L' Hg'].
      apply IH with (s := fst (step s o)); auto.
      apply reach_step; auto. }
  apply G; auto.
  - apply reach_init.
  - apply link_init.
Qed.
