(* Invariants and lemmas for L0/RingBuf.v *)
From FI Require Import Base RingBuf.

(* ------------------------------------------------------------------ *)
(* cyclic index arithmetic *)

Lemma mod_lt2 a c : a < 2 * c -> a mod c = if a <? c then a else a - c.
Proof.
  intros H. destruct (Nat.ltb_spec a c) as [Hlt|Hge].
  - apply Nat.mod_small; auto.
  - replace a with ((a - c) + 1 * c) at 1 by lia.
    rewrite Nat.mod_add by lia. apply Nat.mod_small. lia.
Qed.

Lemma mod_add0 c i : i < c -> (i + 0) mod c = i.
Proof. intros H. rewrite Nat.add_0_r. apply Nat.mod_small; auto. Qed.

Lemma next_mod c i : i < c -> (if S i =? c then 0 else S i) = (i + 1) mod c.
Proof.
  intros H. rewrite mod_lt2 by lia.
  destruct (Nat.eqb_spec (S i) c); destruct (Nat.ltb_spec (i + 1) c); lia.
Qed.

Lemma add_mod_next c i j : 0 < c -> ((i + 1) mod c + j) mod c = (i + S j) mod c.
Proof.
  intros H. rewrite Nat.add_mod_idemp_l by lia. f_equal. lia.
Qed.

Lemma mod_inj c i j1 j2 :
  i < c -> j1 < c -> j2 < c -> (i + j1) mod c = (i + j2) mod c -> j1 = j2.
Proof.
  intros Hi H1 H2. rewrite !mod_lt2 by lia.
  destruct (Nat.ltb_spec (i + j1) c); destruct (Nat.ltb_spec (i + j2) c); lia.
Qed.

Lemma mod_lt c a : 0 < c -> a mod c < c.
Proof. intros H. apply Nat.mod_upper_bound. lia. Qed.

Lemma next_idx_mod b i : i < b_cap b -> next_idx b i = (i + 1) mod (b_cap b).
Proof. intros H. unfold next_idx. apply next_mod; auto. Qed.

Lemma next_idx_lt b i : i < b_cap b -> next_idx b i < b_cap b.
Proof. intros H. rewrite next_idx_mod by auto. apply mod_lt. lia. Qed.

(* ------------------------------------------------------------------ *)
(* the cyclic window *)

Lemma window_S n b i :
  window (S n) b i =
  match nth i (b_slots b) None with
  | Some v => v :: window n b (next_idx b i)
  | None => window n b (next_idx b i)
  end.
Proof. reflexivity. Qed.

Lemma window_ext : forall n b b' i,
  b_cap b' = b_cap b -> b_slots b' = b_slots b -> window n b' i = window n b i.
Proof.
  induction n as [|n IH]; intros b b' i Hc Hs; auto.
  rewrite !window_S. rewrite Hs. unfold next_idx. rewrite Hc.
  rewrite (IH b b') by auto. reflexivity.
Qed.

Lemma window_snoc : forall n b i,
  i < b_cap b ->
  window (S n) b i =
  window n b i ++ match nth ((i + n) mod b_cap b) (b_slots b) None with
                  | Some v => [v] | None => [] end.
Proof.
  induction n as [|n IH]; intros b i Hi.
  - rewrite window_S. simpl window. rewrite mod_add0 by auto.
    destruct (nth i (b_slots b) None); reflexivity.
  - rewrite window_S. rewrite (IH b (next_idx b i)) by (apply next_idx_lt; auto).
    rewrite (window_S n b i).
    assert (E : (next_idx b i + n) mod b_cap b = (i + S n) mod b_cap b).
    { rewrite next_idx_mod by auto. apply add_mod_next. lia. }
    rewrite E.
    destruct (nth i (b_slots b) None); reflexivity.
Qed.

Lemma window_upd_out : forall n b b' i p y,
  b_cap b' = b_cap b -> b_slots b' = upd p y (b_slots b) ->
  i < b_cap b ->
  (forall j, j < n -> (i + j) mod b_cap b <> p) ->
  window n b' i = window n b i.
Proof.
  induction n as [|n IH]; intros b b' i p y Hc Hs Hi Hout; auto.
  rewrite !window_S. rewrite Hs.
  assert (Hip : p <> i).
  { intro; subst p. apply (Hout 0); [lia|]. apply mod_add0; auto. }
  rewrite nth_upd_other by auto.
  assert (Hn : next_idx b' i = next_idx b i) by (unfold next_idx; rewrite Hc; auto).
  rewrite Hn.
  rewrite (IH b b' (next_idx b i) p y); auto.
  - apply next_idx_lt; auto.
  - intros j Hj. rewrite next_idx_mod by auto. rewrite add_mod_next by lia.
    apply Hout. lia.
Qed.

Lemma window_length : forall n b i,
  i < b_cap b ->
  (forall j, j < n -> nth ((i + j) mod b_cap b) (b_slots b) None <> None) ->
  length (window n b i) = n.
Proof.
  induction n as [|n IH]; intros b i Hi Hin; auto.
  rewrite window_S.
  pose proof (Hin 0 ltac:(lia)) as H0. rewrite mod_add0 in H0 by auto.
  destruct (nth i (b_slots b) None); [|congruence].
  simpl. f_equal. apply IH.
  - apply next_idx_lt; auto.
  - intros j Hj. rewrite next_idx_mod by auto. rewrite add_mod_next by lia.
    apply Hin. lia.
Qed.

(* ------------------------------------------------------------------ *)
(* the ArrayBuf invariant *)

Definition arr_ok (c : nat) (b : rbuf) : Prop :=
  length (b_slots b) = c /\ b_size b <= c /\
  (0 < c -> b_recv b < c /\ b_send b < c /\ b_send b = (b_recv b + b_size b) mod c) /\
  (forall i, i < c -> (nth i (b_slots b) None <> None <->
                       exists j, j < b_size b /\ i = (b_recv b + j) mod c)).

Lemma nth_repeat_None (c i : nat) : nth i (repeat (@None tag) c) None = None.
Proof. revert i; induction c; intros [|i]; simpl; auto. Qed.

Lemma arr_ok_init k c : arr_ok c (binit k c).
Proof.
  unfold arr_ok; simpl. rewrite repeat_length. repeat split; try lia.
  - rewrite Nat.mod_small; lia.
  - rewrite nth_repeat_None. congruence.
  - intros (j & Hj & _). lia.
Qed.

Lemma arr_ok_window_init c b :
  arr_ok c b -> b_cap b = c ->
  forall j, j < b_size b -> nth ((b_recv b + j) mod b_cap b) (b_slots b) None <> None.
Proof.
  intros (Hlen & Hsz & Hidx & Hsl) Hc j Hj. rewrite Hc.
  assert (0 < c) by lia.
  apply Hsl; [apply mod_lt; auto|]. exists j; auto.
Qed.

Lemma arr_ok_length c b :
  arr_ok c b -> b_cap b = c -> length (window (b_size b) b (b_recv b)) = b_size b.
Proof.
  intros Hok Hc. destruct (Nat.eq_dec (b_size b) 0) as [E|E]; [rewrite E; reflexivity|].
  apply window_length.
  - destruct Hok as (_ & Hsz & Hidx & _). rewrite Hc. apply Hidx. lia.
  - apply (arr_ok_window_init c); auto.
Qed.

Lemma arr_push c b x :
  arr_ok c b -> b_cap b = c -> b_size b <> c ->
  let b' := set_array b (S (b_size b)) (b_recv b) (next_idx b (b_send b))
                      (upd (b_send b) (Some x) (b_slots b)) in
  arr_ok c b' /\ nth (b_send b) (b_slots b) None = None /\
  window (S (b_size b)) b' (b_recv b) = window (b_size b) b (b_recv b) ++ [x].
Proof.
  intros (Hlen & Hsz & Hidx & Hsl) Hc Hne b'.
  assert (Hlt : b_size b < c) by lia.
  assert (Hc0 : 0 < c) by lia.
  destruct (Hidx Hc0) as (Hr & Hs & Hsend).
  assert (Hout : forall j, j < b_size b -> (b_recv b + j) mod c <> b_send b).
  { intros j Hj E. rewrite Hsend in E. apply mod_inj in E; lia. }
  assert (Hnone : nth (b_send b) (b_slots b) None = None).
  { destruct (nth (b_send b) (b_slots b) None) eqn:E; auto.
    assert (Hx : nth (b_send b) (b_slots b) None <> None) by congruence.
    apply Hsl in Hx; auto. destruct Hx as (j & Hj & Hx).
    exfalso. apply (Hout j Hj). auto. }
  split; [|split]; auto.
  - unfold arr_ok, b'; simpl. rewrite upd_length.
    split; [auto|]. split; [lia|]. split.
    + intros _. split; [auto|].
      rewrite next_idx_mod by lia. rewrite Hc. split; [apply mod_lt; auto|].
      rewrite Hsend. rewrite Nat.add_mod_idemp_l by lia. f_equal. lia.
    + intros i Hi. destruct (Nat.eq_dec (b_send b) i) as [E|E].
      * subst i. rewrite nth_upd_same by lia. split; [|congruence].
        intros _. exists (b_size b). split; [lia|auto].
      * rewrite nth_upd_other by auto. rewrite (Hsl i Hi). split.
        -- intros (j & Hj & Hx). exists j. split; [lia|auto].
        -- intros (j & Hj & Hx). exists j. split; [|auto].
           destruct (Nat.eq_dec j (b_size b)) as [Ej|Ej]; [|lia].
           subst j. congruence.
  - rewrite window_snoc by (unfold b'; simpl; lia).
    unfold b' at 2 3; simpl b_cap; simpl b_slots. rewrite Hc, <- Hsend.
    rewrite nth_upd_same by lia.
    f_equal. apply (window_upd_out _ b b' _ (b_send b) (Some x)); auto; try lia.
    rewrite Hc. auto.
Qed.

Lemma arr_pop c b :
  arr_ok c b -> b_cap b = c -> b_size b <> 0 ->
  exists v, nth (b_recv b) (b_slots b) None = Some v /\
  let b' := set_array b (pred (b_size b)) (next_idx b (b_recv b)) (b_send b)
                      (upd (b_recv b) None (b_slots b)) in
  arr_ok c b' /\
  window (b_size b) b (b_recv b) = v :: window (pred (b_size b)) b' (next_idx b (b_recv b)).
Proof.
  intros (Hlen & Hsz & Hidx & Hsl) Hc Hne.
  assert (Hc0 : 0 < c) by lia.
  destruct (Hidx Hc0) as (Hr & Hs & Hsend).
  assert (Hinit : nth (b_recv b) (b_slots b) None <> None).
  { apply Hsl; auto. exists 0. split; [lia|]. symmetry. apply mod_add0; auto. }
  destruct (nth (b_recv b) (b_slots b) None) as [v|] eqn:Ev; [|congruence].
  exists v. split; auto. intros b'.
  assert (Hnext : next_idx b (b_recv b) = (b_recv b + 1) mod c).
  { rewrite next_idx_mod by lia. rewrite Hc. auto. }
  assert (Hout : forall j, j < pred (b_size b) -> (next_idx b (b_recv b) + j) mod c <> b_recv b).
  { intros j Hj E. rewrite Hnext, add_mod_next in E by auto.
    rewrite <- (mod_add0 c (b_recv b)) in E at 2 by auto.
    apply mod_inj in E; lia. }
  split.
  - unfold arr_ok, b'; simpl. rewrite upd_length.
    split; [auto|]. split; [lia|]. split.
    + intros _. split; [rewrite Hnext; apply mod_lt; auto|]. split; [auto|].
      rewrite Hnext, add_mod_next by auto. rewrite Hsend. f_equal. lia.
    + intros i Hi. destruct (Nat.eq_dec (b_recv b) i) as [E|E].
      * subst i. rewrite nth_upd_same by lia. split; [congruence|].
        intros (j & Hj & Hx). exfalso. apply (Hout j Hj). auto.
      * rewrite nth_upd_other by auto. rewrite (Hsl i Hi). split.
        -- intros (j & Hj & Hx). destruct j as [|j].
           ++ rewrite mod_add0 in Hx by auto. congruence.
           ++ exists j. split; [lia|]. rewrite Hnext, add_mod_next by auto. auto.
        -- intros (j & Hj & Hx). exists (S j). split; [lia|].
           rewrite Hnext, add_mod_next in Hx by auto. auto.
  - destruct (b_size b) as [|n] eqn:En; [congruence|]. simpl pred in *.
    rewrite window_S, Ev. f_equal. symmetry.
    apply (window_upd_out _ b b' _ (b_recv b) None); auto.
    + apply next_idx_lt; lia.
    + rewrite Hc. auto.
Qed.

Lemma drain_kind_cap : forall fuel b acc,
  b_kind (fst (fst (drain_array fuel b acc))) = b_kind b /\
  b_cap (fst (fst (drain_array fuel b acc))) = b_cap b.
Proof.
  induction fuel as [|fuel IH]; intros b acc; simpl; auto.
  destruct (b_size b =? 0); auto.
  destruct (nth (b_recv b) (b_slots b) None); auto.
  destruct (IH (set_array b (pred (b_size b)) (next_idx b (b_recv b)) (b_send b)
                          (upd (b_recv b) None (b_slots b))) (acc ++ [V_DROPPED; t])) as [A B].
  rewrite A, B. auto.
Qed.

Lemma drain_spec : forall fuel b acc,
  arr_ok (b_cap b) b -> b_size b < fuel ->
  snd (fst (drain_array fuel b acc)) =
    acc ++ flat_map (fun v => [V_DROPPED; v]) (window (b_size b) b (b_recv b)) /\
  snd (drain_array fuel b acc) = true.
Proof.
  induction fuel as [|fuel IH]; intros b acc Hok Hlt; [lia|].
  simpl drain_array.
  destruct (Nat.eqb_spec (b_size b) 0) as [E|E].
  - rewrite E. simpl. rewrite app_nil_r. auto.
  - destruct (arr_pop (b_cap b) b Hok eq_refl E) as (v & Ev & Hok' & Hw).
    rewrite Ev. rewrite Hw.
    set (b' := set_array b (pred (b_size b)) (next_idx b (b_recv b)) (b_send b)
                         (upd (b_recv b) None (b_slots b))) in *.
    destruct (IH b' (acc ++ [V_DROPPED; v])) as [A B].
    + exact Hok'.
    + unfold b'; simpl. lia.
    + rewrite A, B. split; auto.
      unfold b' at 1 3; simpl b_size; simpl b_recv. simpl flat_map.
      rewrite <- app_assoc. reflexivity.
Qed.

(* ------------------------------------------------------------------ *)
(* the invariant of reachable buffers *)

Definition inv (k : kind) (c : nat) (b : rbuf) : Prop :=
  b_dropped b = false ->
  b_kind b = k /\ b_cap b = c /\
  match k with
  | Array => arr_ok c b
  | _ => length (b_deque b) <= c
  end.

Lemma inv_init k c : inv k c (binit k c).
Proof.
  intros _. simpl. repeat split; auto.
  destruct k; simpl; try lia. apply arr_ok_init.
Qed.

Lemma legal_live b o : legal b o = true -> b_dropped b = false.
Proof. unfold legal. destruct (b_dropped b); simpl; auto. Qed.

Lemma legal_push b x : legal b (Push x) = true -> can_push b = true /\ len b <> b_cap b.
Proof.
  unfold legal. destruct (b_dropped b); simpl; try discriminate.
  intros H. split; auto. unfold can_push in H.
  destruct (Nat.eqb_spec (len b) (b_cap b)); simpl in H; congruence.
Qed.

Lemma legal_pop b : legal b Pop = true -> is_empty b = false /\ len b <> 0.
Proof.
  unfold legal. destruct (b_dropped b); simpl; try discriminate.
  unfold is_empty. destruct (Nat.eqb_spec (len b) 0); simpl; try discriminate. auto.
Qed.

Lemma step_dropbuf_dropped dbg b : b_dropped (fst (step dbg b DropBuf)) = true.
Proof.
  unfold step. destruct (b_kind b); auto.
  destruct (drain_array (S (b_size b)) b []) as [[b1 vals] ok]. reflexivity.
Qed.

Lemma inv_step dbg k c b o :
  inv k c b -> legal b o = true -> inv k c (fst (step dbg b o)).
Proof.
  intros Hinv Hl. pose proof (legal_live _ _ Hl) as Hd.
  destruct (Hinv Hd) as (Hk & Hc & Hrest).
  destruct o as [x| | |].
  - destruct (legal_push _ _ Hl) as [Hcp Hne].
    unfold step. rewrite Hcp. simpl negb. cbv iota.
    unfold len in Hne. rewrite Hk in *.
    destruct k; simpl; intros _; simpl; (split; [auto|split; [auto|]]).
    + apply arr_push; auto. lia.
    + rewrite app_length; simpl. lia.
    + rewrite app_length; simpl. lia.
  - destruct (legal_pop _ Hl) as [_ Hne].
    unfold step. unfold len in Hne. rewrite Hk in *.
    destruct k.
    + destruct (Nat.eqb_spec (b_size b) 0) as [E|E]; [congruence|].
      destruct (arr_pop c b Hrest Hc E) as (v & Ev & Hok & _).
      rewrite Ev. simpl. intros _. auto.
    + destruct (b_deque b) as [|v r] eqn:E; [simpl in Hne; congruence|].
      intros _. simpl in *. repeat split; auto. lia.
    + destruct (b_deque b) as [|v r] eqn:E; [simpl in Hne; congruence|].
      intros _. simpl in *. repeat split; auto. lia.
  - simpl. exact Hinv.
  - intros H. rewrite step_dropbuf_dropped in H. discriminate.
Qed.

Lemma reach_inv dbg k c b : Reach dbg k c b -> inv k c b.
Proof.
  induction 1 as [|b o _ IH Hl]; [apply inv_init|]. eapply inv_step; eauto.
Qed.

(* ------------------------------------------------------------------ *)
(* the C19 statements *)

Lemma refines_fifo : forall dbg k c b,
  Reach dbg k c b ->
  (forall x, legal b (Push x) = true ->
     abs (fst (step dbg b (Push x))) = abs b ++ [x] /\ o_res (snd (step dbg b (Push x))) = [R_UNIT]) /\
  (legal b Pop = true ->
     exists v rest, abs b = v :: rest /\ abs (fst (step dbg b Pop)) = rest /\
                    o_res (snd (step dbg b Pop)) = [R_SOME; v] /\
                    o_val (snd (step dbg b Pop)) = [V_DELIVERED; v]).
Proof.
  intros dbg k c b HR. apply reach_inv in HR. split.
  - intros x Hl. pose proof (legal_live _ _ Hl) as Hd.
    destruct (HR Hd) as (Hk & Hc & Hrest).
    destruct (legal_push _ _ Hl) as [Hcp Hne].
    unfold step. rewrite Hcp. simpl negb. cbv iota.
    unfold len in Hne. unfold abs. rewrite Hk in *.
    destruct k; simpl; rewrite ?Hk; auto.
    destruct (arr_push c b x Hrest Hc ltac:(lia)) as (_ & Hnone & Hw).
    rewrite Hnone. split; auto.
  - intros Hl. pose proof (legal_live _ _ Hl) as Hd.
    destruct (HR Hd) as (Hk & Hc & Hrest).
    destruct (legal_pop _ Hl) as [_ Hne].
    unfold step. unfold len in Hne. unfold abs. rewrite Hk in *.
    destruct k.
    + destruct (Nat.eqb_spec (b_size b) 0) as [E|E]; [congruence|].
      destruct (arr_pop c b Hrest Hc E) as (v & Ev & Hok & Hw).
      rewrite Ev. simpl. rewrite Hk. exists v. eexists. split; [exact Hw|]. auto.
    + destruct (b_deque b) as [|v r] eqn:E; [simpl in Hne; congruence|].
      simpl. rewrite Hk. exists v, r. auto.
    + destruct (b_deque b) as [|v r] eqn:E; [simpl in Hne; congruence|].
      simpl. rewrite Hk. exists v, r. auto.
Qed.

Lemma accessors : forall dbg k c b,
  Reach dbg k c b -> b_dropped b = false ->
  len b = length (abs b) /\ b_cap b = c /\ length (abs b) <= c /\
  is_empty b = Nat.eqb (length (abs b)) 0 /\
  can_push b = Nat.ltb (length (abs b)) c.
Proof.
  intros dbg k c b HR Hd. apply reach_inv in HR.
  destruct (HR Hd) as (Hk & Hc & Hrest).
  assert (Hlen : len b = length (abs b)).
  { unfold len, abs. rewrite Hk. destruct k; auto.
    symmetry. apply (arr_ok_length c); auto. }
  assert (Hle : len b <= c).
  { unfold len. rewrite Hk. destruct k; auto. destruct Hrest as (_ & H & _). auto. }
  unfold is_empty, can_push. rewrite Hc, <- Hlen.
  repeat split; auto.
  destruct (Nat.eqb_spec (len b) c); destruct (Nat.ltb_spec (len b) c); simpl; auto; lia.
Qed.

Lemma drop_exact : forall dbg k c b,
  Reach dbg k c b -> legal b DropBuf = true ->
  o_res (snd (step dbg b DropBuf)) = [R_UNIT] /\
  o_val (snd (step dbg b DropBuf)) = flat_map (fun v => [V_DROPPED; v]) (abs b).
Proof.
  intros dbg k c b HR Hl. apply reach_inv in HR.
  pose proof (legal_live _ _ Hl) as Hd.
  destruct (HR Hd) as (Hk & Hc & Hrest).
  unfold step, abs. rewrite Hk in *. destruct k; [|simpl; auto..].
  rewrite <- Hc in Hrest.
  destruct (drain_spec (S (b_size b)) b [] Hrest ltac:(lia)) as [A B].
  destruct (drain_array (S (b_size b)) b []) as [[b1 vals] ok].
  simpl in *. subst. auto.
Qed.

Lemma no_ub : forall dbg k c b o,
  Reach dbg k c b -> legal b o = true ->
  hd 0%N (o_res (snd (step dbg b o))) <> R_PANIC /\
  hd 0%N (o_res (snd (step dbg b o))) <> R_UB /\
  hd 0%N (o_res (snd (step dbg b o))) <> R_LEAK.
Proof.
  intros dbg k c b o HR Hl.
  destruct o as [x| | |].
  - destruct (refines_fifo dbg k c b HR) as [H _].
    destruct (H x Hl) as [_ E]. rewrite E. simpl. repeat split; discriminate.
  - destruct (refines_fifo dbg k c b HR) as [_ H].
    destruct (H Hl) as (v & rest & _ & _ & E & _). rewrite E. simpl. repeat split; discriminate.
  - simpl. repeat split; discriminate.
  - destruct (drop_exact dbg k c b HR Hl) as [E _]. rewrite E. simpl. repeat split; discriminate.
Qed.

Lemma array_indices : forall dbg c b,
  Reach dbg Array c b -> b_dropped b = false ->
  length (b_slots b) = c /\ b_size b <= c /\
  (0 < c -> b_recv b < c /\ b_send b < c /\ b_send b = (b_recv b + b_size b) mod c) /\
  (forall i, i < c -> (nth i (b_slots b) None <> None <->
                       exists j, j < b_size b /\ i = (b_recv b + j) mod c)).
Proof.
  intros dbg c b HR Hd. apply reach_inv in HR.
  destruct (HR Hd) as (_ & _ & Hok). exact Hok.
Qed.
