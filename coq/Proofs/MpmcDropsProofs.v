(* C08 on the encoded trace: the placement-of-destruction monitor [drops_placed_ok] holds for
   every contract-respecting run of whole calls with uniquely tagged values. *)
From FI Require Import Base Mpmc MpmcSpec MpmcProofs.

Local Ltac inv H := inversion H; subst; clear H.

Local Ltac bool_hyps :=
  repeat match goal with
  | H : (_ && _)%bool = true |- _ => apply andb_true_iff in H; destruct H
  | H : negb _ = true |- _ => apply negb_true_iff in H
  | H : negb _ = false |- _ => apply negb_false_iff in H
  | H : Nat.ltb _ _ = true |- _ => apply Nat.ltb_lt in H
  | H : Nat.eqb _ _ = true |- _ => apply Nat.eqb_eq in H
  | H : Nat.eqb _ _ = false |- _ => apply Nat.eqb_neq in H
  end.

Local Ltac projs :=
  cbn [closed cap buf recvq sendq rfs sfs senders receivers pend_sclose pend_rclose pend_clear explicit gone
       setr sets setbuf setcounts cnt_s cnt_r close_state teardown_state].

Local Ltac nlia := unfold tag in *; lia.

(* ------------------------------------------------------------------ *)
(* the encoded operation, as far as the monitor looks at it *)
Inductive lk := KCreate (f : nat) (v : N) | KDropSend (f : nat) | KCloneR | KDropR | KStream | KTeardown | KOther.

Definition kind (l : list N) : lk :=
  match l with
  | [0%N; f; v] => KCreate (N.to_nat f) v
  | [3%N; f] => KDropSend (N.to_nat f)
  | [13%N] => KCloneR
  | [16%N] => KDropR
  | [32%N; _] => KStream
  | [20%N] => KTeardown
  | _ => KOther
  end.

Definition okind (o : op) : lk :=
  match o with
  | CreateSend f v => KCreate f v
  | DropSend f => KDropSend f
  | CloneReceiver => KCloneR
  | Teardown => KTeardown
  | _ => KOther
  end.

Definition clearM (mvd : list N) (c : option N) : option N :=
  match c with
  | Some v => if memN v mvd then None else Some v
  | None => None
  end.

Definition droppedL (vals : list N) : list N :=
  map snd (filter (fun p => N.eqb (fst p) V_DROPPED) (pairs vals)).

Definition noneL (d : list N) : bool := match d with [] => true | _ => false end.

Definition dmon_k (shared : bool) (m : dmon) (k : lk) (ob : obs) : dmon :=
  let dropped := droppedL (o_val ob) in
  let carry1 := match k with KCreate f v => upd f (Some v) (d_carry m) | _ => d_carry m end in
  let recv1 := match k with
               | KCloneR => S (d_receivers m)
               | KDropR => pred (d_receivers m)
               | KStream => if shared then pred (d_receivers m) else d_receivers m
               | _ => d_receivers m
               end in
  let allowed :=
    match k with
    | KDropSend f => forallb (fun v => match nth f carry1 None with
                                       | Some v' => N.eqb v v' | None => false end) dropped
    | KDropR => noneL dropped || Nat.eqb recv1 0
    | KStream => noneL dropped || (shared && Nat.eqb recv1 0)
    | KTeardown => true
    | _ => noneL dropped
    end in
  mkDmon recv1 (map (clearM (moved (o_val ob))) carry1) (d_ok m && allowed).

(* case analysis of an encoded operation: list shape, and the code up to 6 bits *)
Local Ltac dpos a := destruct a as [|a]; [| do 6 (try destruct a as [a|a|]) ].
Local Ltac dlist l :=
  let a := fresh "a" in let b := fresh "b" in let c := fresh "c" in let d := fresh "d" in
  let r := fresh "r" in
  destruct l as [|a [|b [|c [|d r]]]]; try dpos a.

Lemma dmon_step_kind sh m l ob : dmon_step sh m (l, ob) = dmon_k sh m (kind l) ob.
Proof. dlist l; reflexivity. Qed.

Definition plainb (o : op) : bool :=
  match o with
  | DropSenderDec | DropSenderClose | DropReceiverDec | DropReceiverClose | DropReceiverClear => false
  | _ => true
  end.

Lemma decode_facts s l o : decode l = Some o ->
  kind l = okind o /\ mstep s l = step_c s o /\ mlegal s l = (plainb o && legal s o)%bool /\
  minjected [l] = injected [o].
Proof.
  unfold decode. intros H.
  repeat match type of H with
  | match ?x with _ => _ end = Some _ => destruct x; try discriminate H
  end.
  all: inv H; repeat split; reflexivity.
Qed.

Lemma decode_none s l : decode l = None -> mlegal s l = true -> l = [14%N] \/ l = [16%N].
Proof.
  dlist l; cbn; intros E H; try discriminate E; try discriminate H; auto.
Qed.

(* ------------------------------------------------------------------ *)
(* legal calls are callable; whole-call steps *)
Lemma legal_callable s o : legal s o = true -> callable s o = true.
Proof.
  intros H. unfold callable. pose proof H as H'. unfold legal in H'.
  apply andb_true_iff in H'. destruct H' as [Hg H']. rewrite Hg. cbn [andb].
  destruct o; try exact H; bool_hyps; auto.
Qed.

Lemma step_c_legal s o : legal s o = true -> step_c s o = step s o.
Proof. intros H. unfold step_c. rewrite (legal_callable _ _ H). reflexivity. Qed.

(* ------------------------------------------------------------------ *)
(* frame facts of one section: which send futures carry which value afterwards *)
Definition created (o : op) : option (fid * tag) :=
  match o with CreateSend f v => Some (f, v) | _ => None end.

Definition frameP (cr : option (fid * tag)) (s s' : state) : Prop :=
  forall g v, s_val (gets s' g) = Some v ->
    match cr with
    | Some (f, v0) => (g = f /\ v = v0) \/ (g <> f /\ s_val (gets s g) = Some v)
    | None => s_val (gets s g) = Some v
    end.

Lemma sfs_notify s : sfs (notify_st s) = sfs s.
Proof. unfold notify_st, notify_oldest_recv. destruct (olast (recvq s)); reflexivity. Qed.

Lemma sval_upd fs f y g v :
  s_val (nth g (upd f y fs) sabsent) = Some v ->
  (g = f /\ s_val y = Some v) \/ (g <> f /\ s_val (nth g fs sabsent) = Some v).
Proof.
  rewrite nth_upd. destruct (Nat.eqb_spec f g) as [->|Hne]; cbn [andb].
  - destruct (Nat.ltb g (length fs)) eqn:E; intros H; [left; auto|].
    apply Nat.ltb_ge in E. rewrite nth_overflow in H by auto. discriminate.
  - intros H. right. split; auto.
Qed.

Lemma sval_upd_none fs f y g v : s_val y = None \/ s_val y = s_val (nth f fs sabsent) ->
  s_val (nth g (upd f y fs) sabsent) = Some v -> s_val (nth g fs sabsent) = Some v.
Proof.
  intros Hy H. apply sval_upd in H. destruct H as [[-> H]|[_ H]]; auto.
  destruct Hy as [Hy|Hy]; congruence.
Qed.

Lemma rcv_sval s s1 ov : rcv_out s s1 ov ->
  length (sfs s1) = length (sfs s) /\
  forall g v, s_val (gets s1 g) = Some v -> s_val (gets s g) = Some v.
Proof.
  intros O. destruct O; unfold gets; projs; rewrite ?upd_length; split; auto;
    intros g0 v0 Hv; (eapply sval_upd_none; [|exact Hv]; left; reflexivity).
Qed.

Lemma close_if_sval s e : NoDup (sendq s) ->
  length (sfs (close_if s e)) = length (sfs s) /\
  forall g v, s_val (gets (close_if s e) g) = Some v -> s_val (gets s g) = Some v.
Proof.
  intros Hq. unfold close_if. destruct (closed s); [auto|].
  unfold gets, close_state; projs. rewrite resetS_length. split; auto.
  intros g v. assert (Hnd : NoDup (rev (sendq s))) by (apply NoDup_rev; auto).
  destruct (resetS_fields (rev (sendq s)) (sfs s) g Hnd) as [E _]. rewrite E. auto.
Qed.

Local Ltac fr :=
  split;
  [ rewrite ?sfs_notify; projs; rewrite ?upd_length; reflexivity
  | let g0 := fresh "g" in let v0 := fresh "v" in let Hv := fresh "Hv" in
    intros g0 v0; unfold gets; rewrite ?sfs_notify; projs; intros Hv; try exact Hv;
    (eapply sval_upd_none; [|exact Hv]; ((left; reflexivity) || (right; reflexivity))) ].

Lemma frame_out s o s' res vals : Inv s -> legal s o = true -> out s o s' res vals ->
  length (sfs s') = length (sfs s) /\ frameP (created o) s s'.
Proof.
  intros I Hl O. pose proof I as [IR IS IH]. unfold frameP.
  destruct O; cbn [created]; try solve [fr].
  - (* CreateSend *)
    split; [projs; apply upd_length|]. intros g v0. unfold gets; projs. intros Hv.
    apply sval_upd in Hv. destruct Hv as [[-> Hv]|[Hne Hv]]; [left|right; auto].
    cbn [s_fresh s_val] in Hv. inv Hv. auto.
  - (* PollRecv got *)
    destruct (rcv_sval _ _ _ H0) as [L F]. split; [projs; exact L|].
    intros g v0 Hv. apply F. exact Hv.
  - (* TryRecv got *)
    destruct (rcv_sval _ _ _ H) as [L F]. split; auto.
  - (* Close *) apply close_if_sval. apply (si_nd _ _ _ _ _ IS).
  - (* DropSenderClose *) apply (close_if_sval (cnt_s s (senders s) (pred (pend_sclose s))) false).
    projs. apply (si_nd _ _ _ _ _ IS).
  - (* DropReceiverClose *)
    apply (close_if_sval (cnt_r s (receivers s) (pred (pend_rclose s)) (S (pend_clear s))) false).
    projs. apply (si_nd _ _ _ _ _ IS).
  - (* Teardown *)
    split; [projs; apply map_length|]. intros g v. unfold gets; projs. rewrite nth_map_sabsent. discriminate.
Qed.

(* ------------------------------------------------------------------ *)
(* handle counts after one section *)
Lemma notify_counts s : gone (notify_st s) = gone s /\ receivers (notify_st s) = receivers s.
Proof. unfold notify_st, notify_oldest_recv. destruct (olast (recvq s)); split; reflexivity. Qed.

Lemma close_if_counts s e :
  gone (close_if s e) = gone s /\ receivers (close_if s e) = receivers s /\
  pend_clear (close_if s e) = pend_clear s.
Proof. unfold close_if. destruct (closed s); repeat split; reflexivity. Qed.

Lemma counts_out s o s' res vals : out s o s' res vals ->
  gone s' = (match o with Teardown => true | _ => gone s end) /\
  receivers s' = (match o with
                  | CloneReceiver => S (receivers s)
                  | DropReceiverDec => pred (receivers s)
                  | Teardown => 0
                  | _ => receivers s
                  end).
Proof.
  intros O.
  destruct O;
    repeat match goal with
    | |- context [notify_st ?x] => destruct (notify_counts x) as [-> ->]
    | |- context [close_if ?x ?e] => destruct (close_if_counts x e) as (-> & -> & _)
    end; projs; try (split; reflexivity).
  - destruct (rcv_frame _ _ _ H0) as (_ & _ & _ & _ & -> & _ & _ & -> & _). split; reflexivity.
  - destruct (rcv_frame _ _ _ H) as (_ & _ & _ & _ & -> & _ & _ & -> & _). split; reflexivity.
Qed.

Lemma counts_step s o : Inv s -> legal s o = true ->
  gone (fst (step s o)) = (match o with Teardown => true | _ => gone s end) /\
  receivers (fst (step s o)) = (match o with
                  | CloneReceiver => S (receivers s)
                  | DropReceiverDec => pred (receivers s)
                  | Teardown => 0
                  | _ => receivers s
                  end).
Proof. intros I Hl. eapply counts_out. apply step_out; auto. Qed.

Lemma oval_handle s o : Inv s -> legal s o = true ->
  match o with
  | DropSenderDec | DropSenderClose | DropReceiverDec | DropReceiverClose => o_val (snd (step s o)) = []
  | DropReceiverClear => o_val (snd (step s o)) = vals_of V_DROPPED (buf s)
  | _ => True
  end.
Proof.
  intros I Hl. destruct (step_out_ex s _ I Hl) as (s' & res & vals & _ & _ & E3 & O).
  rewrite E3. destruct O; auto.
Qed.

Lemma pend_clear_close s : Inv s -> legal s DropReceiverClose = true ->
  pend_clear (fst (step s DropReceiverClose)) = S (pend_clear s).
Proof.
  intros I Hl. destruct (step_out_ex s _ I Hl) as (s' & res & vals & E1 & _ & _ & O).
  rewrite E1. inversion O; subst.
  destruct (close_if_counts (cnt_r s (receivers s) (pred (pend_rclose s)) (S (pend_clear s))) false) as (_ & _ & ->).
  reflexivity.
Qed.

(* ------------------------------------------------------------------ *)
(* what a whole call does to the values in flight *)
Record Tr (s s' : state) (mv inj : list N) (cr : option (fid * tag)) : Prop := {
  tr_inv : Inv s';
  tr_len : length (sfs s') = length (sfs s);
  tr_flow : forall v, cnt v (in_flight s') + cnt v mv = cnt v (in_flight s) + cnt v inj;
  tr_frame : frameP cr s s'
}.

Lemma tr_step s o : Inv s -> legal s o = true ->
  Tr s (fst (step s o)) (moved (o_val (snd (step s o)))) (injected [o]) (created o).
Proof.
  intros I Hl. pose proof (step_out s o I Hl) as O.
  destruct (frame_out _ _ _ _ _ I Hl O) as [L F].
  constructor; auto.
  - apply inv_step; auto.
  - apply flow_step; auto.
Qed.

Lemma tr_seq s s1 s2 mv inj cr : Tr s s1 [] [] None -> Tr s1 s2 mv inj cr -> Tr s s2 mv inj cr.
Proof.
  intros [I1 L1 F1 R1] [I2 L2 F2 R2]. constructor; auto.
  - congruence.
  - intros v. specialize (F1 v). specialize (F2 v). rewrite cnt_nil in F1. lia.
  - unfold frameP in *. intros g v Hv. specialize (R2 g v Hv). destruct cr as [[f v0]|].
    + destruct R2 as [R2|[Hne R2]]; auto.
    + auto.
Qed.

Lemma nodup_tr s s' mv inj cr r : Tr s s' mv inj cr ->
  NoDup (in_flight s ++ inj ++ r) -> NoDup (in_flight s' ++ r).
Proof.
  intros T Hnd. rewrite nodup_cnt in *. intros v. specialize (Hnd v).
  rewrite !cnt_app in Hnd. rewrite cnt_app. pose proof (tr_flow _ _ _ _ _ T v). lia.
Qed.

(* ------------------------------------------------------------------ *)
(* the monitor state against the model state *)
Record MI (m : dmon) (s : state) : Prop := {
  mi_len : length (d_carry m) = length (sfs s);
  mi_carry : forall f v, s_val (gets s f) = Some v -> nth f (d_carry m) None = Some v;
  mi_recv : gone s = false -> d_receivers m = receivers s
}.

Definition carry1_of (cr : option (fid * tag)) (carry : list (option N)) : list (option N) :=
  match cr with Some (f, v) => upd f (Some v) carry | None => carry end.

Lemma carry_tr m s s' mv inj cr :
  Tr s s' mv inj cr -> NoDup (in_flight s ++ inj) ->
  length (d_carry m) = length (sfs s) ->
  (forall f v, s_val (gets s f) = Some v -> nth f (d_carry m) None = Some v) ->
  length (map (clearM mv) (carry1_of cr (d_carry m))) = length (sfs s') /\
  forall g v, s_val (gets s' g) = Some v ->
    nth g (map (clearM mv) (carry1_of cr (d_carry m))) None = Some v.
Proof.
  intros [I' L F R] Hnd Hlen Hc. split.
  - rewrite map_length. unfold carry1_of. destruct cr as [[f v]|]; rewrite ?upd_length; congruence.
  - intros g v Hv.
    change (@None N) with (clearM mv None) at 1. rewrite map_nth.
    assert (Hin : In v (in_flight s')).
    { rewrite in_flight_eq. apply in_or_app. right. eapply held_in_flight; eauto. }
    assert (Hnm : memN v mv = false).
    { apply memN_false. intros Hm. apply cnt_In in Hin. apply cnt_In in Hm.
      rewrite nodup_cnt in Hnd. specialize (Hnd v). rewrite cnt_app in Hnd. specialize (F v). lia. }
    assert (E : nth g (carry1_of cr (d_carry m)) None = Some v).
    { specialize (R g v Hv). unfold carry1_of. destruct cr as [[f v0]|].
      - destruct R as [[-> ->]|[Hne R]].
        + apply nth_upd_same. rewrite Hlen, <- L. destruct (val_alive s' f v0 I' Hv) as (_ & _ & _ & Hlt). exact Hlt.
        + rewrite nth_upd_other by auto. auto.
      - auto. }
    rewrite E. cbn [clearM]. rewrite Hnm. reflexivity.
Qed.

(* ------------------------------------------------------------------ *)
(* destroyed values of one observation *)
Lemma droppedL_In vals v : In v (droppedL vals) -> In (V_DROPPED, v) (pairs vals).
Proof.
  unfold droppedL. rewrite in_map_iff. intros [[k x] [E Hin]]. cbn [snd] in E. subst x.
  apply filter_In in Hin. destruct Hin as [Hin Hk]. cbn [fst] in Hk. apply N.eqb_eq in Hk. subst k. exact Hin.
Qed.

Lemma droppedL_none vals : (forall v, ~ In (V_DROPPED, v) (pairs vals)) -> noneL (droppedL vals) = true.
Proof.
  intros H. destruct (droppedL vals) as [|x r] eqn:E; [reflexivity|].
  exfalso. apply (H x). apply droppedL_In. rewrite E. left. reflexivity.
Qed.

(* whole drop of a sender handle *)
Lemma drop_sender_tr kr ks c s : Reach kr ks c s -> legal s DropSenderDec = true ->
  Reach kr ks c (fst (drop_sender s)) /\ Tr s (fst (drop_sender s)) [] [] None /\
  o_val (snd (drop_sender s)) = [] /\
  gone (fst (drop_sender s)) = gone s /\ receivers (fst (drop_sender s)) = receivers s.
Proof.
  intros R Hl. pose proof (reach_inv _ _ _ _ R) as I.
  pose proof (reach_step _ _ _ _ _ R Hl) as R1.
  pose proof (tr_step _ _ I Hl) as T1.
  pose proof (oval_handle _ _ I Hl) as V1. cbv iota in V1.
  destruct (counts_step _ _ I Hl) as [G1 C1].
  unfold drop_sender. rewrite (step_c_legal _ _ Hl).
  destruct (step s DropSenderDec) as [s1 o1] eqn:E1. cbn [fst snd] in *.
  rewrite V1 in T1. change (moved []) with (@nil N) in T1. change (injected [DropSenderDec]) with (@nil tag) in T1.
  cbn [created] in T1.
  destruct (Nat.ltb 0 (pend_sclose s1)) eqn:Ep.
  - assert (Hl2 : legal s1 DropSenderClose = true).
    { unfold legal. rewrite G1, Ep. unfold legal in Hl. apply andb_true_iff in Hl. destruct Hl as [-> _]. reflexivity. }
    pose proof (reach_inv _ _ _ _ R1) as I1.
    pose proof (reach_step _ _ _ _ _ R1 Hl2) as R2.
    pose proof (tr_step _ _ I1 Hl2) as T2.
    pose proof (oval_handle _ _ I1 Hl2) as V2. cbv iota in V2.
    destruct (counts_step _ _ I1 Hl2) as [G2 C2].
    rewrite (step_c_legal _ _ Hl2).
    destruct (step s1 DropSenderClose) as [s2 o2] eqn:E2. cbn [fst snd] in *.
    rewrite V2 in T2. change (moved []) with (@nil N) in T2. change (injected [DropSenderClose]) with (@nil tag) in T2.
    cbn [created] in T2.
    cbn [with_res seq_obs o_val]. rewrite V1, V2.
    split; [exact R2|]. split; [eapply tr_seq; eauto|]. split; [reflexivity|]. split; congruence.
  - cbn [fst snd with_res o_val]. split; [exact R1|]. split; [exact T1|]. split; [exact V1|]. split; assumption.
Qed.

(* whole drop of a receiver handle *)
Lemma drop_receiver_tr kr ks c s : Reach kr ks c s -> legal s DropReceiverDec = true ->
  Reach kr ks c (fst (drop_receiver s)) /\
  Tr s (fst (drop_receiver s)) (moved (o_val (snd (drop_receiver s)))) [] None /\
  gone (fst (drop_receiver s)) = gone s /\ receivers (fst (drop_receiver s)) = pred (receivers s) /\
  (o_val (snd (drop_receiver s)) = [] \/ receivers s = 1).
Proof.
  intros R Hl. pose proof (reach_inv _ _ _ _ R) as I.
  pose proof (reach_step _ _ _ _ _ R Hl) as R1.
  pose proof (tr_step _ _ I Hl) as T1.
  pose proof (oval_handle _ _ I Hl) as V1. cbv iota in V1.
  destruct (counts_step _ _ I Hl) as [G1 C1].
  assert (P1 : pend_rclose (fst (step s DropReceiverDec)) =
               if Nat.eqb (receivers s) 1 then S (pend_rclose s) else pend_rclose s) by reflexivity.
  assert (Hg : gone s = false).
  { unfold legal in Hl. apply andb_true_iff in Hl. destruct Hl as [Hg _]. apply negb_true_iff in Hg. exact Hg. }
  assert (Hpr : pend_rclose s = 0).
  { destruct I as [_ _ IH]. pose proof (h_pr0 _ _ _ _ _ _ _ _ _ IH) as h.
    unfold legal in Hl. apply andb_true_iff in Hl. destruct Hl as [_ Hl]. apply Nat.ltb_lt in Hl. lia. }
  unfold drop_receiver. rewrite (step_c_legal _ _ Hl).
  destruct (step s DropReceiverDec) as [s1 o1] eqn:E1. cbn [fst snd] in *.
  rewrite V1 in T1. change (moved []) with (@nil N) in T1. change (injected [DropReceiverDec]) with (@nil tag) in T1.
  cbn [created] in T1.
  destruct (Nat.ltb 0 (pend_rclose s1)) eqn:Ep.
  - assert (Hlast : receivers s = 1).
    { apply Nat.ltb_lt in Ep. rewrite P1, Hpr in Ep. destruct (Nat.eqb_spec (receivers s) 1); [auto|lia]. }
    assert (Hl2 : legal s1 DropReceiverClose = true).
    { unfold legal. rewrite G1, Ep, Hg. reflexivity. }
    pose proof (reach_inv _ _ _ _ R1) as I1.
    pose proof (reach_step _ _ _ _ _ R1 Hl2) as R2.
    pose proof (tr_step _ _ I1 Hl2) as T2.
    pose proof (oval_handle _ _ I1 Hl2) as V2. cbv iota in V2.
    destruct (counts_step _ _ I1 Hl2) as [G2 C2].
    pose proof (pend_clear_close _ I1 Hl2) as P2.
    rewrite (step_c_legal _ _ Hl2).
    destruct (step s1 DropReceiverClose) as [s2 o2] eqn:E2. cbn [fst snd] in *.
    rewrite V2 in T2. change (moved []) with (@nil N) in T2. change (injected [DropReceiverClose]) with (@nil tag) in T2.
    cbn [created] in T2.
    assert (Hl3 : legal s2 DropReceiverClear = true).
    { unfold legal. rewrite G2, G1, Hg, P2. reflexivity. }
    pose proof (reach_inv _ _ _ _ R2) as I2.
    pose proof (reach_step _ _ _ _ _ R2 Hl3) as R3.
    pose proof (tr_step _ _ I2 Hl3) as T3.
    destruct (counts_step _ _ I2 Hl3) as [G3 C3].
    rewrite (step_c_legal _ _ Hl3).
    destruct (step s2 DropReceiverClear) as [s3 o3] eqn:E3. cbn [fst snd] in *.
    change (injected [DropReceiverClear]) with (@nil tag) in T3. cbn [created] in T3.
    cbn [with_res seq_obs o_val]. rewrite V1, V2. cbn [app].
    split; [exact R3|]. split; [eapply tr_seq; [exact T1|]; eapply tr_seq; [exact T2|exact T3]|].
    split; [congruence|]. split; [|right; exact Hlast]. rewrite C3, C2, C1. reflexivity.
  - cbn [fst snd with_res o_val]. rewrite V1.
    split; [exact R1|]. split; [exact T1|]. split; [exact G1|]. split; [exact C1|left; reflexivity].
Qed.

(* ------------------------------------------------------------------ *)
(* one whole call: the monitor state stays related and the check passes *)
Lemma mi_tr sh m s s' k ob inj cr :
  MI m s -> Tr s s' (moved (o_val ob)) inj cr -> NoDup (in_flight s ++ inj) ->
  carry1_of cr (d_carry m) = (match k with KCreate f v => upd f (Some v) (d_carry m) | _ => d_carry m end) ->
  (gone s' = false -> d_receivers (dmon_k sh m k ob) = receivers s') ->
  MI (dmon_k sh m k ob) s'.
Proof.
  intros [ML MC MR] T Hnd Hk Hrecv.
  destruct (carry_tr m s s' _ _ _ T Hnd ML MC) as [L' C'].
  rewrite Hk in L', C'.
  constructor; [exact L'|exact C'|exact Hrecv].
Qed.

Lemma nodup_app_pre (a b c : list N) : NoDup (a ++ b ++ c) -> NoDup (a ++ b).
Proof.
  rewrite !nodup_cnt. intros H v. specialize (H v). rewrite !cnt_app in H. rewrite cnt_app. lia.
Qed.

Lemma legal_not_gone s o : legal s o = true -> gone s = false.
Proof. unfold legal. intros H. apply andb_true_iff in H. destruct H as [H _]. apply negb_true_iff in H. exact H. Qed.

Lemma op_step sh kr ks c s m o : Reach kr ks c s -> MI m s -> plainb o = true -> legal s o = true ->
  NoDup (in_flight s ++ injected [o]) ->
  MI (dmon_k sh m (okind o) (snd (step s o))) (fst (step s o)) /\
  d_ok (dmon_k sh m (okind o) (snd (step s o))) = d_ok m.
Proof.
  intros R M Hp Hl Hnd. pose proof (reach_inv _ _ _ _ R) as I.
  pose proof (tr_step _ _ I Hl) as T.
  pose proof (legal_not_gone _ _ Hl) as Hg.
  destruct (counts_step _ _ I Hl) as [G C].
  assert (Hdrop : forall v, In (V_DROPPED, v) (pairs (o_val (snd (step s o)))) ->
            (exists f, o = DropSend f /\ s_val (gets s f) = Some v) \/ o = DropReceiverClear \/ o = Teardown).
  { intros v. apply (drops_only_where_allowed kr ks c); auto. }
  split.
  - eapply mi_tr; eauto.
    + destruct o; reflexivity.
    + intros Hg'. pose proof (mi_recv _ _ M Hg) as Hr.
      destruct o; try discriminate Hp; cbn [dmon_k d_receivers okind]; try congruence.
  - unfold dmon_k. cbn [d_ok].
    destruct o; try discriminate Hp; cbn [okind]; rewrite ?andb_true_r; try reflexivity;
      try (rewrite droppedL_none; [apply andb_true_r|];
           intros v' Hin; destruct (Hdrop v' Hin) as [[f' [E _]]|[E|E]]; discriminate).
    (* DropSend *)
    assert (Hall : forallb (fun v => match nth f (d_carry m) None with
                                     | Some v' => N.eqb v v' | None => false end)
                           (droppedL (o_val (snd (step s (DropSend f))))) = true).
    { apply forallb_forall. intros v Hin. apply droppedL_In in Hin.
      destruct (Hdrop v Hin) as [[f' [E Hv]]|[E|E]]; try discriminate. inv E.
      rewrite (mi_carry _ _ M f' v Hv). apply N.eqb_refl. }
    rewrite Hall. apply andb_true_r.
Qed.

Lemma minjected_cons l r : minjected (l :: r) = minjected [l] ++ minjected r.
Proof. unfold minjected. cbn [flat_map]. rewrite app_nil_r. reflexivity. Qed.

Lemma mstep_ok sh kr ks c s m l r : Reach kr ks c s -> MI m s -> mlegal s l = true ->
  NoDup (in_flight s ++ minjected (l :: r)) ->
  Reach kr ks c (fst (mstep s l)) /\
  MI (dmon_step sh m (l, snd (mstep s l))) (fst (mstep s l)) /\
  d_ok (dmon_step sh m (l, snd (mstep s l))) = d_ok m /\
  NoDup (in_flight (fst (mstep s l)) ++ minjected r).
Proof.
  intros R M Hml Hnd. pose proof (reach_inv _ _ _ _ R) as I.
  rewrite dmon_step_kind. rewrite minjected_cons in Hnd.
  destruct (decode l) as [o|] eqn:E.
  - destruct (decode_facts s l o E) as (K & Ms & L & J).
    rewrite L in Hml. apply andb_true_iff in Hml. destruct Hml as [Hp Hl].
    rewrite K, Ms, (step_c_legal _ _ Hl). rewrite J in Hnd.
    destruct (op_step sh kr ks c s m o R M Hp Hl (nodup_app_pre _ _ _ Hnd)) as [M' D'].
    split; [apply reach_step; auto|]. split; [exact M'|]. split; [exact D'|].
    eapply nodup_tr; [apply (tr_step _ _ I Hl)|exact Hnd].
  - destruct (decode_none s l E Hml) as [-> | ->].
    + (* whole sender-handle drop *)
      change (mlegal s [14%N]) with (legal s DropSenderDec) in Hml.
      change (mstep s [14%N]) with (if legal s DropSenderDec then drop_sender s else (s, bad_obs)).
      rewrite Hml. cbn [kind minjected flat_map app] in *.
      destruct (drop_sender_tr kr ks c s R Hml) as (R' & T & V & G & C).
      pose proof (legal_not_gone _ _ Hml) as Hg.
      split; [exact R'|]. split; [|split].
      * eapply (mi_tr sh m s _ KOther _ [] None); eauto.
        -- rewrite V. exact T.
        -- apply (nodup_app_pre _ [] _ Hnd).
        -- intros _. cbn [dmon_k d_receivers]. rewrite C. apply (mi_recv _ _ M Hg).
      * unfold dmon_k. cbn [d_ok]. rewrite V. apply andb_true_r.
      * eapply nodup_tr; [exact T|exact Hnd].
    + (* whole receiver-handle drop *)
      change (mlegal s [16%N]) with (legal s DropReceiverDec) in Hml.
      change (mstep s [16%N]) with (if legal s DropReceiverDec then drop_receiver s else (s, bad_obs)).
      rewrite Hml. cbn [kind minjected flat_map app] in *.
      destruct (drop_receiver_tr kr ks c s R Hml) as (R' & T & G & C & V).
      pose proof (legal_not_gone _ _ Hml) as Hg.
      pose proof (mi_recv _ _ M Hg) as Hr.
      split; [exact R'|]. split; [|split].
      * eapply (mi_tr sh m s _ KDropR _ [] None); eauto.
        -- apply (nodup_app_pre _ [] _ Hnd).
        -- intros _. cbn [dmon_k d_receivers]. rewrite C, Hr. reflexivity.
      * unfold dmon_k. cbn [d_ok]. destruct V as [V|V].
        -- rewrite V. apply andb_true_r.
        -- rewrite Hr, V. cbn [pred Nat.eqb]. rewrite orb_true_r. apply andb_true_r.
      * eapply nodup_tr; [exact T|exact Hnd].
Qed.

(* ------------------------------------------------------------------ *)
(* runs *)
Lemma drops_run sh kr ks c : forall ls s m,
  Reach kr ks c s -> MI m s -> d_ok m = true -> mlegal_run s ls = true ->
  NoDup (in_flight s ++ minjected ls) ->
  d_ok (fold_left (dmon_step sh) (mtrace s ls) m) = true.
Proof.
  induction ls as [|l r IH]; intros s m R M Hok Hr Hnd; [exact Hok|].
  cbn [mlegal_run] in Hr. apply andb_true_iff in Hr. destruct Hr as [Hl Hr].
  destruct (mstep_ok sh kr ks c s m l r R M Hl Hnd) as (R' & M' & D' & N').
  cbn [mtrace]. destruct (mstep s l) as [s' ob] eqn:E. cbn [fst snd fold_left] in *.
  apply (IH s'); auto. congruence.
Qed.

Lemma mi_init kr ks c : MI (mkDmon 1 (repeat None ks) true) (init kr ks c).
Proof.
  constructor; cbn [d_carry d_receivers].
  - unfold init. cbn [sfs]. rewrite !repeat_length. reflexivity.
  - intros f v. unfold gets, init. cbn [sfs]. rewrite nth_repeat_same. discriminate.
  - reflexivity.
Qed.

Theorem drops_placed_holds : forall kr ks c sh ls,
  mlegal_run (init kr ks c) ls = true -> NoDup (minjected ls) ->
  drops_placed_ok sh ks (mtrace (init kr ks c) ls) = true.
Proof.
  intros kr ks c sh ls Hr Hnd. unfold drops_placed_ok.
  apply (drops_run sh kr ks c ls (init kr ks c)); auto.
  - apply reach_init.
  - apply mi_init.
  - rewrite in_flight_init. exact Hnd.
Qed.
