(* C13: the published id moves only with a successful send (strictly upwards) or the id hook. *)
From FI Require Import Base StateBcast StateBcastSpec.
From Coq Require Import Lia.

Lemma do_close_id s e : state_id (fst (fst (do_close s e))) = state_id s.
Proof.
  unfold do_close. destruct (closed s); [reflexivity|].
  destruct (wake_all (rfs s) (rev (waiters s)) []) as [fs' wk]. reflexivity.
Qed.

Lemma probe_mk s r w v : nth 1 (o_probe (mk_obs s r w v)) 0%N = state_id s.
Proof. reflexivity. Qed.

(* one step of the id monitor from an accumulator that equals the model's id *)
Lemma id_step_sound s o ok :
  id_step (state_id s, ok) (o, snd (step s o)) = (state_id (fst (step s o)), ok).
Proof.
  destruct o; cbn [step].
  - (* Send *)
    destruct (closed s || N.eqb (state_id s) MAXID) eqn:E.
    + cbn [snd fst id_step]. rewrite probe_mk. unfold res_is. cbn.
      rewrite N.eqb_refl, Bool.andb_true_r. reflexivity.
    + destruct (wake_all (rfs s) (rev (waiters s)) []) as [fs' wk].
      cbn [snd fst id_step]. rewrite probe_mk. unfold res_is. cbn [o_res mk_obs hd].
      rewrite N.eqb_refl. cbn [state_id].
      replace (N.ltb (state_id s) (state_id s + 1)) with true by (symmetry; apply N.ltb_lt; lia).
      rewrite Bool.andb_true_r. reflexivity.
  - (* Close *)
    destruct (do_close s true) as [[s' newly] wk] eqn:E.
    cbn [snd fst id_step]. rewrite probe_mk.
    pose proof (do_close_id s true) as H. rewrite E in H. cbn [fst] in H.
    rewrite H, N.eqb_refl, Bool.andb_true_r. reflexivity.
  - (* TryReceive *)
    destruct (deliverable s i); cbn [snd fst id_step]; rewrite probe_mk, N.eqb_refl, Bool.andb_true_r; reflexivity.
  - (* CreateRecv *)
    cbn [snd fst id_step]. rewrite probe_mk. cbn [with_rfs state_id].
    rewrite N.eqb_refl, Bool.andb_true_r. reflexivity.
  - (* PollRecv *)
    destruct (negb (r_hp (getr s f))).
    { cbn [snd fst id_step]. rewrite probe_mk, N.eqb_refl, Bool.andb_true_r. reflexivity. }
    destruct (r_st (getr s f)).
    + destruct (deliverable s (r_id (getr s f))).
      { cbn [snd fst id_step]. rewrite probe_mk. cbn [with_rfs state_id]. rewrite N.eqb_refl, Bool.andb_true_r. reflexivity. }
      destruct (closed s).
      { cbn [snd fst id_step]. rewrite probe_mk. cbn [with_rfs state_id]. rewrite N.eqb_refl, Bool.andb_true_r. reflexivity. }
      destruct (memb f (waiters s)).
      { cbn [snd fst id_step]. rewrite probe_mk, N.eqb_refl, Bool.andb_true_r. reflexivity. }
      cbn [snd fst id_step]. rewrite probe_mk. cbn [with_rfs state_id]. rewrite N.eqb_refl, Bool.andb_true_r. reflexivity.
    + cbn [snd fst id_step]. rewrite probe_mk. cbn [with_rfs state_id]. rewrite N.eqb_refl, Bool.andb_true_r. reflexivity.
  - (* DropRecv *)
    destruct (r_hp (getr s f)).
    + destruct (r_st (getr s f)).
      * cbn [snd fst id_step]. rewrite probe_mk. cbn [with_rfs state_id]. rewrite N.eqb_refl, Bool.andb_true_r. reflexivity.
      * destruct (memb f (waiters s)); cbn [snd fst id_step]; rewrite probe_mk; cbn [with_rfs state_id];
          rewrite N.eqb_refl, Bool.andb_true_r; reflexivity.
    + cbn [snd fst id_step]. rewrite probe_mk. cbn [with_rfs state_id]. rewrite N.eqb_refl, Bool.andb_true_r. reflexivity.
  - cbn [snd fst id_step]. rewrite probe_mk. cbn [with_counts state_id]. rewrite N.eqb_refl, Bool.andb_true_r. reflexivity.
  - cbn [snd fst id_step]. rewrite probe_mk. cbn [with_counts state_id]. rewrite N.eqb_refl, Bool.andb_true_r. reflexivity.
  - (* DropSenderClose *)
    destruct (do_close (with_counts s (senders s) (receivers s) (pred (pend_sclose s)) (pend_rclose s)) false) as [[s' newly] wk] eqn:E.
    cbn [snd fst id_step]. rewrite probe_mk.
    pose proof (do_close_id (with_counts s (senders s) (receivers s) (pred (pend_sclose s)) (pend_rclose s)) false) as H.
    rewrite E in H. cbn [fst with_counts state_id] in H.
    rewrite H, N.eqb_refl, Bool.andb_true_r. reflexivity.
  - cbn [snd fst id_step]. rewrite probe_mk. cbn [with_counts state_id]. rewrite N.eqb_refl, Bool.andb_true_r. reflexivity.
  - cbn [snd fst id_step]. rewrite probe_mk. cbn [with_counts state_id]. rewrite N.eqb_refl, Bool.andb_true_r. reflexivity.
  - (* DropReceiverClose *)
    destruct (do_close (with_counts s (senders s) (receivers s) (pend_sclose s) (pred (pend_rclose s))) false) as [[s' newly] wk] eqn:E.
    cbn [snd fst id_step]. rewrite probe_mk.
    pose proof (do_close_id (with_counts s (senders s) (receivers s) (pend_sclose s) (pred (pend_rclose s))) false) as H.
    rewrite E in H. cbn [fst with_counts state_id] in H.
    rewrite H, N.eqb_refl, Bool.andb_true_r. reflexivity.
  - (* SetId *) cbn [snd fst id_step]. rewrite probe_mk. reflexivity.
  - (* Teardown *) cbn [snd fst id_step state_id]. reflexivity.
Qed.

Lemma ids_stable_gen : forall ops s ok,
  fold_left id_step (trace s ops) (state_id s, ok) = (state_id (run s ops), ok).
Proof.
  induction ops as [|o r IH]; intros s ok; cbn [trace fold_left].
  - reflexivity.
  - rewrite id_step_sound. rewrite IH. unfold run. reflexivity.
Qed.

Theorem ids_stable_holds : forall k ops, legal_run (init k) ops -> ids_stable (trace (init k) ops) = true.
Proof.
  intros k ops _. unfold ids_stable.
  change (0%N, true) with (state_id (init k), true).
  rewrite ids_stable_gen. reflexivity.
Qed.
