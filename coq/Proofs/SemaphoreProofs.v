(* Invariants and lemmas for Model/Semaphore.v (C05, C06, C07) *)
From FI Require Import Base Semaphore SemaphoreSpec.

Local Ltac inv H := inversion H; subst; clear H.

Local Ltac bool_hyps :=
  repeat match goal with
  | H : (_ && _)%bool = true |- _ => apply andb_true_iff in H; destruct H
  | H : negb _ = true |- _ => apply negb_true_iff in H
  | H : negb _ = false |- _ => apply negb_false_iff in H
  | H : Nat.ltb _ _ = true |- _ => apply Nat.ltb_lt in H
  | H : Nat.eqb _ _ = true |- _ => apply Nat.eqb_eq in H
  | H : N.leb _ _ = true |- _ => apply N.leb_le in H
  | H : N.leb _ _ = false |- _ => apply N.leb_gt in H
  | H : N.ltb _ _ = true |- _ => apply N.ltb_lt in H
  | H : N.ltb _ _ = false |- _ => apply N.ltb_ge in H
  | H : N.eqb _ _ = true |- _ => apply N.eqb_eq in H
  | H : N.eqb _ _ = false |- _ => apply N.eqb_neq in H
  end.

(* evaluate result-code tests on concrete observations *)
Local Ltac res_eval :=
  repeat match goal with
  | |- context [res_is ?c (mk_obs ?s ?r ?wk)] =>
      let v := eval vm_compute in (res_is c (mk_obs s r wk)) in
      change (res_is c (mk_obs s r wk)) with v
  end; cbv beta iota.

Local Ltac res_eval_in H :=
  repeat match type of H with
  | context [res_is ?c (mk_obs ?s ?r ?wk)] =>
      let v := eval vm_compute in (res_is c (mk_obs s r wk)) in
      change (res_is c (mk_obs s r wk)) with v in H
  end; cbv beta iota in H.

Lemma alive_lt s f : f_alive (get s f) = true -> f < length (futs s).
Proof.
  unfold get. intros H. destruct (Nat.lt_ge_cases f (length (futs s))) as [|Hge]; auto.
  rewrite nth_overflow in H by auto. discriminate.
Qed.

Lemma nth_repeat_absent k f : nth f (repeat absent k) absent = absent.
Proof. revert f; induction k; intros [|f]; simpl; auto. Qed.

Lemma nth_upd_cases (fs : list fut) f g x :
  f < length fs ->
  (g = f /\ nth g (upd f x fs) absent = x) \/
  (g <> f /\ nth g (upd f x fs) absent = nth g fs absent).
Proof.
  intros Hlt. rewrite nth_upd. destruct (Nat.eqb_spec f g) as [->|Hne]; simpl.
  - left. split; auto. apply Nat.ltb_lt in Hlt. rewrite Hlt. auto.
  - right. split; auto.
Qed.

Local Ltac upd_cases g Hlt :=
  unfold get; cbn [futs waiters fair permits rels fx clock];
  match goal with
  | |- context [nth g (upd ?f ?x ?fs) absent] =>
      let E := fresh "E" in let Hne := fresh "Hne" in
      destruct (nth_upd_cases fs f g x Hlt) as [[-> E]|[Hne E]]; rewrite E; clear E
  end.

(* ------------------------------------------------------------------ *)
(* histories *)
Lemma legal_run_app s a c : legal_run s (a ++ c) <-> legal_run s a /\ legal_run (run s a) c.
Proof.
  revert s; induction a as [|o r IH]; simpl; intros s; [tauto|]. rewrite IH. tauto.
Qed.

Lemma run_app s a c : run s (a ++ c) = run (run s a) c.
Proof. unfold run. apply fold_left_app. Qed.

Lemma trace_app s a c : trace s (a ++ c) = trace s a ++ trace (run s a) c.
Proof.
  revert s; induction a as [|o r IH]; simpl; intros s; auto. rewrite IH. reflexivity.
Qed.

Lemma reach_run_gen k b p fixed s ops :
  Reach k b p fixed s -> legal_run s ops -> Reach k b p fixed (run s ops).
Proof.
  revert s; induction ops as [|o r IH]; simpl; intros s Hr Hl; auto.
  destruct Hl. apply IH; auto. apply reach_step; auto.
Qed.

Lemma reach_run k b p fixed ops :
  legal_run (init k b p fixed) ops -> Reach k b p fixed (run (init k b p fixed) ops).
Proof. apply reach_run_gen. apply reach_init. Qed.

(* ------------------------------------------------------------------ *)
(* wakeup_waiters never touches f_alive / f_req; no invariant needed *)
Definition same_ar (fs fs' : list fut) : Prop :=
  length fs' = length fs /\
  forall g, f_alive (nth g fs' absent) = f_alive (nth g fs absent) /\
            f_req (nth g fs' absent) = f_req (nth g fs absent).

Lemma same_ar_refl fs : same_ar fs fs.
Proof. split; auto. Qed.

Lemma same_ar_trans a b c : same_ar a b -> same_ar b c -> same_ar a c.
Proof.
  intros [L1 H1] [L2 H2]. split; [congruence|].
  intros g. destruct (H1 g), (H2 g). split; congruence.
Qed.

Lemma same_ar_notify f fs : same_ar fs (upd f (notify (nth f fs absent)) fs).
Proof.
  split; [apply upd_length|]. intros g. rewrite nth_upd.
  destruct (Nat.eqb_spec f g) as [->|Hne]; simpl; auto.
  destruct (Nat.ltb g (length fs)); auto.
Qed.

Lemma wakeup_frame b order : forall avail fs acc o' fs' wk,
  wakeup b avail order fs acc = (o', fs', wk) -> same_ar fs fs'.
Proof.
  induction order as [|f r IH]; intros avail fs acc o' fs' wk H; cbn [wakeup] in H.
  - inv H. apply same_ar_refl.
  - destruct (N.ltb avail (f_req (nth f fs absent))); [inv H; apply same_ar_refl|].
    destruct (f_st (nth f fs absent)); destruct b;
      try (inv H; first [apply same_ar_refl | apply same_ar_notify]);
      apply IH in H; auto;
      (eapply same_ar_trans; [apply same_ar_notify|exact H]).
Qed.

Lemma wakeup_waiters_frame b p ws fs ws' fs' wk :
  wakeup_waiters b p ws fs = (ws', fs', wk) -> same_ar fs fs'.
Proof.
  unfold wakeup_waiters. destruct (wakeup b p (rev ws) fs []) as [[o1 f1] w1] eqn:E.
  intros H; inv H. eapply wakeup_frame; eauto.
Qed.

(* ------------------------------------------------------------------ *)
(* C05 *)
Lemma res_arg_mk s c a l wk : res_arg (mk_obs s (c :: a :: l) wk) = a.
Proof. reflexivity. Qed.

Lemma probe_mk s r wk : o_probe (mk_obs s r wk) = [permits s; nN (length (rels s))].
Proof. reflexivity. Qed.

Definition ledger_fact (s : state) (o : op) : Prop :=
  let s' := fst (step s o) in let ob := snd (step s o) in
  o_probe ob = [permits s'; nN (length (rels s'))] /\
  match o with
  | Poll f w =>
      if res_is R_READY ob then
        (f_req (get s f) <= permits s)%N /\ res_arg ob = f_req (get s f) /\
        permits s' = (permits s - f_req (get s f))%N /\ rels s' = rels s ++ [f_req (get s f)]
      else permits s' = permits s /\ rels s' = rels s
  | TryAcquire n =>
      if res_is R_SOME ob then
        (n <= permits s)%N /\ permits s' = (permits s - n)%N /\ rels s' = rels s ++ [n]
      else permits s' = permits s /\ rels s' = rels s
  | Release n => permits s' = (permits s + n)%N /\ rels s' = rels s
  | Disarm i => res_arg ob = nth i (rels s) 0%N /\ permits s' = permits s /\ rels s' = upd i 0%N (rels s)
  | DropReleaser i =>
      res_arg ob = nth i (rels s) 0%N /\
      permits s' = (permits s + nth i (rels s) 0)%N /\ rels s' = remove_nth i (rels s)
  | _ => permits s' = permits s /\ rels s' = rels s
  end.

Lemma can_acquire_le s n : can_acquire_sync s n = true -> (n <= permits s)%N.
Proof. unfold can_acquire_sync. intros H. bool_hyps. auto. Qed.

Lemma do_release_pr s n r :
  permits (fst (do_release s n r)) = (permits s + n)%N /\ rels (fst (do_release s n r)) = r.
Proof.
  unfold do_release. destruct (N.eqb_spec n 0) as [->|Hn]; simpl.
  - split; auto. lia.
  - destruct (wakeup_waiters _ _ _ _) as [[ws' fs'] wk]. simpl. auto.
Qed.

Lemma step_ledger s o : ledger_fact s o.
Proof.
  unfold ledger_fact. destruct o as [f n|f w|f|n|n|i|i].
  - simpl. auto.
  - unfold step. destruct (f_hp (get s f)); cbn [negb]; cbv iota; [|cbn [fst snd]; res_eval; auto].
    destruct (f_st (get s f)).
    + destruct (can_acquire_sync s (f_req (get s f))) eqn:Ec.
      * cbn [fst snd]. res_eval. apply can_acquire_le in Ec. rewrite res_arg_mk. auto.
      * destruct (memb f (waiters s)); cbn [fst snd]; res_eval; auto.
    + destruct (negb (fair s) && N.leb (f_req (get s f)) (permits s))%bool eqn:Ec.
      * bool_hyps. destruct (memb f (waiters s)); cbn [fst snd]; res_eval; auto.
      * cbn [fst snd]. res_eval. auto.
    + destruct (N.leb_spec (f_req (get s f)) (permits s)) as [Hle|Hgt].
      * destruct (fair s && negb (memb f (waiters s)))%bool; [cbn [fst snd]; res_eval; auto|].
        destruct (if fair s then _ else _) as [[ws' fs'] wk].
        cbn [fst snd]. res_eval. rewrite res_arg_mk. auto.
      * destruct (fair s); [cbn [fst snd]; res_eval; auto|].
        destruct (memb f (waiters s)); [cbn [fst snd]; res_eval; auto|].
        destruct (if fx s then _ else _) as [[ws' fs'] wk].
        cbn [fst snd]. res_eval. auto.
    + cbn [fst snd]. res_eval. auto.
  - unfold step. destruct (f_hp (get s f)); [|simpl; auto].
    destruct (f_st (get s f)); try (simpl; auto; fail).
    + destruct (memb f (waiters s)); [|simpl; auto].
      destruct (if fx s then _ else _) as [[ws' fs'] wk]. simpl. auto.
    + destruct (fair s && negb (memb f (waiters s)))%bool; [simpl; auto|].
      destruct (wakeup_waiters _ _ _ _) as [[ws' fs'] wk]. simpl. auto.
  - unfold step. destruct (can_acquire_sync s n) eqn:Ec; cbn [fst snd]; res_eval; auto.
    apply can_acquire_le in Ec. auto.
  - unfold step. pose proof (do_release_pr s n (rels s)) as [P1 P2].
    destruct (do_release s n (rels s)) as [s' wk]. simpl in *. auto.
  - simpl. auto.
  - unfold step. pose proof (do_release_pr s (nth i (rels s) 0%N) (remove_nth i (rels s))) as [P1 P2].
    destruct (do_release _ _ _) as [s' wk]. simpl in *. auto.
Qed.

(* brute-force case analysis of [step] *)
Local Ltac step_tree :=
  repeat (cbv beta iota zeta;
    match goal with
    | |- context [match f_st ?x with _ => _ end] => destruct (f_st x) eqn:?
    | |- context [if ?c then _ else _] => destruct c eqn:?
    | |- context [wakeup_waiters ?a ?b ?c ?d] => destruct (wakeup_waiters a b c d) as [[? ?] ?] eqn:?
    end).

(* the future table after a step, up to what wakeup_waiters does *)
Lemma step_futs s o :
  exists fs1, same_ar fs1 (futs (fst (step s o))) /\
    match o with
    | Create f n => fs1 = upd f (fresh n) (futs s)
    | Poll f w => fs1 = futs s \/
                  exists hp st tk wo lw sp, fs1 = upd f (set_fut (get s f) hp st tk wo lw sp) (futs s)
    | DropFut f => fs1 = futs s \/ fs1 = upd f absent (futs s)
    | _ => fs1 = futs s
    end.
Proof.
  destruct o as [f n|f w|f|n|n|i|i]; unfold step; try unfold do_release; step_tree; cbn [fst futs];
    eexists; (split; [first [eapply wakeup_waiters_frame; eassumption | apply same_ar_refl]|]);
    first [reflexivity | left; reflexivity | right; reflexivity | right; do 6 eexists; reflexivity].
Qed.

Definition keeps (s s' : state) (g : fid) : Prop :=
  f_alive (get s' g) = true -> f_alive (get s g) = true /\ f_req (get s' g) = f_req (get s g).

Lemma step_ar s o : legal s o = true ->
  length (futs (fst (step s o))) = length (futs s) /\
  forall g, match o with
            | Create f n => if Nat.eqb f g then f_req (get (fst (step s o)) g) = n else keeps s (fst (step s o)) g
            | _ => keeps s (fst (step s o)) g
            end.
Proof.
  intros Hl. destruct (step_futs s o) as (fs1 & [Hlen Hsame] & Hfs1).
  assert (K : forall g, nth g fs1 absent = get s g -> keeps s (fst (step s o)) g).
  { intros g E. unfold keeps, get at 1 3. destruct (Hsame g) as [A1 A2]. rewrite A1, A2, E. auto. }
  destruct o as [f n|f w|f|n|n|i|i]; try (subst fs1; split; [auto|intros g; apply K; reflexivity]).
  - subst fs1. rewrite upd_length in Hlen. split; auto. intros g.
    simpl in Hl. bool_hyps.
    destruct (Nat.eqb_spec f g) as [->|Hne].
    + unfold get. destruct (Hsame g) as [_ A2]. rewrite A2, nth_upd_same; auto.
    + apply K. apply nth_upd_other; auto.
  - simpl in Hl. bool_hyps. destruct Hfs1 as [->|(hp & st & tk & wo & lw & sp & ->)].
    + split; [auto|intros g; apply K; reflexivity].
    + rewrite upd_length in Hlen. split; auto. intros g.
      destruct (Nat.eq_dec f g) as [<-|Hne].
      * unfold keeps, get at 1 3. destruct (Hsame f) as [A1 A2]. rewrite A1, A2.
        rewrite nth_upd_same by (apply alive_lt; auto). simpl. auto.
      * apply K. apply nth_upd_other; auto.
  - destruct Hfs1 as [->| ->].
    + split; [auto|intros g; apply K; reflexivity].
    + rewrite upd_length in Hlen. split; auto. intros g.
      destruct (Nat.eq_dec f g) as [<-|Hne].
      * unfold keeps, get at 1. destruct (Hsame f) as [A1 A2]. rewrite A1.
        rewrite nth_upd_same by (apply alive_lt; auto). discriminate.
      * apply K. apply nth_upd_other; auto.
Qed.

Record LedgerLink (s : state) (l : ledger) : Prop := {
  ll_p : l_permits l = Z.of_N (permits s);
  ll_r : l_rels l = rels s;
  ll_len : length (l_req l) = length (futs s);
  ll_q : forall g, f_alive (get s g) = true -> nth g (l_req l) 0%N = f_req (get s g);
  ll_ok : l_ok l = true
}.

Lemma ledger_step_ok s l o :
  legal s o = true -> LedgerLink s l ->
  LedgerLink (fst (step s o)) (ledger_step l (o, snd (step s o))).
Proof.
  intros Hl [Lp Lr Llen Lq Lok].
  pose proof (step_ledger s o) as [Hprobe Hled].
  pose proof (step_ar s o Hl) as [Hlen Har].
  cbv zeta in Hprobe, Hled.
  set (s' := fst (step s o)) in *. set (ob := snd (step s o)) in *.
  assert (Hpp : probe_permits ob = permits s') by (unfold probe_permits; rewrite Hprobe; reflexivity).
  assert (Hpr : N.to_nat (nth 1 (o_probe ob) 0%N) = length (rels s')).
  { rewrite Hprobe. cbn [nth]. apply Nat2N.id. }
  assert (Hkeep : forall lq, lq = l_req l -> (forall g, keeps s s' g) ->
            forall g, f_alive (get s' g) = true -> nth g lq 0%N = f_req (get s' g)).
  { intros lq -> K g Ha. destruct (K g Ha) as [Ha' E]. rewrite E. auto. }
  unfold ledger_step. cbv beta iota.
  destruct o as [f n|f w|f|n|n|i|i].
  - destruct Hled as [Ep Er].
    constructor; cbn [l_permits l_rels l_req l_ok].
    + rewrite Ep. auto.
    + rewrite Er. auto.
    + rewrite upd_length. congruence.
    + intros g Ha. specialize (Har g). rewrite nth_upd.
      simpl in Hl. bool_hyps. rewrite Llen.
      assert (Hlt : Nat.ltb f (length (futs s)) = true) by (apply Nat.ltb_lt; assumption).
      destruct (Nat.eqb_spec f g) as [->|Hne]; simpl.
      * rewrite Hlt. auto.
      * destruct (Har Ha) as [Ha' E]. rewrite E. auto.
    + rewrite Lok, Hpp, Hpr, Ep, Er, Lp, Lr, Z.eqb_refl, Nat.eqb_refl. reflexivity.
  - simpl in Hl. bool_hyps.
    destruct (res_is R_READY ob).
    + destruct Hled as (Hle & Ea & Ep & Er).
      constructor; cbn [l_permits l_rels l_req l_ok]; auto.
      * rewrite Lq by auto. rewrite Ep, Lp. lia.
      * rewrite Lq by auto. rewrite Er, Lr. auto.
      * congruence.
      * rewrite Lq by auto. rewrite Lok, Hpp, Hpr, Ea, Ep, Er, Lp, Lr, N.eqb_refl, Nat.eqb_refl.
        replace (Z.of_N (f_req (get s f)) <=? Z.of_N (permits s))%Z with true by (symmetry; apply Z.leb_le; lia).
        replace (Z.of_N (permits s - f_req (get s f)) =? Z.of_N (permits s) - Z.of_N (f_req (get s f)))%Z
          with true by (symmetry; apply Z.eqb_eq; lia).
        reflexivity.
    + destruct Hled as [Ep Er].
      constructor; cbn [l_permits l_rels l_req l_ok]; auto; try congruence.
      rewrite Lok, Hpp, Hpr, Ep, Er, Lp, Lr, Z.eqb_refl, Nat.eqb_refl. reflexivity.
  - destruct Hled as [Ep Er].
    constructor; cbn [l_permits l_rels l_req l_ok]; auto; try congruence.
    rewrite Lok, Hpp, Hpr, Ep, Er, Lp, Lr, Z.eqb_refl, Nat.eqb_refl. reflexivity.
  - destruct (res_is R_SOME ob).
    + destruct Hled as (Hle & Ep & Er).
      constructor; cbn [l_permits l_rels l_req l_ok]; auto; try congruence.
      * rewrite Ep, Lp. lia.
      * rewrite Lok, Hpp, Hpr, Ep, Er, Lp, Lr, Nat.eqb_refl.
        replace (Z.of_N n <=? Z.of_N (permits s))%Z with true by (symmetry; apply Z.leb_le; lia).
        replace (Z.of_N (permits s - n) =? Z.of_N (permits s) - Z.of_N n)%Z
          with true by (symmetry; apply Z.eqb_eq; lia).
        reflexivity.
    + destruct Hled as [Ep Er].
      constructor; cbn [l_permits l_rels l_req l_ok]; auto; try congruence.
      rewrite Lok, Hpp, Hpr, Ep, Er, Lp, Lr, Z.eqb_refl, Nat.eqb_refl. reflexivity.
  - destruct Hled as [Ep Er].
    constructor; cbn [l_permits l_rels l_req l_ok]; auto; try congruence.
    + rewrite Ep, Lp. lia.
    + rewrite Lok, Hpp, Hpr, Ep, Er, Lp, Lr, Nat.eqb_refl.
      replace (Z.of_N (permits s + n) =? Z.of_N (permits s) + Z.of_N n)%Z
          with true by (symmetry; apply Z.eqb_eq; lia).
      reflexivity.
  - destruct Hled as (Ea & Ep & Er).
    constructor; cbn [l_permits l_rels l_req l_ok]; auto; try congruence.
    rewrite Lok, Hpp, Hpr, Ea, Ep, Er, Lp, Lr, Z.eqb_refl, Nat.eqb_refl, N.eqb_refl. reflexivity.
  - destruct Hled as (Ea & Ep & Er).
    constructor; cbn [l_permits l_rels l_req l_ok]; auto; try congruence.
    + rewrite Ep, Lp, Lr. lia.
    + rewrite Lok, Hpp, Hpr, Ea, Ep, Er, Lp, Lr, Nat.eqb_refl, N.eqb_refl.
      replace (Z.of_N (permits s + nth i (rels s) 0%N) =? Z.of_N (permits s) + Z.of_N (nth i (rels s) 0%N))%Z
          with true by (symmetry; apply Z.eqb_eq; lia).
      reflexivity.
Qed.

Theorem ledger_holds : forall k b p0 fixed ops,
  legal_run (init k b p0 fixed) ops ->
  ledger_ok k p0 (trace (init k b p0 fixed) ops) = true.
Proof.
  intros k b p0 fixed ops Hl. unfold ledger_ok.
  assert (G : forall ops s l, LedgerLink s l -> legal_run s ops ->
              l_ok (fold_left ledger_step (trace s ops) l) = true).
  { induction ops0 as [|o r IH]; simpl; intros s l L Hr.
    - apply (ll_ok s l L).
    - destruct Hr as [H1 H2]. apply IH with (s := fst (step s o)); auto.
      apply ledger_step_ok; auto. }
  apply G with (s := init k b p0 fixed); auto.
  constructor; simpl; auto.
  - rewrite !repeat_length. auto.
  - intros g. unfold get; simpl. rewrite nth_repeat_absent. discriminate.
Qed.

Lemma res_kind s o :
  (res_is R_READY (snd (step s o)) = true -> exists f w, o = Poll f w) /\
  (res_is R_SOME (snd (step s o)) = true -> exists n, o = TryAcquire n).
Proof.
  destruct o as [f n|f w|f|n|n|i|i]; try (split; intros; eauto; fail); unfold step;
    try (destruct (do_release _ _ _) as [s1 wk1]);
    step_tree; cbn [snd]; res_eval; split; intros; try discriminate; eauto.
Qed.

Theorem grant_exact : forall k b p0 fixed s o,
  Reach k b p0 fixed s -> legal s o = true ->
  (res_is R_READY (snd (step s o)) = true \/ res_is R_SOME (snd (step s o)) = true) ->
  exists n, (match o with Poll f _ => n = f_req (get s f) | TryAcquire m => n = m | _ => False end) /\
            (n <= permits s)%N /\
            permits (fst (step s o)) = (permits s - n)%N /\
            rels (fst (step s o)) = rels s ++ [n].
Proof.
  intros k b p0 fixed s o _ _ Hres.
  pose proof (step_ledger s o) as [_ Hled]. destruct (res_kind s o) as [K1 K2].
  destruct Hres as [Hres|Hres].
  - destruct (K1 Hres) as (f & w & ->). rewrite Hres in Hled.
    exists (f_req (get s f)). tauto.
  - destruct (K2 Hres) as (n & ->). rewrite Hres in Hled. exists n. tauto.
Qed.

Theorem releaser_once : forall s i,
  legal s (DropReleaser i) = true ->
  let s' := fst (step s (DropReleaser i)) in
  permits s' = (permits s + nth i (rels s) 0)%N /\ rels s' = remove_nth i (rels s).
Proof.
  intros s i _ s'. pose proof (step_ledger s (DropReleaser i)) as [_ (_ & H)]. exact H.
Qed.

Theorem disarm_spec : forall s i,
  step s (Disarm i) =
  (mkState (fair s) (permits s) (waiters s) (futs s) (upd i 0%N (rels s)) (fx s) (clock s),
   mk_obs (mkState (fair s) (permits s) (waiters s) (futs s) (upd i 0%N (rels s)) (fx s) (clock s))
          [R_UNIT; nth i (rels s) 0%N] []).
Proof. reflexivity. Qed.

(* ------------------------------------------------------------------ *)
(* list facts about the oldest element *)
Lemma olast_cons {A} (x : A) l : l <> [] -> olast (x :: l) = olast l.
Proof. destruct l; simpl; congruence. Qed.

Lemma olast_remove (l : list fid) g f :
  olast l = Some g -> g <> f -> olast (remove f l) = Some g.
Proof.
  intros Hl Hne. apply olast_Some_split in Hl. rewrite Hl.
  unfold remove. rewrite filter_app. simpl.
  apply Nat.eqb_neq in Hne. rewrite Hne. simpl. apply olast_app.
Qed.

Lemma olast_nonempty {A} (l : list A) : l <> [] -> exists x, olast l = Some x.
Proof.
  intros H. destruct (olast l) eqn:E; eauto. apply olast_None in E. contradiction.
Qed.

Lemma olast_rev {A} (l : list A) : olast (rev l) = hd_error l.
Proof. destruct l; simpl; auto. apply olast_app. Qed.

Lemma olast_app_r {A} (a c : list A) : c <> [] -> olast (a ++ c) = olast c.
Proof.
  intros Hc. induction a as [|h t IH]; simpl; auto.
  rewrite IH. destruct (t ++ c) eqn:E; auto.
  apply app_eq_nil in E. destruct E; contradiction.
Qed.

Lemma remove_app f a c : remove f (a ++ c) = remove f a ++ remove f c.
Proof. unfold remove. apply filter_app. Qed.

Lemma upd_nth_same {A} n (d : A) l : upd n (nth n l d) l = l.
Proof. revert n; induction l as [|h t IH]; intros [|n]; simpl; auto. f_equal. apply IH. Qed.

(* ------------------------------------------------------------------ *)
(* the invariant *)
Definition inq (fr : bool) (x : fut) : Prop :=
  f_alive x = true /\ f_hp x = true /\ (f_st x = Waiting \/ (fr = true /\ f_st x = Notified)).

Record FutOk (x : fut) : Prop := {
  fo_new : f_st x = New -> f_hp x = true;
  fo_wait : f_st x = Waiting ->
            f_hp x = true /\ f_task x = f_lastw x /\ f_lastw x <> None /\ f_req x <> 0%N;
  fo_noti : f_st x = Notified ->
            f_hp x = true /\ f_task x = f_lastw x /\ f_lastw x <> None /\ f_woken x = true /\ f_req x <> 0%N;
  fo_done : f_st x = Done <-> f_hp x = false
}.

Record Base (s : state) : Prop := {
  b_fx : fx s = true;
  b_nodup : NoDup (waiters s);
  b_exact : forall f, In f (waiters s) <-> inq (fair s) (get s f);
  b_fut : forall f, f_alive (get s f) = true -> FutOk (get s f);
  b_dead : forall f, f_alive (get s f) = false -> get s f = absent
}.

(* permits promised to notified futures (unfair mode: these left the queue) *)
Definition wt (x : fut) : N := match f_st x with Notified => f_req x | _ => 0%N end.
Definition rsv (fs : list fut) : N := fold_right (fun x a => (wt x + a)%N) 0%N fs.

Lemma rsv_upd f x' fs :
  f < length fs -> (rsv (upd f x' fs) + wt (nth f fs absent) = rsv fs + wt x')%N.
Proof.
  revert f; induction fs as [|h t IH]; intros [|f] H; simpl in *; try lia.
  specialize (IH f ltac:(lia)). lia.
Qed.

Lemma rsv_zero fs : (forall g, wt (nth g fs absent) = 0%N) -> rsv fs = 0%N.
Proof.
  induction fs as [|h t IH]; intros H; simpl; auto.
  pose proof (H 0) as H0. simpl in H0. rewrite H0, IH; auto.
  intros g. apply (H (S g)).
Qed.

Record Prog (s : state) : Prop := {
  p_unfair : fair s = false -> forall g, olast (waiters s) = Some g ->
             (permits s < f_req (get s g) + rsv (futs s))%N;
  p_fair_a : fair s = true -> forall g, olast (waiters s) = Some g ->
             f_st (get s g) = Notified \/ (permits s < f_req (get s g))%N;
  p_fair_b : fair s = true -> forall f, f_alive (get s f) = true -> f_st (get s f) = Notified ->
             olast (waiters s) = Some f /\ (f_req (get s f) <= permits s)%N
}.

Definition Pb (s : state) : Prop :=
  fair s = true -> forall f, f_alive (get s f) = true -> f_st (get s f) = Notified ->
  olast (waiters s) = Some f /\ (f_req (get s f) <= permits s)%N.

Definition Inv (s : state) : Prop := Base s /\ Prog s.

Lemma inv_init k b p : Inv (init k b p true).
Proof.
  split; constructor; simpl; auto.
  - constructor.
  - intros f. unfold get; simpl. rewrite nth_repeat_absent. unfold inq; simpl.
    split; [tauto|intros [H _]; discriminate].
  - intros f. unfold get; simpl. rewrite nth_repeat_absent. discriminate.
  - intros f _. unfold get; simpl. apply nth_repeat_absent.
  - intros _ g; discriminate.
  - intros _ g; discriminate.
  - intros _ f. unfold get; simpl. rewrite nth_repeat_absent. discriminate.
Qed.

Lemma base_set s f x' p ws rl ck :
  Base s -> f < length (futs s) -> NoDup ws ->
  (forall g, g <> f -> (In g ws <-> In g (waiters s))) ->
  (In f ws <-> inq (fair s) x') ->
  (f_alive x' = true -> FutOk x') ->
  (f_alive x' = false -> x' = absent) ->
  Base (mkState (fair s) p ws (upd f x' (futs s)) rl (fx s) ck).
Proof.
  intros [Hfx Hnd Hex Hfut Hdead] Hlt Hnd' Hoth Hf Hok Habs.
  constructor; cbn [futs waiters fair fx]; auto.
  - intros g. upd_cases g Hlt; auto. rewrite Hoth by auto. apply Hex.
  - intros g. upd_cases g Hlt; auto. apply Hfut.
  - intros g. upd_cases g Hlt; auto. apply Hdead.
Qed.

Lemma base_frame s p rl ck :
  Base s -> Base (mkState (fair s) p (waiters s) (futs s) rl (fx s) ck).
Proof. intros [Hfx Hnd Hex Hfut Hdead]. constructor; auto. Qed.

Lemma in_alive_lt m g : Base m -> In g (waiters m) -> g < length (futs m).
Proof. intros B H. apply (b_exact m B) in H. destruct H as [Ha _]. apply alive_lt; auto. Qed.

(* ------------------------------------------------------------------ *)
(* wakeup_waiters *)
Definition wake (m : state) : state * list wid :=
  let '(ws', fs', wk) := wakeup_waiters (fair m) (permits m) (waiters m) (futs m) in
  (mkState (fair m) (permits m) ws' fs' (rels m) (fx m) (clock m), wk).

Definition tasks (fs : list fut) (l : list fid) : list wid :=
  flat_map (fun g => match f_task (nth g fs absent) with Some w => [w] | None => [] end) l.

Lemma st_match {A} (x : fut) (a c : A) :
  f_st x <> Notified -> match f_st x with Notified => a | _ => c end = c.
Proof. destruct (f_st x); congruence. Qed.

Lemma wakeup_unfair : forall order avail fs acc post fs' wk,
  NoDup order ->
  (forall g, In g order -> g < length fs /\ f_st (nth g fs absent) <> Notified) ->
  wakeup false avail order fs acc = (post, fs', wk) ->
  exists pre avail',
    order = pre ++ post /\ length fs' = length fs /\
    (forall g, In g pre -> nth g fs' absent = notify (nth g fs absent)) /\
    (forall g, ~ In g pre -> nth g fs' absent = nth g fs absent) /\
    wk = acc ++ tasks fs pre /\
    (rsv fs' + avail' = rsv fs + avail)%N /\
    (forall g, hd_error post = Some g -> (avail' < f_req (nth g fs absent))%N).
Proof.
  induction order as [|f r IH]; intros avail fs acc post fs' wk Hnd Hin H; cbn [wakeup] in H.
  - inv H. exists [], avail. simpl. rewrite app_nil_r. repeat split; auto; try tauto. discriminate.
  - destruct (N.ltb_spec avail (f_req (nth f fs absent))) as [Hlt|Hge].
    + inv H. exists [], avail. simpl. rewrite app_nil_r. repeat split; auto; try tauto.
      intros g Hg. inv Hg. auto.
    + destruct (Hin f (or_introl eq_refl)) as [Hflt Hfst].
      rewrite (st_match _ _ _ Hfst) in H. inv Hnd.
      set (x := nth f fs absent) in *.
      set (fs1 := upd f (notify x) fs) in *.
      assert (Hfs1 : forall g, g <> f -> nth g fs1 absent = nth g fs absent).
      { intros g Hg. unfold fs1. apply nth_upd_other. auto. }
      apply IH in H; auto.
      * destruct H as (pre & avail' & Hsplit & Hlen & Hpre & Hoth & Hwk & Hrsv & Hstop).
        assert (Hfpre : ~ In f pre).
        { intro Hf. apply H2. rewrite Hsplit. apply in_or_app. auto. }
        assert (Hne : forall g, In g r -> g <> f) by (intros g Hg ->; auto).
        exists (f :: pre), avail'. repeat split.
        -- simpl. f_equal. auto.
        -- rewrite Hlen. unfold fs1. apply upd_length.
        -- intros g [<-|Hg].
           ++ rewrite Hoth by auto. unfold fs1. apply nth_upd_same; auto.
           ++ rewrite Hpre by auto. rewrite Hfs1; auto.
              apply Hne. rewrite Hsplit. apply in_or_app; auto.
        -- intros g Hg. rewrite Hoth by (intro; apply Hg; right; auto).
           apply Hfs1. intro; subst; apply Hg; left; auto.
        -- rewrite Hwk. unfold tasks. simpl. fold x.
           assert (E : flat_map (fun g => match f_task (nth g fs1 absent) with Some w => [w] | None => [] end) pre =
                       flat_map (fun g => match f_task (nth g fs absent) with Some w => [w] | None => [] end) pre).
           { apply flat_map_ext_in. intros a Ha. rewrite Hfs1; auto.
             apply Hne. rewrite Hsplit. apply in_or_app; auto. }
           rewrite E. destruct (f_task x); simpl; auto. rewrite <- app_assoc. auto.
        -- pose proof (rsv_upd f (notify x) fs Hflt) as R. fold fs1 in R. fold x in R.
           unfold wt in R at 1. rewrite (st_match _ _ _ Hfst) in R.
           unfold wt, notify in R; simpl in R. lia.
        -- intros g Hg. specialize (Hstop g Hg). rewrite Hfs1 in Hstop; auto.
           apply Hne. rewrite Hsplit. apply in_or_app. right.
           destruct post; inv Hg. left; auto.
      * intros g Hg. unfold fs1. rewrite upd_length. rewrite nth_upd_other by (intro; subst; auto).
        apply Hin. right; auto.
Qed.

Lemma wakeup_fair_spec p ws fs :
  wakeup_waiters true p ws fs =
  match olast ws with
  | None => (ws, fs, [])
  | Some g =>
      let x := nth g fs absent in
      if N.ltb p (f_req x) then (ws, fs, [])
      else match f_st x with
           | Notified => (ws, fs, [])
           | _ => (ws, upd g (notify x) fs, match f_task x with Some w => [w] | None => [] end)
           end
  end.
Proof.
  unfold wakeup_waiters.
  assert (Hws : ws = rev (rev ws)) by (symmetry; apply rev_involutive).
  assert (Hol : olast ws = hd_error (rev ws)) by (rewrite Hws at 1; apply olast_rev).
  rewrite Hol. destruct (rev ws) as [|g r] eqn:E; cbn [wakeup hd_error].
  - rewrite Hws. reflexivity.
  - cbv zeta. clear Hol E. subst ws.
    destruct (N.ltb p (f_req (nth g fs absent))); auto.
    destruct (f_st (nth g fs absent)); auto.
Qed.

Lemma NoDup_app_inv {A} (a c : list A) :
  NoDup (a ++ c) -> NoDup a /\ NoDup c /\ (forall x, In x c -> ~ In x a).
Proof.
  induction a as [|h t IH]; simpl; intros H.
  - repeat split; auto. constructor.
  - inv H. destruct (IH H3) as (N1 & N2 & N3). repeat split; auto.
    + constructor; auto. intro; apply H2; apply in_or_app; auto.
    + intros x Hx [->|Ht]; [apply H2; apply in_or_app; auto|apply (N3 x); auto].
Qed.

Definition wake_gen (m s' : state) (wk : list wid) (pre rest : list fid) : Prop :=
  waiters m = rest ++ pre /\
  fair s' = fair m /\ permits s' = permits m /\ rels s' = rels m /\ fx s' = fx m /\
  waiters s' = (if fair m then waiters m else rest) /\
  length (futs s') = length (futs m) /\
  (forall g, In g pre -> f_st (get m g) <> Notified /\ get s' g = notify (get m g)) /\
  (forall g, ~ In g pre -> get s' g = get m g) /\
  (forall w, In w wk <-> exists g, In g pre /\ f_task (get m g) = Some w).

Lemma in_tasks fs l w : In w (tasks fs l) <-> exists g, In g l /\ f_task (nth g fs absent) = Some w.
Proof.
  unfold tasks. rewrite in_flat_map. split; intros (g & Hg & H); exists g; split; auto.
  - destruct (f_task (nth g fs absent)); simpl in H; [destruct H as [->|[]]; auto|destruct H].
  - rewrite H. left; auto.
Qed.

Lemma base_waiting_unfair m g :
  Base m -> fair m = false -> In g (waiters m) -> f_st (get m g) = Waiting.
Proof.
  intros B Ef H. apply (b_exact m B) in H. destruct H as (_ & _ & [W|[D _]]); auto. congruence.
Qed.

Lemma wake_unfair m :
  Base m -> fair m = false ->
  exists pre rest avail',
    wake_gen m (fst (wake m)) (snd (wake m)) pre rest /\
    (rsv (futs (fst (wake m))) + avail' = rsv (futs m) + permits m)%N /\
    (forall g, olast rest = Some g -> (avail' < f_req (get m g))%N).
Proof.
  intros B Ef. unfold wake, wakeup_waiters. rewrite Ef.
  destruct (wakeup false (permits m) (rev (waiters m)) (futs m) []) as [[post fs'] wk] eqn:E.
  apply wakeup_unfair in E.
  - destruct E as (pre & avail' & Hsplit & Hlen & Hpre & Hoth & Hwk & Hrsv & Hstop).
    exists (rev pre), (rev post), avail'. cbn [fst snd].
    split; [|split]; auto.
    + unfold wake_gen; cbn [fair permits rels fx waiters futs]. rewrite Ef.
      repeat split; auto.
      * rewrite <- rev_app_distr, <- Hsplit, rev_involutive. auto.
      * intros D. apply in_rev in H.
        assert (Hin : In g (waiters m)).
        { apply in_rev. rewrite Hsplit. apply in_or_app; auto. }
        pose proof (base_waiting_unfair m g B Ef Hin). congruence.
      * apply in_rev in H. unfold get; cbn [futs]. apply Hpre; auto.
      * intros g Hg. unfold get; cbn [futs]. apply Hoth. intro; apply Hg. apply -> in_rev; auto.
      * subst wk. simpl. rewrite in_tasks. intros (g & Hg & Ht). exists g. split; auto.
        apply -> in_rev; auto.
      * subst wk. simpl. rewrite in_tasks. intros (g & Hg & Ht). exists g. split; auto.
        apply in_rev; auto.
    + intros g Hg. rewrite olast_rev in Hg. apply Hstop; auto.
  - apply NoDup_rev. apply (b_nodup m B).
  - intros g Hg. apply in_rev in Hg. split; [apply in_alive_lt; auto|].
    pose proof (base_waiting_unfair m g B Ef Hg) as W. unfold get in W. congruence.
Qed.

Lemma wake_gen_nil m s' :
  fair s' = fair m -> permits s' = permits m -> rels s' = rels m -> fx s' = fx m ->
  waiters s' = waiters m -> futs s' = futs m ->
  wake_gen m s' [] [] (waiters m).
Proof.
  intros. unfold wake_gen. rewrite app_nil_r. repeat split; auto; try tauto.
  - destruct (fair m); auto.
  - congruence.
  - match goal with H : In _ [] |- _ => destruct H end.
  - intros g _. unfold get. congruence.
  - intros [].
  - intros (g & [] & _).
Qed.

Lemma wake_fair m :
  Base m -> fair m = true ->
  (wake_gen m (fst (wake m)) (snd (wake m)) [] (waiters m) /\
   forall g, olast (waiters m) = Some g ->
             (permits m < f_req (get m g))%N \/
             (f_st (get m g) = Notified /\ (f_req (get m g) <= permits m)%N))
  \/
  (exists g, olast (waiters m) = Some g /\ (f_req (get m g) <= permits m)%N /\
             wake_gen m (fst (wake m)) (snd (wake m)) [g] (removelast (waiters m))).
Proof.
  intros B Ef. unfold wake. rewrite Ef, wakeup_fair_spec.
  destruct (olast (waiters m)) as [g|] eqn:Eol.
  - cbv zeta. fold (get m g).
    destruct (N.ltb_spec (permits m) (f_req (get m g))) as [Hlt|Hge].
    + left. cbn [fst snd]. split; [apply wake_gen_nil; auto|].
      intros g' Hg'. inv Hg'. auto.
    + destruct (f_st (get m g)) eqn:Est;
        try (right; exists g; split; [auto|]; split; [auto|]; cbn [fst snd];
             pose proof (olast_In _ _ Eol) as Hin;
             pose proof (in_alive_lt m g B Hin) as Hlt;
             unfold wake_gen; cbn [fair permits rels fx waiters futs]; rewrite Ef;
             repeat split; auto;
             [ apply olast_Some_split; auto
             | apply upd_length
             | destruct H as [<-|[]]; congruence
             | destruct H as [<-|[]]; unfold get; cbn [futs]; apply nth_upd_same; auto
             | intros h Hh; unfold get; cbn [futs]; apply nth_upd_other; intro; subst; apply Hh; left; auto
             | intros Hw; exists g; split; [left; auto|]; destruct (f_task (get m g)); simpl in Hw;
                 [destruct Hw as [->|[]]; auto|destruct Hw]
             | intros (h & [<-|[]] & Ht); rewrite Ht; left; auto ]).
      left. cbn [fst snd]. split; [apply wake_gen_nil; auto|].
      intros g' Hg'. inv Hg'. auto.
  - left. cbn [fst snd]. split; [apply wake_gen_nil; auto|]. intros g; discriminate.
Qed.

Lemma notify_ok x : FutOk x -> f_st x = Waiting -> FutOk (notify x).
Proof.
  intros [Fn Fw Fno Fd] W. destruct (Fw W) as (Hhp & Ht & Hl & Hr).
  constructor; simpl; try discriminate.
  - intros _. repeat split; auto.
    rewrite Ht. destruct (f_lastw x); [|congruence]. rewrite Nat.eqb_refl. apply orb_true_r.
  - split; [discriminate|congruence].
Qed.

Lemma base_wake m s' wk pre rest : Base m -> wake_gen m s' wk pre rest -> Base s'.
Proof.
  intros B (Hsplit & Efair & _ & _ & Efx & Hws & Hlen & Hpre & Hoth & _).
  pose proof B as [Hfx Hnd Hex Hfut Hdead].
  assert (Hinpre : forall g, In g pre -> In g (waiters m)).
  { intros g Hg. rewrite Hsplit. apply in_or_app; auto. }
  assert (Hpw : forall g, In g pre -> f_alive (get m g) = true /\ f_hp (get m g) = true /\ f_st (get m g) = Waiting).
  { intros g Hg. destruct (Hpre g Hg) as [Hn _]. apply Hinpre in Hg. apply Hex in Hg.
    destruct Hg as (A & H & [W|[_ D]]); auto. congruence. }
  assert (Hdisj : forall g, In g pre -> ~ In g rest).
  { intros g Hg Hr. rewrite Hsplit in Hnd. apply NoDup_app_inv in Hnd.
    destruct Hnd as (_ & _ & D). apply (D g); auto. }
  constructor.
  - congruence.
  - rewrite Hws. destruct (fair m); auto. rewrite Hsplit in Hnd. apply NoDup_app_inv in Hnd. tauto.
  - intros f. rewrite Hws, Efair. destruct (in_dec Nat.eq_dec f pre) as [Hp|Hp].
    + destruct (Hpre f Hp) as [_ E]. rewrite E. destruct (Hpw f Hp) as (A & H & W).
      unfold inq; simpl. destruct (fair m).
      * split; [intros _; repeat split; auto|intros _; auto].
      * split; [intros Hr; exfalso; apply (Hdisj f); auto|].
        intros (_ & _ & [D|[D _]]); discriminate.
    + rewrite (Hoth f Hp). rewrite <- Hex. destruct (fair m); [tauto|].
      rewrite Hsplit. rewrite in_app_iff. tauto.
  - intros f. destruct (in_dec Nat.eq_dec f pre) as [Hp|Hp].
    + destruct (Hpre f Hp) as [_ E]. rewrite E. destruct (Hpw f Hp) as (A & H & W).
      intros _. apply notify_ok; auto.
    + rewrite (Hoth f Hp). apply Hfut.
  - intros f. destruct (in_dec Nat.eq_dec f pre) as [Hp|Hp].
    + destruct (Hpre f Hp) as [_ E]. rewrite E. destruct (Hpw f Hp) as (A & H & W).
      simpl. congruence.
    + rewrite (Hoth f Hp). apply Hdead.
Qed.

Lemma wake_inv m : Base m -> Pb m -> Inv (fst (wake m)).
Proof.
  intros B P. destruct (fair m) eqn:Ef.
  - destruct (wake_fair m B Ef) as [[G Hstop]|(g & Hol & Hle & G)].
    + split; [eapply base_wake; eauto|].
      destruct G as (Hsplit & Efair & Ep & _ & _ & Hws & _ & _ & Hoth & _).
      rewrite Ef in Hws.
      constructor; rewrite Efair, Hws, Ep; try congruence.
      * intros _ g Hg. rewrite (Hoth g) by auto. destruct (Hstop g Hg) as [H|[H _]]; auto.
      * intros _ f. rewrite (Hoth f) by auto. apply P; auto.
    + split; [eapply base_wake; eauto|].
      destruct G as (Hsplit & Efair & Ep & _ & _ & Hws & _ & Hpre & Hoth & _).
      rewrite Ef in Hws. destruct (Hpre g (or_introl eq_refl)) as [Hnn Eg].
      constructor; rewrite Efair, Hws, Ep; try congruence.
      * intros _ g' Hg'. assert (g' = g) by congruence. subst g'. rewrite Eg. left; reflexivity.
      * intros _ f. destruct (Nat.eq_dec f g) as [->|Hne].
        -- rewrite Eg. simpl. auto.
        -- rewrite (Hoth f) by (intros [D|[]]; congruence).
           intros Ha Hn. destruct (P Ef f Ha Hn) as [Hol' _]. congruence.
  - destruct (wake_unfair m B Ef) as (pre & rest & avail' & G & Hrsv & Hstop).
    split; [eapply base_wake; eauto|].
    destruct G as (Hsplit & Efair & Ep & _ & _ & Hws & _ & Hpre & Hoth & _).
    rewrite Ef in Hws.
    constructor; rewrite Efair; try congruence.
    intros _ g Hg. rewrite Hws in Hg. rewrite Ep.
    assert (Hnp : ~ In g pre).
    { intro Hp. pose proof (b_nodup m B) as Hnd. rewrite Hsplit in Hnd.
      apply olast_In in Hg. apply NoDup_app_inv in Hnd.
      destruct Hnd as (_ & _ & D). apply (D g); auto. }
    rewrite (Hoth g Hnp). specialize (Hstop g Hg). lia.
Qed.

(* ------------------------------------------------------------------ *)
(* normal forms of the successor states: a local update [m], then possibly wakeup_waiters *)
Definition done_fut (x : fut) (w : wid) : fut :=
  set_fut x false Done (f_task x) false (Some w) (f_stamp x).
Definition wait_fut (x : fut) (w : wid) (sp : nat) : fut :=
  set_fut x true Waiting (Some w) false (Some w) sp.

Definition take_state (s : state) (f : fid) (w : wid) : state :=
  mkState (fair s) (permits s - f_req (get s f)) (remove f (waiters s))
          (upd f (done_fut (get s f) w) (futs s)) (rels s ++ [f_req (get s f)]) (fx s) (clock s).
Definition reg_state (s : state) (f : fid) (w : wid) : state :=
  mkState (fair s) (permits s) (f :: waiters s)
          (upd f (wait_fut (get s f) w (S (clock s))) (futs s)) (rels s) (fx s) (S (clock s)).
Definition rewait_state (s : state) (f : fid) (w : wid) : state :=
  mkState (fair s) (permits s) (waiters s)
          (upd f (wait_fut (get s f) w (f_stamp (get s f))) (futs s)) (rels s) (fx s) (clock s).
Definition drop_state (s : state) (f : fid) : state :=
  mkState (fair s) (permits s) (remove f (waiters s)) (upd f absent (futs s)) (rels s) (fx s) (clock s).
Definition create_state (s : state) (f : fid) (n : N) : state :=
  mkState (fair s) (permits s) (waiters s) (upd f (fresh n) (futs s)) (rels s) (fx s) (clock s).
Definition rel_state (s : state) (p : N) (rl : list N) : state :=
  mkState (fair s) p (waiters s) (futs s) rl (fx s) (clock s).

Definition fin (b : bool) (m : state) (res : list N) : state * obs :=
  if b then (fst (wake m), mk_obs (fst (wake m)) res (snd (wake m))) else (m, mk_obs m res []).

Definition isN (p : pst) : bool := match p with Notified => true | _ => false end.
Definition isWN (p : pst) : bool := match p with Waiting | Notified => true | _ => false end.

Inductive outcome (s : state) : op -> bool -> state -> list N -> Prop :=
| oc_create f n :
    f < length (futs s) -> f_alive (get s f) = false ->
    outcome s (Create f n) false (create_state s f n) [R_UNIT]
| oc_take f w :
    f_alive (get s f) = true -> f_hp (get s f) = true ->
    (f_req (get s f) <= permits s)%N ->
    ((f_st (get s f) = New /\ (fair s = true -> waiters s = [] \/ f_req (get s f) = 0%N)) \/
     (f_st (get s f) = Waiting /\ fair s = false) \/
     f_st (get s f) = Notified) ->
    outcome s (Poll f w) (fair s && isN (f_st (get s f))) (take_state s f w) [R_READY; f_req (get s f)]
| oc_reg f w :
    f_alive (get s f) = true -> f_hp (get s f) = true -> ~ In f (waiters s) ->
    ((f_st (get s f) = New /\ can_acquire_sync s (f_req (get s f)) = false) \/
     (f_st (get s f) = Notified /\ fair s = false /\ (permits s < f_req (get s f))%N)) ->
    outcome s (Poll f w) (isN (f_st (get s f))) (reg_state s f w) [R_PENDING]
| oc_rewait f w :
    f_alive (get s f) = true -> f_st (get s f) = Waiting ->
    (fair s = true \/ (permits s < f_req (get s f))%N) ->
    outcome s (Poll f w) false (rewait_state s f w) [R_PENDING]
| oc_drop f :
    f_alive (get s f) = true ->
    outcome s (DropFut f) (f_hp (get s f) && isWN (f_st (get s f))) (drop_state s f) [R_UNIT]
| oc_try_ok n :
    can_acquire_sync s n = true ->
    outcome s (TryAcquire n) false (rel_state s (permits s - n) (rels s ++ [n])) [R_SOME]
| oc_try_no n :
    can_acquire_sync s n = false ->
    outcome s (TryAcquire n) false s [R_NONE]
| oc_release n :
    outcome s (Release n) (negb (N.eqb n 0)) (rel_state s (permits s + n) (rels s)) [R_UNIT]
| oc_disarm i :
    outcome s (Disarm i) false (rel_state s (permits s) (upd i 0%N (rels s))) [R_UNIT; nth i (rels s) 0%N]
| oc_droprel i :
    outcome s (DropReleaser i) (negb (N.eqb (nth i (rels s) 0%N) 0))
            (rel_state s (permits s + nth i (rels s) 0%N) (remove_nth i (rels s)))
            [R_UNIT; nth i (rels s) 0%N].

Lemma do_release_fin s n rl res :
  (let '(s', wk) := do_release s n rl in (s', mk_obs s' res wk)) =
  fin (negb (N.eqb n 0)) (rel_state s (permits s + n) rl) res.
Proof.
  unfold do_release, fin, wake, rel_state. cbn [fair permits waiters futs rels fx clock].
  destruct (N.eqb_spec n 0) as [->|Hn]; cbn [negb].
  - rewrite N.add_0_r. reflexivity.
  - destruct (wakeup_waiters _ _ _ _) as [[ws' fs'] wk]. reflexivity.
Qed.

Lemma notin_new s f : Base s -> f_st (get s f) = New -> ~ In f (waiters s).
Proof. intros B E H. apply (b_exact s B) in H. destruct H as (_ & _ & [D|[_ D]]); congruence. Qed.

Lemma notin_done s f : Base s -> f_st (get s f) = Done -> ~ In f (waiters s).
Proof. intros B E H. apply (b_exact s B) in H. destruct H as (_ & _ & [D|[_ D]]); congruence. Qed.

Lemma notin_nohp s f : Base s -> f_hp (get s f) = false -> ~ In f (waiters s).
Proof. intros B E H. apply (b_exact s B) in H. destruct H as (_ & D & _); congruence. Qed.

Lemma notin_noti_unfair s f : Base s -> fair s = false -> f_st (get s f) = Notified -> ~ In f (waiters s).
Proof. intros B Ef E H. apply (b_exact s B) in H. destruct H as (_ & _ & [D|[D _]]); congruence. Qed.

Lemma in_waiting s f :
  Base s -> f_alive (get s f) = true -> f_st (get s f) = Waiting -> In f (waiters s).
Proof.
  intros B Ha E. apply (b_exact s B). destruct (b_fut s B f Ha) as [_ Fw _ _].
  destruct (Fw E) as (Hhp & _). repeat split; auto.
Qed.

Lemma step_out s o :
  Inv s -> legal s o = true -> exists b m res, outcome s o b m res /\ step s o = fin b m res.
Proof.
  intros [B P] Hl. pose proof B as [Hfx Hnd Hex Hfut Hdead].
  destruct o as [f n|f w|f|n|n|i|i]; simpl in Hl; bool_hyps.
  - do 3 eexists. split; [apply oc_create; auto|reflexivity].
  - rename H into Ha. rename H0 into Hhp.
    destruct (Hfut f Ha) as [Fn Fw Fno Fd].
    unfold step. rewrite Hhp. cbn [negb]. cbv iota zeta.
    destruct (f_st (get s f)) eqn:Est.
    + (* New *)
      pose proof (notin_new s f B Est) as Hni.
      destruct (can_acquire_sync s (f_req (get s f))) eqn:Ec.
      * exists (fair s && isN (f_st (get s f)))%bool, (take_state s f w), [R_READY; f_req (get s f)].
        split.
        -- apply oc_take; auto; [apply can_acquire_le; auto|]. left. split; auto.
           intros Ef. unfold can_acquire_sync in Ec. rewrite Ef in Ec. simpl in Ec. bool_hyps.
           apply orb_true_iff in H0. destruct H0 as [H0|H0]; bool_hyps; auto.
           destruct (waiters s); auto; discriminate.
        -- rewrite Est. rewrite andb_false_r. unfold fin, take_state. rewrite (remove_notin f _ Hni). reflexivity.
      * apply memb_false in Hni. rewrite Hni. apply memb_false in Hni.
        exists (isN (f_st (get s f))), (reg_state s f w), [R_PENDING]. split.
        -- apply oc_reg; auto.
        -- rewrite Est. reflexivity.
    + (* Waiting *)
      pose proof (in_waiting s f B Ha Est) as Hin. pose proof Hin as Hm. apply memb_In in Hm.
      destruct (negb (fair s) && N.leb (f_req (get s f)) (permits s))%bool eqn:Ec.
      * bool_hyps. rewrite Hm.
        exists (fair s && isN (f_st (get s f)))%bool, (take_state s f w), [R_READY; f_req (get s f)].
        split; [apply oc_take; auto|]. rewrite Est, andb_false_r. reflexivity.
      * exists false, (rewait_state s f w), [R_PENDING]. split; [|reflexivity].
        apply oc_rewait; auto. destruct (fair s); auto. right. simpl in Ec. bool_hyps. auto.
    + (* Notified *)
      destruct (N.leb_spec (f_req (get s f)) (permits s)) as [Hle|Hgt].
      * exists (fair s && isN (f_st (get s f)))%bool, (take_state s f w), [R_READY; f_req (get s f)].
        split; [apply oc_take; auto|]. rewrite Est, andb_true_r.
        destruct (fair s) eqn:Ef; cbn [andb].
        -- destruct (p_fair_b s P Ef f Ha Est) as [Hol _].
           apply olast_In in Hol. apply memb_In in Hol. rewrite Hol. cbn [negb]. cbv iota.
           unfold fin, wake, take_state. cbn [fair permits waiters futs rels fx clock]. rewrite Ef.
           destruct (wakeup_waiters _ _ _ _) as [[ws' fs'] wk]. reflexivity.
        -- pose proof (notin_noti_unfair s f B Ef Est) as Hni.
           unfold fin, take_state. rewrite (remove_notin f _ Hni), Ef. reflexivity.
      * destruct (fair s) eqn:Ef.
        -- exfalso. destruct (p_fair_b s P Ef f Ha Est) as [_ Hle]. lia.
        -- pose proof (notin_noti_unfair s f B Ef Est) as Hni.
           apply memb_false in Hni. rewrite Hni. apply memb_false in Hni. rewrite Hfx.
           exists (isN (f_st (get s f))), (reg_state s f w), [R_PENDING]. split.
           ++ apply oc_reg; auto.
           ++ rewrite Est. unfold fin, wake, reg_state, wait_fut. cbn [fair permits waiters futs rels fx clock isN].
              rewrite Ef, ?Hfx. destruct (wakeup_waiters _ _ _ _) as [[ws' fs'] wk]. reflexivity.
    + destruct Fd as [Fd _]. rewrite Fd in Hhp; auto. discriminate.
  - rename Hl into Ha. destruct (Hfut f Ha) as [Fn Fw Fno Fd].
    exists (f_hp (get s f) && isWN (f_st (get s f)))%bool, (drop_state s f), [R_UNIT].
    split; [apply oc_drop; auto|].
    assert (Hplain : ~ In f (waiters s) ->
       mkState (fair s) (permits s) (waiters s) (upd f absent (futs s)) (rels s) (fx s) (clock s) = drop_state s f).
    { intros Hni. unfold drop_state. rewrite (remove_notin f _ Hni). reflexivity. }
    unfold step. cbv zeta. destruct (f_hp (get s f)) eqn:Ehp; cbn [andb].
    + destruct (f_st (get s f)) eqn:Est; cbn [isWN].
      * rewrite Hplain; [reflexivity|apply notin_new; auto].
      * pose proof (in_waiting s f B Ha Est) as Hin. apply memb_In in Hin. rewrite Hin, Hfx.
        unfold fin, wake, drop_state. cbn [fair permits waiters futs rels fx clock]. rewrite ?Hfx.
        destruct (wakeup_waiters _ _ _ _) as [[ws' fs'] wk]. reflexivity.
      * assert (Hws : (if fair s then remove f (waiters s) else waiters s) = remove f (waiters s)).
        { destruct (fair s) eqn:Ef; auto. symmetry. apply remove_notin. apply notin_noti_unfair; auto. }
        assert (Hm : (fair s && negb (memb f (waiters s)))%bool = false).
        { destruct (fair s) eqn:Ef; auto. simpl.
          destruct (p_fair_b s P Ef f Ha Est) as [Hol _].
          apply olast_In in Hol. apply memb_In in Hol. rewrite Hol. reflexivity. }
        rewrite Hm, Hws.
        unfold fin, wake, drop_state. cbn [fair permits waiters futs rels fx clock].
        destruct (wakeup_waiters _ _ _ _) as [[ws' fs'] wk]. reflexivity.
      * rewrite Hplain; [reflexivity|apply notin_done; auto].
    + rewrite Hplain; [reflexivity|apply notin_nohp; auto].
  - unfold step. destruct (can_acquire_sync s n) eqn:Ec.
    + do 3 eexists. split; [apply oc_try_ok; auto|reflexivity].
    + do 3 eexists. split; [apply oc_try_no; auto|reflexivity].
  - do 3 eexists. split; [apply oc_release|]. unfold step. apply do_release_fin.
  - do 3 eexists. split; [apply oc_disarm|reflexivity].
  - do 3 eexists. split; [apply oc_droprel|]. unfold step. cbv zeta. apply do_release_fin.
Qed.

Local Ltac ucases g Hlt :=
  unfold get, take_state, reg_state, rewait_state, drop_state, create_state, rel_state;
  cbn [futs waiters fair permits rels fx clock];
  match goal with
  | |- context [nth g (upd ?f ?x ?fs) absent] =>
      let E := fresh "E" in let Hne := fresh "Hne" in
      destruct (nth_upd_cases fs f g x Hlt) as [[-> E]|[Hne E]]; rewrite E; clear E
  end.

Lemma can_acquire_true s n :
  can_acquire_sync s n = true ->
  (n <= permits s)%N /\ (fair s = true -> waiters s = [] \/ n = 0%N).
Proof.
  unfold can_acquire_sync. intros H. bool_hyps. split; auto.
  intros Ef. rewrite Ef in H0. simpl in H0.
  apply orb_true_iff in H0. destruct H0 as [H0|H0]; bool_hyps; auto.
  destruct (waiters s); auto; discriminate.
Qed.

Lemma can_acquire_false s n :
  can_acquire_sync s n = false ->
  n <> 0%N /\ ((permits s < n)%N \/ (fair s = true /\ waiters s <> [])).
Proof.
  unfold can_acquire_sync. intros H. split.
  - intros ->. replace (N.leb 0 (permits s)) with true in H by (symmetry; apply N.leb_le; lia).
    rewrite orb_true_r in H. discriminate.
  - destruct (N.leb_spec n (permits s)) as [Hle|Hgt]; auto. right.
    simpl in H. destruct (fair s); simpl in H; [|discriminate]. split; auto.
    destruct (waiters s); [discriminate|congruence].
Qed.

Lemma fresh_ok n : FutOk (fresh n).
Proof. constructor; simpl; try discriminate; auto. split; discriminate. Qed.

Lemma done_ok x w : FutOk (done_fut x w).
Proof. constructor; simpl; try discriminate; auto. split; auto. Qed.

Lemma wait_ok x w sp : f_req x <> 0%N -> FutOk (wait_fut x w sp).
Proof.
  intros Hr. constructor; simpl; try discriminate; auto.
  - intros _. repeat split; auto. discriminate.
  - split; discriminate.
Qed.

Lemma base_outcome s o b m res : Inv s -> outcome s o b m res -> Base m.
Proof.
  intros [B P] Ho. pose proof B as [Hfx Hnd Hex Hfut Hdead].
  destruct Ho as [f n Hlt Hd|f w Ha Hhp Hle Hside|f w Ha Hhp Hni Hside|f w Ha Est Hside|f Ha
                 |n Hc|n Hc|n|i|i]; try (apply base_frame; auto; fail); auto.
  - apply base_set; auto; [tauto| |intros _; apply fresh_ok|discriminate].
    unfold inq; simpl. split; [|intros (_ & _ & [D|[_ D]]); discriminate].
    intros Hin. apply Hex in Hin. destruct Hin as (D & _). congruence.
  - pose proof (alive_lt s f Ha) as Hlt.
    apply base_set; auto.
    + apply NoDup_remove; auto.
    + intros g Hne. rewrite In_remove. tauto.
    + rewrite In_remove. unfold inq; simpl. split; [intros [_ D]; congruence|intros (_ & D & _); discriminate].
    + intros _. apply done_ok.
    + discriminate.
  - pose proof (alive_lt s f Ha) as Hlt.
    apply base_set; auto.
    + constructor; auto.
    + intros g Hne. simpl. split; [intros [D|D]; [congruence|auto]|auto].
    + unfold inq; simpl. split; [intros _; repeat split; auto|intros _; auto].
    + intros _. apply wait_ok. destruct Hside as [[_ Hc]|[Est _]].
      * apply can_acquire_false in Hc. tauto.
      * destruct (Hfut f Ha) as [_ _ Fno _]. destruct (Fno Est) as (_ & _ & _ & _ & R). auto.
    + discriminate.
  - pose proof (alive_lt s f Ha) as Hlt.
    destruct (Hfut f Ha) as [_ Fw _ _]. destruct (Fw Est) as (_ & _ & _ & R).
    apply base_set; auto.
    + tauto.
    + unfold inq; simpl. split; [intros _; repeat split; auto|intros _; apply in_waiting; auto].
    + intros _. apply wait_ok; auto.
    + discriminate.
  - pose proof (alive_lt s f Ha) as Hlt.
    apply base_set; auto.
    + apply NoDup_remove; auto.
    + intros g Hne. rewrite In_remove. tauto.
    + rewrite In_remove. unfold inq; simpl. split; [intros [_ D]; congruence|intros [D _]; discriminate].
    + discriminate.
Qed.

Lemma pb_outcome s o b m res : Inv s -> outcome s o b m res -> b = true -> Pb m.
Proof.
  intros [B P] Ho Hb. pose proof B as [Hfx Hnd Hex Hfut Hdead].
  destruct Ho as [f n Hlt Hd|f w Ha Hhp Hle Hside|f w Ha Hhp Hni Hside|f w Ha Est Hside|f Ha
                 |n Hc|n Hc|n|i|i]; try discriminate; intros Ef h.
  - (* take, fair and notified *)
    cbn [fair take_state] in Ef. rewrite Ef in Hb. simpl in Hb.
    assert (Est : f_st (get s f) = Notified) by (destruct (f_st (get s f)); try discriminate; auto).
    pose proof (alive_lt s f Ha) as Hlt.
    ucases h Hlt; [discriminate|].
    intros Hha Hhn. exfalso.
    destruct (p_fair_b s P Ef h Hha Hhn) as [O1 _].
    destruct (p_fair_b s P Ef f Ha Est) as [O2 _]. congruence.
  - (* re-queue: unfair only *)
    cbn [fair reg_state] in Ef. destruct Hside as [[Est _]|(_ & D & _)]; [|congruence].
    rewrite Est in Hb. discriminate.
  - (* drop *)
    cbn [fair drop_state] in Ef. pose proof (alive_lt s f Ha) as Hlt.
    ucases h Hlt; [discriminate|].
    intros Hha Hhn. destruct (p_fair_b s P Ef h Hha Hhn) as [O1 O2]. split; auto.
    apply olast_remove; auto.
  - cbn [fair rel_state] in Ef. unfold rel_state, get. cbn [fair permits waiters futs]. fold (get s h).
    intros Hha Hhn. destruct (p_fair_b s P Ef h Hha Hhn) as [O1 O2]. split; auto. lia.
  - cbn [fair rel_state] in Ef. unfold rel_state, get. cbn [fair permits waiters futs]. fold (get s h).
    intros Hha Hhn. destruct (p_fair_b s P Ef h Hha Hhn) as [O1 O2]. split; auto. lia.
Qed.

Local Ltac refold s :=
  repeat match goal with
  | |- context [nth ?g (futs s) absent] => change (nth g (futs s) absent) with (get s g)
  end.

Lemma wt_not x : f_st x <> Notified -> wt x = 0%N.
Proof. unfold wt. destruct (f_st x); congruence. Qed.

Lemma prog_outcome s o b m res : Inv s -> outcome s o b m res -> b = false -> Prog m.
Proof.
  intros [B P] Ho Hb.
  destruct Ho as [f n Hlt Hd|f w Ha Hhp Hle Hside|f w Ha Hhp Hni Hside|f w Ha Est Hside|f Ha
                 |n Hc|n Hc|n|i|i]; auto;
  pose proof B as [Hfx Hnd Hex Hfut Hdead]; pose proof P as [Pu Pa Pb'].
  - (* create *)
    assert (Hr : rsv (futs (create_state s f n)) = rsv (futs s)).
    { pose proof (rsv_upd f (fresh n) (futs s) Hlt) as R. fold (get s f) in R.
      rewrite (Hdead f Hd) in R. unfold create_state; cbn [futs]. unfold wt in R; simpl in R. lia. }
    assert (Hne : forall g, In g (waiters s) -> g <> f).
    { intros g Hg ->. apply Hex in Hg. destruct Hg as (D & _). congruence. }
    constructor; rewrite ?Hr; cbn [fair permits waiters create_state]; intros Ef g.
    + intros Hg. ucases g Hlt; [exfalso; apply (Hne f); auto; apply olast_In; auto|]. refold s. auto.
    + intros Hg. ucases g Hlt; [exfalso; apply (Hne f); auto; apply olast_In; auto|]. refold s. auto.
    + ucases g Hlt; [discriminate|]. refold s. auto.
  - (* take without wakeup *)
    pose proof (alive_lt s f Ha) as Hlt.
    pose proof (rsv_upd f (done_fut (get s f) w) (futs s) Hlt) as R. fold (get s f) in R.
    replace (wt (done_fut (get s f) w)) with 0%N in R by reflexivity.
    constructor; unfold take_state; cbn [fair permits waiters futs]; intros Ef g.
    + intros Hg. pose proof (olast_In _ _ Hg) as Hin. apply In_remove in Hin. destruct Hin as [Hin Hgf].
      ucases g Hlt; [congruence|]. refold s.
      assert (Hw : waiters s <> []) by (intro E; rewrite E in Hin; destruct Hin).
      destruct (olast_nonempty _ Hw) as [g0 Hg0]. pose proof (Pu Ef g0 Hg0) as Hold.
      destruct (Nat.eq_dec g0 f) as [->|Hne0].
      * assert (W : f_st (get s f) = Waiting).
        { apply (base_waiting_unfair s f B Ef). apply olast_In; auto. }
        rewrite (wt_not (get s f)) in R by congruence. lia.
      * rewrite (olast_remove _ g0 f Hg0 Hne0) in Hg. inv Hg.
        unfold wt in R. destruct (f_st (get s f)); lia.
    + rewrite Ef in Hb. simpl in Hb.
      destruct Hside as [[Est Hs]|[[_ D]|Est]]; [|congruence|rewrite Est in Hb; discriminate].
      pose proof (notin_new s f B Est) as Hni. rewrite (remove_notin f _ Hni).
      intros Hg. pose proof (olast_In _ _ Hg) as Hin.
      ucases g Hlt; [contradiction|]. refold s.
      destruct (Hs Ef) as [E|E]; [rewrite E in Hin; destruct Hin|].
      destruct (Pa Ef g Hg) as [H|H]; auto. right. lia.
    + rewrite Ef in Hb. simpl in Hb.
      destruct Hside as [[Est Hs]|[[_ D]|Est]]; [|congruence|rewrite Est in Hb; discriminate].
      pose proof (notin_new s f B Est) as Hni. rewrite (remove_notin f _ Hni).
      ucases g Hlt; [discriminate|]. refold s.
      intros Hga Hgn. destruct (Pb' Ef g Hga Hgn) as [O1 O2]. split; auto.
      destruct (Hs Ef) as [E|E]; [rewrite E in O1; discriminate|]. lia.
  - (* register *)
    pose proof (alive_lt s f Ha) as Hlt.
    destruct Hside as [[Est Hc]|[Est _]]; [|rewrite Est in Hb; discriminate].
    apply can_acquire_false in Hc. destruct Hc as [Hnz Hc].
    assert (Hr : rsv (futs (reg_state s f w)) = rsv (futs s)).
    { pose proof (rsv_upd f (wait_fut (get s f) w (S (clock s))) (futs s) Hlt) as R. fold (get s f) in R.
      rewrite (wt_not (get s f)) in R by congruence.
      replace (wt (wait_fut (get s f) w (S (clock s)))) with 0%N in R by reflexivity.
      unfold reg_state; cbn [futs]. lia. }
    assert (Hol : forall g, olast (f :: waiters s) = Some g ->
                  (waiters s = [] /\ g = f) \/ (olast (waiters s) = Some g /\ g <> f)).
    { intros g Hg. destruct (waiters s) as [|h t] eqn:E; [left; inv Hg; auto|right].
      rewrite olast_cons in Hg by discriminate. split; auto.
      intros ->. apply Hni. apply olast_In; auto. }
    constructor; rewrite ?Hr; unfold reg_state; cbn [fair permits waiters futs]; intros Ef g.
    + intros Hg. unfold get; cbn [futs]. destruct (Hol g Hg) as [[E ->]|[Hg' Hne]].
      * rewrite nth_upd_same by auto. simpl. refold s.
        destruct Hc as [Hc|[D _]]; [lia|congruence].
      * rewrite nth_upd_other by auto. refold s. auto.
    + intros Hg. unfold get; cbn [futs]. destruct (Hol g Hg) as [[E ->]|[Hg' Hne]].
      * rewrite nth_upd_same by auto. simpl. refold s. right.
        destruct Hc as [Hc|[_ D]]; [lia|congruence].
      * rewrite nth_upd_other by auto. refold s. auto.
    + ucases g Hlt; [discriminate|]. refold s.
      intros Hga Hgn. destruct (Pb' Ef g Hga Hgn) as [O1 O2]. split; auto.
      rewrite olast_cons; auto. intro E; rewrite E in O1; discriminate.
  - (* re-poll while waiting *)
    pose proof (alive_lt s f Ha) as Hlt.
    assert (Hr : rsv (futs (rewait_state s f w)) = rsv (futs s)).
    { pose proof (rsv_upd f (wait_fut (get s f) w (f_stamp (get s f))) (futs s) Hlt) as R. fold (get s f) in R.
      rewrite (wt_not (get s f)) in R by congruence.
      replace (wt (wait_fut (get s f) w (f_stamp (get s f)))) with 0%N in R by reflexivity.
      unfold rewait_state; cbn [futs]. lia. }
    constructor; rewrite ?Hr; unfold rewait_state; cbn [fair permits waiters futs]; intros Ef g.
    + intros Hg. ucases g Hlt; simpl; refold s; auto.
    + intros Hg. ucases g Hlt; simpl; refold s; auto.
      try (destruct (Pa Ef f Hg) as [D|H]; [congruence|auto]).
    + ucases g Hlt; [discriminate|]. refold s. auto.
  - (* drop of a future that is not queued *)
    pose proof (alive_lt s f Ha) as Hlt.
    destruct (Hfut f Ha) as [Fn Fw Fno Fd].
    assert (Hnq : f_st (get s f) <> Waiting /\ f_st (get s f) <> Notified).
    { destruct (f_hp (get s f)) eqn:Ehp.
      - simpl in Hb. destruct (f_st (get s f)); try discriminate; split; discriminate.
      - destruct Fd as [_ Fd]. rewrite Fd by auto. split; discriminate. }
    destruct Hnq as [Hnw Hnn].
    assert (Hni : ~ In f (waiters s)).
    { intro Hin. apply Hex in Hin. destruct Hin as (_ & _ & [D|[_ D]]); congruence. }
    assert (Hr : rsv (futs (drop_state s f)) = rsv (futs s)).
    { pose proof (rsv_upd f absent (futs s) Hlt) as R. fold (get s f) in R.
      rewrite (wt_not (get s f)) in R by congruence.
      replace (wt absent) with 0%N in R by reflexivity.
      unfold drop_state; cbn [futs]. lia. }
    constructor; rewrite ?Hr; unfold drop_state; cbn [fair permits waiters futs];
      rewrite (remove_notin f _ Hni); intros Ef g.
    + intros Hg. ucases g Hlt; [exfalso; apply Hni; apply olast_In; auto|]. refold s. auto.
    + intros Hg. ucases g Hlt; [exfalso; apply Hni; apply olast_In; auto|]. refold s. auto.
    + ucases g Hlt; [discriminate|]. refold s. auto.
  - (* try_acquire *)
    apply can_acquire_true in Hc. destruct Hc as [Hle Hs].
    constructor; unfold rel_state, get; cbn [fair permits waiters futs]; intros Ef g; refold s.
    + intros Hg. specialize (Pu Ef g Hg). lia.
    + intros Hg. destruct (Hs Ef) as [E|E]; [rewrite E in Hg; discriminate|].
      destruct (Pa Ef g Hg) as [H|H]; auto. right. lia.
    + intros Hga Hgn. destruct (Pb' Ef g Hga Hgn) as [O1 O2]. split; auto.
      destruct (Hs Ef) as [E|E]; [rewrite E in O1; discriminate|]. lia.
  - (* release 0 *)
    bool_hyps. subst n.
    constructor; unfold rel_state, get; cbn [fair permits waiters futs]; intros Ef g; refold s;
      rewrite N.add_0_r; auto.
  - constructor; unfold rel_state, get; cbn [fair permits waiters futs]; intros Ef g; refold s; auto.
  - bool_hyps. rewrite Hb.
    constructor; unfold rel_state, get; cbn [fair permits waiters futs]; intros Ef g; refold s;
      rewrite N.add_0_r; auto.
Qed.

Lemma inv_step s o : Inv s -> legal s o = true -> Inv (fst (step s o)).
Proof.
  intros I Hl. destruct (step_out s o I Hl) as (b & m & res & Ho & Hs). rewrite Hs.
  unfold fin. destruct b; cbn [fst].
  - apply wake_inv; [eapply base_outcome; eauto|eapply pb_outcome; eauto].
  - split; [eapply base_outcome; eauto|eapply prog_outcome; eauto].
Qed.

Theorem reach_inv k b p s : Reach k b p true s -> Inv s.
Proof.
  intros H. remember true as fixed eqn:E. induction H; subst; [apply inv_init|apply inv_step; auto].
Qed.

Lemma fair_step s o : fair (fst (step s o)) = fair s.
Proof.
  destruct o as [f n|f w|f|n|n|i|i]; unfold step; try unfold do_release; step_tree;
    cbn [fst fair]; congruence.
Qed.

Lemma reach_fair k b p fixed s : Reach k b p fixed s -> fair s = b.
Proof. induction 1; auto. rewrite fair_step. auto. Qed.

Lemma res_fin c b m r l : res_is c (snd (fin b m (r :: l))) = N.eqb r c.
Proof. destruct b; reflexivity. Qed.

(* C06, progress *)
Theorem notified_poll_succeeds : forall k b p0 s f w,
  Reach k b p0 true s ->
  f_alive (get s f) = true -> f_hp (get s f) = true -> f_st (get s f) = Notified ->
  (f_req (get s f) <= permits s)%N ->
  res_is R_READY (snd (step s (Poll f w))) = true.
Proof.
  intros k b p0 s f w Hr Ha Hhp Hn Hle. pose proof (reach_inv k b p0 s Hr) as I.
  assert (Hl : legal s (Poll f w) = true) by (simpl; rewrite Ha, Hhp; reflexivity).
  destruct (step_out s _ I Hl) as (b' & m & res & Ho & Hs). rewrite Hs.
  inv Ho; rewrite res_fin; try reflexivity.
  - match goal with H : _ \/ _ |- _ => destruct H as [[D _]|(_ & _ & D)]; [congruence|lia] end.
  - congruence.
Qed.

(* ------------------------------------------------------------------ *)
(* the trace monitors of Model/SemaphoreSpec.v vs the model state *)
Definition Priv (s : state) : Prop := forall f w, f_lastw (get s f) = Some w -> Nat.div w 2 = f.
Definition op_priv (o : op) : Prop := forall f w, o = Poll f w -> Nat.div w 2 = f.

Definition mark (wl : list N) (m : mon) : mon :=
  mkMon (map (mark_woken wl) (m_futs m)) (m_arr m) (m_good m).

Definition mon_pre (is_fair : bool) (m : mon) (o : op) (ob : obs) : mon :=
  match o with
  | Create f n => mkMon (upd f (mkMfut false n 0 false) (m_futs m)) (remove f (m_arr m)) (m_good m)
  | DropFut f => mkMon (upd f mabsent (m_futs m)) (remove f (m_arr m)) (m_good m)
  | Poll f w =>
      let x := mget m f in
      if res_is R_READY ob then
        mkMon (upd f (mkMfut false (m_req x) 0 false) (m_futs m)) (remove f (m_arr m)) (m_good m)
      else if res_is R_PENDING ob then
        let x' := mkMfut true (m_req x) (nN w) false in
        if m_pending x then
          if negb is_fair && m_woken x
          then mkMon (upd f x' (m_futs m)) (f :: remove f (m_arr m)) (m_good m)
          else mkMon (upd f x' (m_futs m)) (m_arr m) (m_good m)
        else mkMon (upd f x' (m_futs m)) (f :: m_arr m) (m_good m)
      else m
  | _ => m
  end.

Lemma mon_track_eq fr m o ob : mon_track fr m (o, ob) = mark (o_wake ob) (mon_pre fr m o ob).
Proof. reflexivity. Qed.

Record Link (pw : Prop) (s : state) (m : mon) : Prop := {
  k_len : length (m_futs m) = length (futs s);
  k_nd : NoDup (m_arr m);
  k_arr : exists nl, m_arr m = waiters s ++ nl;
  k_in : forall f, In f (m_arr m) <-> (f_alive (get s f) = true /\ isWN (f_st (get s f)) = true);
  k_pend : forall f, m_pending (mget m f) = true <-> In f (m_arr m);
  k_req : forall f, m_req (mget m f) = f_req (get s f);
  k_last : forall f, In f (m_arr m) ->
           exists w, f_lastw (get s f) = Some w /\ m_last (mget m f) = nN w;
  k_wok : pw -> forall f, In f (m_arr m) -> (m_woken (mget m f) = true <-> f_st (get s f) = Notified)
}.

Local Ltac both g f Hlt Hlt' :=
  unfold get, mget; cbn [futs m_futs];
  let Hne := fresh "Hne" in
  destruct (Nat.eq_dec g f) as [->|Hne];
  [rewrite ?(nth_upd_same f _ absent _ Hlt), ?(nth_upd_same f _ mabsent _ Hlt')
  |rewrite ?(nth_upd_other f g _ absent), ?(nth_upd_other f g _ mabsent) by congruence].

Lemma link_set pw s mon f x' mx' p ws rl ck arr' :
  Link pw s mon -> f < length (futs s) ->
  NoDup arr' -> (exists nl, arr' = ws ++ nl) ->
  (forall g, g <> f -> (In g arr' <-> In g (m_arr mon))) ->
  (In f arr' <-> (f_alive x' = true /\ isWN (f_st x') = true)) ->
  (m_pending mx' = true <-> In f arr') ->
  m_req mx' = f_req x' ->
  (In f arr' -> exists w, f_lastw x' = Some w /\ m_last mx' = nN w) ->
  (pw -> In f arr' -> (m_woken mx' = true <-> f_st x' = Notified)) ->
  Link pw (mkState (fair s) p ws (upd f x' (futs s)) rl (fx s) ck)
          (mkMon (upd f mx' (m_futs mon)) arr' (m_good mon)).
Proof.
  intros [Llen Lnd Larr Lin Lpend Lreq Llast Lwok] Hlt Hnd Harr Hoth Hf Hp Hr Hl Hw.
  assert (Hlt' : f < length (m_futs mon)) by lia.
  constructor; cbn [m_futs m_arr futs waiters]; auto.
  - rewrite !upd_length; auto.
  - intros g. both g f Hlt Hlt'; auto. rewrite Hoth by auto. apply Lin.
  - intros g. both g f Hlt Hlt'; auto. rewrite Hoth by auto. apply Lpend.
  - intros g. both g f Hlt Hlt'; auto. apply Lreq.
  - intros g. both g f Hlt Hlt'; auto. rewrite Hoth by auto. apply Llast.
  - intros Hpw g. both g f Hlt Hlt'; auto. rewrite Hoth by auto. apply Lwok; auto.
Qed.

Lemma link_frame pw s mon p rl ck :
  Link pw s mon -> Link pw (mkState (fair s) p (waiters s) (futs s) rl (fx s) ck) mon.
Proof. intros [Llen Lnd Larr Lin Lpend Lreq Llast Lwok]. constructor; auto. Qed.

Lemma link_eqv pw s m m' :
  Link pw s m -> m_futs m' = m_futs m -> m_arr m' = m_arr m -> Link pw s m'.
Proof.
  destruct m as [a c d], m' as [a' c' d']. simpl. intros L -> ->.
  destruct L as [Llen Lnd Larr Lin Lpend Lreq Llast Lwok]. constructor; auto.
Qed.

Lemma mark_woken_nil x : mark_woken [] x = x.
Proof. unfold mark_woken. simpl. rewrite andb_false_r. reflexivity. Qed.

Lemma mark_nil m : mark [] m = m.
Proof.
  destruct m as [a c d]. unfold mark. simpl. f_equal.
  induction a as [|h t IH]; simpl; auto. rewrite mark_woken_nil, IH. reflexivity.
Qed.

Lemma mget_mark wl m f : mget (mark wl m) f = mark_woken wl (mget m f).
Proof.
  unfold mget, mark. cbn [m_futs].
  change mabsent with (mark_woken wl mabsent) at 1. apply map_nth.
Qed.

Lemma mark_woken_fields wl x :
  m_pending (mark_woken wl x) = m_pending x /\ m_req (mark_woken wl x) = m_req x /\
  m_last (mark_woken wl x) = m_last x /\
  (m_woken (mark_woken wl x) = true <->
   m_woken x = true \/ (m_pending x = true /\ existsb (N.eqb (m_last x)) wl = true)).
Proof.
  unfold mark_woken. destruct (m_pending x) eqn:Ep; simpl.
  - destruct (existsb (N.eqb (m_last x)) wl) eqn:Ex; simpl; repeat split; auto; try tauto.
    intros [H|[_ H]]; auto. discriminate.
  - repeat split; auto. intros [H|[H _]]; auto. discriminate.
Qed.

Lemma link_wake (pw : Prop) m mon s' wk pre rest :
  Base m -> (pw -> Priv m) -> Link pw m mon -> wake_gen m s' wk pre rest ->
  Link pw s' (mark (map nN wk) mon).
Proof.
  intros B Hpriv [Llen Lnd Larr Lin Lpend Lreq Llast Lwok]
         (Hsplit & Efair & _ & _ & _ & Hws & Hlen & Hpre & Hoth & Hwk).
  pose proof B as [Hfx Hnd Hex Hfut Hdead].
  assert (Hpw : forall g, In g pre ->
            f_alive (get m g) = true /\ f_st (get m g) = Waiting /\ In g (m_arr mon)).
  { intros g Hg. destruct (Hpre g Hg) as [Hn _].
    assert (Hin : In g (waiters m)) by (rewrite Hsplit; apply in_or_app; auto).
    destruct Larr as [nl Enl]. split; [|split].
    - apply Hex in Hin. destruct Hin; auto.
    - apply Hex in Hin. destruct Hin as (_ & _ & [W|[_ D]]); auto. congruence.
    - rewrite Enl. apply in_or_app; auto. }
  constructor; cbn [mark m_futs m_arr]; auto.
  - rewrite map_length. congruence.
  - destruct Larr as [nl Enl]. rewrite Hws. destruct (fair m); [eauto|].
    exists (pre ++ nl). rewrite Enl, Hsplit, app_assoc. reflexivity.
  - intros g. rewrite Lin. destruct (in_dec Nat.eq_dec g pre) as [Hp|Hp].
    + destruct (Hpre g Hp) as [_ E]. rewrite E. destruct (Hpw g Hp) as (A & W & _).
      simpl. rewrite A, W. simpl. tauto.
    + rewrite (Hoth g Hp). tauto.
  - intros g. fold (mark (map nN wk) mon). rewrite mget_mark.
    destruct (mark_woken_fields (map nN wk) (mget mon g)) as (E & _). rewrite E. apply Lpend.
  - intros g. fold (mark (map nN wk) mon). rewrite mget_mark.
    destruct (mark_woken_fields (map nN wk) (mget mon g)) as (_ & E & _). rewrite E, Lreq.
    destruct (in_dec Nat.eq_dec g pre) as [Hp|Hp].
    + destruct (Hpre g Hp) as [_ E']. rewrite E'. reflexivity.
    + rewrite (Hoth g Hp). reflexivity.
  - intros g Hg. fold (mark (map nN wk) mon). rewrite mget_mark.
    destruct (mark_woken_fields (map nN wk) (mget mon g)) as (_ & _ & E & _). rewrite E.
    destruct (Llast g Hg) as (w & L1 & L2). exists w. split; auto.
    destruct (in_dec Nat.eq_dec g pre) as [Hp|Hp].
    + destruct (Hpre g Hp) as [_ E']. rewrite E'. auto.
    + rewrite (Hoth g Hp). auto.
  - intros Hp g Hg. fold (mark (map nN wk) mon). rewrite mget_mark.
    destruct (mark_woken_fields (map nN wk) (mget mon g)) as (_ & _ & _ & E). rewrite E. clear E.
    destruct (Llast g Hg) as (w & L1 & L2).
    destruct (in_dec Nat.eq_dec g pre) as [Hgp|Hgp].
    + destruct (Hpre g Hgp) as [_ E']. rewrite E'. simpl. split; auto. intros _. right.
      split; [apply Lpend; auto|].
      destruct (Hpw g Hgp) as (A & W & _).
      destruct (Hfut g A) as [_ Fw _ _]. destruct (Fw W) as (_ & Ht & _).
      apply existsb_exists. exists (nN w). split; [|rewrite L2; apply N.eqb_refl].
      apply in_map. apply Hwk. exists g. split; auto. congruence.
    + rewrite (Hoth g Hgp). rewrite <- (Lwok Hp g Hg). split; auto.
      intros [H|[_ H]]; auto. exfalso.
      apply existsb_exists in H. destruct H as (y & Hy & Ey). apply N.eqb_eq in Ey.
      apply in_map_iff in Hy. destruct Hy as (w' & <- & Hw').
      rewrite L2 in Ey. apply Nat2N.inj in Ey. subst w'.
      apply Hwk in Hw'. destruct Hw' as (h & Hh & Hth).
      destruct (Hpw h Hh) as (A & W & _).
      destruct (Hfut h A) as [_ Fw _ _]. destruct (Fw W) as (_ & Ht & _).
      rewrite Ht in Hth.
      pose proof (Hpriv Hp h w Hth) as Q1. pose proof (Hpriv Hp g w L1) as Q2.
      apply Hgp. rewrite <- Q2, Q1. exact Hh.
Qed.

Lemma arr_remove (arr ws : list fid) f :
  (exists nl, arr = ws ++ nl) -> exists nl', remove f arr = remove f ws ++ nl'.
Proof. intros [nl ->]. exists (remove f nl). apply remove_app. Qed.

Lemma notin_remove f l : ~ In f (remove f l).
Proof. rewrite In_remove. tauto. Qed.

Local Ltac code_eval :=
  rewrite ?res_fin;
  change (N.eqb R_READY R_READY) with true; change (N.eqb R_PENDING R_READY) with false;
  change (N.eqb R_PENDING R_PENDING) with true; cbv beta iota zeta.

Lemma link_pre (pw : Prop) s mon o b m res :
  Inv s -> Link pw s mon -> (pw \/ fair s = true) -> outcome s o b m res ->
  Link pw m (mon_pre (fair s) mon o (snd (fin b m res))).
Proof.
  intros [B P] L Hmode Ho. pose proof B as [Hfx Hnd Hex Hfut Hdead].
  pose proof L as [Llen Lnd Larr Lin Lpend Lreq Llast Lwok].
  destruct Ho as [f n Hlt Hd|f w Ha Hhp Hle Hside|f w Ha Hhp Hni Hside|f w Ha Est Hside|f Ha
                 |n Hc|n Hc|n|i|i]; try (apply link_frame; auto; fail); auto;
    unfold mon_pre; code_eval.
  - (* create *)
    assert (Hni : ~ In f (waiters s)).
    { intro Hin. apply Hex in Hin. destruct Hin as (D & _). congruence. }
    apply link_set; auto.
    + apply NoDup_remove; auto.
    + destruct (arr_remove _ _ f Larr) as [nl' E]. rewrite (remove_notin f _ Hni) in E. eauto.
    + intros g Hne. rewrite In_remove. tauto.
    + simpl. split; [intros D; exfalso; revert D; apply notin_remove|intros [_ D]; discriminate].
    + simpl. split; [discriminate|intros D; exfalso; revert D; apply notin_remove].
    + intros D; exfalso; revert D; apply notin_remove.
    + intros _ D; exfalso; revert D; apply notin_remove.
  - (* take *)
    pose proof (alive_lt s f Ha) as Hlt.
    apply link_set; auto.
    + apply NoDup_remove; auto.
    + apply arr_remove; auto.
    + intros g Hne. rewrite In_remove. tauto.
    + simpl. split; [intros D; exfalso; revert D; apply notin_remove|intros [_ D]; discriminate].
    + simpl. split; [discriminate|intros D; exfalso; revert D; apply notin_remove].
    + simpl. apply Lreq.
    + intros D; exfalso; revert D; apply notin_remove.
    + intros _ D; exfalso; revert D; apply notin_remove.
  - (* register *)
    pose proof (alive_lt s f Ha) as Hlt.
    assert (Harr' : (if m_pending (mget mon f)
                     then if negb (fair s) && m_woken (mget mon f)
                          then mkMon (upd f (mkMfut true (m_req (mget mon f)) (nN w) false) (m_futs mon))
                                     (f :: remove f (m_arr mon)) (m_good mon)
                          else mkMon (upd f (mkMfut true (m_req (mget mon f)) (nN w) false) (m_futs mon))
                                     (m_arr mon) (m_good mon)
                     else mkMon (upd f (mkMfut true (m_req (mget mon f)) (nN w) false) (m_futs mon))
                                (f :: m_arr mon) (m_good mon)) =
                    mkMon (upd f (mkMfut true (m_req (mget mon f)) (nN w) false) (m_futs mon))
                          (f :: remove f (m_arr mon)) (m_good mon)).
    { destruct Hside as [[Est _]|(Est & Ef & _)].
      - assert (Hna : ~ In f (m_arr mon)).
        { intro Hin. apply Lin in Hin. rewrite Est in Hin. destruct Hin as [_ D]. discriminate. }
        destruct (m_pending (mget mon f)) eqn:Ep; [exfalso; apply Hna; apply Lpend; auto|].
        rewrite (remove_notin f _ Hna). reflexivity.
      - assert (Hia : In f (m_arr mon)).
        { apply Lin. rewrite Ha, Est. auto. }
        destruct Hmode as [Hp|D]; [|congruence].
        pose proof Hia as Hpend. apply Lpend in Hpend. rewrite Hpend.
        pose proof (Lwok Hp f Hia) as Hw. destruct Hw as [_ Hw]. rewrite (Hw Est), Ef. reflexivity. }
    rewrite Harr'. clear Harr'.
    apply link_set; auto.
    + constructor; [apply notin_remove|apply NoDup_remove; auto].
    + destruct Larr as [nl ->]. exists (remove f nl).
      rewrite remove_app, (remove_notin f _ Hni). reflexivity.
    + intros g Hne. simpl. rewrite In_remove. split; [intros [D|[D _]]; [congruence|auto]|auto].
    + simpl. split; auto.
    + simpl. split; auto.
    + simpl. apply Lreq.
    + intros _. exists w. simpl. auto.
    + intros _ _. simpl. split; discriminate.
  - (* re-poll while waiting *)
    pose proof (alive_lt s f Ha) as Hlt.
    assert (Hia : In f (m_arr mon)).
    { apply Lin. rewrite Ha, Est. auto. }
    pose proof Hia as Hpend. apply Lpend in Hpend. rewrite Hpend.
    assert (Hnw : (negb (fair s) && m_woken (mget mon f))%bool = false).
    { destruct (fair s) eqn:Ef; auto. simpl.
      destruct Hmode as [Hp|D]; [|congruence].
      destruct (m_woken (mget mon f)) eqn:Ew; auto.
      apply (Lwok Hp f Hia) in Ew. congruence. }
    rewrite Hnw.
    apply link_set; auto.
    + tauto.
    + simpl. tauto.
    + simpl. tauto.
    + simpl. apply Lreq.
    + intros _. exists w. simpl. auto.
    + intros _ _. simpl. split; discriminate.
  - (* drop *)
    pose proof (alive_lt s f Ha) as Hlt.
    apply link_set; auto.
    + apply NoDup_remove; auto.
    + apply arr_remove; auto.
    + intros g Hne. rewrite In_remove. tauto.
    + simpl. split; [intros D; exfalso; revert D; apply notin_remove|intros [D _]; discriminate].
    + simpl. split; [discriminate|intros D; exfalso; revert D; apply notin_remove].
    + intros D; exfalso; revert D; apply notin_remove.
    + intros _ D; exfalso; revert D; apply notin_remove.
Qed.

Lemma priv_outcome s o b m res : Priv s -> op_priv o -> outcome s o b m res -> Priv m.
Proof.
  intros Hp Hop Ho.
  destruct Ho as [f n Hlt Hd|f w Ha Hhp Hle Hside|f w Ha Hhp Hni Hside|f w Ha Est Hside|f Ha
                 |n Hc|n Hc|n|i|i]; auto;
    try (pose proof (alive_lt s f Ha) as Hlt); intros g w'.
  - ucases g Hlt; [discriminate|apply Hp].
  - ucases g Hlt; [|apply Hp]. simpl. intros E; inv E. apply (Hop f w'); auto.
  - ucases g Hlt; [|apply Hp]. simpl. intros E; inv E. apply (Hop f w'); auto.
  - ucases g Hlt; [|apply Hp]. simpl. intros E; inv E. apply (Hop f w'); auto.
  - ucases g Hlt; [discriminate|apply Hp].
Qed.

Lemma priv_wake m s' wk pre rest : Priv m -> wake_gen m s' wk pre rest -> Priv s'.
Proof.
  intros Hp (_ & _ & _ & _ & _ & _ & _ & Hpre & Hoth & _) g w.
  destruct (in_dec Nat.eq_dec g pre) as [Hg|Hg].
  - destruct (Hpre g Hg) as [_ E]. rewrite E. simpl. apply Hp.
  - rewrite (Hoth g Hg). apply Hp.
Qed.

Lemma wake_gen_ex m :
  Base m -> exists pre rest, wake_gen m (fst (wake m)) (snd (wake m)) pre rest.
Proof.
  intros B. destruct (fair m) eqn:Ef.
  - destruct (wake_fair m B Ef) as [[G _]|(g & _ & _ & G)]; eauto.
  - destruct (wake_unfair m B Ef) as (pre & rest & a & G & _). eauto.
Qed.

Lemma wake_of_fin b m res :
  o_wake (snd (fin b m res)) = map nN (if b then snd (wake m) else []).
Proof. destruct b; reflexivity. Qed.

Lemma link_step (pw : Prop) s mon o :
  Inv s -> (pw \/ fair s = true) -> (pw -> Priv s /\ op_priv o) ->
  Link pw s mon -> legal s o = true ->
  Link pw (fst (step s o)) (mon_track (fair s) mon (o, snd (step s o))).
Proof.
  intros I Hmode Hp L Hl. destruct (step_out s o I Hl) as (b & m & res & Ho & Hs). rewrite Hs.
  rewrite mon_track_eq, wake_of_fin.
  pose proof (link_pre pw s mon o b m res I L Hmode Ho) as L1.
  pose proof (base_outcome s o b m res I Ho) as Bm.
  unfold fin at 1. destruct b; cbn [fst].
  - destruct (wake_gen_ex m Bm) as (pre & rest & G).
    eapply link_wake; eauto.
    intros Hpw. destruct (Hp Hpw) as [Q1 Q2]. eapply priv_outcome; eauto.
  - simpl. rewrite mark_nil. auto.
Qed.

Lemma priv_step s o : Inv s -> Priv s -> op_priv o -> legal s o = true -> Priv (fst (step s o)).
Proof.
  intros I Hp Hop Hl. destruct (step_out s o I Hl) as (b & m & res & Ho & Hs). rewrite Hs.
  pose proof (priv_outcome s o b m res Hp Hop Ho) as Pm.
  pose proof (base_outcome s o b m res I Ho) as Bm.
  unfold fin. destruct b; cbn [fst]; auto.
  destruct (wake_gen_ex m Bm) as (pre & rest & G). eapply priv_wake; eauto.
Qed.

(* ------------------------------------------------------------------ *)
(* initial state, and what the link says about the arrival order *)
Lemma nth_repeat_mabsent k f : nth f (repeat mabsent k) mabsent = mabsent.
Proof. revert f; induction k; intros [|f]; simpl; auto. Qed.

Lemma link_init pw k b p fixed : Link pw (init k b p fixed) (mkMon (repeat mabsent k) [] true).
Proof.
  constructor; simpl; auto.
  - rewrite !repeat_length. auto.
  - constructor.
  - exists []. reflexivity.
  - intros f. unfold get; simpl. rewrite nth_repeat_absent. simpl. split; [tauto|intros [D _]; discriminate].
  - intros f. unfold mget; simpl. rewrite nth_repeat_mabsent. simpl. split; [discriminate|tauto].
  - intros f. unfold mget, get; simpl. rewrite nth_repeat_mabsent, nth_repeat_absent. reflexivity.
  - intros f [].
  - intros _ f [].
Qed.

Lemma priv_init k b p fixed : Priv (init k b p fixed).
Proof. intros f w. unfold get; simpl. rewrite nth_repeat_absent. discriminate. Qed.

Lemma wn_hp s f :
  Base s -> f_alive (get s f) = true -> isWN (f_st (get s f)) = true -> f_hp (get s f) = true.
Proof.
  intros B Ha H. destruct (b_fut s B f Ha) as [_ Fw Fno _].
  destruct (f_st (get s f)); try discriminate; [apply Fw|apply Fno]; auto.
Qed.

(* the extra entries of the arrival list: notified futures of the unfair mode *)
Lemma link_extra pw s mon nl h :
  Base s -> Link pw s mon -> m_arr mon = waiters s ++ nl -> In h nl ->
  fair s = false /\ f_alive (get s h) = true /\ f_st (get s h) = Notified.
Proof.
  intros B L E Hh. pose proof (k_nd _ _ _ L) as Hnd. rewrite E in Hnd.
  apply NoDup_app_inv in Hnd. destruct Hnd as (_ & _ & D).
  assert (Hin : In h (m_arr mon)) by (rewrite E; apply in_or_app; auto).
  apply (k_in _ _ _ L) in Hin. destruct Hin as [Ha Hwn].
  pose proof (wn_hp s h B Ha Hwn) as Hhp.
  assert (Hnq : ~ inq (fair s) (get s h)).
  { intro Q. apply (b_exact s B) in Q. apply (D h); auto. }
  unfold inq in Hnq.
  destruct (f_st (get s h)) eqn:Est; try discriminate.
  - exfalso. apply Hnq. auto.
  - destruct (fair s); auto. exfalso. apply Hnq. auto.
Qed.

Lemma link_fair_arr pw s mon : Base s -> fair s = true -> Link pw s mon -> m_arr mon = waiters s.
Proof.
  intros B Ef L. destruct (k_arr _ _ _ L) as [nl E]. rewrite E.
  destruct nl as [|h t]; [apply app_nil_r|].
  destruct (link_extra pw s mon (h :: t) h B L E (or_introl eq_refl)) as [D _]. congruence.
Qed.

Lemma mon_track_good fr m e : m_good (mon_track fr m e) = m_good m.
Proof.
  destruct e as [o ob]. rewrite mon_track_eq. unfold mark, mon_pre. cbn [m_good].
  destruct o; auto.
  destruct (res_is R_READY ob); auto. destruct (res_is R_PENDING ob); auto.
  destruct (m_pending (mget m f)); auto. destruct (negb fr && m_woken (mget m f))%bool; auto.
Qed.

(* C06 *)
Lemma stranded_ok s mon : Inv s -> Link True s mon -> stranded_free mon (permits s) = true.
Proof.
  intros [B P] L. unfold stranded_free.
  destruct (olast (m_arr mon)) as [g|] eqn:Eol; auto.
  destruct (existsb (fun f => m_woken (mget mon f)) (m_arr mon)) eqn:Ex; auto. simpl.
  assert (Hnw : forall f, In f (m_arr mon) -> f_st (get s f) <> Notified).
  { intros f Hf Hn. apply (k_wok _ _ _ L I f Hf) in Hn.
    assert (existsb (fun f => m_woken (mget mon f)) (m_arr mon) = true).
    { apply existsb_exists. eauto. }
    congruence. }
  destruct (k_arr _ _ _ L) as [nl E].
  assert (nl = []).
  { destruct nl as [|h t]; auto. exfalso.
    destruct (link_extra True s mon (h :: t) h B L E (or_introl eq_refl)) as (_ & _ & Hn).
    apply (Hnw h); auto. rewrite E. apply in_or_app. right. left. auto. }
  subst nl. rewrite app_nil_r in E. rewrite E in Eol.
  assert (Hga : In g (m_arr mon)) by (rewrite E; apply olast_In; auto).
  apply N.ltb_lt. rewrite (k_req _ _ _ L).
  destruct (fair s) eqn:Ef.
  - destruct (p_fair_a s P Ef g Eol) as [D|H]; auto. exfalso. apply (Hnw g); auto.
  - pose proof (p_unfair s P Ef g Eol) as H.
    rewrite rsv_zero in H; [lia|].
    intros h. fold (get s h). apply wt_not. intros Hn.
    destruct (f_alive (get s h)) eqn:Ha.
    + apply (Hnw h); auto. apply (k_in _ _ _ L). rewrite Ha, Hn. auto.
    + rewrite (b_dead s B h Ha) in Hn. discriminate.
Qed.

Lemma private_cons o r : private_wakers (o :: r) -> op_priv o /\ private_wakers r.
Proof.
  unfold private_wakers, op_priv. intros H. split.
  - intros f w ->. apply H. left; auto.
  - intros f w Hin. apply H. right; auto.
Qed.

Lemma probe_step s o : probe_permits (snd (step s o)) = permits (fst (step s o)).
Proof.
  destruct (step_ledger s o) as [Hprobe _]. cbv zeta in Hprobe.
  unfold probe_permits. rewrite Hprobe. reflexivity.
Qed.

Theorem head_not_stranded : forall k b p0 ops,
  legal_run (init k b p0 true) ops ->
  private_wakers ops ->
  no_stranded_waiter k b (trace (init k b p0 true) ops) = true.
Proof.
  intros k b p0 ops Hl Hpw. unfold no_stranded_waiter.
  assert (G : forall ops s mon,
            Inv s -> fair s = b -> Link True s mon -> Priv s -> private_wakers ops ->
            legal_run s ops -> m_good mon = true ->
            m_good (fold_left (mon06_step b) (trace s ops) mon) = true).
  { induction ops0 as [|o r IH]; simpl; intros s mon I Ef L Pv Hp Hr Hg; auto.
    destruct Hr as [H1 H2]. apply private_cons in Hp. destruct Hp as [Hop Hp].
    assert (L' : Link True (fst (step s o)) (mon_track b mon (o, snd (step s o)))).
    { rewrite <- Ef. apply link_step; auto. }
    pose proof (inv_step s o I H1) as I'.
    apply IH with (s := fst (step s o)); auto.
    - rewrite fair_step. auto.
    - eapply link_eqv; [exact L'|reflexivity|reflexivity].
    - apply priv_step; auto.
    - unfold mon06_step. cbn [m_good snd]. rewrite mon_track_good, Hg. simpl.
      rewrite probe_step. apply stranded_ok; auto. }
  apply G; auto.
  - apply inv_init.
  - apply link_init.
  - apply priv_init.
Qed.

Theorem refuted_pinned :
  exists ops, legal_run (init 2 false 0 false) ops /\ private_wakers ops /\
              no_stranded_waiter 2 false (trace (init 2 false 0 false) ops) = false.
Proof.
  exists [Create 0 1; Create 1 2; Poll 1 2; Poll 0 0; Release 1; DropFut 1].
  split; [vm_compute; repeat split; reflexivity|]. split; [|vm_compute; reflexivity].
  intros f w Hin. simpl in Hin.
  repeat (destruct Hin as [Hin|Hin]; [try discriminate; inv Hin; reflexivity|]). destruct Hin.
Qed.

(* ------------------------------------------------------------------ *)
(* C07 *)
Definition ok07 (m : mon) (o : op) (ob : obs) : bool :=
  match o with
  | Poll f _ =>
      let x := mget m f in
      if res_is R_READY ob then
        N.eqb (m_req x) 0 ||
        match olast (m_arr m) with None => true | Some g => Nat.eqb g f end
      else if res_is R_PENDING ob then negb (N.eqb (m_req x) 0)
      else true
  | TryAcquire n =>
      if res_is R_SOME ob then N.eqb n 0 || match m_arr m with [] => true | _ => false end else true
  | _ => true
  end.

Lemma mon07_step_eq m o ob :
  mon07_step m (o, ob) =
  mkMon (m_futs (mon_track true m (o, ob))) (m_arr (mon_track true m (o, ob)))
        (m_good (mon_track true m (o, ob)) && ok07 m o ob).
Proof. reflexivity. Qed.

Lemma ok07_step pw s mon o :
  Inv s -> fair s = true -> Link pw s mon -> legal s o = true ->
  ok07 mon o (snd (step s o)) = true.
Proof.
  intros I Ef L Hl. destruct (step_out s o I Hl) as (b & m & res & Ho & Hs). rewrite Hs.
  destruct I as [B P]. pose proof (link_fair_arr pw s mon B Ef L) as Earr.
  destruct Ho as [f n Hlt Hd|f w Ha Hhp Hle Hside|f w Ha Hhp Hni Hside|f w Ha Est Hside|f Ha
                 |n Hc|n Hc|n|i|i]; auto; unfold ok07; rewrite ?res_fin.
  - change (N.eqb R_READY R_READY) with true. cbv beta iota zeta.
    rewrite (k_req _ _ _ L), Earr.
    destruct Hside as [[Est Hs']|[[_ D]|Est]]; [|congruence|].
    + destruct (Hs' Ef) as [E|E].
      * rewrite E. simpl. apply orb_true_r.
      * rewrite E. reflexivity.
    + destruct (p_fair_b s P Ef f Ha Est) as [Hol _]. rewrite Hol, Nat.eqb_refl. apply orb_true_r.
  - change (N.eqb R_PENDING R_READY) with false. change (N.eqb R_PENDING R_PENDING) with true.
    cbv beta iota zeta. rewrite (k_req _ _ _ L).
    apply negb_true_iff. apply N.eqb_neq.
    destruct Hside as [[_ Hc]|[Est _]].
    + apply can_acquire_false in Hc. tauto.
    + destruct (b_fut s B f Ha) as [_ _ Fno _]. destruct (Fno Est) as (_ & _ & _ & _ & R). auto.
  - change (N.eqb R_PENDING R_READY) with false. change (N.eqb R_PENDING R_PENDING) with true.
    cbv beta iota zeta. rewrite (k_req _ _ _ L).
    apply negb_true_iff. apply N.eqb_neq.
    destruct (b_fut s B f Ha) as [_ Fw _ _]. destruct (Fw Est) as (_ & _ & _ & R). auto.
  - change (N.eqb R_SOME R_SOME) with true. cbv beta iota zeta. rewrite Earr.
    apply can_acquire_true in Hc. destruct Hc as [_ Hs'].
    destruct (Hs' Ef) as [E|E]; rewrite E; [apply orb_true_r|reflexivity].
Qed.

Lemma link_run (pw : Prop) b : forall ops s mon,
  Inv s -> fair s = b -> (pw \/ b = true) -> Link pw s mon ->
  (pw -> Priv s /\ private_wakers ops) -> legal_run s ops ->
  Inv (run s ops) /\ Link pw (run s ops) (fold_left (mon_track b) (trace s ops) mon).
Proof.
  induction ops as [|o r IH]; simpl; intros s mon I Ef Hmode L Hp Hr; auto.
  destruct Hr as [H1 H2].
  apply IH; auto.
  - apply inv_step; auto.
  - rewrite fair_step. auto.
  - rewrite <- Ef. apply link_step; auto.
    + rewrite Ef. auto.
    + intros Hpw. destruct (Hp Hpw) as [Q1 Q2]. apply private_cons in Q2. tauto.
  - intros Hpw. destruct (Hp Hpw) as [Q1 Q2]. apply private_cons in Q2. destruct Q2 as [Q2 Q3].
    split; auto. apply priv_step; auto.
Qed.

Theorem fair_order_holds : forall k p0 ops,
  legal_run (init k true p0 true) ops ->
  fair_order_ok k (trace (init k true p0 true) ops) = true.
Proof.
  intros k p0 ops Hl. unfold fair_order_ok.
  assert (G : forall ops s mon,
            Inv s -> fair s = true -> Link False s mon -> legal_run s ops -> m_good mon = true ->
            m_good (fold_left mon07_step (trace s ops) mon) = true).
  { induction ops0 as [|o r IH]; cbn [trace fold_left legal_run]; intros s mon I Ef L Hr Hg; auto.
    destruct Hr as [H1 H2].
    assert (L' : Link False (fst (step s o)) (mon_track true mon (o, snd (step s o)))).
    { rewrite <- Ef. apply link_step; auto. intros []. }
    apply IH with (s := fst (step s o)); auto.
    - apply inv_step; auto.
    - rewrite fair_step. auto.
    - rewrite mon07_step_eq. eapply link_eqv; [exact L'|reflexivity|reflexivity].
    - rewrite mon07_step_eq. cbn [m_good]. rewrite mon_track_good, Hg. simpl.
      eapply ok07_step; eauto. }
  apply G; auto.
  - apply inv_init.
  - apply link_init.
Qed.

Theorem queue_is_arrivals : forall k p0 ops,
  legal_run (init k true p0 true) ops ->
  waiters (run (init k true p0 true) ops) = arrivals k true (trace (init k true p0 true) ops) /\
  NoDup (waiters (run (init k true p0 true) ops)).
Proof.
  intros k p0 ops Hl. unfold arrivals.
  destruct (link_run False true ops (init k true p0 true) (mkMon (repeat mabsent k) [] true)) as [[B P] L]; auto.
  - apply inv_init.
  - apply link_init.
  - intros [].
  - split; [|apply (b_nodup _ B)].
    symmetry. eapply link_fair_arr; eauto.
    pose proof (reach_run k true p0 true ops Hl) as Hr. apply (reach_fair k true p0 true); auto.
Qed.

Theorem drop_is_filter : forall k p0 ops f,
  legal_run (init k true p0 true) (ops ++ [DropFut f]) ->
  arrivals k true (trace (init k true p0 true) (ops ++ [DropFut f])) =
  filter (fun x => negb (Nat.eqb x f)) (arrivals k true (trace (init k true p0 true) ops)).
Proof.
  intros k p0 ops f _. unfold arrivals. rewrite trace_app, fold_left_app. reflexivity.
Qed.
