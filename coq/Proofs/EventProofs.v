(* Invariants and lemmas for Model/Event.v *)
From FI Require Import Base Event.

Local Ltac inv H := inversion H; subst; clear H.

Lemma get_upd (fs : list fut) (iset : bool) (ws : list fid) f g x :
  get (mkState iset ws (upd f x fs)) g =
  if (Nat.eqb f g && Nat.ltb g (length fs))%bool then x else nth g fs absent.
Proof. unfold get; simpl. apply nth_upd. Qed.

Lemma get_setf s f g x :
  get (setf s f x) g = if (Nat.eqb f g && Nat.ltb g (length (futs s)))%bool then x else get s g.
Proof. unfold setf. apply get_upd. Qed.

Lemma alive_lt s f : f_alive (get s f) = true -> f < length (futs s).
Proof.
  unfold get. intros H. destruct (Nat.lt_ge_cases f (length (futs s))) as [|Hge]; auto.
  rewrite nth_overflow in H by auto. discriminate.
Qed.

(* ------------------------------------------------------------------ *)
Record FutOk (s : state) (x : fut) : Prop := {
  fo_new : f_st x = New -> f_polled x = false /\ f_hp x = true;
  fo_wait : f_st x = Waiting ->
            f_polled x = true /\ f_seen x = false /\ f_hp x = true /\
            f_task x = f_lastw x /\ f_lastw x <> None /\ is_set s = false;
  fo_done : f_st x = Done -> f_polled x = true /\ f_seen x = true;
  fo_nohp : f_hp x = false -> f_st x = Done
}.

Record Inv (s : state) : Prop := {
  inv_nodup : NoDup (waiters s);
  inv_exact : forall f, In f (waiters s) <->
                        (f_alive (get s f) = true /\ f_st (get s f) = Waiting);
  inv_set : is_set s = true -> waiters s = [];
  inv_fut : forall f, f_alive (get s f) = true -> FutOk s (get s f);
  inv_dead : forall f, f_alive (get s f) = false -> get s f = absent
}.

Lemma FutOk_same s s' x : FutOk s x -> is_set s' = is_set s -> FutOk s' x.
Proof. intros [A B C D] E. constructor; auto. rewrite E. auto. Qed.

Lemma nth_repeat_absent k f : nth f (repeat absent k) absent = absent.
Proof. revert f; induction k; intros [|f]; simpl; auto. Qed.

Lemma inv_init k b : Inv (init k b).
Proof.
  constructor; simpl; auto.
  - constructor.
  - intros f. unfold get; simpl. rewrite nth_repeat_absent. simpl. split; [tauto|intros [H _]; discriminate].
  - intros f. unfold get; simpl. rewrite nth_repeat_absent. discriminate.
  - intros f _. unfold get; simpl. apply nth_repeat_absent.
Qed.

(* wake_all touches exactly the listed (distinct) slots *)
Lemma wake_all_spec : forall order fs acc,
  NoDup order ->
  let '(fs', wk) := wake_all fs order acc in
  length fs' = length fs /\
  wk = acc ++ flat_map (fun f => match f_task (nth f fs absent) with Some w => [w] | None => [] end) order /\
  (forall g, ~ In g order -> nth g fs' absent = nth g fs absent) /\
  (forall g, In g order -> g < length fs ->
     let x := nth g fs absent in
     nth g fs' absent = mkFut (f_alive x) (f_hp x) Done None (f_polled x) (f_seen x) (f_lastw x)).
Proof.
  induction order as [|f r IH]; intros fs acc Hnd; simpl.
  - rewrite app_nil_r. repeat split; auto. intros g [].
  - inv Hnd.
    set (x := nth f fs absent).
    set (fs1 := upd f (mkFut (f_alive x) (f_hp x) Done None (f_polled x) (f_seen x) (f_lastw x)) fs).
    set (acc1 := match f_task x with Some w => acc ++ [w] | None => acc end).
    specialize (IH fs1 acc1 H2).
    destruct (wake_all fs1 r acc1) as [fs' wk].
    destruct IH as (Hlen & Hwk & Hother & Hin).
    assert (Hfs1 : forall g, g <> f -> nth g fs1 absent = nth g fs absent).
    { intros g Hg. unfold fs1. apply nth_upd_other. auto. }
    repeat split.
    + rewrite Hlen. unfold fs1. apply upd_length.
    + rewrite Hwk. unfold acc1.
      assert (Heq : flat_map (fun f0 => match f_task (nth f0 fs1 absent) with Some w => [w] | None => [] end) r =
                    flat_map (fun f0 => match f_task (nth f0 fs absent) with Some w => [w] | None => [] end) r).
      { apply flat_map_ext_in. intros a Ha. rewrite Hfs1; auto. intro; subst; auto. }
      rewrite Heq. fold x. destruct (f_task x); simpl; auto. rewrite <- app_assoc. auto.
    + intros g Hg. rewrite Hother by (intro; apply Hg; right; auto).
      apply Hfs1. intro; subst; apply Hg; left; auto.
    + intros g [Hg|Hg] Hlt.
      * subst g. rewrite Hother by auto. unfold fs1. rewrite nth_upd_same; auto.
      * unfold fs1 in *. rewrite upd_length in Hin. rewrite Hin; auto.
        rewrite nth_upd_other; auto. intro; subst; auto.
Qed.

Lemma nth_map_absent (h : fut -> fut) fs g : h absent = absent -> nth g (map h fs) absent = h (nth g fs absent).
Proof. intros Hh. rewrite <- Hh at 1. apply map_nth. Qed.

Lemma mark_seen_absent : mark_seen absent = absent.
Proof. reflexivity. Qed.

Ltac bool_hyps :=
  repeat match goal with
  | H : (_ && _)%bool = true |- _ => apply andb_true_iff in H; destruct H
  | H : negb _ = true |- _ => apply negb_true_iff in H
  | H : negb _ = false |- _ => apply negb_false_iff in H
  | H : Nat.ltb _ _ = true |- _ => apply Nat.ltb_lt in H
  | H : Nat.eqb _ _ = true |- _ => apply Nat.eqb_eq in H
  end.

(* case split on a read of slot g after an update of slot f *)
Lemma nth_upd_cases (fs : list fut) f g x :
  f < length fs ->
  (g = f /\ nth g (upd f x fs) absent = x) \/
  (g <> f /\ nth g (upd f x fs) absent = nth g fs absent).
Proof.
  intros Hlt. rewrite nth_upd. destruct (Nat.eqb_spec f g) as [->|Hne]; simpl.
  - left. split; auto. apply Nat.ltb_lt in Hlt. rewrite Hlt. auto.
  - right. split; auto.
Qed.

Ltac upd_cases g Hlt :=
  unfold setf, get; cbn [futs waiters is_set];
  match goal with
  | |- context [nth g (upd ?f ?x ?fs) absent] =>
      let E := fresh "E" in let Hne := fresh "Hne" in
      destruct (nth_upd_cases fs f g x Hlt) as [[-> E]|[Hne E]]; rewrite E; clear E
  end.

Lemma inv_step s o : Inv s -> legal s o = true -> Inv (fst (step s o)).
Proof.
  intros I Hl. destruct I as [Hnd Hex Hset Hfut Hdead].
  destruct o as [f|f w|f| | |]; simpl in Hl; bool_hyps.
  - (* Create *)
    simpl. constructor; simpl; auto.
    + intros g. upd_cases g H.
      * simpl. split; [|intros [_ D]; discriminate].
        intros Hin. apply Hex in Hin. destruct Hin. congruence.
      * apply Hex.
    + intros g. upd_cases g H.
      * intros _. constructor; simpl; try discriminate; auto.
      * intros Ha. apply (FutOk_same s); [apply Hfut; exact Ha|simpl; congruence].
    + intros g. upd_cases g H; [discriminate|apply Hdead].
  - (* Poll *)
    pose proof (alive_lt s f H) as Hlt.
    pose proof (Hfut f H) as [Fn Fw Fd Fh].
    unfold step. rewrite H0. simpl negb. cbv iota.
    destruct (f_st (get s f)) eqn:Est.
    + (* New *)
      destruct (is_set s) eqn:Eset.
      * (* ready at once *)
        simpl. constructor; simpl; auto.
        -- intros g. upd_cases g Hlt.
           ++ simpl. split; [|intros [_ D]; discriminate]. rewrite Hset; auto. intros [].
           ++ apply Hex.
        -- intros g. upd_cases g Hlt.
           ++ intros _. constructor; simpl; try discriminate; auto.
           ++ intros Ha. apply (FutOk_same s); [apply Hfut; exact Ha|simpl; congruence].
        -- intros g. upd_cases g Hlt; [discriminate|apply Hdead].
      * assert (Hni : ~ In f (waiters s)).
        { intro Hin. apply Hex in Hin. destruct Hin. congruence. }
        apply memb_false in Hni. rewrite Hni.
        apply memb_false in Hni.
        simpl. constructor; simpl.
        -- constructor; auto.
        -- intros g. upd_cases g Hlt.
           ++ simpl. split; auto.
           ++ split.
              ** intros [Hx|Hx]; [congruence|]. apply Hex; auto.
              ** intros Hx. right. apply Hex. auto.
        -- congruence.
        -- intros g. upd_cases g Hlt.
           ++ intros _. constructor; simpl; try discriminate; auto.
              intros _. repeat split; auto. discriminate.
           ++ intros Ha. apply (FutOk_same s); [apply Hfut; exact Ha|simpl; congruence].
        -- intros g. upd_cases g Hlt; [discriminate|apply Hdead].
    + (* Waiting *)
      destruct (Fw eq_refl) as (P1 & P2 & P3 & P4 & P5 & P6).
      simpl. constructor; simpl; auto.
      * intros g. upd_cases g Hlt.
        -- simpl. split; auto. intros _. apply Hex. auto.
        -- apply Hex.
      * intros g. upd_cases g Hlt.
        -- intros _. constructor; simpl; try discriminate; auto.
           intros _. repeat split; auto. discriminate.
        -- intros Ha. apply (FutOk_same s); [apply Hfut; exact Ha|simpl; congruence].
      * intros g. upd_cases g Hlt; [discriminate|apply Hdead].
    + (* Done *)
      destruct (Fd eq_refl) as (P1 & P2).
      simpl. constructor; simpl; auto.
      * intros g. upd_cases g Hlt.
        -- simpl. split; [|intros [_ D]; discriminate]. intros Hin. apply Hex in Hin. destruct Hin; congruence.
        -- apply Hex.
      * intros g. upd_cases g Hlt.
        -- intros _. constructor; simpl; try discriminate; auto.
        -- intros Ha. apply (FutOk_same s); [apply Hfut; exact Ha|simpl; congruence].
      * intros g. upd_cases g Hlt; [discriminate|apply Hdead].
  - (* DropFut *)
    pose proof (alive_lt s f Hl) as Hlt.
    pose proof (Hfut f Hl) as [Fn Fw Fd Fh].
    assert (Hgen : forall ws, (forall g, In g ws <-> In g (waiters s) /\ g <> f) -> NoDup ws ->
                   (is_set s = true -> ws = []) ->
                   Inv (mkState (is_set s) ws (upd f absent (futs s)))).
    { intros ws Hws Hndw Hsetw. constructor; simpl; auto.
      - intros g. upd_cases g Hlt.
        + simpl. split; [|intros [D _]; discriminate]. intros Hin. apply Hws in Hin. destruct Hin; congruence.
        + rewrite Hws. rewrite Hex. unfold get. tauto.
      - intros g. upd_cases g Hlt.
        + discriminate.
        + intros Ha. apply (FutOk_same s); [apply Hfut; exact Ha|simpl; congruence].
      - intros g. upd_cases g Hlt; auto.
        apply Hdead. }
    assert (Hsame : ~ In f (waiters s) -> Inv (setf s f absent)).
    { intros Hni. apply Hgen; auto. intros g. split; [|tauto]. intros Hin; split; auto. intro; subst; auto. }
    unfold step.
    destruct (f_hp (get s f)) eqn:Ehp.
    + destruct (f_st (get s f)) eqn:Est.
      * simpl. apply Hsame. intro Hin. apply Hex in Hin. destruct Hin; congruence.
      * assert (Hin : In f (waiters s)) by (apply Hex; auto).
        apply memb_In in Hin. rewrite Hin. simpl.
        apply Hgen.
        -- intros g. apply In_remove.
        -- apply NoDup_remove; auto.
        -- intros E. rewrite Hset; auto.
      * simpl. apply Hsame. intro Hin. apply Hex in Hin. destruct Hin; congruence.
    + simpl. apply Hsame. intro Hin. apply Hex in Hin. destruct Hin as [_ Hin].
      rewrite (Fh eq_refl) in Hin. discriminate.
  - (* SetEv *)
    unfold step. destruct (is_set s) eqn:Eset.
    + simpl. rewrite (Hset eq_refl). constructor; simpl.
      * constructor.
      * intros g. unfold get; simpl. rewrite nth_map_absent by reflexivity.
        split; [intros []|]. intros [Ha Hs]. unfold mark_seen in *.
        assert (Hw : f_st (nth g (futs s) absent) = Waiting).
        { destruct (f_alive (nth g (futs s) absent) && f_polled (nth g (futs s) absent))%bool; auto. }
        assert (Hal : f_alive (nth g (futs s) absent) = true).
        { destruct (f_alive (nth g (futs s) absent) && f_polled (nth g (futs s) absent))%bool; auto. }
        assert (In g (waiters s)) by (apply Hex; auto). rewrite (Hset eq_refl) in H. auto.
      * auto.
      * intros g. unfold get; simpl. rewrite nth_map_absent by reflexivity. intros Ha.
        assert (Hal : f_alive (nth g (futs s) absent) = true).
        { unfold mark_seen in Ha. destruct (f_alive (nth g (futs s) absent) && f_polled (nth g (futs s) absent))%bool; auto. }
        destruct (Hfut g Hal) as [A B C D]. fold (get s g) in *.
        unfold mark_seen. destruct (f_alive (get s g) && f_polled (get s g))%bool eqn:Eb.
        -- constructor; simpl.
           ++ intros E. destruct (A E) as [P _]. bool_hyps. congruence.
           ++ intros E. destruct (B E) as (_ & _ & _ & _ & _ & P). congruence.
           ++ intros E. destruct (C E). auto.
           ++ auto.
        -- constructor; auto. intros E. destruct (B E) as (_ & _ & _ & _ & _ & P). congruence.
      * intros g. unfold get; simpl. rewrite nth_map_absent by reflexivity. intros Ha.
        assert (Hal : f_alive (nth g (futs s) absent) = false).
        { unfold mark_seen in Ha. destruct (f_alive (nth g (futs s) absent) && f_polled (nth g (futs s) absent))%bool; auto. }
        fold (get s g) in *. rewrite (Hdead g Hal). reflexivity.
    + pose proof (wake_all_spec (rev (waiters s)) (futs s) []) as W.
      assert (Hndr : NoDup (rev (waiters s))) by (apply NoDup_rev; auto).
      specialize (W Hndr).
      destruct (wake_all (futs s) (rev (waiters s)) []) as [fs wk].
      destruct W as (Wlen & Wwk & Wother & Win).
      simpl.
      assert (Hg : forall g, nth g fs absent =
                    if memb g (waiters s) then
                      let x := get s g in mkFut (f_alive x) (f_hp x) Done None (f_polled x) (f_seen x) (f_lastw x)
                    else get s g).
      { intros g. destruct (memb g (waiters s)) eqn:Em.
        - apply memb_In in Em. apply Win. apply -> in_rev; auto.
          apply Hex in Em. destruct Em. apply alive_lt; auto.
        - apply memb_false in Em. apply Wother. intro Hin. apply Em. apply in_rev; auto. }
      constructor; simpl.
      * constructor.
      * intros g. unfold get; simpl. rewrite nth_map_absent by reflexivity. rewrite Hg.
        split; [intros []|]. intros [Ha Hs]. exfalso.
        destruct (memb g (waiters s)) eqn:Em.
        -- unfold mark_seen in Hs. simpl in Hs.
           destruct (f_alive (get s g) && f_polled (get s g))%bool; simpl in Hs; discriminate.
        -- apply memb_false in Em. apply Em. apply Hex.
           unfold mark_seen in *.
           destruct (f_alive (get s g) && f_polled (get s g))%bool; simpl in *; auto.
      * auto.
      * intros g. unfold get; simpl. rewrite nth_map_absent by reflexivity. rewrite Hg. intros Ha.
        destruct (memb g (waiters s)) eqn:Em.
        -- apply memb_In in Em. apply Hex in Em. destruct Em as [Hal Hw].
           destruct (Hfut g Hal) as [A B C D]. destruct (B Hw) as (P1 & P2 & P3 & _).
           unfold mark_seen. simpl. rewrite Hal, P1. simpl.
           constructor; simpl; try discriminate; auto.
        -- assert (Hal : f_alive (get s g) = true).
           { unfold mark_seen in Ha. destruct (f_alive (get s g) && f_polled (get s g))%bool; auto. }
           destruct (Hfut g Hal) as [A B C D].
           apply memb_false in Em.
           assert (Hnw : f_st (get s g) <> Waiting).
           { intro E. apply Em. apply Hex. auto. }
           unfold mark_seen. destruct (f_alive (get s g) && f_polled (get s g))%bool eqn:Eb.
           ++ constructor; simpl.
              ** intros E. destruct (A E) as [P _]. bool_hyps. congruence.
              ** intros E. congruence.
              ** intros E. destruct (C E). auto.
              ** auto.
           ++ constructor; auto. intros E. congruence.
      * intros g. unfold get; simpl. rewrite nth_map_absent by reflexivity. rewrite Hg. intros Ha.
        destruct (memb g (waiters s)) eqn:Em.
        -- apply memb_In in Em. apply Hex in Em. destruct Em as [Hal Hw].
           unfold mark_seen in Ha. simpl in Ha. rewrite Hal in Ha.
           destruct (f_polled (get s g)); simpl in Ha; congruence.
        -- assert (Hal : f_alive (get s g) = false).
           { unfold mark_seen in Ha. destruct (f_alive (get s g) && f_polled (get s g))%bool; auto. }
           rewrite (Hdead g Hal). reflexivity.
  - (* ResetEv *)
    simpl. constructor; simpl; auto; try discriminate.
    intros g Ha. destruct (Hfut g Ha) as [A B C D]. constructor; auto.
    intros E. destruct (B E) as (P1 & P2 & P3 & P4 & P5 & P6). repeat split; auto.
  - (* IsSet *)
    simpl. constructor; auto.
Qed.

Theorem reach_inv k b s : Reach k b s -> Inv s.
Proof. induction 1; [apply inv_init|apply inv_step; auto]. Qed.

(* ------------------------------------------------------------------ *)
(* histories as operation lists *)
Definition run (s : state) (ops : list op) : state :=
  fold_left (fun s o => fst (step s o)) ops s.

Fixpoint legal_run (s : state) (ops : list op) : Prop :=
  match ops with
  | [] => True
  | o :: r => legal s o = true /\ legal_run (fst (step s o)) r
  end.

Lemma reach_run_gen k b s ops : Reach k b s -> legal_run s ops -> Reach k b (run s ops).
Proof.
  revert s; induction ops as [|o r IH]; simpl; intros s Hr Hl; auto.
  destruct Hl. apply IH; auto. apply reach_step; auto.
Qed.

Lemma reach_run k b ops : legal_run (init k b) ops -> Reach k b (run (init k b) ops).
Proof. apply reach_run_gen. apply reach_init. Qed.

Lemma legal_run_app s a c : legal_run s (a ++ c) <-> legal_run s a /\ legal_run (run s a) c.
Proof.
  revert s; induction a as [|o r IH]; simpl; intros s; [tauto|]. rewrite IH. tauto.
Qed.

Lemma run_app s a c : run s (a ++ c) = run (run s a) c.
Proof. unfold run. apply fold_left_app. Qed.

(* ------------------------------------------------------------------ *)
(* C14: result of a poll *)
Lemma poll_result s f w :
  Inv s -> legal s (Poll f w) = true ->
  o_res (snd (step s (Poll f w))) =
    if (is_set s || (f_polled (get s f) && f_seen (get s f)))%bool then [R_READY] else [R_PENDING].
Proof.
  intros [Hnd Hex Hset Hfut Hdead] Hl. simpl in Hl. bool_hyps.
  destruct (Hfut f H) as [Fn Fw Fd Fh].
  unfold step. rewrite H0. simpl negb. cbv iota.
  destruct (f_st (get s f)) eqn:Est.
  - destruct (Fn eq_refl) as [P _]. rewrite P. simpl. rewrite orb_false_r.
    destruct (is_set s) eqn:Eset; simpl; auto.
    assert (Hni : ~ In f (waiters s)).
    { intro Hin. apply Hex in Hin. destruct Hin. congruence. }
    apply memb_false in Hni. rewrite Hni. reflexivity.
  - destruct (Fw eq_refl) as (P1 & P2 & P3 & P4 & P5 & P6). rewrite P1, P2, P6. reflexivity.
  - destruct (Fd eq_refl) as (P1 & P2). rewrite P1, P2. rewrite orb_true_r. reflexivity.
Qed.

(* the ghost fields mean what they say: a tracker defined on the operations alone *)
Record tracker := mkTr { t_set : bool; t_seen : fid -> option bool }.

Definition track_step (t : tracker) (o : op) : tracker :=
  match o with
  | Create f | DropFut f => mkTr (t_set t) (fun g => if Nat.eqb g f then None else t_seen t g)
  | Poll f _ =>
      mkTr (t_set t) (fun g => if Nat.eqb g f
                               then match t_seen t f with None => Some (t_set t) | Some b => Some b end
                               else t_seen t g)
  | SetEv => mkTr true (fun g => match t_seen t g with None => None | Some _ => Some true end)
  | ResetEv => mkTr false (t_seen t)
  | IsSet => t
  end.

Definition track (b : bool) (ops : list op) : tracker :=
  fold_left track_step ops (mkTr b (fun _ => None)).

Definition tracked (s : state) (t : tracker) : Prop :=
  is_set s = t_set t /\
  forall f, t_seen t f =
            if (f_alive (get s f) && f_polled (get s f))%bool then Some (f_seen (get s f)) else None.

Lemma tracked_init k b : tracked (init k b) (mkTr b (fun _ => None)).
Proof.
  split; simpl; auto. intros f. unfold get; simpl. rewrite nth_repeat_absent. reflexivity.
Qed.

Lemma tracked_step s t o :
  Inv s -> legal s o = true -> tracked s t -> tracked (fst (step s o)) (track_step t o).
Proof.
  intros I Hl [Ts Tf]. pose proof I as [Hnd Hex Hset Hfut Hdead].
  destruct o as [f|f w|f| | |]; simpl in Hl; bool_hyps.
  - split; simpl; [congruence|]. intros g. upd_cases g H.
    + rewrite Nat.eqb_refl. reflexivity.
    + apply Nat.eqb_neq in Hne. rewrite Hne. apply Tf.
  - pose proof (alive_lt s f H) as Hlt.
    destruct (Hfut f H) as [Fn Fw Fd Fh].
    unfold step. rewrite H0. simpl negb. cbv iota.
    destruct (f_st (get s f)) eqn:Est.
    + destruct (Fn eq_refl) as [P _].
      assert (Tff : t_seen t f = None) by (rewrite Tf, H, P; reflexivity).
      destruct (is_set s) eqn:Eset.
      * split; simpl; [congruence|]. intros g. upd_cases g Hlt.
        -- rewrite Nat.eqb_refl, Tff. simpl. congruence.
        -- apply Nat.eqb_neq in Hne. rewrite Hne. apply Tf.
      * assert (Hni : ~ In f (waiters s)).
        { intro Hin. apply Hex in Hin. destruct Hin. congruence. }
        apply memb_false in Hni. rewrite Hni.
        split; simpl; [congruence|]. intros g. upd_cases g Hlt.
        -- rewrite Nat.eqb_refl, Tff. simpl. congruence.
        -- apply Nat.eqb_neq in Hne. rewrite Hne. apply Tf.
    + destruct (Fw eq_refl) as (P1 & P2 & _).
      split; simpl; [congruence|]. intros g. upd_cases g Hlt.
      * rewrite Nat.eqb_refl. rewrite Tf, H, P1. simpl. reflexivity.
      * apply Nat.eqb_neq in Hne. rewrite Hne. apply Tf.
    + destruct (Fd eq_refl) as (P1 & P2).
      split; simpl; [congruence|]. intros g. upd_cases g Hlt.
      * rewrite Nat.eqb_refl. rewrite Tf, H, P1. simpl. reflexivity.
      * apply Nat.eqb_neq in Hne. rewrite Hne. apply Tf.
  - pose proof (alive_lt s f Hl) as Hlt.
    assert (Hgen : forall ws, tracked (mkState (is_set s) ws (upd f absent (futs s)))
                                      (track_step t (DropFut f))).
    { intros ws. split; simpl; [congruence|]. intros g. upd_cases g Hlt.
      - rewrite Nat.eqb_refl. reflexivity.
      - apply Nat.eqb_neq in Hne. rewrite Hne. apply Tf. }
    unfold step. destruct (f_hp (get s f)); [|apply Hgen].
    destruct (f_st (get s f)) eqn:Est; try apply Hgen.
    assert (Hin : In f (waiters s)) by (apply Hex; auto).
    apply memb_In in Hin. rewrite Hin. apply Hgen.
  - (* SetEv *)
    assert (Hmark : forall fs, (forall g, f_alive (nth g fs absent) = f_alive (get s g) /\
                                          f_polled (nth g fs absent) = f_polled (get s g)) ->
              forall ws, tracked (mkState true ws (map mark_seen fs)) (track_step t SetEv)).
    { intros fs Hfs ws. split; simpl; [congruence|]. intros g. unfold get; simpl.
      rewrite nth_map_absent by reflexivity. destruct (Hfs g) as [E1 E2].
      rewrite Tf. unfold mark_seen. rewrite E1, E2.
      destruct (f_alive (get s g) && f_polled (get s g))%bool eqn:Eb; simpl.
      - rewrite Eb. reflexivity.
      - rewrite E1, E2, Eb. reflexivity. }
    unfold step. destruct (is_set s) eqn:Eset.
    + apply Hmark. intros g. auto.
    + pose proof (wake_all_spec (rev (waiters s)) (futs s) []) as W.
      assert (Hndr : NoDup (rev (waiters s))) by (apply NoDup_rev; auto).
      specialize (W Hndr).
      destruct (wake_all (futs s) (rev (waiters s)) []) as [fs wk].
      destruct W as (Wlen & Wwk & Wother & Win).
      apply Hmark. intros g.
      destruct (in_dec Nat.eq_dec g (rev (waiters s))) as [Hin|Hni].
      * rewrite Win; auto.
        apply in_rev in Hin. apply Hex in Hin. destruct Hin. apply alive_lt; auto.
      * rewrite Wother; auto.
  - split; simpl; auto.
  - split; simpl; auto.
Qed.

Lemma tracked_run k b ops :
  legal_run (init k b) ops -> tracked (run (init k b) ops) (track b ops).
Proof.
  unfold track.
  assert (G : forall ops s t, Reach k b s -> tracked s t -> legal_run s ops ->
              tracked (run s ops) (fold_left track_step ops t)).
  { induction ops0 as [|o r IH]; simpl; intros s t Hr Ht Hl; auto.
    destruct Hl. apply IH; auto.
    - apply reach_step; auto.
    - apply tracked_step; auto. apply (reach_inv k b); auto. }
  intros Hl. apply G; auto. apply reach_init. apply tracked_init.
Qed.

(* C14, trace form: the last poll of a legal history completes iff the event is set
   at that poll or was set at some instant since the future's first poll *)
Theorem poll_completes_iff_set_seen k b ops f w :
  legal_run (init k b) (ops ++ [Poll f w]) ->
  let s := run (init k b) ops in
  let t := track b ops in
  (o_res (snd (step s (Poll f w))) = [R_READY] <-> (t_set t = true \/ t_seen t f = Some true)) /\
  (o_res (snd (step s (Poll f w))) = [R_PENDING] <-> ~ (t_set t = true \/ t_seen t f = Some true)).
Proof.
  intros Hl s t. apply legal_run_app in Hl. destruct Hl as [Hl1 Hl2]. simpl in Hl2. destruct Hl2 as [Hl2 _].
  fold s in Hl2.
  pose proof (reach_inv k b s (reach_run k b ops Hl1)) as I.
  pose proof (tracked_run k b ops Hl1) as [Ts Tf]. fold s in Ts, Tf. fold t in Ts, Tf.
  rewrite (poll_result s f w I Hl2).
  simpl in Hl2. bool_hyps. rewrite Tf, H. simpl. rewrite <- Ts.
  destruct (is_set s); simpl.
  - split; split; auto; try discriminate. intros Hn; exfalso; apply Hn; auto.
  - destruct (f_polled (get s f)); simpl.
    + destruct (f_seen (get s f)); simpl.
      * split; split; auto; try discriminate. intros Hn; exfalso; apply Hn; auto.
      * split; split; auto; try discriminate.
        -- intros [D|D]; discriminate.
        -- intros _ [D|D]; discriminate.
    + split; split; auto; try discriminate.
      * intros [D|D]; discriminate.
      * intros _ [D|D]; discriminate.
Qed.

(* C14: set() wakes exactly the pending waiters, oldest first, through their latest wakers *)
Definition lastw_of (s : state) (f : fid) : N :=
  match f_lastw (get s f) with Some w => nN w | None => 0%N end.

Theorem set_wakes_all s :
  Inv s -> is_set s = false ->
  let s' := fst (step s SetEv) in
  o_wake (snd (step s SetEv)) = map (lastw_of s) (rev (waiters s)) /\
  waiters s' = [] /\ is_set s' = true /\
  (forall f, In f (waiters s) <->
             (f_alive (get s f) = true /\ f_polled (get s f) = true /\ f_st (get s f) <> Done)) /\
  (forall f, In f (waiters s) -> f_st (get s' f) = Done /\ f_hp (get s' f) = true).
Proof.
  intros I Eset. pose proof I as [Hnd Hex Hset Hfut Hdead].
  unfold step. rewrite Eset.
  pose proof (wake_all_spec (rev (waiters s)) (futs s) []) as W.
  assert (Hndr : NoDup (rev (waiters s))) by (apply NoDup_rev; auto).
  specialize (W Hndr).
  destruct (wake_all (futs s) (rev (waiters s)) []) as [fs wk].
  destruct W as (Wlen & Wwk & Wother & Win).
  simpl. split; [|split; [|split; [|split]]]; auto.
  - rewrite Wwk. simpl.
    assert (G : forall l, (forall f, In f l -> In f (waiters s)) ->
             map nN (flat_map (fun f => match f_task (nth f (futs s) absent) with Some w => [w] | None => [] end) l)
             = map (lastw_of s) l).
    { induction l as [|h r IH]; [reflexivity|]. intros Hl. cbn [flat_map map].
      rewrite map_app.
      change (lastw_of s h :: map (lastw_of s) r) with ([lastw_of s h] ++ map (lastw_of s) r).
      f_equal; [|apply IH; intros; apply Hl; right; auto].
      assert (Hh : In h (waiters s)) by (apply Hl; left; auto). apply Hex in Hh. destruct Hh as [Ha Hw].
      destruct (Hfut h Ha) as [_ B _ _]. destruct (B Hw) as (_ & _ & _ & P4 & P5 & _).
      unfold lastw_of. fold (get s h). rewrite P4. destruct (f_lastw (get s h)); simpl; congruence. }
    apply G. intros f Hin. apply in_rev; auto.
  - intros f. split.
    + intros Hin. apply Hex in Hin. destruct Hin as [Ha Hw].
      destruct (Hfut f Ha) as [_ B _ _]. destruct (B Hw) as (P1 & _).
      repeat split; auto. congruence.
    + intros (Ha & Hp & Hd). apply Hex. split; auto.
      destruct (Hfut f Ha) as [A _ _ _].
      destruct (f_st (get s f)) eqn:E; auto; try congruence.
      destruct (A eq_refl). congruence.
  - intros f H.
    assert (Hlt : f < length (futs s)).
    { apply Hex in H. destruct H. apply alive_lt; auto. }
    unfold get; simpl. rewrite nth_map_absent by reflexivity.
    rewrite Win; auto; [|apply -> in_rev; auto].
    apply Hex in H. destruct H as [Ha Hw].
    destruct (Hfut f Ha) as [_ B _ _]. destruct (B Hw) as (_ & _ & P3 & _).
    unfold mark_seen. simpl. fold (get s f). destruct (_ && _)%bool; simpl; auto.
Qed.

(* C14: reset() changes nothing but the flag and wakes nobody *)
Theorem reset_inert s :
  fst (step s ResetEv) = mkState false (waiters s) (futs s) /\
  o_wake (snd (step s ResetEv)) = [].
Proof. split; reflexivity. Qed.

(* C14: is_set() reflects the last set/reset *)
Theorem is_set_tracks s o :
  is_set (fst (step s o)) = match o with SetEv => true | ResetEv => false | _ => is_set s end.
Proof.
  destruct o as [f|f w|f| | |]; simpl; auto.
  - destruct (f_hp (get s f)); simpl; auto.
    destruct (f_st (get s f)); simpl; auto.
    destruct (is_set s) eqn:E; simpl; auto.
    destruct (memb f (waiters s)); simpl; auto.
  - destruct (f_hp (get s f)); simpl; auto.
    destruct (f_st (get s f)); simpl; auto.
    destruct (memb f (waiters s)); simpl; auto.
  - destruct (is_set s); simpl; auto.
    destruct (wake_all (futs s) (rev (waiters s)) []); simpl; auto.
Qed.

Theorem is_set_probe s :
  step s IsSet = (s, mk_obs s [Rbool (is_set s)] []).
Proof. reflexivity. Qed.

(* C01 (event): the queue is exactly the waiting futures and no contract-respecting
   call panics or touches a node outside the protocol *)
Theorem no_panic s o :
  Inv s -> legal s o = true ->
  o_res (snd (step s o)) <> [R_PANIC] /\ o_res (snd (step s o)) <> [R_UB].
Proof.
  intros I Hl. pose proof I as [Hnd Hex Hset Hfut Hdead].
  destruct o as [f|f w|f| | |]; simpl in Hl; bool_hyps; try (simpl; split; discriminate).
  - rewrite (poll_result s f w I) by (simpl; rewrite H, H0; reflexivity).
    destruct (_ || _)%bool; split; discriminate.
  - unfold step. destruct (f_hp (get s f)); [|simpl; split; discriminate].
    destruct (f_st (get s f)) eqn:Est; try (simpl; split; discriminate).
    assert (Hin : In f (waiters s)) by (apply Hex; auto).
    apply memb_In in Hin. rewrite Hin. simpl; split; discriminate.
  - unfold step. destruct (is_set s); [simpl; split; discriminate|].
    destruct (wake_all (futs s) (rev (waiters s)) []). simpl; split; discriminate.
  - simpl. destruct (is_set s); split; discriminate.
Qed.

(* C17 (event): is_terminated is exact, Ready at most once, re-poll panics *)
Theorem terminated_exact s f :
  Inv s -> f_alive (get s f) = true ->
  (f_hp (get s f) = false <-> (f_st (get s f) = Done /\ f_hp (get s f) = false)) /\
  (f_hp (get s f) = false -> forall w, step s (Poll f w) = (s, mk_obs s [R_PANIC] [])).
Proof.
  intros [Hnd Hex Hset Hfut Hdead] Ha. destruct (Hfut f Ha) as [A B C D]. split.
  - split; [intros E; split; auto|tauto].
  - intros E w. unfold step. rewrite E. reflexivity.
Qed.

Theorem ready_terminates s f w :
  Inv s -> legal s (Poll f w) = true ->
  o_res (snd (step s (Poll f w))) = [R_READY] ->
  f_hp (get (fst (step s (Poll f w))) f) = false /\ f_alive (get (fst (step s (Poll f w))) f) = true.
Proof.
  intros I Hl. pose proof I as [Hnd Hex Hset Hfut Hdead]. simpl in Hl. bool_hyps.
  pose proof (alive_lt s f H) as Hlt.
  unfold step. rewrite H0. simpl negb. cbv iota.
  destruct (f_st (get s f)) eqn:Est.
  - destruct (is_set s).
    + intros _. unfold setf, get; simpl. rewrite nth_upd_same by auto. simpl; auto.
    + destruct (memb f (waiters s)); simpl; discriminate.
  - simpl. discriminate.
  - intros _. unfold setf, get; simpl. rewrite nth_upd_same by auto. simpl; auto.
Qed.
