(* Invariants and lemmas for Model/Mutex.v (C02, C03, C04) *)
From FI Require Import Base Mutex MutexSpec.

Local Ltac inv H := inversion H; subst; clear H.

Local Ltac bool_hyps :=
  repeat match goal with
  | H : (_ && _)%bool = true |- _ => apply andb_true_iff in H; destruct H
  | H : negb _ = true |- _ => apply negb_true_iff in H
  | H : negb _ = false |- _ => apply negb_false_iff in H
  | H : Nat.ltb _ _ = true |- _ => apply Nat.ltb_lt in H
  | H : Nat.eqb _ _ = true |- _ => apply Nat.eqb_eq in H
  end.

Lemma alive_lt s f : f_alive (get s f) = true -> f < length (futs s).
Proof.
  unfold get. intros H. destruct (Nat.lt_ge_cases f (length (futs s))) as [|Hge]; auto.
  rewrite nth_overflow in H by auto. discriminate.
Qed.

Lemma nth_repeat_absent k f : nth f (repeat absent k) absent = absent.
Proof. revert f; induction k; intros [|f]; simpl; auto. Qed.

Lemma nth_upd_cases (fs : list fut) f g x :
  f < length fs ->
  (g = f /\ nth g (upd f x fs) absent = x) \/
  (g <> f /\ nth g (upd f x fs) absent = nth g fs absent).
Proof.
  intros Hlt. rewrite nth_upd. destruct (Nat.eqb_spec f g) as [->|Hne]; simpl.
  - left. split; auto. apply Nat.ltb_lt in Hlt. rewrite Hlt. auto.
  - right. split; auto.
Qed.

Local Ltac upd_cases g Hlt :=
  unfold get; cbn [futs waiters fair locked guards];
  match goal with
  | |- context [nth g (upd ?f ?x ?fs) absent] =>
      let E := fresh "E" in let Hne := fresh "Hne" in
      destruct (nth_upd_cases fs f g x Hlt) as [[-> E]|[Hne E]]; rewrite E; clear E
  end.

(* ------------------------------------------------------------------ *)
(* list facts about the oldest element *)
Lemma olast_cons {A} (x : A) l : l <> [] -> olast (x :: l) = olast l.
Proof. destruct l; simpl; congruence. Qed.

Lemma olast_remove (l : list fid) g f :
  olast l = Some g -> g <> f -> olast (remove f l) = Some g.
Proof.
  intros Hl Hne. apply olast_Some_split in Hl. rewrite Hl.
  unfold remove. rewrite filter_app. simpl.
  apply Nat.eqb_neq in Hne. rewrite Hne. simpl. apply olast_app.
Qed.

Lemma olast_nonempty {A} (l : list A) : l <> [] -> exists x, olast l = Some x.
Proof.
  intros H. destruct (olast l) eqn:E; eauto. apply olast_None in E. contradiction.
Qed.

(* ------------------------------------------------------------------ *)
(* the invariant *)
Definition inq (fr : bool) (x : fut) : Prop :=
  f_alive x = true /\ f_hp x = true /\ (f_st x = Waiting \/ (fr = true /\ f_st x = Notified)).

Record FutOk (x : fut) : Prop := {
  fo_new : f_st x = New -> f_hp x = true;
  fo_wait : f_st x = Waiting -> f_hp x = true /\ f_task x = f_lastw x /\ f_lastw x <> None;
  fo_noti : f_st x = Notified -> f_hp x = true /\ f_task x = None /\ f_woken x = true /\ f_lastw x <> None;
  fo_done : f_st x = Done <-> f_hp x = false
}.

Record Base (s : state) : Prop := {
  b_nodup : NoDup (waiters s);
  b_exact : forall f, In f (waiters s) <-> inq (fair s) (get s f);
  b_guards : guards s = if locked s then 1 else 0;
  b_fut : forall f, f_alive (get s f) = true -> FutOk (get s f);
  b_dead : forall f, f_alive (get s f) = false -> get s f = absent
}.

Record Prog (s : state) : Prop := {
  p_unfair : fair s = false -> locked s = false -> waiters s <> [] ->
             exists g, f_alive (get s g) = true /\ f_st (get s g) = Notified;
  p_fair1 : fair s = true -> forall f, f_alive (get s f) = true -> f_st (get s f) = Notified ->
            olast (waiters s) = Some f /\ locked s = false;
  p_fair2 : fair s = true -> locked s = false -> forall g, olast (waiters s) = Some g ->
            f_st (get s g) = Notified
}.

Definition Inv (s : state) : Prop := Base s /\ Prog s.

Lemma inv_init k b : Inv (init k b).
Proof.
  split; constructor; simpl; auto.
  - constructor.
  - intros f. unfold get; simpl. rewrite nth_repeat_absent. unfold inq; simpl.
    split; [tauto|intros [H _]; discriminate].
  - intros f. unfold get; simpl. rewrite nth_repeat_absent. discriminate.
  - intros f _. unfold get; simpl. apply nth_repeat_absent.
  - congruence.
  - intros _ f. unfold get; simpl. rewrite nth_repeat_absent. discriminate.
  - intros _ _ g; discriminate.
Qed.

(* replace slot f and the queue: the frame part of the invariant *)
Lemma base_set s f x' (lk : bool) ws gd :
  Base s -> f < length (futs s) ->
  NoDup ws ->
  (forall g, g <> f -> (In g ws <-> In g (waiters s))) ->
  (In f ws <-> inq (fair s) x') ->
  gd = (if lk then 1 else 0) ->
  (f_alive x' = true -> FutOk x') ->
  (f_alive x' = false -> x' = absent) ->
  Base (mkState (fair s) lk ws (upd f x' (futs s)) gd).
Proof.
  intros [Hnd Hex Hg Hfut Hdead] Hlt Hnd' Hoth Hf Hgd Hok Habs.
  constructor; cbn [futs waiters fair locked guards]; auto.
  - intros g. upd_cases g Hlt; auto.
    rewrite Hoth by auto. apply Hex.
  - intros g. upd_cases g Hlt; auto. apply Hfut.
  - intros g. upd_cases g Hlt; auto. apply Hdead.
Qed.

Lemma base_lk m (lk : bool) gd :
  Base m -> gd = (if lk then 1 else 0) -> Base (mkState (fair m) lk (waiters m) (futs m) gd).
Proof. intros [Hnd Hex Hg Hfut Hdead] Hgd. constructor; auto. Qed.

Lemma in_alive_lt m g : Base m -> In g (waiters m) -> g < length (futs m).
Proof. intros B H. apply (b_exact m B) in H. destruct H as [Ha _]. apply alive_lt; auto. Qed.

(* return_last_waiter, when the oldest queued future is Waiting *)
Lemma rlw_spec m :
  Base m ->
  (forall g, olast (waiters m) = Some g -> f_st (get m g) = Waiting) ->
  (waiters m = [] /\ return_last_waiter (fair m) (waiters m) (futs m) = (waiters m, futs m, []))
  \/ (exists g w, olast (waiters m) = Some g /\ g < length (futs m) /\
        get m g = mkFut true true Waiting (Some w) (f_woken (get m g)) (Some w) /\
        return_last_waiter (fair m) (waiters m) (futs m) =
          (if fair m then waiters m else remove g (waiters m),
           upd g (mkFut true true Notified None true (Some w)) (futs m), [w])).
Proof.
  intros B Hlast. unfold return_last_waiter.
  destruct (olast (waiters m)) as [g|] eqn:E.
  - right. pose proof (olast_In _ _ E) as Hin.
    pose proof (in_alive_lt m g B Hin) as Hlt.
    specialize (Hlast g eq_refl).
    apply (b_exact m B) in Hin. destruct Hin as (Ha & Hhp & _).
    destruct (b_fut m B g Ha) as [_ Fw _ _]. destruct (Fw Hlast) as (_ & P2 & P3).
    fold (get m g). destruct (get m g) as [al hp st tk wo lw] eqn:Eg. simpl in *. subst.
    destruct lw as [w|]; [|congruence].
    exists g, w. repeat split; auto.
    { rewrite Eg. reflexivity. }
    rewrite Nat.eqb_refl, orb_true_r.
    rewrite (remove_last_is_remove _ g (b_nodup m B) E). reflexivity.
  - left. apply olast_None in E. split; auto.
Qed.

(* ------------------------------------------------------------------ *)
(* normal forms of the successor states *)
Definition done_fut (x : fut) (w : wid) : fut := mkFut true false Done (f_task x) false (Some w).
Definition wait_fut (w : wid) : fut := mkFut true true Waiting (Some w) false (Some w).
Definition noti_fut (w : wid) : fut := mkFut true true Notified None true (Some w).

Definition lock_state (s : state) (f : fid) (w : wid) : state :=
  mkState (fair s) true (remove f (waiters s)) (upd f (done_fut (get s f) w) (futs s)) (S (guards s)).

Definition pend_state (s : state) (f : fid) (w : wid) : state :=
  mkState (fair s) (locked s) (if memb f (waiters s) then waiters s else f :: waiters s)
          (upd f (wait_fut w) (futs s)) (guards s).

Definition drop_state (s : state) (f : fid) : state :=
  mkState (fair s) (locked s) (remove f (waiters s)) (upd f absent (futs s)) (guards s).

Definition notify_out (m : state) (lk : bool) (gd : nat) (s' : state) (wk : list wid) : Prop :=
  (waiters m = [] /\ s' = mkState (fair m) lk (waiters m) (futs m) gd /\ wk = [])
  \/ (exists g w, olast (waiters m) = Some g /\ g < length (futs m) /\
        get m g = mkFut true true Waiting (Some w) (f_woken (get m g)) (Some w) /\
        s' = mkState (fair m) lk (if fair m then waiters m else remove g (waiters m))
                     (upd g (noti_fut w) (futs m)) gd /\
        wk = [w]).

Lemma notify_out_intro m lk gd :
  Base m ->
  (forall g, olast (waiters m) = Some g -> f_st (get m g) = Waiting) ->
  exists ws' fs' wk,
    return_last_waiter (fair m) (waiters m) (futs m) = (ws', fs', wk) /\
    notify_out m lk gd (mkState (fair m) lk ws' fs' gd) wk.
Proof.
  intros B Hlast. destruct (rlw_spec m B Hlast) as [[He Hr]|(g & w & Ho & Hlt & Hg & Hr)]; rewrite Hr.
  - do 3 eexists; split; [reflexivity|left; repeat split; auto].
  - do 3 eexists; split; [reflexivity|right; exists g, w; repeat split; eauto].
Qed.

Definition poll_out (s : state) (f : fid) (w : wid) : Prop :=
  (step s (Poll f w) = (lock_state s f w, mk_obs (lock_state s f w) [R_READY] []) /\
   locked s = false /\
   (fair s = true -> waiters s = [] \/ olast (waiters s) = Some f))
  \/
  (step s (Poll f w) = (pend_state s f w, mk_obs (pend_state s f w) [R_PENDING] []) /\
   (fair s = false -> locked s = true) /\
   (fair s = true -> f_st (get s f) <> Notified) /\
   (fair s = true -> locked s = false -> waiters s <> [])).

Lemma step_poll s f w :
  Inv s -> f_alive (get s f) = true -> f_hp (get s f) = true -> poll_out s f w.
Proof.
  intros [B P] Ha Hhp. pose proof B as [Hnd Hex Hg Hfut Hdead].
  destruct (Hfut f Ha) as [Fn Fw Fno Fd].
  unfold poll_out, step. rewrite Hhp. simpl negb. cbv iota.
  destruct (f_st (get s f)) eqn:Est.
  - (* New *)
    assert (Hni : ~ In f (waiters s)).
    { intro Hin. apply Hex in Hin. destruct Hin as (_ & _ & [D|[_ D]]); congruence. }
    destruct (can_lock_sync s) eqn:Ec; unfold can_lock_sync in Ec.
    + left. bool_hyps. unfold lock_state. rewrite (remove_notin f _ Hni).
      repeat split; auto.
      intros Hf. rewrite Hf in H0. simpl in H0. destruct (waiters s); auto; discriminate.
    + right. apply memb_false in Hni. unfold pend_state. rewrite Hni.
      repeat split; auto.
      * intros Hf. rewrite Hf in Ec. simpl in Ec. rewrite andb_true_r in Ec. bool_hyps; auto.
      * congruence.
      * intros Hf Hlk E. rewrite Hf, Hlk, E in Ec. discriminate.
  - (* Waiting *)
    assert (Hin : In f (waiters s)).
    { apply Hex. repeat split; auto. }
    pose proof Hin as Hm. apply memb_In in Hm.
    destruct (fair s) eqn:Ef; simpl.
    + right. unfold pend_state. rewrite Hm, Ef. repeat split; auto; try congruence.
      intros _ _ E. rewrite E in Hin. destruct Hin.
    + destruct (locked s) eqn:El; simpl.
      * right. unfold pend_state. rewrite Hm, Ef, El. repeat split; auto; congruence.
      * left. rewrite Hm. unfold lock_state, done_fut. rewrite Ef. repeat split; auto. congruence.
  - (* Notified *)
    destruct (locked s) eqn:El; simpl.
    + destruct (fair s) eqn:Ef.
      * exfalso. destruct (p_fair1 s P Ef f Ha Est). congruence.
      * assert (Hni : ~ In f (waiters s)).
        { intro Hin. apply Hex in Hin. destruct Hin as (_ & _ & [D|[D _]]); congruence. }
        apply memb_false in Hni. rewrite Hni.
        right. unfold pend_state. rewrite Hni, Ef, El. repeat split; auto; congruence.
    + left. destruct (fair s) eqn:Ef; simpl.
      * destruct (p_fair1 s P Ef f Ha Est) as [Hol _].
        pose proof (olast_In _ _ Hol) as Hin. apply memb_In in Hin. rewrite Hin. simpl.
        unfold lock_state, done_fut. rewrite Ef. repeat split; auto.
      * assert (Hni : ~ In f (waiters s)).
        { intro Hin. apply Hex in Hin. destruct Hin as (_ & _ & [D|[D _]]); congruence. }
        unfold lock_state, done_fut. rewrite (remove_notin f _ Hni), Ef. repeat split; auto. congruence.
  - (* Done *)
    destruct Fd as [Fd _]. rewrite Fd in Hhp; auto. discriminate.
Qed.

Lemma base_drop s f : Base s -> f_alive (get s f) = true -> Base (drop_state s f).
Proof.
  intros B Ha. apply base_set; auto.
  - apply alive_lt; auto.
  - apply NoDup_remove. apply (b_nodup s B).
  - intros g Hne. rewrite In_remove. tauto.
  - rewrite In_remove. unfold inq; simpl. split; [intros [_ D]; congruence|intros [D _]; discriminate].
  - apply (b_guards s B).
  - discriminate.
Qed.

Definition drop_out (s : state) (f : fid) : Prop :=
  (f_st (get s f) <> Notified /\
   step s (DropFut f) = (drop_state s f, mk_obs (drop_state s f) [R_UNIT] []))
  \/
  (f_st (get s f) = Notified /\
   exists s' wk, notify_out (drop_state s f) (locked s) (guards s) s' wk /\
                 step s (DropFut f) = (s', mk_obs s' [R_UNIT] wk)).

Lemma step_drop s f :
  Inv s -> f_alive (get s f) = true -> drop_out s f.
Proof.
  intros [B P] Ha. pose proof B as [Hnd Hex Hg Hfut Hdead].
  destruct (Hfut f Ha) as [Fn Fw Fno Fd].
  pose proof (alive_lt s f Ha) as Hlt.
  assert (Hplain : ~ In f (waiters s) ->
     mkState (fair s) (locked s) (waiters s) (upd f absent (futs s)) (guards s) = drop_state s f).
  { intros Hni. unfold drop_state. rewrite (remove_notin f _ Hni). reflexivity. }
  unfold drop_out, step.
  destruct (f_hp (get s f)) eqn:Ehp.
  - destruct (f_st (get s f)) eqn:Est.
    + left. split; [congruence|]. rewrite Hplain; auto.
      intro Hin. apply Hex in Hin. destruct Hin as (_ & _ & [D|[_ D]]); congruence.
    + left. split; [congruence|].
      assert (Hin : In f (waiters s)) by (apply Hex; repeat split; auto).
      apply memb_In in Hin. rewrite Hin. reflexivity.
    + right. split; auto.
      assert (Hws : (if fair s then remove f (waiters s) else waiters s) = remove f (waiters s)).
      { destruct (fair s) eqn:Ef; auto. symmetry. apply remove_notin.
        intro Hin. apply Hex in Hin. destruct Hin as (_ & _ & [D|[D _]]); congruence. }
      assert (Hm : (fair s && negb (memb f (waiters s)))%bool = false).
      { destruct (fair s) eqn:Ef; auto. simpl.
        destruct (p_fair1 s P Ef f Ha Est) as [Hol _].
        apply olast_In in Hol. apply memb_In in Hol. rewrite Hol. reflexivity. }
      rewrite Hm, Hws.
      pose proof (base_drop s f B Ha) as Bm.
      destruct (notify_out_intro (drop_state s f) (locked s) (guards s) Bm) as (ws' & fs' & wk & Hr & Hno).
      { intros g Hol. pose proof (olast_In _ _ Hol) as Hin.
        pose proof Hin as Hin'. apply (b_exact _ Bm) in Hin'.
        destruct Hin' as (_ & _ & [W|[Ef N]]); auto. exfalso.
        simpl in Ef. simpl in Hin. apply In_remove in Hin. destruct Hin as [Hin Hne].
        unfold get, drop_state in N; simpl in N. rewrite nth_upd_other in N by auto.
        assert (Hga : f_alive (get s g) = true) by (apply Hex in Hin; destruct Hin; auto).
        destruct (p_fair1 s P Ef g Hga N) as [O1 _].
        destruct (p_fair1 s P Ef f Ha Est) as [O2 _]. congruence. }
      simpl in Hr. rewrite Hr. exists (mkState (fair s) (locked s) ws' fs' (guards s)), wk. split; auto.
    + left. split; [congruence|]. rewrite Hplain; auto.
      intro Hin. apply Hex in Hin. destruct Hin as (_ & _ & [D|[_ D]]); congruence.
  - left. split.
    + destruct Fd as [_ Fd]. rewrite Fd; auto. discriminate.
    + rewrite Hplain; auto.
      intro Hin. apply Hex in Hin. destruct Hin as (_ & D & _); congruence.
Qed.

Lemma step_dropguard s :
  Inv s -> 0 < guards s ->
  locked s = true /\
  exists s' wk, notify_out s false 0 s' wk /\ step s DropGuard = (s', mk_obs s' [R_UNIT] wk).
Proof.
  intros [B P] Hg. pose proof B as [Hnd Hex Hgd Hfut Hdead].
  destruct (locked s) eqn:El; [|lia]. split; auto.
  destruct (notify_out_intro s false 0 B) as (ws' & fs' & wk & Hr & Hno).
  { intros g Hol. pose proof (olast_In _ _ Hol) as Hin.
    apply Hex in Hin. destruct Hin as (Hga & _ & [W|[Ef N]]); auto. exfalso.
    destruct (p_fair1 s P Ef g Hga N). congruence. }
  unfold step. rewrite El, Hr, Hgd. simpl pred.
  exists (mkState (fair s) false ws' fs' 0), wk. split; auto.
Qed.

(* ------------------------------------------------------------------ *)
(* preservation of the invariant, outcome by outcome *)
Lemma get_mk fr lk ws fs gd g : get (mkState fr lk ws fs gd) g = nth g fs absent.
Proof. reflexivity. Qed.

Lemma inv_create s f :
  Inv s -> f < length (futs s) -> f_alive (get s f) = false ->
  Inv (mkState (fair s) (locked s) (waiters s) (upd f fresh (futs s)) (guards s)).
Proof.
  intros [B P] Hlt Hd. pose proof B as [Hnd Hex Hg Hfut Hdead].
  assert (Hni : ~ In f (waiters s)).
  { intro Hin. apply Hex in Hin. destruct Hin as (D & _); congruence. }
  split.
  - apply base_set; auto.
    + tauto.
    + unfold inq; simpl. split; [tauto|]. intros (_ & _ & [D|[_ D]]); discriminate.
    + intros _. constructor; simpl; try discriminate; auto. split; discriminate.
    + discriminate.
  - destruct P as [Pu P1 P2]. constructor; cbn [fair locked waiters].
    + intros Ef El Hw. destruct (Pu Ef El Hw) as (g & Ha & Hs). exists g.
      rewrite get_mk. rewrite nth_upd_other; auto. congruence.
    + intros Ef g. rewrite get_mk. upd_cases g Hlt; [discriminate|]. apply P1; auto.
    + intros Ef El g Hol. rewrite get_mk. rewrite nth_upd_other; [apply P2; auto|].
      intro; subst. apply Hni. apply olast_In; auto.
Qed.

Lemma inv_lock s f w :
  Inv s -> f_alive (get s f) = true -> locked s = false ->
  (fair s = true -> waiters s = [] \/ olast (waiters s) = Some f) ->
  Inv (lock_state s f w).
Proof.
  intros [B P] Ha El Hside. pose proof B as [Hnd Hex Hg Hfut Hdead].
  pose proof (alive_lt s f Ha) as Hlt.
  split.
  - apply base_set; auto.
    + apply NoDup_remove; auto.
    + intros g Hne. rewrite In_remove. tauto.
    + rewrite In_remove. unfold inq; simpl. split; [intros [_ D]; congruence|intros (_ & D & _); discriminate].
    + rewrite Hg, El. reflexivity.
    + intros _. constructor; simpl; try discriminate; auto. split; auto.
    + discriminate.
  - destruct P as [Pu P1 P2]. constructor; unfold lock_state; cbn [fair locked waiters]; try discriminate.
    intros Ef g. rewrite get_mk. upd_cases g Hlt; [discriminate|].
    intros Hga Hn. exfalso. destruct (P1 Ef g Hga Hn) as [Hol _].
    destruct (Hside Ef) as [E|E]; rewrite E in Hol; [discriminate|congruence].
Qed.

Lemma inv_pend s f w :
  Inv s -> f_alive (get s f) = true ->
  (fair s = false -> locked s = true) ->
  (fair s = true -> f_st (get s f) <> Notified) ->
  (fair s = true -> locked s = false -> waiters s <> []) ->
  Inv (pend_state s f w).
Proof.
  intros [B P] Ha S1 S2 S3. pose proof B as [Hnd Hex Hg Hfut Hdead].
  pose proof (alive_lt s f Ha) as Hlt.
  split.
  - apply base_set; auto.
    + destruct (memb f (waiters s)) eqn:Em; auto. apply memb_false in Em. constructor; auto.
    + intros g Hne. destruct (memb f (waiters s)); [tauto|]. simpl. split; [intros [D|D]; [congruence|auto]|auto].
    + unfold inq; simpl. split; [intros _; repeat split; auto|]. intros _.
      destruct (memb f (waiters s)) eqn:Em; [apply memb_In; auto|left; auto].
    + intros _. constructor; simpl; try discriminate; auto.
      * intros _. repeat split; auto. discriminate.
      * split; discriminate.
    + discriminate.
  - destruct P as [Pu P1 P2]. constructor; unfold pend_state; cbn [fair locked waiters].
    + intros Ef El. rewrite S1 in El; auto. discriminate.
    + intros Ef g. rewrite get_mk. upd_cases g Hlt; [discriminate|].
      intros Hga Hn. destruct (P1 Ef g Hga Hn) as [Hol El]. split; auto.
      destruct (memb f (waiters s)); auto. rewrite olast_cons; [exact Hol|].
      intro E; rewrite E in Hol; discriminate.
    + intros Ef El g Hol. rewrite get_mk.
      assert (Hol' : olast (waiters s) = Some g).
      { destruct (memb f (waiters s)); auto. rewrite olast_cons in Hol; auto. }
      pose proof (P2 Ef El g Hol') as Hn.
      rewrite nth_upd_other; auto. intro; subst. apply (S2 Ef); auto.
Qed.

Lemma inv_drop s f :
  Inv s -> f_alive (get s f) = true -> f_st (get s f) <> Notified -> Inv (drop_state s f).
Proof.
  intros [B P] Ha Hnn. pose proof B as [Hnd Hex Hg Hfut Hdead].
  pose proof (alive_lt s f Ha) as Hlt.
  split; [apply base_drop; auto|].
  destruct P as [Pu P1 P2]. constructor; unfold drop_state; cbn [fair locked waiters].
  - intros Ef El Hw.
    assert (Hw' : waiters s <> []) by (intro E; rewrite E in Hw; auto).
    destruct (Pu Ef El Hw') as (g & Hga & Hn). exists g. rewrite get_mk.
    rewrite nth_upd_other; auto. congruence.
  - intros Ef g. rewrite get_mk. upd_cases g Hlt; [discriminate|].
    intros Hga Hn. destruct (P1 Ef g Hga Hn) as [Hol El]. split; auto.
    apply olast_remove; auto.
  - intros Ef El g Hol. rewrite get_mk.
    assert (Hw' : waiters s <> []) by (intro E; rewrite E in Hol; discriminate).
    destruct (olast_nonempty _ Hw') as [h Hh].
    pose proof (P2 Ef El h Hh) as Hn.
    assert (Hne : h <> f) by congruence.
    rewrite (olast_remove _ h f Hh Hne) in Hol. inv Hol.
    rewrite nth_upd_other; auto.
Qed.

Lemma inv_notify m (lk : bool) gd s' wk :
  Base m ->
  (fair m = true -> lk = false /\ forall h, f_alive (get m h) = true -> f_st (get m h) <> Notified) ->
  gd = (if lk then 1 else 0) ->
  notify_out m lk gd s' wk -> Inv s'.
Proof.
  intros B Hf Hgd [(Hw & -> & _)|(g & w & Hol & Hlt & Hg & -> & _)].
  - split; [apply base_lk; auto|].
    constructor; cbn [fair locked waiters].
    + intros _ _ D; congruence.
    + intros Ef h Hha Hn. exfalso. destruct (Hf Ef) as [_ Hno]. apply (Hno h); auto.
    + intros _ _ g. rewrite Hw. discriminate.
  - pose proof B as [Hnd Hex Hgg Hfut Hdead].
    pose proof (olast_In _ _ Hol) as Hin.
    split.
    + apply base_set; auto.
      * destruct (fair m); auto. apply NoDup_remove; auto.
      * intros h Hne. destruct (fair m); [tauto|]. rewrite In_remove. tauto.
      * unfold inq; simpl. destruct (fair m) eqn:Ef.
        -- split; [auto|intros _; repeat split; auto].
        -- rewrite In_remove. split; [intros [_ D]; congruence|]. intros (_ & _ & [D|[D _]]); discriminate.
      * intros _. constructor; simpl; try discriminate; auto.
        -- intros _. repeat split; auto. discriminate.
        -- split; discriminate.
      * discriminate.
    + constructor; cbn [fair locked waiters].
      * intros _ _ _. exists g. rewrite get_mk. rewrite nth_upd_same; auto.
      * intros Ef h. destruct (Hf Ef) as [Hlk Hno]. rewrite Ef. rewrite get_mk.
        upd_cases h Hlt; auto. intros Hha Hn. exfalso. apply (Hno h); auto.
      * intros Ef _ h. rewrite Ef. intros Hol'. assert (h = g) by congruence. subst h.
        rewrite get_mk, nth_upd_same; auto.
Qed.

Lemma can_lock_fair s : can_lock_sync s = true -> locked s = false /\ (fair s = true -> waiters s = []).
Proof.
  unfold can_lock_sync. intros H. bool_hyps. split; auto.
  intros Ef. rewrite Ef in H0. simpl in H0. destruct (waiters s); auto; discriminate.
Qed.

Lemma inv_trylock s :
  Inv s -> can_lock_sync s = true ->
  Inv (mkState (fair s) true (waiters s) (futs s) (S (guards s))).
Proof.
  intros [B P] Hc. apply can_lock_fair in Hc. destruct Hc as [El Hw].
  split.
  - apply base_lk; auto. rewrite (b_guards s B), El. reflexivity.
  - destruct P as [Pu P1 P2]. constructor; cbn [fair locked waiters]; try discriminate.
    intros Ef f Ha Hn. exfalso. destruct (P1 Ef f Ha Hn) as [Hol _]. rewrite Hw in Hol; auto. discriminate.
Qed.

Lemma fair_step s o : fair (fst (step s o)) = fair s.
Proof.
  destruct o as [f|f w|f| | |]; simpl; auto.
  - destruct (f_hp (get s f)); simpl; auto.
    destruct (f_st (get s f)); simpl; auto.
    + destruct (can_lock_sync s); simpl; auto. destruct (memb f (waiters s)); simpl; auto.
    + destruct (negb (fair s) && negb (locked s))%bool; simpl; auto. destruct (memb f (waiters s)); simpl; auto.
    + destruct (negb (locked s)); simpl.
      * destruct (fair s && negb (memb f (waiters s)))%bool; simpl; auto.
      * destruct (fair s) eqn:Ef; simpl; auto. destruct (memb f (waiters s)); simpl; auto.
  - destruct (f_hp (get s f)); simpl; auto.
    destruct (f_st (get s f)); simpl; auto.
    + destruct (memb f (waiters s)); simpl; auto.
    + destruct (fair s && negb (memb f (waiters s)))%bool; simpl; auto.
      destruct (return_last_waiter _ _ _) as [[ws' fs'] wk]. reflexivity.
  - destruct (can_lock_sync s); simpl; auto.
  - destruct (locked s); simpl; auto.
    destruct (return_last_waiter _ _ _) as [[ws' fs'] wk]. reflexivity.
Qed.

Lemma drop_notified_pre s f :
  Inv s -> f_alive (get s f) = true -> f_st (get s f) = Notified ->
  fair (drop_state s f) = true ->
  locked s = false /\
  forall h, f_alive (get (drop_state s f) h) = true -> f_st (get (drop_state s f) h) <> Notified.
Proof.
  intros [B P] Ha Hn Ef. simpl in Ef. destruct (p_fair1 s P Ef f Ha Hn) as [Hol El]. split; auto.
  pose proof (alive_lt s f Ha) as Hlt.
  intros h. unfold drop_state. rewrite get_mk. upd_cases h Hlt; [discriminate|].
  intros Hha Hhn. destruct (p_fair1 s P Ef h Hha Hhn) as [Hol' _]. congruence.
Qed.

Lemma inv_step s o : Inv s -> legal s o = true -> Inv (fst (step s o)).
Proof.
  intros I Hl. destruct o as [f|f w|f| | |]; simpl in Hl; bool_hyps.
  - apply inv_create; auto.
  - destruct (step_poll s f w I H H0) as [(Hs & El & Hside)|(Hs & S1 & S2 & S3)]; rewrite Hs; simpl.
    + apply inv_lock; auto.
    + apply inv_pend; auto.
  - destruct (step_drop s f I Hl) as [(Hnn & Hs)|(Hn & s' & wk & Hno & Hs)]; rewrite Hs; simpl.
    + apply inv_drop; auto.
    + destruct I as [B P].
      apply (inv_notify (drop_state s f) (locked s) (guards s) s' wk); auto.
      * apply base_drop; auto.
      * apply drop_notified_pre; auto. split; auto.
      * apply (b_guards s B).
  - unfold step. destruct (can_lock_sync s) eqn:Ec; simpl; auto. apply inv_trylock; auto.
  - destruct (step_dropguard s I Hl) as (El & s' & wk & Hno & Hs). rewrite Hs; simpl.
    destruct I as [B P].
    apply (inv_notify s false 0 s' wk); auto.
    intros Ef. split; auto. intros h Hha Hhn. destruct (p_fair1 s P Ef h Hha Hhn). congruence.
  - simpl. auto.
Qed.

Theorem reach_inv k b s : Reach k b s -> Inv s.
Proof. induction 1; [apply inv_init|apply inv_step; auto]. Qed.

Lemma reach_fair k b s : Reach k b s -> fair s = b.
Proof. induction 1; [reflexivity|rewrite fair_step; auto]. Qed.

(* ------------------------------------------------------------------ *)
(* histories *)
Lemma reach_run_gen k b s ops : Reach k b s -> legal_run s ops -> Reach k b (run s ops).
Proof.
  revert s; induction ops as [|o r IH]; simpl; intros s Hr Hl; auto.
  destruct Hl. apply IH; auto. apply reach_step; auto.
Qed.

Lemma reach_run k b ops : legal_run (init k b) ops -> Reach k b (run (init k b) ops).
Proof. apply reach_run_gen. apply reach_init. Qed.

Lemma legal_run_app s a c : legal_run s (a ++ c) <-> legal_run s a /\ legal_run (run s a) c.
Proof.
  revert s; induction a as [|o r IH]; simpl; intros s; [tauto|]. rewrite IH. tauto.
Qed.

Lemma run_app s a c : run s (a ++ c) = run (run s a) c.
Proof. unfold run. apply fold_left_app. Qed.

Lemma trace_app s a c : trace s (a ++ c) = trace s a ++ trace (run s a) c.
Proof.
  revert s; induction a as [|o r IH]; simpl; intros s; auto. rewrite IH. reflexivity.
Qed.

(* ------------------------------------------------------------------ *)
(* C02 *)
Theorem guards_le_1 : forall k b s,
  Reach k b s -> guards s <= 1 /\ (locked s = true <-> guards s = 1).
Proof.
  intros k b s Hr. destruct (reach_inv k b s Hr) as [B _].
  rewrite (b_guards s B). destruct (locked s); split; auto; split; congruence.
Qed.

Theorem grant_only_when_free : forall k b s o,
  Reach k b s -> legal s o = true ->
  (o_res (snd (step s o)) = [R_READY] \/ o_res (snd (step s o)) = [R_SOME]) ->
  guards s = 0 /\ locked s = false /\ guards (fst (step s o)) = 1.
Proof.
  intros k b s o Hr Hl. pose proof (reach_inv k b s Hr) as I. pose proof I as [B P].
  pose proof (b_guards s B) as Hg.
  destruct o as [f|f w|f| | |]; simpl in Hl; bool_hyps.
  - simpl. intros [D|D]; discriminate.
  - destruct (step_poll s f w I H H0) as [(Hs & El & Hside)|(Hs & S1 & S2 & S3)]; rewrite Hs; simpl.
    + intros _. rewrite El in Hg. rewrite Hg. auto.
    + intros [D|D]; discriminate.
  - destruct (step_drop s f I Hl) as [(Hnn & Hs)|(Hn & s' & wk & Hno & Hs)]; rewrite Hs; simpl;
      intros [D|D]; discriminate.
  - unfold step. destruct (can_lock_sync s) eqn:Ec; simpl.
    + intros _. apply can_lock_fair in Ec. destruct Ec as [El _]. rewrite El in Hg. rewrite Hg. auto.
    + intros [D|D]; discriminate.
  - destruct (step_dropguard s I Hl) as (El & s' & wk & Hno & Hs). rewrite Hs; simpl.
    intros [D|D]; discriminate.
  - simpl. destruct (locked s); intros [D|D]; discriminate.
Qed.

Theorem guard_count : forall k b s o,
  Reach k b s -> legal s o = true ->
  guards (fst (step s o)) =
    if (existsb (N.eqb R_READY) (o_res (snd (step s o))) || existsb (N.eqb R_SOME) (o_res (snd (step s o))))%bool
    then S (guards s)
    else match o with DropGuard => pred (guards s) | _ => guards s end.
Proof.
  intros k b s o Hr Hl. pose proof (reach_inv k b s Hr) as I. pose proof I as [B P].
  pose proof (b_guards s B) as Hg.
  destruct o as [f|f w|f| | |]; simpl in Hl; bool_hyps.
  - reflexivity.
  - destruct (step_poll s f w I H H0) as [(Hs & El & Hside)|(Hs & S1 & S2 & S3)]; rewrite Hs; reflexivity.
  - destruct (step_drop s f I Hl) as [(Hnn & Hs)|(Hn & s' & wk & Hno & Hs)]; rewrite Hs.
    + reflexivity.
    + destruct Hno as [(_ & -> & _)|(g & w & _ & _ & _ & -> & _)]; reflexivity.
  - unfold step. destruct (can_lock_sync s); reflexivity.
  - destruct (step_dropguard s I Hl) as (El & s' & wk & Hno & Hs). rewrite Hs.
    rewrite Hg, El.
    destruct Hno as [(_ & -> & _)|(g & w & _ & _ & _ & -> & _)]; reflexivity.
  - simpl. destruct (locked s); reflexivity.
Qed.

Theorem is_locked_exact : forall k b s,
  Reach k b s ->
  o_res (snd (step s IsLocked)) = [Rbool (Nat.eqb (guards s) 1)] /\ fst (step s IsLocked) = s.
Proof.
  intros k b s Hr. destruct (reach_inv k b s Hr) as [B _]. simpl. split; auto.
  rewrite (b_guards s B). destruct (locked s); reflexivity.
Qed.

(* C03, progress *)
Theorem notified_poll_succeeds : forall k b s f w,
  Reach k b s -> locked s = false ->
  f_alive (get s f) = true -> f_hp (get s f) = true -> f_st (get s f) = Notified ->
  o_res (snd (step s (Poll f w))) = [R_READY].
Proof.
  intros k b s f w Hr El Ha Hhp Hn. pose proof (reach_inv k b s Hr) as I.
  destruct (step_poll s f w I Ha Hhp) as [(Hs & _)|(Hs & S1 & S2 & S3)]; rewrite Hs; simpl; auto.
  exfalso. destruct (fair s) eqn:Ef.
  - apply S2; auto.
  - rewrite S1 in El; auto. discriminate.
Qed.

(* ------------------------------------------------------------------ *)
(* C04: the queue is the arrival order recomputed from the trace (fair mode) *)
Lemma arr_step_ok s o :
  Inv s -> legal s o = true -> fair s = true ->
  waiters (fst (step s o)) = arr_step (waiters s) (o, snd (step s o)).
Proof.
  intros I Hl Ef. destruct o as [f|f w|f| | |]; simpl in Hl; bool_hyps.
  - reflexivity.
  - destruct (step_poll s f w I H H0) as [(Hs & _)|(Hs & _)]; rewrite Hs; reflexivity.
  - destruct (step_drop s f I Hl) as [(Hnn & Hs)|(Hn & s' & wk & Hno & Hs)]; rewrite Hs.
    + reflexivity.
    + destruct Hno as [(_ & -> & _)|(g & w & _ & _ & _ & -> & _)]; simpl; [reflexivity|].
      rewrite Ef. reflexivity.
  - unfold step. destruct (can_lock_sync s); reflexivity.
  - destruct (step_dropguard s I Hl) as (El & s' & wk & Hno & Hs). rewrite Hs.
    destruct Hno as [(_ & -> & _)|(g & w & _ & _ & _ & -> & _)]; simpl; [reflexivity|].
    rewrite Ef. reflexivity.
  - reflexivity.
Qed.

Lemma arr_run k ops :
  legal_run (init k true) ops ->
  waiters (run (init k true) ops) = arrivals (trace (init k true) ops).
Proof.
  unfold arrivals.
  assert (G : forall ops s l, Reach k true s -> waiters s = l -> legal_run s ops ->
              waiters (run s ops) = fold_left arr_step (trace s ops) l).
  { induction ops0 as [|o r IH]; simpl; intros s l Hr Hw Hl; auto.
    destruct Hl as [Hl1 Hl2]. apply IH; auto.
    - apply reach_step; auto.
    - subst l. apply arr_step_ok; auto.
      + apply (reach_inv k true); auto.
      + apply (reach_fair k true); auto. }
  intros Hl. apply G; auto. apply reach_init.
Qed.

Theorem queue_is_arrivals : forall k ops,
  legal_run (init k true) ops ->
  waiters (run (init k true) ops) = arrivals (trace (init k true) ops) /\
  NoDup (arrivals (trace (init k true) ops)).
Proof.
  intros k ops Hl. pose proof (arr_run k ops Hl) as E. split; auto.
  rewrite <- E. destruct (reach_inv k true _ (reach_run k true ops Hl)) as [B _].
  apply (b_nodup _ B).
Qed.

Lemma pending_inq s f : fair s = true -> (pending (get s f) = true <-> inq (fair s) (get s f)).
Proof.
  intros Ef. unfold pending, inq. rewrite Ef.
  destruct (f_alive (get s f)), (f_hp (get s f)), (f_st (get s f)); simpl;
    split; try discriminate; try tauto;
    try (intros (A & B & [C|[_ C]]); discriminate); auto.
Qed.

Theorem pending_is_arrivals : forall k ops,
  legal_run (init k true) ops ->
  forall f, In f (arrivals (trace (init k true) ops)) <-> pending (get (run (init k true) ops) f) = true.
Proof.
  intros k ops Hl f. rewrite <- (arr_run k ops Hl).
  pose proof (reach_run k true ops Hl) as Hr.
  destruct (reach_inv k true _ Hr) as [B _].
  rewrite (b_exact _ B). symmetry. apply pending_inq. apply (reach_fair k true); auto.
Qed.

Theorem fair_fifo : forall k ops o,
  legal_run (init k true) (ops ++ [o]) ->
  let s := run (init k true) ops in
  let arr := arrivals (trace (init k true) ops) in
  (forall f w, o = Poll f w -> o_res (snd (step s o)) = [R_READY] -> arr = [] \/ olast arr = Some f) /\
  (o = TryLock -> o_res (snd (step s o)) = [R_SOME] -> arr = []).
Proof.
  intros k ops o Hl s arr. apply legal_run_app in Hl. destruct Hl as [Hl1 Hl2].
  simpl in Hl2. destruct Hl2 as [Hl2 _]. fold s in Hl2.
  pose proof (reach_run k true ops Hl1) as Hr. fold s in Hr.
  pose proof (reach_inv k true s Hr) as I.
  pose proof (reach_fair k true s Hr) as Ef.
  assert (Ea : arr = waiters s) by (symmetry; apply arr_run; auto).
  rewrite Ea. split.
  - intros f w -> . simpl in Hl2. bool_hyps.
    destruct (step_poll s f w I H H0) as [(Hs & _ & Hside)|(Hs & _)]; rewrite Hs; simpl.
    + intros _. auto.
    + discriminate.
  - intros ->. unfold step. destruct (can_lock_sync s) eqn:Ec; simpl; [|discriminate].
    intros _. apply can_lock_fair in Ec. destruct Ec as [_ Hw]. auto.
Qed.

Theorem drop_is_filter : forall k ops f,
  legal_run (init k true) (ops ++ [DropFut f]) ->
  arrivals (trace (init k true) (ops ++ [DropFut f])) =
  filter (fun x => negb (Nat.eqb x f)) (arrivals (trace (init k true) ops)).
Proof.
  intros k ops f _. unfold arrivals. rewrite trace_app, fold_left_app. reflexivity.
Qed.

(* ------------------------------------------------------------------ *)
(* C03: the ghost fields f_woken / f_lastw are what the trace tracker computes *)
Definition wake_pass (t1 : fid -> wk) (wl : list N) : fid -> wk :=
  fun g =>
    match wk_last (t1 g) with
    | Some w => mkWk (Some w) (wk_woken (t1 g) || existsb (N.eqb (nN w)) wl)
    | None => t1 g
    end.

Definition wk_pre (t : fid -> wk) (o : op) (ob : obs) : fid -> wk :=
  match o with
  | Create f | DropFut f => fun g => if Nat.eqb g f then mkWk None false else t g
  | Poll f w =>
      if N.eqb (hd 0%N (o_res ob)) R_PANIC then t
      else fun g => if Nat.eqb g f then mkWk (Some w) false else t g
  | _ => t
  end.

Lemma wk_step_eq t o ob : wk_step t (o, ob) = wake_pass (wk_pre t o ob) (o_wake ob).
Proof. reflexivity. Qed.

Definition wtracked (s : state) (t : fid -> wk) : Prop :=
  forall f, wk_last (t f) = f_lastw (get s f) /\
            (f_woken (get s f) = true -> wk_woken (t f) = true).

Lemma wake_pass_last t1 wl g : wk_last (wake_pass t1 wl g) = wk_last (t1 g).
Proof. unfold wake_pass. destruct (wk_last (t1 g)) eqn:E; simpl; auto. Qed.

Lemma wake_pass_mono t1 wl g : wk_woken (t1 g) = true -> wk_woken (wake_pass t1 wl g) = true.
Proof. unfold wake_pass. intros H. destruct (wk_last (t1 g)) eqn:E; simpl; auto. rewrite H. reflexivity. Qed.

Lemma wt_pass s t1 wl : wtracked s t1 -> wtracked s (wake_pass t1 wl).
Proof.
  intros T f. destruct (T f) as [T1 T2]. split.
  - rewrite wake_pass_last. auto.
  - intros H. apply wake_pass_mono. auto.
Qed.

Lemma wt_set s t f x' (lk : bool) ws gd :
  wtracked s t -> f < length (futs s) -> f_woken x' = false ->
  wtracked (mkState (fair s) lk ws (upd f x' (futs s)) gd)
           (fun g => if Nat.eqb g f then mkWk (f_lastw x') false else t g).
Proof.
  intros T Hlt Hw g. rewrite get_mk. upd_cases g Hlt.
  - rewrite Nat.eqb_refl. simpl. split; auto. congruence.
  - apply Nat.eqb_neq in Hne. rewrite Hne. apply T.
Qed.

Lemma wt_notify m t1 lk gd s' wk :
  wtracked m t1 -> notify_out m lk gd s' wk -> wtracked s' (wake_pass t1 (map nN wk)).
Proof.
  intros T [(Hw & -> & ->)|(g & w & Hol & Hlt & Hg & -> & ->)].
  - apply (wt_pass m). auto.
  - intros h. rewrite get_mk. upd_cases h Hlt.
    + destruct (T g) as [T1 _]. rewrite Hg in T1. simpl in T1.
      unfold wake_pass. rewrite T1. simpl. split; auto. intros _.
      rewrite N.eqb_refl. simpl. apply orb_true_r.
    + destruct (T h) as [T1 T2]. split.
      * rewrite wake_pass_last. auto.
      * intros H. apply wake_pass_mono. auto.
Qed.

Lemma wt_step s t o :
  Inv s -> legal s o = true -> wtracked s t ->
  wtracked (fst (step s o)) (wk_step t (o, snd (step s o))).
Proof.
  intros I Hl T. rewrite wk_step_eq.
  destruct o as [f|f w|f| | |]; simpl in Hl; bool_hyps.
  - simpl. apply (wt_pass _ _ []). apply (wt_set s t f fresh); auto.
  - pose proof (alive_lt s f H) as Hlt.
    destruct (step_poll s f w I H H0) as [(Hs & _)|(Hs & _)]; rewrite Hs;
      apply (wt_pass _ _ []); cbn [fst snd].
    + apply (wt_set s t f (done_fut (get s f) w)); auto.
    + apply (wt_set s t f (wait_fut w)); auto.
  - pose proof (alive_lt s f Hl) as Hlt.
    assert (Tm : wtracked (drop_state s f) (fun g => if Nat.eqb g f then mkWk None false else t g)).
    { apply (wt_set s t f absent); auto. }
    destruct (step_drop s f I Hl) as [(Hnn & Hs)|(Hn & s' & wk & Hno & Hs)]; rewrite Hs; cbn [fst snd].
    + apply (wt_pass _ _ []). auto.
    + apply (wt_notify (drop_state s f) _ (locked s) (guards s)); auto.
  - unfold step. destruct (can_lock_sync s); apply (wt_pass _ _ []); auto.
  - destruct (step_dropguard s I Hl) as (El & s' & wk & Hno & Hs). rewrite Hs; cbn [fst snd].
    apply (wt_notify s _ false 0); auto.
  - apply (wt_pass _ _ []). auto.
Qed.

Lemma wt_run k b ops :
  legal_run (init k b) ops ->
  wtracked (run (init k b) ops) (wk_track (trace (init k b) ops)).
Proof.
  unfold wk_track.
  assert (G : forall ops s t, Reach k b s -> wtracked s t -> legal_run s ops ->
              wtracked (run s ops) (fold_left wk_step (trace s ops) t)).
  { induction ops0 as [|o r IH]; simpl; intros s t Hr Ht Hl; auto.
    destruct Hl as [Hl1 Hl2]. apply IH; auto.
    - apply reach_step; auto.
    - apply wt_step; auto. apply (reach_inv k b); auto. }
  intros Hl. apply G; auto.
  - apply reach_init.
  - intros f. unfold get; simpl. rewrite nth_repeat_absent. simpl. split; auto.
Qed.

Theorem woken_when_free : forall k b ops,
  legal_run (init k b) ops ->
  let s := run (init k b) ops in
  let tr := trace (init k b) ops in
  locked s = false ->
  (exists f, pending (get s f) = true) ->
  exists g, pending (get s g) = true /\
            wk_woken (wk_track tr g) = true /\
            (b = true -> olast (arrivals tr) = Some g).
Proof.
  intros k b ops Hl s tr El [f Hp].
  pose proof (reach_run k b ops Hl) as Hr. fold s in Hr.
  pose proof (reach_inv k b s Hr) as [B P].
  pose proof (reach_fair k b s Hr) as Ef.
  pose proof (wt_run k b ops Hl) as T. fold s in T. fold tr in T.
  assert (Hnot : forall g, f_alive (get s g) = true -> f_st (get s g) = Notified ->
                 pending (get s g) = true /\ wk_woken (wk_track tr g) = true).
  { intros g Hga Hgn. destruct (b_fut s B g Hga) as [_ _ Fno _].
    destruct (Fno Hgn) as (Hhp & _ & Hwo & _). split.
    - unfold pending. rewrite Hga, Hhp, Hgn. reflexivity.
    - apply T. auto. }
  unfold pending in Hp. bool_hyps.
  destruct b.
  - (* fair: the oldest queued future is notified *)
    assert (Hin : In f (waiters s)).
    { apply (b_exact s B). repeat split; auto.
      destruct (f_st (get s f)); try discriminate; auto. }
    assert (Hw : waiters s <> []) by (intro E; rewrite E in Hin; destruct Hin).
    destruct (olast_nonempty _ Hw) as [g Hg].
    pose proof (p_fair2 s P Ef El g Hg) as Hgn.
    pose proof (olast_In _ _ Hg) as Hgin. apply (b_exact s B) in Hgin. destruct Hgin as (Hga & _).
    destruct (Hnot g Hga Hgn) as [Q1 Q2].
    exists g. repeat split; auto.
    intros _. unfold tr. rewrite <- (arr_run k ops Hl). exact Hg.
  - destruct (f_st (get s f)) eqn:Est; try discriminate.
    + assert (Hin : In f (waiters s)).
      { apply (b_exact s B). repeat split; auto. }
      assert (Hw : waiters s <> []) by (intro E; rewrite E in Hin; destruct Hin).
      destruct (p_unfair s P Ef El Hw) as (g & Hga & Hgn).
      destruct (Hnot g Hga Hgn) as [Q1 Q2].
      exists g. repeat split; auto. discriminate.
    + destruct (Hnot f H Est) as [Q1 Q2].
      exists f. repeat split; auto. discriminate.
Qed.
