(* Invariants and lemmas for Model/StateBcast.v *)
From FI Require Import Base StateBcast StateBcastSpec.

Local Ltac inv H := inversion H; subst; clear H.

Local Ltac bool_hyps :=
  repeat match goal with
  | H : (_ && _)%bool = true |- _ => apply andb_true_iff in H; destruct H
  | H : negb _ = true |- _ => apply negb_true_iff in H
  | H : negb _ = false |- _ => apply negb_false_iff in H
  | H : Nat.ltb _ _ = true |- _ => apply Nat.ltb_lt in H
  | H : Nat.eqb _ _ = true |- _ => apply Nat.eqb_eq in H
  | H : N.leb _ _ = true |- _ => apply N.leb_le in H
  end.

(* ------------------------------------------------------------------ *)
(* the receive-future table *)
Lemma alive_lt (fs : list rfut) f : r_alive (nth f fs rabsent) = true -> f < length fs.
Proof.
  intros H. destruct (Nat.lt_ge_cases f (length fs)) as [|Hge]; auto.
  rewrite nth_overflow in H by auto. discriminate.
Qed.

Lemma nth_repeat_rabsent k f : nth f (repeat rabsent k) rabsent = rabsent.
Proof. revert f; induction k; intros [|f]; simpl; auto. Qed.

Lemma nth_map_rabsent (fs : list rfut) f : nth f (map (fun _ => rabsent) fs) rabsent = rabsent.
Proof. revert f; induction fs as [|h t IH]; intros [|f]; simpl; auto. Qed.

Lemma nth_upd_cases (fs : list rfut) f g x :
  f < length fs ->
  (g = f /\ nth g (upd f x fs) rabsent = x) \/
  (g <> f /\ nth g (upd f x fs) rabsent = nth g fs rabsent).
Proof.
  intros Hlt. rewrite nth_upd. destruct (Nat.eqb_spec f g) as [->|Hne]; simpl.
  - left. split; auto. apply Nat.ltb_lt in Hlt. rewrite Hlt. auto.
  - right. split; auto.
Qed.

(* [deliverable] on components *)
Definition deliv (id : N) (v : option tag) (i : N) : option tag :=
  match v with
  | Some x => if N.ltb i id then Some x else None
  | None => None
  end.

Lemma deliverable_deliv s i : deliverable s i = deliv (state_id s) (value s) i.
Proof. reflexivity. Qed.

(* ------------------------------------------------------------------ *)
(* queue invariant, stated on the components it depends on *)
Record QI (c : bool) (id : N) (v : option tag) (q : list fid) (fs : list rfut) : Prop := {
  qi_nodup : NoDup q;
  qi_exact : forall f, In f q <->
               (r_alive (nth f fs rabsent) = true /\ r_hp (nth f fs rabsent) = true /\
                r_st (nth f fs rabsent) = RReg);
  qi_closed : c = true -> q = [];
  qi_nodeliv : forall f, In f q -> deliv id v (r_id (nth f fs rabsent)) = None;
  qi_reg : forall f, r_st (nth f fs rabsent) = RReg ->
             r_task (nth f fs rabsent) = r_lastw (nth f fs rabsent) /\
             r_lastw (nth f fs rabsent) <> None;
  qi_id : (id <= MAXID)%N;
  qi_dead : forall f, r_alive (nth f fs rabsent) = false -> nth f fs rabsent = rabsent
}.

Definition Q (s : state) : Prop := QI (closed s) (state_id s) (value s) (waiters s) (rfs s).

(* handle bookkeeping (meaningful until teardown) *)
Definition HI (s : state) : Prop :=
  (pend_sclose s > 0 -> senders s = 0) /\ pend_sclose s <= 1 /\
  (pend_rclose s > 0 -> receivers s = 0) /\ pend_rclose s <= 1 /\
  (explicit s = false -> closed s = true -> senders s = 0 \/ receivers s = 0) /\
  (senders s = 0 -> pend_sclose s = 0 -> closed s = true) /\
  (receivers s = 0 -> pend_rclose s = 0 -> closed s = true).

Definition Inv (s : state) : Prop := Q s /\ (gone s = false -> HI s).

(* replacing one slot *)
Lemma QI_upd c id v q fs f x q' :
  QI c id v q fs -> f < length fs -> NoDup q' ->
  (forall g, g <> f -> (In g q' <-> In g q)) ->
  (In f q' <-> (r_alive x = true /\ r_hp x = true /\ r_st x = RReg)) ->
  (c = true -> q' = []) ->
  (In f q' -> deliv id v (r_id x) = None) ->
  (r_st x = RReg -> r_task x = r_lastw x /\ r_lastw x <> None) ->
  (r_alive x = false -> x = rabsent) ->
  QI c id v q' (upd f x fs).
Proof.
  intros [Hnd Hex Hc Hdl Hreg Hid Hdead] Hlt Hnd' Hoth Hf Hc' Hdl' Hreg' Hdead'.
  constructor; auto.
  - intros g. destruct (nth_upd_cases fs f g x Hlt) as [[-> E]|[Hne E]]; rewrite E; auto.
    rewrite Hoth by auto. apply Hex.
  - intros g. destruct (nth_upd_cases fs f g x Hlt) as [[-> E]|[Hne E]]; rewrite E; auto.
    intros Hin. apply Hdl. apply Hoth; auto.
  - intros g. destruct (nth_upd_cases fs f g x Hlt) as [[-> E]|[Hne E]]; rewrite E; auto.
  - intros g. destruct (nth_upd_cases fs f g x Hlt) as [[-> E]|[Hne E]]; rewrite E; auto.
Qed.

(* a slot outside the queue is replaced by one that does not register *)
Lemma QI_upd_out c id v q fs f x :
  QI c id v q fs -> f < length fs -> ~ In f q ->
  r_st x = RUnreg -> (r_alive x = false -> x = rabsent) ->
  QI c id v q (upd f x fs).
Proof.
  intros I Hlt Hni Hst Hd. pose proof I as [Hnd Hex Hc Hdl Hreg Hid Hdead].
  apply (QI_upd c id v q fs f x q); auto; try tauto; try congruence.
  split; [tauto|]. intros (_ & _ & E). congruence.
Qed.

(* ------------------------------------------------------------------ *)
(* the drain loop *)
Definition wake1 (x : rfut) : rfut :=
  mkR (r_alive x) (r_hp x) RUnreg None (r_id x)
      (r_woken x || woke_by (r_task x) (r_lastw x)) (r_lastw x).

Lemma wake_all_spec : forall order fs acc,
  NoDup order ->
  let '(fs', wk) := wake_all fs order acc in
  length fs' = length fs /\
  wk = acc ++ flat_map (fun f => wk_list (r_task (nth f fs rabsent))) order /\
  (forall g, ~ In g order -> nth g fs' rabsent = nth g fs rabsent) /\
  (forall g, In g order -> g < length fs -> nth g fs' rabsent = wake1 (nth g fs rabsent)).
Proof.
  induction order as [|f r IH]; intros fs acc Hnd; simpl.
  - rewrite app_nil_r. repeat split; auto. intros g [].
  - inv Hnd.
    set (x := nth f fs rabsent).
    fold (wake1 x).
    set (fs1 := upd f (wake1 x) fs).
    specialize (IH fs1 (acc ++ wk_list (r_task x)) H2).
    destruct (wake_all fs1 r (acc ++ wk_list (r_task x))) as [fs' wk].
    destruct IH as (Hlen & Hwk & Hother & Hin).
    assert (Hfs1 : forall g, g <> f -> nth g fs1 rabsent = nth g fs rabsent).
    { intros g Hg. unfold fs1. apply nth_upd_other. auto. }
    repeat split.
    + rewrite Hlen. unfold fs1. apply upd_length.
    + rewrite Hwk.
      assert (Heq : flat_map (fun f0 => wk_list (r_task (nth f0 fs1 rabsent))) r =
                    flat_map (fun f0 => wk_list (r_task (nth f0 fs rabsent))) r).
      { apply flat_map_ext_in. intros a Ha. rewrite Hfs1; auto. intro; subst; auto. }
      rewrite Heq. rewrite <- app_assoc. reflexivity.
    + intros g Hg. rewrite Hother by (intro; apply Hg; right; auto).
      apply Hfs1. intro; subst; apply Hg; left; auto.
    + intros g [Hg|Hg] Hlt.
      * subst g. rewrite Hother by auto. unfold fs1. rewrite nth_upd_same; auto.
      * unfold fs1 in *. rewrite upd_length in Hin. rewrite Hin; auto.
        rewrite nth_upd_other; auto. intro; subst; auto.
Qed.

Definition lastw_of (fs : list rfut) (f : fid) : N :=
  match r_lastw (nth f fs rabsent) with Some w => nN w | None => 0%N end.

Lemma drain_spec c id v q fs fs' wk :
  QI c id v q fs -> wake_all fs (rev q) [] = (fs', wk) ->
  length fs' = length fs /\
  map nN wk = map (lastw_of fs) (rev q) /\
  (forall g, ~ In g q -> nth g fs' rabsent = nth g fs rabsent) /\
  (forall g, In g q ->
     nth g fs' rabsent =
     mkR true true RUnreg None (r_id (nth g fs rabsent)) true (r_lastw (nth g fs rabsent))).
Proof.
  intros [Hnd Hex Hc Hdl Hreg Hid Hdead] W.
  pose proof (wake_all_spec (rev q) fs []) as S.
  assert (Hndr : NoDup (rev q)) by (apply NoDup_rev; auto).
  specialize (S Hndr). rewrite W in S. destruct S as (Slen & Swk & Soth & Sin).
  split; [auto|]. split; [|split].
  - rewrite Swk. simpl.
    assert (G : forall l, (forall f, In f l -> In f q) ->
              map nN (flat_map (fun f => wk_list (r_task (nth f fs rabsent))) l) = map (lastw_of fs) l).
    { induction l as [|h r IH]; [reflexivity|]. intros Hl. cbn [flat_map map].
      rewrite map_app.
      change (lastw_of fs h :: map (lastw_of fs) r) with ([lastw_of fs h] ++ map (lastw_of fs) r).
      f_equal; [|apply IH; intros; apply Hl; right; auto].
      assert (Hh : In h q) by (apply Hl; left; auto). apply Hex in Hh. destruct Hh as (Ha & Hp & Hs).
      destruct (Hreg h Hs) as [P4 P5].
      unfold lastw_of. rewrite P4. destruct (r_lastw (nth h fs rabsent)); simpl; congruence. }
    apply G. intros f Hin. apply in_rev; auto.
  - intros g Hg. apply Soth. intro Hin. apply Hg. apply in_rev; auto.
  - intros g Hg. pose proof Hg as Hg'. apply Hex in Hg'. destruct Hg' as (Ha & Hp & Hs).
    rewrite Sin; [|apply -> in_rev; auto|apply alive_lt; auto].
    destruct (Hreg g Hs) as [P4 P5]. unfold wake1. rewrite Ha, Hp, P4.
    destruct (r_lastw (nth g fs rabsent)) as [w|]; [|congruence].
    simpl. rewrite Nat.eqb_refl, orb_true_r. reflexivity.
Qed.

Lemma drain_QI c id v q fs fs' wk c' id' v' :
  QI c id v q fs -> wake_all fs (rev q) [] = (fs', wk) -> (id' <= MAXID)%N ->
  QI c' id' v' [] fs'.
Proof.
  intros I W Hid'. destruct (drain_spec c id v q fs fs' wk I W) as (Dlen & Dwk & Doth & Din).
  destruct I as [Hnd Hex Hc Hdl Hreg Hid Hdead].
  assert (Hg : forall g, (In g q /\ r_st (nth g fs' rabsent) = RUnreg /\ r_alive (nth g fs' rabsent) = true) \/
                         (~ In g q /\ nth g fs' rabsent = nth g fs rabsent)).
  { intros g. destruct (in_dec Nat.eq_dec g q) as [Hin|Hni].
    - left. rewrite (Din g Hin). simpl. auto.
    - right. auto. }
  constructor; auto.
  - constructor.
  - intros g. split; [intros []|]. intros (Ha & Hp & Hs).
    destruct (Hg g) as [(Hin & E & _)|(Hni & E)]; [congruence|].
    rewrite E in *. apply Hni. apply Hex. auto.
  - intros g [].
  - intros g Hs. destruct (Hg g) as [(Hin & E & _)|(Hni & E)]; [congruence|].
    rewrite E in *. auto.
  - intros g Ha. destruct (Hg g) as [(Hin & _ & E)|(Hni & E)]; [congruence|].
    rewrite E in *. auto.
Qed.

(* ------------------------------------------------------------------ *)
Lemma Q_init k : Q (init k).
Proof.
  unfold Q; simpl. constructor; simpl; auto.
  - constructor.
  - intros f. rewrite nth_repeat_rabsent. simpl. split; [tauto|intros [H _]; discriminate].
  - intros f. rewrite nth_repeat_rabsent. discriminate.
  - unfold MAXID. lia.
  - intros f _. apply nth_repeat_rabsent.
Qed.

Lemma Q_close s expl : Q s -> Q (fst (fst (do_close s expl))).
Proof.
  intros I. unfold do_close. destruct (closed s) eqn:Ec; [exact I|].
  destruct (wake_all (rfs s) (rev (waiters s)) []) as [fs' wk] eqn:W. simpl.
  unfold Q; simpl. eapply drain_QI; eauto. apply I.
Qed.

Lemma Q_step s o : Q s -> legal s o = true -> Q (fst (step s o)).
Proof.
  intros I Hl. pose proof I as [Hnd Hex Hc Hdl Hreg Hid Hdead].
  unfold legal in Hl. apply andb_true_iff in Hl. destruct Hl as [Hg Hl].
  destruct o as [v| |i|f i|f w|f| | | | | | |n| ].
  - (* Send *)
    unfold step. destruct (closed s || N.eqb (state_id s) MAXID)%bool eqn:E; [exact I|].
    apply orb_false_iff in E. destruct E as [Ec En]. apply N.eqb_neq in En.
    destruct (wake_all (rfs s) (rev (waiters s)) []) as [fs' wk] eqn:W. simpl.
    unfold Q; simpl. eapply drain_QI; eauto. lia.
  - (* Close *)
    unfold step. pose proof (Q_close s true I) as C.
    destruct (do_close s true) as [[s' newly] wk]. exact C.
  - (* TryReceive *)
    unfold step. destruct (deliverable s i); exact I.
  - (* CreateRecv *)
    bool_hyps. unfold getr in *.
    simpl. unfold Q; simpl. apply QI_upd_out; auto.
    + intro Hin. apply Hex in Hin. destruct Hin as (A & _). congruence.
    + simpl. discriminate.
  - (* PollRecv *)
    bool_hyps. unfold getr in *. pose proof (alive_lt _ _ H) as Hlt.
    unfold step. unfold getr. rewrite H0. simpl negb. cbv iota.
    destruct (r_st (nth f (rfs s) rabsent)) eqn:Est.
    + assert (Hni : ~ In f (waiters s)).
      { intro Hin. apply Hex in Hin. destruct Hin as (_ & _ & D). congruence. }
      destruct (deliverable s (r_id (nth f (rfs s) rabsent))) eqn:Ed.
      * simpl. unfold Q; simpl. apply QI_upd_out; auto. simpl. discriminate.
      * destruct (closed s) eqn:Ec.
        -- simpl. unfold Q; simpl. rewrite Ec. apply QI_upd_out; auto.
           ++ rewrite <- Ec. exact I.
           ++ simpl. discriminate.
        -- pose proof Hni as Hm. apply memb_false in Hm. rewrite Hm.
           simpl. unfold Q; simpl. rewrite Ec.
           apply (QI_upd false (state_id s) (value s) (waiters s)).
           ++ rewrite <- Ec. exact I.
           ++ exact Hlt.
           ++ constructor; auto.
           ++ intros g Hne. simpl. split; [intros [D|D]; [congruence|auto]|auto].
           ++ simpl. split; auto.
           ++ discriminate.
           ++ intros _. simpl. exact Ed.
           ++ simpl. intros _. split; auto. discriminate.
           ++ simpl. discriminate.
    + assert (Hin : In f (waiters s)) by (apply Hex; auto).
      simpl. unfold Q; simpl.
      apply (QI_upd (closed s) (state_id s) (value s) (waiters s)).
      * exact I.
      * exact Hlt.
      * exact Hnd.
      * tauto.
      * simpl. tauto.
      * exact Hc.
      * intros _. simpl. apply Hdl. auto.
      * simpl. intros _. split; auto. discriminate.
      * simpl. discriminate.
  - (* DropRecv *)
    unfold getr in *. pose proof (alive_lt _ _ Hl) as Hlt.
    assert (Hsame : ~ In f (waiters s) -> Q (with_rfs s (waiters s) (upd f rabsent (rfs s)))).
    { intros Hni. unfold Q; simpl. apply QI_upd_out; auto. }
    unfold step. unfold getr.
    destruct (r_hp (nth f (rfs s) rabsent)) eqn:Ehp.
    + destruct (r_st (nth f (rfs s) rabsent)) eqn:Est.
      * simpl. apply Hsame. intro Hin. apply Hex in Hin. destruct Hin as (_ & _ & D). congruence.
      * assert (Hin : In f (waiters s)) by (apply Hex; auto).
        pose proof Hin as Hm. apply memb_In in Hm. rewrite Hm. simpl.
        unfold Q; simpl.
        apply (QI_upd (closed s) (state_id s) (value s) (waiters s)).
        -- exact I.
        -- exact Hlt.
        -- apply NoDup_remove; auto.
        -- intros g Hne. rewrite In_remove. tauto.
        -- rewrite In_remove. simpl. split; [tauto|]. intros (D & _). discriminate.
        -- intros E. rewrite (Hc E). reflexivity.
        -- rewrite In_remove. tauto.
        -- simpl. discriminate.
        -- reflexivity.
    + simpl. apply Hsame. intro Hin. apply Hex in Hin. destruct Hin as (_ & D & _). congruence.
  - exact I.
  - exact I.
  - (* DropSenderClose *)
    unfold step.
    pose proof (Q_close (with_counts s (senders s) (receivers s) (pred (pend_sclose s)) (pend_rclose s)) false I) as C.
    destruct (do_close _ false) as [[s' newly] wk]. exact C.
  - exact I.
  - exact I.
  - (* DropReceiverClose *)
    unfold step.
    pose proof (Q_close (with_counts s (senders s) (receivers s) (pend_sclose s) (pred (pend_rclose s))) false I) as C.
    destruct (do_close _ false) as [[s' newly] wk]. exact C.
  - (* SetId *)
    bool_hyps. simpl. unfold Q; simpl.
    destruct (waiters s) eqn:Ew; [|discriminate].
    constructor; auto. intros f [].
  - (* Teardown *)
    simpl. unfold Q; simpl. constructor; auto.
    + constructor.
    + intros f. rewrite nth_map_rabsent. simpl. split; [tauto|intros [D _]; discriminate].
    + intros f. rewrite nth_map_rabsent. discriminate.
    + intros f _. apply nth_map_rabsent.
Qed.

(* ------------------------------------------------------------------ *)
(* handles *)
Lemma do_close_fields s expl :
  let s' := fst (fst (do_close s expl)) in
  closed s' = true /\ senders s' = senders s /\ receivers s' = receivers s /\
  pend_sclose s' = pend_sclose s /\ pend_rclose s' = pend_rclose s /\ gone s' = gone s /\
  state_id s' = state_id s /\ value s' = value s /\
  explicit s' = (if closed s then explicit s else (explicit s || expl)%bool).
Proof.
  unfold do_close. destruct (closed s) eqn:E; simpl.
  - rewrite E. repeat split; auto.
  - destruct (wake_all (rfs s) (rev (waiters s)) []); simpl. repeat split; auto.
Qed.

Lemma H_init k : HI (init k).
Proof. unfold HI; simpl. repeat split; intros; try lia; try discriminate. Qed.

Lemma H_step s o : HI s -> legal s o = true -> gone (fst (step s o)) = false -> HI (fst (step s o)).
Proof.
  intros (A & B & C & D & E & F & G) Hl. unfold legal in Hl. apply andb_true_iff in Hl. destruct Hl as [Hg Hl].
  destruct o as [v| |i|f i|f w|f| | | | | | |n| ]; intros Hgone.
  - unfold step. destruct (closed s || N.eqb (state_id s) MAXID)%bool; [unfold HI; tauto|].
    destruct (wake_all (rfs s) (rev (waiters s)) []). unfold HI; simpl. tauto.
  - unfold step. pose proof (do_close_fields s true) as P.
    destruct (do_close s true) as [[s' newly] wk]. simpl in *.
    destruct P as (P1 & P2 & P3 & P4 & P5 & P6 & _ & _ & P7).
    unfold HI. rewrite P1, P2, P3, P4, P5, P7.
    destruct (closed s); [tauto|]. rewrite orb_true_r. repeat split; auto; discriminate.
  - unfold step. destruct (deliverable s i); unfold HI; simpl; tauto.
  - unfold HI; simpl. tauto.
  - unfold step.
    destruct (negb (r_hp (getr s f))); [unfold HI; simpl; tauto|].
    destruct (r_st (getr s f)); [|unfold HI; simpl; tauto].
    destruct (deliverable s (r_id (getr s f))); [unfold HI; simpl; tauto|].
    destruct (closed s) eqn:Ec; [unfold HI; simpl; rewrite Ec; tauto|].
    destruct (memb f (waiters s)); unfold HI; simpl; rewrite Ec; tauto.
  - unfold step.
    destruct (r_hp (getr s f)); [|unfold HI; simpl; tauto].
    destruct (r_st (getr s f)); [unfold HI; simpl; tauto|].
    destruct (memb f (waiters s)); unfold HI; simpl; tauto.
  - bool_hyps. unfold HI; simpl. repeat split; auto; try lia.
    intros E1 E2. destruct (E E1 E2); [lia|auto].
  - bool_hyps. unfold HI; simpl.
    destruct (Nat.eqb_spec (senders s) 1) as [E1|E1]; repeat split; auto; try lia.
    intros X1 X2. destruct (E X1 X2); [lia|auto].
  - bool_hyps. unfold step.
    pose proof (do_close_fields (with_counts s (senders s) (receivers s) (pred (pend_sclose s)) (pend_rclose s)) false) as P.
    destruct (do_close _ false) as [[s' newly] wk]. simpl in *.
    destruct P as (P1 & P2 & P3 & P4 & P5 & P6 & _ & _ & P7).
    unfold HI. rewrite P1, P2, P3, P4, P5, P7. rewrite orb_false_r.
    assert (senders s = 0) by (apply A; lia).
    repeat split; auto; try lia.
  - bool_hyps. unfold HI; simpl. repeat split; auto; try lia.
    intros E1 E2. destruct (E E1 E2); [auto|lia].
  - bool_hyps. unfold HI; simpl.
    destruct (Nat.eqb_spec (receivers s) 1) as [E1|E1]; repeat split; auto; try lia.
    intros X1 X2. destruct (E X1 X2); [auto|lia].
  - bool_hyps. unfold step.
    pose proof (do_close_fields (with_counts s (senders s) (receivers s) (pend_sclose s) (pred (pend_rclose s))) false) as P.
    destruct (do_close _ false) as [[s' newly] wk]. simpl in *.
    destruct P as (P1 & P2 & P3 & P4 & P5 & P6 & _ & _ & P7).
    unfold HI. rewrite P1, P2, P3, P4, P5, P7. rewrite orb_false_r.
    assert (receivers s = 0) by (apply C; lia).
    repeat split; auto; try lia.
  - unfold HI; simpl. tauto.
  - simpl in Hgone. discriminate.
Qed.

Lemma inv_init k : Inv (init k).
Proof. split; [apply Q_init|intros _; apply H_init]. Qed.

Lemma gone_step s o : legal s o = true -> o <> Teardown -> gone (fst (step s o)) = false.
Proof.
  intros Hl Hne. unfold legal in Hl. apply andb_true_iff in Hl. destruct Hl as [Hg Hl].
  apply negb_true_iff in Hg.
  destruct o as [v| |i|f i|f w|f| | | | | | |n| ]; try congruence; unfold step.
  - destruct (closed s || N.eqb (state_id s) MAXID)%bool; auto.
    destruct (wake_all (rfs s) (rev (waiters s)) []). auto.
  - pose proof (do_close_fields s true) as P. destruct (do_close s true) as [[s' newly] wk]. simpl in *.
    destruct P as (_ & _ & _ & _ & _ & P & _). congruence.
  - destruct (deliverable s i); auto.
  - auto.
  - destruct (negb (r_hp (getr s f))); auto. destruct (r_st (getr s f)); auto.
    destruct (deliverable s (r_id (getr s f))); auto. destruct (closed s); auto.
    destruct (memb f (waiters s)); auto.
  - destruct (r_hp (getr s f)); auto. destruct (r_st (getr s f)); auto.
    destruct (memb f (waiters s)); auto.
  - auto.
  - auto.
  - pose proof (do_close_fields (with_counts s (senders s) (receivers s) (pred (pend_sclose s)) (pend_rclose s)) false) as P.
    destruct (do_close _ false) as [[s' newly] wk]. simpl in *.
    destruct P as (_ & _ & _ & _ & _ & P & _). congruence.
  - auto.
  - auto.
  - pose proof (do_close_fields (with_counts s (senders s) (receivers s) (pend_sclose s) (pred (pend_rclose s))) false) as P.
    destruct (do_close _ false) as [[s' newly] wk]. simpl in *.
    destruct P as (_ & _ & _ & _ & _ & P & _). congruence.
  - auto.
Qed.

Lemma inv_step s o : Inv s -> legal s o = true -> Inv (fst (step s o)).
Proof.
  intros [I H] Hl. split; [apply Q_step; auto|].
  intros Hg. apply H_step; auto. apply H.
  unfold legal in Hl. apply andb_true_iff in Hl. destruct Hl as [Hl _]. apply negb_true_iff in Hl. exact Hl.
Qed.

Theorem reach_inv k s : Reach k s -> Inv s.
Proof. induction 1; [apply inv_init|apply inv_step; auto]. Qed.

Lemma reach_run_gen k s ops : Reach k s -> legal_run s ops -> Reach k (run s ops).
Proof.
  revert s; induction ops as [|o r IH]; simpl; intros s Hr Hl; auto.
  destruct Hl. apply IH; auto. apply reach_step; auto.
Qed.

(* ------------------------------------------------------------------ *)
(* the statements of Properties/C13.v that do not involve the monitor *)
Theorem send_spec : forall s v,
  let s' := fst (step s (Send v)) in
  if (closed s || N.eqb (state_id s) MAXID)%bool
  then s' = s /\ o_res (snd (step s (Send v))) = [R_ERR; v]
  else state_id s' = (state_id s + 1)%N /\ value s' = Some v /\ waiters s' = [] /\
       o_res (snd (step s (Send v))) = [R_OK].
Proof.
  intros s v. unfold step. destruct (closed s || N.eqb (state_id s) MAXID)%bool; simpl; auto.
  destruct (wake_all (rfs s) (rev (waiters s)) []). simpl. auto.
Qed.

Theorem ids_bounded : forall k s, Reach k s -> (state_id s <= MAXID)%N.
Proof. intros k s R. apply reach_inv in R. destruct R as [I _]. apply I. Qed.

Theorem queue_exact : forall k s,
  Reach k s ->
  NoDup (waiters s) /\
  (forall f, In f (waiters s) <-> (r_alive (getr s f) = true /\ r_hp (getr s f) = true /\ r_st (getr s f) = RReg)) /\
  (closed s = true -> waiters s = []) /\
  (forall f, In f (waiters s) -> deliverable s (r_id (getr s f)) = None).
Proof.
  intros k s R. apply reach_inv in R. destruct R as [[Hnd Hex Hc Hdl Hreg Hid Hdead] _].
  unfold getr. repeat split; auto; apply Hex; auto.
Qed.

Theorem close_status : forall s,
  o_res (snd (step s Close)) = [Rbool (negb (closed s))] /\ closed (fst (step s Close)) = true.
Proof.
  intros s. unfold step, do_close. destruct (closed s) eqn:E; simpl; auto.
  destruct (wake_all (rfs s) (rev (waiters s)) []). simpl. auto.
Qed.

Theorem closed_monotone : forall s o, closed s = true -> closed (fst (step s o)) = true.
Proof.
  intros s o Hc.
  destruct o as [v| |i|f i|f w|f| | | | | | |n| ]; unfold step; auto.
  - rewrite Hc. simpl. auto.
  - unfold do_close. rewrite Hc. auto.
  - destruct (deliverable s i); auto.
  - destruct (negb (r_hp (getr s f))); auto. destruct (r_st (getr s f)); auto.
    destruct (deliverable s (r_id (getr s f))); auto. rewrite Hc. auto.
  - destruct (r_hp (getr s f)); auto. destruct (r_st (getr s f)); auto.
    destruct (memb f (waiters s)); auto.
  - unfold do_close. simpl. rewrite Hc. auto.
  - unfold do_close. simpl. rewrite Hc. auto.
Qed.

Theorem implicit_close : forall k s,
  Reach k s -> explicit s = false -> gone s = false ->
  (closed s = true -> senders s = 0 \/ receivers s = 0) /\
  (senders s = 0 -> pend_sclose s = 0 -> closed s = true) /\
  (receivers s = 0 -> pend_rclose s = 0 -> closed s = true).
Proof.
  intros k s R He Hg. apply reach_inv in R. destruct R as [_ H].
  destruct (H Hg) as (A & B & C & D & E & F & G). auto.
Qed.

Theorem after_close : forall k s i,
  Reach k s -> closed s = true -> legal s (TryReceive i) = true ->
  o_res (snd (step s (TryReceive i))) =
    match value s with
    | Some v => if N.ltb i (state_id s) then [R_SOME; state_id s; v] else [R_NONE]
    | None => [R_NONE]
    end.
Proof.
  intros k s i _ _ _. unfold step, deliverable.
  destruct (value s); auto. destruct (N.ltb i (state_id s)); auto.
Qed.

Theorem wakes_all : forall k s o,
  Reach k s -> legal s o = true ->
  (o = Close /\ closed s = false \/ exists v, o = Send v /\ closed s = false /\ state_id s <> MAXID) ->
  let s' := fst (step s o) in
  waiters s' = [] /\
  o_wake (snd (step s o)) =
    map (fun f => match r_lastw (getr s f) with Some w => nN w | None => 0%N end) (rev (waiters s)) /\
  (forall f, In f (waiters s) -> r_woken (getr s' f) = true /\ r_st (getr s' f) = RUnreg).
Proof.
  intros k s o R Hl Ho. apply reach_inv in R. destruct R as [I _].
  change (fun f => match r_lastw (getr s f) with Some w => nN w | None => 0%N end) with (lastw_of (rfs s)).
  destruct Ho as [[-> Ec]|(v & -> & Ec & En)].
  - unfold step, do_close. rewrite Ec.
    destruct (wake_all (rfs s) (rev (waiters s)) []) as [fs' wk] eqn:W.
    destruct (drain_spec _ _ _ _ _ _ _ I W) as (Dlen & Dwk & Doth & Din).
    simpl. repeat split; auto; unfold getr; simpl; rewrite (Din f H); reflexivity.
  - unfold step. rewrite Ec. apply N.eqb_neq in En. rewrite En. simpl orb. cbv iota.
    destruct (wake_all (rfs s) (rev (waiters s)) []) as [fs' wk] eqn:W.
    destruct (drain_spec _ _ _ _ _ _ _ I W) as (Dlen & Dwk & Doth & Din).
    simpl. repeat split; auto; unfold getr; simpl; rewrite (Din f H); reflexivity.
Qed.

(* ------------------------------------------------------------------ *)
(* the monitor [state_ok] *)
Definition bm_pre (m : bmon) (o : op) (ob : obs) : bmon :=
  let id' := nth 1 (o_probe ob) 0%N in
  match o with
  | Send v =>
      if res_is R_OK ob then
        mkBmon (b_id m) (Some v) (b_closed m) (b_req m) (b_pend m)
               (b_good m && N.ltb (b_id m) id' && negb (b_closed m))
      else
        mkBmon (b_id m) (b_tag m) (b_closed m) (b_req m) (b_pend m)
               (b_good m && res_is R_ERR ob && N.eqb (nth 1 (o_res ob) 0%N) v
                && (b_closed m || N.eqb (b_id m) MAXID))
  | TryReceive i =>
      if res_is R_SOME ob then
        mkBmon (b_id m) (b_tag m) (b_closed m) (b_req m) (b_pend m)
               (b_good m && newer m i && N.eqb (nth 1 (o_res ob) 0%N) (b_id m)
                && match b_tag m with Some t => N.eqb (nth 2 (o_res ob) 0%N) t | None => false end)
      else mkBmon (b_id m) (b_tag m) (b_closed m) (b_req m) (b_pend m) (b_good m && negb (newer m i))
  | CreateRecv f i => mkBmon (b_id m) (b_tag m) (b_closed m) (upd f i (b_req m)) (upd f (None, false) (b_pend m)) (b_good m)
  | DropRecv f => mkBmon (b_id m) (b_tag m) (b_closed m) (b_req m) (upd f (None, false) (b_pend m)) (b_good m)
  | PollRecv f w =>
      let i := nth f (b_req m) 0%N in
      if res_is R_SOME ob then
        mkBmon (b_id m) (b_tag m) (b_closed m) (b_req m) (upd f (None, false) (b_pend m))
               (b_good m && newer m i && N.eqb (nth 1 (o_res ob) 0%N) (b_id m)
                && match b_tag m with Some t => N.eqb (nth 2 (o_res ob) 0%N) t | None => false end)
      else if res_is R_NONE ob then
        mkBmon (b_id m) (b_tag m) (b_closed m) (b_req m) (upd f (None, false) (b_pend m))
               (b_good m && b_closed m && negb (newer m i))
      else if res_is R_PENDING ob then
        mkBmon (b_id m) (b_tag m) (b_closed m) (b_req m) (upd f (Some (nN w), false) (b_pend m))
               (b_good m && negb (b_closed m) && negb (newer m i))
      else m
  | _ => m
  end.

Definition bm_post (o : op) (m1 : bmon) (closed' : bool) (id' : N) (wakes : list N) : bmon :=
  let pend := map (bm_wake wakes) (b_pend m1) in
  let m2 := mkBmon id' (b_tag m1) closed' (b_req m1) pend (b_good m1) in
  let waiting_ok :=
    forallb (fun p => match fst p with
                      | (Some _, false) => negb closed' && negb (newer m2 (snd p))
                      | _ => true end) (combine pend (b_req m1)) in
  match o with
  | Teardown => m2
  | _ => mkBmon id' (b_tag m1) closed' (b_req m1) pend (b_good m1 && waiting_ok)
  end.

Lemma bmon_step_eq m o ob :
  bmon_step m (o, ob) =
  bm_post o (bm_pre m o ob) (negb (N.eqb (nth 0 (o_probe ob) 0%N) 0)) (nth 1 (o_probe ob) 0%N) (o_wake ob).
Proof. reflexivity. Qed.

Lemma bN_probe c : negb (N.eqb (bN c) 0) = c.
Proof. destruct c; reflexivity. Qed.

Lemma bmon_step_mk m o s' res wk vals :
  bmon_step m (o, mk_obs s' res wk vals) =
  bm_post o (bm_pre m o (mk_obs s' res wk vals)) (closed s') (state_id s') (map nN wk).
Proof. rewrite bmon_step_eq. cbn [mk_obs o_probe o_wake nth]. rewrite bN_probe. reflexivity. Qed.

Lemma res_is_mk c s r l wk vals : res_is c (mk_obs s (r :: l) wk vals) = N.eqb r c.
Proof. reflexivity. Qed.

Local Ltac is_code a :=
  match a with
  | R_OK => idtac | R_ERR => idtac | R_SOME => idtac | R_NONE => idtac | R_PENDING => idtac
  end.

Local Ltac code_eval :=
  rewrite ?res_is_mk;
  repeat match goal with
  | |- context [N.eqb ?a ?b] =>
      is_code a; is_code b;
      let r := eval vm_compute in (N.eqb a b) in change (N.eqb a b) with r
  end;
  cbv beta iota zeta.

Definition pend_ok (x : rfut) (p : option N * bool) : Prop :=
  if (r_alive x && r_hp x)%bool then
    match r_lastw x with
    | Some w => fst p = Some (nN w) /\ (snd p = false -> r_st x = RReg)
    | None => p = (None, false)
    end
  else p = (None, false).

Record Link (s : state) (m : bmon) : Prop := {
  l_id : b_id m = state_id s;
  l_closed : b_closed m = closed s;
  l_tag : b_tag m = value s;
  l_lenr : length (b_req m) = length (rfs s);
  l_lenp : length (b_pend m) = length (rfs s);
  l_req : forall f, r_alive (nth f (rfs s) rabsent) = true ->
                    nth f (b_req m) 0%N = r_id (nth f (rfs s) rabsent);
  l_pend : forall f, pend_ok (nth f (rfs s) rabsent) (nth f (b_pend m) (None, false))
}.

Lemma memN_In x l : memN x l = true <-> In x l.
Proof.
  unfold memN. rewrite existsb_exists. split.
  - intros (y & Hy & E). apply N.eqb_eq in E. subst. auto.
  - intros H. exists x. split; auto. apply N.eqb_refl.
Qed.

Lemma bm_wake_nil l : map (bm_wake []) l = l.
Proof.
  induction l as [|[[w|] b] t IH]; simpl; auto; rewrite IH; auto.
  rewrite orb_false_r. reflexivity.
Qed.

Lemma link_good s id tag c req pend g g' :
  Link s (mkBmon id tag c req pend g) -> Link s (mkBmon id tag c req pend g').
Proof. intros [A B C D E F G]. constructor; auto. Qed.

Lemma wait_ok_link s m g :
  Q s -> Link s m ->
  forallb (fun p => match fst p with
                    | (Some _, false) =>
                        negb (b_closed m) &&
                        negb (newer (mkBmon (b_id m) (b_tag m) (b_closed m) (b_req m) (b_pend m) g) (snd p))
                    | _ => true end) (combine (b_pend m) (b_req m)) = true.
Proof.
  intros [Hnd Hex Hc Hdl Hreg Hid Hdead] [Lid Lcl Ltag Llr Llp Lreq Lpend].
  apply forallb_forall. intros [p r] Hin.
  destruct (In_nth _ _ ((None, false), 0%N) Hin) as (n & Hn & En).
  rewrite combine_nth in En by congruence. inv En.
  specialize (Lpend n). unfold pend_ok in Lpend.
  cbn [fst snd].
  destruct (nth n (b_pend m) (None, false)) as [[w|] [|]] eqn:Ep; auto.
  destruct (r_alive (nth n (rfs s) rabsent) && r_hp (nth n (rfs s) rabsent))%bool eqn:Eah; [|discriminate].
  apply andb_true_iff in Eah. destruct Eah as [Ea Eh].
  destruct (r_lastw (nth n (rfs s) rabsent)) as [w'|]; [|discriminate].
  destruct Lpend as [_ Lst]. specialize (Lst eq_refl).
  assert (Hq : In n (waiters s)) by (apply Hex; auto).
  rewrite Lcl. destruct (closed s) eqn:Ec.
  { rewrite (Hc eq_refl) in Hq. destruct Hq. }
  rewrite (Lreq n Ea). specialize (Hdl n Hq).
  unfold newer. cbn [b_tag b_id]. rewrite Ltag, Lid. unfold deliv in Hdl.
  destruct (value s); auto.
  destruct (N.ltb (r_id (nth n (rfs s) rabsent)) (state_id s)); [discriminate|auto].
Qed.

Lemma post_ok s' o m1 wakes :
  o <> Teardown -> Q s' ->
  Link s' (mkBmon (state_id s') (b_tag m1) (closed s') (b_req m1) (map (bm_wake wakes) (b_pend m1)) true) ->
  b_good m1 = true ->
  Link s' (bm_post o m1 (closed s') (state_id s') wakes) /\
  b_good (bm_post o m1 (closed s') (state_id s') wakes) = true.
Proof.
  intros Hne I L Hg.
  pose proof (wait_ok_link s' _ (b_good m1) I L) as W. cbn [b_id b_tag b_closed b_req b_pend] in W.
  destruct o; try congruence; unfold bm_post; cbn zeta;
    (split; [eapply link_good; exact L|cbn [b_good]; rewrite Hg; exact W]).
Qed.

Lemma link_frame s s' m g :
  Link s m -> closed s' = closed s -> value s' = value s -> rfs s' = rfs s ->
  Link s' (mkBmon (state_id s') (b_tag m) (closed s') (b_req m) (map (bm_wake []) (b_pend m)) g).
Proof.
  intros [Lid Lcl Ltag Llr Llp Lreq Lpend] E1 E2 E3. rewrite bm_wake_nil.
  constructor; cbn [b_id b_tag b_closed b_req b_pend]; rewrite ?E3; auto; congruence.
Qed.

Lemma link_upd s m f x req' p q g :
  Link s m -> f < length (rfs s) -> length req' = length (rfs s) ->
  (forall h, h <> f -> nth h req' 0%N = nth h (b_req m) 0%N) ->
  (r_alive x = true -> nth f req' 0%N = r_id x) ->
  pend_ok x p ->
  Link (with_rfs s q (upd f x (rfs s)))
       (mkBmon (state_id s) (b_tag m) (closed s) req' (map (bm_wake []) (upd f p (b_pend m))) g).
Proof.
  intros [Lid Lcl Ltag Llr Llp Lreq Lpend] Hlt Hlen Hoth Hsame Hp. rewrite bm_wake_nil.
  constructor; cbn [b_id b_tag b_closed b_req b_pend with_rfs state_id closed value rfs]; auto.
  - rewrite upd_length. auto.
  - rewrite !upd_length. auto.
  - intros h. destruct (nth_upd_cases (rfs s) f h x Hlt) as [[-> E]|[Hne E]]; rewrite E; auto.
    rewrite Hoth by auto. apply Lreq.
  - intros h. destruct (nth_upd_cases (rfs s) f h x Hlt) as [[-> E]|[Hne E]]; rewrite E.
    + rewrite nth_upd_same by lia. auto.
    + rewrite nth_upd_other by auto. apply Lpend.
Qed.

Lemma link_drain s m fs' wk c' id' v' g sn rn ps pr ex gn :
  Q s -> Link s m -> wake_all (rfs s) (rev (waiters s)) [] = (fs', wk) ->
  Link (mkState c' id' v' [] fs' sn rn ps pr ex gn)
       (mkBmon id' v' c' (b_req m) (map (bm_wake (map nN wk)) (b_pend m)) g).
Proof.
  intros I [Lid Lcl Ltag Llr Llp Lreq Lpend] W.
  destruct (drain_spec _ _ _ _ _ _ _ I W) as (Dlen & Dwk & Doth & Din).
  destruct I as [Hnd Hex Hc Hdl Hreg Hid Hdead].
  constructor; cbn [b_id b_tag b_closed b_req b_pend state_id closed value rfs]; auto.
  - congruence.
  - rewrite map_length. congruence.
  - intros f. destruct (in_dec Nat.eq_dec f (waiters s)) as [Hin|Hni].
    + rewrite (Din f Hin). simpl. intros _. apply Lreq. apply Hex; auto.
    + rewrite (Doth f Hni). apply Lreq.
  - intros f.
    change (None, false) with (bm_wake (map nN wk) (None, false)) at 1. rewrite map_nth.
    specialize (Lpend f). unfold pend_ok in *.
    destruct (in_dec Nat.eq_dec f (waiters s)) as [Hin|Hni].
    + rewrite (Din f Hin). simpl.
      pose proof Hin as Hin'. apply Hex in Hin'. destruct Hin' as (Ea & Eh & Es).
      rewrite Ea, Eh in Lpend. simpl in Lpend.
      destruct (Hreg f Es) as [_ Hl].
      destruct (r_lastw (nth f (rfs s) rabsent)) as [w|] eqn:El; [|congruence].
      destruct Lpend as [Lp1 Lp2].
      destruct (nth f (b_pend m) (None, false)) as [[w'|] b]; simpl in *; [|discriminate].
      split; auto. intros E. exfalso.
      assert (Hm : memN w' (map nN wk) = true).
      { apply memN_In. rewrite Dwk. apply in_map_iff. exists f. split; [|apply -> in_rev; auto].
        unfold lastw_of. rewrite El. congruence. }
      rewrite Hm, orb_true_r in E. discriminate.
    + rewrite (Doth f Hni).
      destruct (r_alive (nth f (rfs s) rabsent) && r_hp (nth f (rfs s) rabsent))%bool eqn:Eah;
        [|rewrite Lpend; reflexivity].
      destruct (r_lastw (nth f (rfs s) rabsent)) as [w|] eqn:El; [|rewrite Lpend; reflexivity].
      destruct Lpend as [Lp1 Lp2].
      destruct (nth f (b_pend m) (None, false)) as [[w'|] b]; simpl in *; [|discriminate].
      split; auto. destruct b; simpl; [discriminate|]. intros _. auto.
Qed.

Lemma link_close s m expl g :
  Q s -> Link s m ->
  Link (fst (fst (do_close s expl)))
       (mkBmon (state_id (fst (fst (do_close s expl)))) (b_tag m) (closed (fst (fst (do_close s expl))))
               (b_req m) (map (bm_wake (map nN (snd (do_close s expl)))) (b_pend m)) g).
Proof.
  intros I L. unfold do_close. destruct (closed s) eqn:Ec.
  - cbn [fst snd map]. apply (link_frame s s); auto.
  - destruct (wake_all (rfs s) (rev (waiters s)) []) as [fs' wk] eqn:W. cbn [fst snd state_id closed].
    rewrite (l_tag _ _ L). eapply link_drain; eauto.
Qed.

Lemma newer_deliv s m i :
  Link s m -> newer m i = match deliverable s i with Some _ => true | None => false end.
Proof.
  intros [Lid Lcl Ltag _ _ _ _]. unfold newer, deliverable. rewrite Ltag, Lid.
  destruct (value s); auto. destruct (N.ltb i (state_id s)); auto.
Qed.

Lemma deliv_some s i v : deliverable s i = Some v -> value s = Some v.
Proof.
  unfold deliverable. destruct (value s); [|discriminate].
  destruct (N.ltb i (state_id s)); congruence.
Qed.

Lemma link_step s m o :
  Q s -> legal s o = true -> o <> Teardown -> Link s m -> b_good m = true ->
  Link (fst (step s o)) (bmon_step m (o, snd (step s o))) /\
  b_good (bmon_step m (o, snd (step s o))) = true.
Proof.
  intros I Hl Hne L Hg.
  pose proof (Q_step s o I Hl) as I'.
  pose proof I as [Hnd Hex Hc Hdl Hreg Hid Hdead].
  pose proof L as [Lid Lcl Ltag Llr Llp Lreq Lpend].
  unfold legal in Hl. apply andb_true_iff in Hl. destruct Hl as [_ Hl].
  destruct o as [v| |i|f i|f w|f| | | | | | |n| ]; try congruence; unfold step in *.
  - (* Send *)
    destruct (closed s || N.eqb (state_id s) MAXID)%bool eqn:E; cbn [fst snd] in *.
    + rewrite bmon_step_mk. apply post_ok; auto.
      * unfold bm_pre. code_eval. cbn [b_tag b_req b_pend map]. apply (link_frame s s); auto.
      * unfold bm_pre. code_eval. cbn [b_good o_res mk_obs nth].
        rewrite Hg, Lcl, Lid, E, N.eqb_refl. reflexivity.
    + apply orb_false_iff in E. destruct E as [Ec En]. apply N.eqb_neq in En.
      destruct (wake_all (rfs s) (rev (waiters s)) []) as [fs' wk] eqn:W. cbn [fst snd] in *.
      rewrite bmon_step_mk. apply post_ok; auto.
      * unfold bm_pre. code_eval. cbn [b_tag b_req b_pend state_id closed].
        apply (link_drain s m fs' wk); auto.
      * unfold bm_pre. code_eval. cbn [b_good o_probe mk_obs nth state_id].
        rewrite Hg, Lcl, Lid, Ec.
        assert (Hlt : N.ltb (state_id s) (state_id s + 1) = true) by (apply N.ltb_lt; lia).
        rewrite Hlt. reflexivity.
  - (* Close *)
    pose proof (link_close s m true true I L) as LC.
    destruct (do_close s true) as [[s' newly] wk] eqn:D. cbn [fst snd] in *.
    rewrite bmon_step_mk. apply post_ok; auto.
  - (* TryReceive *)
    pose proof (newer_deliv s m i L) as Hn.
    destruct (deliverable s i) as [v|] eqn:Ed; cbn [fst snd] in *.
    + rewrite bmon_step_mk. apply post_ok; auto.
      * unfold bm_pre. code_eval. cbn [b_tag b_req b_pend map]. apply (link_frame s s); auto.
      * unfold bm_pre. code_eval. cbn [b_good o_res mk_obs nth].
        rewrite Hg, Hn, Lid, Ltag, (deliv_some _ _ _ Ed), !N.eqb_refl. reflexivity.
    + rewrite bmon_step_mk. apply post_ok; auto.
      * unfold bm_pre. code_eval. cbn [b_tag b_req b_pend map]. apply (link_frame s s); auto.
      * unfold bm_pre. code_eval. cbn [b_good]. rewrite Hg, Hn. reflexivity.
  - (* CreateRecv *)
    bool_hyps. unfold getr in *. cbn [fst snd] in *.
    rewrite bmon_step_mk. apply post_ok; auto.
    unfold bm_pre. cbn [b_tag b_req b_pend with_rfs state_id closed].
    apply link_upd; auto.
    + rewrite upd_length. auto.
    + intros h Hh. apply nth_upd_other. auto.
    + intros _. simpl. apply nth_upd_same. lia.
    + unfold pend_ok. simpl. reflexivity.
  - (* PollRecv *)
    bool_hyps. unfold getr in *. pose proof (alive_lt _ _ H) as Hlt.
    rewrite H0 in *. cbn [negb] in *. cbv iota in *.
    destruct (r_st (nth f (rfs s) rabsent)) eqn:Est.
    + assert (Hni : ~ In f (waiters s)).
      { intro Hin. apply Hex in Hin. destruct Hin as (_ & _ & D). congruence. }
      pose proof (newer_deliv s m (r_id (nth f (rfs s) rabsent)) L) as Hn.
      destruct (deliverable s (r_id (nth f (rfs s) rabsent))) as [v|] eqn:Ed.
      * cbn [fst snd] in *. rewrite bmon_step_mk. apply post_ok; auto.
        -- unfold bm_pre. code_eval. cbn [b_tag b_req b_pend with_rfs state_id closed].
           apply link_upd; auto; [intros _; simpl; apply Lreq; auto|].
           unfold pend_ok. simpl. reflexivity.
        -- unfold bm_pre. code_eval. cbn [b_good o_res mk_obs nth].
           rewrite (Lreq f H), Hg, Hn, Lid, Ltag, (deliv_some _ _ _ Ed), !N.eqb_refl. reflexivity.
      * destruct (closed s) eqn:Ec.
        -- cbn [fst snd] in *. rewrite bmon_step_mk. apply post_ok; auto.
           ++ unfold bm_pre. code_eval. cbn [b_tag b_req b_pend with_rfs state_id closed].
              apply link_upd; auto; [intros _; simpl; apply Lreq; auto|].
              unfold pend_ok. simpl. reflexivity.
           ++ unfold bm_pre. code_eval. cbn [b_good].
              rewrite (Lreq f H), Hg, Hn, Lcl, ?Ec. reflexivity.
        -- pose proof Hni as Hm. apply memb_false in Hm. rewrite Hm in *.
           cbn [fst snd] in *. rewrite bmon_step_mk. apply post_ok; auto.
           ++ unfold bm_pre. code_eval. cbn [b_tag b_req b_pend with_rfs state_id closed].
              apply link_upd; auto; [intros _; simpl; apply Lreq; auto|].
              unfold pend_ok. simpl. auto.
           ++ unfold bm_pre. code_eval. cbn [b_good].
              rewrite (Lreq f H), Hg, Hn, Lcl, ?Ec. reflexivity.
    + assert (Hin : In f (waiters s)) by (apply Hex; auto).
      pose proof (newer_deliv s m (r_id (nth f (rfs s) rabsent)) L) as Hn.
      rewrite deliverable_deliv, (Hdl f Hin) in Hn.
      assert (Ec : closed s = false).
      { destruct (closed s) eqn:Ec; auto. rewrite (Hc eq_refl) in Hin. destruct Hin. }
      cbn [fst snd] in *. rewrite bmon_step_mk. apply post_ok; auto.
      * unfold bm_pre. code_eval. cbn [b_tag b_req b_pend with_rfs state_id closed].
        apply link_upd; auto; [intros _; simpl; apply Lreq; auto|].
        unfold pend_ok. simpl. auto.
      * unfold bm_pre. code_eval. cbn [b_good].
        rewrite (Lreq f H), Hg, Hn, Lcl, ?Ec. reflexivity.
  - (* DropRecv *)
    unfold getr in *. pose proof (alive_lt _ _ Hl) as Hlt.
    assert (G : forall q, Q (with_rfs s q (upd f rabsent (rfs s))) ->
      Link (fst (with_rfs s q (upd f rabsent (rfs s)), mk_obs (with_rfs s q (upd f rabsent (rfs s))) [R_UNIT] [] []))
           (bmon_step m (DropRecv f, snd (with_rfs s q (upd f rabsent (rfs s)), mk_obs (with_rfs s q (upd f rabsent (rfs s))) [R_UNIT] [] []))) /\
      b_good (bmon_step m (DropRecv f, snd (with_rfs s q (upd f rabsent (rfs s)), mk_obs (with_rfs s q (upd f rabsent (rfs s))) [R_UNIT] [] []))) = true).
    { intros q Iq. cbn [fst snd]. rewrite bmon_step_mk. apply post_ok; auto.
      unfold bm_pre. cbn [b_tag b_req b_pend with_rfs state_id closed].
      apply link_upd; auto.
      - discriminate.
      - unfold pend_ok. simpl. reflexivity. }
    destruct (r_hp (nth f (rfs s) rabsent)) eqn:Ehp; [|apply G; exact I'].
    destruct (r_st (nth f (rfs s) rabsent)) eqn:Est; [apply G; exact I'|].
    assert (Hin : In f (waiters s)) by (apply Hex; auto).
    apply memb_In in Hin. rewrite Hin in *. apply G; exact I'.
  - (* CloneSender *)
    cbn [fst snd] in *. rewrite bmon_step_mk. apply post_ok; auto.
    unfold bm_pre. apply (link_frame s); auto.
  - (* DropSenderDec *)
    cbn [fst snd] in *. rewrite bmon_step_mk. apply post_ok; auto.
    unfold bm_pre. apply (link_frame s); auto.
  - (* DropSenderClose *)
    set (t := with_counts s (senders s) (receivers s) (pred (pend_sclose s)) (pend_rclose s)) in *.
    assert (Lt : Link t m) by (constructor; auto).
    pose proof (link_close t m false true I Lt) as LC.
    destruct (do_close t false) as [[s' newly] wk] eqn:D. cbn [fst snd] in *.
    rewrite bmon_step_mk. apply post_ok; auto.
  - (* CloneReceiver *)
    cbn [fst snd] in *. rewrite bmon_step_mk. apply post_ok; auto.
    unfold bm_pre. apply (link_frame s); auto.
  - (* DropReceiverDec *)
    cbn [fst snd] in *. rewrite bmon_step_mk. apply post_ok; auto.
    unfold bm_pre. apply (link_frame s); auto.
  - (* DropReceiverClose *)
    set (t := with_counts s (senders s) (receivers s) (pend_sclose s) (pred (pend_rclose s))) in *.
    assert (Lt : Link t m) by (constructor; auto).
    pose proof (link_close t m false true I Lt) as LC.
    destruct (do_close t false) as [[s' newly] wk] eqn:D. cbn [fst snd] in *.
    rewrite bmon_step_mk. apply post_ok; auto.
  - (* SetId *)
    cbn [fst snd] in *. rewrite bmon_step_mk. apply post_ok; auto.
    unfold bm_pre. apply (link_frame s); auto.
Qed.

Lemma nth_repeat_same {A} (a : A) k f : nth f (repeat a k) a = a.
Proof. revert f; induction k; intros [|f]; simpl; auto. Qed.

Lemma link_init k : Link (init k) (mkBmon 0 None false (repeat 0%N k) (repeat (None, false) k) true).
Proof.
  constructor; simpl; auto.
  - rewrite !repeat_length. reflexivity.
  - rewrite !repeat_length. reflexivity.
  - intros f. rewrite nth_repeat_rabsent. discriminate.
  - intros f. rewrite nth_repeat_rabsent, nth_repeat_same. reflexivity.
Qed.

Lemma teardown_dec o : {o = Teardown} + {o <> Teardown}.
Proof. destruct o; try (right; discriminate). left; reflexivity. Qed.

Lemma protocol_gen k : forall ops s m,
  Reach k s -> gone s = false -> Link s m -> b_good m = true -> legal_run s ops ->
  b_good (fold_left bmon_step (trace s ops) m) = true.
Proof.
  induction ops as [|o r IH]; simpl; intros s m R Hgn L Hg Hl; auto.
  destruct Hl as [Hl Hr].
  destruct (teardown_dec o) as [->|Hne].
  - destruct r as [|o2 r2].
    + simpl. exact Hg.
    + simpl in Hr. destruct Hr as [Hl2 _]. unfold legal in Hl2. simpl in Hl2. discriminate.
  - pose proof (reach_inv k s R) as [I _].
    destruct (link_step s m o I Hl Hne L Hg) as [L' Hg'].
    apply IH; auto.
    + apply reach_step; auto.
    + apply gone_step; auto.
Qed.

Theorem protocol_holds : forall k ops,
  legal_run (init k) ops -> private_wakers ops ->
  state_ok k (trace (init k) ops) = true.
Proof.
  intros k ops Hl _. unfold state_ok. apply (protocol_gen k); auto.
  - apply reach_init.
  - apply link_init.
Qed.
