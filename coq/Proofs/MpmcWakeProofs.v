(* Wake-up behaviour of Model/Mpmc.v (C10): no lost wake-up for receivers or senders,
   progress of woken futures, and the link to the trace monitor [recv_wakeup_ok]. *)
From FI Require Import Base Mpmc MpmcSpec MpmcProofs.

Local Ltac inv H := inversion H; subst; clear H.

Local Ltac bool_hyps :=
  repeat match goal with
  | H : (_ && _)%bool = true |- _ => apply andb_true_iff in H; destruct H
  | H : negb _ = true |- _ => apply negb_true_iff in H
  | H : negb _ = false |- _ => apply negb_false_iff in H
  | H : Nat.ltb _ _ = true |- _ => apply Nat.ltb_lt in H
  | H : Nat.eqb _ _ = true |- _ => apply Nat.eqb_eq in H
  | H : Nat.eqb _ _ = false |- _ => apply Nat.eqb_neq in H
  end.

Local Ltac projs :=
  cbn [closed cap buf recvq sendq rfs sfs senders receivers pend_sclose pend_rclose pend_clear explicit gone
       setr sets setbuf setcounts cnt_s cnt_r close_state teardown_state].

(* ------------------------------------------------------------------ *)
(* counting notified receivers *)
Definition noti (x : rfut) : bool := match r_st x with RNotified => true | _ => false end.
Definition b2n (b : bool) : nat := if b then 1 else 0.
Fixpoint nnoti (fs : list rfut) : nat :=
  match fs with [] => 0 | x :: t => b2n (noti x) + nnoti t end.

Lemma nnoti_upd f y fs : f < length fs ->
  nnoti (upd f y fs) + b2n (noti (nth f fs rabsent)) = nnoti fs + b2n (noti y).
Proof.
  revert f; induction fs as [|h t IH]; intros [|f] H; simpl in *; try lia.
  specialize (IH f). lia.
Qed.

Lemma nnoti_pos fs : 0 < nnoti fs -> exists f, r_st (nth f fs rabsent) = RNotified.
Proof.
  induction fs as [|h t IH]; simpl; [lia|]. intros H.
  destruct (noti h) eqn:E.
  - exists 0. simpl. unfold noti in E. destruct (r_st h); congruence.
  - simpl in H. destruct (IH H) as [f Hf]. exists (S f). exact Hf.
Qed.

Lemma noti_false x : r_st x <> RNotified -> noti x = false.
Proof. unfold noti. destruct (r_st x); congruence. Qed.

Lemma noti_true x : r_st x = RNotified -> noti x = true.
Proof. unfold noti. intros ->. reflexivity. Qed.

Lemma remove_length_le f l : length (remove f l) <= length l.
Proof. unfold remove. induction l as [|h t IH]; simpl; auto. destruct (negb _); simpl; lia. Qed.

Lemma olast_length {A} (l : list A) x : olast l = Some x -> length l = S (length (removelast l)).
Proof. intros H. apply olast_Some_split in H. rewrite H at 1. rewrite app_length. simpl. lia. Qed.

(* ------------------------------------------------------------------ *)
(* the wake-up invariant *)
Definition ROk (x : rfut) : Prop :=
  (r_st x = RNotified -> pendingR x = true) /\
  (r_st x <> RReg -> pendingR x = true -> r_woken x = true).

Definition SWk (y : sfut) : Prop :=
  s_st y <> SReg -> pendingS y = true -> s_woken y = true.

Record WP (k : nat) (q : list fid) (b : list tag) (sq : list fid) (fs : list rfut) (gs : list sfut) : Prop := {
  w_cnt : q <> [] -> length b + length sq <= nnoti fs + k;
  w_r : forall f, ROk (nth f fs rabsent);
  w_s : forall f, SWk (nth f gs sabsent)
}.

Definition WInv (s : state) : Prop := WP 0 (recvq s) (buf s) (sendq s) (rfs s) (sfs s).

Lemma rok_upd fs f x' : (forall g, ROk (nth g fs rabsent)) -> ROk x' -> forall g, ROk (nth g (upd f x' fs) rabsent).
Proof. intros H Hx g. rewrite nth_upd. destruct (_ && _)%bool; auto. Qed.

Lemma swk_upd gs f y' : (forall g, SWk (nth g gs sabsent)) -> SWk y' -> forall g, SWk (nth g (upd f y' gs) sabsent).
Proof. intros H Hy g. rewrite nth_upd. destruct (_ && _)%bool; auto. Qed.

Lemma rok_absent : ROk rabsent.
Proof. split; simpl; intros; discriminate. Qed.

Lemma rok_fresh : ROk r_fresh.
Proof. split; simpl; intros; discriminate. Qed.

Lemma rok_done x w : ROk (r_done x w).
Proof. split; simpl; intros; discriminate. Qed.

Lemma rok_park w : ROk (r_park w).
Proof. split; simpl; intros; try discriminate. congruence. Qed.

Lemma rok_noti x :
  r_alive x = true /\ r_hp x = true /\ r_task x = r_lastw x /\ r_lastw x <> None -> ROk (r_noti x).
Proof.
  intros (Ha & Hh & Ht & Hl). unfold ROk, pendingR. simpl. rewrite Ha, Hh, Ht.
  destruct (r_lastw x) as [w|]; [|congruence]. simpl. rewrite Nat.eqb_refl, orb_true_r. auto.
Qed.

Lemma rok_reset x :
  r_alive x = true /\ r_hp x = true /\ r_task x = r_lastw x /\ r_lastw x <> None -> ROk (r_reset x).
Proof.
  intros (Ha & Hh & Ht & Hl). unfold ROk, pendingR. simpl. rewrite Ha, Hh, Ht.
  destruct (r_lastw x) as [w|]; [|congruence]. simpl. rewrite Nat.eqb_refl, orb_true_r.
  split; intros; auto; discriminate.
Qed.

Lemma swk_absent : SWk sabsent.
Proof. unfold SWk. simpl. intros; discriminate. Qed.

Lemma swk_fresh v : SWk (s_fresh v).
Proof. unfold SWk, pendingS. simpl. intros; discriminate. Qed.

Lemma swk_done y w : SWk (s_done y w).
Proof. unfold SWk, pendingS. simpl. intros; discriminate. Qed.

Lemma swk_park y w : SWk (s_park y w).
Proof. unfold SWk. simpl. congruence. Qed.

Lemma swk_fin y w : SWk (s_fin y w).
Proof. unfold SWk, pendingS. simpl. intros; discriminate. Qed.

Lemma swk_cancel y : SWk (s_cancel y).
Proof. unfold SWk, pendingS. simpl. intros; discriminate. Qed.

Lemma swk_complete cl y : SOk cl y -> s_st y = SReg -> SWk (s_complete y).
Proof.
  intros OK Hst. destruct (so_reg _ _ OK Hst) as (_ & _ & Ht & Hl & _).
  unfold SWk. simpl. intros _ _. rewrite Ht, woke_same by auto. apply orb_true_r.
Qed.

Lemma swk_reset cl y : SOk cl y -> s_st y = SReg -> SWk (s_reset y).
Proof.
  intros OK Hst. destruct (so_reg _ _ OK Hst) as (_ & _ & Ht & Hl & _).
  unfold SWk. simpl. intros _ _. rewrite Ht, woke_same by auto. apply orb_true_r.
Qed.

Lemma winv_init kr ks c : WInv (init kr ks c).
Proof.
  constructor; simpl.
  - congruence.
  - intros f. rewrite nth_repeat_same. apply rok_absent.
  - intros f. rewrite nth_repeat_same. apply swk_absent.
Qed.

(* notification of the oldest queued receiver pays for one value *)
Lemma wp_notify s :
  RInvP (closed s) (recvq s) (rfs s) ->
  WP 1 (recvq s) (buf s) (sendq s) (rfs s) (sfs s) -> WInv (notify_st s).
Proof.
  intros IR [Wc Wr Ws].
  destruct (notify_st_spec s) as [[Eo E]|[g [Eo E]]]; rewrite E.
  - apply olast_None in Eo. constructor; auto. intros H. congruence.
  - assert (Hin : In g (recvq s)) by (apply olast_In; auto).
    pose proof Hin as Hst. apply (ri_in _ _ _ IR) in Hst.
    pose proof (ri_reg _ _ _ IR g Hst) as Hreg.
    assert (Hlt : g < length (rfs s)) by (apply alive_lt_r; unfold getr; tauto).
    constructor; projs; auto.
    + intros _. assert (Hne : recvq s <> []) by (intros E0; rewrite E0 in Hin; destruct Hin).
      specialize (Wc Hne).
      pose proof (nnoti_upd g (r_noti (getr s g)) (rfs s) Hlt) as Hn.
      rewrite (noti_false (nth g (rfs s) rabsent)) in Hn by congruence.
      change (noti (r_noti (getr s g))) with true in Hn.
      simpl in Hn. lia.
    + apply rok_upd; auto. apply rok_noti. exact Hreg.
Qed.

Lemma rcv_len s s1 v : rcv_out s s1 (Some v) ->
  length (buf s1) + length (sendq s1) + 1 = length (buf s) + length (sendq s).
Proof.
  intros O. inversion O as [v0 rest Eb Eq|v0 rest g x Eb Eo Ev|g x Eb Eo Ev|]; subst; projs.
  - rewrite Eb. simpl. lia.
  - rewrite Eb, (olast_length _ _ Eo), app_length. simpl. lia.
  - rewrite (olast_length _ _ Eo). lia.
Qed.

Lemma rcv_swk s s1 ov : Inv s -> (forall g, SWk (gets s g)) -> rcv_out s s1 ov -> forall g, SWk (gets s1 g).
Proof.
  intros [_ IS _] Ws O.
  destruct O as [v rest Eb Eq|v rest g x Eb Eo Ev|g x Eb Eo Ev|Eb Eq]; auto; unfold gets; projs.
  all: apply swk_upd; auto; eapply swk_complete; [apply (si_ok _ _ _ _ _ IS)|];
    apply (si_in _ _ _ _ _ IS); apply olast_In; auto.
Qed.

Lemma wp_close s e :
  RInvP (closed s) (recvq s) (rfs s) -> SInvP (closed s) (cap s) (buf s) (sendq s) (sfs s) ->
  WInv s -> WInv (close_if s e).
Proof.
  intros IR IS W. unfold close_if. destruct (closed s) eqn:Ecl; auto.
  destruct W as [Wc Wr Ws]. constructor; projs.
  - congruence.
  - intros f. rewrite resetR_nth by (apply NoDup_rev, (ri_nd _ _ _ IR)).
    destruct (memb f (rev (recvq s))) eqn:Em; auto.
    apply memb_In in Em. rewrite <- in_rev in Em. apply (ri_in _ _ _ IR) in Em.
    apply rok_reset. apply (ri_reg _ _ _ IR); auto.
  - intros f. rewrite resetS_nth by (apply NoDup_rev, (si_nd _ _ _ _ _ IS)).
    destruct (memb f (rev (sendq s))) eqn:Em; auto.
    apply memb_In in Em. rewrite <- in_rev in Em. apply (si_in _ _ _ _ _ IS) in Em.
    eapply swk_reset; eauto. apply (si_ok _ _ _ _ _ IS).
Qed.

Lemma rok_alive x : ROk x -> r_alive x = false -> noti x = false.
Proof.
  intros [H _] Ha. apply noti_false. intros E. apply H in E. unfold pendingR in E. rewrite Ha in E. discriminate.
Qed.

Lemma b2n_le b : b2n b <= 1.
Proof. destruct b; simpl; lia. Qed.

Lemma winv_drop_noti s f : Inv s -> WInv s -> r_alive (getr s f) = true -> r_st (getr s f) = RNotified ->
  WInv (notify_st (setr s (recvq s) (upd f rabsent (rfs s)))).
Proof.
  intros [IR IS IH] [Wc Wr Ws] Ha Hst.
  assert (Hlt : f < length (rfs s)) by (apply alive_lt_r; auto).
  apply wp_notify; projs.
  - apply rinv_plain; auto; [discriminate|unfold getr in *; congruence].
  - constructor; auto.
    + intros Hne. specialize (Wc Hne).
      pose proof (nnoti_upd f rabsent (rfs s) Hlt) as Hn.
      pose proof (b2n_le (noti (nth f (rfs s) rabsent))). change (noti rabsent) with false in Hn.
      simpl in Hn. lia.
    + apply rok_upd; auto. apply rok_absent.
Qed.

Lemma winv_out s o s' res vals : Inv s -> WInv s -> legal s o = true -> out s o s' res vals ->
  (forall f, o = DropRecv f -> r_st (getr s f) = RNotified ->
             s' = notify_st (setr s (recvq s) (upd f rabsent (rfs s)))) ->
  WInv s'.
Proof.
  intros I W Hl O Hdr. pose proof I as [IR IS IH]. pose proof W as [Wc Wr Ws].
  unfold legal in Hl. apply andb_true_iff in Hl. destruct Hl as [Hg Hl]. apply negb_true_iff in Hg.
  destruct O; try exact W.
  - (* CreateSend *) constructor; projs; auto. apply swk_upd; auto. apply swk_fresh.
  - (* PollSend closed *) constructor; projs; auto. apply swk_upd; auto. apply swk_done.
  - (* PollSend park *) apply wp_notify; projs; auto. constructor; auto.
    + intros Hne. specialize (Wc Hne). simpl. lia.
    + apply swk_upd; auto. apply swk_park.
  - (* PollSend push *) apply wp_notify; projs; auto. constructor; auto.
    + intros Hne. specialize (Wc Hne). rewrite app_length. simpl. lia.
    + apply swk_upd; auto. apply swk_done.
  - (* PollSend SReg *) constructor; projs; auto. apply swk_upd; auto. apply swk_park.
  - (* PollSend SComplete *) constructor; projs; auto. apply swk_upd; auto. apply swk_fin.
  - (* CancelSend *) constructor; projs; auto.
    + intros Hne. specialize (Wc Hne). pose proof (remove_length_le f (sendq s)). lia.
    + apply swk_upd; auto. apply swk_cancel.
  - (* DropSend *) constructor; projs; auto.
    + intros Hne. specialize (Wc Hne). pose proof (remove_length_le f (sendq s)). lia.
    + apply swk_upd; auto. apply swk_absent.
  - (* CreateRecv *) bool_hyps. constructor; projs; auto.
    + intros Hne. specialize (Wc Hne).
      pose proof (nnoti_upd f r_fresh (rfs s) H) as Hn.
      rewrite (rok_alive _ (Wr f)) in Hn by (unfold getr in *; auto).
      change (noti r_fresh) with false in Hn. simpl in Hn. lia.
    + apply rok_upd; auto. apply rok_fresh.
  - (* PollRecv got *) bool_hyps.
    destruct (rcv_frame _ _ _ H0) as (E1 & E2 & _).
    pose proof (rcv_len _ _ _ H0) as Hlen.
    constructor; projs.
    + rewrite E1, E2. intros Hne. specialize (Wc Hne).
      assert (Hlt : f < length (rfs s)) by (apply alive_lt_r; auto).
      pose proof (nnoti_upd f (r_done (getr s f) w) (rfs s) Hlt) as Hn.
      pose proof (b2n_le (noti (nth f (rfs s) rabsent))).
      change (noti (r_done (getr s f) w)) with false in Hn. simpl in Hn. lia.
    + rewrite E2. apply rok_upd; auto. apply rok_done.
    + apply (rcv_swk s s1 (Some v)); auto.
  - (* PollRecv none *) constructor; projs; auto.
    + intros Hne. exfalso. apply Hne. apply (ri_cl _ _ _ IR); auto.
    + apply rok_upd; auto. apply rok_done.
  - (* PollRecv park *) constructor; projs; auto.
    + intros _. rewrite H0, H1. simpl. lia.
    + apply rok_upd; auto. apply rok_park.
  - (* PollRecv RReg *) bool_hyps. constructor; projs; auto.
    + intros Hne. specialize (Wc Hne).
      assert (Hlt : f < length (rfs s)) by (apply alive_lt_r; auto).
      pose proof (nnoti_upd f (r_park w) (rfs s) Hlt) as Hn.
      rewrite (noti_false (nth f (rfs s) rabsent)) in Hn by (unfold getr in *; congruence).
      change (noti (r_park w)) with false in Hn. simpl in Hn. lia.
    + apply rok_upd; auto. apply rok_park.
  - (* DropRecv notified *) apply winv_drop_noti; auto.
  - (* DropRecv *)
    destruct (r_st (getr s f)) eqn:Est.
    3: { rewrite (Hdr f eq_refl Est). apply winv_drop_noti; auto. }
    all: constructor; projs; auto;
      [ intros Hne;
        assert (Hne' : recvq s <> []) by (intros E0; rewrite E0 in Hne; apply Hne; reflexivity);
        specialize (Wc Hne');
        assert (Hlt : f < length (rfs s)) by (apply alive_lt_r; auto);
        pose proof (nnoti_upd f rabsent (rfs s) Hlt) as Hn;
        rewrite (noti_false (nth f (rfs s) rabsent)) in Hn by (unfold getr in *; congruence);
        change (noti rabsent) with false in Hn; simpl in Hn; lia
      | apply rok_upd; auto; apply rok_absent ].
  - (* TrySend push *) apply wp_notify; projs; auto. constructor; auto.
    intros Hne. specialize (Wc Hne). rewrite app_length. simpl. lia.
  - (* TryRecv got *)
    destruct (rcv_frame _ _ _ H) as (E1 & E2 & _).
    pose proof (rcv_len _ _ _ H) as Hlen.
    constructor.
    + rewrite E1, E2. intros Hne. specialize (Wc Hne). lia.
    + rewrite E2. auto.
    + apply (rcv_swk s s1 (Some v)); auto.
  - (* Close *) apply wp_close; auto.
  - (* DropSenderClose *) apply (wp_close (cnt_s s (senders s) (pred (pend_sclose s)))); auto.
  - (* DropReceiverClose *)
    apply (wp_close (cnt_r s (receivers s) (pred (pend_rclose s)) (S (pend_clear s)))); auto.
  - (* DropReceiverClear *) constructor; projs; auto.
    intros Hne. specialize (Wc Hne). simpl. lia.
  - (* Teardown *) constructor; projs.
    + congruence.
    + intros f. rewrite nth_map_const. apply rok_absent.
    + intros f. rewrite nth_map_sabsent. apply swk_absent.
Qed.

Lemma step_drop_noti s f : r_hp (getr s f) = true -> r_st (getr s f) = RNotified ->
  fst (step s (DropRecv f)) = notify_st (setr s (recvq s) (upd f rabsent (rfs s))).
Proof.
  intros Hh Hst. cbn [step]. cbv zeta. rewrite Hh, Hst.
  destruct (notify_oldest_recv _) as [s' wk] eqn:En. apply notify_fst in En. exact En.
Qed.

Lemma winv_step s o : Inv s -> WInv s -> legal s o = true -> WInv (fst (step s o)).
Proof.
  intros I W Hl. eapply winv_out; eauto.
  - apply step_out; auto.
  - intros f -> Hst. apply step_drop_noti; auto.
    destruct W as [_ Wr _]. destruct (Wr f) as [Hp _]. apply Hp in Hst.
    unfold pendingR in Hst. bool_hyps. auto.
Qed.

Theorem reach_winv kr ks c s : Reach kr ks c s -> WInv s.
Proof.
  induction 1; [apply winv_init|]. apply winv_step; auto. eapply reach_inv; eauto.
Qed.

(* ------------------------------------------------------------------ *)
(* C10 on the model state *)
Lemma available_le s : available s <= length (buf s) + length (sendq s).
Proof. unfold available. destruct (cap s); [destruct (closed s)|]; lia. Qed.

Theorem recv_woken : forall kr ks c s,
  Reach kr ks c s -> 0 < available s ->
  (exists f, pendingR (getr s f) = true) ->
  exists g, pendingR (getr s g) = true /\ r_woken (getr s g) = true.
Proof.
  intros kr ks c s R Hav [f Hp].
  pose proof (reach_winv _ _ _ _ R) as [Wc Wr Ws]. apply reach_inv in R. destruct R as [IR IS IH].
  destruct (recvq s) as [|h t] eqn:Eq.
  - exists f. split; auto. apply (Wr f); auto.
    intros Hst. apply (ri_in _ _ _ IR) in Hst. destruct Hst.
  - assert (Hn : 0 < nnoti (rfs s)).
    { pose proof (available_le s). assert (Hne : h :: t <> []) by discriminate. specialize (Wc Hne). lia. }
    destruct (nnoti_pos _ Hn) as [g Hg]. exists g. destruct (Wr g) as [A B]. unfold getr.
    split; auto. apply B; auto. congruence.
Qed.

Theorem sender_woken : forall kr ks c s f,
  Reach kr ks c s -> pendingS (gets s f) = true -> s_st (gets s f) = SComplete ->
  s_woken (gets s f) = true.
Proof.
  intros kr ks c s f R Hp Hst. pose proof (reach_winv _ _ _ _ R) as [Wc Wr Ws].
  apply (Ws f); auto. unfold gets in Hst. congruence.
Qed.

Theorem after_close_all_woken : forall kr ks c s,
  Reach kr ks c s -> closed s = true ->
  (forall f, pendingR (getr s f) = true -> r_woken (getr s f) = true) /\
  (forall f, pendingS (gets s f) = true -> s_woken (gets s f) = true).
Proof.
  intros kr ks c s R Hc. pose proof (reach_winv _ _ _ _ R) as [Wc Wr Ws].
  apply reach_inv in R. destruct R as [IR IS IH]. split; intros f Hp.
  - apply (Wr f); auto. intros Hst. apply (ri_in _ _ _ IR) in Hst.
    rewrite (ri_cl _ _ _ IR Hc) in Hst. destruct Hst.
  - apply (Ws f); auto. intros Hst. apply (si_in _ _ _ _ _ IS) in Hst.
    rewrite (si_cl _ _ _ _ _ IS Hc) in Hst. destruct Hst.
Qed.

Theorem sender_progress : forall kr ks c s f w,
  Reach kr ks c s -> legal s (PollSend f w) = true -> s_st (gets s f) = SComplete ->
  o_res (snd (step s (PollSend f w))) = [R_OK].
Proof.
  intros kr ks c s f w R Hl Hst. apply reach_inv in R.
  destruct (step_out_ex s _ R Hl) as (s' & res & vals & _ & -> & _ & O).
  inversion O; subst; auto; congruence.
Qed.

Lemma rcv_head s s1 v : rcv_out s s1 (Some v) -> hd_error (abs_queue s) = Some v.
Proof.
  intros O. unfold abs_queue.
  inversion O as [v0 rest Eb Eq|v0 rest g x Eb Eo Ev|g x Eb Eo Ev|]; subst; rewrite Eb; try reflexivity.
  rewrite (rev_olast _ _ Eo). simpl. rewrite Ev. reflexivity.
Qed.

Theorem recv_progress : forall kr ks c s f w,
  Reach kr ks c s -> 0 < available s -> legal s (PollRecv f w) = true -> r_st (getr s f) <> RReg ->
  exists v, o_res (snd (step s (PollRecv f w))) = [R_SOME; v] /\ hd_error (abs_queue s) = Some v.
Proof.
  intros kr ks c s f w R Hav Hl Hst. apply reach_inv in R.
  destruct (step_out_ex s _ R Hl) as (s' & res & vals & _ & -> & _ & O).
  pose proof (available_le s) as Hle.
  inversion O; subst; try congruence.
  - exists v. split; auto. eapply rcv_head; eauto.
  - exfalso. match goal with A : buf s = [], B : sendq s = [] |- _ => rewrite A, B in Hle end. simpl in Hle. lia.
  - exfalso. match goal with A : buf s = [], B : sendq s = [] |- _ => rewrite A, B in Hle end. simpl in Hle. lia.
Qed.

(* ------------------------------------------------------------------ *)
(* the trace monitor [recv_wakeup_ok] *)
Local Ltac neval :=
  repeat match goal with
  | |- context [N.eqb ?a ?b] =>
      let r := eval vm_compute in (N.eqb a b) in
      match r with
      | true => change (N.eqb a b) with true
      | false => change (N.eqb a b) with false
      end
  end.

Definition dpend : option N * bool := (None, false).

Definition rm_pre (m : rmon) (o : op) (res : list N) : rmon :=
  match o with
  | CreateRecv f | DropRecv f => mkRmon (upd f (None, false) (rm_pend m)) (rm_stag m) (rm_parked m) (rm_good m)
  | PollRecv f w =>
      if N.eqb (hd 99%N res) R_PENDING
      then mkRmon (upd f (Some (nN w), false) (rm_pend m)) (rm_stag m) (rm_parked m) (rm_good m)
      else if N.eqb (hd 99%N res) R_PANIC then m
      else mkRmon (upd f (None, false) (rm_pend m)) (rm_stag m) (rm_parked m) (rm_good m)
  | CreateSend f v => mkRmon (rm_pend m) (upd f (Some v) (rm_stag m)) (upd f false (rm_parked m)) (rm_good m)
  | PollSend f _ =>
      if N.eqb (hd 99%N res) R_PANIC then m
      else mkRmon (rm_pend m) (rm_stag m) (upd f (N.eqb (hd 99%N res) R_PENDING) (rm_parked m)) (rm_good m)
  | CancelSend f | DropSend f => mkRmon (rm_pend m) (upd f None (rm_stag m)) (upd f false (rm_parked m)) (rm_good m)
  | _ => m
  end.

Definition rm_avail (cap : nat) (probe : list N) (parked : list bool) : bool :=
  negb (N.eqb (nth 1 probe 0%N) 0) ||
  (Nat.eqb cap 0 && negb (negb (N.eqb (nth 0 probe 0%N) 0)) && existsb (fun b => b) parked).
Definition some_pending (pend : list (option N * bool)) : bool :=
  existsb (fun x => match fst x with Some _ => true | None => false end) pend.
Definition some_woken (pend : list (option N * bool)) : bool :=
  existsb (fun x => match x with (Some _, true) => true | _ => false end) pend.

Lemma rmon_step_eq c m o ob :
  rmon_step c m (o, ob) =
  let m1 := rm_pre m o (o_res ob) in
  let pend := map (rm_wake (o_wake ob)) (rm_pend m1) in
  let parked := unpark (map snd (pairs (o_val ob))) (rm_stag m1) (rm_parked m1) in
  mkRmon pend (rm_stag m1) parked
    (match o with
     | Teardown => rm_good m1
     | _ => rm_good m1 && (negb (rm_avail c (o_probe ob) parked && some_pending pend) || some_woken pend)
     end).
Proof. destruct o; reflexivity. Qed.

Lemma rm_pre_good m o res : rm_good (rm_pre m o res) = rm_good m.
Proof. destruct o; simpl; auto; repeat (destruct (N.eqb _ _); auto). Qed.

(* ---- raw facts about [step]: probes and wake lists ---- *)
Lemma step_probe s o : o <> Teardown ->
  o_probe (snd (step s o)) = [bN (closed (fst (step s o))); nN (length (buf (fst (step s o))))].
Proof.
  intros Hnt. destruct o; try congruence; cbn [step]; cbv zeta;
    repeat match goal with
    | |- context [match ?x with _ => _ end] => destruct x
    end; reflexivity.
Qed.

Lemma rfs_try_receive s : rfs (fst (fst (try_receive s))) = rfs s.
Proof.
  unfold try_receive. destruct (buf s); destruct (olast (sendq s)); cbv zeta;
    try destruct (s_val (gets s _)); reflexivity.
Qed.

Lemma woke_by_task t l : woke_by t l = true -> exists w, t = Some w.
Proof. destruct t; simpl; [eauto|discriminate]. Qed.

Lemma notify_woken X i :
  r_woken (getr X i) = false -> r_woken (getr (fst (notify_oldest_recv X)) i) = true ->
  exists w, r_task (getr X i) = Some w /\ In w (snd (notify_oldest_recv X)).
Proof.
  unfold notify_oldest_recv. destruct (olast (recvq X)) as [g|]; cbn [fst snd]; [|congruence].
  intros H0 H1. unfold getr in *. cbn [rfs setr] in H1. rewrite nth_upd in H1.
  destruct (Nat.eqb g i && Nat.ltb i (length (rfs X)))%bool eqn:Ec.
  - bool_hyps. subst g. cbn [r_woken] in H1. rewrite H0 in H1. simpl in H1.
    apply woke_by_task in H1. destruct H1 as [w Hw]. exists w. rewrite Hw. simpl. auto.
  - congruence.
Qed.

Lemma wake_recvs_acc_in order : forall fs acc w, In w acc -> In w (snd (wake_recvs fs order acc)).
Proof. induction order as [|f r IH]; intros; simpl; auto. apply IH. apply in_or_app; auto. Qed.

Lemma wake_sends_acc_in order : forall fs acc w, In w acc -> In w (snd (wake_sends fs order acc)).
Proof. induction order as [|f r IH]; intros; simpl; auto. apply IH. apply in_or_app; auto. Qed.

Lemma wake_recvs_woken order : forall fs acc i,
  r_woken (nth i fs rabsent) = false -> r_woken (nth i (fst (wake_recvs fs order acc)) rabsent) = true ->
  exists w, r_task (nth i fs rabsent) = Some w /\ In w (snd (wake_recvs fs order acc)).
Proof.
  induction order as [|f0 r IH]; intros fs acc i H0 H1.
  - simpl in H1. congruence.
  - cbn [wake_recvs] in *. cbv zeta in *.
    set (x0 := nth f0 fs rabsent) in *.
    set (fs1 := upd f0 (mkR (r_alive x0) (r_hp x0) RUnreg None
                           (r_woken x0 || woke_by (r_task x0) (r_lastw x0)) (r_lastw x0)) fs) in *.
    destruct (r_woken (nth i fs1 rabsent)) eqn:Ew.
    + unfold fs1 in Ew. rewrite nth_upd in Ew.
      destruct (Nat.eqb f0 i && Nat.ltb i (length fs))%bool eqn:Ec; [|congruence].
      bool_hyps. subst f0. cbn [r_woken] in Ew. fold x0 in H0. rewrite H0 in Ew. simpl in Ew.
      apply woke_by_task in Ew. destruct Ew as [w Hw]. exists w. split; auto.
      apply wake_recvs_acc_in. rewrite Hw. apply in_or_app. right. simpl. auto.
    + destruct (IH fs1 (acc ++ wk_list (r_task x0)) i Ew H1) as [w [Hw Hin]]. exists w. split; auto.
      unfold fs1 in Hw. rewrite nth_upd in Hw.
      destruct (Nat.eqb f0 i && Nat.ltb i (length fs))%bool; [simpl in Hw; discriminate|auto].
Qed.

Lemma do_close_woken X e i :
  r_woken (getr X i) = false -> r_woken (getr (fst (fst (do_close X e))) i) = true ->
  exists w, r_task (getr X i) = Some w /\ In w (snd (do_close X e)).
Proof.
  unfold do_close. destruct (closed X); cbn [fst snd]; [intros; congruence|].
  intros H0 H1.
  pose proof (wake_recvs_woken (rev (recvq X)) (rfs X) [] i H0) as K.
  destruct (wake_recvs (rfs X) (rev (recvq X)) []) as [rf' wk1].
  pose proof (wake_sends_acc_in (rev (sendq X)) (sfs X) wk1) as K2.
  destruct (wake_sends (sfs X) (rev (sendq X)) wk1) as [sf' wk2]. cbn [fst snd] in *.
  unfold getr in H1. cbn [rfs] in H1. destruct (K H1) as [w [A B]]. exists w. split; auto.
Qed.

Local Ltac wtriv :=
  cbn [fst snd]; unfold getr; projs;
  try match goal with E : rfs _ = rfs _ |- _ => rewrite E end;
  let H0 := fresh "H0" in let H1 := fresh "H1" in
  intros H0 H1; exfalso;
  try (rewrite nth_upd in H1; destruct (_ && _)%bool; cbn [r_woken rabsent] in H1); congruence.

Local Ltac wnotify i :=
  match goal with
  | |- context [notify_oldest_recv ?X] =>
      let K := fresh "K" in let H0 := fresh "H0" in let H1 := fresh "H1" in
      pose proof (notify_woken X i) as K;
      destruct (notify_oldest_recv X) as [? ?]; cbn [fst snd mk_obs o_wake] in *;
      intros H0 H1; destruct (K H0 H1) as [?w [? ?]]; eexists; split; [eassumption|apply in_map; assumption]
  end.

Local Ltac wclose i :=
  match goal with
  | |- context [do_close ?X ?e] =>
      let K := fresh "K" in let H0 := fresh "H0" in let H1 := fresh "H1" in
      pose proof (do_close_woken X e i) as K;
      destruct (do_close X e) as [[? ?] ?]; cbn [fst snd mk_obs o_wake] in *;
      intros H0 H1; destruct (K H0 H1) as [?w [? ?]]; eexists; split; [eassumption|apply in_map; assumption]
  end.

Lemma step_woken_src s o i :
  r_woken (getr s i) = false -> r_woken (getr (fst (step s o)) i) = true ->
  exists w, r_task (getr s i) = Some w /\ In (nN w) (o_wake (snd (step s o))).
Proof.
  destruct o as [f v|f w|f|f|f|f w|f|v| | | | | | | | | |]; cbn [step]; cbv zeta.
  - wtriv.
  - (* PollSend *)
    destruct (negb (s_hp (gets s f))); [wtriv|].
    destruct (s_st (gets s f)); [|wtriv|wtriv].
    destruct (closed s); [destruct (s_val (gets s f)); wtriv|].
    destruct (negb (can_push s)).
    + destruct (memb f (sendq s)); [wtriv|]. wnotify i.
    + destruct (s_val (gets s f)); [|wtriv]. wnotify i.
  - (* CancelSend *)
    destruct (negb (s_hp (gets s f))); [wtriv|].
    destruct (match s_st (gets s f) with SReg => negb (memb f (sendq s)) | _ => false end); [wtriv|].
    destruct (s_val (gets s f)); wtriv.
  - (* DropSend *) destruct (_ && _)%bool; wtriv.
  - wtriv.
  - (* PollRecv *)
    destruct (negb (r_hp (getr s f))); [wtriv|].
    pose proof (rfs_try_receive s) as Er.
    destruct (r_st (getr s f)); [|wtriv|];
      destruct (try_receive s) as [[s1 ov] wk]; cbn [fst] in Er;
      (destruct ov; [wtriv|destruct (closed s); [wtriv|destruct (memb f (recvq s)); wtriv]]).
  - (* DropRecv *)
    destruct (r_hp (getr s f)); [|wtriv].
    destruct (r_st (getr s f)); [wtriv|destruct (memb f (recvq s)); wtriv|].
    match goal with
    | |- context [notify_oldest_recv ?X] =>
        pose proof (notify_woken X i) as K;
        destruct (notify_oldest_recv X) as [s' wk]; cbn [fst snd mk_obs o_wake] in *
    end.
    intros H0 H1. unfold getr in K at 1 3. cbn [rfs setr] in K. rewrite nth_upd in K.
    destruct (Nat.eqb f i && Nat.ltb i (length (rfs s)))%bool.
    + destruct (K eq_refl H1) as [w [A B]]. simpl in A. discriminate.
    + destruct (K H0 H1) as [w [A B]]. exists w. split; auto. apply in_map. auto.
  - (* TrySend *)
    destruct (closed s); [wtriv|]. destruct (can_push s); [wnotify i|wtriv].
  - (* TryRecv *)
    pose proof (rfs_try_receive s) as Er.
    destruct (try_receive s) as [[s1 ov] wk]; cbn [fst] in Er. destruct ov; wtriv.
  - wclose i.
  - wtriv.
  - wtriv.
  - wclose i.
  - wtriv.
  - wtriv.
  - wclose i.
  - wtriv.
  - cbn [fst]. unfold getr. cbn [rfs]. rewrite nth_map_const. intros; discriminate.
Qed.

(* ---- shape of the future tables after a step ---- *)
Definition rpre (s : state) (o : op) (res : list N) : list rfut :=
  match o with
  | CreateRecv f => upd f r_fresh (rfs s)
  | DropRecv f => upd f rabsent (rfs s)
  | PollRecv f w => upd f (if N.eqb (hd 99%N res) R_PENDING then r_park w else r_done (getr s f) w) (rfs s)
  | _ => rfs s
  end.

Definition rshape (s : state) (fs1 fs' : list rfut) : Prop :=
  length fs' = length fs1 /\
  forall f, nth f fs' rabsent = nth f fs1 rabsent \/
            (nth f fs1 rabsent = getr s f /\ r_st (getr s f) = RReg /\
             (nth f fs' rabsent = r_noti (getr s f) \/ nth f fs' rabsent = r_reset (getr s f))).

Definition spre (s : state) (o : op) (res : list N) : list sfut :=
  match o with
  | CreateSend f v => upd f (s_fresh v) (sfs s)
  | PollSend f w =>
      upd f (if N.eqb (hd 99%N res) R_PENDING then s_park (gets s f) w
             else match s_st (gets s f) with SComplete => s_fin (gets s f) w | _ => s_done (gets s f) w end) (sfs s)
  | CancelSend f => if s_hp (gets s f) then upd f (s_cancel (gets s f)) (sfs s) else sfs s
  | DropSend f => upd f sabsent (sfs s)
  | _ => sfs s
  end.

Definition sshape (s : state) (cl' : bool) (mv : list N) (gs1 gs' : list sfut) : Prop :=
  length gs' = length gs1 /\
  forall g, nth g gs' sabsent = nth g gs1 sabsent \/
            (nth g gs1 sabsent = gets s g /\ s_st (gets s g) = SReg /\
             ((nth g gs' sabsent = s_complete (gets s g) /\ (cap s = 0 -> In (s_tag (gets s g)) mv)) \/
              (nth g gs' sabsent = s_reset (gets s g) /\ cl' = true))).

Lemma rshape_refl s fs : rshape s fs fs.
Proof. split; auto. Qed.

Lemma sshape_refl s cl mv gs : sshape s cl mv gs gs.
Proof. split; auto. Qed.

Lemma rshape_notify s X :
  RInvP (closed s) (recvq s) (rfs s) -> recvq X = recvq s ->
  (forall g, In g (recvq s) -> getr X g = getr s g) ->
  rshape s (rfs X) (rfs (notify_st X)).
Proof.
  intros IR Eq Hs. destruct (notify_st_spec X) as [[_ E]|[g [Eo E]]]; rewrite E.
  - apply rshape_refl.
  - cbn [rfs setr]. rewrite Eq in Eo. assert (Hin : In g (recvq s)) by (apply olast_In; auto).
    split; [apply upd_length|]. intros f. rewrite nth_upd.
    destruct (Nat.eqb g f && Nat.ltb f (length (rfs X)))%bool eqn:Ec; [|left; auto].
    bool_hyps. subst g. right. rewrite (Hs f Hin). split; [apply (Hs f Hin)|].
    split; [apply (ri_in _ _ _ IR); auto|left; auto].
Qed.

Lemma sfs_notify X : sfs (notify_st X) = sfs X.
Proof. unfold notify_st, notify_oldest_recv. destruct (olast (recvq X)); reflexivity. Qed.

Lemma buf_notify X : buf (notify_st X) = buf X.
Proof. unfold notify_st, notify_oldest_recv. destruct (olast (recvq X)); reflexivity. Qed.

Lemma sendq_notify X : sendq (notify_st X) = sendq X.
Proof. unfold notify_st, notify_oldest_recv. destruct (olast (recvq X)); reflexivity. Qed.

Lemma rshape_close s e X :
  RInvP (closed s) (recvq s) (rfs s) -> rfs X = rfs s -> recvq X = recvq s ->
  rshape s (rfs s) (rfs (close_if X e)).
Proof.
  intros IR E1 E2. unfold close_if. destruct (closed X); [rewrite E1; apply rshape_refl|].
  cbn [rfs close_state]. rewrite E1, E2. split; [apply resetR_length|]. intros f.
  rewrite resetR_nth by (apply NoDup_rev, (ri_nd _ _ _ IR)).
  destruct (memb f (rev (recvq s))) eqn:Em; [|left; auto].
  apply memb_In in Em. rewrite <- in_rev in Em. apply (ri_in _ _ _ IR) in Em.
  right. split; auto.
Qed.

Lemma sshape_close s e mv X :
  SInvP (closed s) (cap s) (buf s) (sendq s) (sfs s) -> sfs X = sfs s -> sendq X = sendq s ->
  sshape s (closed (close_if X e)) mv (sfs s) (sfs (close_if X e)).
Proof.
  intros IS E1 E2. rewrite closed_close_if. unfold close_if. destruct (closed X); [rewrite E1; apply sshape_refl|].
  cbn [sfs close_state]. rewrite E1, E2. split; [apply resetS_length|]. intros g.
  rewrite resetS_nth by (apply NoDup_rev, (si_nd _ _ _ _ _ IS)).
  destruct (memb g (rev (sendq s))) eqn:Em; [|left; auto].
  apply memb_In in Em. rewrite <- in_rev in Em. apply (si_in _ _ _ _ _ IS) in Em.
  right. split; auto.
Qed.

Lemma sshape_rcv s s1 v cl : Inv s -> rcv_out s s1 (Some v) -> sshape s cl [v] (sfs s) (sfs s1).
Proof.
  intros [IR IS IH] O.
  inversion O as [v0 rest Eb Eq|v0 rest g x Eb Eo Ev|g x Eb Eo Ev|]; subst; projs; try apply sshape_refl.
  all: assert (Hin : In g (sendq s)) by (apply olast_In; auto);
    pose proof Hin as Hst; apply (si_in _ _ _ _ _ IS) in Hst;
    split; [apply upd_length|]; intros h; rewrite nth_upd;
    destruct (Nat.eqb g h && Nat.ltb h (length (sfs s)))%bool eqn:Ec; [|left; auto];
    bool_hyps; subst h; right; split; auto; split; auto; left; split; auto; intros Hc.
  - exfalso. pose proof (si_len _ _ _ _ _ IS) as L. rewrite Eb, Hc in L. simpl in L. lia.
  - left. apply (so_tag _ _ (si_ok _ _ _ _ _ IS g) v). auto.
Qed.

Lemma out_shape s o s' res vals : Inv s -> legal s o = true -> out s o s' res vals -> o <> Teardown ->
  rshape s (rpre s o res) (rfs s') /\
  sshape s (closed s') (map snd (pairs vals)) (spre s o res) (sfs s').
Proof.
  intros I Hl O Hnt. pose proof I as [IR IS IH].
  unfold legal in Hl. apply andb_true_iff in Hl. destruct Hl as [Hg Hl].
  destruct O; cbn [rpre spre hd]; neval; cbv iota; try rewrite sfs_notify; projs;
    try (split; [apply rshape_refl|apply sshape_refl]).
  - (* PollSend closed *) rewrite H0. split; [apply rshape_refl|apply sshape_refl].
  - (* PollSend park *) split; [|apply sshape_refl]. match goal with |- rshape _ _ (rfs (notify_st ?X)) => apply (rshape_notify s X) end; auto.
  - (* PollSend push *) rewrite H0. split; [|apply sshape_refl]. match goal with |- rshape _ _ (rfs (notify_st ?X)) => apply (rshape_notify s X) end; auto.
  - (* PollSend SComplete *) rewrite H. split; [apply rshape_refl|apply sshape_refl].
  - (* CancelSend nohp *) rewrite H. split; [apply rshape_refl|apply sshape_refl].
  - (* CancelSend *) rewrite H. split; [apply rshape_refl|apply sshape_refl].
  - (* PollRecv got *)
    destruct (rcv_frame _ _ _ H0) as (E1 & E2 & E3 & _). rewrite E2, E3.
    split; [apply rshape_refl|apply sshape_rcv; auto].
  - (* DropRecv notified *) split; [|apply sshape_refl].
    apply (rshape_notify s (setr s (recvq s) (upd f rabsent (rfs s)))); auto.
    intros g Hin. unfold getr. projs. apply nth_upd_other.
    intros ->. apply (ri_in _ _ _ IR) in Hin. unfold getr in H. congruence.
  - (* TrySend push *) split; [|apply sshape_refl]. match goal with |- rshape _ _ (rfs (notify_st ?X)) => apply (rshape_notify s X) end; auto.
  - (* TryRecv got *)
    destruct (rcv_frame _ _ _ H) as (E1 & E2 & E3 & _). rewrite E2, E3.
    split; [apply rshape_refl|apply sshape_rcv; auto].
  - (* Close *) split; [apply rshape_close; auto|apply sshape_close; auto].
  - (* DropSenderClose *)
    split; [apply (rshape_close s false (cnt_s s (senders s) (pred (pend_sclose s)))); auto
           |apply (sshape_close s false _ (cnt_s s (senders s) (pred (pend_sclose s)))); auto].
  - (* DropReceiverClose *)
    split; [apply (rshape_close s false (cnt_r s (receivers s) (pred (pend_rclose s)) (S (pend_clear s)))); auto
           |apply (sshape_close s false _ (cnt_r s (receivers s) (pred (pend_rclose s)) (S (pend_clear s)))); auto].
  - (* Teardown *) congruence.
Qed.

(* ---- the link between the model state and the monitor state ---- *)
Definition pw (x : rfut) : option N := if pendingR x then option_map nN (r_lastw x) else None.
Definition sa (y : sfut) : option N := if (s_alive y && s_hp y)%bool then Some (s_tag y) else None.

Definition PR (pend : list (option N * bool)) (fs : list rfut) : Prop :=
  length pend = length fs /\
  forall f, fst (nth f pend dpend) = pw (nth f fs rabsent) /\
            (pendingR (nth f fs rabsent) = true -> r_woken (nth f fs rabsent) = true ->
             snd (nth f pend dpend) = true).

Definition PS (stag : list (option N)) (gs : list sfut) : Prop :=
  length stag = length gs /\ forall g t, sa (nth g gs sabsent) = Some t -> nth g stag None = Some t.

Definition PK (ok : Prop) (parked : list bool) (gs : list sfut) : Prop :=
  length parked = length gs /\
  (ok -> forall g, nth g parked false = true -> s_st (nth g gs sabsent) = SReg).

Record ML (s : state) (m : rmon) : Prop := {
  ml_r : PR (rm_pend m) (rfs s);
  ml_s : PS (rm_stag m) (sfs s);
  ml_k : PK (cap s = 0 /\ closed s = false) (rm_parked m) (sfs s)
}.

Lemma PR_upd pend fs f a x :
  PR pend fs -> fst a = pw x -> (pendingR x = true -> r_woken x = true -> snd a = true) ->
  PR (upd f a pend) (upd f x fs).
Proof.
  intros [L H] Ha Hb. split; [rewrite !upd_length; auto|].
  intros g. rewrite !nth_upd, L. destruct (_ && _)%bool; auto.
Qed.

Lemma PS_upd stag gs f a y :
  PS stag gs -> (forall t, sa y = Some t -> a = Some t) -> PS (upd f a stag) (upd f y gs).
Proof.
  intros [L H] Ha. split; [rewrite !upd_length; auto|].
  intros g t. rewrite !nth_upd, L. destruct (_ && _)%bool; auto.
Qed.

Lemma PS_upd_r stag gs f y :
  PS stag gs -> (forall t, sa y = Some t -> sa (nth f gs sabsent) = Some t) -> PS stag (upd f y gs).
Proof.
  intros [L H] Ha. split; [rewrite upd_length; auto|].
  intros g t. rewrite nth_upd. destruct (Nat.eqb f g && Nat.ltb g (length gs))%bool eqn:Ec; auto.
  bool_hyps. subst g. intros Ht. apply H. auto.
Qed.

Lemma PS_upd_l stag gs f : PS stag gs -> sa (nth f gs sabsent) = None -> PS (upd f None stag) gs.
Proof.
  intros [L H] Ha. split; [rewrite upd_length; auto|].
  intros g t Ht. rewrite nth_upd. destruct (Nat.eqb f g && Nat.ltb g (length stag))%bool eqn:Ec; auto.
  bool_hyps. subst g. congruence.
Qed.

Lemma PK_upd ok parked gs f b y :
  PK ok parked gs -> (b = true -> s_st y = SReg) -> PK ok (upd f b parked) (upd f y gs).
Proof.
  intros [L H] Hb. split; [rewrite !upd_length; auto|].
  intros Hok g. rewrite !nth_upd, L. destruct (_ && _)%bool; auto.
Qed.

Lemma PK_upd_l ok parked gs f : PK ok parked gs -> PK ok (upd f false parked) gs.
Proof.
  intros [L H]. split; [rewrite upd_length; auto|].
  intros Hok g. rewrite nth_upd. destruct (_ && _)%bool; auto. discriminate.
Qed.

Lemma out_nopanic s o s' res vals : out s o s' res vals -> N.eqb (hd 99%N res) R_PANIC = false.
Proof.
  intros O. destruct O; try reflexivity; try (destruct (s_val _); reflexivity);
    try (destruct (closed s); reflexivity); destruct (Nat.eqb _ _); reflexivity.
Qed.

Lemma ml_pre s m o res : Inv s -> legal s o = true -> N.eqb (hd 99%N res) R_PANIC = false -> ML s m ->
  PR (rm_pend (rm_pre m o res)) (rpre s o res) /\
  PS (rm_stag (rm_pre m o res)) (spre s o res) /\
  PK (cap s = 0 /\ closed s = false) (rm_parked (rm_pre m o res)) (spre s o res).
Proof.
  intros I Hl Hnp [MR MS MK].
  unfold legal in Hl. apply andb_true_iff in Hl. destruct Hl as [Hg Hl].
  destruct o; cbn [rm_pre rpre spre]; rewrite ?Hnp; cbv iota; cbn [rm_pend rm_stag rm_parked]; auto.
  - (* CreateSend *) split; auto. split.
    + apply PS_upd; auto; try (simpl; congruence).
    + apply PK_upd; auto; try discriminate.
  - (* PollSend *) bool_hyps. split; auto. split.
    + apply PS_upd_r; auto. destruct (N.eqb (hd 99%N res) R_PENDING).
      * intros t Ht. simpl in Ht. unfold sa. fold (gets s f). rewrite H, H0. exact Ht.
      * destruct (s_st (gets s f)); simpl; discriminate.
    + apply PK_upd; auto. destruct (N.eqb (hd 99%N res) R_PENDING); [reflexivity|discriminate].
  - (* CancelSend *) split; auto. destruct (s_hp (gets s f)) eqn:Hhp.
    + split; [apply PS_upd; auto; simpl; discriminate|apply PK_upd; auto; discriminate].
    + split; [apply PS_upd_l; auto|apply PK_upd_l; auto].
      unfold sa. fold (gets s f). rewrite Hhp, andb_false_r. reflexivity.
  - (* DropSend *) split; auto.
    split; [apply PS_upd; auto; simpl; discriminate|apply PK_upd; auto; discriminate].
  - (* CreateRecv *) split; auto. apply PR_upd; auto; try discriminate.
  - (* PollRecv *) destruct (N.eqb (hd 99%N res) R_PENDING); cbn [rm_pend rm_stag rm_parked];
      (split; [apply PR_upd; auto; try discriminate|auto]).
  - (* DropRecv *) split; auto. apply PR_upd; auto; try discriminate.
Qed.

Lemma rm_wake_nth wakes pend f : nth f (map (rm_wake wakes) pend) dpend = rm_wake wakes (nth f pend dpend).
Proof. change dpend with (rm_wake wakes dpend) at 1. apply map_nth. Qed.

Lemma pr_wake s pend1 fs1 fs' wakes :
  RInvP (closed s) (recvq s) (rfs s) -> PR pend1 fs1 -> rshape s fs1 fs' ->
  (forall f, r_woken (getr s f) = false -> r_woken (nth f fs' rabsent) = true ->
             exists w, r_task (getr s f) = Some w /\ In (nN w) wakes) ->
  PR (map (rm_wake wakes) pend1) fs'.
Proof.
  intros IR [L P] [L' Sh] Hw. split; [rewrite map_length; congruence|].
  intros f. rewrite rm_wake_nth. destruct (P f) as [P1 P2]. destruct (Sh f) as [E|(E1 & Est & E)].
  - rewrite E. destruct (nth f pend1 dpend) as [[w|] b]; simpl in *; split; auto.
    intros A B. rewrite (P2 A B). reflexivity.
  - assert (Epw : pw (nth f fs' rabsent) = pw (getr s f)) by (destruct E as [E|E]; rewrite E; reflexivity).
    assert (Epd : pendingR (nth f fs' rabsent) = pendingR (getr s f))
      by (destruct E as [E|E]; rewrite E; reflexivity).
    rewrite E1 in *. split.
    + rewrite Epw, <- P1. destruct (nth f pend1 dpend) as [[w|] b]; reflexivity.
    + intros A B. rewrite Epd in A. destruct (r_woken (getr s f)) eqn:Ew.
      * specialize (P2 A eq_refl). destruct (nth f pend1 dpend) as [[w|] b]; simpl in *; auto.
        rewrite P2. reflexivity.
      * destruct (Hw f Ew B) as [w [Ht Hin]].
        destruct (ri_reg _ _ _ IR f Est) as (_ & _ & Etl & _). fold (getr s f) in Etl.
        assert (Hp : pw (getr s f) = Some (nN w)).
        { unfold pw. rewrite A. rewrite <- Etl, Ht. reflexivity. }
        rewrite Hp in P1. destruct (nth f pend1 dpend) as [[w'|] b]; simpl in *; [|discriminate].
        inv P1. apply memN_In in Hin. rewrite Hin. apply orb_true_r.
Qed.

Lemma ps_shape s cl mv stag1 gs1 gs' : PS stag1 gs1 -> sshape s cl mv gs1 gs' -> PS stag1 gs'.
Proof.
  intros [L P] [L' Sh]. split; [congruence|]. intros g t Ht. apply P.
  destruct (Sh g) as [E|(E1 & _ & [[E _]|[E _]])].
  - rewrite <- E. auto.
  - rewrite E1. rewrite E in Ht. exact Ht.
  - rewrite E1. rewrite E in Ht. exact Ht.
Qed.

Lemma unpark_nth mv : forall stag parked g,
  nth g (unpark mv stag parked) false = true ->
  nth g parked false = true /\ exists v, nth g stag None = Some v /\ memN v mv = false.
Proof.
  unfold unpark. induction stag as [|a st IH]; intros parked g; destruct parked as [|b pk]; destruct g as [|g];
    simpl; try discriminate.
  - destruct a as [v|]; [|discriminate]. intros H. apply andb_true_iff in H. destruct H as [H1 H2].
    apply negb_true_iff in H2. split; auto. exists v. auto.
  - apply IH.
Qed.

Lemma unpark_length mv stag parked : length (unpark mv stag parked) = Nat.min (length stag) (length parked).
Proof. unfold unpark. rewrite map_length. apply combine_length. Qed.

Lemma pk_shape s cl' mv stag1 parked1 gs1 gs' :
  SInvP (closed s) (cap s) (buf s) (sendq s) (sfs s) ->
  PS stag1 gs1 -> PK (cap s = 0 /\ closed s = false) parked1 gs1 -> sshape s cl' mv gs1 gs' ->
  (closed s = true -> cl' = true) ->
  PK (cap s = 0 /\ cl' = false) (unpark mv stag1 parked1) gs'.
Proof.
  intros IS [Ls P] [Lk K] [L' Sh] Hmono. split.
  - rewrite unpark_length, Ls, Lk, L'. apply Nat.min_id.
  - intros [Hc Hcl] g Hp. apply unpark_nth in Hp. destruct Hp as [Hp [v [Hv Hm]]].
    assert (Hcs : closed s = false) by (destruct (closed s); auto; specialize (Hmono eq_refl); congruence).
    specialize (K (conj Hc Hcs) g Hp).
    destruct (Sh g) as [E|(E1 & Est & [[E Hin]|[E Hcl2]])].
    + rewrite E. auto.
    + exfalso. specialize (Hin Hc).
      destruct (so_reg _ _ (si_ok _ _ _ _ _ IS g) Est) as (Ha & Hh & _). fold (gets s g) in Ha, Hh.
      assert (Hsa : sa (nth g gs1 sabsent) = Some (s_tag (gets s g))).
      { rewrite E1. unfold sa. rewrite Ha, Hh. reflexivity. }
      apply P in Hsa. rewrite Hsa in Hv. inv Hv. apply memN_In in Hin. congruence.
    + congruence.
Qed.

Lemma ml_step s m o : Inv s -> legal s o = true -> o <> Teardown -> ML s m ->
  ML (fst (step s o)) (rmon_step (cap s) m (o, snd (step s o))).
Proof.
  intros I Hl Hnt M. pose proof (step_out s o I Hl) as O.
  pose proof (out_nopanic _ _ _ _ _ O) as Hnp.
  destruct (ml_pre s m o _ I Hl Hnp M) as (P1 & P2 & P3).
  destruct (out_shape _ _ _ _ _ I Hl O Hnt) as [Sr Ss].
  rewrite rmon_step_eq. cbv zeta. constructor; cbn [rm_pend rm_stag rm_parked].
  - eapply pr_wake; eauto; [apply I|]. intros f. apply step_woken_src.
  - eapply ps_shape; eauto.
  - rewrite (cap_out _ _ _ _ _ O). eapply pk_shape; eauto; [apply I|].
    intros Hc. apply closed_monotone; auto.
Qed.

(* ---- the monitor's check is [recv_woken] ---- *)
Lemma recv_woken_inv s : Inv s -> WInv s -> 0 < available s ->
  (exists f, pendingR (getr s f) = true) ->
  exists g, pendingR (getr s g) = true /\ r_woken (getr s g) = true.
Proof.
  intros [IR IS IH] [Wc Wr Ws] Hav [f Hp].
  destruct (recvq s) as [|h t] eqn:Eq.
  - exists f. split; auto. apply (Wr f); auto.
    intros Hst. apply (ri_in _ _ _ IR) in Hst. destruct Hst.
  - assert (Hn : 0 < nnoti (rfs s)).
    { pose proof (available_le s). assert (Hne : h :: t <> []) by discriminate. specialize (Wc Hne). lia. }
    destruct (nnoti_pos _ Hn) as [g Hg]. exists g. destruct (Wr g) as [A B]. unfold getr.
    split; auto. apply B; auto. congruence.
Qed.

Lemma check_ok s pend parked : Inv s -> WInv s -> PR pend (rfs s) ->
  PK (cap s = 0 /\ closed s = false) parked (sfs s) ->
  negb (rm_avail (cap s) [bN (closed s); nN (length (buf s))] parked && some_pending pend) || some_woken pend = true.
Proof.
  intros I W [Lp P] [Lk K]. pose proof I as [IR IS IH].
  destruct (rm_avail _ _ _) eqn:Ea; [|reflexivity].
  destruct (some_pending pend) eqn:Ep; [|reflexivity]. cbn [andb negb orb].
  (* a value is available *)
  assert (Hav : 0 < available s).
  { unfold rm_avail in Ea. cbn [nth] in Ea. unfold available. apply orb_true_iff in Ea. destruct Ea as [Ea|Ea].
    - pose proof (si_len _ _ _ _ _ IS) as L.
      destruct (buf s) as [|v r]; [vm_compute in Ea; discriminate|].
      destruct (cap s); simpl in *; lia.
    - bool_hyps. rewrite H. destruct (closed s); [vm_compute in H1; discriminate|].
      apply existsb_exists in H0. destruct H0 as [b [Hin Hb]]. subst b.
      apply (In_nth _ _ false) in Hin. destruct Hin as [g [_ Hg]].
      specialize (K (conj H eq_refl) g Hg). apply (si_in _ _ _ _ _ IS) in K.
      destruct (sendq s); [destruct K|simpl; lia]. }
  (* somebody is pending *)
  assert (Hpe : exists f, pendingR (getr s f) = true).
  { unfold some_pending in Ep. apply existsb_exists in Ep. destruct Ep as [x [Hin Hx]].
    apply (In_nth _ _ dpend) in Hin. destruct Hin as [f [_ Hf]]. exists f.
    destruct (P f) as [P1 _]. rewrite Hf in P1. unfold pw in P1. unfold getr.
    destruct (pendingR (nth f (rfs s) rabsent)); auto. rewrite P1 in Hx. discriminate. }
  destruct (recv_woken_inv s I W Hav Hpe) as [g [Hg1 Hg2]].
  destruct (P g) as [P1 P2]. specialize (P2 Hg1 Hg2).
  unfold pw in P1. fold (getr s g) in P1. rewrite Hg1 in P1.
  assert (Hl : exists w, r_lastw (getr s g) = Some w).
  { unfold pendingR in Hg1. destruct (r_lastw (getr s g)); eauto. rewrite andb_false_r in Hg1. discriminate. }
  destruct Hl as [w Hl]. rewrite Hl in P1. simpl in P1.
  unfold some_woken. apply existsb_exists. exists (nth g pend dpend). split.
  - apply nth_In. destruct (Nat.lt_ge_cases g (length pend)) as [|Hge]; auto.
    rewrite nth_overflow in P1 by auto. discriminate.
  - destruct (nth g pend dpend) as [[w'|] b]; simpl in *; subst; auto. discriminate.
Qed.

Lemma gone_teardown s : gone (fst (step s Teardown)) = true.
Proof. reflexivity. Qed.

Lemma mon_run c : forall ops s m,
  Inv s -> WInv s -> cap s = c -> ML s m -> legal_run s ops -> rm_good m = true ->
  rm_good (fold_left (rmon_step c) (trace s ops) m) = true.
Proof.
  induction ops as [|o r IH]; intros s m I W Hc M Hr Hg; cbn [trace fold_left legal_run] in *; auto.
  destruct Hr as [Hl Hr]. subst c.
  assert (Hdec : o = Teardown \/ o <> Teardown) by (destruct o; auto; right; discriminate).
  destruct Hdec as [->|Hnt].
  - destruct r as [|o' r'].
    + cbn [trace fold_left]. rewrite rmon_step_eq. cbv zeta. cbn [rm_good]. rewrite rm_pre_good. auto.
    + exfalso. cbn [legal_run] in Hr. destruct Hr as [Hl' _]. unfold legal in Hl'.
      rewrite gone_teardown in Hl'. discriminate.
  - pose proof (inv_step s o I Hl) as I'. pose proof (winv_step s o I W Hl) as W'.
    pose proof (ml_step s m o I Hl Hnt M) as M'.
    pose proof (step_out s o I Hl) as O.
    apply IH with (s := fst (step s o)); auto.
    + eapply cap_out; eauto.
    + destruct M' as [MR' _ MK']. rewrite rmon_step_eq in MR', MK'. cbv zeta in MR', MK'.
      cbn [rm_pend rm_parked] in MR', MK'.
      rewrite rmon_step_eq. cbv zeta. cbn [rm_good]. rewrite rm_pre_good, Hg. cbn [andb].
      rewrite (step_probe s o Hnt). rewrite <- (cap_out _ _ _ _ _ O).
      assert (G := check_ok _ _ _ I' W' MR' MK').
      destruct o; try exact G. congruence.
Qed.

Lemma ml_init kr ks c : ML (init kr ks c) (mkRmon (repeat (None, false) kr) (repeat None ks) (repeat false ks) true).
Proof.
  constructor; cbn [rm_pend rm_stag rm_parked init rfs sfs cap closed].
  - split; [rewrite !repeat_length; auto|]. intros f. rewrite !nth_repeat_same.
    split; [reflexivity|discriminate].
  - split; [rewrite !repeat_length; auto|]. intros g t. rewrite nth_repeat_same. discriminate.
  - split; [rewrite !repeat_length; auto|]. intros _ g. rewrite nth_repeat_same. discriminate.
Qed.

Theorem recv_woken_trace : forall kr ks c ops,
  legal_run (init kr ks c) ops -> private_wakers ops ->
  recv_wakeup_ok kr ks c (trace (init kr ks c) ops) = true.
Proof.
  intros kr ks c ops Hr _. unfold recv_wakeup_ok.
  apply mon_run; auto.
  - apply inv_init.
  - apply winv_init.
  - apply ml_init.
Qed.
