(* C11 on the encoded trace: the handle-lifecycle monitor [handles_ok] (without an explicit
   close the channel is closed exactly when one side has no handle left; once the last
   receiver handle is gone nothing stays buffered) holds for every contract-respecting run
   of whole calls. *)
From FI Require Import Base Mpmc MpmcSpec MpmcProofs MpmcWakeProofs MpmcCloseProofs.

Local Ltac inv H := inversion H; subst; clear H.

Local Ltac bool_hyps :=
  repeat match goal with
  | H : (_ && _)%bool = true |- _ => apply andb_true_iff in H; destruct H
  | H : negb _ = true |- _ => apply negb_true_iff in H
  | H : negb _ = false |- _ => apply negb_false_iff in H
  | H : Nat.ltb _ _ = true |- _ => apply Nat.ltb_lt in H
  | H : Nat.eqb _ _ = true |- _ => apply Nat.eqb_eq in H
  | H : Nat.eqb _ _ = false |- _ => apply Nat.eqb_neq in H
  end.

Local Ltac projs :=
  cbn [closed cap buf recvq sendq rfs sfs senders receivers pend_sclose pend_rclose pend_clear explicit gone
       setr sets setbuf setcounts cnt_s cnt_r close_state teardown_state].

(* ------------------------------------------------------------------ *)
(* handle counters of a state, and how one section moves them *)
Definition hv := (nat * nat * nat * nat * nat * bool)%type.

Definition hsum (s : state) : hv :=
  (senders s, receivers s, pend_sclose s, pend_rclose s, pend_clear s, gone s).

Definition hnext (o : op) (h : hv) : hv :=
  let '(sn, rn, ps, pr, pc, g) := h in
  match o with
  | CloneSender => (S sn, rn, ps, pr, pc, g)
  | DropSenderDec => (pred sn, rn, (if Nat.eqb sn 1 then S ps else ps), pr, pc, g)
  | DropSenderClose => (sn, rn, pred ps, pr, pc, g)
  | CloneReceiver => (sn, S rn, ps, pr, pc, g)
  | DropReceiverDec => (sn, pred rn, ps, (if Nat.eqb rn 1 then S pr else pr), pc, g)
  | DropReceiverClose => (sn, rn, ps, pred pr, S pc, g)
  | DropReceiverClear => (sn, rn, ps, pr, pred pc, g)
  | Teardown => (0, 0, 0, 0, 0, true)
  | _ => h
  end.

Lemma hv_inj (a b c d e : nat) (f : bool) a' b' c' d' e' f' :
  (a, b, c, d, e, f) = (a', b', c', d', e', f') ->
  a = a' /\ b = b' /\ c = c' /\ d = d' /\ e = e' /\ f = f'.
Proof. intros H. inversion H. repeat split; reflexivity. Qed.

Lemma hsum_notify s : hsum (notify_st s) = hsum s /\ explicit (notify_st s) = explicit s.
Proof. unfold notify_st, notify_oldest_recv. destruct (olast (recvq s)); split; reflexivity. Qed.

Lemma hsum_close_if s e :
  hsum (close_if s e) = hsum s /\ (e = false -> explicit (close_if s e) = explicit s).
Proof.
  unfold close_if. destruct (closed s); split; try reflexivity.
  intros ->. unfold close_state; projs. apply orb_false_r.
Qed.

Lemma hsum_rcv s s1 ov : rcv_out s s1 ov -> hsum s1 = hsum s /\ explicit s1 = explicit s.
Proof. intros O. destruct O; split; reflexivity. Qed.

Lemma hsum_out s o s' res vals : out s o s' res vals ->
  hsum s' = hnext o (hsum s) /\ (o <> Close -> explicit s' = explicit s).
Proof.
  intros O.
  destruct O;
    repeat match goal with
    | |- context [notify_st ?x] =>
        let A := fresh "A" in let B := fresh "B" in
        destruct (hsum_notify x) as [A B]; rewrite A, B; clear A B
    | |- context [close_if ?x false] =>
        let A := fresh "A" in let B := fresh "B" in
        destruct (hsum_close_if x false) as [A B]; rewrite A, (B eq_refl); clear A B
    | |- context [close_if ?x true] =>
        let A := fresh "A" in let B := fresh "B" in
        destruct (hsum_close_if x true) as [A B]; rewrite A; clear A B
    | H : rcv_out _ ?x _ |- _ =>
        let A := fresh "A" in let B := fresh "B" in
        destruct (hsum_rcv _ _ _ H) as [A B]; clear H
    end;
    try (split; [reflexivity|intros _; reflexivity]).
  - (* PollRecv got *) split; [exact A|intros _; exact B].
  - (* TryRecv got *) split; [exact A|intros _; exact B].
  - (* Close *) split; [reflexivity|intros H; congruence].
Qed.

Lemma sec_step s o : Inv s -> legal s o = true ->
  hsum (fst (step s o)) = hnext o (hsum s) /\ (o <> Close -> explicit (fst (step s o)) = explicit s).
Proof. intros I Hl. eapply hsum_out. apply step_out; auto. Qed.

(* ------------------------------------------------------------------ *)
(* the monitor step in normal form, by the kind of the encoded operation *)
Inductive hk := HClose | HCloneS | HDropS | HCloneR | HDropR | HStream | HTeardown | HOther.

Definition hkind (l : list N) : hk :=
  match l with
  | [9%N] => HClose
  | [10%N] => HCloneS
  | [14%N] => HDropS
  | [13%N] => HCloneR
  | [16%N] => HDropR
  | [32%N; _] => HStream
  | [20%N] => HTeardown
  | _ => HOther
  end.

Definition ohkind (o : op) : hk :=
  match o with
  | Close => HClose
  | CloneSender => HCloneS
  | CloneReceiver => HCloneR
  | Teardown => HTeardown
  | _ => HOther
  end.

Definition hpre (m : hmon) (k : hk) : hmon :=
  match k with
  | HClose => mkHmon (h_senders m) (h_receivers m) true (h_good m)
  | HCloneS => mkHmon (S (h_senders m)) (h_receivers m) (h_explicit m) (h_good m)
  | HDropS => mkHmon (pred (h_senders m)) (h_receivers m) (h_explicit m) (h_good m)
  | HCloneR => mkHmon (h_senders m) (S (h_receivers m)) (h_explicit m) (h_good m)
  | HDropR | HStream => mkHmon (h_senders m) (pred (h_receivers m)) (h_explicit m) (h_good m)
  | _ => m
  end.

Definition hchk_a (m1 : hmon) (p : list N) : bool :=
  h_explicit m1 ||
  Bool.eqb (negb (N.eqb (nth 0 p 0%N) 0)) (Nat.eqb (h_senders m1) 0 || Nat.eqb (h_receivers m1) 0).

Definition hchk_b (m1 : hmon) (p : list N) : bool :=
  negb (Nat.eqb (h_receivers m1) 0) || N.eqb (nth 1 p 0%N) 0.

Definition hmon_k (m : hmon) (k : hk) (ob : obs) : hmon :=
  let m1 := hpre m k in
  match k with
  | HTeardown => m1
  | _ => mkHmon (h_senders m1) (h_receivers m1) (h_explicit m1)
                (h_good m1 && hchk_a m1 (o_probe ob) && hchk_b m1 (o_probe ob))
  end.

(* case analysis of an encoded operation: list shape, and the code up to 6 bits *)
Local Ltac dpos a := destruct a as [|a]; [| do 6 (try destruct a as [a|a|]) ].
Local Ltac dlist l :=
  let a := fresh "a" in let b := fresh "b" in let c := fresh "c" in let d := fresh "d" in
  let r := fresh "r" in
  destruct l as [|a [|b [|c [|d r]]]]; try dpos a.

Lemma hmon_step_kind m l ob : hmon_step true m (l, ob) = hmon_k m (hkind l) ob.
Proof. dlist l; reflexivity. Qed.

Lemma decode_hkind l o : decode l = Some o -> hkind l = ohkind o.
Proof.
  unfold decode. intros H.
  repeat match type of H with
  | match ?x with _ => _ end = Some _ => destruct x; try discriminate H
  end.
  all: inv H; reflexivity.
Qed.

(* ------------------------------------------------------------------ *)
(* the monitor state against the model state, between whole calls *)
Record HI (m : hmon) (s : state) : Prop := {
  hi_s : h_senders m = senders s;
  hi_r : h_receivers m = receivers s;
  hi_e : h_explicit m = false -> explicit s = false;
  hi_ps : pend_sclose s = 0;
  hi_pr : pend_rclose s = 0;
  hi_pc : pend_clear s = 0;
  hi_g : gone s = false
}.

Lemma hi_init kr ks c : HI (mkHmon 1 1 false true) (init kr ks c).
Proof. constructor; reflexivity. Qed.

Lemma bN_probe b : negb (N.eqb (bN b) 0) = b.
Proof. destruct b; reflexivity. Qed.

Lemma nN_zero n : N.eqb (nN n) 0 = Nat.eqb n 0.
Proof. destruct n; [reflexivity|]. unfold nN. rewrite Nat2N.inj_succ. destruct (N.of_nat n); reflexivity. Qed.

(* both conditions checked after a call *)
Lemma check_ok kr ks c s m : Reach kr ks c s -> HI m s ->
  hchk_a m [bN (closed s); nN (length (buf s))] = true /\
  hchk_b m [bN (closed s); nN (length (buf s))] = true.
Proof.
  intros R [Hs Hr He Hps Hpr Hpc Hg].
  pose proof (last_receiver_clears kr ks c s R) as [LC _].
  unfold hchk_a, hchk_b. cbn [nth]. rewrite bN_probe, nN_zero, Hs, Hr. split.
  - destruct (h_explicit m) eqn:Ee; [reflexivity|]. cbn [orb].
    destruct (implicit_close kr ks c s R (He eq_refl) Hg) as (I1 & I2 & I3).
    destruct (closed s) eqn:Ec.
    + destruct (I1 eq_refl) as [E|E]; rewrite E; cbn [Nat.eqb orb]; [reflexivity|].
      rewrite orb_true_r. reflexivity.
    + destruct (Nat.eqb (senders s) 0) eqn:E1; bool_hyps.
      * pose proof (I2 E1 Hps) as Ht. congruence.
      * destruct (Nat.eqb (receivers s) 0) eqn:E2; bool_hyps; [|reflexivity].
        pose proof (I3 E2 Hpr) as Ht. congruence.
  - destruct (Nat.eqb (receivers s) 0) eqn:E2; [|reflexivity]. bool_hyps.
    rewrite (LC E2 Hpr Hpc). reflexivity.
Qed.

Lemma hstep_fin kr ks c m k ob s' : k <> HTeardown -> Reach kr ks c s' -> HI (hpre m k) s' ->
  o_probe ob = [bN (closed s'); nN (length (buf s'))] ->
  h_good (hmon_k m k ob) = h_good m /\ HI (hmon_k m k ob) s'.
Proof.
  intros Hk R H P. destruct (check_ok kr ks c s' _ R H) as [A B].
  assert (G : h_good (hpre m k) = h_good m) by (destruct k; reflexivity).
  assert (E : hmon_k m k ob =
              mkHmon (h_senders (hpre m k)) (h_receivers (hpre m k)) (h_explicit (hpre m k))
                     (h_good (hpre m k) && hchk_a (hpre m k) (o_probe ob) && hchk_b (hpre m k) (o_probe ob)))
    by (destruct k; try reflexivity; congruence).
  rewrite E, P, A, B, G. cbn [h_good]. split; [rewrite !andb_true_r; reflexivity|].
  destruct H as [Hs Hr He Hps Hpr Hpc Hg]. constructor; cbn [h_senders h_receivers h_explicit]; assumption.
Qed.

(* ------------------------------------------------------------------ *)
(* whole-call handle drops *)
Lemma drop_sender_h kr ks c s : Reach kr ks c s -> legal s DropSenderDec = true -> pend_sclose s = 0 ->
  Reach kr ks c (fst (drop_sender s)) /\
  hsum (fst (drop_sender s)) = (pred (senders s), receivers s, 0, pend_rclose s, pend_clear s, gone s) /\
  explicit (fst (drop_sender s)) = explicit s /\
  o_probe (snd (drop_sender s)) =
    [bN (closed (fst (drop_sender s))); nN (length (buf (fst (drop_sender s))))].
Proof.
  intros R Hl Hps. pose proof (reach_inv _ _ _ _ R) as I.
  pose proof (reach_step _ _ _ _ _ R Hl) as R1.
  destruct (sec_step s _ I Hl) as [S1 X1].
  assert (N1 : DropSenderDec <> Teardown) by discriminate.
  assert (C1 : DropSenderDec <> Close) by discriminate.
  pose proof (step_probe s _ N1) as P1. specialize (X1 C1).
  pose proof (legal_not_gone _ _ Hl) as Hg.
  unfold drop_sender. rewrite (step_c_legal _ _ Hl).
  destruct (step s DropSenderDec) as [s1 o1] eqn:E1. cbn [fst snd] in *.
  unfold hsum in S1 at 2. cbn [hnext] in S1. rewrite Hps in S1.
  assert (S1' := S1). unfold hsum in S1'. apply hv_inj in S1'. destruct S1' as (_ & _ & Eps & _ & _ & Eg).
  destruct (Nat.ltb 0 (pend_sclose s1)) eqn:Ep.
  - assert (Hl2 : legal s1 DropSenderClose = true) by (unfold legal; rewrite Eg, Hg, Ep; reflexivity).
    pose proof (reach_inv _ _ _ _ R1) as I1.
    pose proof (reach_step _ _ _ _ _ R1 Hl2) as R2.
    destruct (sec_step s1 _ I1 Hl2) as [S2 X2].
    assert (N2 : DropSenderClose <> Teardown) by discriminate.
    assert (C2 : DropSenderClose <> Close) by discriminate.
    pose proof (step_probe s1 _ N2) as P2. specialize (X2 C2).
    rewrite (step_c_legal _ _ Hl2).
    destruct (step s1 DropSenderClose) as [s2 o2] eqn:E2. cbn [fst snd] in *.
    cbn [with_res seq_obs o_probe].
    split; [exact R2|]. split; [|split; [congruence|exact P2]].
    rewrite S2, S1. cbn [hnext].
    destruct (Nat.eqb (senders s) 1); reflexivity.
  - cbn [fst snd with_res o_probe].
    split; [exact R1|]. split; [|split; [exact X1|exact P1]].
    rewrite S1. apply Nat.ltb_ge in Ep. rewrite Eps in Ep.
    destruct (Nat.eqb (senders s) 1); [lia|reflexivity].
Qed.

Lemma drop_receiver_h kr ks c s : Reach kr ks c s -> legal s DropReceiverDec = true ->
  pend_rclose s = 0 ->
  Reach kr ks c (fst (drop_receiver s)) /\
  hsum (fst (drop_receiver s)) = (senders s, pred (receivers s), pend_sclose s, 0, pend_clear s, gone s) /\
  explicit (fst (drop_receiver s)) = explicit s /\
  o_probe (snd (drop_receiver s)) =
    [bN (closed (fst (drop_receiver s))); nN (length (buf (fst (drop_receiver s))))].
Proof.
  intros R Hl Hpr. pose proof (reach_inv _ _ _ _ R) as I.
  pose proof (reach_step _ _ _ _ _ R Hl) as R1.
  destruct (sec_step s _ I Hl) as [S1 X1].
  assert (N1 : DropReceiverDec <> Teardown) by discriminate.
  assert (C1 : DropReceiverDec <> Close) by discriminate.
  pose proof (step_probe s _ N1) as P1. specialize (X1 C1).
  pose proof (legal_not_gone _ _ Hl) as Hg.
  unfold drop_receiver. rewrite (step_c_legal _ _ Hl).
  destruct (step s DropReceiverDec) as [s1 o1] eqn:E1. cbn [fst snd] in *.
  unfold hsum in S1 at 2. cbn [hnext] in S1. rewrite Hpr in S1.
  assert (S1' := S1). unfold hsum in S1'. apply hv_inj in S1'. destruct S1' as (_ & _ & _ & Epr & _ & Eg).
  destruct (Nat.ltb 0 (pend_rclose s1)) eqn:Ep.
  - assert (Hl2 : legal s1 DropReceiverClose = true) by (unfold legal; rewrite Eg, Hg, Ep; reflexivity).
    pose proof (reach_inv _ _ _ _ R1) as I1.
    pose proof (reach_step _ _ _ _ _ R1 Hl2) as R2.
    destruct (sec_step s1 _ I1 Hl2) as [S2 X2].
    assert (C2 : DropReceiverClose <> Close) by discriminate.
    specialize (X2 C2).
    rewrite (step_c_legal _ _ Hl2).
    destruct (step s1 DropReceiverClose) as [s2 o2] eqn:E2. cbn [fst snd] in *.
    rewrite S1 in S2. cbn [hnext] in S2.
    assert (S2' := S2). unfold hsum in S2'. apply hv_inj in S2'. destruct S2' as (_ & _ & _ & _ & Epc2 & Eg2).
    assert (Hl3 : legal s2 DropReceiverClear = true) by (unfold legal; rewrite Eg2, Hg, Epc2; reflexivity).
    pose proof (reach_inv _ _ _ _ R2) as I2.
    pose proof (reach_step _ _ _ _ _ R2 Hl3) as R3.
    destruct (sec_step s2 _ I2 Hl3) as [S3 X3].
    assert (N3 : DropReceiverClear <> Teardown) by discriminate.
    assert (C3 : DropReceiverClear <> Close) by discriminate.
    pose proof (step_probe s2 _ N3) as P3. specialize (X3 C3).
    rewrite (step_c_legal _ _ Hl3).
    destruct (step s2 DropReceiverClear) as [s3 o3] eqn:E3. cbn [fst snd] in *.
    cbn [with_res seq_obs o_probe].
    split; [exact R3|]. split; [|split; [congruence|exact P3]].
    rewrite S3, S2. cbn [hnext].
    destruct (Nat.eqb (receivers s) 1); reflexivity.
  - cbn [fst snd with_res o_probe].
    split; [exact R1|]. split; [|split; [exact X1|exact P1]].
    rewrite S1. apply Nat.ltb_ge in Ep. rewrite Epr in Ep.
    destruct (Nat.eqb (receivers s) 1); [lia|reflexivity].
Qed.

(* ------------------------------------------------------------------ *)
(* one whole call *)
Lemma mstep_h kr ks c s m l : Reach kr ks c s -> HI m s -> mlegal s l = true ->
  h_good (hmon_step true m (l, snd (mstep s l))) = h_good m /\
  (gone (fst (mstep s l)) = true \/
   (Reach kr ks c (fst (mstep s l)) /\ HI (hmon_step true m (l, snd (mstep s l))) (fst (mstep s l)))).
Proof.
  intros R M Hml. pose proof (reach_inv _ _ _ _ R) as I.
  pose proof M as [Ms Mr Me Mps Mpr Mpc Mg].
  rewrite hmon_step_kind.
  destruct (decode l) as [o|] eqn:E.
  - destruct (decode_kfacts s l o bad_obs [] E) as (St & L & _).
    rewrite (decode_hkind l o E). rewrite L in Hml. apply andb_true_iff in Hml. destruct Hml as [Hp Hl].
    rewrite St, (step_c_legal _ _ Hl).
    assert (Hdec : o = Teardown \/ o <> Teardown) by (destruct o; auto; right; discriminate).
    destruct Hdec as [->|Hnt].
    + split; [reflexivity|left; reflexivity].
    + pose proof (reach_step _ _ _ _ _ R Hl) as R'.
      destruct (sec_step s o I Hl) as [S1 X1].
      pose proof (step_probe s o Hnt) as P1.
      assert (Hk : ohkind o <> HTeardown) by (destruct o; try discriminate; congruence).
      destruct (hstep_fin kr ks c m (ohkind o) (snd (step s o)) _ Hk R') as [G H']; [|exact P1|].
      * unfold hsum in S1. rewrite Mps, Mpr, Mpc, Mg in S1.
        destruct o; try discriminate Hp; try congruence; cbn [hnext] in S1;
          apply hv_inj in S1; destruct S1 as (E1 & E2 & E3 & E4 & E5 & E6);
          (constructor; cbn [hpre ohkind h_senders h_receivers h_explicit]; try congruence);
          try (intros He; rewrite X1 by discriminate; auto).
      * split; [exact G|right; split; [exact R'|exact H']].
  - destruct (decode_none s l E Hml) as [-> | ->].
    + change (mlegal s [14%N]) with (legal s DropSenderDec) in Hml.
      change (mstep s [14%N]) with (if legal s DropSenderDec then drop_sender s else (s, bad_obs)).
      rewrite Hml. cbn [hkind].
      destruct (drop_sender_h kr ks c s R Hml Mps) as (R' & S1 & X1 & P1).
      assert (Hk : HDropS <> HTeardown) by discriminate.
      destruct (hstep_fin kr ks c m HDropS (snd (drop_sender s)) _ Hk R') as [G H']; [|exact P1|].
      * unfold hsum in S1. apply hv_inj in S1. destruct S1 as (E1 & E2 & E3 & E4 & E5 & E6).
        constructor; cbn [hpre h_senders h_receivers h_explicit]; try congruence.
        intros He. rewrite X1. auto.
      * split; [exact G|right; split; [exact R'|exact H']].
    + change (mlegal s [16%N]) with (legal s DropReceiverDec) in Hml.
      change (mstep s [16%N]) with (if legal s DropReceiverDec then drop_receiver s else (s, bad_obs)).
      rewrite Hml. cbn [hkind].
      destruct (drop_receiver_h kr ks c s R Hml Mpr) as (R' & S1 & X1 & P1).
      assert (Hk : HDropR <> HTeardown) by discriminate.
      destruct (hstep_fin kr ks c m HDropR (snd (drop_receiver s)) _ Hk R') as [G H']; [|exact P1|].
      * unfold hsum in S1. apply hv_inj in S1. destruct S1 as (E1 & E2 & E3 & E4 & E5 & E6).
        constructor; cbn [hpre h_senders h_receivers h_explicit]; try congruence.
        intros He. rewrite X1. auto.
      * split; [exact G|right; split; [exact R'|exact H']].
Qed.

(* ------------------------------------------------------------------ *)
(* runs *)
Lemma handles_run kr ks c : forall ls s m,
  Reach kr ks c s -> HI m s -> h_good m = true -> mlegal_run s ls = true ->
  h_good (fold_left (hmon_step true) (mtrace s ls) m) = true.
Proof.
  induction ls as [|l r IH]; intros s m R M Hok Hr; [exact Hok|].
  cbn [mlegal_run] in Hr. apply andb_true_iff in Hr. destruct Hr as [Hl Hr].
  destruct (mstep_h kr ks c s m l R M Hl) as [K [Hg|(R' & M')]].
  - (* torn down: the run ends here *)
    destruct r as [|l' r'].
    + cbn [mtrace]. destruct (mstep s l) as [s' ob]. cbn [fst snd fold_left mtrace] in *. congruence.
    + cbn [mlegal_run] in Hr. rewrite (gone_not_mlegal _ l' Hg) in Hr. discriminate Hr.
  - cbn [mtrace]. destruct (mstep s l) as [s' ob] eqn:E. cbn [fst snd fold_left] in *.
    apply (IH s'); auto. congruence.
Qed.

Theorem handles_trace_holds : forall kr ks c ls,
  mlegal_run (init kr ks c) ls = true ->
  handles_ok true (mtrace (init kr ks c) ls) = true.
Proof.
  intros kr ks c ls Hr. unfold handles_ok.
  apply (handles_run kr ks c ls (init kr ks c)); auto.
  - apply reach_init.
  - apply hi_init.
Qed.
