(* C11 on the encoded trace: the monitor [close_wakes_ok] (a call that closes the channel
   leaves no future pending without a wake through the waker of its latest poll) holds for
   every contract-respecting run of whole calls. *)
From FI Require Import Base Mpmc MpmcSpec MpmcProofs MpmcWakeProofs.

Local Ltac inv H := inversion H; subst; clear H.

Local Ltac bool_hyps :=
  repeat match goal with
  | H : (_ && _)%bool = true |- _ => apply andb_true_iff in H; destruct H
  | H : negb _ = true |- _ => apply negb_true_iff in H
  | H : negb _ = false |- _ => apply negb_false_iff in H
  | H : Nat.ltb _ _ = true |- _ => apply Nat.ltb_lt in H
  | H : Nat.eqb _ _ = true |- _ => apply Nat.eqb_eq in H
  | H : Nat.eqb _ _ = false |- _ => apply Nat.eqb_neq in H
  end.

Local Ltac projs :=
  cbn [closed cap buf recvq sendq rfs sfs senders receivers pend_sclose pend_rclose pend_clear explicit gone
       setr sets setbuf setcounts cnt_s cnt_r close_state teardown_state].

(* ------------------------------------------------------------------ *)
(* where a send future's ghost [s_woken] can be set: only together with its stored waker
   appearing in the wake list of the step (the receive side is [step_woken_src]) *)
Lemma sfs_notify_raw X : sfs (fst (notify_oldest_recv X)) = sfs X.
Proof. unfold notify_oldest_recv. destruct (olast (recvq X)); reflexivity. Qed.

Lemma try_receive_swoken X i :
  s_woken (gets X i) = false -> s_woken (gets (fst (fst (try_receive X))) i) = true ->
  exists w, s_task (gets X i) = Some w /\ In w (snd (try_receive X)).
Proof.
  intros H0 H1. unfold try_receive in *.
  destruct (buf X) as [|v rest]; destruct (olast (sendq X)) as [g|]; cbv zeta in *;
    try (cbn [fst snd] in H1; unfold gets in *; cbn [sfs setbuf] in H1; congruence).
  - (* take *)
    cbn [fst snd] in *. unfold gets in *. cbn [sfs sets] in H1. rewrite nth_upd in H1.
    destruct (Nat.eqb g i && Nat.ltb i (length (sfs X)))%bool eqn:Ec; [|congruence].
    bool_hyps. subst g. cbn [s_woken] in H1. rewrite H0 in H1. cbn [orb] in H1.
    apply woke_by_task in H1. destruct H1 as [w Hw]. exists w. rewrite Hw. split; [reflexivity|left; reflexivity].
  - (* copy *)
    destruct (s_val (gets X g)) as [sv|] eqn:Ev; cbn [fst snd] in *;
      [|unfold gets in *; cbn [sfs setbuf] in H1; congruence].
    unfold gets in *. cbn [sfs sets setbuf] in H1. rewrite nth_upd in H1.
    destruct (Nat.eqb g i && Nat.ltb i (length (sfs X)))%bool eqn:Ec; [|congruence].
    bool_hyps. subst g. cbn [s_woken] in H1. rewrite H0 in H1. cbn [orb] in H1.
    apply woke_by_task in H1. destruct H1 as [w Hw]. exists w. rewrite Hw. split; [reflexivity|left; reflexivity].
Qed.

Lemma wake_sends_swoken order : forall fs acc i,
  s_woken (nth i fs sabsent) = false -> s_woken (nth i (fst (wake_sends fs order acc)) sabsent) = true ->
  exists w, s_task (nth i fs sabsent) = Some w /\ In w (snd (wake_sends fs order acc)).
Proof.
  induction order as [|f0 r IH]; intros fs acc i H0 H1.
  - simpl in H1. congruence.
  - cbn [wake_sends] in *. cbv zeta in *.
    set (x0 := nth f0 fs sabsent) in *.
    set (fs1 := upd f0 (mkS (s_alive x0) (s_hp x0) SUnreg None (s_val x0)
                           (s_woken x0 || woke_by (s_task x0) (s_lastw x0)) (s_lastw x0) (s_tag x0)) fs) in *.
    destruct (s_woken (nth i fs1 sabsent)) eqn:Ew.
    + unfold fs1 in Ew. rewrite nth_upd in Ew.
      destruct (Nat.eqb f0 i && Nat.ltb i (length fs))%bool eqn:Ec; [|congruence].
      bool_hyps. subst f0. cbn [s_woken] in Ew. fold x0 in H0. rewrite H0 in Ew. cbn [orb] in Ew.
      apply woke_by_task in Ew. destruct Ew as [w Hw]. exists w. split; auto.
      apply wake_sends_acc_in. rewrite Hw. apply in_or_app. right. simpl. auto.
    + destruct (IH fs1 (acc ++ wk_list (s_task x0)) i Ew H1) as [w [Hw Hin]]. exists w. split; auto.
      unfold fs1 in Hw. rewrite nth_upd in Hw.
      destruct (Nat.eqb f0 i && Nat.ltb i (length fs))%bool; [simpl in Hw; discriminate|auto].
Qed.

Lemma do_close_swoken X e i :
  s_woken (gets X i) = false -> s_woken (gets (fst (fst (do_close X e))) i) = true ->
  exists w, s_task (gets X i) = Some w /\ In w (snd (do_close X e)).
Proof.
  unfold do_close. destruct (closed X); cbn [fst snd]; [intros; congruence|].
  intros H0 H1.
  destruct (wake_recvs (rfs X) (rev (recvq X)) []) as [rf' wk1].
  pose proof (wake_sends_swoken (rev (sendq X)) (sfs X) wk1 i H0) as K.
  destruct (wake_sends (sfs X) (rev (sendq X)) wk1) as [sf' wk2]. cbn [fst snd] in *.
  unfold gets in H1. cbn [sfs] in H1. exact (K H1).
Qed.

Local Ltac striv :=
  cbn [fst snd]; unfold gets; projs;
  try match goal with E : sfs _ = _ |- _ => rewrite E end; projs;
  let H0 := fresh "H0" in let H1 := fresh "H1" in
  intros H0 H1; exfalso;
  try (rewrite nth_upd in H1; destruct (_ && _)%bool; cbn [s_woken sabsent] in H1); congruence.

Local Ltac snotify :=
  match goal with
  | |- context [notify_oldest_recv ?X] =>
      let En := fresh "En" in
      pose proof (sfs_notify_raw X) as En;
      destruct (notify_oldest_recv X) as [? ?]; cbn [fst] in En; striv
  end.

Local Ltac sclose i :=
  match goal with
  | |- context [do_close ?X ?e] =>
      let K := fresh "K" in let H0 := fresh "H0" in let H1 := fresh "H1" in
      pose proof (do_close_swoken X e i) as K;
      destruct (do_close X e) as [[? ?] ?]; cbn [fst snd mk_obs o_wake] in *;
      intros H0 H1; destruct (K H0 H1) as [?w [? ?]]; eexists; split; [eassumption|apply in_map; assumption]
  end.

Local Ltac sreceive i :=
  match goal with
  | |- context [try_receive ?X] =>
      let K := fresh "K" in
      pose proof (try_receive_swoken X i) as K;
      destruct (try_receive X) as [[?s1 ?ov] ?wk]; cbn [fst snd] in K
  end.

Lemma step_swoken_src s o i :
  s_woken (gets s i) = false -> s_woken (gets (fst (step s o)) i) = true ->
  exists w, s_task (gets s i) = Some w /\ In (nN w) (o_wake (snd (step s o))).
Proof.
  destruct o as [f v|f w|f|f|f|f w|f|v| | | | | | | | | |]; cbn [step]; cbv zeta.
  - striv.
  - (* PollSend *)
    destruct (negb (s_hp (gets s f))); [striv|].
    destruct (s_st (gets s f)); [|striv|striv].
    destruct (closed s); [destruct (s_val (gets s f)); striv|].
    destruct (negb (can_push s)).
    + destruct (memb f (sendq s)); [striv|]. snotify.
    + destruct (s_val (gets s f)); [|striv]. snotify.
  - (* CancelSend *)
    destruct (negb (s_hp (gets s f))); [striv|].
    destruct (match s_st (gets s f) with SReg => negb (memb f (sendq s)) | _ => false end); [striv|].
    destruct (s_val (gets s f)); striv.
  - (* DropSend *) destruct (_ && _)%bool; striv.
  - striv.
  - (* PollRecv *)
    destruct (negb (r_hp (getr s f))); [striv|].
    destruct (r_st (getr s f)); [|striv|]; sreceive i;
      (destruct ov;
       [cbn [fst snd mk_obs o_wake]; unfold gets at 2; projs; fold (gets s1 i);
        intros H0 H1; destruct (K H0 H1) as [w' [A B]]; exists w'; split; [exact A|apply in_map; exact B]
       |destruct (closed s); [striv|destruct (memb f (recvq s)); striv]]).
  - (* DropRecv *)
    destruct (r_hp (getr s f)); [|striv].
    destruct (r_st (getr s f)); [striv|destruct (memb f (recvq s)); striv|]. snotify.
  - (* TrySend *)
    destruct (closed s); [striv|]. destruct (can_push s); [snotify|striv].
  - (* TryRecv *)
    sreceive i. destruct ov; [|striv].
    cbn [fst snd mk_obs o_wake]. intros H0 H1. destruct (K H0 H1) as [w' [A B]]. exists w'. split; [exact A|apply in_map; exact B].
  - sclose i.
  - striv.
  - striv.
  - sclose i.
  - striv.
  - striv.
  - sclose i.
  - striv.
  - cbn [fst]. unfold gets. cbn [sfs]. rewrite nth_map_sabsent. intros; discriminate.
Qed.

(* ------------------------------------------------------------------ *)
(* link between the future tables and the monitor tables.  Receive side: [PR] of
   MpmcWakeProofs ([k_wake] is [rm_wake]); send side: the same relation for send futures. *)
Definition pws (y : sfut) : option N := if pendingS y then option_map nN (s_lastw y) else None.

Definition PRS (pend : list (option N * bool)) (gs : list sfut) : Prop :=
  length pend = length gs /\
  forall g, fst (nth g pend dpend) = pws (nth g gs sabsent) /\
            (pendingS (nth g gs sabsent) = true -> s_woken (nth g gs sabsent) = true ->
             snd (nth g pend dpend) = true).

Lemma PRS_upd pend gs f a y :
  PRS pend gs -> fst a = pws y -> (pendingS y = true -> s_woken y = true -> snd a = true) ->
  PRS (upd f a pend) (upd f y gs).
Proof.
  intros [L H] Ha Hb. split; [rewrite !upd_length; auto|].
  intros g. rewrite !nth_upd, L. destruct (_ && _)%bool; auto.
Qed.

Lemma PRS_upd_l pend gs f :
  PRS pend gs -> pws (nth f gs sabsent) = None -> PRS (upd f (None, false) pend) gs.
Proof.
  intros [L H] Ha. split; [rewrite upd_length; auto|].
  intros g. rewrite nth_upd. destruct (Nat.eqb f g && Nat.ltb g (length pend))%bool eqn:Ec; auto.
  bool_hyps. subst g. cbn [fst snd]. split; [symmetry; exact Ha|].
  intros Hp _. unfold pws in Ha. rewrite Hp in Ha.
  unfold pendingS in Hp. destruct (s_lastw (nth f gs sabsent)); [discriminate Ha|].
  rewrite andb_false_r in Hp. discriminate Hp.
Qed.

(* the monitor's slot update, by operation *)
Definition kent (res : list N) (w : wid) : option N * bool :=
  if N.eqb (hd 99%N res) R_PENDING then (Some (nN w), false) else (None, false).

Definition kpre_r (pend : list (option N * bool)) (o : op) (res : list N) : list (option N * bool) :=
  match o with
  | CreateRecv f | DropRecv f => upd f (None, false) pend
  | PollRecv f w => upd f (kent res w) pend
  | _ => pend
  end.

Definition kpre_s (pend : list (option N * bool)) (o : op) (res : list N) : list (option N * bool) :=
  match o with
  | CreateSend f _ | CancelSend f | DropSend f => upd f (None, false) pend
  | PollSend f w => upd f (kent res w) pend
  | _ => pend
  end.

Lemma kpre_r_ok s pend o res : PR pend (rfs s) -> PR (kpre_r pend o res) (rpre s o res).
Proof.
  intros P. destruct o; cbn [kpre_r rpre]; auto.
  - apply PR_upd; auto; discriminate.
  - unfold kent. destruct (N.eqb (hd 99%N res) R_PENDING); apply PR_upd; auto; discriminate.
  - apply PR_upd; auto; discriminate.
Qed.

Lemma kpre_s_ok s pend o res : legal s o = true -> PRS pend (sfs s) -> PRS (kpre_s pend o res) (spre s o res).
Proof.
  intros Hl P. destruct o; cbn [kpre_s spre]; auto.
  - (* CreateSend *) apply PRS_upd; auto; discriminate.
  - (* PollSend *)
    unfold kent. destruct (N.eqb (hd 99%N res) R_PENDING).
    + apply PRS_upd; auto; discriminate.
    + destruct (s_st (gets s f)); apply PRS_upd; auto; discriminate.
  - (* CancelSend *)
    destruct (s_hp (gets s f)) eqn:Hhp.
    + apply PRS_upd; auto; discriminate.
    + apply PRS_upd_l; auto. unfold pws, pendingS. fold (gets s f). rewrite Hhp, andb_false_r. reflexivity.
  - (* DropSend *) apply PRS_upd; auto; discriminate.
Qed.

Lemma k_wake_nth wakes pend f : nth f (map (k_wake wakes) pend) dpend = k_wake wakes (nth f pend dpend).
Proof. change dpend with (k_wake wakes dpend) at 1. apply map_nth. Qed.

Lemma prs_wake s cl mv pend1 gs1 gs' wakes :
  SInvP (closed s) (cap s) (buf s) (sendq s) (sfs s) -> PRS pend1 gs1 -> sshape s cl mv gs1 gs' ->
  (forall g, s_woken (gets s g) = false -> s_woken (nth g gs' sabsent) = true ->
             exists w, s_task (gets s g) = Some w /\ In (nN w) wakes) ->
  PRS (map (k_wake wakes) pend1) gs'.
Proof.
  intros IS [L P] [L' Sh] Hw. split; [rewrite map_length; congruence|].
  intros g. rewrite k_wake_nth. destruct (P g) as [P1 P2]. destruct (Sh g) as [E|(E1 & Est & E)].
  - rewrite E. destruct (nth g pend1 dpend) as [[w|] b]; cbn [k_wake fst snd] in *; split; auto.
    intros A B. rewrite (P2 A B). reflexivity.
  - assert (Epw : pws (nth g gs' sabsent) = pws (gets s g))
      by (destruct E as [[E _]|[E _]]; rewrite E; reflexivity).
    assert (Epd : pendingS (nth g gs' sabsent) = pendingS (gets s g))
      by (destruct E as [[E _]|[E _]]; rewrite E; reflexivity).
    rewrite E1 in *. split.
    + rewrite Epw, <- P1. destruct (nth g pend1 dpend) as [[w|] b]; reflexivity.
    + intros A B. rewrite Epd in A. destruct (s_woken (gets s g)) eqn:Ew.
      * specialize (P2 A eq_refl). destruct (nth g pend1 dpend) as [[w|] b]; cbn [k_wake fst snd] in *; auto.
        rewrite P2. reflexivity.
      * destruct (Hw g Ew B) as [w [Ht Hin]].
        destruct (so_reg _ _ (si_ok _ _ _ _ _ IS g) Est) as (_ & _ & Etl & _). fold (gets s g) in Etl.
        assert (Hp : pws (gets s g) = Some (nN w)).
        { unfold pws. rewrite A. rewrite <- Etl, Ht. reflexivity. }
        rewrite Hp in P1. destruct (nth g pend1 dpend) as [[w'|] b]; cbn [k_wake fst snd] in *; [|discriminate].
        inv P1. apply memN_In in Hin. rewrite Hin. apply orb_true_r.
Qed.

(* one section *)
Lemma kl_step s o pr ps : Inv s -> legal s o = true -> o <> Teardown ->
  PR pr (rfs s) -> PRS ps (sfs s) ->
  PR (map (k_wake (o_wake (snd (step s o)))) (kpre_r pr o (o_res (snd (step s o))))) (rfs (fst (step s o))) /\
  PRS (map (k_wake (o_wake (snd (step s o)))) (kpre_s ps o (o_res (snd (step s o))))) (sfs (fst (step s o))).
Proof.
  intros I Hl Hnt P1 P2. pose proof (step_out s o I Hl) as O.
  destruct (out_shape _ _ _ _ _ I Hl O Hnt) as [Sr Ss]. split.
  - change (k_wake (o_wake (snd (step s o)))) with (rm_wake (o_wake (snd (step s o)))).
    eapply pr_wake; [apply I|apply kpre_r_ok; exact P1|exact Sr|].
    intros f. apply step_woken_src.
  - eapply prs_wake; [apply I|apply kpre_s_ok; [exact Hl|exact P2]|exact Ss|].
    intros g. apply step_swoken_src.
Qed.

(* ------------------------------------------------------------------ *)
(* the monitor step in normal form, by the encoded operation *)
Definition lpre_r (l : list N) (ob : obs) (pend : list (option N * bool)) : list (option N * bool) :=
  match l with
  | [4%N; f] | [6%N; f] => upd (N.to_nat f) (None, false) pend
  | [5%N; f; w] => upd (N.to_nat f) (if res_is R_PENDING ob then (Some w, false) else (None, false)) pend
  | _ => pend
  end.

Definition lpre_s (l : list N) (ob : obs) (pend : list (option N * bool)) : list (option N * bool) :=
  match l with
  | [0%N; f; _] | [2%N; f] | [3%N; f] => upd (N.to_nat f) (None, false) pend
  | [1%N; f; w] => upd (N.to_nat f) (if res_is R_PENDING ob then (Some w, false) else (None, false)) pend
  | _ => pend
  end.

Definition kclosing (l : list N) (ob : obs) : bool :=
  match l with
  | [9%N] | [14%N] | [16%N] => res_is R_TRUE ob
  | _ => false
  end.

Definition kmon_nf (m : kmon) (l : list N) (ob : obs) : kmon :=
  let r2 := map (k_wake (o_wake ob)) (lpre_r l ob (k_r m)) in
  let s2 := map (k_wake (o_wake ob)) (lpre_s l ob (k_s m)) in
  mkKmon r2 s2 (k_ok m && (negb (kclosing l ob) || negb (existsb k_unwoken r2 || existsb k_unwoken s2))).

(* case analysis of an encoded operation: list shape, and the code up to 6 bits *)
Local Ltac dpos a := destruct a as [|a]; [| do 6 (try destruct a as [a|a|]) ].
Local Ltac dlist l :=
  let a := fresh "a" in let b := fresh "b" in let c := fresh "c" in let d := fresh "d" in
  let r := fresh "r" in
  destruct l as [|a [|b [|c [|d r]]]]; try dpos a.

Lemma kmon_step_eq m l ob : kmon_step m (l, ob) = kmon_nf m l ob.
Proof. dlist l; reflexivity. Qed.

Definition plainb (o : op) : bool :=
  match o with
  | DropSenderDec | DropSenderClose | DropReceiverDec | DropReceiverClose | DropReceiverClear => false
  | _ => true
  end.

Definition oclosing (o : op) (ob : obs) : bool :=
  match o with Close => res_is R_TRUE ob | _ => false end.

Lemma decode_kfacts s l o ob pend : decode l = Some o ->
  mstep s l = step_c s o /\ mlegal s l = (plainb o && legal s o)%bool /\
  lpre_r l ob pend = kpre_r pend o (o_res ob) /\ lpre_s l ob pend = kpre_s pend o (o_res ob) /\
  kclosing l ob = oclosing o ob.
Proof.
  unfold decode. intros H.
  repeat match type of H with
  | match ?x with _ => _ end = Some _ => destruct x; try discriminate H
  end.
  all: inv H; repeat split; try reflexivity;
    unfold lpre_r, lpre_s, kpre_r, kpre_s, kent, res_is, nN; rewrite ?N2Nat.id; reflexivity.
Qed.

Lemma decode_none s l : decode l = None -> mlegal s l = true -> l = [14%N] \/ l = [16%N].
Proof.
  dlist l; cbn; intros E H; try discriminate E; try discriminate H; auto.
Qed.

Lemma legal_callable s o : legal s o = true -> callable s o = true.
Proof.
  intros H. unfold callable. pose proof H as H'. unfold legal in H'.
  apply andb_true_iff in H'. destruct H' as [Hg H']. rewrite Hg. cbn [andb].
  destruct o; try exact H; bool_hyps; auto.
Qed.

Lemma step_c_legal s o : legal s o = true -> step_c s o = step s o.
Proof. intros H. unfold step_c. rewrite (legal_callable _ _ H). reflexivity. Qed.

Lemma legal_not_gone s o : legal s o = true -> gone s = false.
Proof. unfold legal. intros H. apply andb_true_iff in H. destruct H as [H _]. apply negb_true_iff in H. exact H. Qed.

Lemma gone_not_mlegal s l : gone s = true -> mlegal s l = false.
Proof.
  intros Hg. destruct (mlegal s l) eqn:E; [|reflexivity]. exfalso.
  destruct (decode l) as [o|] eqn:D.
  - destruct (decode_kfacts s l o bad_obs [] D) as (_ & L & _). rewrite L in E.
    apply andb_true_iff in E. destruct E as [_ E]. apply legal_not_gone in E. congruence.
  - destruct (decode_none s l D E) as [-> | ->]; cbn [mlegal] in E; rewrite Hg in E; discriminate E.
Qed.

(* ------------------------------------------------------------------ *)
(* sections that close; whole-call handle drops *)
Lemma k_wake_app a b x : k_wake (a ++ b) x = k_wake b (k_wake a x).
Proof.
  destruct x as [[w|] b0]; cbn [k_wake]; auto. unfold memN. rewrite existsb_app, orb_assoc. reflexivity.
Qed.

Lemma map_k_wake_app a b l : map (k_wake (a ++ b)) l = map (k_wake b) (map (k_wake a) l).
Proof. rewrite map_map. apply map_ext. intros x. apply k_wake_app. Qed.

Lemma close_if_frame s e : gone (close_if s e) = gone s /\ pend_clear (close_if s e) = pend_clear s.
Proof. unfold close_if. destruct (closed s); split; reflexivity. Qed.

Lemma close_sec s o : Inv s -> legal s o = true ->
  o = Close \/ o = DropSenderClose \/ o = DropReceiverClose ->
  closed (fst (step s o)) = true /\ gone (fst (step s o)) = gone s /\
  (o = DropReceiverClose -> pend_clear (fst (step s o)) = S (pend_clear s)).
Proof.
  intros I Hl Ho. destruct (step_out_ex s _ I Hl) as (s' & res & vals & E1 & _ & _ & O). rewrite E1.
  destruct Ho as [-> | [-> | ->]]; inversion O; subst;
    (split; [apply closed_close_if|]);
    match goal with |- context [close_if ?X ?e] => destruct (close_if_frame X e) as [G P]; rewrite G, P end;
    (split; [reflexivity|]); intros E; try discriminate E; reflexivity.
Qed.

Lemma res_false_not_true o : res_is R_TRUE (with_res [R_FALSE] o) = true -> False.
Proof. unfold res_is. cbn [with_res o_res hd]. intros H. vm_compute in H. discriminate H. Qed.

Lemma drop_sender_k kr ks c s pr ps : Reach kr ks c s -> legal s DropSenderDec = true ->
  PR pr (rfs s) -> PRS ps (sfs s) ->
  Reach kr ks c (fst (drop_sender s)) /\
  PR (map (k_wake (o_wake (snd (drop_sender s)))) pr) (rfs (fst (drop_sender s))) /\
  PRS (map (k_wake (o_wake (snd (drop_sender s)))) ps) (sfs (fst (drop_sender s))) /\
  (res_is R_TRUE (snd (drop_sender s)) = true -> closed (fst (drop_sender s)) = true).
Proof.
  intros R Hl P1 P2. pose proof (reach_inv _ _ _ _ R) as I.
  pose proof (reach_step _ _ _ _ _ R Hl) as R1.
  assert (Hnt1 : DropSenderDec <> Teardown) by discriminate.
  destruct (kl_step s _ pr ps I Hl Hnt1 P1 P2) as [Q1 Q2]. cbn [kpre_r kpre_s] in Q1, Q2.
  assert (G1 : gone (fst (step s DropSenderDec)) = gone s) by reflexivity.
  pose proof (legal_not_gone _ _ Hl) as Hg.
  unfold drop_sender. rewrite (step_c_legal _ _ Hl).
  destruct (step s DropSenderDec) as [s1 o1] eqn:E1. cbn [fst snd] in *.
  destruct (Nat.ltb 0 (pend_sclose s1)) eqn:Ep.
  - assert (Hl2 : legal s1 DropSenderClose = true) by (unfold legal; rewrite G1, Hg, Ep; reflexivity).
    pose proof (reach_inv _ _ _ _ R1) as I1.
    pose proof (reach_step _ _ _ _ _ R1 Hl2) as R2.
    assert (Hnt2 : DropSenderClose <> Teardown) by discriminate.
    destruct (kl_step s1 _ _ _ I1 Hl2 Hnt2 Q1 Q2) as [Q3 Q4]. cbn [kpre_r kpre_s] in Q3, Q4.
    destruct (close_sec s1 DropSenderClose I1 Hl2 (or_intror (or_introl eq_refl))) as (C2 & _).
    rewrite (step_c_legal _ _ Hl2).
    destruct (step s1 DropSenderClose) as [s2 o2] eqn:E2. cbn [fst snd] in *.
    cbn [with_res seq_obs o_wake]. rewrite !map_k_wake_app.
    split; [exact R2|]. split; [exact Q3|]. split; [exact Q4|]. intros _. exact C2.
  - cbn [fst snd with_res o_wake]. split; [exact R1|]. split; [exact Q1|]. split; [exact Q2|].
    intros H. exfalso. exact (res_false_not_true _ H).
Qed.

Lemma drop_receiver_k kr ks c s pr ps : Reach kr ks c s -> legal s DropReceiverDec = true ->
  PR pr (rfs s) -> PRS ps (sfs s) ->
  Reach kr ks c (fst (drop_receiver s)) /\
  PR (map (k_wake (o_wake (snd (drop_receiver s)))) pr) (rfs (fst (drop_receiver s))) /\
  PRS (map (k_wake (o_wake (snd (drop_receiver s)))) ps) (sfs (fst (drop_receiver s))) /\
  (res_is R_TRUE (snd (drop_receiver s)) = true -> closed (fst (drop_receiver s)) = true).
Proof.
  intros R Hl P1 P2. pose proof (reach_inv _ _ _ _ R) as I.
  pose proof (reach_step _ _ _ _ _ R Hl) as R1.
  assert (Hnt1 : DropReceiverDec <> Teardown) by discriminate.
  destruct (kl_step s _ pr ps I Hl Hnt1 P1 P2) as [Q1 Q2]. cbn [kpre_r kpre_s] in Q1, Q2.
  assert (G1 : gone (fst (step s DropReceiverDec)) = gone s) by reflexivity.
  pose proof (legal_not_gone _ _ Hl) as Hg.
  unfold drop_receiver. rewrite (step_c_legal _ _ Hl).
  destruct (step s DropReceiverDec) as [s1 o1] eqn:E1. cbn [fst snd] in *.
  destruct (Nat.ltb 0 (pend_rclose s1)) eqn:Ep.
  - assert (Hl2 : legal s1 DropReceiverClose = true) by (unfold legal; rewrite G1, Hg, Ep; reflexivity).
    pose proof (reach_inv _ _ _ _ R1) as I1.
    pose proof (reach_step _ _ _ _ _ R1 Hl2) as R2.
    assert (Hnt2 : DropReceiverClose <> Teardown) by discriminate.
    destruct (kl_step s1 _ _ _ I1 Hl2 Hnt2 Q1 Q2) as [Q3 Q4]. cbn [kpre_r kpre_s] in Q3, Q4.
    destruct (close_sec s1 DropReceiverClose I1 Hl2 (or_intror (or_intror eq_refl))) as (C2 & G2 & PC2).
    specialize (PC2 eq_refl).
    rewrite (step_c_legal _ _ Hl2).
    destruct (step s1 DropReceiverClose) as [s2 o2] eqn:E2. cbn [fst snd] in *.
    assert (Hl3 : legal s2 DropReceiverClear = true) by (unfold legal; rewrite G2, G1, Hg, PC2; reflexivity).
    pose proof (reach_inv _ _ _ _ R2) as I2.
    pose proof (reach_step _ _ _ _ _ R2 Hl3) as R3.
    assert (Hnt3 : DropReceiverClear <> Teardown) by discriminate.
    destruct (kl_step s2 _ _ _ I2 Hl3 Hnt3 Q3 Q4) as [Q5 Q6]. cbn [kpre_r kpre_s] in Q5, Q6.
    assert (C3 : closed (fst (step s2 DropReceiverClear)) = closed s2) by reflexivity.
    rewrite (step_c_legal _ _ Hl3).
    destruct (step s2 DropReceiverClear) as [s3 o3] eqn:E3. cbn [fst snd] in *.
    cbn [with_res seq_obs o_wake]. rewrite !map_k_wake_app.
    split; [exact R3|]. split; [exact Q5|]. split; [exact Q6|]. intros _. congruence.
  - cbn [fst snd with_res o_wake]. split; [exact R1|]. split; [exact Q1|]. split; [exact Q2|].
    intros H. exfalso. exact (res_false_not_true _ H).
Qed.

(* ------------------------------------------------------------------ *)
(* the check at a closing call: after a close every pending future has been woken *)
Lemma no_unwoken_r s pr : PR pr (rfs s) ->
  (forall f, pendingR (getr s f) = true -> r_woken (getr s f) = true) -> existsb k_unwoken pr = false.
Proof.
  intros [L P] H. destruct (existsb k_unwoken pr) eqn:E; [|reflexivity]. exfalso.
  apply existsb_exists in E. destruct E as [x [Hin Hx]].
  apply (In_nth _ _ dpend) in Hin. destruct Hin as [f [_ Hf]].
  destruct (P f) as [A B]. rewrite Hf in A, B. destruct x as [[w|] b]; [|discriminate Hx].
  destruct b; [discriminate Hx|]. cbn [fst snd] in *. unfold pw in A.
  destruct (pendingR (nth f (rfs s) rabsent)) eqn:Ep; [|discriminate A].
  pose proof (H f Ep) as Hw. specialize (B eq_refl Hw). discriminate B.
Qed.

Lemma no_unwoken_s s ps : PRS ps (sfs s) ->
  (forall f, pendingS (gets s f) = true -> s_woken (gets s f) = true) -> existsb k_unwoken ps = false.
Proof.
  intros [L P] H. destruct (existsb k_unwoken ps) eqn:E; [|reflexivity]. exfalso.
  apply existsb_exists in E. destruct E as [x [Hin Hx]].
  apply (In_nth _ _ dpend) in Hin. destruct Hin as [f [_ Hf]].
  destruct (P f) as [A B]. rewrite Hf in A, B. destruct x as [[w|] b]; [|discriminate Hx].
  destruct b; [discriminate Hx|]. cbn [fst snd] in *. unfold pws in A.
  destruct (pendingS (nth f (sfs s) sabsent)) eqn:Ep; [|discriminate A].
  pose proof (H f Ep) as Hw. specialize (B eq_refl Hw). discriminate B.
Qed.

Lemma check_close kr ks c s' okm r2 s2 cl : Reach kr ks c s' -> PR r2 (rfs s') -> PRS s2 (sfs s') ->
  (cl = true -> closed s' = true) ->
  (okm && (negb cl || negb (existsb k_unwoken r2 || existsb k_unwoken s2)))%bool = okm.
Proof.
  intros R P1 P2 Hc. destruct cl; cbn [negb orb]; [|apply andb_true_r].
  destruct (after_close_all_woken kr ks c s' R (Hc eq_refl)) as [A B].
  rewrite (no_unwoken_r s' r2 P1 A), (no_unwoken_s s' s2 P2 B). apply andb_true_r.
Qed.

(* ------------------------------------------------------------------ *)
(* one whole call *)
Lemma mstep_ok kr ks c s m l : Reach kr ks c s -> PR (k_r m) (rfs s) -> PRS (k_s m) (sfs s) ->
  mlegal s l = true ->
  k_ok (kmon_step m (l, snd (mstep s l))) = k_ok m /\
  (gone (fst (mstep s l)) = true \/
   (Reach kr ks c (fst (mstep s l)) /\
    PR (k_r (kmon_step m (l, snd (mstep s l)))) (rfs (fst (mstep s l))) /\
    PRS (k_s (kmon_step m (l, snd (mstep s l)))) (sfs (fst (mstep s l))))).
Proof.
  intros R P1 P2 Hml. pose proof (reach_inv _ _ _ _ R) as I.
  rewrite kmon_step_eq. unfold kmon_nf. cbv zeta. cbn [k_r k_s k_ok].
  destruct (decode l) as [o|] eqn:E.
  - destruct (decode_kfacts s l o (snd (mstep s l)) (k_r m) E) as (Ms & L & Er & _ & Ec).
    destruct (decode_kfacts s l o (snd (mstep s l)) (k_s m) E) as (_ & _ & _ & Es & _).
    rewrite L in Hml. apply andb_true_iff in Hml. destruct Hml as [Hp Hl].
    rewrite Er, Es, Ec. rewrite Ms, (step_c_legal _ _ Hl).
    assert (Hdec : o = Teardown \/ o <> Teardown) by (destruct o; auto; right; discriminate).
    destruct Hdec as [->|Hnt].
    + cbn [oclosing negb orb]. split; [apply andb_true_r|left; reflexivity].
    + destruct (kl_step s o _ _ I Hl Hnt P1 P2) as [Q1 Q2].
      pose proof (reach_step _ _ _ _ _ R Hl) as R'.
      split; [|right; split; [exact R'|split; [exact Q1|exact Q2]]].
      eapply check_close; [exact R'|exact Q1|exact Q2|].
      intros Hc. destruct o; try discriminate Hc. apply close_status.
  - destruct (decode_none s l E Hml) as [-> | ->].
    + change (mlegal s [14%N]) with (legal s DropSenderDec) in Hml.
      change (mstep s [14%N]) with (if legal s DropSenderDec then drop_sender s else (s, bad_obs)).
      rewrite Hml. cbn [lpre_r lpre_s kclosing].
      destruct (drop_sender_k kr ks c s _ _ R Hml P1 P2) as (R' & Q1 & Q2 & C).
      split; [|right; split; [exact R'|split; [exact Q1|exact Q2]]].
      eapply check_close; [exact R'|exact Q1|exact Q2|exact C].
    + change (mlegal s [16%N]) with (legal s DropReceiverDec) in Hml.
      change (mstep s [16%N]) with (if legal s DropReceiverDec then drop_receiver s else (s, bad_obs)).
      rewrite Hml. cbn [lpre_r lpre_s kclosing].
      destruct (drop_receiver_k kr ks c s _ _ R Hml P1 P2) as (R' & Q1 & Q2 & C).
      split; [|right; split; [exact R'|split; [exact Q1|exact Q2]]].
      eapply check_close; [exact R'|exact Q1|exact Q2|exact C].
Qed.

(* ------------------------------------------------------------------ *)
(* runs *)
Lemma close_run kr ks c : forall ls s m,
  Reach kr ks c s -> PR (k_r m) (rfs s) -> PRS (k_s m) (sfs s) -> k_ok m = true ->
  mlegal_run s ls = true ->
  k_ok (fold_left kmon_step (mtrace s ls) m) = true.
Proof.
  induction ls as [|l r IH]; intros s m R P1 P2 Hok Hr; [exact Hok|].
  cbn [mlegal_run] in Hr. apply andb_true_iff in Hr. destruct Hr as [Hl Hr].
  destruct (mstep_ok kr ks c s m l R P1 P2 Hl) as [K [Hg|(R' & P1' & P2')]].
  - (* torn down: the run ends here *)
    destruct r as [|l' r'].
    + cbn [mtrace]. destruct (mstep s l) as [s' ob]. cbn [fst snd fold_left mtrace] in *. congruence.
    + cbn [mlegal_run] in Hr. rewrite (gone_not_mlegal _ l' Hg) in Hr. discriminate Hr.
  - cbn [mtrace]. destruct (mstep s l) as [s' ob] eqn:E. cbn [fst snd fold_left] in *.
    apply (IH s'); auto. congruence.
Qed.

Lemma pr_init kr ks c : PR (repeat (None, false) kr) (rfs (init kr ks c)).
Proof.
  cbn [init rfs]. split; [rewrite !repeat_length; reflexivity|].
  intros f. unfold dpend. rewrite !nth_repeat_same. split; [reflexivity|discriminate].
Qed.

Lemma prs_init kr ks c : PRS (repeat (None, false) ks) (sfs (init kr ks c)).
Proof.
  cbn [init sfs]. split; [rewrite !repeat_length; reflexivity|].
  intros f. unfold dpend. rewrite !nth_repeat_same. split; [reflexivity|discriminate].
Qed.

Theorem close_wakes_trace_holds : forall kr ks c ls,
  mlegal_run (init kr ks c) ls = true ->
  close_wakes_ok kr ks (mtrace (init kr ks c) ls) = true.
Proof.
  intros kr ks c ls Hr. unfold close_wakes_ok.
  apply (close_run kr ks c ls (init kr ks c)); auto.
  - apply reach_init.
  - apply pr_init.
  - apply prs_init.
Qed.
