(* Invariants and lemmas for Model/Timer.v *)
From FI Require Import Base Timer TimerSpec.
From Coq Require Import Permutation Sorted.

Local Ltac inv H := inversion H; subst; clear H.

Ltac bool_hyps :=
  repeat match goal with
  | H : (_ && _)%bool = true |- _ => apply andb_true_iff in H; destruct H
  | H : negb _ = true |- _ => apply negb_true_iff in H
  | H : negb _ = false |- _ => apply negb_false_iff in H
  | H : Nat.ltb _ _ = true |- _ => apply Nat.ltb_lt in H
  | H : Nat.eqb _ _ = true |- _ => apply Nat.eqb_eq in H
  end.

(* ====================================================================== *)
(* (a) delay: saturating arithmetic *)
Lemma delay_saturating : forall n secs nanos,
  (n <= MAXU)%N ->
  let ms := (secs * 1000 + nanos / 1000000)%N in
  (deadline_from_now n secs nanos <= MAXU)%N /\
  ((n + ms <= MAXU)%N -> deadline_from_now n secs nanos = (n + ms)%N) /\
  ((MAXU < n + ms)%N -> deadline_from_now n secs nanos = MAXU).
Proof.
  intros n secs nanos Hn ms. unfold deadline_from_now. subst ms.
  generalize (secs * 1000 + nanos / 1000000)%N. revert Hn. generalize MAXU.
  intros M Hn ms. lia.
Qed.

(* ====================================================================== *)
(* (b) the pairing heap *)
Fixpoint tree_ind' (P : tree -> Prop) (H : forall r cs, Forall P cs -> P (T r cs)) (t : tree) : P t :=
  match t with
  | T r cs =>
      H r cs ((fix go (l : list tree) : Forall P l :=
                 match l with
                 | [] => Forall_nil P
                 | c :: rest => Forall_cons c (tree_ind' P H c) (go rest)
                 end) cs)
  end.

Definition fsize (cs : list tree) : nat := fold_right (fun c n => size c + n) 0 cs.

Lemma size_T r cs : size (T r cs) = S (fsize cs).
Proof. reflexivity. Qed.

Lemma fsize_cons c cs : fsize (c :: cs) = size c + fsize cs.
Proof. reflexivity. Qed.

Definition find_root (f : fid) : list tree -> option (list tree * list tree) :=
  fix find (l : list tree) : option (list tree * list tree) :=
  match l with
  | [] => None
  | T r rc :: rest =>
      if Nat.eqb r f then Some (rest, rc)
      else match find rest with
           | Some (rest', rc') => Some (T r rc :: rest', rc')
           | None => None
           end
  end.

Definition go_with (rec : list tree -> list tree * bool) : list tree -> list tree * bool :=
  fix go (l : list tree) : list tree * bool :=
  match l with
  | [] => ([], false)
  | T r rc :: rest =>
      let '(rc', found) := rec rc in
      if found then (T r rc' :: rest, true)
      else let '(rest', found') := go rest in (T r rc :: rest', found')
  end.

Section HeapProofs.
  Variable key : fid -> N.

  Definition ok (b : N) (t : tree) : Prop := (b <= key (root_id t))%N /\ heap_ordered key t.
  Definition ook (b : N) (h : option tree) : Prop := match h with Some t => ok b t | None => True end.

  Lemma heap_ordered_unfold r cs : heap_ordered key (T r cs) <-> Forall (ok (key r)) cs.
  Proof.
    induction cs as [|c rest IH].
    - simpl. split; auto.
    - split.
      + intros H. simpl in H. destruct H as (H1 & H2 & H3). constructor.
        * split; auto.
        * apply IH. exact H3.
      + intros H. inv H. destruct H2 as [H1 H2]. simpl. split; [|split]; auto.
        apply IH in H3. exact H3.
  Qed.

  Lemma ok_weaken b b' t : (b <= b')%N -> ok b' t -> ok b t.
  Proof. intros H [A B]. split; auto. lia. Qed.

  Lemma ok_ordered b t : ok b t -> heap_ordered key t.
  Proof. intros [_ H]; exact H. Qed.

  Lemma ordered_ok t : heap_ordered key t -> ok (key (root_id t)) t.
  Proof. intros H; split; auto. lia. Qed.

  Lemma meld_perm l r : Permutation (elements (meld key l r)) (elements l ++ elements r).
  Proof.
    destruct l as [a ca], r as [b cb]. unfold meld. destruct (N.ltb (key a) (key b)).
    - cbn [elements flat_map]. constructor. apply Permutation_app_comm.
    - cbn [elements flat_map]. apply (Permutation_middle (a :: flat_map elements ca) (flat_map elements cb) b).
  Qed.

  Lemma meld_ok b l r : ok b l -> ok b r -> ok b (meld key l r).
  Proof.
    destruct l as [a ca], r as [c cb]. unfold ok. cbn [root_id]. intros [A1 A2] [B1 B2].
    unfold meld. destruct (N.ltb_spec (key a) (key c)); cbn [root_id]; split; auto.
    - apply heap_ordered_unfold. constructor.
      + split; cbn [root_id]; auto. lia.
      + apply heap_ordered_unfold; auto.
    - apply heap_ordered_unfold. constructor.
      + split; cbn [root_id]; auto.
      + apply heap_ordered_unfold; auto.
  Qed.

  Lemma maybe_meld_perm cur n : Permutation (elements (maybe_meld key cur n)) (helements cur ++ elements n).
  Proof. destruct cur; simpl; [apply meld_perm|apply Permutation_refl]. Qed.

  Lemma maybe_meld_ok b cur n : ook b cur -> ok b n -> ok b (maybe_meld key cur n).
  Proof. destruct cur; simpl; auto. apply meld_ok. Qed.

  Lemma merge_rev_perm : forall fuel rl cur, length rl < fuel ->
    Permutation (helements (merge_rev key fuel rl cur)) (helements cur ++ flat_map elements rl).
  Proof.
    induction fuel as [|k IH]; intros rl cur Hl; [lia|].
    destruct rl as [|n [|p rest]].
    - simpl. rewrite app_nil_r. apply Permutation_refl.
    - cbn [merge_rev helements flat_map]. rewrite app_nil_r. apply maybe_meld_perm.
    - cbn [merge_rev]. eapply Permutation_trans; [apply IH; simpl in Hl; lia|].
      cbn [helements flat_map].
      eapply Permutation_trans; [apply Permutation_app_tail; apply maybe_meld_perm|].
      rewrite <- app_assoc. apply Permutation_app_head.
      rewrite app_assoc. apply Permutation_app_tail.
      eapply Permutation_trans; [apply meld_perm|apply Permutation_app_comm].
  Qed.

  Lemma merge_rev_ok b : forall fuel rl cur, ook b cur -> Forall (ok b) rl -> ook b (merge_rev key fuel rl cur).
  Proof.
    induction fuel as [|k IH]; intros rl cur Hc Hr; [exact Hc|].
    destruct rl as [|n [|p rest]].
    - exact Hc.
    - cbn [merge_rev ook]. inv Hr. apply maybe_meld_ok; auto.
    - cbn [merge_rev]. inv Hr. inv H2. apply IH; auto. cbn [ook]. apply maybe_meld_ok; auto.
      apply meld_ok; auto.
  Qed.

  Lemma merge_children_perm cs : Permutation (helements (merge_children key cs)) (flat_map elements cs).
  Proof.
    unfold merge_children. eapply Permutation_trans.
    - apply merge_rev_perm. rewrite rev_length. lia.
    - cbn [helements app]. apply Permutation_flat_map. apply Permutation_sym, Permutation_rev.
  Qed.

  Lemma merge_children_ok b cs : Forall (ok b) cs -> ook b (merge_children key cs).
  Proof.
    intros H. unfold merge_children. apply merge_rev_ok; [exact I|].
    apply Forall_rev. exact H.
  Qed.

  Lemma remove_in_S k f cs :
    remove_in key (S k) f cs =
    match find_root f cs with
    | Some (others, fc) => (match merge_children key fc with Some m => m :: others | None => others end, true)
    | None => go_with (remove_in key k f) cs
    end.
  Proof. reflexivity. Qed.

  Lemma find_root_Some f : forall cs others fc,
    find_root f cs = Some (others, fc) ->
    exists l1 l2, cs = l1 ++ T f fc :: l2 /\ others = l1 ++ l2.
  Proof.
    induction cs as [|[r rc] rest IH]; intros others fc H; simpl in H; [discriminate|].
    destruct (Nat.eqb_spec r f) as [->|Hne].
    - inv H. exists [], others. auto.
    - destruct (find_root f rest) as [[rest' rc']|] eqn:E; [|discriminate]. inv H.
      destruct (IH _ _ eq_refl) as (l1 & l2 & -> & ->). exists (T r rc :: l1), l2. auto.
  Qed.

  Lemma find_root_None f : forall cs, find_root f cs = None -> ~ In f (map root_id cs).
  Proof.
    induction cs as [|[r rc] rest IH]; intros H; simpl in *; [tauto|].
    destruct (Nat.eqb_spec r f) as [->|Hne]; [discriminate|].
    destruct (find_root f rest) as [[rest' rc']|] eqn:E; [discriminate|].
    intros [A|A]; [auto|]. apply IH; auto.
  Qed.

  Definition rm_spec (f : fid) (cs cs' : list tree) : Prop :=
    Permutation (f :: flat_map elements cs') (flat_map elements cs) /\
    (forall b, Forall (ok b) cs -> Forall (ok b) cs').

  Lemma go_with_spec f rec :
    (forall rc rc', rec rc = (rc', true) -> rm_spec f rc rc') ->
    forall cs cs', go_with rec cs = (cs', true) -> rm_spec f cs cs'.
  Proof.
    intros Hrec. induction cs as [|[r rc] rest IH]; intros cs' H; simpl in H; [discriminate|].
    destruct (rec rc) as [rc' found] eqn:E. destruct found.
    - inv H. destruct (Hrec _ _ E) as [P O]. split.
      + cbn [flat_map elements]. rewrite !app_comm_cons.
        apply Permutation_app_tail. eapply Permutation_trans; [apply perm_swap|]. constructor. exact P.
      + intros b Hb. inv Hb. constructor; auto. destruct H1 as [A B]. split; auto.
        apply heap_ordered_unfold. apply O. apply heap_ordered_unfold. exact B.
    - destruct (go_with rec rest) as [rest' found'] eqn:E2. inv H.
      destruct (IH _ eq_refl) as [P O]. split.
      + cbn [flat_map]. eapply Permutation_trans; [apply Permutation_middle|].
        apply Permutation_app_head. exact P.
      + intros b Hb. inv Hb. constructor; auto.
  Qed.

  Lemma remove_in_spec : forall fuel f cs cs',
    remove_in key fuel f cs = (cs', true) -> rm_spec f cs cs'.
  Proof.
    induction fuel as [|k IH]; intros f cs cs' H; [simpl in H; discriminate|].
    rewrite remove_in_S in H.
    destruct (find_root f cs) as [[others fc]|] eqn:E.
    - apply find_root_Some in E. destruct E as (l1 & l2 & -> & ->).
      assert (P : Permutation (f :: flat_map elements cs') (flat_map elements (l1 ++ T f fc :: l2))).
      { rewrite flat_map_app. cbn [flat_map elements].
        eapply Permutation_trans; [|apply Permutation_middle]. constructor.
        pose proof (merge_children_perm fc) as M.
        destruct (merge_children key fc) as [m|]; inv H.
        - cbn [flat_map]. cbn [helements] in M. rewrite flat_map_app.
          eapply Permutation_trans; [apply Permutation_app_tail; exact M|].
          rewrite !app_assoc. apply Permutation_app_tail. apply Permutation_app_comm.
        - cbn [helements] in M. apply Permutation_nil in M. rewrite M. cbn [app].
          rewrite flat_map_app. apply Permutation_refl. }
      split; [exact P|].
      intros b Hb. apply Forall_app in Hb. destruct Hb as [H1 H2]. inv H2.
      assert (Ho : Forall (ok b) (l1 ++ l2)) by (apply Forall_app; auto).
      destruct H4 as [A B]. cbn [root_id] in A. apply heap_ordered_unfold in B.
      assert (M : ook b (merge_children key fc)).
      { apply merge_children_ok. eapply Forall_impl; [|exact B]. intros t. apply ok_weaken. exact A. }
      destruct (merge_children key fc) as [m|]; inv H; auto.
    - eapply go_with_spec; [|exact H]. intros rc rc'. apply IH.
  Qed.

  Lemma size_pos t : 0 < size t.
  Proof. destruct t; simpl; lia. Qed.

  Lemma go_with_found f k rec :
    (forall rc, fsize rc <= k -> In f (flat_map elements rc) -> snd (rec rc) = true) ->
    forall cs, fsize cs <= S k -> In f (flat_map elements cs) -> ~ In f (map root_id cs) ->
               snd (go_with rec cs) = true.
  Proof.
    intros Hrec. induction cs as [|[r rc] rest IH]; intros Hs Hin Hnr; [destruct Hin|].
    rewrite fsize_cons, size_T in Hs. cbn [flat_map elements] in Hin. cbn [map root_id] in Hnr.
    cbn [go_with]. destruct (rec rc) as [rc' found] eqn:E. destruct found; [reflexivity|].
    destruct (go_with rec rest) as [rest' found'] eqn:E2. cbn [snd].
    destruct Hin as [Hin|Hin]; [exfalso; apply Hnr; left; auto|].
    apply in_app_or in Hin. destruct Hin as [Hin|Hin].
    - assert (X : snd (rec rc) = true) by (apply Hrec; auto; lia). rewrite E in X. discriminate.
    - change found' with (snd (rest', found')). apply IH; auto; try lia.
      intro; apply Hnr; right; auto.
  Qed.

  Lemma remove_in_found : forall fuel f cs,
    fsize cs <= fuel -> In f (flat_map elements cs) -> snd (remove_in key fuel f cs) = true.
  Proof.
    induction fuel as [|k IH]; intros f cs Hs Hin.
    - destruct cs as [|c rest]; [destruct Hin|]. rewrite fsize_cons in Hs. pose proof (size_pos c). lia.
    - rewrite remove_in_S. destruct (find_root f cs) as [[others fc]|] eqn:E; [reflexivity|].
      apply go_with_found with (f := f) (k := k); auto. apply find_root_None; auto.
  Qed.

  Lemma ok_min : forall t b, ok b t -> forall x, In x (elements t) -> (b <= key x)%N.
  Proof.
    induction t as [r cs IH] using tree_ind'. intros b [A B] x Hin. cbn [root_id] in A.
    cbn [elements] in Hin. destruct Hin as [<-|Hin]; auto.
    apply in_flat_map in Hin. destruct Hin as (c & Hc & Hx).
    apply heap_ordered_unfold in B. rewrite Forall_forall in IH, B.
    specialize (IH c Hc (key r) (B c Hc) x Hx). lia.
  Qed.

  Lemma pheap_insert_k h f :
    Permutation (helements (insert key h f)) (f :: helements h) /\
    (hordered key h -> hordered key (insert key h f)).
  Proof.
    destruct h as [t|]; cbn [insert helements hordered].
    - split.
      + eapply Permutation_trans; [apply meld_perm|]. cbn [elements flat_map].
        apply Permutation_sym. apply Permutation_cons_append.
      + intros H. destruct t as [r cs].
        set (b := N.min (key r) (key f)).
        apply (ok_ordered b). apply meld_ok.
        * split; auto. cbn [root_id]. unfold b. lia.
        * split; [cbn [root_id]; unfold b; lia|]. simpl. exact I.
    - split; [apply Permutation_refl|]. intros _. simpl. exact I.
  Qed.

  Lemma pheap_remove_k h f :
    In f (helements h) ->
    Permutation (f :: helements (remove key h f)) (helements h) /\
    (hordered key h -> hordered key (remove key h f)).
  Proof.
    destruct h as [[r cs]|]; [|intros []]. intros Hin. cbn [helements elements] in Hin.
    unfold remove. destruct (Nat.eqb_spec r f) as [->|Hne].
    - split.
      + cbn [helements elements]. constructor. apply merge_children_perm.
      + cbn [hordered]. intros H. apply heap_ordered_unfold in H.
        apply merge_children_ok in H. destruct (merge_children key cs); simpl; auto.
        apply (ok_ordered _ _ H).
    - destruct Hin as [Hin|Hin]; [congruence|].
      pose proof (remove_in_found (size (T r cs)) f cs) as F.
      rewrite size_T in F. specialize (F ltac:(lia) Hin). rewrite <- size_T with (r := r) in F.
      destruct (remove_in key (size (T r cs)) f cs) as [cs' found] eqn:E. cbn [snd] in F. subst found.
      apply remove_in_spec in E. destruct E as [P O]. cbn [fst]. split.
      + cbn [helements elements]. eapply Permutation_trans; [apply perm_swap|]. constructor. exact P.
      + cbn [hordered]. intros H. apply heap_ordered_unfold. apply O. apply heap_ordered_unfold. exact H.
  Qed.

  Lemma pheap_min_k h r :
    hordered key h -> peek_min h = Some r ->
    forall x, In x (helements h) -> (key r <= key x)%N.
  Proof.
    destruct h as [t|]; [|discriminate]. cbn [hordered peek_min helements]. intros H E x Hx. inv E.
    apply (ok_min t); auto. apply ordered_ok; auto.
  Qed.
End HeapProofs.

Lemma pheap_insert : forall key h f,
  Permutation (helements (insert key h f)) (f :: helements h) /\
  (hordered key h -> hordered key (insert key h f)).
Proof. exact pheap_insert_k. Qed.

Lemma pheap_remove : forall key h f,
  NoDup (helements h) -> In f (helements h) ->
  Permutation (f :: helements (remove key h f)) (helements h) /\
  (hordered key h -> hordered key (remove key h f)).
Proof. intros key h f _. apply pheap_remove_k. Qed.

Lemma pheap_min : forall key h r,
  hordered key h -> peek_min h = Some r ->
  forall x, In x (helements h) -> (key r <= key x)%N.
Proof. exact pheap_min_k. Qed.

Lemma heap_ordered_ext_in key key' : forall t,
  (forall x, In x (elements t) -> key x = key' x) -> heap_ordered key t -> heap_ordered key' t.
Proof.
  induction t as [r cs IH] using tree_ind'. intros He H.
  apply heap_ordered_unfold. apply heap_ordered_unfold in H.
  rewrite Forall_forall in *. intros c Hc. specialize (H c Hc). destruct H as [A B].
  assert (Hsub : forall x, In x (elements c) -> In x (elements (T r cs))).
  { intros x Hx. cbn [elements]. right. apply in_flat_map. exists c; auto. }
  split.
  - rewrite <- (He r) by (simpl; auto). rewrite <- (He (root_id c)); auto.
    apply Hsub. destruct c; simpl; auto.
  - apply IH; auto.
Qed.

Lemma hordered_ext_in key key' h :
  (forall x, In x (helements h) -> key x = key' x) -> hordered key h -> hordered key' h.
Proof. destruct h; simpl; auto. apply heap_ordered_ext_in. Qed.

(* ====================================================================== *)
(* (c) the timer invariant *)
Lemma nth_repeat_absent k f : nth f (repeat absent k) absent = absent.
Proof. revert f; induction k; intros [|f]; simpl; auto. Qed.

Lemma alive_lt s f : f_alive (get s f) = true -> f < length (futs s).
Proof.
  unfold get. intros H. destruct (Nat.lt_ge_cases f (length (futs s))) as [|Hge]; auto.
  rewrite nth_overflow in H by auto. discriminate.
Qed.

Lemma nth_upd_cases {A} (fs : list A) f g x d :
  f < length fs ->
  (g = f /\ nth g (upd f x fs) d = x) \/ (g <> f /\ nth g (upd f x fs) d = nth g fs d).
Proof.
  intros Hlt. destruct (Nat.eq_dec g f) as [->|Hne].
  - left. split; auto. apply nth_upd_same; auto.
  - right. split; auto. apply nth_upd_other; auto.
Qed.

Lemma keyof_upd fs f x g : f_expiry x = keyof fs f -> keyof (upd f x fs) g = keyof fs g.
Proof.
  unfold keyof. intros H. rewrite nth_upd.
  destruct (Nat.eqb_spec f g) as [->|Hne]; cbn [andb]; auto.
  destruct (Nat.ltb g (length fs)); auto.
Qed.

Record Inv (s : state) : Prop := {
  inv_nodup : NoDup (helements (heap s));
  inv_exact : forall f, In f (helements (heap s)) <->
                        (f_alive (get s f) = true /\ f_hp (get s f) = true /\ f_st (get s f) = Reg);
  inv_ord : hordered (keyof (futs s)) (heap s);
  inv_reg : forall f, f_st (get s f) = Reg ->
                      f_hp (get s f) = true /\ f_task (get s f) = f_lastw (get s f) /\ f_lastw (get s f) <> None;
  inv_dead : forall f, f_alive (get s f) = false -> get s f = absent
}.

Lemma inv_init k : Inv (init k).
Proof.
  constructor; cbn [init heap futs helements hordered]; auto.
  - constructor.
  - intros f. unfold get; cbn [init futs]. rewrite nth_repeat_absent. cbn. split; [tauto|]. intros [H _]; discriminate.
  - intros f. unfold get; cbn [init futs]. rewrite nth_repeat_absent. cbn. discriminate.
  - intros f _. unfold get; cbn [init futs]. apply nth_repeat_absent.
Qed.

Lemma inv_now s n : Inv s -> Inv (mkState n (heap s) (futs s)).
Proof. intros [A B C D E]. constructor; auto. Qed.

Lemma inv_upd_out s f x n :
  Inv s -> f < length (futs s) -> ~ In f (helements (heap s)) ->
  f_st x <> Reg -> (f_alive x = false -> x = absent) ->
  Inv (mkState n (heap s) (upd f x (futs s))).
Proof.
  intros [Hnd Hex Hord Hreg Hdead] Hlt Hni Hst Hd.
  constructor; cbn [heap futs]; auto.
  - intros g. unfold get; cbn [futs].
    destruct (nth_upd_cases (futs s) f g x absent Hlt) as [[-> E]|[Hne E]]; rewrite E.
    + split; [tauto|]. intros (_ & _ & A). congruence.
    + apply Hex.
  - eapply hordered_ext_in; [|exact Hord]. intros g Hg. unfold keyof.
    rewrite nth_upd_other; auto. intro; subst; auto.
  - intros g. unfold get; cbn [futs].
    destruct (nth_upd_cases (futs s) f g x absent Hlt) as [[-> E]|[Hne E]]; rewrite E.
    + congruence.
    + apply Hreg.
  - intros g. unfold get; cbn [futs].
    destruct (nth_upd_cases (futs s) f g x absent Hlt) as [[-> E]|[Hne E]]; rewrite E.
    + auto.
    + apply Hdead.
Qed.

Lemma inv_upd_in s f x n :
  Inv s -> In f (helements (heap s)) ->
  f_alive x = true -> f_hp x = true -> f_st x = Reg -> f_expiry x = f_expiry (get s f) ->
  f_task x = f_lastw x -> f_lastw x <> None ->
  Inv (mkState n (heap s) (upd f x (futs s))).
Proof.
  intros [Hnd Hex Hord Hreg Hdead] Hin Ha Hh Hs He Ht Hl.
  assert (Hlt : f < length (futs s)) by (apply alive_lt; apply Hex; auto).
  constructor; cbn [heap futs]; auto.
  - intros g. unfold get; cbn [futs].
    destruct (nth_upd_cases (futs s) f g x absent Hlt) as [[-> E]|[Hne E]]; rewrite E.
    + tauto.
    + apply Hex.
  - eapply hordered_ext_in; [|exact Hord]. intros g Hg. symmetry. apply keyof_upd. exact He.
  - intros g. unfold get; cbn [futs].
    destruct (nth_upd_cases (futs s) f g x absent Hlt) as [[-> E]|[Hne E]]; rewrite E.
    + auto.
    + apply Hreg.
  - intros g. unfold get; cbn [futs].
    destruct (nth_upd_cases (futs s) f g x absent Hlt) as [[-> E]|[Hne E]]; rewrite E.
    + congruence.
    + apply Hdead.
Qed.

Lemma inv_insert s f x :
  Inv s -> f < length (futs s) -> ~ In f (helements (heap s)) ->
  f_alive x = true -> f_hp x = true -> f_st x = Reg -> f_expiry x = f_expiry (get s f) ->
  f_task x = f_lastw x -> f_lastw x <> None ->
  Inv (mkState (now s) (insert (keyof (upd f x (futs s))) (heap s) f) (upd f x (futs s))).
Proof.
  intros [Hnd Hex Hord Hreg Hdead] Hlt Hni Ha Hh Hs He Ht Hl.
  destruct (pheap_insert (keyof (upd f x (futs s))) (heap s) f) as [P O].
  constructor; cbn [heap futs].
  - eapply Permutation_NoDup; [apply Permutation_sym; exact P|]. constructor; auto.
  - intros g. unfold get; cbn [futs].
    assert (M : In g (helements (insert (keyof (upd f x (futs s))) (heap s) f)) <-> g = f \/ In g (helements (heap s))).
    { split; intros H.
      - apply (Permutation_in _ P) in H. destruct H; auto.
      - apply (Permutation_in _ (Permutation_sym P)). destruct H; [left|right]; auto. }
    rewrite M.
    destruct (nth_upd_cases (futs s) f g x absent Hlt) as [[-> E]|[Hne E]]; rewrite E.
    + tauto.
    + rewrite Hex. unfold get. intuition.
  - apply O. eapply hordered_ext_in; [|exact Hord]. intros g Hg. symmetry. apply keyof_upd. exact He.
  - intros g. unfold get; cbn [futs].
    destruct (nth_upd_cases (futs s) f g x absent Hlt) as [[-> E]|[Hne E]]; rewrite E.
    + auto.
    + apply Hreg.
  - intros g. unfold get; cbn [futs].
    destruct (nth_upd_cases (futs s) f g x absent Hlt) as [[-> E]|[Hne E]]; rewrite E.
    + congruence.
    + apply Hdead.
Qed.

Lemma inv_remove s f :
  Inv s -> In f (helements (heap s)) ->
  Inv (mkState (now s) (remove (keyof (futs s)) (heap s) f) (upd f absent (futs s))).
Proof.
  intros [Hnd Hex Hord Hreg Hdead] Hin.
  assert (Hlt : f < length (futs s)) by (apply alive_lt; apply Hex; auto).
  destruct (pheap_remove (keyof (futs s)) (heap s) f Hnd Hin) as [P O].
  assert (Hnd' : NoDup (f :: helements (remove (keyof (futs s)) (heap s) f))).
  { eapply Permutation_NoDup; [apply Permutation_sym; exact P|]. auto. }
  inv Hnd'.
  assert (M : forall g, In g (helements (remove (keyof (futs s)) (heap s) f)) <-> g <> f /\ In g (helements (heap s))).
  { intros g. split; intros H.
    - split; [intro; subst; auto|]. apply (Permutation_in _ P). right; auto.
    - destruct H as [Hgf H]. apply (Permutation_in _ (Permutation_sym P)) in H. destruct H; [congruence|auto]. }
  constructor; cbn [heap futs]; auto.
  - intros g. unfold get; cbn [futs]. rewrite M.
    destruct (nth_upd_cases (futs s) f g absent absent Hlt) as [[-> E]|[Hne E]]; rewrite E.
    + cbn. split; [tauto|]. intros [X _]; discriminate.
    + rewrite Hex. unfold get. tauto.
  - eapply hordered_ext_in; [|apply O; exact Hord]. intros g Hg. apply M in Hg. destruct Hg as [Hne _].
    unfold keyof. rewrite nth_upd_other; auto.
  - intros g. unfold get; cbn [futs].
    destruct (nth_upd_cases (futs s) f g absent absent Hlt) as [[-> E]|[Hne E]]; rewrite E.
    + cbn. discriminate.
    + apply Hreg.
  - intros g. unfold get; cbn [futs].
    destruct (nth_upd_cases (futs s) f g absent absent Hlt) as [[-> E]|[Hne E]]; rewrite E.
    + auto.
    + apply Hdead.
Qed.

(* ====================================================================== *)
(* (d) check_expirations *)
Definition expired_of (x : fut) : fut :=
  mkFut (f_alive x) (f_hp x) Expired None (f_expiry x)
        (f_woken x || woke_by (f_task x) (f_lastw x)) (f_lastw x).

Definition exp_spec (n : N) (h : option tree) (fs : list fut) (acc : list wid)
           (h' : option tree) (fs' : list fut) (wk : list wid) (ex : list fid) : Prop :=
  Permutation (ex ++ helements h') (helements h) /\
  hordered (keyof fs) h' /\
  (forall g, In g ex -> (f_expiry (nth g fs absent) <= n)%N) /\
  (forall g, In g (helements h') -> (n < f_expiry (nth g fs absent))%N) /\
  length fs' = length fs /\
  (forall g, ~ In g ex -> nth g fs' absent = nth g fs absent) /\
  (forall g, In g ex -> nth g fs' absent = expired_of (nth g fs absent)) /\
  wk = acc ++ flat_map (fun f => wk_list (f_task (nth f fs absent))) ex /\
  StronglySorted (fun a b => (keyof fs a <= keyof fs b)%N) ex.

Lemma exp_spec_nil n h fs acc :
  hordered (keyof fs) h ->
  (forall g, In g (helements h) -> (n < f_expiry (nth g fs absent))%N) ->
  exp_spec n h fs acc h fs acc [].
Proof.
  intros Ho Hm. unfold exp_spec. cbn [app flat_map]. rewrite app_nil_r.
  repeat split; auto.
  - intros g [].
  - intros g [].
  - constructor.
Qed.

Lemma SSorted_impl {A} (R R' : A -> A -> Prop) l :
  (forall a b, R a b -> R' a b) -> StronglySorted R l -> StronglySorted R' l.
Proof.
  intros H. induction 1; constructor; auto.
  eapply Forall_impl; [|eassumption]. auto.
Qed.

Lemma helements_nil h : helements h = [] -> h = None.
Proof. destruct h as [[r cs]|]; simpl; auto; discriminate. Qed.

Lemma peek_min_In h r : peek_min h = Some r -> In r (helements h).
Proof. destruct h as [[a cs]|]; simpl; intros H; inv H. auto. Qed.

Lemma expire_spec : forall fuel n h fs acc h' fs' wk,
  NoDup (helements h) -> hordered (keyof fs) h -> length (helements h) <= fuel ->
  (forall f, In f (helements h) -> f < length fs) ->
  expire fuel n h fs acc = (h', fs', wk) ->
  exists ex, exp_spec n h fs acc h' fs' wk ex.
Proof.
  induction fuel as [|k IH]; intros n h fs acc h' fs' wk Hnd Hord Hfuel Hlt E.
  - cbn [expire] in E. inv E. exists []. apply exp_spec_nil; auto.
    assert (helements h' = []) by (destruct (helements h'); simpl in *; auto; lia).
    apply helements_nil in H. subst. intros g [].
  - cbn [expire] in E. destruct (peek_min h) as [r|] eqn:Epk.
    2:{ inv E. exists []. apply exp_spec_nil; auto.
        destruct h' as [t|]; [discriminate|]. intros g []. }
    set (x := nth r fs absent) in *.
    destruct (N.leb_spec (f_expiry x) n) as [Hdue|Hnot].
    2:{ inv E. exists []. apply exp_spec_nil; auto. intros g Hg.
        pose proof (pheap_min (keyof fs') h' r Hord Epk g Hg) as Hm. unfold keyof in Hm. fold x in Hm. lia. }
    fold (expired_of x) in E.
    set (fs1 := upd r (expired_of x) fs) in *.
    set (h1 := remove (keyof fs) h r) in *.
    pose proof (peek_min_In h r Epk) as Hr.
    destruct (pheap_remove (keyof fs) h r Hnd Hr) as [P O]. fold h1 in P, O.
    assert (Hnd1 : NoDup (r :: helements h1)).
    { eapply Permutation_NoDup; [apply Permutation_sym; exact P|]. auto. }
    inv Hnd1. rename H1 into Hrn, H2 into Hnd1.
    assert (Hk : forall g, keyof fs1 g = keyof fs g).
    { intros g. unfold fs1. apply keyof_upd. reflexivity. }
    assert (Hsub : forall g, In g (helements h1) -> In g (helements h)).
    { intros g Hg. apply (Permutation_in _ P). right; auto. }
    assert (Hrlt : r < length fs) by (apply Hlt; auto).
    assert (Hfs1 : forall g, g <> r -> nth g fs1 absent = nth g fs absent).
    { intros g Hg. unfold fs1. apply nth_upd_other. auto. }
    assert (Hlen1 : length fs1 = length fs) by (unfold fs1; apply upd_length).
    apply IH in E; auto.
    + destruct E as [ex' (S1 & S2 & S3 & S4 & S5 & S6 & S7 & S8 & S9)].
      assert (Hex' : forall g, In g ex' -> In g (helements h1)).
      { intros g Hg. apply (Permutation_in _ S1). apply in_or_app; auto. }
      assert (Hrex : ~ In r ex') by (intro Hc; apply Hrn; auto).
      exists (r :: ex'). unfold exp_spec. split; [|split; [|split; [|split; [|split; [|split; [|split; [|split]]]]]]].
      * cbn [app]. eapply Permutation_trans; [|exact P]. constructor. exact S1.
      * eapply hordered_ext_in; [|exact S2]. intros g _. apply Hk.
      * intros g [<-|Hg]; [exact Hdue|]. specialize (S3 g Hg). pose proof (Hk g) as K. unfold keyof in K. rewrite <- K. exact S3.
      * intros g Hg. specialize (S4 g Hg). pose proof (Hk g) as K. unfold keyof in K. rewrite <- K. exact S4.
      * congruence.
      * intros g Hg. rewrite S6 by (intro; apply Hg; right; auto). apply Hfs1. intro; subst; apply Hg; left; auto.
      * intros g [<-|Hg].
        -- rewrite S6 by auto. unfold fs1. apply nth_upd_same; auto.
        -- rewrite S7 by auto. rewrite Hfs1; auto. intro; subst; auto.
      * rewrite S8. rewrite <- app_assoc. f_equal. cbn [flat_map]. fold x. f_equal.
        apply flat_map_ext_in. intros g Hg. rewrite Hfs1; auto. intro; subst; auto.
      * constructor.
        -- eapply SSorted_impl; [|exact S9]. intros a b. cbv beta. rewrite !Hk. auto.
        -- apply Forall_forall. intros g Hg. apply (pheap_min (keyof fs) h r Hord Epk). auto.
    + eapply hordered_ext_in; [|apply O; exact Hord]. intros g _. symmetry. apply Hk.
    + apply Permutation_length in P. cbn [length] in P. lia.
    + intros g Hg. rewrite Hlen1. auto.
Qed.

Lemma NoDup_app_r {A} (l l' : list A) : NoDup (l ++ l') -> NoDup l'.
Proof. induction l as [|a l IH]; simpl; auto. intros H. inv H. auto. Qed.

Lemma NoDup_app_l {A} (l l' : list A) : NoDup (l ++ l') -> NoDup l.
Proof.
  induction l as [|a l IH]; simpl; intros H; [constructor|]. inv H. constructor; auto.
  intro; apply H2; apply in_or_app; auto.
Qed.

Lemma NoDup_app_disj {A} (l l' : list A) x : NoDup (l ++ l') -> In x l -> ~ In x l'.
Proof.
  induction l as [|a l IH]; simpl; intros H Hin; [tauto|]. inv H. destruct Hin as [->|Hin]; auto.
  intro; apply H2; apply in_or_app; auto.
Qed.

Lemma inv_expire s h' fs' wk :
  Inv s ->
  expire (length (helements (heap s))) (now s) (heap s) (futs s) [] = (h', fs', wk) ->
  Inv (mkState (now s) h' fs') /\
  exists ex, exp_spec (now s) (heap s) (futs s) [] h' fs' wk ex.
Proof.
  intros [Hnd Hex Hord Hreg Hdead] E.
  apply expire_spec in E; auto.
  2:{ intros f Hf. apply alive_lt. apply Hex. auto. }
  destruct E as [ex S]. split; [|exists ex; exact S].
  destruct S as (S1 & S2 & S3 & S4 & S5 & S6 & S7 & S8 & S9).
  assert (Hnd' : NoDup (ex ++ helements h')).
  { eapply Permutation_NoDup; [apply Permutation_sym; exact S1|]. auto. }
  assert (Hdisj : forall g, In g ex -> ~ In g (helements h')).
  { intros g Hg. eapply NoDup_app_disj; eauto. }
  assert (Hk : forall g, keyof fs' g = keyof (futs s) g).
  { intros g. unfold keyof. destruct (in_dec Nat.eq_dec g ex) as [Hi|Hn].
    - rewrite S7; auto.
    - rewrite S6; auto. }
  constructor; cbn [heap futs].
  - apply NoDup_app_r in Hnd'. auto.
  - intros g. unfold get; cbn [futs]. destruct (in_dec Nat.eq_dec g ex) as [Hi|Hn].
    + rewrite S7 by auto. cbn. split; [intros Hc; exfalso; eapply Hdisj; eauto|].
      intros (_ & _ & X); discriminate.
    + rewrite S6 by auto. fold (get s g). rewrite <- Hex. split; intros H.
      * apply (Permutation_in _ S1). apply in_or_app; auto.
      * apply (Permutation_in _ (Permutation_sym S1)) in H. apply in_app_or in H. tauto.
  - eapply hordered_ext_in; [|exact S2]. intros g _. symmetry. apply Hk.
  - intros g. unfold get; cbn [futs]. destruct (in_dec Nat.eq_dec g ex) as [Hi|Hn].
    + rewrite S7 by auto. cbn. discriminate.
    + rewrite S6 by auto. apply Hreg.
  - intros g. unfold get; cbn [futs]. destruct (in_dec Nat.eq_dec g ex) as [Hi|Hn].
    + rewrite S7 by auto. cbn [expired_of f_alive]. intros Ha.
      assert (In g (helements (heap s))) by (apply (Permutation_in _ S1); apply in_or_app; auto).
      apply Hex in H. unfold get in H. destruct H; congruence.
    + rewrite S6 by auto. apply Hdead.
Qed.

Lemma inv_step s o : Inv s -> legal s o = true -> Inv (fst (step s o)).
Proof.
  intros I Hl. pose proof I as [Hnd Hex Hord Hreg Hdead].
  destruct o as [t|f t|f secs nanos|f w|f| |]; cbn [legal] in Hl; bool_hyps.
  - cbn [step fst]. apply inv_now; auto.
  - cbn [step fst]. apply inv_upd_out; auto; try discriminate.
    intros Hin. apply Hex in Hin. destruct Hin; congruence.
  - cbn [step fst]. apply inv_upd_out; auto; try discriminate.
    intros Hin. apply Hex in Hin. destruct Hin; congruence.
  - pose proof (alive_lt s f H) as Hlt. unfold step. rewrite H0. cbn [negb].
    destruct (f_st (get s f)) eqn:Est.
    + destruct (N.leb (f_expiry (get s f)) (now s)).
      * cbn [fst]. apply inv_upd_out; auto; try discriminate.
        intros Hin. apply Hex in Hin. destruct Hin as (_ & _ & X); congruence.
      * destruct (existsb (Nat.eqb f) (helements (heap s))) eqn:Em; [exact I|].
        cbn [fst]. apply inv_insert; auto; try discriminate.
        intros Hin. apply Hex in Hin. destruct Hin as (_ & _ & X); congruence.
    + cbn [fst]. apply inv_upd_in; auto; try discriminate. apply Hex; auto.
    + cbn [fst]. apply inv_upd_out; auto; try discriminate.
      intros Hin. apply Hex in Hin. destruct Hin as (_ & _ & X); congruence.
  - pose proof (alive_lt s f Hl) as Hlt. unfold step.
    destruct (f_hp (get s f) && match f_st (get s f) with Reg => true | _ => false end) eqn:Ec.
    + destruct (existsb (Nat.eqb f) (helements (heap s))) eqn:Em; [|exact I].
      cbn [fst]. apply inv_remove; auto. apply (memb_In f). exact Em.
    + cbn [fst]. apply inv_upd_out; auto; try discriminate.
      intros Hin. apply Hex in Hin. destruct Hin as (_ & X & Y). rewrite X, Y in Ec. discriminate.
  - unfold step.
    destruct (expire (length (helements (heap s))) (now s) (heap s) (futs s) []) as [[h' fs'] wk] eqn:E.
    cbn [fst]. apply (inv_expire s h' fs' wk I E).
  - exact I.
Qed.

Theorem reach_inv k s : Reach k s -> Inv s.
Proof. induction 1; [apply inv_init|apply inv_step; auto]. Qed.

Lemma heap_exact : forall k s,
  Reach k s ->
  NoDup (helements (heap s)) /\
  (forall f, In f (helements (heap s)) <->
             (f_alive (get s f) = true /\ f_hp (get s f) = true /\ f_st (get s f) = Reg)) /\
  hordered (keyof (futs s)) (heap s).
Proof. intros k s R. destruct (reach_inv k s R) as [A B C _ _]. auto. Qed.

(* ====================================================================== *)
(* (e) the monitor *)
Definition regb (x : fut) : bool := match f_st x with Unreg => false | Reg => true | Expired => f_hp x end.
Definition dueb (x : fut) : bool := match f_st x with Expired => f_hp x | _ => false end.

Definition flink (f : fid) (x : fut) (y : tfut) : Prop :=
  t_live y = f_alive x /\
  (f_alive x = true ->
     t_dl y = f_expiry x /\ t_reg y = regb x /\ t_due y = dueb x /\
     (f_st x = Reg -> forall w, f_lastw x = Some w -> t_w y = nN w /\ Nat.div w 2 = f)).

Record Link (s : state) (m : tmon) : Prop := {
  lk_now : tm_now m = now s;
  lk_len : length (tm_futs m) = length (futs s);
  lk_good : tm_good m = true;
  lk_fut : forall f, flink f (get s f) (tget m f)
}.

Lemma nth_repeat_tabsent k f : nth f (repeat tabsent k) tabsent = tabsent.
Proof. revert f; induction k; intros [|f]; simpl; auto. Qed.

Lemma link_init k : Link (init k) (mkTmon 0 (repeat tabsent k) true).
Proof.
  constructor; cbn [init now futs tm_now tm_futs tm_good]; auto.
  - rewrite !repeat_length. auto.
  - intros f. unfold get, tget; cbn [init futs tm_futs].
    rewrite nth_repeat_absent, nth_repeat_tabsent. split; cbn; auto. discriminate.
Qed.

Definition tmon_pre (m : tmon) (o : op) (ob : obs) : tmon :=
    match o with
    | SetTime t => mkTmon t (tm_futs m) (tm_good m)
    | Deadline f t => mkTmon (tm_now m) (upd f (mkTfut true t false false 0) (tm_futs m)) (tm_good m)
    | Delay f secs nanos =>
        mkTmon (tm_now m) (upd f (mkTfut true (deadline_from_now (tm_now m) secs nanos) false false 0) (tm_futs m)) (tm_good m)
    | Poll f w =>
        let x := tget m f in
        let may_complete := if t_reg x then t_due x else N.leb (t_dl x) (tm_now m) in
        if res_is R_READY ob then
          mkTmon (tm_now m) (upd f (mkTfut true (t_dl x) false false 0) (tm_futs m)) (tm_good m && may_complete)
        else if res_is R_PENDING ob then
          mkTmon (tm_now m) (upd f (mkTfut true (t_dl x) true (t_due x) (nN w)) (tm_futs m))
                 (tm_good m && negb may_complete)
        else m
    | DropFut f => mkTmon (tm_now m) (upd f tabsent (tm_futs m)) (tm_good m)
    | CheckExp =>
        let due := filter (fun f => negb (t_due (tget m f)) && N.leb (t_dl (tget m f)) (tm_now m)) (registered m) in
        let woken := map (fun w => N.to_nat (N.div w 2)) (o_wake ob) in
        let same_set := forallb (fun f => existsb (Nat.eqb f) woken) due
                        && forallb (fun f => existsb (Nat.eqb f) due) woken
                        && Nat.eqb (length woken) (length due) in
        let latest := forallb (fun w => N.eqb w (t_w (tget m (N.to_nat (N.div w 2))))) (o_wake ob) in
        let ordered := sortedN (map (fun f => t_dl (tget m f)) woken) in
        mkTmon (tm_now m)
               (map (fun x => if t_live x && t_reg x && negb (t_due x) && N.leb (t_dl x) (tm_now m)
                              then mkTfut true (t_dl x) true true (t_w x) else x) (tm_futs m))
               (tm_good m && same_set && latest && ordered)
    | NextExp => m
    end.

Definition pending (m : tmon) : list fid := filter (fun f => negb (t_due (tget m f))) (registered m).

Definition tmon_post (m1 : tmon) (o : op) (ob : obs) : tmon :=
  let pending_dl := map (fun f => t_dl (tget m1 f)) (pending m1) in
  let probe_next := match o_probe ob with
                    | _ :: 1%N :: e :: _ => Some e
                    | _ => None end in
  let next_ok := match minN pending_dl, probe_next with
                 | Some a, Some b => N.eqb a b
                 | None, None => true
                 | _, _ => false end in
  let res_ok := match o with
                | NextExp => match minN pending_dl with
                             | Some a => res_is R_SOME ob && N.eqb (nth 1 (o_res ob) 0%N) a
                             | None => res_is R_NONE ob end
                | CheckExp | SetTime _ | Deadline _ _ | Delay _ _ _ | DropFut _ => negb (res_is R_PANIC ob)
                | Poll _ _ => true
                end in
  mkTmon (tm_now m1) (tm_futs m1) (tm_good m1 && next_ok && res_ok).

Lemma tmon_step_eq m o ob : tmon_step m (o, ob) = tmon_post (tmon_pre m o ob) o ob.
Proof. reflexivity. Qed.

Lemma fold_min_spec : forall t h,
  In (fold_left N.min t h) (h :: t) /\ forall x, In x (h :: t) -> (fold_left N.min t h <= x)%N.
Proof.
  induction t as [|a t IH]; intros h; cbn [fold_left].
  - split; [left; auto|]. intros x [<-|[]]. lia.
  - destruct (IH (N.min h a)) as [A B]. split.
    + destruct A as [A|A]; [|right; right; auto].
      rewrite <- A. destruct (N.min_spec h a) as [[_ E]|[_ E]]; rewrite E; [left|right; left]; auto.
    + assert (B0 := B (N.min h a) (or_introl eq_refl)).
      intros x [<-|[<-|Hx]]; try lia. apply B. right; auto.
Qed.

Lemma minN_spec l m : minN l = Some m -> In m l /\ forall x, In x l -> (m <= x)%N.
Proof. destruct l as [|h t]; [discriminate|]. intros E. inv E. apply fold_min_spec. Qed.

Lemma regb_dueb x : regb x = true -> dueb x = false -> f_st x = Reg.
Proof. unfold regb, dueb. destruct (f_st x); auto; congruence. Qed.

Lemma pending_members s m : Inv s -> Link s m ->
  forall f, In f (pending m) <-> In f (helements (heap s)).
Proof.
  intros [Hnd Hex Hord Hreg Hdead] [Lnow Llen Lgood Lfut] f.
  unfold pending, registered. rewrite !filter_In, in_seq.
  destruct (Lfut f) as [L1 L2]. split.
  - intros [[_ H1] H2]. apply andb_true_iff in H1. destruct H1 as [H1 H3]. apply negb_true_iff in H2.
    rewrite L1 in H1. destruct (L2 H1) as (_ & R & D & _).
    apply Hex. rewrite R in H3. rewrite D in H2.
    pose proof (regb_dueb _ H3 H2) as Hs. destruct (Hreg f Hs) as [Hh _]. auto.
  - intros H. apply Hex in H. destruct H as (Ha & Hh & Hs).
    destruct (L2 Ha) as (_ & R & D & _). rewrite L1, R, D. unfold regb, dueb. rewrite Hs, Ha. cbn.
    repeat split; auto; try lia. rewrite Llen. cbn. apply alive_lt; auto.
Qed.

Lemma pending_dl s m : Inv s -> Link s m ->
  forall f, In f (pending m) -> t_dl (tget m f) = keyof (futs s) f.
Proof.
  intros I L f H. apply (pending_members s m I L) in H. destruct I as [Hnd Hex Hord Hreg Hdead].
  apply Hex in H. destruct H as [Ha _]. destruct L as [_ _ _ Lfut]. destruct (Lfut f) as [_ L2].
  destruct (L2 Ha) as [D _]. exact D.
Qed.

Lemma next_ok_eq s m : Inv s -> Link s m ->
  minN (map (fun f => t_dl (tget m f)) (pending m)) = next_expiration s.
Proof.
  intros I L. pose proof (pending_members s m I L) as PM. pose proof (pending_dl s m I L) as PD.
  destruct I as [Hnd Hex Hord Hreg Hdead].
  unfold next_expiration. destruct (peek_min (heap s)) as [r|] eqn:Epk.
  - pose proof (peek_min_In _ _ Epk) as Hr.
    assert (Hrp : In r (pending m)) by (apply PM; auto).
    destruct (minN (map (fun f => t_dl (tget m f)) (pending m))) as [mm|] eqn:Em.
    + apply minN_spec in Em. destruct Em as [A B]. f_equal.
      apply in_map_iff in A. destruct A as (f & Ef & Hf).
      assert (B1 : (mm <= t_dl (tget m r))%N) by (apply B; apply in_map_iff; exists r; auto).
      rewrite PD in Ef, B1 by auto.
      pose proof (pheap_min _ _ _ Hord Epk f (proj1 (PM f) Hf)) as Hm.
      unfold keyof in *. unfold get. lia.
    + destruct (pending m); [destruct Hrp|discriminate].
  - destruct (heap s) as [t|] eqn:Eh; [discriminate|].
    destruct (pending m) as [|f l]; [reflexivity|]. exfalso. apply (PM f). left; auto.
Qed.

Lemma Link_good s m g : Link s m -> g = true -> Link s (mkTmon (tm_now m) (tm_futs m) g).
Proof. intros [A B C D] ->. constructor; auto. Qed.

Lemma res_is_mk c s c' l wk : res_is c (mk_obs s (c' :: l) wk) = N.eqb c' c.
Proof. reflexivity. Qed.

Lemma tmon_post_link s' m1 o ob :
  Inv s' -> Link s' m1 ->
  o_probe ob = now s' :: match next_expiration s' with Some e => [1%N; e] | None => [0%N] end ->
  match o with
  | NextExp => o_res ob = match next_expiration s' with Some e => [R_SOME; e] | None => [R_NONE] end
  | Poll _ _ => True
  | _ => res_is R_PANIC ob = false
  end ->
  Link s' (tmon_post m1 o ob).
Proof.
  intros I L Hp Hr. unfold tmon_post. apply Link_good; auto.
  fold (pending m1). rewrite (next_ok_eq s' m1 I L). rewrite Hp.
  destruct L as [_ _ -> _]. cbn [andb].
  destruct (next_expiration s') as [e|].
  - rewrite N.eqb_refl. cbn [andb].
    destruct o; try (rewrite Hr; reflexivity); auto.
    unfold res_is. rewrite Hr. cbn [hd nth]. rewrite !N.eqb_refl. reflexivity.
  - destruct o; try (rewrite Hr; reflexivity); auto.
    unfold res_is. rewrite Hr. reflexivity.
Qed.

Lemma step_probe s o :
  o_probe (snd (step s o)) =
  now (fst (step s o)) :: match next_expiration (fst (step s o)) with Some e => [1%N; e] | None => [0%N] end.
Proof.
  destruct o as [t|f t|f secs nanos|f w|f| |]; try reflexivity.
  - unfold step. destruct (negb (f_hp (get s f))); [reflexivity|].
    destruct (f_st (get s f)); try reflexivity.
    destruct (N.leb (f_expiry (get s f)) (now s)); [reflexivity|].
    destruct (existsb (Nat.eqb f) (helements (heap s))); reflexivity.
  - unfold step. destruct (f_hp (get s f) && _); [|reflexivity].
    destruct (existsb (Nat.eqb f) (helements (heap s))); reflexivity.
  - unfold step. destruct (expire _ _ _ _ _) as [[h' fs'] wk]. reflexivity.
Qed.

Lemma step_res s o :
  match o with
  | NextExp => o_res (snd (step s o)) =
               match next_expiration (fst (step s o)) with Some e => [R_SOME; e] | None => [R_NONE] end
  | Poll _ _ => True
  | _ => res_is R_PANIC (snd (step s o)) = false
  end.
Proof.
  destruct o as [t|f t|f secs nanos|f w|f| |]; try reflexivity; auto.
  - unfold step. destruct (f_hp (get s f) && _); [|reflexivity].
    destruct (existsb (Nat.eqb f) (helements (heap s))); reflexivity.
  - unfold step. destruct (expire _ _ _ _ _) as [[h' fs'] wk]. reflexivity.
Qed.

Ltac res_eval :=
  rewrite ?res_is_mk;
  change (N.eqb R_READY R_READY) with true;
  change (N.eqb R_PENDING R_PENDING) with true;
  change (N.eqb R_PENDING R_READY) with false;
  change (N.eqb R_UB R_READY) with false;
  change (N.eqb R_UB R_PENDING) with false;
  cbv iota.

Ltac flink_solve :=
  split;
  [ cbn [t_live f_alive expired_of absent tabsent]; auto
  | cbn [f_alive expired_of absent]; intros Hal; unfold regb, dueb;
    cbn [t_live t_dl t_reg t_due t_w f_alive f_hp f_st f_task f_expiry f_woken f_lastw expired_of];
    repeat split; auto; try congruence ].

Lemma link_upd s m f x y h g :
  Link s m -> f < length (futs s) -> flink f x y -> g = true ->
  Link (mkState (now s) h (upd f x (futs s))) (mkTmon (tm_now m) (upd f y (tm_futs m)) g).
Proof.
  intros [Lnow Llen Lgood Lfut] Hlt Hf ->. constructor; cbn [now futs tm_now tm_futs tm_good]; auto.
  - rewrite !upd_length. auto.
  - intros g. unfold get, tget. cbn [futs tm_futs].
    assert (Hlt' : f < length (tm_futs m)) by lia.
    destruct (Nat.eq_dec g f) as [->|Hne].
    + rewrite !nth_upd_same by auto. exact Hf.
    + rewrite !nth_upd_other by auto. apply Lfut.
Qed.

Lemma sorted_map (g : fid -> N) l :
  StronglySorted (fun a b => (g a <= g b)%N) l -> sortedN (map g l) = true.
Proof.
  induction 1 as [|a l H IH HF]; [reflexivity|].
  destruct l as [|b r]; [reflexivity|].
  change (N.leb (g a) (g b) && sortedN (map g (b :: r)) = true).
  rewrite IH. inv HF. apply N.leb_le in H2. rewrite H2. reflexivity.
Qed.

Lemma nth_map_d {A B} (g : A -> B) l n d d' : g d = d' -> nth n (map g l) d' = g (nth n l d).
Proof. intros <-. apply map_nth. Qed.

Lemma link_expire s m h' fs' wk ex :
  Inv s -> Link s m ->
  exp_spec (now s) (heap s) (futs s) [] h' fs' wk ex ->
  Link (mkState (now s) h' fs') (tmon_pre m CheckExp (mk_obs (mkState (now s) h' fs') [R_UNIT] wk)).
Proof.
  intros I L S. pose proof (pending_members s m I L) as PM. pose proof (pending_dl s m I L) as PD.
  pose proof I as [Hnd Hex Hord Hreg Hdead]. pose proof L as [Lnow Llen Lgood Lfut].
  destruct S as (S1 & S2 & S3 & S4 & S5 & S6 & S7 & S8 & S9).
  assert (Hnd' : NoDup (ex ++ helements h')).
  { eapply Permutation_NoDup; [apply Permutation_sym; exact S1|auto]. }
  assert (Hexm : forall f, In f ex -> In f (helements (heap s))).
  { intros f Hf. apply (Permutation_in _ S1). apply in_or_app; auto. }
  set (wf := fun f => match f_lastw (get s f) with Some w => w | None => 0 end).
  assert (Hwf : forall f, In f ex ->
            f_task (get s f) = Some (wf f) /\ t_w (tget m f) = nN (wf f) /\ Nat.div (wf f) 2 = f).
  { intros f Hf. apply Hexm in Hf. apply Hex in Hf. destruct Hf as (Ha & Hh & Hs).
    destruct (Hreg f Hs) as (_ & Ht & Hl). destruct (Lfut f) as [_ L2]. destruct (L2 Ha) as (_ & _ & _ & Lw).
    unfold wf. destruct (f_lastw (get s f)) as [w|] eqn:El; [|congruence].
    destruct (Lw Hs w eq_refl). auto. }
  assert (Hwk : wk = map wf ex).
  { rewrite S8. cbn [app]. clear - Hwf. induction ex as [|f r IH]; [reflexivity|].
    cbn [flat_map map]. destruct (Hwf f (or_introl eq_refl)) as (Ht & _). unfold get in Ht. rewrite Ht.
    cbn [wk_list app]. f_equal. apply IH. intros g Hg. apply Hwf. right; auto. }
  assert (Hwoken : map (fun w => N.to_nat (N.div w 2)) (map nN wk) = ex).
  { rewrite Hwk, !map_map. transitivity (map (fun f : fid => f) ex); [|apply map_id].
    apply map_ext_in. intros f Hf.
    destruct (Hwf f Hf) as (_ & _ & Hd). unfold nN. change 2%N with (N.of_nat 2).
    rewrite <- Nat2N.inj_div, Nat2N.id. exact Hd. }
  cbn [tmon_pre o_wake mk_obs]. rewrite Hwoken.
  set (D := filter (fun f => negb (t_due (tget m f)) && N.leb (t_dl (tget m f)) (tm_now m)) (registered m)).
  assert (HD : forall f, In f D <-> In f ex).
  { intros f. unfold D. rewrite filter_In. split.
    - intros [Hr Hc]. apply andb_true_iff in Hc. destruct Hc as [Hc1 Hc2].
      assert (Hp : In f (pending m)) by (unfold pending; apply filter_In; auto).
      pose proof (PD f Hp) as Hdl. apply PM in Hp.
      apply (Permutation_in _ (Permutation_sym S1)) in Hp. apply in_app_or in Hp. destruct Hp as [|Hp]; auto.
      apply S4 in Hp. apply N.leb_le in Hc2. rewrite Hdl, Lnow in Hc2. unfold keyof in Hc2. lia.
    - intros Hf. pose proof (S3 f Hf) as Hd. apply Hexm in Hf. apply PM in Hf. pose proof (PD f Hf) as Hdl.
      unfold pending in Hf. apply filter_In in Hf. destruct Hf as [Hr Hc]. split; auto.
      rewrite Hc. cbn [andb]. apply N.leb_le. rewrite Hdl, Lnow. exact Hd. }
  assert (HndD : NoDup D).
  { unfold D, registered. apply NoDup_filter. apply NoDup_filter. apply seq_NoDup. }
  assert (Hndex : NoDup ex) by (apply NoDup_app_l in Hnd'; auto).
  assert (G1 : forallb (fun f => existsb (Nat.eqb f) ex) D = true).
  { apply forallb_forall. intros f Hf. apply (memb_In f ex). apply HD. auto. }
  assert (G2 : forallb (fun f => existsb (Nat.eqb f) D) ex = true).
  { apply forallb_forall. intros f Hf. apply (memb_In f D). apply HD. auto. }
  assert (G3 : Nat.eqb (length ex) (length D) = true).
  { apply Nat.eqb_eq. apply Permutation_length. apply NoDup_Permutation; auto. intros f. symmetry. apply HD. }
  assert (G4 : forallb (fun w => N.eqb w (t_w (tget m (N.to_nat (N.div w 2))))) (map nN wk) = true).
  { apply forallb_forall. intros w Hw. rewrite Hwk, map_map in Hw. apply in_map_iff in Hw.
    destruct Hw as (f & <- & Hf). destruct (Hwf f Hf) as (_ & Hw & Hd).
    unfold nN at 2. change 2%N with (N.of_nat 2). rewrite <- Nat2N.inj_div, Nat2N.id, Hd, Hw. apply N.eqb_refl. }
  assert (G5 : sortedN (map (fun f => t_dl (tget m f)) ex) = true).
  { rewrite (map_ext_in _ (keyof (futs s))).
    - apply sorted_map. exact S9.
    - intros f Hf. apply PD. apply PM. auto. }
  constructor; cbn [now futs tm_now tm_futs tm_good]; auto.
  - rewrite map_length. congruence.
  - rewrite Lgood, G1, G2, G4, G5. cbn [andb]. rewrite !andb_true_r. exact G3.
  - intros f. unfold get, tget. cbn [futs tm_futs].
    rewrite (nth_map_d _ _ _ tabsent tabsent) by reflexivity.
    fold (tget m f). destruct (in_dec Nat.eq_dec f ex) as [Hi|Hn].
    + rewrite S7 by auto. fold (get s f).
      pose proof (proj2 (HD f) Hi) as HfD. unfold D, registered in HfD. rewrite !filter_In in HfD.
      destruct HfD as [[_ Hr] Hc]. rewrite Hr. cbn [andb]. rewrite Hc.
      apply Hexm in Hi. pose proof (proj1 (PM f) (proj2 (PM f) Hi)) as _.
      pose proof (PD f (proj2 (PM f) Hi)) as Hdl.
      apply Hex in Hi. destruct Hi as (Ha & Hh & Hs).
      flink_solve.
    + rewrite S6 by auto. fold (get s f).
      destruct (t_live (tget m f) && t_reg (tget m f) && negb (t_due (tget m f)) && N.leb (t_dl (tget m f)) (tm_now m)) eqn:Ec;
        [|apply Lfut].
      exfalso. apply Hn. apply HD. unfold D, registered. rewrite !filter_In.
      apply andb_true_iff in Ec. destruct Ec as [Ec Ec3]. apply andb_true_iff in Ec. destruct Ec as [Ec Ec2].
      rewrite Ec, Ec2, Ec3. repeat split; auto; try lia.
      apply andb_true_iff in Ec. destruct Ec as [Ec _]. apply in_seq. split; [lia|]. cbn.
      destruct (Nat.lt_ge_cases f (length (tm_futs m))) as [|Hge]; auto.
      unfold tget in Ec. rewrite nth_overflow in Ec by auto. discriminate.
Qed.

Lemma pre_link s m o :
  Inv s -> Link s m -> legal s o = true ->
  (forall f w, o = Poll f w -> Nat.div w 2 = f) ->
  Link (fst (step s o)) (tmon_pre m o (snd (step s o))).
Proof.
  intros I L Hl Hpriv. pose proof I as [Hnd Hex Hord Hreg Hdead]. pose proof L as [Lnow Llen Lgood Lfut].
  destruct o as [t|f t|f secs nanos|f w|f| |]; cbn [legal] in Hl; bool_hyps.
  - cbn [step fst snd tmon_pre]. constructor; auto.
  - cbn [step fst snd tmon_pre]. apply link_upd; auto.
    flink_solve.
  - cbn [step fst snd tmon_pre].
    replace (deadline_from_now (tm_now m) secs nanos) with (deadline_from_now (now s) secs nanos)
      by (rewrite Lnow; reflexivity).
    apply link_upd; auto.
    flink_solve.
  - pose proof (alive_lt s f H) as Hlt. specialize (Hpriv f w eq_refl).
    destruct (Lfut f) as [L1 L2]. destruct (L2 H) as (Ldl & Lreg & Ldue & Lw).
    unfold regb in Lreg. unfold dueb in Ldue.
    unfold step. rewrite H0. cbn [negb].
    destruct (f_st (get s f)) eqn:Est.
    + destruct (N.leb (f_expiry (get s f)) (now s)) eqn:Edue.
      * cbn [fst snd tmon_pre]. res_eval. apply link_upd; auto.
        -- flink_solve.
        -- rewrite Lgood, Lreg, Ldl, Lnow, Edue. reflexivity.
      * destruct (existsb (Nat.eqb f) (helements (heap s))) eqn:Em.
        -- cbn [fst snd tmon_pre]. res_eval. exact L.
        -- cbn [fst snd tmon_pre]. res_eval. apply link_upd; auto.
           ++ flink_solve.
           ++ rewrite Lgood, Lreg, Ldl, Lnow, Edue. reflexivity.
    + cbn [fst snd tmon_pre]. res_eval. apply link_upd; auto.
      * flink_solve.
      * rewrite Lgood, Lreg, Ldue. reflexivity.
    + cbn [fst snd tmon_pre]. res_eval. apply link_upd; auto.
      * flink_solve.
      * rewrite Lgood, Lreg, Ldue, H0. reflexivity.
  - pose proof (alive_lt s f Hl) as Hlt. unfold step.
    assert (Fl : flink f absent tabsent) by flink_solve.
    destruct (f_hp (get s f) && match f_st (get s f) with Reg => true | _ => false end) eqn:Ec.
    + assert (Hin : In f (helements (heap s))).
      { apply Hex. apply andb_true_iff in Ec. destruct Ec as [A B]. destruct (f_st (get s f)); try discriminate. auto. }
      apply (memb_In f) in Hin. unfold memb in Hin. rewrite Hin. cbn [fst snd tmon_pre]. apply link_upd; auto.
    + cbn [fst snd tmon_pre]. apply link_upd; auto.
  - unfold step.
    destruct (expire (length (helements (heap s))) (now s) (heap s) (futs s) []) as [[h' fs'] wk] eqn:E.
    destruct (inv_expire s h' fs' wk I E) as [_ [ex S]].
    cbn [fst snd]. eapply link_expire; eauto.
  - cbn [step fst snd tmon_pre]. exact L.
Qed.

Lemma link_step s m o :
  Inv s -> Link s m -> legal s o = true ->
  (forall f w, o = Poll f w -> Nat.div w 2 = f) ->
  Link (fst (step s o)) (tmon_step m (o, snd (step s o))).
Proof.
  intros I L Hl Hp. rewrite tmon_step_eq. apply tmon_post_link.
  - apply inv_step; auto.
  - apply pre_link; auto.
  - apply step_probe.
  - apply step_res.
Qed.

Lemma link_run : forall ops s m,
  Inv s -> Link s m -> legal_run s ops -> private_wakers ops ->
  tm_good (fold_left tmon_step (trace s ops) m) = true.
Proof.
  induction ops as [|o r IH]; intros s m I L Hl Hp.
  - cbn. destruct L; auto.
  - cbn [trace fold_left]. destruct Hl as [Hl1 Hl2]. apply IH; auto.
    + apply inv_step; auto.
    + apply link_step; auto. intros f w ->. apply Hp. left; auto.
    + intros f w Hin. apply Hp. right; auto.
Qed.

Lemma protocol_holds : forall k ops,
  legal_run (init k) ops -> private_wakers ops ->
  timer_ok k (trace (init k) ops) = true.
Proof.
  intros k ops Hl Hp. unfold timer_ok. apply link_run; auto.
  - apply inv_init.
  - apply link_init.
Qed.
