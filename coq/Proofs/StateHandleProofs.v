(* C11 (state broadcast) on the encoded trace: the handle-lifecycle monitor [handles_ok]
   (without an explicit close the channel is closed exactly when one side has no handle left)
   holds for every contract-respecting run of whole calls. *)
From FI Require Import Base StateBcast StateBcastSpec StateBcastProofs.

Local Ltac inv H := inversion H; subst; clear H.

Local Ltac bool_hyps :=
  repeat match goal with
  | H : (_ && _)%bool = true |- _ => apply andb_true_iff in H; destruct H
  | H : negb _ = true |- _ => apply negb_true_iff in H
  | H : negb _ = false |- _ => apply negb_false_iff in H
  | H : Nat.ltb _ _ = true |- _ => apply Nat.ltb_lt in H
  | H : Nat.eqb _ _ = true |- _ => apply Nat.eqb_eq in H
  | H : Nat.eqb _ _ = false |- _ => apply Nat.eqb_neq in H
  end.

(* ------------------------------------------------------------------ *)
(* handle counters of a state, and how one section moves them *)
Definition hv := (nat * nat * nat * nat * bool)%type.

Definition hsum (s : state) : hv :=
  (senders s, receivers s, pend_sclose s, pend_rclose s, gone s).

Definition hnext (o : op) (h : hv) : hv :=
  let '(sn, rn, ps, pr, g) := h in
  match o with
  | CloneSender => (S sn, rn, ps, pr, g)
  | DropSenderDec => (pred sn, rn, (if Nat.eqb sn 1 then S ps else ps), pr, g)
  | DropSenderClose => (sn, rn, pred ps, pr, g)
  | CloneReceiver => (sn, S rn, ps, pr, g)
  | DropReceiverDec => (sn, pred rn, ps, (if Nat.eqb rn 1 then S pr else pr), g)
  | DropReceiverClose => (sn, rn, ps, pred pr, g)
  | Teardown => (0, 0, 0, 0, true)
  | _ => h
  end.

Lemma hv_inj (a b c d : nat) (f : bool) a' b' c' d' f' :
  (a, b, c, d, f) = (a', b', c', d', f') ->
  a = a' /\ b = b' /\ c = c' /\ d = d' /\ f = f'.
Proof. intros H. inversion H. repeat split; reflexivity. Qed.

(* the first probe of an observation built by [mk_obs] is the closed flag *)
Definition probe_ok (ob : obs) (s' : state) : Prop := hd 0%N (o_probe ob) = bN (closed s').

Lemma probe_mk s r w v : probe_ok (mk_obs s r w v) s.
Proof. reflexivity. Qed.

Lemma hsum_close s e :
  let s' := fst (fst (do_close s e)) in
  hsum s' = hsum s /\ (e = false -> explicit s' = explicit s).
Proof.
  pose proof (do_close_fields s e) as P. cbv zeta in *.
  destruct P as (_ & P2 & P3 & P4 & P5 & P6 & _ & _ & P7).
  unfold hsum. rewrite P2, P3, P4, P5, P6. split; [reflexivity|].
  intros ->. rewrite P7. destruct (closed s); [reflexivity|apply orb_false_r].
Qed.

(* one section: counters, the ghost [explicit], and the probe *)
Lemma sec_step s o :
  hsum (fst (step s o)) = hnext o (hsum s) /\
  (o <> Close -> explicit (fst (step s o)) = explicit s) /\
  (o <> Teardown -> probe_ok (snd (step s o)) (fst (step s o))).
Proof.
  destruct o as [v| |i|f i|f w|f| | | | | | |n| ]; unfold step.
  - (* Send *)
    destruct (closed s || N.eqb (state_id s) MAXID)%bool.
    + repeat split.
    + destruct (wake_all (rfs s) (rev (waiters s)) []) as [fs' wk]. repeat split.
  - (* Close *)
    destruct (hsum_close s true) as [A _].
    destruct (do_close s true) as [[s' newly] wk]. cbn [fst snd] in *.
    split; [exact A|]. split; [intros H; congruence|intros _; apply probe_mk].
  - (* TryReceive *)
    destruct (deliverable s i); repeat split.
  - (* CreateRecv *) repeat split.
  - (* PollRecv *)
    destruct (negb (r_hp (getr s f))); [repeat split|].
    destruct (r_st (getr s f)); [|repeat split].
    destruct (deliverable s (r_id (getr s f))); [repeat split|].
    destruct (closed s); [repeat split|].
    destruct (memb f (waiters s)); repeat split.
  - (* DropRecv *)
    destruct (r_hp (getr s f)); [|repeat split].
    destruct (r_st (getr s f)); [repeat split|].
    destruct (memb f (waiters s)); repeat split.
  - (* CloneSender *) repeat split.
  - (* DropSenderDec *) repeat split.
  - (* DropSenderClose *)
    destruct (hsum_close (with_counts s (senders s) (receivers s) (pred (pend_sclose s)) (pend_rclose s)) false)
      as [A B].
    destruct (do_close _ false) as [[s' newly] wk]. cbn [fst snd] in *.
    split; [exact A|]. split; [intros _; exact (B eq_refl)|intros _; apply probe_mk].
  - (* CloneReceiver *) repeat split.
  - (* DropReceiverDec *) repeat split.
  - (* DropReceiverClose *)
    destruct (hsum_close (with_counts s (senders s) (receivers s) (pend_sclose s) (pred (pend_rclose s))) false)
      as [A B].
    destruct (do_close _ false) as [[s' newly] wk]. cbn [fst snd] in *.
    split; [exact A|]. split; [intros _; exact (B eq_refl)|intros _; apply probe_mk].
  - (* SetId *) repeat split.
  - (* Teardown *) split; [reflexivity|]. split; [intros _; reflexivity|intros H; congruence].
Qed.

(* ------------------------------------------------------------------ *)
(* the monitor step in normal form, by the kind of the encoded operation *)
Inductive hk := HClose | HCloneS | HDropS | HCloneR | HDropR | HTeardown | HOther.

Definition hkind (l : list N) : hk :=
  match l with
  | [1%N] => HClose
  | [6%N] => HCloneS
  | [9%N] => HDropS
  | [10%N] => HCloneR
  | [13%N] => HDropR
  | [20%N] => HTeardown
  | _ => HOther
  end.

Definition ohkind (o : op) : hk :=
  match o with
  | Close => HClose
  | CloneSender => HCloneS
  | CloneReceiver => HCloneR
  | Teardown => HTeardown
  | _ => HOther
  end.

Definition hpre (m : hmon) (k : hk) : hmon :=
  match k with
  | HClose => mkHmon (h_senders m) (h_receivers m) true (h_good m)
  | HCloneS => mkHmon (S (h_senders m)) (h_receivers m) (h_explicit m) (h_good m)
  | HDropS => mkHmon (pred (h_senders m)) (h_receivers m) (h_explicit m) (h_good m)
  | HCloneR => mkHmon (h_senders m) (S (h_receivers m)) (h_explicit m) (h_good m)
  | HDropR => mkHmon (h_senders m) (pred (h_receivers m)) (h_explicit m) (h_good m)
  | _ => m
  end.

Definition hchk (m1 : hmon) (p : list N) : bool :=
  h_explicit m1 ||
  Bool.eqb (negb (N.eqb (hd 0%N p) 0)) (Nat.eqb (h_senders m1) 0 || Nat.eqb (h_receivers m1) 0).

Definition hmon_k (m : hmon) (k : hk) (ob : obs) : hmon :=
  let m1 := hpre m k in
  match k with
  | HTeardown => m1
  | _ => mkHmon (h_senders m1) (h_receivers m1) (h_explicit m1) (h_good m1 && hchk m1 (o_probe ob))
  end.

(* case analysis of an encoded operation: list shape, and the code up to 6 bits *)
Local Ltac dpos a := destruct a as [|a]; [| do 6 (try destruct a as [a|a|]) ].
Local Ltac dlist l :=
  let a := fresh "a" in let b := fresh "b" in let c := fresh "c" in let d := fresh "d" in
  let r := fresh "r" in
  destruct l as [|a [|b [|c [|d r]]]]; try dpos a.

Lemma hmon_step_kind m l ob : hmon_step m (l, ob) = hmon_k m (hkind l) ob.
Proof. dlist l; reflexivity. Qed.

Definition plainb (o : op) : bool :=
  match o with
  | DropSenderDec | DropSenderClose | DropReceiverDec | DropReceiverClose => false
  | _ => true
  end.

Lemma decode_facts s l o : decode l = Some o ->
  mstep s l = step_c s o /\ mlegal s l = (plainb o && legal s o)%bool /\ hkind l = ohkind o.
Proof.
  unfold decode. intros H.
  repeat match type of H with
  | match ?x with _ => _ end = Some _ => destruct x; try discriminate H
  end.
  all: inv H; repeat split; reflexivity.
Qed.

Lemma decode_none s l : decode l = None -> mlegal s l = true -> l = [9%N] \/ l = [13%N].
Proof.
  dlist l; cbn; intros E H; try discriminate E; try discriminate H; auto.
Qed.

Lemma legal_callable s o : legal s o = true -> callable s o = true.
Proof.
  intros H. unfold callable. pose proof H as H'. unfold legal in H'.
  apply andb_true_iff in H'. destruct H' as [Hg H']. rewrite Hg. cbn [andb].
  destruct o; try exact H. bool_hyps; auto.
Qed.

Lemma step_c_legal s o : legal s o = true -> step_c s o = step s o.
Proof. intros H. unfold step_c. rewrite (legal_callable _ _ H). reflexivity. Qed.

Lemma legal_not_gone s o : legal s o = true -> gone s = false.
Proof.
  unfold legal. intros H. apply andb_true_iff in H. destruct H as [H _].
  apply negb_true_iff in H. exact H.
Qed.

Lemma gone_not_mlegal s l : gone s = true -> mlegal s l = false.
Proof.
  intros Hg. destruct (mlegal s l) eqn:E; [|reflexivity]. exfalso.
  destruct (decode l) as [o|] eqn:D.
  - destruct (decode_facts s l o D) as (_ & L & _). rewrite L in E.
    apply andb_true_iff in E. destruct E as [_ E]. apply legal_not_gone in E. congruence.
  - destruct (decode_none s l D E) as [-> | ->]; cbn [mlegal] in E; rewrite Hg in E; discriminate E.
Qed.

(* ------------------------------------------------------------------ *)
(* the monitor state against the model state, between whole calls *)
Record HM (m : hmon) (s : state) : Prop := {
  hm_s : h_senders m = senders s;
  hm_r : h_receivers m = receivers s;
  hm_e : h_explicit m = false -> explicit s = false;
  hm_ps : pend_sclose s = 0;
  hm_pr : pend_rclose s = 0;
  hm_g : gone s = false
}.

Lemma hm_init k : HM (mkHmon 1 1 false true) (init k).
Proof. constructor; reflexivity. Qed.

(* the condition checked after a call *)
Lemma check_ok k s m p : Reach k s -> HM m s -> hd 0%N p = bN (closed s) -> hchk m p = true.
Proof.
  intros R [Hs Hr He Hps Hpr Hg] P.
  unfold hchk. rewrite P, bN_probe, Hs, Hr.
  destruct (h_explicit m) eqn:Ee; [reflexivity|]. cbn [orb].
  destruct (implicit_close k s R (He eq_refl) Hg) as (I1 & I2 & I3).
  destruct (closed s) eqn:Ec.
  - destruct (I1 eq_refl) as [E|E]; rewrite E; cbn [Nat.eqb orb]; [reflexivity|].
    rewrite orb_true_r. reflexivity.
  - destruct (Nat.eqb (senders s) 0) eqn:E1; bool_hyps.
    + pose proof (I2 E1 Hps) as Ht. congruence.
    + destruct (Nat.eqb (receivers s) 0) eqn:E2; bool_hyps; [|reflexivity].
      pose proof (I3 E2 Hpr) as Ht. congruence.
Qed.

Lemma hstep_fin k m kd ob s' : kd <> HTeardown -> Reach k s' -> HM (hpre m kd) s' ->
  probe_ok ob s' ->
  h_good (hmon_k m kd ob) = h_good m /\ HM (hmon_k m kd ob) s'.
Proof.
  intros Hk R H P. pose proof (check_ok k s' _ (o_probe ob) R H P) as A.
  assert (G : h_good (hpre m kd) = h_good m) by (destruct kd; reflexivity).
  assert (E : hmon_k m kd ob =
              mkHmon (h_senders (hpre m kd)) (h_receivers (hpre m kd)) (h_explicit (hpre m kd))
                     (h_good (hpre m kd) && hchk (hpre m kd) (o_probe ob)))
    by (destruct kd; try reflexivity; congruence).
  rewrite E, A, G. cbn [h_good]. split; [rewrite andb_true_r; reflexivity|].
  destruct H as [Hs Hr He Hps Hpr Hg]. constructor; cbn [h_senders h_receivers h_explicit]; assumption.
Qed.

(* ------------------------------------------------------------------ *)
(* whole-call handle drops *)
Lemma drop_sender_h k s : Reach k s -> legal s DropSenderDec = true -> pend_sclose s = 0 ->
  Reach k (fst (drop_sender s)) /\
  hsum (fst (drop_sender s)) = (pred (senders s), receivers s, 0, pend_rclose s, gone s) /\
  explicit (fst (drop_sender s)) = explicit s /\
  probe_ok (snd (drop_sender s)) (fst (drop_sender s)).
Proof.
  intros R Hl Hps.
  pose proof (reach_step _ _ _ R Hl) as R1.
  destruct (sec_step s DropSenderDec) as (S1 & X1 & P1).
  assert (N1 : DropSenderDec <> Teardown) by discriminate.
  assert (C1 : DropSenderDec <> Close) by discriminate.
  specialize (X1 C1). specialize (P1 N1).
  pose proof (legal_not_gone _ _ Hl) as Hg.
  unfold drop_sender. rewrite (step_c_legal _ _ Hl).
  destruct (step s DropSenderDec) as [s1 o1] eqn:E1. cbn [fst snd] in *.
  unfold hsum in S1 at 2. cbn [hnext] in S1. rewrite Hps in S1.
  assert (S1' := S1). unfold hsum in S1'. apply hv_inj in S1'. destruct S1' as (_ & _ & Eps & _ & Eg).
  destruct (Nat.ltb 0 (pend_sclose s1)) eqn:Ep.
  - assert (Hl2 : legal s1 DropSenderClose = true) by (unfold legal; rewrite Eg, Hg, Ep; reflexivity).
    pose proof (reach_step _ _ _ R1 Hl2) as R2.
    destruct (sec_step s1 DropSenderClose) as (S2 & X2 & P2).
    assert (N2 : DropSenderClose <> Teardown) by discriminate.
    assert (C2 : DropSenderClose <> Close) by discriminate.
    specialize (X2 C2). specialize (P2 N2).
    rewrite (step_c_legal _ _ Hl2).
    destruct (step s1 DropSenderClose) as [s2 o2] eqn:E2. cbn [fst snd] in *.
    unfold probe_ok. cbn [with_res seq_obs o_probe].
    split; [exact R2|]. split; [|split; [congruence|exact P2]].
    rewrite S2, S1. cbn [hnext].
    destruct (Nat.eqb (senders s) 1); reflexivity.
  - unfold probe_ok. cbn [fst snd with_res o_probe].
    split; [exact R1|]. split; [|split; [exact X1|exact P1]].
    rewrite S1. apply Nat.ltb_ge in Ep. rewrite Eps in Ep.
    destruct (Nat.eqb (senders s) 1); [lia|reflexivity].
Qed.

Lemma drop_receiver_h k s : Reach k s -> legal s DropReceiverDec = true -> pend_rclose s = 0 ->
  Reach k (fst (drop_receiver s)) /\
  hsum (fst (drop_receiver s)) = (senders s, pred (receivers s), pend_sclose s, 0, gone s) /\
  explicit (fst (drop_receiver s)) = explicit s /\
  probe_ok (snd (drop_receiver s)) (fst (drop_receiver s)).
Proof.
  intros R Hl Hpr.
  pose proof (reach_step _ _ _ R Hl) as R1.
  destruct (sec_step s DropReceiverDec) as (S1 & X1 & P1).
  assert (N1 : DropReceiverDec <> Teardown) by discriminate.
  assert (C1 : DropReceiverDec <> Close) by discriminate.
  specialize (X1 C1). specialize (P1 N1).
  pose proof (legal_not_gone _ _ Hl) as Hg.
  unfold drop_receiver. rewrite (step_c_legal _ _ Hl).
  destruct (step s DropReceiverDec) as [s1 o1] eqn:E1. cbn [fst snd] in *.
  unfold hsum in S1 at 2. cbn [hnext] in S1. rewrite Hpr in S1.
  assert (S1' := S1). unfold hsum in S1'. apply hv_inj in S1'. destruct S1' as (_ & _ & _ & Epr & Eg).
  destruct (Nat.ltb 0 (pend_rclose s1)) eqn:Ep.
  - assert (Hl2 : legal s1 DropReceiverClose = true) by (unfold legal; rewrite Eg, Hg, Ep; reflexivity).
    pose proof (reach_step _ _ _ R1 Hl2) as R2.
    destruct (sec_step s1 DropReceiverClose) as (S2 & X2 & P2).
    assert (N2 : DropReceiverClose <> Teardown) by discriminate.
    assert (C2 : DropReceiverClose <> Close) by discriminate.
    specialize (X2 C2). specialize (P2 N2).
    rewrite (step_c_legal _ _ Hl2).
    destruct (step s1 DropReceiverClose) as [s2 o2] eqn:E2. cbn [fst snd] in *.
    unfold probe_ok. cbn [with_res seq_obs o_probe].
    split; [exact R2|]. split; [|split; [congruence|exact P2]].
    rewrite S2, S1. cbn [hnext].
    destruct (Nat.eqb (receivers s) 1); reflexivity.
  - unfold probe_ok. cbn [fst snd with_res o_probe].
    split; [exact R1|]. split; [|split; [exact X1|exact P1]].
    rewrite S1. apply Nat.ltb_ge in Ep. rewrite Epr in Ep.
    destruct (Nat.eqb (receivers s) 1); [lia|reflexivity].
Qed.

(* ------------------------------------------------------------------ *)
(* one whole call *)
Lemma mstep_h k s m l : Reach k s -> HM m s -> mlegal s l = true ->
  h_good (hmon_step m (l, snd (mstep s l))) = h_good m /\
  (gone (fst (mstep s l)) = true \/
   (Reach k (fst (mstep s l)) /\ HM (hmon_step m (l, snd (mstep s l))) (fst (mstep s l)))).
Proof.
  intros R M Hml.
  pose proof M as [Ms Mr Me Mps Mpr Mg].
  rewrite hmon_step_kind.
  destruct (decode l) as [o|] eqn:E.
  - destruct (decode_facts s l o E) as (St & L & K).
    rewrite K. rewrite L in Hml. apply andb_true_iff in Hml. destruct Hml as [Hp Hl].
    rewrite St, (step_c_legal _ _ Hl).
    destruct (teardown_dec o) as [->|Hnt].
    + split; [reflexivity|left; reflexivity].
    + pose proof (reach_step _ _ _ R Hl) as R'.
      destruct (sec_step s o) as (S1 & X1 & P1). specialize (P1 Hnt).
      assert (Hk : ohkind o <> HTeardown) by (destruct o; try discriminate; congruence).
      destruct (hstep_fin k m (ohkind o) (snd (step s o)) _ Hk R') as [G H']; [|exact P1|].
      * unfold hsum in S1. rewrite Mps, Mpr, Mg in S1.
        destruct o; try discriminate Hp; try congruence; cbn [hnext] in S1;
          apply hv_inj in S1; destruct S1 as (E1 & E2 & E3 & E4 & E5);
          (constructor; cbn [hpre ohkind h_senders h_receivers h_explicit]; try congruence);
          try (intros He; rewrite X1 by discriminate; auto).
      * split; [exact G|right; split; [exact R'|exact H']].
  - destruct (decode_none s l E Hml) as [-> | ->].
    + change (mlegal s [9%N]) with (legal s DropSenderDec) in Hml.
      change (mstep s [9%N]) with (if legal s DropSenderDec then drop_sender s else (s, bad_obs)).
      rewrite Hml. cbn [hkind].
      destruct (drop_sender_h k s R Hml Mps) as (R' & S1 & X1 & P1).
      assert (Hk : HDropS <> HTeardown) by discriminate.
      destruct (hstep_fin k m HDropS (snd (drop_sender s)) _ Hk R') as [G H']; [|exact P1|].
      * unfold hsum in S1. apply hv_inj in S1. destruct S1 as (E1 & E2 & E3 & E4 & E5).
        constructor; cbn [hpre h_senders h_receivers h_explicit]; try congruence.
        intros He. rewrite X1. auto.
      * split; [exact G|right; split; [exact R'|exact H']].
    + change (mlegal s [13%N]) with (legal s DropReceiverDec) in Hml.
      change (mstep s [13%N]) with (if legal s DropReceiverDec then drop_receiver s else (s, bad_obs)).
      rewrite Hml. cbn [hkind].
      destruct (drop_receiver_h k s R Hml Mpr) as (R' & S1 & X1 & P1).
      assert (Hk : HDropR <> HTeardown) by discriminate.
      destruct (hstep_fin k m HDropR (snd (drop_receiver s)) _ Hk R') as [G H']; [|exact P1|].
      * unfold hsum in S1. apply hv_inj in S1. destruct S1 as (E1 & E2 & E3 & E4 & E5).
        constructor; cbn [hpre h_senders h_receivers h_explicit]; try congruence.
        intros He. rewrite X1. auto.
      * split; [exact G|right; split; [exact R'|exact H']].
Qed.

(* ------------------------------------------------------------------ *)
(* runs *)
Lemma handles_run k : forall ls s m,
  Reach k s -> HM m s -> h_good m = true -> mlegal_run s ls = true ->
  h_good (fold_left hmon_step (mtrace s ls) m) = true.
Proof.
  induction ls as [|l r IH]; intros s m R M Hok Hr; [exact Hok|].
  cbn [mlegal_run] in Hr. apply andb_true_iff in Hr. destruct Hr as [Hl Hr].
  destruct (mstep_h k s m l R M Hl) as [K [Hg|(R' & M')]].
  - (* torn down: the run ends here *)
    destruct r as [|l' r'].
    + cbn [mtrace]. destruct (mstep s l) as [s' ob]. cbn [fst snd fold_left mtrace] in *. congruence.
    + cbn [mlegal_run] in Hr. rewrite (gone_not_mlegal _ l' Hg) in Hr. discriminate Hr.
  - cbn [mtrace]. destruct (mstep s l) as [s' ob] eqn:E. cbn [fst snd fold_left] in *.
    apply (IH s'); auto. congruence.
Qed.

Theorem handles_trace_holds : forall k ls,
  mlegal_run (init k) ls = true ->
  handles_ok (mtrace (init k) ls) = true.
Proof.
  intros k ls Hr. unfold handles_ok.
  apply (handles_run k ls (init k)); auto.
  - apply reach_init.
  - apply hm_init.
Qed.
