(* Cross-cutting corollaries of the seven primitive models (C01, C17, C18):
   queue exactness, absence of panics under the contract, the future protocol
   (complete once / is_terminated exact / re-poll panics) and the allocation observable. *)
From FI Require Import Base.
From FI Require Event Mutex Semaphore Mpmc Oneshot StateBcast Timer DList PHeapPtr.
From FI Require EventProofs MutexProofs SemaphoreProofs MpmcProofs MpmcWakeProofs
                OneshotProofs StateBcastProofs TimerProofs.

(* ---------------------------------------------------------------------- *)
(* generic tactics *)

(* brute-force case analysis of the [if] / [match] / [let '(..)] structure of a goal *)
Ltac brk1 :=
  cbv beta iota zeta;
  match goal with
  | |- context [match ?x with _ => _ end] =>
      lazymatch x with
      | context [match _ with _ => _ end] => fail
      | _ => destruct x eqn:?
      end
  end.
Ltac brk := repeat brk1.

Ltac bool_hyps :=
  repeat match goal with
  | H : (_ && _)%bool = true |- _ => apply andb_true_iff in H; destruct H
  | H : negb _ = true |- _ => apply negb_true_iff in H
  | H : negb _ = false |- _ => apply negb_false_iff in H
  | H : Nat.ltb _ _ = true |- _ => apply Nat.ltb_lt in H
  | H : Nat.eqb _ _ = true |- _ => apply Nat.eqb_eq in H
  end.

(* ====================================================================== *)
(* C18: allocation observable *)

Lemma alloc_event : forall s o, o_alloc (snd (Event.step s o)) = 0%N.
Proof. intros s o; destruct o; unfold Event.step; brk; reflexivity. Qed.

Lemma alloc_mutex : forall s o, o_alloc (snd (Mutex.step s o)) = 0%N.
Proof. intros s o; destruct o; unfold Mutex.step; brk; reflexivity. Qed.

Lemma alloc_semaphore : forall s o, o_alloc (snd (Semaphore.step s o)) = 0%N.
Proof. intros s o; destruct o; unfold Semaphore.step; brk; reflexivity. Qed.

Lemma alloc_mpmc : forall s o, o_alloc (snd (Mpmc.step s o)) = 0%N.
Proof. intros s o; destruct o; unfold Mpmc.step; try reflexivity; brk; reflexivity. Qed.

Lemma alloc_oneshot : forall s o, o_alloc (snd (Oneshot.step s o)) = 0%N.
Proof. intros s o; destruct o; unfold Oneshot.step; try reflexivity; brk; reflexivity. Qed.

Lemma alloc_state : forall s o, o_alloc (snd (StateBcast.step s o)) = 0%N.
Proof. intros s o; destruct o; unfold StateBcast.step; try reflexivity; brk; reflexivity. Qed.

Lemma alloc_timer : forall s o, o_alloc (snd (Timer.step s o)) = 0%N.
Proof. intros s o; destruct o; unfold Timer.step; try reflexivity; brk; reflexivity. Qed.

Lemma alloc_zero :
  (forall s o, o_alloc (snd (Event.step s o)) = 0%N) /\
  (forall s o, o_alloc (snd (Mutex.step s o)) = 0%N) /\
  (forall s o, o_alloc (snd (Semaphore.step s o)) = 0%N) /\
  (forall s o, o_alloc (snd (Mpmc.step s o)) = 0%N) /\
  (forall s o, o_alloc (snd (Oneshot.step s o)) = 0%N) /\
  (forall s o, o_alloc (snd (StateBcast.step s o)) = 0%N) /\
  (forall s o, o_alloc (snd (Timer.step s o)) = 0%N).
Proof.
  repeat split.
  - apply alloc_event. - apply alloc_mutex. - apply alloc_semaphore. - apply alloc_mpmc.
  - apply alloc_oneshot. - apply alloc_state. - apply alloc_timer.
Qed.

(* ---------------------------------------------------------------------- *)
(* C18: the pointer-level operations never change the domain of the cell store *)
Module DL.
  Import DList.

  Definition len (d : dlist) : nat := length (cells d).

  Lemma len_cset d n c : len (cset d n c) = len d.
  Proof. apply upd_length. Qed.
  Lemma len_set_prev d n p : len (set_prev d n p) = len d.
  Proof. apply upd_length. Qed.
  Lemma len_set_next d n p : len (set_next d n p) = len d.
  Proof. apply upd_length. Qed.
  Lemma len_set_head d h : len (set_head d h) = len d.
  Proof. reflexivity. Qed.
  Lemma len_set_tail d t : len (set_tail d t) = len d.
  Proof. reflexivity. Qed.

  Ltac lens := repeat first [rewrite len_cset | rewrite len_set_prev | rewrite len_set_next
                            | rewrite len_set_head | rewrite len_set_tail]; try reflexivity.

  Lemma len_add_front d n : len (add_front d n) = len d.
  Proof. unfold add_front. brk; lens. Qed.

  Lemma len_remove_first d : len (fst (fst (remove_first d))) = len d.
  Proof. unfold remove_first. brk; cbn [fst]; repeat match goal with H : (_, _) = (_, _) |- _ => inversion H; subst; clear H end; lens. Qed.

  Lemma len_remove_last d : len (fst (fst (remove_last d))) = len d.
  Proof. unfold remove_last. brk; cbn [fst]; repeat match goal with H : (_, _) = (_, _) |- _ => inversion H; subst; clear H end; lens. Qed.

  Lemma len_remove_node d n : len (fst (fst (remove_node d n))) = len d.
  Proof. unfold remove_node. brk; cbn [fst]; repeat match goal with H : (_, _) = (_, _) |- _ => inversion H; subst; clear H end; lens. Qed.

  Lemma len_drain_from fuel : forall d cur fwd acc, len (fst (drain_from fuel d cur fwd acc)) = len d.
  Proof.
    induction fuel as [|k IH]; intros d cur fwd acc; cbn [drain_from]; [reflexivity|].
    destruct cur as [n|]; [|reflexivity]. rewrite IH. apply len_cset.
  Qed.

  Lemma store_domain : forall d o, length (cells (fst (step d o))) = length (cells d).
  Proof.
    intros d o. change (len (fst (step d o)) = len d).
    destruct o; unfold step.
    - cbv zeta. cbn [fst]. apply len_add_front.
    - pose proof (len_remove_first d) as H. destruct (remove_first d) as [[d' r] oc]. exact H.
    - pose proof (len_remove_last d) as H. destruct (remove_last d) as [[d' r] oc]. exact H.
    - pose proof (len_remove_node d n) as H. destruct (remove_node d n) as [[d' r] oc]. exact H.
    - unfold drain. pose proof (len_drain_from (S (length (cells d))) (mkDL None None (cells d)) (head d) true []) as H.
      destruct (drain_from _ _ _ _ _) as [d' vs]. exact H.
    - unfold reverse_drain.
      pose proof (len_drain_from (S (length (cells d))) (mkDL None None (cells d)) (tail d) false []) as H.
      destruct (drain_from _ _ _ _ _) as [d' vs]. exact H.
    - reflexivity.
    - reflexivity.
    - destruct (is_empty d). reflexivity.
  Qed.
End DL.

Module PH.
  Import PHeapPtr.

  Definition len (h : pheap) : nat := length (hcells h).

  Lemma len_hset h n c : len (hset h n c) = len h.
  Proof. apply upd_length. Qed.
  Lemma len_chk h b : len (chk h b) = len h.
  Proof. reflexivity. Qed.
  Lemma len_set_root h r : len (set_root h r) = len h.
  Proof. reflexivity. Qed.
  Lemma len_set_parent h n v : len (set_parent h n v) = len h.
  Proof. apply upd_length. Qed.
  Lemma len_set_hprev h n v : len (set_hprev h n v) = len h.
  Proof. apply upd_length. Qed.
  Lemma len_set_hnext h n v : len (set_hnext h n v) = len h.
  Proof. apply upd_length. Qed.
  Lemma len_set_child h n v : len (set_child h n v) = len h.
  Proof. apply upd_length. Qed.

  Ltac lens := repeat first [rewrite len_hset | rewrite len_chk | rewrite len_set_root | rewrite len_set_parent
                            | rewrite len_set_hprev | rewrite len_set_hnext | rewrite len_set_child];
               try reflexivity.

  Lemma len_is_root h n : len (fst (is_root h n)) = len h.
  Proof. unfold is_root. brk; cbn [fst]; lens. Qed.

  Lemma len_add_child h p c : len (add_child h p c) = len h.
  Proof. unfold add_child. brk; lens. Qed.

  Lemma len_meld h l r : len (fst (meld h l r)) = len h.
  Proof.
    unfold meld.
    pose proof (len_is_root h l) as H1. destruct (is_root h l) as [h1 b1]. cbn [fst] in H1.
    pose proof (len_is_root h1 r) as H2. destruct (is_root h1 r) as [h2 b2]. cbn [fst] in H2.
    cbv zeta. destruct (N.ltb _ _); cbn [fst]; rewrite len_add_child, len_chk; congruence.
  Qed.

  Lemma len_maybe_meld h cur r : len (fst (maybe_meld h cur r)) = len h.
  Proof. unfold maybe_meld. destruct cur; [apply len_meld|reflexivity]. Qed.

  Lemma len_unlink_prev h n : len (fst (unlink_prev h n)) = len h.
  Proof. unfold unlink_prev. brk; cbn [fst]; lens. Qed.

  Lemma len_merge_loop fuel : forall h common node cur,
    len (fst (merge_loop fuel h common node cur)) = len h.
  Proof.
    induction fuel as [|k IH]; intros h common node cur; cbn [merge_loop]; [reflexivity|].
    cbv zeta.
    match goal with |- context [unlink_prev ?a ?b] =>
      pose proof (len_unlink_prev a b) as H1; destruct (unlink_prev a b) as [h1 op] end.
    cbn [fst] in H1. rewrite len_chk, len_set_parent in H1.
    destruct op as [p|].
    - match goal with |- context [unlink_prev ?a ?b] =>
        pose proof (len_unlink_prev a b) as H2; destruct (unlink_prev a b) as [h2 opp] end.
      cbn [fst] in H2. rewrite len_chk, len_set_parent in H2.
      pose proof (len_meld h2 p node) as H3. destruct (meld h2 p node) as [h3 m]. cbn [fst] in H3.
      pose proof (len_maybe_meld h3 cur m) as H4. destruct (maybe_meld h3 cur m) as [h4 c]. cbn [fst] in H4.
      destruct opp as [q|]; [rewrite IH|cbn [fst]]; congruence.
    - rewrite len_maybe_meld. exact H1.
  Qed.

  Lemma len_merge_children h fc : len (fst (merge_children h fc)) = len h.
  Proof. unfold merge_children. cbv zeta. rewrite len_merge_loop. apply len_chk. Qed.

  Lemma len_pinsert h n : len (pinsert h n) = len h.
  Proof.
    unfold pinsert.
    pose proof (len_is_root h n) as H1. destruct (is_root h n) as [h1 r]. cbn [fst] in H1.
    cbv zeta. destruct (root _) as [rt|].
    - match goal with |- context [meld ?a ?b ?c] =>
        pose proof (len_meld a b c) as H2; destruct (meld a b c) as [h2 m] end.
      cbn [fst] in H2. rewrite len_set_root, H2, len_chk. exact H1.
    - rewrite len_set_root, len_chk. exact H1.
  Qed.

  Lemma len_premove h n : len (premove h n) = len h.
  Proof.
    unfold premove. cbv zeta.
    set (h1 := match h_parent (hget h n) with Some p => _ | None => _ end).
    assert (E1 : len h1 = len h).
    { unfold h1. brk; lens. }
    clearbody h1.
    destruct (h_child (hget h1 n)) as [fc|]; [|exact E1].
    match goal with |- context [merge_children ?a ?b] =>
      pose proof (len_merge_children a b) as H2; destruct (merge_children a b) as [h2 m] end.
    cbn [fst] in H2. rewrite len_set_child in H2.
    destruct (h_parent (hget h n)); [rewrite len_add_child|rewrite len_set_root]; congruence.
  Qed.

  Lemma store_domain : forall h o, length (hcells (fst (step h o))) = length (hcells h).
  Proof.
    intros h o. change (len (fst (step h o)) = len h).
    destruct o; unfold step; cbv zeta; cbn [fst].
    - apply len_pinsert.
    - apply len_premove.
    - reflexivity.
  Qed.
End PH.

Lemma store_domain_preserved :
  (forall d o, length (DList.cells (fst (DList.step d o))) = length (DList.cells d)) /\
  (forall h o, length (PHeapPtr.hcells (fst (PHeapPtr.step h o))) = length (PHeapPtr.hcells h)).
Proof. split; [exact DL.store_domain|exact PH.store_domain]. Qed.

(* ====================================================================== *)
(* C17: a poll after completion panics and changes nothing *)

Lemma event_repoll : forall s f w, Event.f_hp (Event.get s f) = false ->
  fst (Event.step s (Event.Poll f w)) = s /\ o_res (snd (Event.step s (Event.Poll f w))) = [R_PANIC].
Proof. intros s f w H. unfold Event.step. rewrite H. split; reflexivity. Qed.

Lemma mutex_repoll : forall s f w, Mutex.f_hp (Mutex.get s f) = false ->
  fst (Mutex.step s (Mutex.Poll f w)) = s /\ o_res (snd (Mutex.step s (Mutex.Poll f w))) = [R_PANIC].
Proof. intros s f w H. unfold Mutex.step. rewrite H. split; reflexivity. Qed.

Lemma semaphore_repoll : forall s f w, Semaphore.f_hp (Semaphore.get s f) = false ->
  fst (Semaphore.step s (Semaphore.Poll f w)) = s /\
  o_res (snd (Semaphore.step s (Semaphore.Poll f w))) = [R_PANIC].
Proof. intros s f w H. unfold Semaphore.step. rewrite H. split; reflexivity. Qed.

Lemma mpmc_repoll : forall s f w,
  (Mpmc.r_hp (Mpmc.getr s f) = false ->
     fst (Mpmc.step s (Mpmc.PollRecv f w)) = s /\ o_res (snd (Mpmc.step s (Mpmc.PollRecv f w))) = [R_PANIC]) /\
  (Mpmc.s_hp (Mpmc.gets s f) = false ->
     fst (Mpmc.step s (Mpmc.PollSend f w)) = s /\ o_res (snd (Mpmc.step s (Mpmc.PollSend f w))) = [R_PANIC]).
Proof. intros s f w. split; intros H; unfold Mpmc.step; rewrite H; split; reflexivity. Qed.

Lemma oneshot_repoll : forall s f w, Oneshot.r_hp (Oneshot.getr s f) = false ->
  fst (Oneshot.step s (Oneshot.PollRecv f w)) = s /\
  o_res (snd (Oneshot.step s (Oneshot.PollRecv f w))) = [R_PANIC].
Proof. intros s f w H. unfold Oneshot.step. rewrite H. split; reflexivity. Qed.

Lemma state_repoll : forall s f w, StateBcast.r_hp (StateBcast.getr s f) = false ->
  fst (StateBcast.step s (StateBcast.PollRecv f w)) = s /\
  o_res (snd (StateBcast.step s (StateBcast.PollRecv f w))) = [R_PANIC].
Proof. intros s f w H. unfold StateBcast.step. rewrite H. split; reflexivity. Qed.

Lemma timer_repoll : forall s f w, Timer.f_hp (Timer.get s f) = false ->
  fst (Timer.step s (Timer.Poll f w)) = s /\ o_res (snd (Timer.step s (Timer.Poll f w))) = [R_PANIC].
Proof. intros s f w H. unfold Timer.step. rewrite H. split; reflexivity. Qed.

(* ====================================================================== *)
(* C01: queue exactness *)

Lemma event_queue : forall k b s, Event.Reach k b s ->
  NoDup (Event.waiters s) /\
  (forall f, In f (Event.waiters s) <->
     (Event.f_alive (Event.get s f) = true /\ Event.f_st (Event.get s f) = Event.Waiting)).
Proof.
  intros k b s R. pose proof (EventProofs.reach_inv k b s R) as I.
  split; [apply (EventProofs.inv_nodup s I)|apply (EventProofs.inv_exact s I)].
Qed.

Lemma mutex_queue : forall k b s, Mutex.Reach k b s ->
  NoDup (Mutex.waiters s) /\
  (forall f, In f (Mutex.waiters s) <->
     (Mutex.f_alive (Mutex.get s f) = true /\ Mutex.f_hp (Mutex.get s f) = true /\
      (Mutex.f_st (Mutex.get s f) = Mutex.Waiting \/
       (Mutex.fair s = true /\ Mutex.f_st (Mutex.get s f) = Mutex.Notified)))).
Proof.
  intros k b s R. destruct (MutexProofs.reach_inv k b s R) as [B _].
  split; [apply (MutexProofs.b_nodup s B)|exact (MutexProofs.b_exact s B)].
Qed.

Lemma semaphore_queue : forall k b p s, Semaphore.Reach k b p true s ->
  NoDup (Semaphore.waiters s) /\
  (forall f, In f (Semaphore.waiters s) <->
     (Semaphore.f_alive (Semaphore.get s f) = true /\ Semaphore.f_hp (Semaphore.get s f) = true /\
      (Semaphore.f_st (Semaphore.get s f) = Semaphore.Waiting \/
       (Semaphore.fair s = true /\ Semaphore.f_st (Semaphore.get s f) = Semaphore.Notified)))).
Proof.
  intros k b p s R. destruct (SemaphoreProofs.reach_inv k b p s R) as [B _].
  split; [apply (SemaphoreProofs.b_nodup s B)|exact (SemaphoreProofs.b_exact s B)].
Qed.

Lemma mpmc_queues : forall kr ks c s, Mpmc.Reach kr ks c s ->
  NoDup (Mpmc.recvq s) /\ NoDup (Mpmc.sendq s) /\
  (forall f, In f (Mpmc.recvq s) <->
     (Mpmc.r_alive (Mpmc.getr s f) = true /\ Mpmc.r_hp (Mpmc.getr s f) = true /\
      Mpmc.r_st (Mpmc.getr s f) = Mpmc.RReg)) /\
  (forall f, In f (Mpmc.sendq s) <->
     (Mpmc.s_alive (Mpmc.gets s f) = true /\ Mpmc.s_hp (Mpmc.gets s f) = true /\
      Mpmc.s_st (Mpmc.gets s f) = Mpmc.SReg)).
Proof.
  intros kr ks c s R. destruct (MpmcProofs.reach_inv kr ks c s R) as [IR IS IH].
  split; [apply (MpmcProofs.ri_nd _ _ _ IR)|]. split; [apply (MpmcProofs.si_nd _ _ _ _ _ IS)|]. split.
  - intros f. unfold Mpmc.getr. rewrite (MpmcProofs.ri_in _ _ _ IR f). split.
    + intros E. destruct (MpmcProofs.ri_reg _ _ _ IR f E) as (A & B & _). auto.
    + intros (_ & _ & E). exact E.
  - intros f. unfold Mpmc.gets. rewrite (MpmcProofs.si_in _ _ _ _ _ IS f). split.
    + intros E. destruct (MpmcProofs.so_reg _ _ (MpmcProofs.si_ok _ _ _ _ _ IS f) E) as (A & B & _). auto.
    + intros (_ & _ & E). exact E.
Qed.

Lemma oneshot_queue : forall k b cnt s, Oneshot.Reach k b cnt s ->
  NoDup (Oneshot.waiters s) /\
  (forall f, In f (Oneshot.waiters s) <->
     (Oneshot.r_alive (Oneshot.getr s f) = true /\ Oneshot.r_hp (Oneshot.getr s f) = true /\
      Oneshot.r_st (Oneshot.getr s f) = Oneshot.RReg)).
Proof.
  intros k b cnt s R. pose proof (OneshotProofs.reach_inv k b cnt s R) as I.
  split; [apply (OneshotProofs.inv_nodup s I)|apply (OneshotProofs.inv_exact s I)].
Qed.

Lemma state_queue : forall k s, StateBcast.Reach k s ->
  NoDup (StateBcast.waiters s) /\
  (forall f, In f (StateBcast.waiters s) <->
     (StateBcast.r_alive (StateBcast.getr s f) = true /\ StateBcast.r_hp (StateBcast.getr s f) = true /\
      StateBcast.r_st (StateBcast.getr s f) = StateBcast.RReg)).
Proof.
  intros k s R. destruct (StateBcastProofs.queue_exact k s R) as (A & B & _). split; auto.
Qed.

Lemma timer_heap : forall k s, Timer.Reach k s ->
  NoDup (Timer.helements (Timer.heap s)) /\
  (forall f, In f (Timer.helements (Timer.heap s)) <->
     (Timer.f_alive (Timer.get s f) = true /\ Timer.f_hp (Timer.get s f) = true /\
      Timer.f_st (Timer.get s f) = Timer.Reg)).
Proof.
  intros k s R. destruct (TimerProofs.heap_exact k s R) as (A & B & _). split; auto.
Qed.

(* ====================================================================== *)
(* C01: no contract-respecting call panics or leaves the container protocol *)

Ltac res_red :=
  cbv beta iota zeta delta [hd o_res snd fst Event.mk_obs Mutex.mk_obs Semaphore.mk_obs Mpmc.mk_obs
                            Oneshot.mk_obs StateBcast.mk_obs Timer.mk_obs].

Ltac np_fin :=
  res_red; cbv delta [Rbool]; brk;
  split; discriminate.

Lemma event_no_panic : forall k b s o, Event.Reach k b s -> Event.legal s o = true ->
  hd 0%N (o_res (snd (Event.step s o))) <> R_PANIC /\ hd 0%N (o_res (snd (Event.step s o))) <> R_UB.
Proof.
  intros k b s o R Hl. pose proof (EventProofs.reach_inv k b s R) as I.
  destruct (EventProofs.no_panic s o I Hl) as [H1 H2]. revert H1 H2.
  destruct o; unfold Event.step; brk; res_red; intros H1 H2;
    try (exfalso; apply H1; reflexivity); try (exfalso; apply H2; reflexivity); np_fin.
Qed.

Lemma mutex_no_panic : forall k b s o, Mutex.Reach k b s -> Mutex.legal s o = true ->
  hd 0%N (o_res (snd (Mutex.step s o))) <> R_PANIC /\ hd 0%N (o_res (snd (Mutex.step s o))) <> R_UB.
Proof.
  intros k b s o R Hl. pose proof (MutexProofs.reach_inv k b s R) as I.
  destruct o as [f|f w|f| | |]; simpl in Hl; bool_hyps.
  - unfold Mutex.step. np_fin.
  - destruct (MutexProofs.step_poll s f w I H H0) as [(E & _)|(E & _)]; rewrite E; np_fin.
  - destruct (MutexProofs.step_drop s f I Hl) as [(_ & E)|(_ & s' & wk & _ & E)]; rewrite E; np_fin.
  - unfold Mutex.step. destruct (Mutex.can_lock_sync s); np_fin.
  - destruct (MutexProofs.step_dropguard s I Hl) as (_ & s' & wk & _ & E). rewrite E. np_fin.
  - unfold Mutex.step. np_fin.
Qed.

Lemma semaphore_no_panic : forall k b p s o, Semaphore.Reach k b p true s -> Semaphore.legal s o = true ->
  hd 0%N (o_res (snd (Semaphore.step s o))) <> R_PANIC /\ hd 0%N (o_res (snd (Semaphore.step s o))) <> R_UB.
Proof.
  intros k b p s o R Hl. pose proof (SemaphoreProofs.reach_inv k b p s R) as I.
  destruct (SemaphoreProofs.step_out s o I Hl) as (b0 & m & res & O & E). rewrite E.
  assert (Er : o_res (snd (SemaphoreProofs.fin b0 m res)) = res) by (destruct b0; reflexivity).
  rewrite Er. destruct O; cbn [hd]; split; discriminate.
Qed.

Lemma mpmc_no_panic : forall kr ks c s o, Mpmc.Reach kr ks c s -> Mpmc.legal s o = true ->
  hd 0%N (o_res (snd (Mpmc.step s o))) <> R_PANIC /\ hd 0%N (o_res (snd (Mpmc.step s o))) <> R_UB.
Proof.
  intros kr ks c s o R Hl. pose proof (MpmcProofs.reach_inv kr ks c s R) as I.
  pose proof (MpmcProofs.step_out s o I Hl) as O.
  destruct O; cbn [hd]; cbv delta [Rbool]; brk; cbn [hd]; split; discriminate.
Qed.

Lemma oneshot_no_panic : forall k b cnt s o, Oneshot.Reach k b cnt s -> Oneshot.legal s o = true ->
  hd 0%N (o_res (snd (Oneshot.step s o))) <> R_PANIC /\ hd 0%N (o_res (snd (Oneshot.step s o))) <> R_UB.
Proof.
  intros k b cnt s o R Hl. pose proof (OneshotProofs.reach_inv k b cnt s R) as I.
  destruct I as [Hnd Hex Hful Hfut Hdead Hval Hsent].
  unfold Oneshot.legal in Hl. apply andb_true_iff in Hl. destruct Hl as [Hg Hl].
  destruct o as [v| |f|f w|f| | | | |]; unfold Oneshot.step; try np_fin.
  - (* PollRecv *)
    bool_hyps. rename H into Ha, H0 into Hhp. rewrite Hhp. cbn [negb].
    destruct (Hfut f Ha) as [Freg Fnot Fnohp].
    destruct (Oneshot.r_st (Oneshot.getr s f)) eqn:Est.
    + destruct (Oneshot.value s); [np_fin|]. destruct (Oneshot.fulfilled s); [np_fin|].
      assert (Hm : memb f (Oneshot.waiters s) = false).
      { apply memb_false. intro Hin. apply Hex in Hin. destruct Hin as (_ & _ & E). congruence. }
      rewrite Hm. np_fin.
    + np_fin.
    + exfalso. apply Fnot. reflexivity.
  - (* DropRecv *)
    destruct (Oneshot.r_hp (Oneshot.getr s f)) eqn:Hhp; [|np_fin].
    destruct (Oneshot.r_st (Oneshot.getr s f)) eqn:Est; try np_fin.
    assert (Hm : memb f (Oneshot.waiters s) = true) by (apply memb_In; apply Hex; auto).
    rewrite Hm. np_fin.
Qed.

Lemma state_no_panic : forall k s o, StateBcast.Reach k s -> StateBcast.legal s o = true ->
  hd 0%N (o_res (snd (StateBcast.step s o))) <> R_PANIC /\ hd 0%N (o_res (snd (StateBcast.step s o))) <> R_UB.
Proof.
  intros k s o R Hl. destruct (StateBcastProofs.queue_exact k s R) as (Hnd & Hex & _).
  unfold StateBcast.legal in Hl. apply andb_true_iff in Hl. destruct Hl as [Hg Hl].
  destruct o as [v| |i|f i|f w|f| | | | | | |n|]; unfold StateBcast.step; try np_fin.
  - (* PollRecv *)
    bool_hyps. rename H into Ha, H0 into Hhp. rewrite Hhp. cbn [negb].
    destruct (StateBcast.r_st (StateBcast.getr s f)) eqn:Est; [|np_fin].
    destruct (StateBcast.deliverable s _); [np_fin|]. destruct (StateBcast.closed s); [np_fin|].
    assert (Hm : memb f (StateBcast.waiters s) = false).
    { apply memb_false. intro Hin. apply Hex in Hin. destruct Hin as (_ & _ & E). congruence. }
    rewrite Hm. np_fin.
  - (* DropRecv *)
    destruct (StateBcast.r_hp (StateBcast.getr s f)) eqn:Hhp; [|np_fin].
    destruct (StateBcast.r_st (StateBcast.getr s f)) eqn:Est; try np_fin.
    assert (Hm : memb f (StateBcast.waiters s) = true) by (apply memb_In; apply Hex; auto).
    rewrite Hm. np_fin.
Qed.

Lemma timer_no_panic : forall k s o, Timer.Reach k s -> Timer.legal s o = true ->
  hd 0%N (o_res (snd (Timer.step s o))) <> R_PANIC /\ hd 0%N (o_res (snd (Timer.step s o))) <> R_UB.
Proof.
  intros k s o R Hl. destruct (TimerProofs.heap_exact k s R) as (Hnd & Hex & _).
  destruct o as [t|f t|f a c|f w|f| |]; unfold Timer.step; try np_fin.
  - (* Poll *)
    simpl in Hl. bool_hyps. rename H into Ha, H0 into Hhp. rewrite Hhp. cbn [negb].
    destruct (Timer.f_st (Timer.get s f)) eqn:Est; try np_fin.
    destruct (N.leb _ _); [np_fin|].
    assert (Hm : memb f (Timer.helements (Timer.heap s)) = false).
    { apply memb_false. intro Hin. apply Hex in Hin. destruct Hin as (_ & _ & E). congruence. }
    unfold memb in Hm. rewrite Hm. np_fin.
  - (* DropFut *)
    simpl in Hl.
    destruct (Timer.f_hp (Timer.get s f)) eqn:Hhp; [|np_fin].
    destruct (Timer.f_st (Timer.get s f)) eqn:Est; try np_fin.
    assert (Hm : memb f (Timer.helements (Timer.heap s)) = true) by (apply memb_In; apply Hex; auto).
    unfold memb in Hm. cbn [andb]. rewrite Hm. np_fin.
Qed.

(* ====================================================================== *)
(* C17: the future protocol *)

Lemma eqb_neq_false g f : g <> f -> Nat.eqb g f = false.
Proof. apply Nat.eqb_neq. Qed.

Module EvP.
  Import Event.

  Definition sameah (fs fs' : list fut) : Prop :=
    forall g, f_alive (nth g fs' absent) = f_alive (nth g fs absent) /\
              f_hp (nth g fs' absent) = f_hp (nth g fs absent).

  Lemma sameah_refl fs : sameah fs fs.
  Proof. intros g; auto. Qed.

  Lemma sameah_trans a b c : sameah a b -> sameah b c -> sameah a c.
  Proof. intros H1 H2 g. destruct (H1 g), (H2 g). split; congruence. Qed.

  Lemma sameah_upd fs f x :
    f_alive x = f_alive (nth f fs absent) -> f_hp x = f_hp (nth f fs absent) -> sameah fs (upd f x fs).
  Proof.
    intros A B g. rewrite nth_upd. destruct (Nat.eqb_spec f g) as [->|]; cbn [andb]; auto.
    destruct (Nat.ltb g (length fs)); auto.
  Qed.

  Lemma wake_all_frame order : forall fs acc, sameah fs (fst (wake_all fs order acc)).
  Proof.
    induction order as [|f r IH]; intros fs acc; cbn [wake_all].
    - apply sameah_refl.
    - eapply sameah_trans; [|apply IH]. apply sameah_upd; reflexivity.
  Qed.

  Lemma mark_seen_frame fs : sameah fs (map mark_seen fs).
  Proof.
    intros g. rewrite (EventProofs.nth_map_absent mark_seen fs g EventProofs.mark_seen_absent).
    unfold mark_seen. destruct (_ && _)%bool; auto.
  Qed.

  Ltac leaf :=
    cbn [fst snd]; unfold get, setf in *; cbn [futs];
    rewrite ?nth_upd_same by assumption; rewrite ?nth_upd_other by assumption;
    let Ha' := fresh "Ha'" in
    intros Ha'; first [discriminate Ha' | reflexivity | assumption].

  Lemma event_protocol : forall k b s o, Reach k b s -> legal s o = true ->
    let s' := fst (step s o) in let ob := snd (step s o) in
    (forall f, f_alive (get s f) = true -> f_alive (get s' f) = true ->
       f_hp (get s' f) =
         f_hp (get s f) &&
         negb (match o with Poll g _ => Nat.eqb g f && N.eqb (hd 99%N (o_res ob)) R_READY | _ => false end)) /\
    (forall f, o = Create f -> f_alive (get s' f) = true /\ f_hp (get s' f) = true).
  Proof.
    intros k b s o _ Hl. cbv zeta. split.
    - intros f Ha. pose proof (EventProofs.alive_lt s f Ha) as Hlt.
      destruct o as [g|g w|g| | |]; simpl in Hl; bool_hyps;
        try (cbn [negb]; rewrite andb_true_r).
      + (* Create *)
        assert (Hne : g <> f) by (intro; subst; congruence).
        unfold step. leaf.
      + (* Poll *)
        rename H into Hga, H0 into Hhp. unfold step. rewrite Hhp. cbn [negb].
        destruct (Nat.eqb_spec g f) as [->|Hne].
        * rewrite Hhp. cbn [andb]. brk; leaf.
        * cbn [andb negb]. rewrite andb_true_r. brk; leaf.
      + (* DropFut *)
        unfold step. destruct (Nat.eqb_spec g f) as [->|Hne]; brk; leaf.
      + (* SetEv *)
        unfold step. destruct (is_set s).
        * cbn [fst]. unfold get; cbn [futs]. intros _. apply mark_seen_frame.
        * pose proof (wake_all_frame (rev (waiters s)) (futs s) []) as F.
          destruct (wake_all (futs s) (rev (waiters s)) []) as [fs wk]. cbn [fst] in *.
          unfold get; cbn [futs]. intros _.
          destruct (mark_seen_frame fs f) as [_ ->]. apply F.
      + reflexivity.
      + reflexivity.
    - intros f ->. simpl in Hl. bool_hyps. unfold step. cbn [fst]. unfold get, setf. cbn [futs].
      rewrite nth_upd_same by assumption. split; reflexivity.
  Qed.
End EvP.

Definition event_protocol := EvP.event_protocol.

Module MuP.
  Import Mutex.

  Definition sameah (fs fs' : list fut) : Prop :=
    forall g, f_alive (nth g fs' absent) = f_alive (nth g fs absent) /\
              f_hp (nth g fs' absent) = f_hp (nth g fs absent).

  Lemma sameah_refl fs : sameah fs fs.
  Proof. intros g; auto. Qed.

  Lemma sameah_upd fs f x :
    f_alive x = f_alive (nth f fs absent) -> f_hp x = f_hp (nth f fs absent) -> sameah fs (upd f x fs).
  Proof.
    intros A B g. rewrite nth_upd. destruct (Nat.eqb_spec f g) as [->|]; cbn [andb]; auto.
    destruct (Nat.ltb g (length fs)); auto.
  Qed.

  Lemma rlw_frame b ws fs : sameah fs (snd (fst (return_last_waiter b ws fs))).
  Proof.
    unfold return_last_waiter. destruct (olast ws) as [f|]; cbn [fst snd].
    - apply sameah_upd; reflexivity.
    - apply sameah_refl.
  Qed.

  Ltac frames :=
    repeat match goal with
    | |- context [return_last_waiter ?a ?b ?c] =>
        let F := fresh "F" in
        pose proof (rlw_frame a b c) as F;
        destruct (return_last_waiter a b c) as [[? ?] ?]; cbn [fst snd] in F
    end.

  Ltac leaf f :=
    cbn [fst snd]; unfold get in *; cbn [futs];
    repeat match goal with
    | F : sameah _ _ |- _ =>
        let Ea := fresh "Ea" in let Eh := fresh "Eh" in
        destruct (F f) as [Ea Eh]; rewrite ?Ea, ?Eh; clear F Ea Eh
    end;
    rewrite ?nth_upd_same by assumption; rewrite ?nth_upd_other by assumption;
    let Ha' := fresh "Ha'" in
    intros Ha'; first [discriminate Ha' | reflexivity | assumption].

  Lemma mutex_protocol : forall k b s o, Reach k b s -> legal s o = true ->
    let s' := fst (step s o) in let ob := snd (step s o) in
    (forall f, f_alive (get s f) = true -> f_alive (get s' f) = true ->
       f_hp (get s' f) =
         f_hp (get s f) &&
         negb (match o with Poll g _ => Nat.eqb g f && N.eqb (hd 99%N (o_res ob)) R_READY | _ => false end)) /\
    (forall f, o = Create f -> f_alive (get s' f) = true /\ f_hp (get s' f) = true).
  Proof.
    intros k b s o _ Hl. cbv zeta. split.
    - intros f Ha. pose proof (MutexProofs.alive_lt s f Ha) as Hlt.
      destruct o as [g|g w|g| | |]; simpl in Hl; bool_hyps;
        try (cbn [negb]; rewrite andb_true_r).
      + (* Create *)
        assert (Hne : g <> f) by (intro; subst; congruence).
        unfold step. leaf f.
      + (* Poll *)
        rename H into Hga, H0 into Hhp. unfold step. rewrite Hhp. cbn [negb].
        destruct (Nat.eqb_spec g f) as [->|Hne].
        * rewrite Hhp. cbn [andb]. brk; leaf f.
        * cbn [andb negb]. rewrite andb_true_r. brk; leaf f.
      + (* DropFut *)
        unfold step. destruct (Nat.eqb_spec g f) as [->|Hne]; frames; brk; leaf f.
      + (* TryLock *) unfold step. brk; leaf f.
      + (* DropGuard *) unfold step. frames; brk; leaf f.
      + reflexivity.
    - intros f ->. simpl in Hl. bool_hyps. unfold step. cbn [fst]. unfold get. cbn [futs].
      rewrite nth_upd_same by assumption. split; reflexivity.
  Qed.
End MuP.

Definition mutex_protocol := MuP.mutex_protocol.

Module SeP.
  Import Semaphore.

  Definition sameah (fs fs' : list fut) : Prop :=
    forall g, f_alive (nth g fs' absent) = f_alive (nth g fs absent) /\
              f_hp (nth g fs' absent) = f_hp (nth g fs absent).

  Lemma sameah_refl fs : sameah fs fs.
  Proof. intros g; auto. Qed.

  Lemma sameah_trans a b c : sameah a b -> sameah b c -> sameah a c.
  Proof. intros H1 H2 g. destruct (H1 g), (H2 g). split; congruence. Qed.

  Lemma sameah_upd fs f x :
    f_alive x = f_alive (nth f fs absent) -> f_hp x = f_hp (nth f fs absent) -> sameah fs (upd f x fs).
  Proof.
    intros A B g. rewrite nth_upd. destruct (Nat.eqb_spec f g) as [->|]; cbn [andb]; auto.
    destruct (Nat.ltb g (length fs)); auto.
  Qed.

  Lemma wakeup_frame b order : forall avail fs acc, sameah fs (snd (fst (wakeup b avail order fs acc))).
  Proof.
    induction order as [|f r IH]; intros avail fs acc; cbn [wakeup].
    - apply sameah_refl.
    - destruct (N.ltb avail (f_req (nth f fs absent))); [apply sameah_refl|].
      destruct (f_st (nth f fs absent)); destruct b; cbn [fst snd];
        first [apply sameah_refl
              | apply sameah_upd; reflexivity
              | apply IH
              | eapply sameah_trans; [|apply IH]; apply sameah_upd; reflexivity].
  Qed.

  Lemma ww_frame b p ws fs : sameah fs (snd (fst (wakeup_waiters b p ws fs))).
  Proof.
    unfold wakeup_waiters. pose proof (wakeup_frame b (rev ws) p fs []) as F.
    destruct (wakeup b p (rev ws) fs []) as [[o1 f1] w1]. exact F.
  Qed.

  Ltac frames :=
    repeat match goal with
    | |- context [wakeup_waiters ?a ?b ?c ?d] =>
        let F := fresh "F" in
        pose proof (ww_frame a b c d) as F;
        destruct (wakeup_waiters a b c d) as [[? ?] ?]; cbn [fst snd] in F
    end.

  Ltac leaf f :=
    cbn [fst snd]; unfold get in *; cbn [futs];
    repeat match goal with
    | F : sameah _ _ |- _ =>
        let Ea := fresh "Ea" in let Eh := fresh "Eh" in
        destruct (F f) as [Ea Eh]; rewrite ?Ea, ?Eh; clear F Ea Eh
    end;
    rewrite ?nth_upd_same by assumption; rewrite ?nth_upd_other by assumption;
    let Ha' := fresh "Ha'" in
    intros Ha'; first [discriminate Ha' | reflexivity | assumption].

  Lemma semaphore_protocol : forall k b p s o, Reach k b p true s -> legal s o = true ->
    let s' := fst (step s o) in let ob := snd (step s o) in
    (forall f, f_alive (get s f) = true -> f_alive (get s' f) = true ->
       f_hp (get s' f) =
         f_hp (get s f) &&
         negb (match o with Poll g _ => Nat.eqb g f && N.eqb (hd 99%N (o_res ob)) R_READY | _ => false end)) /\
    (forall f n, o = Create f n -> f_alive (get s' f) = true /\ f_hp (get s' f) = true).
  Proof.
    intros k b p s o _ Hl. cbv zeta. split.
    - intros f Ha. pose proof (SemaphoreProofs.alive_lt s f Ha) as Hlt.
      destruct o as [g n|g w|g|n|n|i|i]; simpl in Hl; bool_hyps;
        try (cbn [negb]; rewrite andb_true_r).
      + (* Create *)
        assert (Hne : g <> f) by (intro; subst; congruence).
        unfold step. leaf f.
      + (* Poll *)
        rename H into Hga, H0 into Hhp. unfold step. rewrite Hhp. cbn [negb].
        destruct (Nat.eqb_spec g f) as [->|Hne].
        * rewrite Hhp. cbn [andb]. frames; brk; leaf f.
        * cbn [andb negb]. rewrite andb_true_r. frames; brk; leaf f.
      + (* DropFut *)
        unfold step. destruct (Nat.eqb_spec g f) as [->|Hne]; frames; brk; leaf f.
      + (* TryAcquire *) unfold step. brk; leaf f.
      + (* Release *) unfold step, do_release. frames; brk; leaf f.
      + (* Disarm *) unfold step. leaf f.
      + (* DropReleaser *) unfold step, do_release. frames; brk; leaf f.
    - intros f n ->. simpl in Hl. bool_hyps. unfold step. cbn [fst]. unfold get. cbn [futs].
      rewrite nth_upd_same by assumption. split; reflexivity.
  Qed.
End SeP.

Definition semaphore_protocol := SeP.semaphore_protocol.

Module MpP.
  Import Mpmc.

  Definition sameah_r (fs fs' : list rfut) : Prop :=
    forall g, r_alive (nth g fs' rabsent) = r_alive (nth g fs rabsent) /\
              r_hp (nth g fs' rabsent) = r_hp (nth g fs rabsent).
  Definition sameah_s (fs fs' : list sfut) : Prop :=
    forall g, s_alive (nth g fs' sabsent) = s_alive (nth g fs sabsent) /\
              s_hp (nth g fs' sabsent) = s_hp (nth g fs sabsent).

  Lemma sameah_r_refl fs : sameah_r fs fs.
  Proof. intros g; auto. Qed.
  Lemma sameah_s_refl fs : sameah_s fs fs.
  Proof. intros g; auto. Qed.

  Lemma sameah_r_trans a b c : sameah_r a b -> sameah_r b c -> sameah_r a c.
  Proof. intros H1 H2 g. destruct (H1 g), (H2 g). split; congruence. Qed.
  Lemma sameah_s_trans a b c : sameah_s a b -> sameah_s b c -> sameah_s a c.
  Proof. intros H1 H2 g. destruct (H1 g), (H2 g). split; congruence. Qed.

  Lemma sameah_r_upd fs f x :
    r_alive x = r_alive (nth f fs rabsent) -> r_hp x = r_hp (nth f fs rabsent) -> sameah_r fs (upd f x fs).
  Proof.
    intros A B g. rewrite nth_upd. destruct (Nat.eqb_spec f g) as [->|]; cbn [andb]; auto.
    destruct (Nat.ltb g (length fs)); auto.
  Qed.
  Lemma sameah_s_upd fs f x :
    s_alive x = s_alive (nth f fs sabsent) -> s_hp x = s_hp (nth f fs sabsent) -> sameah_s fs (upd f x fs).
  Proof.
    intros A B g. rewrite nth_upd. destruct (Nat.eqb_spec f g) as [->|]; cbn [andb]; auto.
    destruct (Nat.ltb g (length fs)); auto.
  Qed.

  Lemma nor_sfs s : sfs (fst (notify_oldest_recv s)) = sfs s.
  Proof. unfold notify_oldest_recv. destruct (olast (recvq s)); reflexivity. Qed.

  Lemma nor_rfs s : sameah_r (rfs s) (rfs (fst (notify_oldest_recv s))).
  Proof.
    unfold notify_oldest_recv. destruct (olast (recvq s)); cbn [fst setr rfs].
    - unfold getr. apply sameah_r_upd; reflexivity.
    - apply sameah_r_refl.
  Qed.

  Lemma tr_rfs s : rfs (fst (fst (try_receive s))) = rfs s.
  Proof. unfold try_receive. brk; reflexivity. Qed.

  Lemma tr_sfs s : sameah_s (sfs s) (sfs (fst (fst (try_receive s)))).
  Proof.
    unfold try_receive. brk; cbn [fst sets setbuf sfs]; unfold gets;
      first [apply sameah_s_refl | apply sameah_s_upd; reflexivity].
  Qed.

  Lemma wake_recvs_frame order : forall fs acc, sameah_r fs (fst (wake_recvs fs order acc)).
  Proof.
    induction order as [|f r IH]; intros fs acc; cbn [wake_recvs].
    - apply sameah_r_refl.
    - eapply sameah_r_trans; [|apply IH]. apply sameah_r_upd; reflexivity.
  Qed.
  Lemma wake_sends_frame order : forall fs acc, sameah_s fs (fst (wake_sends fs order acc)).
  Proof.
    induction order as [|f r IH]; intros fs acc; cbn [wake_sends].
    - apply sameah_s_refl.
    - eapply sameah_s_trans; [|apply IH]. apply sameah_s_upd; reflexivity.
  Qed.

  Lemma dc_rfs s e : sameah_r (rfs s) (rfs (fst (fst (do_close s e)))).
  Proof.
    unfold do_close. destruct (closed s); [apply sameah_r_refl|].
    pose proof (wake_recvs_frame (rev (recvq s)) (rfs s) []) as F.
    destruct (wake_recvs (rfs s) (rev (recvq s)) []) as [rf' wk1].
    destruct (wake_sends (sfs s) (rev (sendq s)) wk1) as [sf' wk2]. exact F.
  Qed.
  Lemma dc_sfs s e : sameah_s (sfs s) (sfs (fst (fst (do_close s e)))).
  Proof.
    unfold do_close. destruct (closed s); [apply sameah_s_refl|].
    destruct (wake_recvs (rfs s) (rev (recvq s)) []) as [rf' wk1].
    pose proof (wake_sends_frame (rev (sendq s)) (sfs s) wk1) as F.
    destruct (wake_sends (sfs s) (rev (sendq s)) wk1) as [sf' wk2]. exact F.
  Qed.

  Ltac frames :=
    repeat match goal with
    | |- context [notify_oldest_recv ?a] =>
        let F1 := fresh "F" in let F2 := fresh "F" in
        pose proof (nor_sfs a) as F1; pose proof (nor_rfs a) as F2;
        destruct (notify_oldest_recv a) as [? ?]; cbn [fst] in F1, F2
    | |- context [try_receive ?a] =>
        let F1 := fresh "F" in let F2 := fresh "F" in
        pose proof (tr_rfs a) as F1; pose proof (tr_sfs a) as F2;
        destruct (try_receive a) as [[? ?] ?]; cbn [fst] in F1, F2
    | |- context [do_close ?a ?b] =>
        let F1 := fresh "F" in let F2 := fresh "F" in
        pose proof (dc_rfs a b) as F1; pose proof (dc_sfs a b) as F2;
        destruct (do_close a b) as [[? ?] ?]; cbn [fst] in F1, F2
    end.

  Ltac fb := repeat (first [progress frames | brk1]); cbv beta iota zeta.

  Ltac use_frames f :=
    repeat match goal with
    | F : sameah_r _ _ |- _ =>
        let Ea := fresh "Ea" in let Eh := fresh "Eh" in
        destruct (F f) as [Ea Eh]; rewrite ?Ea, ?Eh; clear F Ea Eh
    | F : sameah_s _ _ |- _ =>
        let Ea := fresh "Ea" in let Eh := fresh "Eh" in
        destruct (F f) as [Ea Eh]; rewrite ?Ea, ?Eh; clear F Ea Eh
    | F : rfs _ = _ |- _ => rewrite ?F; clear F
    | F : sfs _ = _ |- _ => rewrite ?F; clear F
    end.

  Ltac red_st :=
    cbn [fst snd]; unfold getr, gets, setr, sets, setbuf, setcounts in *; cbn [rfs sfs] in *.

  Ltac leaf f :=
    red_st; use_frames f; red_st;
    rewrite ?nth_upd_same by assumption; rewrite ?nth_upd_other by assumption;
    let Ha' := fresh "Ha'" in
    intros Ha'; first [discriminate Ha' | reflexivity | assumption].

  Lemma mpmc_recv_protocol : forall kr ks c s o, Reach kr ks c s -> legal s o = true -> o <> Teardown ->
    let s' := fst (step s o) in let ob := snd (step s o) in
    (forall f, r_alive (getr s f) = true -> r_alive (getr s' f) = true ->
       r_hp (getr s' f) =
         r_hp (getr s f) &&
         negb (match o with
               | PollRecv g _ => Nat.eqb g f && existsb (N.eqb (hd 99%N (o_res ob))) [R_SOME; R_NONE]
               | _ => false end)) /\
    (forall f, o = CreateRecv f -> r_alive (getr s' f) = true /\ r_hp (getr s' f) = true).
  Proof.
    intros kr ks c s o _ Hl Hnt. cbv zeta.
    unfold legal in Hl. apply andb_true_iff in Hl. destruct Hl as [Hg Hl]. split.
    - intros f Ha. pose proof (MpmcProofs.alive_lt_r s f Ha) as Hlt.
      destruct o; bool_hyps; try (exfalso; apply Hnt; reflexivity);
        try (cbn [negb]; rewrite andb_true_r).
      5: { (* CreateRecv *)
        assert (Hne : f0 <> f) by (intro; subst; congruence).
        unfold step. leaf f. }
      5: { (* PollRecv *)
        rename H into Hga, H0 into Hhp. unfold step. rewrite Hhp. cbn [negb].
        destruct (Nat.eqb_spec f0 f) as [->|Hne].
        - rewrite Hhp. cbn [andb]. fb; leaf f.
        - cbn [andb negb]. rewrite andb_true_r. fb; leaf f. }
      5: { (* DropRecv *)
        unfold step. destruct (Nat.eqb_spec f0 f) as [->|Hne]; fb; leaf f. }
      all: unfold step; fb; leaf f.
    - intros f ->. bool_hyps. unfold step. cbn [fst]. unfold getr, setr. cbn [rfs].
      rewrite nth_upd_same by assumption. split; reflexivity.
  Qed.

  Lemma mpmc_send_protocol : forall kr ks c s o, Reach kr ks c s -> legal s o = true -> o <> Teardown ->
    let s' := fst (step s o) in let ob := snd (step s o) in
    (forall f, s_alive (gets s f) = true -> s_alive (gets s' f) = true ->
       s_hp (gets s' f) =
         s_hp (gets s f) &&
         negb (match o with
               | PollSend g _ => Nat.eqb g f && existsb (N.eqb (hd 99%N (o_res ob))) [R_OK; R_ERR]
               | CancelSend g => Nat.eqb g f
               | _ => false end)) /\
    (forall f v, o = CreateSend f v -> s_alive (gets s' f) = true /\ s_hp (gets s' f) = true).
  Proof.
    intros kr ks c s o R Hl Hnt. cbv zeta.
    destruct (MpmcProofs.reach_inv kr ks c s R) as [_ IS _].
    unfold legal in Hl. apply andb_true_iff in Hl. destruct Hl as [Hg Hl]. split.
    - intros f Ha. pose proof (MpmcProofs.alive_lt_s s f Ha) as Hlt.
      destruct o; bool_hyps; try (exfalso; apply Hnt; reflexivity);
        try (cbn [negb]; rewrite andb_true_r).
      1: { (* CreateSend *)
        assert (Hne : f0 <> f) by (intro; subst; congruence).
        unfold step. leaf f. }
      1: { (* PollSend *)
        rename H into Hga, H0 into Hhp. unfold step. rewrite Hhp. cbn [negb].
        destruct (Nat.eqb_spec f0 f) as [->|Hne].
        - rewrite Hhp. cbn [andb]. fb; leaf f.
        - cbn [andb negb]. rewrite andb_true_r. fb; leaf f. }
      1: { (* CancelSend *)
        unfold step. destruct (Nat.eqb_spec f0 f) as [->|Hne].
        - cbn [negb]. rewrite andb_false_r.
          assert (Hm : s_st (gets s f) = SReg -> memb f (sendq s) = true).
          { intros E. apply memb_In. apply (MpmcProofs.si_in _ _ _ _ _ IS). exact E. }
          destruct (s_hp (gets s f)) eqn:Hhp; cbn [negb]; fb;
            first [ leaf f
                  | match goal with
                    | H1 : SReg = SReg -> _, H2 : negb (memb _ _) = true |- _ =>
                        rewrite (H1 eq_refl) in H2; discriminate H2
                    end ].
        - cbn [negb]. rewrite andb_true_r. fb; leaf f. }
      1: { (* DropSend *)
        unfold step. destruct (Nat.eqb_spec f0 f) as [->|Hne]; fb; leaf f. }
      all: unfold step; fb; leaf f.
    - intros f v ->. bool_hyps. unfold step. cbn [fst]. unfold gets, sets. cbn [sfs].
      rewrite nth_upd_same by assumption. split; reflexivity.
  Qed.
End MpP.

Definition mpmc_recv_protocol := MpP.mpmc_recv_protocol.
Definition mpmc_send_protocol := MpP.mpmc_send_protocol.

Module OsP.
  Import Oneshot.

  Definition sameah (fs fs' : list rfut) : Prop :=
    forall g, r_alive (nth g fs' rabsent) = r_alive (nth g fs rabsent) /\
              r_hp (nth g fs' rabsent) = r_hp (nth g fs rabsent).

  Lemma sameah_refl fs : sameah fs fs.
  Proof. intros g; auto. Qed.
  Lemma sameah_trans a b c : sameah a b -> sameah b c -> sameah a c.
  Proof. intros H1 H2 g. destruct (H1 g), (H2 g). split; congruence. Qed.
  Lemma sameah_upd fs f x :
    r_alive x = r_alive (nth f fs rabsent) -> r_hp x = r_hp (nth f fs rabsent) -> sameah fs (upd f x fs).
  Proof.
    intros A B g. rewrite nth_upd. destruct (Nat.eqb_spec f g) as [->|]; cbn [andb]; auto.
    destruct (Nat.ltb g (length fs)); auto.
  Qed.

  Lemma wake_all_frame order : forall fs acc, sameah fs (fst (wake_all fs order acc)).
  Proof.
    induction order as [|f r IH]; intros fs acc; cbn [wake_all].
    - apply sameah_refl.
    - eapply sameah_trans; [|apply IH]. apply sameah_upd; reflexivity.
  Qed.

  Lemma dc_rfs s e : sameah (rfs s) (rfs (fst (fst (do_close s e)))).
  Proof.
    unfold do_close. destruct (fulfilled s); [apply sameah_refl|].
    pose proof (wake_all_frame (rev (waiters s)) (rfs s) []) as F.
    destruct (wake_all (rfs s) (rev (waiters s)) []) as [fs' wk]. exact F.
  Qed.

  Ltac frames :=
    repeat match goal with
    | |- context [wake_all ?a ?b ?c] =>
        let F := fresh "F" in
        pose proof (wake_all_frame b a c) as F;
        destruct (wake_all a b c) as [? ?]; cbn [fst] in F
    | |- context [do_close ?a ?b] =>
        let F := fresh "F" in
        pose proof (dc_rfs a b) as F;
        destruct (do_close a b) as [[? ?] ?]; cbn [fst] in F
    end.

  Ltac fb := repeat (first [progress frames | brk1]); cbv beta iota zeta.

  Ltac use_frames f :=
    repeat match goal with
    | F : sameah _ _ |- _ =>
        let Ea := fresh "Ea" in let Eh := fresh "Eh" in
        destruct (F f) as [Ea Eh]; rewrite ?Ea, ?Eh; clear F Ea Eh
    end.

  Ltac red_st := cbn [fst snd]; unfold getr, with_rfs, with_sr in *; cbn [rfs] in *.

  Ltac leaf f :=
    red_st; use_frames f; red_st;
    rewrite ?nth_upd_same by assumption; rewrite ?nth_upd_other by assumption;
    let Ha' := fresh "Ha'" in
    intros Ha'; first [discriminate Ha' | reflexivity | assumption].

  Lemma oneshot_protocol : forall k b cnt s o, Reach k b cnt s -> legal s o = true -> o <> Teardown ->
    let s' := fst (step s o) in let ob := snd (step s o) in
    (forall f, r_alive (getr s f) = true -> r_alive (getr s' f) = true ->
       r_hp (getr s' f) =
         r_hp (getr s f) &&
         negb (match o with
               | PollRecv g _ => Nat.eqb g f && existsb (N.eqb (hd 99%N (o_res ob))) [R_SOME; R_NONE]
               | _ => false end)) /\
    (forall f, o = CreateRecv f -> r_alive (getr s' f) = true /\ r_hp (getr s' f) = true).
  Proof.
    intros k b cnt s o _ Hl Hnt. cbv zeta.
    unfold legal in Hl. apply andb_true_iff in Hl. destruct Hl as [Hg Hl]. split.
    - intros f Ha. pose proof (OneshotProofs.alive_lt s f Ha) as Hlt.
      destruct o as [v| |g|g w|g| | | | |]; bool_hyps; try (exfalso; apply Hnt; reflexivity);
        try (cbn [negb]; rewrite andb_true_r).
      3: { (* CreateRecv *)
        assert (Hne : g <> f) by (intro; subst; congruence).
        unfold step. leaf f. }
      3: { (* PollRecv *)
        rename H into Hga, H0 into Hhp. unfold step. rewrite Hhp. cbn [negb].
        destruct (Nat.eqb_spec g f) as [->|Hne].
        - rewrite Hhp. cbn [andb]. fb; leaf f.
        - cbn [andb negb]. rewrite andb_true_r. fb; leaf f. }
      3: { (* DropRecv *)
        unfold step. destruct (Nat.eqb_spec g f) as [->|Hne]; fb; leaf f. }
      all: unfold step; fb; leaf f.
    - intros f ->. bool_hyps. unfold step. cbn [fst]. unfold getr, with_rfs. cbn [rfs].
      rewrite nth_upd_same by assumption. split; reflexivity.
  Qed.
End OsP.

Definition oneshot_protocol := OsP.oneshot_protocol.

Module SbP.
  Import StateBcast.

  Definition sameah (fs fs' : list rfut) : Prop :=
    forall g, r_alive (nth g fs' rabsent) = r_alive (nth g fs rabsent) /\
              r_hp (nth g fs' rabsent) = r_hp (nth g fs rabsent).

  Lemma sameah_refl fs : sameah fs fs.
  Proof. intros g; auto. Qed.
  Lemma sameah_trans a b c : sameah a b -> sameah b c -> sameah a c.
  Proof. intros H1 H2 g. destruct (H1 g), (H2 g). split; congruence. Qed.
  Lemma sameah_upd fs f x :
    r_alive x = r_alive (nth f fs rabsent) -> r_hp x = r_hp (nth f fs rabsent) -> sameah fs (upd f x fs).
  Proof.
    intros A B g. rewrite nth_upd. destruct (Nat.eqb_spec f g) as [->|]; cbn [andb]; auto.
    destruct (Nat.ltb g (length fs)); auto.
  Qed.

  Lemma wake_all_frame order : forall fs acc, sameah fs (fst (wake_all fs order acc)).
  Proof.
    induction order as [|f r IH]; intros fs acc; cbn [wake_all].
    - apply sameah_refl.
    - eapply sameah_trans; [|apply IH]. apply sameah_upd; reflexivity.
  Qed.

  Lemma dc_rfs s e : sameah (rfs s) (rfs (fst (fst (do_close s e)))).
  Proof.
    unfold do_close. destruct (closed s); [apply sameah_refl|].
    pose proof (wake_all_frame (rev (waiters s)) (rfs s) []) as F.
    destruct (wake_all (rfs s) (rev (waiters s)) []) as [fs' wk]. exact F.
  Qed.

  Ltac frames :=
    repeat match goal with
    | |- context [wake_all ?a ?b ?c] =>
        let F := fresh "F" in
        pose proof (wake_all_frame b a c) as F;
        destruct (wake_all a b c) as [? ?]; cbn [fst] in F
    | |- context [do_close ?a ?b] =>
        let F := fresh "F" in
        pose proof (dc_rfs a b) as F;
        destruct (do_close a b) as [[? ?] ?]; cbn [fst] in F
    end.

  Ltac fb := repeat (first [progress frames | brk1]); cbv beta iota zeta.

  Ltac use_frames f :=
    repeat match goal with
    | F : sameah _ _ |- _ =>
        let Ea := fresh "Ea" in let Eh := fresh "Eh" in
        destruct (F f) as [Ea Eh]; rewrite ?Ea, ?Eh; clear F Ea Eh
    end.

  Ltac red_st := cbn [fst snd]; unfold getr, with_rfs, with_counts in *; cbn [rfs] in *.

  Ltac leaf f :=
    red_st; use_frames f; red_st;
    rewrite ?nth_upd_same by assumption; rewrite ?nth_upd_other by assumption;
    let Ha' := fresh "Ha'" in
    intros Ha'; first [discriminate Ha' | reflexivity | assumption].

  Lemma state_protocol : forall k s o, Reach k s -> legal s o = true -> o <> Teardown ->
    let s' := fst (step s o) in let ob := snd (step s o) in
    (forall f, r_alive (getr s f) = true -> r_alive (getr s' f) = true ->
       r_hp (getr s' f) =
         r_hp (getr s f) &&
         negb (match o with
               | PollRecv g _ => Nat.eqb g f && existsb (N.eqb (hd 99%N (o_res ob))) [R_SOME; R_NONE]
               | _ => false end)) /\
    (forall f i, o = CreateRecv f i -> r_alive (getr s' f) = true /\ r_hp (getr s' f) = true).
  Proof.
    intros k s o _ Hl Hnt. cbv zeta.
    unfold legal in Hl. apply andb_true_iff in Hl. destruct Hl as [Hg Hl]. split.
    - intros f Ha. pose proof (StateBcastProofs.alive_lt (rfs s) f Ha) as Hlt.
      destruct o as [v| |i|g i|g w|g| | | | | | |n|]; bool_hyps; try (exfalso; apply Hnt; reflexivity);
        try (cbn [negb]; rewrite andb_true_r).
      4: { (* CreateRecv *)
        assert (Hne : g <> f) by (intro; subst; congruence).
        unfold step. leaf f. }
      4: { (* PollRecv *)
        rename H into Hga, H0 into Hhp. unfold step. rewrite Hhp. cbn [negb].
        destruct (Nat.eqb_spec g f) as [->|Hne].
        - rewrite Hhp. cbn [andb]. fb; leaf f.
        - cbn [andb negb]. rewrite andb_true_r. fb; leaf f. }
      4: { (* DropRecv *)
        unfold step. destruct (Nat.eqb_spec g f) as [->|Hne]; fb; leaf f. }
      all: unfold step; fb; leaf f.
    - intros f i ->. bool_hyps. unfold step. cbn [fst]. unfold getr, with_rfs. cbn [rfs].
      rewrite nth_upd_same by assumption. split; reflexivity.
  Qed.
End SbP.

Definition state_protocol := SbP.state_protocol.

Module TiP.
  Import Timer.

  Definition sameah (fs fs' : list fut) : Prop :=
    forall g, f_alive (nth g fs' absent) = f_alive (nth g fs absent) /\
              f_hp (nth g fs' absent) = f_hp (nth g fs absent).

  Lemma sameah_refl fs : sameah fs fs.
  Proof. intros g; auto. Qed.
  Lemma sameah_trans a b c : sameah a b -> sameah b c -> sameah a c.
  Proof. intros H1 H2 g. destruct (H1 g), (H2 g). split; congruence. Qed.
  Lemma sameah_upd fs f x :
    f_alive x = f_alive (nth f fs absent) -> f_hp x = f_hp (nth f fs absent) -> sameah fs (upd f x fs).
  Proof.
    intros A B g. rewrite nth_upd. destruct (Nat.eqb_spec f g) as [->|]; cbn [andb]; auto.
    destruct (Nat.ltb g (length fs)); auto.
  Qed.

  Lemma expire_frame fuel : forall n h fs acc, sameah fs (snd (fst (expire fuel n h fs acc))).
  Proof.
    induction fuel as [|k IH]; intros n h fs acc; cbn [expire].
    - apply sameah_refl.
    - destruct (peek_min h) as [r|]; [|apply sameah_refl].
      cbv zeta. destruct (N.leb _ _); [|apply sameah_refl].
      eapply sameah_trans; [|apply IH]. apply sameah_upd; reflexivity.
  Qed.

  Ltac frames :=
    repeat match goal with
    | |- context [expire ?a ?b ?c ?d ?e] =>
        let F := fresh "F" in
        pose proof (expire_frame a b c d e) as F;
        destruct (expire a b c d e) as [[? ?] ?]; cbn [fst snd] in F
    end.

  Ltac fb := repeat (first [progress frames | brk1]); cbv beta iota zeta.

  Ltac use_frames f :=
    repeat match goal with
    | F : sameah _ _ |- _ =>
        let Ea := fresh "Ea" in let Eh := fresh "Eh" in
        destruct (F f) as [Ea Eh]; rewrite ?Ea, ?Eh; clear F Ea Eh
    end.

  Ltac red_st := cbn [fst snd]; unfold get in *; cbn [futs] in *.

  Ltac leaf f :=
    red_st; use_frames f; red_st;
    rewrite ?nth_upd_same by assumption; rewrite ?nth_upd_other by assumption;
    let Ha' := fresh "Ha'" in
    intros Ha'; first [discriminate Ha' | reflexivity | assumption].

  Lemma timer_protocol : forall k s o, Reach k s -> legal s o = true ->
    let s' := fst (step s o) in let ob := snd (step s o) in
    (forall f, f_alive (get s f) = true -> f_alive (get s' f) = true ->
       f_hp (get s' f) =
         f_hp (get s f) &&
         negb (match o with Poll g _ => Nat.eqb g f && N.eqb (hd 99%N (o_res ob)) R_READY | _ => false end)) /\
    (forall f, (exists t, o = Deadline f t) \/ (exists a b, o = Delay f a b) ->
       f_alive (get s' f) = true /\ f_hp (get s' f) = true).
  Proof.
    intros k s o _ Hl. cbv zeta. split.
    - intros f Ha. pose proof (TimerProofs.alive_lt s f Ha) as Hlt.
      destruct o as [t|g t|g a c|g w|g| |]; simpl in Hl; bool_hyps;
        try (cbn [negb]; rewrite andb_true_r).
      + unfold step. leaf f.
      + assert (Hne : g <> f) by (intro; subst; congruence).
        unfold step. leaf f.
      + assert (Hne : g <> f) by (intro; subst; congruence).
        unfold step. leaf f.
      + (* Poll *)
        rename H into Hga, H0 into Hhp. unfold step. rewrite Hhp. cbn [negb].
        destruct (Nat.eqb_spec g f) as [->|Hne].
        * rewrite Hhp. cbn [andb]. fb; leaf f.
        * cbn [andb negb]. rewrite andb_true_r. fb; leaf f.
      + (* DropFut *)
        unfold step. destruct (Nat.eqb_spec g f) as [->|Hne]; fb; leaf f.
      + unfold step; fb; leaf f.
      + unfold step; fb; leaf f.
    - intros f [[t ->]|[a [c ->]]]; simpl in Hl; bool_hyps; unfold step; cbn [fst]; unfold get; cbn [futs];
        rewrite nth_upd_same by assumption; split; reflexivity.
  Qed.
End TiP.

Definition timer_protocol := TiP.timer_protocol.
