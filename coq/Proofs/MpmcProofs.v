(* Invariants and lemmas for Model/Mpmc.v (C08, C09, C11) *)
From FI Require Import Base Mpmc MpmcSpec.
From Coq Require Import Permutation.

Local Ltac inv H := inversion H; subst; clear H.

Local Ltac bool_hyps :=
  repeat match goal with
  | H : (_ && _)%bool = true |- _ => apply andb_true_iff in H; destruct H
  | H : negb _ = true |- _ => apply negb_true_iff in H
  | H : negb _ = false |- _ => apply negb_false_iff in H
  | H : Nat.ltb _ _ = true |- _ => apply Nat.ltb_lt in H
  | H : Nat.eqb _ _ = true |- _ => apply Nat.eqb_eq in H
  | H : Nat.eqb _ _ = false |- _ => apply Nat.eqb_neq in H
  end.

(* ------------------------------------------------------------------ *)
(* tables *)
Lemma nth_alive_lt {A} (al : A -> bool) (d : A) l f :
  al d = false -> al (nth f l d) = true -> f < length l.
Proof.
  intros Hd H. destruct (Nat.lt_ge_cases f (length l)) as [|Hge]; auto.
  rewrite nth_overflow in H by auto. congruence.
Qed.

Lemma alive_lt_s s f : s_alive (gets s f) = true -> f < length (sfs s).
Proof. apply (nth_alive_lt s_alive); reflexivity. Qed.

Lemma alive_lt_r s f : r_alive (getr s f) = true -> f < length (rfs s).
Proof. apply (nth_alive_lt r_alive); reflexivity. Qed.

Lemma nth_repeat_same {A} (d : A) k f : nth f (repeat d k) d = d.
Proof. revert f; induction k; intros [|f]; simpl; auto. Qed.

Lemma nth_upd_cases {A} (fs : list A) f g x d :
  f < length fs ->
  (g = f /\ nth g (upd f x fs) d = x) \/
  (g <> f /\ nth g (upd f x fs) d = nth g fs d).
Proof.
  intros Hlt. rewrite nth_upd. destruct (Nat.eqb_spec f g) as [->|Hne]; simpl.
  - left. split; auto. apply Nat.ltb_lt in Hlt. rewrite Hlt. auto.
  - right. split; auto.
Qed.

Local Ltac upd_cases g Hlt :=
  match goal with
  | |- context [nth g (upd ?f ?x ?fs) ?d] =>
      let E := fresh "E" in let Hne := fresh "Hne" in
      destruct (nth_upd_cases fs f g x d Hlt) as [[-> E]|[Hne E]]; rewrite E; clear E
  end.

Lemma olast_cons {A} (x : A) l : l <> [] -> olast (x :: l) = olast l.
Proof. destruct l; simpl; congruence. Qed.

Lemma olast_nonempty {A} (l : list A) : l <> [] -> exists x, olast l = Some x.
Proof.
  intros H. destruct (olast l) eqn:E; eauto. apply olast_None in E. contradiction.
Qed.

Lemma notin_remove f l : ~ In f (remove f l).
Proof. rewrite In_remove. tauto. Qed.

Lemma rev_olast {A} (l : list A) x : olast l = Some x -> rev l = x :: rev (removelast l).
Proof.
  intros H. apply olast_Some_split in H. rewrite H at 1. rewrite rev_app_distr. reflexivity.
Qed.

(* ------------------------------------------------------------------ *)
(* future constructors used by [step] *)
Definition r_fresh : rfut := mkR true true RUnreg None false None.
Definition r_done (x : rfut) (w : wid) : rfut := mkR true false RUnreg (r_task x) false (Some w).
Definition r_park (w : wid) : rfut := mkR true true RReg (Some w) false (Some w).
Definition r_noti (x : rfut) : rfut :=
  mkR (r_alive x) (r_hp x) RNotified None (r_woken x || woke_by (r_task x) (r_lastw x)) (r_lastw x).
Definition r_reset (x : rfut) : rfut :=
  mkR (r_alive x) (r_hp x) RUnreg None (r_woken x || woke_by (r_task x) (r_lastw x)) (r_lastw x).

Definition s_fresh (v : tag) : sfut := mkS true true SUnreg None (Some v) false None v.
Definition s_done (y : sfut) (w : wid) : sfut := mkS true false SUnreg (s_task y) None false (Some w) (s_tag y).
Definition s_park (y : sfut) (w : wid) : sfut := mkS true true SReg (Some w) (s_val y) false (Some w) (s_tag y).
Definition s_fin (y : sfut) (w : wid) : sfut := mkS true false SComplete (s_task y) (s_val y) false (Some w) (s_tag y).
Definition s_cancel (y : sfut) : sfut :=
  mkS true false (match s_st y with SReg => SUnreg | p => p end) (s_task y) None false (s_lastw y) (s_tag y).
Definition s_complete (y : sfut) : sfut :=
  mkS (s_alive y) (s_hp y) SComplete None None (s_woken y || woke_by (s_task y) (s_lastw y)) (s_lastw y) (s_tag y).
Definition s_reset (y : sfut) : sfut :=
  mkS (s_alive y) (s_hp y) SUnreg None (s_val y) (s_woken y || woke_by (s_task y) (s_lastw y)) (s_lastw y) (s_tag y).

(* ------------------------------------------------------------------ *)
(* close(): the two drains as table transformers *)
Definition resetR (fs : list rfut) (order : list fid) : list rfut := fst (wake_recvs fs order []).
Definition resetS (fs : list sfut) (order : list fid) : list sfut := fst (wake_sends fs order []).

Lemma wake_recvs_acc order : forall fs acc, fst (wake_recvs fs order acc) = resetR fs order.
Proof.
  unfold resetR. induction order as [|f r IH]; intros fs acc; simpl; auto.
  rewrite IH. symmetry. apply IH.
Qed.

Lemma wake_sends_acc order : forall fs acc, fst (wake_sends fs order acc) = resetS fs order.
Proof.
  unfold resetS. induction order as [|f r IH]; intros fs acc; simpl; auto.
  rewrite IH. symmetry. apply IH.
Qed.

Lemma resetR_cons fs f r : resetR fs (f :: r) = resetR (upd f (r_reset (nth f fs rabsent)) fs) r.
Proof. unfold resetR at 1. simpl. apply wake_recvs_acc. Qed.

Lemma resetS_cons fs f r : resetS fs (f :: r) = resetS (upd f (s_reset (nth f fs sabsent)) fs) r.
Proof. unfold resetS at 1. simpl. apply wake_sends_acc. Qed.

Lemma resetR_length order : forall fs, length (resetR fs order) = length fs.
Proof.
  induction order as [|f r IH]; intros fs; [reflexivity|].
  rewrite resetR_cons, IH. apply upd_length.
Qed.

Lemma resetS_length order : forall fs, length (resetS fs order) = length fs.
Proof.
  induction order as [|f r IH]; intros fs; [reflexivity|].
  rewrite resetS_cons, IH. apply upd_length.
Qed.

Lemma memb_cons g f r : memb g (f :: r) = (Nat.eqb g f || memb g r)%bool.
Proof. reflexivity. Qed.

Lemma resetR_nth order : forall fs g, NoDup order ->
  nth g (resetR fs order) rabsent = if memb g order then r_reset (nth g fs rabsent) else nth g fs rabsent.
Proof.
  induction order as [|f r IH]; intros fs g Hnd; [reflexivity|].
  inv Hnd. rewrite resetR_cons, IH by auto. rewrite memb_cons.
  destruct (Nat.eqb_spec g f) as [->|Hne]; simpl.
  - apply memb_false in H1. rewrite H1.
    destruct (Nat.lt_ge_cases f (length fs)).
    + apply nth_upd_same; auto.
    + rewrite nth_upd_oob by auto. rewrite nth_overflow by auto. reflexivity.
  - rewrite nth_upd_other by auto. reflexivity.
Qed.

Lemma resetS_nth order : forall fs g, NoDup order ->
  nth g (resetS fs order) sabsent = if memb g order then s_reset (nth g fs sabsent) else nth g fs sabsent.
Proof.
  induction order as [|f r IH]; intros fs g Hnd; [reflexivity|].
  inv Hnd. rewrite resetS_cons, IH by auto. rewrite memb_cons.
  destruct (Nat.eqb_spec g f) as [->|Hne]; simpl.
  - apply memb_false in H1. rewrite H1.
    destruct (Nat.lt_ge_cases f (length fs)).
    + apply nth_upd_same; auto.
    + rewrite nth_upd_oob by auto. rewrite nth_overflow by auto. reflexivity.
  - rewrite nth_upd_other by auto. reflexivity.
Qed.

Definition close_state (s : state) (e : bool) : state :=
  mkState true (cap s) (buf s) [] [] (resetR (rfs s) (rev (recvq s))) (resetS (sfs s) (rev (sendq s)))
          (senders s) (receivers s) (pend_sclose s) (pend_rclose s) (pend_clear s) (explicit s || e) (gone s).
Definition close_if (s : state) (e : bool) : state := if closed s then s else close_state s e.

Lemma do_close_eq s e :
  fst (fst (do_close s e)) = close_if s e /\ snd (fst (do_close s e)) = negb (closed s).
Proof.
  unfold do_close, close_if, close_state. destruct (closed s); [split; reflexivity|].
  destruct (wake_recvs (rfs s) (rev (recvq s)) []) as [rf' wk1] eqn:E1.
  destruct (wake_sends (sfs s) (rev (sendq s)) wk1) as [sf' wk2] eqn:E2.
  cbn [fst snd]. split; auto.
  unfold resetR. rewrite E1. rewrite <- (wake_sends_acc _ _ wk1), E2. reflexivity.
Qed.

(* ------------------------------------------------------------------ *)
(* the invariant, by component so that frames hold by conversion *)
Record RInvP (cl : bool) (q : list fid) (fs : list rfut) : Prop := {
  ri_nd : NoDup q;
  ri_in : forall f, In f q <-> r_st (nth f fs rabsent) = RReg;
  ri_reg : forall f, r_st (nth f fs rabsent) = RReg ->
           r_alive (nth f fs rabsent) = true /\ r_hp (nth f fs rabsent) = true /\
           r_task (nth f fs rabsent) = r_lastw (nth f fs rabsent) /\ r_lastw (nth f fs rabsent) <> None;
  ri_cl : cl = true -> q = []
}.

Record SOk (cl : bool) (y : sfut) : Prop := {
  so_reg : s_st y = SReg -> s_alive y = true /\ s_hp y = true /\ s_task y = s_lastw y /\
                            s_lastw y <> None /\ s_val y <> None;
  so_comp : s_st y = SComplete -> s_val y = None /\ s_lastw y <> None;
  so_unreg : s_st y = SUnreg -> s_hp y = true -> s_val y <> None /\ (cl = false -> s_lastw y = None);
  so_nohp : s_hp y = false -> s_val y = None;
  so_dead : s_alive y = false -> s_hp y = false;
  so_tag : forall v, s_val y = Some v -> v = s_tag y
}.

Record SInvP (cl : bool) (c : nat) (b : list tag) (q : list fid) (fs : list sfut) : Prop := {
  si_nd : NoDup q;
  si_in : forall f, In f q <-> s_st (nth f fs sabsent) = SReg;
  si_ok : forall f, SOk cl (nth f fs sabsent);
  si_len : length b <= c;
  si_full : q <> [] -> length b = c;
  si_cl : cl = true -> q = []
}.

Record HInvP (cl : bool) (b : list tag) (sn rn ps pr pc : nat) (ex gn : bool) : Prop := {
  h_ps : ps <= 1;
  h_ps0 : 0 < ps -> sn = 0;
  h_pr : pr + pc <= 1;
  h_pr0 : 0 < pr + pc -> rn = 0;
  h_pc : 0 < pc -> cl = true;
  h_scl : gn = false -> sn = 0 -> ps = 0 -> cl = true;
  h_rcl : gn = false -> rn = 0 -> pr = 0 -> cl = true;
  h_impl : ex = false -> cl = true -> sn = 0 \/ rn = 0;
  h_clear : rn = 0 -> pr = 0 -> pc = 0 -> b = []
}.

Record Inv (s : state) : Prop := {
  i_r : RInvP (closed s) (recvq s) (rfs s);
  i_s : SInvP (closed s) (cap s) (buf s) (sendq s) (sfs s);
  i_h : HInvP (closed s) (buf s) (senders s) (receivers s) (pend_sclose s) (pend_rclose s) (pend_clear s)
              (explicit s) (gone s)
}.

Lemma sok_absent cl : SOk cl sabsent.
Proof. constructor; simpl; try discriminate; auto. Qed.

Lemma inv_init kr ks c : Inv (init kr ks c).
Proof.
  constructor; simpl.
  - constructor.
    + constructor.
    + intros f. rewrite nth_repeat_same. simpl. split; [tauto|discriminate].
    + intros f. rewrite nth_repeat_same. discriminate.
    + auto.
  - constructor; simpl; try lia; try congruence.
    + constructor.
    + intros f. rewrite nth_repeat_same. simpl. split; [tauto|discriminate].
    + intros f. rewrite nth_repeat_same. apply sok_absent.
  - constructor; intros; try lia; auto; discriminate.
Qed.

(* ------------------------------------------------------------------ *)
(* normal form of [step] on states satisfying the invariant *)
Definition notify_st (s : state) : state := fst (notify_oldest_recv s).

Definition sv (x : sfut) : list tag :=
  match s_val x with Some v => if s_alive x then [v] else [] | None => [] end.
Definition held (fs : list sfut) : list tag := flat_map sv fs.

Lemma in_flight_eq s : in_flight s = buf s ++ held (sfs s).
Proof. reflexivity. Qed.

Definition teardown_state (s : state) : state :=
  mkState (closed s) (cap s) [] [] [] (map (fun _ => rabsent) (rfs s)) (map (fun _ => sabsent) (sfs s))
          0 0 0 0 0 (explicit s) true.

Inductive rcv_out (s : state) : state -> option tag -> Prop :=
| rcv_pop v rest : buf s = v :: rest -> sendq s = [] -> rcv_out s (setbuf s rest) (Some v)
| rcv_copy v rest g x : buf s = v :: rest -> olast (sendq s) = Some g -> s_val (gets s g) = Some x ->
    rcv_out s (sets (setbuf s (rest ++ [x])) (removelast (sendq s)) (upd g (s_complete (gets s g)) (sfs s))) (Some v)
| rcv_take g x : buf s = [] -> olast (sendq s) = Some g -> s_val (gets s g) = Some x ->
    rcv_out s (sets s (removelast (sendq s)) (upd g (s_complete (gets s g)) (sfs s))) (Some x)
| rcv_none : buf s = [] -> sendq s = [] -> rcv_out s s None.

Lemma try_receive_out s : Inv s -> rcv_out s (fst (fst (try_receive s))) (snd (fst (try_receive s))).
Proof.
  intros [IR IS IH]. unfold try_receive.
  assert (Hval : forall g, olast (sendq s) = Some g -> s_val (gets s g) <> None).
  { intros g Eo. apply olast_In in Eo. apply (si_in _ _ _ _ _ IS) in Eo.
    apply (so_reg _ _ (si_ok _ _ _ _ _ IS g)) in Eo. tauto. }
  destruct (buf s) as [|v rest] eqn:Eb.
  - destruct (olast (sendq s)) as [g|] eqn:Eo; cbv zeta.
    + specialize (Hval g eq_refl). destruct (s_val (gets s g)) as [x|] eqn:Ev; [|congruence].
      cbn [fst snd]. eapply rcv_take; eauto.
    + cbn [fst snd]. apply rcv_none; auto. apply olast_None; auto.
  - destruct (olast (sendq s)) as [g|] eqn:Eo; cbv zeta.
    + specialize (Hval g eq_refl). destruct (s_val (gets s g)) as [x|] eqn:Ev; [|congruence].
      cbn [fst snd]. eapply rcv_copy; eauto.
    + cbn [fst snd]. apply rcv_pop; auto. apply olast_None; auto.
Qed.

Definition cnt_s (s : state) (sn ps : nat) : state :=
  setcounts s sn (receivers s) ps (pend_rclose s) (pend_clear s).
Definition cnt_r (s : state) (rn pr pc : nat) : state :=
  setcounts s (senders s) rn (pend_sclose s) pr pc.

Inductive out (s : state) : op -> state -> list N -> list N -> Prop :=
| o_create_send f v :
    out s (CreateSend f v) (sets s (sendq s) (upd f (s_fresh v) (sfs s))) [R_UNIT] []
| o_ps_closed f w v : closed s = true -> s_st (gets s f) = SUnreg -> s_val (gets s f) = Some v ->
    out s (PollSend f w) (sets s (sendq s) (upd f (s_done (gets s f) w) (sfs s))) [R_ERR; v] [V_BACK; v]
| o_ps_park f w : closed s = false -> s_st (gets s f) = SUnreg -> can_push s = false ->
    out s (PollSend f w)
        (notify_st (sets s (f :: sendq s) (upd f (s_park (gets s f) w) (sfs s)))) [R_PENDING] []
| o_ps_push f w v : closed s = false -> s_st (gets s f) = SUnreg -> can_push s = true ->
    s_val (gets s f) = Some v ->
    out s (PollSend f w)
        (notify_st (sets (setbuf s (buf s ++ [v])) (sendq s) (upd f (s_done (gets s f) w) (sfs s)))) [R_OK] []
| o_ps_reg f w : s_st (gets s f) = SReg ->
    out s (PollSend f w) (sets s (sendq s) (upd f (s_park (gets s f) w) (sfs s))) [R_PENDING] []
| o_ps_comp f w : s_st (gets s f) = SComplete ->
    out s (PollSend f w) (sets s (sendq s) (upd f (s_fin (gets s f) w) (sfs s))) [R_OK] []
| o_cs_nohp f : s_hp (gets s f) = false -> out s (CancelSend f) s [R_NONE] []
| o_cs f : s_hp (gets s f) = true ->
    out s (CancelSend f) (sets s (remove f (sendq s)) (upd f (s_cancel (gets s f)) (sfs s)))
        (match s_val (gets s f) with Some v => [R_SOME; v] | None => [R_NONE] end)
        (match s_val (gets s f) with Some v => [V_BACK; v] | None => [] end)
| o_ds f :
    out s (DropSend f) (sets s (remove f (sendq s)) (upd f sabsent (sfs s))) [R_UNIT]
        (match s_val (gets s f) with Some v => [V_DROPPED; v] | None => [] end)
| o_create_recv f : out s (CreateRecv f) (setr s (recvq s) (upd f r_fresh (rfs s))) [R_UNIT] []
| o_pr_got f w s1 v : r_st (getr s f) <> RReg -> rcv_out s s1 (Some v) ->
    out s (PollRecv f w) (setr s1 (recvq s1) (upd f (r_done (getr s f) w) (rfs s1))) [R_SOME; v] [V_DELIVERED; v]
| o_pr_none f w : r_st (getr s f) <> RReg -> buf s = [] -> sendq s = [] -> closed s = true ->
    out s (PollRecv f w) (setr s (recvq s) (upd f (r_done (getr s f) w) (rfs s))) [R_NONE] []
| o_pr_park f w : r_st (getr s f) <> RReg -> buf s = [] -> sendq s = [] -> closed s = false ->
    out s (PollRecv f w) (setr s (f :: recvq s) (upd f (r_park w) (rfs s))) [R_PENDING] []
| o_pr_reg f w : r_st (getr s f) = RReg ->
    out s (PollRecv f w) (setr s (recvq s) (upd f (r_park w) (rfs s))) [R_PENDING] []
| o_dr_noti f : r_st (getr s f) = RNotified ->
    out s (DropRecv f) (notify_st (setr s (recvq s) (upd f rabsent (rfs s)))) [R_UNIT] []
| o_dr f : out s (DropRecv f) (setr s (remove f (recvq s)) (upd f rabsent (rfs s))) [R_UNIT] []
| o_ts_closed v : closed s = true -> out s (TrySend v) s [R_ERR; 1%N; v] [V_BACK; v]
| o_ts_push v : closed s = false -> can_push s = true ->
    out s (TrySend v) (notify_st (setbuf s (buf s ++ [v]))) [R_OK] []
| o_ts_full v : closed s = false -> can_push s = false -> out s (TrySend v) s [R_ERR; 2%N; v] [V_BACK; v]
| o_tr_got s1 v : rcv_out s s1 (Some v) -> out s TryRecv s1 [R_SOME; v] [V_DELIVERED; v]
| o_tr_none : buf s = [] -> sendq s = [] ->
    out s TryRecv s [R_ERR; if closed s then 1%N else 2%N] []
| o_close : out s Close (close_if s true) [Rbool (negb (closed s))] []
| o_clone_s : out s CloneSender (cnt_s s (S (senders s)) (pend_sclose s)) [R_UNIT] []
| o_dec_s : out s DropSenderDec
              (cnt_s s (pred (senders s)) (if Nat.eqb (senders s) 1 then S (pend_sclose s) else pend_sclose s))
              [Rbool (Nat.eqb (senders s) 1)] []
| o_close_s : out s DropSenderClose (close_if (cnt_s s (senders s) (pred (pend_sclose s))) false)
                  [Rbool (negb (closed s))] []
| o_clone_r : out s CloneReceiver (cnt_r s (S (receivers s)) (pend_rclose s) (pend_clear s)) [R_UNIT] []
| o_dec_r : out s DropReceiverDec
              (cnt_r s (pred (receivers s)) (if Nat.eqb (receivers s) 1 then S (pend_rclose s) else pend_rclose s)
                     (pend_clear s))
              [Rbool (Nat.eqb (receivers s) 1)] []
| o_close_r : out s DropReceiverClose
                  (close_if (cnt_r s (receivers s) (pred (pend_rclose s)) (S (pend_clear s))) false)
                  [Rbool (negb (closed s))] []
| o_clear : out s DropReceiverClear (setbuf (cnt_r s (receivers s) (pend_rclose s) (pred (pend_clear s))) [])
                [R_UNIT] (vals_of V_DROPPED (buf s))
| o_teardown : out s Teardown (teardown_state s) [R_UNIT] (vals_of V_DROPPED (sortN (buf s ++ held (sfs s)))).

Lemma notify_fst s x : notify_oldest_recv s = x -> fst x = notify_st s.
Proof. intros <-. reflexivity. Qed.

Lemma step_out s o : Inv s -> legal s o = true ->
  out s o (fst (step s o)) (o_res (snd (step s o))) (o_val (snd (step s o))).
Proof.
  intros I Hl. pose proof I as [IR IS IH].
  unfold legal in Hl. apply andb_true_iff in Hl. destruct Hl as [Hg Hl].
  destruct o; cbn [step]; cbv zeta.
  - (* CreateSend *) cbn [fst snd mk_obs o_res o_val]. constructor.
  - (* PollSend *)
    bool_hyps. rename H into Ha, H0 into Hhp. rewrite Hhp. cbn [negb].
    pose proof (si_ok _ _ _ _ _ IS f) as OK. fold (gets s f) in OK.
    destruct (s_st (gets s f)) eqn:Est.
    + destruct (closed s) eqn:Ecl.
      * destruct (so_unreg _ _ OK Est Hhp) as [Hv _].
        destruct (s_val (gets s f)) as [v|] eqn:Ev; [|congruence].
        cbn [fst snd mk_obs o_res o_val]. apply o_ps_closed; auto.
      * destruct (can_push s) eqn:Ecp; cbn [negb].
        -- destruct (so_unreg _ _ OK Est Hhp) as [Hv _].
           destruct (s_val (gets s f)) as [v|] eqn:Ev; [|congruence].
           destruct (notify_oldest_recv _) as [s' wk] eqn:En.
           cbn [fst snd mk_obs o_res o_val]. apply notify_fst in En. cbn [fst] in En. rewrite En.
           apply o_ps_push; auto.
        -- assert (Hm : memb f (sendq s) = false).
           { apply memb_false. intros Hin. apply (si_in _ _ _ _ _ IS) in Hin.
             unfold gets in Est. congruence. }
           rewrite Hm.
           destruct (notify_oldest_recv _) as [s' wk] eqn:En.
           cbn [fst snd mk_obs o_res o_val]. apply notify_fst in En. cbn [fst] in En. rewrite En.
           apply o_ps_park; auto.
    + cbn [fst snd mk_obs o_res o_val]. apply o_ps_reg; auto.
    + cbn [fst snd mk_obs o_res o_val]. apply o_ps_comp; auto.
  - (* CancelSend *)
    pose proof (si_ok _ _ _ _ _ IS f) as OK. fold (gets s f) in OK.
    destruct (s_hp (gets s f)) eqn:Hhp; cbn [negb].
    + assert (Hq : (match s_st (gets s f) with SReg => remove f (sendq s) | _ => sendq s end) = remove f (sendq s)).
      { destruct (s_st (gets s f)) eqn:Est; auto; symmetry; apply remove_notin;
          intros Hin; apply (si_in _ _ _ _ _ IS) in Hin; unfold gets in Est; congruence. }
      assert (Hm : (match s_st (gets s f) with SReg => negb (memb f (sendq s)) | _ => false end) = false).
      { destruct (s_st (gets s f)) eqn:Est; auto. apply negb_false_iff. apply memb_In.
        apply (si_in _ _ _ _ _ IS). auto. }
      rewrite Hm, Hq.
      destruct (s_val (gets s f)) eqn:Ev; cbn [fst snd mk_obs o_res o_val].
      * pose proof (o_cs s f Hhp) as O. rewrite Ev in O. exact O.
      * pose proof (o_cs s f Hhp) as O. rewrite Ev in O. exact O.
    + cbn [fst snd mk_obs o_res o_val]. apply o_cs_nohp; auto.
  - (* DropSend *)
    pose proof (si_ok _ _ _ _ _ IS f) as OK. fold (gets s f) in OK.
    assert (Hq : (if s_hp (gets s f) then match s_st (gets s f) with SReg => remove f (sendq s) | _ => sendq s end
                  else sendq s) = remove f (sendq s)).
    { destruct (s_st (gets s f)) eqn:Est; destruct (s_hp (gets s f)) eqn:Hhp; auto;
        symmetry; apply remove_notin; intros Hin; apply (si_in _ _ _ _ _ IS) in Hin; fold (gets s f) in Hin;
        try congruence.
      destruct (so_reg _ _ OK Hin) as (_ & Hh & _). congruence. }
    assert (Hm : (s_hp (gets s f) && match s_st (gets s f) with SReg => negb (memb f (sendq s)) | _ => false end)%bool
                 = false).
    { destruct (s_st (gets s f)) eqn:Est; try apply andb_false_r.
      apply andb_false_iff. right. apply negb_false_iff. apply memb_In. apply (si_in _ _ _ _ _ IS). auto. }
    rewrite Hm, Hq. cbn [fst snd mk_obs o_res o_val]. apply o_ds.
  - (* CreateRecv *) cbn [fst snd mk_obs o_res o_val]. constructor.
  - (* PollRecv *)
    bool_hyps. rename H into Ha, H0 into Hhp. rewrite Hhp. cbn [negb].
    pose proof (try_receive_out s I) as TR.
    destruct (r_st (getr s f)) eqn:Est.
    2: { cbn [fst snd mk_obs o_res o_val]. apply o_pr_reg; auto. }
    all: destruct (try_receive s) as [[s1 ov] wk]; cbn [fst snd] in TR;
      (destruct ov as [v|];
       [ cbn [fst snd mk_obs o_res o_val]; apply o_pr_got; [rewrite Est; discriminate|auto]
       | assert (s1 = s) by (inversion TR; auto); subst s1;
         assert (Hb : buf s = []) by (inversion TR; auto);
         assert (Hq : sendq s = []) by (inversion TR; auto);
         destruct (closed s) eqn:Ecl;
         [ cbn [fst snd mk_obs o_res o_val]; apply o_pr_none; auto; rewrite Est; discriminate
         | assert (Hm : memb f (recvq s) = false)
             by (apply memb_false; intros Hin; apply (ri_in _ _ _ IR) in Hin; unfold getr in Est; congruence);
           rewrite Hm; cbn [fst snd mk_obs o_res o_val]; apply o_pr_park; auto; rewrite Est; discriminate ] ]).
  - (* DropRecv *)
    assert (Hplain : r_st (getr s f) <> RReg -> recvq s = remove f (recvq s)).
    { intros Hst. symmetry. apply remove_notin. intros Hin. apply (ri_in _ _ _ IR) in Hin. auto. }
    destruct (r_hp (getr s f)) eqn:Hhp.
    + destruct (r_st (getr s f)) eqn:Est.
      * cbn [fst snd mk_obs o_res o_val]. rewrite Hplain at 1 by discriminate. apply o_dr.
      * assert (Hm : memb f (recvq s) = true) by (apply memb_In; apply (ri_in _ _ _ IR); auto).
        rewrite Hm. cbn [fst snd mk_obs o_res o_val]. apply o_dr.
      * destruct (notify_oldest_recv _) as [s' wk] eqn:En.
        cbn [fst snd mk_obs o_res o_val]. apply notify_fst in En. cbn [fst] in En. rewrite En.
        apply o_dr_noti; auto.
    + cbn [fst snd mk_obs o_res o_val]. rewrite Hplain at 1. apply o_dr.
      intros Hst. apply (ri_reg _ _ _ IR) in Hst. fold (getr s f) in Hst. destruct Hst as (_ & Hh & _). congruence.
  - (* TrySend *)
    destruct (closed s) eqn:Ecl.
    + cbn [fst snd mk_obs o_res o_val]. apply o_ts_closed; auto.
    + destruct (can_push s) eqn:Ecp.
      * destruct (notify_oldest_recv _) as [s' wk] eqn:En.
        cbn [fst snd mk_obs o_res o_val]. apply notify_fst in En. cbn [fst] in En. rewrite En.
        apply o_ts_push; auto.
      * cbn [fst snd mk_obs o_res o_val]. apply o_ts_full; auto.
  - (* TryRecv *)
    pose proof (try_receive_out s I) as TR.
    destruct (try_receive s) as [[s1 ov] wk]. cbn [fst snd] in TR.
    destruct ov as [v|]; cbn [fst snd mk_obs o_res o_val].
    + apply o_tr_got; auto.
    + assert (s1 = s) by (inversion TR; auto). subst s1. apply o_tr_none; inversion TR; auto.
  - (* Close *)
    destruct (do_close_eq s true) as [E1 E2].
    destruct (do_close s true) as [[s' newly] wk]. cbn [fst snd] in *. subst.
    cbn [fst snd mk_obs o_res o_val]. apply o_close.
  - cbn [fst snd mk_obs o_res o_val]. apply o_clone_s.
  - cbn [fst snd mk_obs o_res o_val]. apply o_dec_s.
  - match goal with |- context [do_close ?a ?b] =>
      destruct (do_close_eq a b) as [E1 E2]; destruct (do_close a b) as [[s' newly] wk] end.
    cbn [fst snd] in *. subst. cbn [fst snd mk_obs o_res o_val]. exact (o_close_s s).
  - cbn [fst snd mk_obs o_res o_val]. apply o_clone_r.
  - cbn [fst snd mk_obs o_res o_val]. apply o_dec_r.
  - match goal with |- context [do_close ?a ?b] =>
      destruct (do_close_eq a b) as [E1 E2]; destruct (do_close a b) as [[s' newly] wk] end.
    cbn [fst snd] in *. subst. cbn [fst snd mk_obs o_res o_val]. exact (o_close_r s).
  - cbn [fst snd mk_obs o_res o_val]. apply o_clear.
  - cbn [fst snd o_res o_val]. apply o_teardown.
Qed.

(* ------------------------------------------------------------------ *)
(* preservation of the invariant, by component *)
Lemma rinv_set cl q fs f x' q' :
  RInvP cl q fs -> f < length fs -> NoDup q' ->
  (forall g, g <> f -> (In g q' <-> In g q)) -> (In f q' <-> r_st x' = RReg) ->
  (r_st x' = RReg -> r_alive x' = true /\ r_hp x' = true /\ r_task x' = r_lastw x' /\ r_lastw x' <> None) ->
  (cl = true -> q' = []) -> RInvP cl q' (upd f x' fs).
Proof.
  intros [Hnd Hin Hreg Hcl] Hlt Hnd' Hoth Hf Hx Hcl'. constructor; auto.
  - intros g. upd_cases g Hlt; auto. rewrite Hoth by auto. apply Hin.
  - intros g. upd_cases g Hlt; auto.
Qed.

Lemma rinv_plain cl q fs f x' :
  RInvP cl q fs -> f < length fs -> r_st x' <> RReg -> r_st (nth f fs rabsent) <> RReg ->
  RInvP cl q (upd f x' fs).
Proof.
  intros R Hlt Hx Hf. apply (rinv_set cl q fs f x' q R Hlt); try tauto.
  - apply (ri_nd _ _ _ R).
  - rewrite (ri_in _ _ _ R). tauto.
  - apply (ri_cl _ _ _ R).
Qed.

Lemma rinv_drop cl q fs f x' :
  RInvP cl q fs -> f < length fs -> r_st x' <> RReg -> RInvP cl (remove f q) (upd f x' fs).
Proof.
  intros R Hlt Hx. apply (rinv_set cl q fs f x' _ R Hlt); try tauto.
  - apply NoDup_remove, (ri_nd _ _ _ R).
  - intros g Hne. rewrite In_remove. tauto.
  - split; [intros H; apply notin_remove in H; tauto|tauto].
  - intros H. rewrite (ri_cl _ _ _ R H). reflexivity.
Qed.

Lemma notify_st_spec s :
  (olast (recvq s) = None /\ notify_st s = s) \/
  (exists g, olast (recvq s) = Some g /\
             notify_st s = setr s (removelast (recvq s)) (upd g (r_noti (getr s g)) (rfs s))).
Proof.
  unfold notify_st, notify_oldest_recv.
  destruct (olast (recvq s)); [right; eexists; split; reflexivity|left; auto].
Qed.

Lemma sok_mono y : SOk false y -> SOk true y.
Proof.
  intros [A B C D E F]. constructor; auto.
  intros H1 H2. destruct (C H1 H2). split; auto; discriminate.
Qed.

Lemma sok_fresh cl v : SOk cl (s_fresh v).
Proof. constructor; simpl; try discriminate; auto. - intros. split; [discriminate|auto]. - congruence. Qed.

Lemma sok_done cl y w : SOk cl (s_done y w).
Proof. constructor; simpl; try discriminate; auto. Qed.

Lemma sok_park cl y w : SOk cl y -> s_val y <> None -> SOk cl (s_park y w).
Proof.
  intros [A B C D E F] Hv. constructor; simpl; try discriminate; auto.
  intros _. repeat split; auto. discriminate.
Qed.

Lemma sok_fin cl y w : SOk cl y -> s_st y = SComplete -> SOk cl (s_fin y w).
Proof.
  intros [A B C D E F] Hst. destruct (B Hst) as [Hv _]. constructor; simpl; try discriminate; auto.
  intros _. split; auto. discriminate.
Qed.

Lemma sok_cancel cl y : SOk cl y -> SOk cl (s_cancel y).
Proof.
  intros [A B C D E F]. constructor; simpl; try discriminate; auto.
  - destruct (s_st y); discriminate.
  - destruct (s_st y) eqn:Est; try discriminate. intros _. split; auto. apply B; auto.
Qed.

Lemma sok_complete cl y : SOk cl y -> s_st y = SReg -> SOk cl (s_complete y).
Proof.
  intros [A B C D E F] Hst. destruct (A Hst) as (Ha & Hh & Ht & Hl & Hv).
  constructor; simpl; try discriminate; auto.
Qed.

Lemma sok_reset cl y : SOk cl y -> s_st y = SReg -> SOk true (s_reset y).
Proof.
  intros [A B C D E F] Hst. destruct (A Hst) as (Ha & Hh & Ht & Hl & Hv).
  constructor; simpl; try discriminate; auto.
  intros _ _. split; auto. discriminate.
Qed.

Lemma sinv_set cl c b q fs f y' b' q' :
  SInvP cl c b q fs -> f < length fs -> SOk cl y' -> NoDup q' ->
  (forall g, g <> f -> (In g q' <-> In g q)) -> (In f q' <-> s_st y' = SReg) ->
  length b' <= c -> (q' <> [] -> length b' = c) -> (cl = true -> q' = []) ->
  SInvP cl c b' q' (upd f y' fs).
Proof.
  intros [Hnd Hin Hok Hlen Hfull Hcl] Hlt Hy Hnd' Hoth Hf Hlen' Hfull' Hcl'. constructor; auto.
  - intros g. upd_cases g Hlt; auto. rewrite Hoth by auto. apply Hin.
  - intros g. upd_cases g Hlt; auto.
Qed.

Lemma sinv_plain cl c b q fs f y' :
  SInvP cl c b q fs -> f < length fs -> SOk cl y' ->
  s_st y' <> SReg -> s_st (nth f fs sabsent) <> SReg ->
  SInvP cl c b q (upd f y' fs).
Proof.
  intros S Hlt Hy H1 H2. apply (sinv_set cl c b q fs f y' b q S Hlt); try tauto.
  - apply (si_nd _ _ _ _ _ S).
  - rewrite (si_in _ _ _ _ _ S). tauto.
  - apply (si_len _ _ _ _ _ S).
  - apply (si_full _ _ _ _ _ S).
  - apply (si_cl _ _ _ _ _ S).
Qed.

Lemma sinv_unlink cl c b q fs f y' :
  SInvP cl c b q fs -> f < length fs -> SOk cl y' -> s_st y' <> SReg ->
  SInvP cl c b (remove f q) (upd f y' fs).
Proof.
  intros S Hlt Hy H1. apply (sinv_set cl c b q fs f y' b _ S Hlt); try tauto.
  - apply NoDup_remove, (si_nd _ _ _ _ _ S).
  - intros g Hne. rewrite In_remove. tauto.
  - split; [intros H; apply notin_remove in H; tauto|tauto].
  - apply (si_len _ _ _ _ _ S).
  - intros H. apply (si_full _ _ _ _ _ S). intros E. rewrite E in H. apply H. reflexivity.
  - intros H. rewrite (si_cl _ _ _ _ _ S H). reflexivity.
Qed.

Lemma sinv_buf cl c b q fs b' :
  SInvP cl c b q fs -> length b' <= c -> (q <> [] -> length b' = c) -> SInvP cl c b' q fs.
Proof. intros [Hnd Hin Hok Hlen Hfull Hcl] H1 H2. constructor; auto. Qed.

Lemma can_push_true s : can_push s = true -> length (buf s) <> cap s.
Proof. unfold can_push. intros H. bool_hyps. auto. Qed.

Lemma can_push_false s : can_push s = false -> length (buf s) = cap s.
Proof. unfold can_push. intros H. bool_hyps. auto. Qed.

Lemma in_sendq_lt s g : Inv s -> In g (sendq s) -> g < length (sfs s).
Proof.
  intros [_ IS _] H. apply (si_in _ _ _ _ _ IS) in H.
  apply (so_reg _ _ (si_ok _ _ _ _ _ IS g)) in H. apply alive_lt_s. unfold gets. tauto.
Qed.

Lemma in_recvq_lt s g : Inv s -> In g (recvq s) -> g < length (rfs s).
Proof.
  intros [IR _ _] H. apply (ri_in _ _ _ IR) in H.
  apply (ri_reg _ _ _ IR) in H. apply alive_lt_r. unfold getr. tauto.
Qed.

Lemma inv_notify s : Inv s -> Inv (notify_st s).
Proof.
  intros I. destruct (notify_st_spec s) as [[_ E]|[g [Eo E]]]; rewrite E; auto.
  pose proof I as [IR IS IH]. constructor; cbn [closed cap buf recvq sendq rfs sfs senders receivers
    pend_sclose pend_rclose pend_clear explicit gone setr]; auto.
  rewrite (remove_last_is_remove _ g (ri_nd _ _ _ IR) Eo).
  apply rinv_drop; auto; [|discriminate].
  apply in_recvq_lt; auto. apply olast_In; auto.
Qed.

Lemma hinv_buf cl b b' sn rn ps pr pc ex gn :
  HInvP cl b sn rn ps pr pc ex gn -> (rn = 0 -> pr = 0 -> pc = 0 -> b' = []) ->
  HInvP cl b' sn rn ps pr pc ex gn.
Proof. intros [h1 h2 h3 h4 h5 h6 h7 h8 h9] H. constructor; auto. Qed.

Lemma inv_rcv s s1 ov : Inv s -> rcv_out s s1 ov -> Inv s1.
Proof.
  intros I O. pose proof I as [IR IS IH]. destruct O as [v rest Eb Eq|v rest g x Eb Eo Ev|g x Eb Eo Ev|Eb Eq]; auto.
  - constructor; cbn [closed cap buf recvq sendq rfs sfs senders receivers
      pend_sclose pend_rclose pend_clear explicit gone setr sets setbuf]; auto.
    + apply (sinv_buf _ _ _ _ _ rest IS).
      * pose proof (si_len _ _ _ _ _ IS) as L. rewrite Eb in L. simpl in L. lia.
      * rewrite Eq. congruence.
    + apply (hinv_buf _ _ rest _ _ _ _ _ _ _ IH). intros A B C.
      rewrite (h_clear _ _ _ _ _ _ _ _ _ IH A B C) in Eb. discriminate.
  - assert (Hin : In g (sendq s)) by (apply olast_In; auto).
    constructor; cbn [closed cap buf recvq sendq rfs sfs senders receivers
      pend_sclose pend_rclose pend_clear explicit gone setr sets setbuf]; auto.
    + rewrite (remove_last_is_remove _ g (si_nd _ _ _ _ _ IS) Eo).
      apply (sinv_set _ _ _ _ _ g (s_complete (gets s g)) (rest ++ [x]) (remove g (sendq s)) IS).
      * apply in_sendq_lt; auto.
      * apply sok_complete. apply (si_ok _ _ _ _ _ IS). apply (si_in _ _ _ _ _ IS); auto.
      * apply NoDup_remove, (si_nd _ _ _ _ _ IS).
      * intros h Hne. rewrite In_remove. tauto.
      * split; [intros H; apply notin_remove in H; tauto|discriminate].
      * pose proof (si_len _ _ _ _ _ IS) as L. rewrite Eb in L. rewrite app_length. simpl in *. lia.
      * intros _. rewrite <- (si_full _ _ _ _ _ IS).
        -- rewrite Eb, app_length. simpl. lia.
        -- intros E. rewrite E in Hin. destruct Hin.
      * intros H. rewrite (si_cl _ _ _ _ _ IS H). reflexivity.
    + apply (hinv_buf _ _ _ _ _ _ _ _ _ _ IH). intros A B C.
      rewrite (h_clear _ _ _ _ _ _ _ _ _ IH A B C) in Eb. discriminate.
  - assert (Hin : In g (sendq s)) by (apply olast_In; auto).
    constructor; cbn [closed cap buf recvq sendq rfs sfs senders receivers
      pend_sclose pend_rclose pend_clear explicit gone setr sets setbuf]; auto.
    rewrite (remove_last_is_remove _ g (si_nd _ _ _ _ _ IS) Eo).
    apply sinv_unlink; auto.
    + apply in_sendq_lt; auto.
    + apply sok_complete. apply (si_ok _ _ _ _ _ IS). apply (si_in _ _ _ _ _ IS); auto.
    + discriminate.
Qed.

Lemma rcv_frame s s1 ov : rcv_out s s1 ov ->
  recvq s1 = recvq s /\ rfs s1 = rfs s /\ closed s1 = closed s /\ cap s1 = cap s /\ gone s1 = gone s /\
  explicit s1 = explicit s /\ senders s1 = senders s /\ receivers s1 = receivers s /\
  pend_sclose s1 = pend_sclose s /\ pend_rclose s1 = pend_rclose s /\ pend_clear s1 = pend_clear s.
Proof. intros O. destruct O; repeat split; reflexivity. Qed.

(* close *)
Lemma rinv_close cl q fs : RInvP cl q fs -> RInvP true [] (resetR fs (rev q)).
Proof.
  intros [Hnd Hin Hreg Hcl].
  assert (Hnd' : NoDup (rev q)) by (apply NoDup_rev; auto).
  assert (Hst : forall f, r_st (nth f (resetR fs (rev q)) rabsent) <> RReg).
  { intros f. rewrite resetR_nth by auto. destruct (memb f (rev q)) eqn:Em; [simpl; discriminate|].
    apply memb_false in Em. rewrite <- in_rev in Em. rewrite Hin in Em. auto. }
  constructor; auto.
  - constructor.
  - intros f. split; [intros []|]. intros H. apply Hst in H. destruct H.
  - intros f H. apply Hst in H. destruct H.
Qed.

Lemma sinv_close c b q fs : SInvP false c b q fs -> SInvP true c b [] (resetS fs (rev q)).
Proof.
  intros [Hnd Hin Hok Hlen Hfull Hcl].
  assert (Hnd' : NoDup (rev q)) by (apply NoDup_rev; auto).
  assert (Hst : forall f, s_st (nth f (resetS fs (rev q)) sabsent) <> SReg).
  { intros f. rewrite resetS_nth by auto. destruct (memb f (rev q)) eqn:Em; [simpl; discriminate|].
    apply memb_false in Em. rewrite <- in_rev in Em. rewrite Hin in Em. auto. }
  constructor; auto.
  - constructor.
  - intros f. split; [intros []|]. intros H. apply Hst in H. destruct H.
  - intros f. rewrite resetS_nth by auto. destruct (memb f (rev q)) eqn:Em.
    + apply memb_In in Em. rewrite <- in_rev in Em. apply Hin in Em. eapply sok_reset; eauto.
    + apply sok_mono; auto.
Qed.

Lemma rinv_cl_true cl q fs : RInvP cl q fs -> cl = true -> RInvP true q fs.
Proof. intros R ->. auto. Qed.

Lemma close_if_R s e :
  RInvP (closed s) (recvq s) (rfs s) ->
  RInvP (closed (close_if s e)) (recvq (close_if s e)) (rfs (close_if s e)).
Proof.
  intros R. unfold close_if. destruct (closed s) eqn:E; [rewrite E; auto|].
  cbn [closed recvq rfs close_state]. eapply rinv_close; eauto.
Qed.

Lemma close_if_S s e :
  SInvP (closed s) (cap s) (buf s) (sendq s) (sfs s) ->
  SInvP (closed (close_if s e)) (cap (close_if s e)) (buf (close_if s e)) (sendq (close_if s e)) (sfs (close_if s e)).
Proof.
  intros S. unfold close_if. destruct (closed s) eqn:E; [rewrite E; auto|].
  cbn [closed cap buf sendq sfs close_state]. apply sinv_close; auto.
Qed.

Lemma nth_map_const {A} (d : A) (l : list A) f : nth f (map (fun _ => d) l) d = d.
Proof. revert f; induction l as [|h t IH]; intros [|f]; simpl; auto. Qed.

Lemma rinv_teardown cl (fs : list rfut) : RInvP cl [] (map (fun _ => rabsent) fs).
Proof.
  constructor; auto.
  - constructor.
  - intros f. rewrite nth_map_const. simpl. split; [tauto|discriminate].
  - intros f. rewrite nth_map_const. discriminate.
Qed.

Lemma nth_map_sabsent (fs : list sfut) f : nth f (map (fun _ : sfut => sabsent) fs) sabsent = sabsent.
Proof. apply nth_map_const. Qed.

Lemma sinv_teardown cl c (fs : list sfut) : SInvP cl c [] [] (map (fun _ => sabsent) fs).
Proof.
  constructor; auto.
  - constructor.
  - intros f. rewrite nth_map_sabsent. simpl. split; [tauto|discriminate].
  - intros f. rewrite nth_map_sabsent. apply sok_absent.
  - simpl. lia.
  - congruence.
Qed.

Local Ltac projs :=
  cbn [closed cap buf recvq sendq rfs sfs senders receivers pend_sclose pend_rclose pend_clear explicit gone
       setr sets setbuf setcounts cnt_s cnt_r close_state teardown_state].

Local Ltac use_h8 :=
  match goal with
  | h : explicit _ = false -> _, Ha : explicit _ = false, Hb : closed _ = true |- _ => destruct (h Ha Hb)
  end.

Lemma inv_out s o s' res vals : Inv s -> legal s o = true -> out s o s' res vals -> Inv s'.
Proof.
  intros I Hl O. pose proof I as [IR IS IH].
  unfold legal in Hl. apply andb_true_iff in Hl. destruct Hl as [Hg Hl]. apply negb_true_iff in Hg.
  destruct O; try exact I.
  - (* CreateSend *) bool_hyps. constructor; projs; auto.
    apply sinv_plain; auto; [apply sok_fresh|discriminate|].
    intros H2. apply (so_reg _ _ (si_ok _ _ _ _ _ IS f)) in H2. unfold gets in *. destruct H2. congruence.
  - (* PollSend closed *) bool_hyps. constructor; projs; auto.
    apply sinv_plain; auto; [apply alive_lt_s; auto|apply sok_done|discriminate|unfold gets in *; congruence].
  - (* PollSend park *) bool_hyps. apply inv_notify. constructor; projs; auto.
    assert (Hni : ~ In f (sendq s)).
    { intros Hin. apply (si_in _ _ _ _ _ IS) in Hin. unfold gets in *. congruence. }
    pose proof (si_ok _ _ _ _ _ IS f) as OK. fold (gets s f) in OK.
    apply (sinv_set _ _ _ _ _ f _ (buf s) (f :: sendq s) IS).
    + apply alive_lt_s; auto.
    + apply sok_park; auto. apply (so_unreg _ _ OK); auto.
    + constructor; auto. apply (si_nd _ _ _ _ _ IS).
    + intros g Hne. simpl. split; [intros [?|?]; [congruence|auto]|auto].
    + simpl. split; auto.
    + apply (si_len _ _ _ _ _ IS).
    + intros _. apply can_push_false; auto.
    + congruence.
  - (* PollSend push *) bool_hyps. apply inv_notify.
    pose proof (can_push_true s H1) as Hcp. pose proof (si_len _ _ _ _ _ IS) as L.
    constructor; projs; auto.
    + apply (sinv_set _ _ _ _ _ f _ (buf s ++ [v]) (sendq s) IS); try tauto.
      * apply alive_lt_s; auto.
      * apply sok_done.
      * apply (si_nd _ _ _ _ _ IS).
      * rewrite (si_in _ _ _ _ _ IS). simpl. unfold gets in *. rewrite H0. tauto.
      * rewrite app_length. simpl. lia.
      * intros Hq. apply (si_full _ _ _ _ _ IS) in Hq. lia.
      * apply (si_cl _ _ _ _ _ IS).
    + apply (hinv_buf _ _ _ _ _ _ _ _ _ _ IH). intros A B C.
      pose proof (h_rcl _ _ _ _ _ _ _ _ _ IH Hg A B). congruence.
  - (* PollSend SReg *) bool_hyps. constructor; projs; auto.
    pose proof (si_ok _ _ _ _ _ IS f) as OK. fold (gets s f) in OK.
    apply (sinv_set _ _ _ _ _ f _ (buf s) (sendq s) IS); try tauto.
    + apply alive_lt_s; auto.
    + apply sok_park; auto. apply (so_reg _ _ OK); auto.
    + apply (si_nd _ _ _ _ _ IS).
    + rewrite (si_in _ _ _ _ _ IS). simpl. unfold gets in *. rewrite H. tauto.
    + apply (si_len _ _ _ _ _ IS).
    + apply (si_full _ _ _ _ _ IS).
    + apply (si_cl _ _ _ _ _ IS).
  - (* PollSend SComplete *) bool_hyps. constructor; projs; auto.
    apply sinv_plain; auto; [apply alive_lt_s; auto| |discriminate|unfold gets in *; congruence].
    apply sok_fin; auto. apply (si_ok _ _ _ _ _ IS).
  - (* CancelSend *) constructor; projs; auto.
    apply sinv_unlink; auto; [apply alive_lt_s; auto| |].
    + apply sok_cancel. apply (si_ok _ _ _ _ _ IS).
    + simpl. destruct (s_st (gets s f)); discriminate.
  - (* DropSend *) constructor; projs; auto.
    apply sinv_unlink; auto; [apply alive_lt_s; auto|apply sok_absent|discriminate].
  - (* CreateRecv *) bool_hyps. constructor; projs; auto.
    apply rinv_plain; auto; [discriminate|].
    intros H2. apply (ri_reg _ _ _ IR) in H2. unfold getr in *. destruct H2. congruence.
  - (* PollRecv got *) bool_hyps.
    pose proof (inv_rcv _ _ _ I H0) as [IR1 IS1 IH1].
    destruct (rcv_frame _ _ _ H0) as (E1 & E2 & _).
    constructor; projs; auto.
    apply rinv_plain; auto; [|discriminate|].
    + rewrite E2. apply alive_lt_r; auto.
    + rewrite E2. auto.
  - (* PollRecv none *) bool_hyps. constructor; projs; auto.
    apply rinv_plain; auto; [apply alive_lt_r; auto|discriminate].
  - (* PollRecv park *) bool_hyps. constructor; projs; auto.
    assert (Hni : ~ In f (recvq s)).
    { intros Hin. apply (ri_in _ _ _ IR) in Hin. auto. }
    apply (rinv_set _ _ _ f _ (f :: recvq s) IR).
    + apply alive_lt_r; auto.
    + constructor; auto. apply (ri_nd _ _ _ IR).
    + intros g Hne. simpl. split; [intros [?|?]; [congruence|auto]|auto].
    + simpl. split; auto.
    + simpl. intros _. repeat split; auto. discriminate.
    + congruence.
  - (* PollRecv RReg *) bool_hyps. constructor; projs; auto.
    apply (rinv_set _ _ _ f _ (recvq s) IR); try tauto.
    + apply alive_lt_r; auto.
    + apply (ri_nd _ _ _ IR).
    + rewrite (ri_in _ _ _ IR). simpl. unfold getr in *. rewrite H. tauto.
    + simpl. intros _. repeat split; auto. discriminate.
    + apply (ri_cl _ _ _ IR).
  - (* DropRecv notified *) apply inv_notify. constructor; projs; auto.
    apply rinv_plain; auto; [apply alive_lt_r; auto|discriminate|unfold getr in *; congruence].
  - (* DropRecv *) constructor; projs; auto.
    apply rinv_drop; auto; [apply alive_lt_r; auto|discriminate].
  - (* TrySend push *) bool_hyps. apply inv_notify.
    pose proof (can_push_true s H0) as Hcp. pose proof (si_len _ _ _ _ _ IS) as L.
    constructor; projs; auto.
    + apply (sinv_buf _ _ _ _ _ _ IS).
      * rewrite app_length. simpl. lia.
      * intros Hq. apply (si_full _ _ _ _ _ IS) in Hq. lia.
    + apply (hinv_buf _ _ _ _ _ _ _ _ _ _ IH). intros A B C.
      pose proof (h_rcl _ _ _ _ _ _ _ _ _ IH Hg A B). congruence.
  - (* TryRecv got *) eapply inv_rcv; eauto.
  - (* Close *) constructor; [apply close_if_R; auto|apply close_if_S; auto|].
    unfold close_if. destruct (closed s) eqn:Ecl; [rewrite Ecl; auto|]. projs.
    destruct IH as [h1 h2 h3 h4 h5 h6 h7 h8 h9]. rewrite orb_true_r.
    constructor; intros; auto; try discriminate.
  - (* CloneSender *) bool_hyps. constructor; projs; auto.
    destruct IH as [h1 h2 h3 h4 h5 h6 h7 h8 h9]. constructor; intros; auto; try lia.
    use_h8; [lia|auto].
  - (* DropSenderDec *) bool_hyps. constructor; projs; auto.
    destruct IH as [h1 h2 h3 h4 h5 h6 h7 h8 h9].
    destruct (Nat.eqb_spec (senders s) 1) as [E|E]; constructor; intros; auto; try lia.
    + use_h8; [lia|auto].
  - (* DropSenderClose *) bool_hyps.
    constructor; [apply (close_if_R (cnt_s s (senders s) (pred (pend_sclose s)))); auto
                 |apply (close_if_S (cnt_s s (senders s) (pred (pend_sclose s)))); auto|].
    unfold close_if. projs. destruct (closed s) eqn:Ecl; projs; try rewrite Ecl;
      destruct IH as [h1 h2 h3 h4 h5 h6 h7 h8 h9]; constructor; intros; auto; try lia.
  - (* CloneReceiver *) bool_hyps. constructor; projs; auto.
    destruct IH as [h1 h2 h3 h4 h5 h6 h7 h8 h9]. constructor; intros; auto; try lia.
    use_h8; [auto|lia].
  - (* DropReceiverDec *) bool_hyps. constructor; projs; auto.
    destruct IH as [h1 h2 h3 h4 h5 h6 h7 h8 h9].
    destruct (Nat.eqb_spec (receivers s) 1) as [E|E]; constructor; intros; auto; try lia.
    + use_h8; [auto|lia].
  - (* DropReceiverClose *) bool_hyps.
    constructor; [apply (close_if_R (cnt_r s (receivers s) (pred (pend_rclose s)) (S (pend_clear s)))); auto
                 |apply (close_if_S (cnt_r s (receivers s) (pred (pend_rclose s)) (S (pend_clear s)))); auto|].
    unfold close_if. projs. destruct (closed s) eqn:Ecl; projs; try rewrite Ecl;
      destruct IH as [h1 h2 h3 h4 h5 h6 h7 h8 h9]; constructor; intros; auto; try lia.
  - (* DropReceiverClear *) bool_hyps. constructor; projs; auto.
    + pose proof (h_pc _ _ _ _ _ _ _ _ _ IH Hl) as Hc.
      apply (sinv_buf _ _ _ _ _ _ IS); simpl; [lia|].
      rewrite (si_cl _ _ _ _ _ IS Hc). congruence.
    + destruct IH as [h1 h2 h3 h4 h5 h6 h7 h8 h9]. constructor; intros; auto; try lia.
  - (* Teardown *) constructor; projs.
    + apply rinv_teardown.
    + apply sinv_teardown.
    + destruct IH as [h1 h2 h3 h4 h5 h6 h7 h8 h9]. constructor; intros; auto; try lia; discriminate.
Qed.

Lemma inv_step s o : Inv s -> legal s o = true -> Inv (fst (step s o)).
Proof. intros I Hl. eapply inv_out; eauto. apply step_out; auto. Qed.

Theorem reach_inv kr ks c s : Reach kr ks c s -> Inv s.
Proof. induction 1; [apply inv_init|apply inv_step; auto]. Qed.

Lemma step_out_ex s o : Inv s -> legal s o = true ->
  exists s' res vals, fst (step s o) = s' /\ o_res (snd (step s o)) = res /\ o_val (snd (step s o)) = vals /\
                      out s o s' res vals.
Proof. intros I Hl. do 3 eexists. repeat split. apply step_out; auto. Qed.

(* ------------------------------------------------------------------ *)
(* C11: close semantics *)
Theorem close_status : forall s,
  o_res (snd (step s Close)) = [Rbool (negb (closed s))] /\ closed (fst (step s Close)) = true.
Proof.
  intros s. cbn [step]. destruct (do_close_eq s true) as [E1 E2].
  destruct (do_close s true) as [[s' n] wk]. cbn [fst snd mk_obs o_res] in *. subst. split; auto.
  unfold close_if. destruct (closed s) eqn:E; auto.
Qed.

Lemma closed_notify s : closed (fst (notify_oldest_recv s)) = closed s.
Proof. unfold notify_oldest_recv. destruct (olast (recvq s)); reflexivity. Qed.

Lemma closed_try_receive s : closed (fst (fst (try_receive s))) = closed s.
Proof.
  unfold try_receive. destruct (buf s); destruct (olast (sendq s)); cbv zeta;
    try destruct (s_val (gets s _)); reflexivity.
Qed.

Lemma closed_close_if s e : closed (close_if s e) = true.
Proof. unfold close_if. destruct (closed s) eqn:E; auto. Qed.

Local Ltac dnotify :=
  match goal with
  | |- context [notify_oldest_recv ?x] =>
      let E := fresh "En" in
      pose proof (closed_notify x) as E; destruct (notify_oldest_recv x) as [? ?]; cbn [fst] in E
  end.

Theorem closed_monotone : forall s o,
  closed s = true -> closed (fst (step s o)) = true.
Proof.
  intros s o Hc. destruct o; cbn [step]; cbv zeta; auto.
  - (* PollSend *)
    destruct (negb (s_hp (gets s f))); auto.
    destruct (s_st (gets s f)); auto.
    rewrite Hc. destruct (s_val (gets s f)); auto.
  - destruct (negb (s_hp (gets s f))); auto.
    destruct (match s_st (gets s f) with SReg => negb (memb f (sendq s)) | _ => false end); auto.
    destruct (s_val (gets s f)); auto.
  - destruct (s_hp (gets s f) && _)%bool; auto.
  - destruct (negb (r_hp (getr s f))); auto.
    pose proof (closed_try_receive s) as E.
    destruct (r_st (getr s f)); auto; destruct (try_receive s) as [[s1 ov] wk]; cbn [fst] in E;
      (destruct ov; [cbn; congruence|rewrite Hc; auto]).
  - destruct (r_hp (getr s f)); auto. destruct (r_st (getr s f)); auto.
    + destruct (memb f (recvq s)); auto.
    + dnotify. cbn in *. congruence.
  - rewrite Hc. auto.
  - pose proof (closed_try_receive s) as E. destruct (try_receive s) as [[s1 ov] wk]; cbn [fst] in E.
    destruct ov; cbn; congruence.
  - destruct (do_close_eq s true) as [E1 E2]. destruct (do_close s true) as [[s' n] wk]. cbn [fst snd] in *.
    subst. apply closed_close_if.
  - match goal with |- context [do_close ?a ?b] =>
      destruct (do_close_eq a b) as [E1 E2]; destruct (do_close a b) as [[s' n] wk] end.
    cbn [fst snd] in *. subst. apply closed_close_if.
  - match goal with |- context [do_close ?a ?b] =>
      destruct (do_close_eq a b) as [E1 E2]; destruct (do_close a b) as [[s' n] wk] end.
    cbn [fst snd] in *. subst. apply closed_close_if.
Qed.

Theorem send_after_close : forall kr ks c s,
  Reach kr ks c s -> closed s = true ->
  (forall v, legal s (TrySend v) = true -> o_res (snd (step s (TrySend v))) = [R_ERR; 1%N; v]) /\
  (forall f w, legal s (PollSend f w) = true -> s_st (gets s f) <> SComplete ->
     exists v, s_val (gets s f) = Some v /\ o_res (snd (step s (PollSend f w))) = [R_ERR; v]).
Proof.
  intros kr ks c s R Hc. apply reach_inv in R. pose proof R as [IR IS IH]. split.
  - intros v Hl. destruct (step_out_ex s _ R Hl) as (s' & res & vals & _ & -> & _ & O).
    inversion O; subst; auto; congruence.
  - intros f w Hl Hst. destruct (step_out_ex s _ R Hl) as (s' & res & vals & _ & -> & _ & O).
    inversion O; subst; try congruence.
    + eauto.
    + exfalso. assert (Hin : In f (sendq s)) by (apply (si_in _ _ _ _ _ IS); auto).
      rewrite (si_cl _ _ _ _ _ IS Hc) in Hin. destruct Hin.
Qed.

Lemma woke_same o : o <> None -> woke_by o o = true.
Proof. destruct o; [intros _; simpl; apply Nat.eqb_refl|congruence]. Qed.

Theorem close_wakes_all : forall kr ks c s,
  Reach kr ks c s -> closed s = false ->
  let s' := fst (step s Close) in
  recvq s' = [] /\ sendq s' = [] /\
  (forall f, In f (recvq s) -> r_woken (getr s' f) = true /\ r_st (getr s' f) = RUnreg) /\
  (forall f, In f (sendq s) -> s_woken (gets s' f) = true /\ s_st (gets s' f) = SUnreg).
Proof.
  intros kr ks c s R Hc. apply reach_inv in R. pose proof R as [IR IS IH].
  cbn [step]. destruct (do_close_eq s true) as [E1 E2].
  destruct (do_close s true) as [[s' n] wk]. cbn [fst snd] in *. subst.
  unfold close_if. rewrite Hc. cbn [close_state recvq sendq]. repeat split; auto.
  - unfold getr, close_state. cbn [rfs]. rewrite resetR_nth by (apply NoDup_rev, (ri_nd _ _ _ IR)).
    assert (Hm : memb f (rev (recvq s)) = true) by (apply memb_In; rewrite <- in_rev; auto).
    rewrite Hm. cbn [r_woken r_reset]. apply (ri_in _ _ _ IR) in H. apply (ri_reg _ _ _ IR) in H.
    destruct H as (_ & _ & Ht & Hn). rewrite Ht. rewrite woke_same by auto. apply orb_true_r.
  - unfold getr, close_state. cbn [rfs]. rewrite resetR_nth by (apply NoDup_rev, (ri_nd _ _ _ IR)).
    assert (Hm : memb f (rev (recvq s)) = true) by (apply memb_In; rewrite <- in_rev; auto).
    rewrite Hm. reflexivity.
  - unfold gets, close_state. cbn [sfs]. rewrite resetS_nth by (apply NoDup_rev, (si_nd _ _ _ _ _ IS)).
    assert (Hm : memb f (rev (sendq s)) = true) by (apply memb_In; rewrite <- in_rev; auto).
    rewrite Hm. cbn [s_woken s_reset]. apply (si_in _ _ _ _ _ IS) in H.
    apply (so_reg _ _ (si_ok _ _ _ _ _ IS f)) in H.
    destruct H as (_ & _ & Ht & Hn & _). rewrite Ht. rewrite woke_same by auto. apply orb_true_r.
  - unfold gets, close_state. cbn [sfs]. rewrite resetS_nth by (apply NoDup_rev, (si_nd _ _ _ _ _ IS)).
    assert (Hm : memb f (rev (sendq s)) = true) by (apply memb_In; rewrite <- in_rev; auto).
    rewrite Hm. reflexivity.
Qed.

Lemma rcv_closed s s1 v : Inv s -> closed s = true -> rcv_out s s1 (Some v) -> exists rest, buf s = v :: rest.
Proof.
  intros [IR IS IH] Hc O. pose proof (si_cl _ _ _ _ _ IS Hc) as Hq.
  inversion O; subst; eauto; rewrite Hq in *; discriminate.
Qed.

Theorem drain_then_none : forall kr ks c s,
  Reach kr ks c s -> closed s = true -> legal s TryRecv = true ->
  o_res (snd (step s TryRecv)) =
    match buf s with v :: _ => [R_SOME; v] | [] => [R_ERR; 1%N] end /\
  (forall f w, legal s (PollRecv f w) = true ->
     o_res (snd (step s (PollRecv f w))) = match buf s with v :: _ => [R_SOME; v] | [] => [R_NONE] end).
Proof.
  intros kr ks c s R Hc Hl. apply reach_inv in R. pose proof R as [IR IS IH]. split.
  - destruct (step_out_ex s _ R Hl) as (s' & res & vals & _ & -> & _ & O).
    inversion O; subst.
    + match goal with H : rcv_out _ _ (Some _) |- _ => destruct (rcv_closed _ _ _ R Hc H) as [rest E] end.
      rewrite E. reflexivity.
    + match goal with H : buf _ = [] |- _ => rewrite H end. rewrite Hc. reflexivity.
  - intros f w Hl2. destruct (step_out_ex s _ R Hl2) as (s' & res & vals & _ & -> & _ & O).
    inversion O; subst; try congruence.
    + match goal with H : rcv_out _ _ (Some _) |- _ => destruct (rcv_closed _ _ _ R Hc H) as [rest E] end.
      rewrite E. reflexivity.
    + match goal with H : buf _ = [] |- _ => rewrite H end. reflexivity.
    + exfalso. assert (Hin : In f (recvq s)) by (apply (ri_in _ _ _ IR); auto).
      rewrite (ri_cl _ _ _ IR Hc) in Hin. destruct Hin.
Qed.

Theorem implicit_close : forall kr ks c s,
  Reach kr ks c s -> explicit s = false -> gone s = false ->
  (closed s = true -> senders s = 0 \/ receivers s = 0) /\
  (senders s = 0 -> pend_sclose s = 0 -> closed s = true) /\
  (receivers s = 0 -> pend_rclose s = 0 -> closed s = true).
Proof.
  intros kr ks c s R He Hg. apply reach_inv in R. destruct R as [_ _ [h1 h2 h3 h4 h5 h6 h7 h8 h9]].
  repeat split; auto.
Qed.

Theorem last_receiver_clears : forall kr ks c s,
  Reach kr ks c s ->
  (receivers s = 0 -> pend_rclose s = 0 -> pend_clear s = 0 -> buf s = []) /\
  (legal s DropReceiverClear = true ->
     buf (fst (step s DropReceiverClear)) = [] /\
     o_val (snd (step s DropReceiverClear)) = vals_of V_DROPPED (buf s)).
Proof.
  intros kr ks c s R. apply reach_inv in R. destruct R as [_ _ [h1 h2 h3 h4 h5 h6 h7 h8 h9]].
  split; auto.
Qed.

(* ------------------------------------------------------------------ *)
(* C09: capacity on the model state *)
Lemma cap_notify s : cap (notify_st s) = cap s.
Proof. unfold notify_st, notify_oldest_recv. destruct (olast (recvq s)); reflexivity. Qed.

Lemma cap_close_if s e : cap (close_if s e) = cap s.
Proof. unfold close_if. destruct (closed s); reflexivity. Qed.

Lemma cap_out s o s' res vals : out s o s' res vals -> cap s' = cap s.
Proof.
  intros O. destruct O; try reflexivity; try (rewrite cap_notify; reflexivity);
    try (rewrite cap_close_if; reflexivity).
  - cbn [cap setr]. apply (rcv_frame _ _ _ H0).
  - apply (rcv_frame _ _ _ H).
Qed.

Lemma reach_cap kr ks c s : Reach kr ks c s -> cap s = c.
Proof.
  induction 1; [reflexivity|]. rewrite <- IHReach. eapply cap_out. apply step_out; auto.
  eapply reach_inv; eauto.
Qed.

Theorem capacity_inv : forall kr ks c s,
  Reach kr ks c s ->
  length (buf s) <= cap s /\ (sendq s <> [] -> length (buf s) = cap s) /\ cap s = c.
Proof.
  intros kr ks c s R. pose proof (reach_cap _ _ _ _ R) as Hc. apply reach_inv in R. destruct R as [_ IS _].
  repeat split; auto; [apply (si_len _ _ _ _ _ IS)|apply (si_full _ _ _ _ _ IS)].
Qed.

(* ------------------------------------------------------------------ *)
(* C08: where values are destroyed *)
Lemma pairs_vals_of k l : pairs (vals_of k l) = map (fun v => (k, v)) l.
Proof. induction l as [|h t IH]; simpl; auto. f_equal. apply IH. Qed.

Theorem drops_only_where_allowed : forall kr ks c s o v,
  Reach kr ks c s -> legal s o = true ->
  In (V_DROPPED, v) (pairs (o_val (snd (step s o)))) ->
  (exists f, o = DropSend f /\ s_val (gets s f) = Some v) \/ o = DropReceiverClear \/ o = Teardown.
Proof.
  intros kr ks c s o v R Hl Hin. apply reach_inv in R.
  destruct (step_out_ex s _ R Hl) as (s' & res & vals & _ & _ & E & O). rewrite E in Hin. clear E.
  unfold V_DROPPED in Hin.
  destruct O; auto; try (simpl in Hin; unfold V_BACK, V_DELIVERED in Hin; intuition congruence).
  - destruct (s_val (gets s f)); simpl in Hin; unfold V_BACK in Hin; intuition congruence.
  - destruct (s_val (gets s f)) eqn:Ev; simpl in Hin; [|tauto].
    destruct Hin as [Hin|[]]. inv Hin. left. eauto.
Qed.

(* ------------------------------------------------------------------ *)
(* multisets of tags by counting *)
Definition cnt (v : tag) (l : list tag) : nat := count_occ N.eq_dec l v.
Arguments cnt : simpl never.

Local Ltac nlia := unfold tag in *; lia.

Lemma cnt_nil v : cnt v [] = 0.
Proof. reflexivity. Qed.

Lemma cnt_app v a b : cnt v (a ++ b) = cnt v a + cnt v b.
Proof. apply count_occ_app. Qed.

Lemma cnt_cons v x l : cnt v (x :: l) = cnt v [x] + cnt v l.
Proof. apply (cnt_app v [x] l). Qed.

Lemma cnt_self v : cnt v [v] = 1.
Proof. unfold cnt. simpl. destruct (N.eq_dec v v); congruence. Qed.

Lemma cnt_other v x : x <> v -> cnt v [x] = 0.
Proof. unfold cnt. simpl. destruct (N.eq_dec x v); congruence. Qed.

Lemma cnt_one_le v x : cnt v [x] <= 1.
Proof. destruct (N.eq_dec x v) as [->|H]; [rewrite cnt_self|rewrite cnt_other]; auto. Qed.

Lemma cnt_In v l : In v l <-> 0 < cnt v l.
Proof. apply count_occ_In. Qed.

Lemma cnt_notin v l : ~ In v l <-> cnt v l = 0.
Proof. rewrite cnt_In. lia. Qed.

Lemma nodup_cnt l : NoDup l <-> forall v, cnt v l <= 1.
Proof. apply NoDup_count_occ. Qed.

Lemma cnt_nil_inv l : (forall v, cnt v l = 0) -> l = [].
Proof. apply count_occ_inv_nil. Qed.

Lemma In_removeN x v l : In x (removeN v l) <-> In x l /\ x <> v.
Proof.
  unfold removeN. rewrite filter_In. rewrite negb_true_iff, N.eqb_neq. tauto.
Qed.

Lemma cnt_removeN_same v l : cnt v (removeN v l) = 0.
Proof. apply cnt_notin. rewrite In_removeN. tauto. Qed.

Lemma cnt_removeN_other x v l : x <> v -> cnt x (removeN v l) = cnt x l.
Proof.
  intros Hne. induction l as [|h t IH]; [reflexivity|].
  unfold removeN in *. cbn [filter]. destruct (N.eqb_spec h v) as [->|Hh]; cbn [negb].
  - rewrite (cnt_cons x _ t), cnt_other by auto. exact IH.
  - rewrite (cnt_cons x _ t), (cnt_cons x _ (filter _ t)), IH. reflexivity.
Qed.

Lemma memN_In v l : memN v l = true <-> In v l.
Proof.
  unfold memN. rewrite existsb_exists. split.
  - intros [x [H1 H2]]. apply N.eqb_eq in H2. subst. auto.
  - intros H. exists v. split; auto. apply N.eqb_refl.
Qed.

Lemma memN_false v l : memN v l = false <-> ~ In v l.
Proof. rewrite <- memN_In. destruct (memN v l); split; congruence. Qed.

Lemma cnt_insertN v x l : cnt v (insertN x l) = cnt v [x] + cnt v l.
Proof.
  induction l as [|h t IH]; simpl; auto.
  destruct (N.leb x h).
  - apply (cnt_cons v _ (h :: t)).
  - rewrite (cnt_cons v _ (insertN x t)), IH, (cnt_cons v _ t). lia.
Qed.

Lemma cnt_sortN v l : cnt v (sortN l) = cnt v l.
Proof.
  induction l as [|h t IH]; simpl; auto.
  rewrite cnt_insertN, IH. symmetry. apply cnt_cons.
Qed.

(* values held by send futures *)
Lemma held_upd_same f y fs : sv y = sv (nth f fs sabsent) -> held (upd f y fs) = held fs.
Proof.
  revert f; induction fs as [|h t IH]; intros [|f] E; simpl in *; auto.
  - rewrite E. auto.
  - rewrite IH; auto.
Qed.

Lemma cnt_held_upd v f y fs : f < length fs ->
  cnt v (held (upd f y fs)) + cnt v (sv (nth f fs sabsent)) = cnt v (held fs) + cnt v (sv y).
Proof.
  revert f; induction fs as [|h t IH]; intros [|f] Hlt; simpl in *; try lia.
  - unfold held. simpl. rewrite !cnt_app. lia.
  - unfold held in *. simpl. rewrite !cnt_app. specialize (IH f). lia.
Qed.

Lemma held_resetS order : forall fs, held (resetS fs order) = held fs.
Proof.
  induction order as [|f r IH]; intros fs; [reflexivity|].
  rewrite resetS_cons, IH. apply held_upd_same. reflexivity.
Qed.

Lemma held_absent (fs : list sfut) : held (map (fun _ => sabsent) fs) = [].
Proof. induction fs; simpl; auto. Qed.

Lemma sv_alive y : s_alive y = true -> sv y = match s_val y with Some v => [v] | None => [] end.
Proof. unfold sv. intros ->. reflexivity. Qed.

Lemma sv_dead y : s_alive y = false -> sv y = [].
Proof. unfold sv. intros ->. destruct (s_val y); reflexivity. Qed.

Lemma in_flight_notify s : in_flight (notify_st s) = in_flight s.
Proof. unfold notify_st, notify_oldest_recv. destruct (olast (recvq s)); reflexivity. Qed.

Lemma in_flight_close_if s e : in_flight (close_if s e) = in_flight s.
Proof.
  unfold close_if. destruct (closed s); auto. unfold in_flight, close_state. cbn [buf sfs].
  fold sv. fold (held (resetS (sfs s) (rev (sendq s)))). rewrite held_resetS. reflexivity.
Qed.

Definition moved (vals : list N) : list N := map snd (pairs vals).

Lemma moved_vals_of k l : moved (vals_of k l) = l.
Proof. unfold moved. rewrite pairs_vals_of, map_map. simpl. apply map_id. Qed.

Lemma rcv_flow s s1 x : Inv s -> rcv_out s s1 (Some x) ->
  forall v, cnt v (in_flight s1) + cnt v [x] = cnt v (in_flight s).
Proof.
  intros I O v. pose proof I as [IR IS IH].
  inversion O as [v0 rest Eb Eq|v0 rest g y Eb Eo Ev|g y Eb Eo Ev|]; subst; rewrite !in_flight_eq;
    cbn [buf sfs setbuf sets]; rewrite Eb.
  - rewrite (cnt_app v (x :: rest)), (cnt_cons v _ rest), cnt_app. nlia.
  - assert (Hlt : g < length (sfs s)) by (apply in_sendq_lt; auto; apply olast_In; auto).
    assert (Ha : s_alive (gets s g) = true).
    { apply olast_In in Eo. apply (si_in _ _ _ _ _ IS) in Eo.
      apply (so_reg _ _ (si_ok _ _ _ _ _ IS g)) in Eo. tauto. }
    pose proof (cnt_held_upd v g (s_complete (gets s g)) (sfs s) Hlt) as Hc.
    fold (gets s g) in Hc. rewrite (sv_alive _ Ha), Ev in Hc.
    change (sv (s_complete (gets s g))) with (@nil tag) in Hc. rewrite cnt_nil in Hc.
    rewrite !cnt_app, (cnt_cons v _ rest). nlia.
  - assert (Hlt : g < length (sfs s)) by (apply in_sendq_lt; auto; apply olast_In; auto).
    assert (Ha : s_alive (gets s g) = true).
    { apply olast_In in Eo. apply (si_in _ _ _ _ _ IS) in Eo.
      apply (so_reg _ _ (si_ok _ _ _ _ _ IS g)) in Eo. tauto. }
    pose proof (cnt_held_upd v g (s_complete (gets s g)) (sfs s) Hlt) as Hc.
    fold (gets s g) in Hc. rewrite (sv_alive _ Ha), Ev in Hc.
    change (sv (s_complete (gets s g))) with (@nil tag) in Hc. rewrite cnt_nil in Hc.
    rewrite !cnt_app. simpl. nlia.
Qed.

Lemma flow_out s o s' res vals : Inv s -> legal s o = true -> out s o s' res vals ->
  forall v, cnt v (in_flight s') + cnt v (moved vals) = cnt v (in_flight s) + cnt v (injected [o]).
Proof.
  intros I Hl O v. pose proof I as [IR IS IH].
  unfold legal in Hl. apply andb_true_iff in Hl. destruct Hl as [Hg Hl]. apply negb_true_iff in Hg.
  destruct O; try rewrite in_flight_notify; try rewrite in_flight_close_if;
    try (rewrite !in_flight_eq; projs); cbn [injected flat_map moved pairs map snd app];
    rewrite ?cnt_nil; try nlia.
  - (* CreateSend *) bool_hyps.
    pose proof (cnt_held_upd v f (s_fresh v0) (sfs s) H) as Hc.
    fold (gets s f) in Hc. rewrite (sv_dead _ H1) in Hc. change (sv (s_fresh v0)) with [v0] in Hc.
    rewrite cnt_nil in Hc. rewrite !cnt_app. nlia.
  - (* PollSend closed *) bool_hyps.
    pose proof (cnt_held_upd v f (s_done (gets s f) w) (sfs s) (alive_lt_s _ _ H2)) as Hc.
    fold (gets s f) in Hc. rewrite (sv_alive _ H2), H1 in Hc.
    change (sv (s_done (gets s f) w)) with (@nil tag) in Hc. rewrite cnt_nil in Hc.
    rewrite !cnt_app. nlia.
  - (* PollSend park *) bool_hyps.
    rewrite held_upd_same; [nlia|]. fold (gets s f). rewrite (sv_alive _ H2). reflexivity.
  - (* PollSend push *) bool_hyps.
    pose proof (cnt_held_upd v f (s_done (gets s f) w) (sfs s) (alive_lt_s _ _ H3)) as Hc.
    fold (gets s f) in Hc. rewrite (sv_alive _ H3), H2 in Hc.
    change (sv (s_done (gets s f) w)) with (@nil tag) in Hc. rewrite cnt_nil in Hc.
    rewrite !cnt_app. nlia.
  - (* SReg *) bool_hyps.
    rewrite held_upd_same; [nlia|]. fold (gets s f). rewrite (sv_alive _ H0). reflexivity.
  - (* SComplete *) bool_hyps.
    rewrite held_upd_same; [nlia|]. fold (gets s f). rewrite (sv_alive _ H0). reflexivity.
  - (* CancelSend *)
    pose proof (cnt_held_upd v f (s_cancel (gets s f)) (sfs s) (alive_lt_s _ _ Hl)) as Hc.
    fold (gets s f) in Hc. rewrite (sv_alive _ Hl) in Hc.
    change (sv (s_cancel (gets s f))) with (@nil tag) in Hc. rewrite cnt_nil in Hc.
    rewrite !cnt_app. destruct (s_val (gets s f)); cbn [moved pairs map snd]; rewrite ?cnt_nil in *; nlia.
  - (* DropSend *)
    pose proof (cnt_held_upd v f sabsent (sfs s) (alive_lt_s _ _ Hl)) as Hc.
    fold (gets s f) in Hc. rewrite (sv_alive _ Hl) in Hc.
    change (sv sabsent) with (@nil tag) in Hc. rewrite cnt_nil in Hc.
    rewrite !cnt_app. destruct (s_val (gets s f)); cbn [moved pairs map snd]; rewrite ?cnt_nil in *; nlia.
  - (* PollRecv got *)
    pose proof (rcv_flow _ _ _ I H0 v) as Hf. rewrite !in_flight_eq in Hf. nlia.
  - (* TrySend push *) rewrite !cnt_app. nlia.
  - (* TryRecv *)
    pose proof (rcv_flow _ _ _ I H v) as Hf. rewrite !in_flight_eq in Hf. nlia.
  - (* clear *) rewrite moved_vals_of, !cnt_app. cbn [app]. rewrite ?cnt_nil. nlia.
  - (* teardown *) rewrite moved_vals_of, held_absent, cnt_sortN. change (cnt v []) with 0. nlia.
Qed.

Lemma flow_step s o : Inv s -> legal s o = true ->
  forall v, cnt v (in_flight (fst (step s o))) + cnt v (moved (o_val (snd (step s o)))) =
            cnt v (in_flight s) + cnt v (injected [o]).
Proof. intros I Hl. eapply flow_out; eauto. apply step_out; auto. Qed.

Lemma injected_cons o r : injected (o :: r) = injected [o] ++ injected r.
Proof. unfold injected. simpl. rewrite app_nil_r. reflexivity. Qed.

Lemma nodup_step s o r : Inv s -> legal s o = true ->
  NoDup (in_flight s ++ injected (o :: r)) -> NoDup (in_flight (fst (step s o)) ++ injected r).
Proof.
  intros I Hl Hnd. rewrite nodup_cnt in *. intros v. specialize (Hnd v).
  rewrite injected_cons, !cnt_app in Hnd. rewrite cnt_app.
  pose proof (flow_step s o I Hl v). nlia.
Qed.

(* ------------------------------------------------------------------ *)
(* C08: the conservation monitor *)
Lemma cons_move_fold : forall ps c,
  NoDup (map snd ps) -> incl (map snd ps) (c_live c) ->
  c_ok (fold_left cons_move ps c) = c_ok c /\
  forall x, (In x (map snd ps) -> cnt x (c_live (fold_left cons_move ps c)) = 0) /\
            (~ In x (map snd ps) -> cnt x (c_live (fold_left cons_move ps c)) = cnt x (c_live c)).
Proof.
  induction ps as [|[k v] r IH]; intros c Hnd Hincl; cbn [fold_left map snd] in *.
  - split; auto. intros x. split; [intros []|auto].
  - inv Hnd. assert (Hv : In v (c_live c)) by (apply Hincl; left; auto).
    destruct (IH (cons_move c (k, v))) as [Hok Hc]; auto.
    + intros x Hx. cbn [cons_move c_live]. apply In_removeN. split.
      * apply Hincl. right. auto.
      * intro; subst. auto.
    + split.
      * rewrite Hok. cbn [cons_move c_ok]. apply memN_In in Hv. rewrite Hv. apply andb_true_r.
      * intros x. destruct (Hc x) as [Hc1 Hc2]. split.
        -- intros [->|Hx]; auto.
           destruct (in_dec N.eq_dec x (map snd r)) as [Hi|Hi]; auto.
           rewrite Hc2 by auto. cbn [cons_move c_live]. apply cnt_removeN_same.
        -- intros Hx. rewrite Hc2 by (intro; apply Hx; right; auto). cbn [cons_move c_live]. apply cnt_removeN_other.
           intro; subst. apply Hx. left. auto.
Qed.

Lemma cons_step_ok s c o : Inv s -> legal s o = true ->
  c_ok c = true -> (forall v, cnt v (c_live c) = cnt v (in_flight s)) ->
  NoDup (in_flight s ++ injected [o]) ->
  c_ok (cons_step c (o, snd (step s o))) = true /\
  forall v, cnt v (c_live (cons_step c (o, snd (step s o)))) = cnt v (in_flight (fst (step s o))).
Proof.
  intros I Hl Hok Hlive Hnd. rewrite nodup_cnt in Hnd.
  pose proof (flow_step s o I Hl) as Hflow.
  unfold cons_step.
  set (c1 := match o with
             | CreateSend _ v | TrySend v => mkCons (v :: c_live c) (c_ok c && negb (memN v (c_live c)))
             | _ => c
             end).
  assert (H1 : c_ok c1 = true /\ forall x, cnt x (c_live c1) = cnt x (injected [o]) + cnt x (c_live c)).
  { assert (Hfresh : forall v, injected [o] = [v] ->
              c_ok (mkCons (v :: c_live c) (c_ok c && negb (memN v (c_live c)))) = true /\
              forall x, cnt x (c_live (mkCons (v :: c_live c) (c_ok c && negb (memN v (c_live c))))) =
                        cnt x (injected [o]) + cnt x (c_live c)).
    { intros v E. cbn [c_ok c_live]. split.
      - rewrite Hok. simpl. apply negb_true_iff. apply memN_false. apply cnt_notin.
        specialize (Hnd v). rewrite cnt_app, E, cnt_self in Hnd. rewrite Hlive. lia.
      - intros x. rewrite E. apply cnt_cons. }
    destruct o; try (split; [exact Hok|intros x; reflexivity]); apply Hfresh; reflexivity. }
  destruct H1 as [Hok1 Hlive1]. clearbody c1.
  set (ps := pairs (o_val (snd (step s o)))).
  assert (Hm : forall x, cnt x (in_flight (fst (step s o))) + cnt x (map snd ps) = cnt x (c_live c1)).
  { intros x. rewrite Hlive1, Hlive. specialize (Hflow x). unfold moved in Hflow. subst ps. lia. }
  assert (Hle : forall x, cnt x (c_live c1) <= 1).
  { intros x. rewrite Hlive1, Hlive. specialize (Hnd x). rewrite cnt_app in Hnd. lia. }
  destruct (cons_move_fold ps c1) as [Hok2 Hlive2].
  { apply nodup_cnt. intros x. specialize (Hm x). specialize (Hle x). lia. }
  { intros x Hx. apply cnt_In in Hx. apply cnt_In. specialize (Hm x). lia. }
  assert (Hres : forall x, cnt x (c_live (fold_left cons_move ps c1)) = cnt x (in_flight (fst (step s o)))).
  { intros x. destruct (Hlive2 x) as [A B]. specialize (Hm x). specialize (Hle x).
    destruct (in_dec N.eq_dec x (map snd ps)) as [Hi|Hi].
    - rewrite A by auto. apply cnt_In in Hi. lia.
    - rewrite B by auto. apply cnt_notin in Hi. lia. }
  rewrite Hok1 in Hok2.
  destruct o; try (split; [exact Hok2|exact Hres]).
  (* Teardown *)
  cbn [c_ok c_live]. split; auto. rewrite Hok2.
  assert (E : c_live (fold_left cons_move ps c1) = []).
  { apply cnt_nil_inv. intros x. rewrite Hres. cbn [step fst]. rewrite in_flight_eq. cbn [buf sfs].
    rewrite held_absent. reflexivity. }
  rewrite E. reflexivity.
Qed.

Lemma cons_run : forall ops s c,
  Inv s -> c_ok c = true -> (forall v, cnt v (c_live c) = cnt v (in_flight s)) ->
  NoDup (in_flight s ++ injected ops) -> legal_run s ops ->
  c_ok (fold_left cons_step (trace s ops) c) = true /\
  forall v, cnt v (c_live (fold_left cons_step (trace s ops) c)) = cnt v (in_flight (run s ops)).
Proof.
  induction ops as [|o r IH]; intros s c I Hok Hlive Hnd Hr; cbn [trace fold_left run legal_run] in *; auto.
  destruct Hr as [Hl Hr].
  destruct (cons_step_ok s c o I Hl Hok Hlive) as [Hok' Hlive'].
  { rewrite nodup_cnt in *. intros v. specialize (Hnd v). rewrite injected_cons, !cnt_app in Hnd.
    rewrite cnt_app. lia. }
  apply IH; auto.
  - apply inv_step; auto.
  - apply nodup_step; auto.
Qed.

Lemma in_flight_init kr ks c : in_flight (init kr ks c) = [].
Proof.
  unfold in_flight, init. cbn [buf sfs]. induction ks; simpl; auto.
Qed.

Theorem conservation_holds : forall kr ks c ops,
  legal_run (init kr ks c) ops -> unique_tags ops ->
  conservation_ok (trace (init kr ks c) ops) = true.
Proof.
  intros kr ks c ops Hr Hu. unfold conservation_ok.
  apply cons_run; auto.
  - apply inv_init.
  - rewrite in_flight_init. reflexivity.
  - rewrite in_flight_init. exact Hu.
Qed.

Theorem live_is_in_flight : forall kr ks c ops,
  legal_run (init kr ks c) ops -> unique_tags ops ->
  Permutation (c_live (fold_left cons_step (trace (init kr ks c) ops) (mkCons [] true)))
              (in_flight (run (init kr ks c) ops)).
Proof.
  intros kr ks c ops Hr Hu. apply (Permutation_count_occ N.eq_dec).
  apply (cons_run ops (init kr ks c) (mkCons [] true)); auto.
  - apply inv_init.
  - rewrite in_flight_init. reflexivity.
  - rewrite in_flight_init. exact Hu.
Qed.

(* ------------------------------------------------------------------ *)
(* C09: uniqueness facts derived from the history *)
Definition at1 (y : sfut) : list tag := if s_alive y then [s_tag y] else [].
Definition atags (s : state) : list tag := flat_map at1 (sfs s).

Lemma fm_upd_same (h : sfut -> list tag) f y fs :
  h y = h (nth f fs sabsent) -> flat_map h (upd f y fs) = flat_map h fs.
Proof.
  revert f; induction fs as [|a t IH]; intros [|f] E; simpl in *; auto.
  - rewrite E. auto.
  - rewrite IH; auto.
Qed.

Lemma cnt_fm_upd (h : sfut -> list tag) v f y fs : f < length fs ->
  cnt v (flat_map h (upd f y fs)) + cnt v (h (nth f fs sabsent)) = cnt v (flat_map h fs) + cnt v (h y).
Proof.
  revert f; induction fs as [|a t IH]; intros [|f] Hlt; simpl in *; try lia.
  - rewrite !cnt_app. lia.
  - rewrite !cnt_app. specialize (IH f). lia.
Qed.

Lemma cnt_fm_one (h : sfut -> list tag) v fs : forall i, i < length fs ->
  cnt v (h (nth i fs sabsent)) <= cnt v (flat_map h fs).
Proof.
  induction fs as [|a t IH]; intros [|i] Hlt; simpl in *; try lia; rewrite cnt_app.
  - lia.
  - specialize (IH i). lia.
Qed.

Lemma cnt_fm_two (h : sfut -> list tag) v fs : forall i j, i <> j -> i < length fs -> j < length fs ->
  cnt v (h (nth i fs sabsent)) + cnt v (h (nth j fs sabsent)) <= cnt v (flat_map h fs).
Proof.
  induction fs as [|a t IH]; intros [|i] [|j] Hne Hi Hj; simpl in *; try lia; rewrite cnt_app.
  - pose proof (cnt_fm_one h v t j). lia.
  - pose proof (cnt_fm_one h v t i). lia.
  - specialize (IH i j). lia.
Qed.

Lemma atags_resetS order : forall fs, flat_map at1 (resetS fs order) = flat_map at1 fs.
Proof.
  induction order as [|f r IH]; intros fs; [reflexivity|].
  rewrite resetS_cons, IH. apply fm_upd_same. reflexivity.
Qed.

Lemma atags_notify s : atags (notify_st s) = atags s.
Proof. unfold notify_st, notify_oldest_recv. destruct (olast (recvq s)); reflexivity. Qed.

Lemma atags_close_if s e : atags (close_if s e) = atags s.
Proof.
  unfold close_if. destruct (closed s); auto. unfold atags, close_state. cbn [sfs]. apply atags_resetS.
Qed.

Lemma atags_rcv s s1 ov : rcv_out s s1 ov -> atags s1 = atags s.
Proof.
  intros O. destruct O; auto; unfold atags; cbn [sfs sets setbuf]; apply fm_upd_same; reflexivity.
Qed.

Lemma at1_alive y : s_alive y = true -> at1 y = [s_tag y].
Proof. unfold at1. intros ->. reflexivity. Qed.

Lemma atags_out s o s' res vals : Inv s -> legal s o = true -> out s o s' res vals ->
  forall v, cnt v (atags s') <= cnt v (atags s) + cnt v (injected [o]).
Proof.
  intros I Hl O v.
  unfold legal in Hl. apply andb_true_iff in Hl. destruct Hl as [Hg Hl]. apply negb_true_iff in Hg.
  destruct O; try rewrite atags_notify; try rewrite atags_close_if;
    try (erewrite atags_rcv by eauto); try (unfold atags; projs; lia).
  - (* CreateSend *) bool_hyps. unfold atags; projs.
    pose proof (cnt_fm_upd at1 v f (s_fresh v0) (sfs s) H) as Hc.
    change (at1 (s_fresh v0)) with [v0] in Hc. cbn [injected flat_map app]. nlia.
  - bool_hyps. unfold atags; projs. rewrite fm_upd_same; [lia|].
    fold (gets s f). rewrite (at1_alive _ H2). reflexivity.
  - bool_hyps. unfold atags; projs. rewrite fm_upd_same; [lia|].
    fold (gets s f). rewrite (at1_alive _ H2). reflexivity.
  - bool_hyps. unfold atags; projs. rewrite fm_upd_same; [lia|].
    fold (gets s f). rewrite (at1_alive _ H3). reflexivity.
  - bool_hyps. unfold atags; projs. rewrite fm_upd_same; [lia|].
    fold (gets s f). rewrite (at1_alive _ H0). reflexivity.
  - bool_hyps. unfold atags; projs. rewrite fm_upd_same; [lia|].
    fold (gets s f). rewrite (at1_alive _ H0). reflexivity.
  - unfold atags; projs. rewrite fm_upd_same; [lia|].
    fold (gets s f). rewrite (at1_alive _ Hl). reflexivity.
  - unfold atags; projs.
    pose proof (cnt_fm_upd at1 v f sabsent (sfs s) (alive_lt_s _ _ Hl)) as Hc.
    change (at1 sabsent) with (@nil tag) in Hc. change (cnt v []) with 0 in Hc. nlia.
  - (* PollRecv got *) unfold atags. projs. fold (atags s1). erewrite atags_rcv by eauto. unfold atags. lia.
  - (* teardown *) unfold atags; projs.
    assert (E : flat_map at1 (map (fun _ : sfut => sabsent) (sfs s)) = []) by (induction (sfs s); simpl; auto).
    rewrite E. change (cnt v []) with 0. lia.
Qed.

Lemma atags_step s o r : Inv s -> legal s o = true ->
  NoDup (atags s ++ injected (o :: r)) -> NoDup (atags (fst (step s o)) ++ injected r).
Proof.
  intros I Hl Hnd. rewrite nodup_cnt in *. intros v. specialize (Hnd v).
  rewrite injected_cons, !cnt_app in Hnd. rewrite cnt_app.
  pose proof (atags_out s o _ _ _ I Hl (step_out s o I Hl) v). lia.
Qed.

Lemma val_alive s g v : Inv s -> s_val (gets s g) = Some v ->
  s_alive (gets s g) = true /\ s_hp (gets s g) = true /\ v = s_tag (gets s g) /\ g < length (sfs s).
Proof.
  intros [_ IS _] Hv. pose proof (si_ok _ _ _ _ _ IS g) as OK. fold (gets s g) in OK.
  assert (Hh : s_hp (gets s g) = true).
  { destruct (s_hp (gets s g)) eqn:E; auto. rewrite (so_nohp _ _ OK E) in Hv. discriminate. }
  assert (Ha : s_alive (gets s g) = true).
  { destruct (s_alive (gets s g)) eqn:E; auto. rewrite (so_dead _ _ OK E) in Hh. discriminate. }
  repeat split; auto. - apply (so_tag _ _ OK); auto. - apply alive_lt_s; auto.
Qed.

Record Uniq (s : state) : Prop := {
  u_buf : NoDup (buf s);
  u_held : forall g v, s_val (gets s g) = Some v -> ~ In v (buf s);
  u_tag : forall f g, f <> g -> s_alive (gets s f) = true -> s_alive (gets s g) = true ->
          s_tag (gets s f) <> s_tag (gets s g)
}.

Lemma uniq_of s : Inv s -> NoDup (in_flight s) -> NoDup (atags s) -> Uniq s.
Proof.
  intros I N1 N2. rewrite nodup_cnt in N1, N2. constructor.
  - apply nodup_cnt. intros v. specialize (N1 v). rewrite in_flight_eq, cnt_app in N1. lia.
  - intros g v Hv Hin. destruct (val_alive s g v I Hv) as (Ha & Hh & Ht & Hlt).
    specialize (N1 v). rewrite in_flight_eq, cnt_app in N1. apply cnt_In in Hin.
    pose proof (cnt_fm_one sv v (sfs s) g Hlt) as Hc. fold (gets s g) in Hc.
    rewrite (sv_alive _ Ha), Hv, cnt_self in Hc. unfold held in N1. lia.
  - intros f g Hne Hf Hg E.
    pose proof (cnt_fm_two at1 (s_tag (gets s f)) (sfs s) f g Hne (alive_lt_s _ _ Hf) (alive_lt_s _ _ Hg)) as Hc.
    fold (gets s f) in Hc. fold (gets s g) in Hc.
    rewrite (at1_alive _ Hf), (at1_alive _ Hg), <- E, cnt_self in Hc.
    specialize (N2 (s_tag (gets s f))). unfold atags in N2. lia.
Qed.

Lemma held_distinct s f g v : Inv s -> Uniq s -> f <> g ->
  s_val (gets s f) = Some v -> s_val (gets s g) <> Some v.
Proof.
  intros I U Hne Hf Hg.
  destruct (val_alive s f v I Hf) as (Ha & _ & Ht & _).
  destruct (val_alive s g v I Hg) as (Ha' & _ & Ht' & _).
  apply (u_tag s U f g Hne Ha Ha'). congruence.
Qed.

Lemma held_in_flight s g v : Inv s -> s_val (gets s g) = Some v -> In v (held (sfs s)).
Proof.
  intros I Hv. destruct (val_alive s g v I Hv) as (Ha & _ & _ & Hlt).
  apply cnt_In. pose proof (cnt_fm_one sv v (sfs s) g Hlt) as Hc. fold (gets s g) in Hc.
  rewrite (sv_alive _ Ha), Hv, cnt_self in Hc. unfold held. lia.
Qed.

(* ------------------------------------------------------------------ *)
(* C09: the reference FIFO *)
Definition polled (y : sfut) : bool := match s_lastw y with Some _ => true | None => false end.
Definition pvalP (fs : list sfut) (f : fid) : list tag :=
  match s_val (nth f fs sabsent) with Some v => [v] | None => [] end.
Definition parkedP (sq : list fid) (fs : list sfut) : list tag := flat_map (pvalP fs) (rev sq).

Lemma abs_queue_eq s : abs_queue s = buf s ++ parkedP (sendq s) (sfs s).
Proof. reflexivity. Qed.

Lemma removeN_app v a b : removeN v (a ++ b) = removeN v a ++ removeN v b.
Proof. apply filter_app. Qed.

Lemma removeN_notin v l : ~ In v l -> removeN v l = l.
Proof.
  induction l as [|h t IH]; intros H; [reflexivity|]. unfold removeN in *. cbn [filter].
  destruct (N.eqb_spec h v) as [->|Hne]; cbn [negb].
  - exfalso. apply H. left. auto.
  - f_equal. apply IH. intro. apply H. right. auto.
Qed.

Lemma NoDup_removeN v l : NoDup l -> NoDup (removeN v l).
Proof. apply NoDup_filter. Qed.

Definition rmall (l a : list N) : list N := fold_left (fun a v => removeN v a) l a.

Lemma In_rmall l : forall a x, In x (rmall l a) <-> In x a /\ ~ In x l.
Proof.
  induction l as [|h t IH]; intros a x; simpl.
  - tauto.
  - rewrite IH, In_removeN. split; [intros [[A B] C]|intros [A B]]; repeat split; auto.
    intros [?|?]; [congruence|auto].
Qed.

Lemma NoDup_rmall l : forall a, NoDup a -> NoDup (rmall l a).
Proof. induction l as [|h t IH]; intros a H; simpl; auto. apply IH. apply NoDup_removeN; auto. Qed.

Lemma rmall_incl_nil l a : incl a l -> rmall l a = [].
Proof.
  intros H. destruct (rmall l a) as [|x r] eqn:E; auto.
  assert (Hx : In x (rmall l a)) by (rewrite E; left; auto).
  apply In_rmall in Hx. destruct Hx as [A B]. exfalso. auto.
Qed.

Lemma fifo_move_dropped l : forall q,
  fold_left fifo_move (map (fun v => (V_DROPPED, v)) l) q =
  mkFifo (rmall l (q_fifo q)) (rmall l (q_acc q)) (q_slot q) (q_good q).
Proof.
  induction l as [|h t IH]; intros q; simpl.
  - destruct q; reflexivity.
  - rewrite IH. reflexivity.
Qed.

Lemma pval_upd_other fs f y g : g <> f -> pvalP (upd f y fs) g = pvalP fs g.
Proof. intros H. unfold pvalP. rewrite nth_upd_other by auto. reflexivity. Qed.

Lemma parked_upd_notin sq fs f y : ~ In f sq -> parkedP sq (upd f y fs) = parkedP sq fs.
Proof.
  intros H. unfold parkedP. apply flat_map_ext_in. intros g Hg. apply pval_upd_other.
  intro; subst. apply H. apply in_rev. auto.
Qed.

Lemma pval_upd_same fs f y g : s_val y = s_val (nth f fs sabsent) -> pvalP (upd f y fs) g = pvalP fs g.
Proof.
  intros E. unfold pvalP. rewrite nth_upd.
  destruct (Nat.eqb_spec f g) as [->|Hne]; simpl; auto.
  destruct (Nat.ltb g (length fs)); auto. rewrite E. reflexivity.
Qed.

Lemma parked_upd_same sq fs f y : s_val y = s_val (nth f fs sabsent) -> parkedP sq (upd f y fs) = parkedP sq fs.
Proof. intros E. unfold parkedP. apply flat_map_ext_in. intros g _. apply pval_upd_same; auto. Qed.

Lemma parked_cons f sq fs : parkedP (f :: sq) fs = parkedP sq fs ++ pvalP fs f.
Proof. unfold parkedP. simpl. rewrite flat_map_app. simpl. rewrite app_nil_r. reflexivity. Qed.

Lemma parked_pop sq fs g y : olast sq = Some g -> NoDup sq ->
  parkedP sq fs = pvalP fs g ++ parkedP (removelast sq) (upd g y fs).
Proof.
  intros Eo Hnd. rewrite parked_upd_notin by (apply NoDup_last_notin; auto).
  unfold parkedP. rewrite (rev_olast _ _ Eo). reflexivity.
Qed.

Lemma parked_held sq fs v : In v (parkedP sq fs) -> exists g, s_val (nth g fs sabsent) = Some v.
Proof.
  unfold parkedP. rewrite in_flat_map. intros [g [_ H]]. exists g. unfold pvalP in H.
  destruct (s_val (nth g fs sabsent)); simpl in H; [|tauto]. destruct H as [->|[]]. reflexivity.
Qed.

Lemma remove_app f a b : remove f (a ++ b) = remove f a ++ remove f b.
Proof. apply filter_app. Qed.

Lemma remove_rev f l : remove f (rev l) = rev (remove f l).
Proof.
  induction l as [|h t IH]; [reflexivity|].
  cbn [rev]. rewrite remove_app, IH. unfold remove at 2 3. cbn [filter].
  destruct (negb (Nat.eqb h f)); cbn [rev]; auto. apply app_nil_r.
Qed.

Lemma removeN_pvals fs f y v : s_val (nth f fs sabsent) = Some v ->
  (forall g, g <> f -> s_val (nth g fs sabsent) <> Some v) ->
  forall l, removeN v (flat_map (pvalP fs) l) = flat_map (pvalP (upd f y fs)) (remove f l).
Proof.
  intros Hf Hoth. induction l as [|g t IH]; [reflexivity|].
  cbn [flat_map]. rewrite removeN_app, IH. unfold remove. cbn [filter].
  destruct (Nat.eqb_spec g f) as [->|Hne]; cbn [negb].
  - unfold pvalP at 1. rewrite Hf. unfold removeN. cbn [filter]. rewrite N.eqb_refl. reflexivity.
  - cbn [flat_map]. rewrite pval_upd_other by auto. f_equal.
    apply removeN_notin. unfold pvalP. specialize (Hoth g Hne).
    destruct (s_val (nth g fs sabsent)); simpl; [|tauto]. intros [->|[]]. auto.
Qed.

Lemma parked_remove sq fs f y v : s_val (nth f fs sabsent) = Some v ->
  (forall g, g <> f -> s_val (nth g fs sabsent) <> Some v) ->
  removeN v (parkedP sq fs) = parkedP (remove f sq) (upd f y fs).
Proof.
  intros Hf Hoth. unfold parkedP. rewrite <- remove_rev. apply removeN_pvals; auto.
Qed.

Lemma resetS_fields order fs g : NoDup order ->
  s_val (nth g (resetS fs order) sabsent) = s_val (nth g fs sabsent) /\
  s_alive (nth g (resetS fs order) sabsent) = s_alive (nth g fs sabsent) /\
  s_hp (nth g (resetS fs order) sabsent) = s_hp (nth g fs sabsent) /\
  s_tag (nth g (resetS fs order) sabsent) = s_tag (nth g fs sabsent) /\
  s_lastw (nth g (resetS fs order) sabsent) = s_lastw (nth g fs sabsent).
Proof.
  intros Hnd. rewrite resetS_nth by auto. destruct (memb g order); repeat split; reflexivity.
Qed.

Record FLP (cl : bool) (b : list tag) (sq : list fid) (fs : list sfut) (q : fifo) : Prop := {
  fl_len : length (q_slot q) = length fs;
  fl_slot : forall f, s_alive (nth f fs sabsent) = true -> s_hp (nth f fs sabsent) = true ->
            nth f (q_slot q) None = Some (s_tag (nth f fs sabsent), polled (nth f fs sabsent));
  fl_fifo : exists rest, q_fifo q = b ++ rest /\ (cl = false -> rest = parkedP sq fs) /\
            (forall v, In v rest -> exists g, s_val (nth g fs sabsent) = Some v);
  fl_accnd : NoDup (q_acc q);
  fl_acc : incl (q_acc q) b
}.
Definition FL (s : state) (q : fifo) : Prop := FLP (closed s) (buf s) (sendq s) (sfs s) q.

(* the three phases of [fifo_step] *)
Definition fifo_send (q : fifo) (o : op) (res : list N) : fifo :=
  match o with
  | CreateSend f v => mkFifo (q_fifo q) (q_acc q) (upd f (Some (v, false)) (q_slot q)) (q_good q)
  | PollSend f _ =>
      match nth f (q_slot q) None with
      | Some (v, false) =>
          if N.eqb (hd 99%N res) R_PANIC then q
          else mkFifo (if N.eqb (hd 99%N res) R_PENDING || N.eqb (hd 99%N res) R_OK then q_fifo q ++ [v] else q_fifo q)
                      (q_acc q) (upd f (Some (v, true)) (q_slot q)) (q_good q)
      | _ => q
      end
  | CancelSend f | DropSend f => mkFifo (q_fifo q) (q_acc q) (upd f None (q_slot q)) (q_good q)
  | TrySend v => if N.eqb (hd 99%N res) R_OK then mkFifo (q_fifo q ++ [v]) (q_acc q ++ [v]) (q_slot q) (q_good q) else q
  | _ => q
  end.

Definition fifo_fin (q1 q2 : fifo) (o : op) (res : list N) : fifo :=
  match o with
  | PollSend f _ =>
      if N.eqb (hd 99%N res) R_OK then
        match nth f (q_slot q1) None with
        | Some (v, _) =>
            mkFifo (q_fifo q2)
                   (if memN v (q_fifo q2) && negb (memN v (q_acc q2)) then q_acc q2 ++ [v] else q_acc q2)
                   (q_slot q2) (q_good q2)
        | None => q2
        end
      else q2
  | _ => q2
  end.

Definition fifo_pre (q : fifo) (o : op) (res vals : list N) : fifo :=
  fifo_fin (fifo_send q o res) (fold_left fifo_move (pairs vals) (fifo_send q o res)) o res.

Definition chk (cap : nat) (q : fifo) : fifo :=
  mkFifo (q_fifo q) (q_acc q) (q_slot q) (q_good q && Nat.leb (length (q_acc q)) cap).

Lemma fifo_step_eq cap q o ob : fifo_step cap q (o, ob) = chk cap (fifo_pre q o (o_res ob) (o_val ob)).
Proof. reflexivity. Qed.

Local Ltac neval :=
  repeat match goal with
  | |- context [N.eqb ?a ?b] =>
      let r := eval vm_compute in (N.eqb a b) in
      match r with
      | true => change (N.eqb a b) with true
      | false => change (N.eqb a b) with false
      end
  end.

Lemma slot_set (sl : list (option (N * bool))) fs f y' e :
  length sl = length fs ->
  (forall g, s_alive (nth g fs sabsent) = true -> s_hp (nth g fs sabsent) = true ->
             nth g sl None = Some (s_tag (nth g fs sabsent), polled (nth g fs sabsent))) ->
  (s_alive y' = true -> s_hp y' = true -> e = Some (s_tag y', polled y')) ->
  forall g, s_alive (nth g (upd f y' fs) sabsent) = true -> s_hp (nth g (upd f y' fs) sabsent) = true ->
            nth g (upd f e sl) None =
            Some (s_tag (nth g (upd f y' fs) sabsent), polled (nth g (upd f y' fs) sabsent)).
Proof.
  intros Hlen Hold He g. destruct (Nat.eq_dec f g) as [->|Hne].
  - destruct (Nat.lt_ge_cases g (length fs)).
    + rewrite nth_upd_same by auto. rewrite nth_upd_same by nlia. auto.
    + rewrite nth_upd_oob by auto. rewrite nth_upd_oob by nlia. apply Hold.
  - rewrite nth_upd_other by auto. rewrite nth_upd_other by auto. apply Hold.
Qed.

Lemma slot_keep (sl : list (option (N * bool))) fs f y' :
  (forall g, s_alive (nth g fs sabsent) = true -> s_hp (nth g fs sabsent) = true ->
             nth g sl None = Some (s_tag (nth g fs sabsent), polled (nth g fs sabsent))) ->
  (s_alive y' = true -> s_hp y' = true -> nth f sl None = Some (s_tag y', polled y')) ->
  forall g, s_alive (nth g (upd f y' fs) sabsent) = true -> s_hp (nth g (upd f y' fs) sabsent) = true ->
            nth g sl None = Some (s_tag (nth g (upd f y' fs) sabsent), polled (nth g (upd f y' fs) sabsent)).
Proof.
  intros Hold He g. rewrite !nth_upd.
  destruct (Nat.eqb_spec f g) as [->|Hne]; simpl; auto.
  destruct (Nat.ltb g (length fs)); auto.
Qed.

Lemma held_keep (rest : list N) fs f y' :
  (forall v, In v rest -> exists g, s_val (nth g fs sabsent) = Some v) ->
  (forall v, In v rest -> s_val (nth f fs sabsent) = Some v -> s_val y' = Some v) ->
  forall v, In v rest -> exists g, s_val (nth g (upd f y' fs) sabsent) = Some v.
Proof.
  intros Hold Hf v Hv. destruct (Hold v Hv) as [g Hg].
  destruct (Nat.eq_dec g f) as [->|Hne].
  - exists f. destruct (Nat.lt_ge_cases f (length fs)).
    + rewrite nth_upd_same by auto. auto.
    + rewrite nth_upd_oob by auto. auto.
  - exists g. rewrite nth_upd_other by auto. auto.
Qed.

Lemma fl_notify s q : FL s q -> FL (notify_st s) q.
Proof.
  intros F. destruct (notify_st_spec s) as [[_ E]|[g [_ E]]]; rewrite E; exact F.
Qed.

Lemma fl_close s e q : NoDup (sendq s) -> FL s q -> FL (close_if s e) q.
Proof.
  intros Hnd F. unfold close_if. destruct (closed s) eqn:Ecl; auto.
  destruct F as [Flen Fslot [rest [Ffi [Fopen Fheld]]] Fnd Facc].
  assert (Hnd' : NoDup (rev (sendq s))) by (apply NoDup_rev; auto).
  unfold FL, close_state. cbn [closed buf sendq sfs]. constructor; auto.
  - rewrite resetS_length. auto.
  - intros f. destruct (resetS_fields (rev (sendq s)) (sfs s) f Hnd') as (E1 & E2 & E3 & E4 & E5).
    unfold polled. rewrite E2, E3, E4, E5. apply Fslot.
  - exists rest. split; auto. split; [discriminate|].
    intros v Hv. destruct (Fheld v Hv) as [g Hg]. exists g.
    destruct (resetS_fields (rev (sendq s)) (sfs s) g Hnd') as (E1 & _). rewrite E1. auto.
Qed.

Definition deliver (x : N) (q : fifo) : fifo :=
  mkFifo (tl (q_fifo q)) (removeN x (q_acc q)) (q_slot q)
         (q_good q && match q_fifo q with h :: _ => N.eqb h x | [] => false end).

Lemma fifo_rcv s s1 x q : Inv s -> Uniq s -> FL s q -> rcv_out s s1 (Some x) ->
  q_good (deliver x q) = q_good q /\ FL s1 (deliver x q).
Proof.
  intros I U F O. pose proof I as [IR IS IH].
  destruct F as [Flen Fslot [rest [Ffi [Fopen Fheld]]] Fnd Facc].
  assert (Hacc : forall rb, buf s = x :: rb -> incl (removeN x (q_acc q)) rb).
  { intros rb Eb a Ha. apply In_removeN in Ha. destruct Ha as [Ha Hne].
    apply Facc in Ha. rewrite Eb in Ha. destruct Ha; [congruence|auto]. }
  assert (Hopen : forall g, olast (sendq s) = Some g -> closed s = false).
  { intros g Eo. destruct (closed s) eqn:Ecl; auto. rewrite (si_cl _ _ _ _ _ IS eq_refl) in Eo. discriminate. }
  unfold deliver.
  inversion O as [v0 rb Eb Eq|v0 rb g y Eb Eo Ev|g y Eb Eo Ev|]; subst; unfold FL; projs; cbn [q_good].
  - rewrite Ffi, Eb. cbn [app tl]. rewrite N.eqb_refl, andb_true_r. split; auto.
    constructor; cbn [q_slot q_fifo q_acc]; auto.
    + exists rest. auto.
    + apply NoDup_removeN; auto.
  - pose proof (Hopen g Eo) as Ecl. specialize (Fopen Ecl).
    pose proof (parked_pop (sendq s) (sfs s) g (s_complete (gets s g)) Eo (si_nd _ _ _ _ _ IS)) as Hp.
    unfold pvalP in Hp at 1. fold (gets s g) in Hp. rewrite Ev in Hp.
    rewrite Ffi, Eb, Fopen, Hp. cbn [app tl]. rewrite N.eqb_refl, andb_true_r. split; auto.
    assert (Hin : In g (sendq s)) by (apply olast_In; auto).
    apply (si_in _ _ _ _ _ IS) in Hin. apply (so_reg _ _ (si_ok _ _ _ _ _ IS g)) in Hin.
    destruct Hin as (Ha & Hh & _).
    constructor; cbn [q_slot q_fifo q_acc]; auto.
    + rewrite upd_length. auto.
    + apply slot_keep; auto. intros _ _. apply (Fslot g Ha Hh).
    + exists (parkedP (removelast (sendq s)) (upd g (s_complete (gets s g)) (sfs s))).
      split; [|split; auto].
      * rewrite <- app_assoc. reflexivity.
      * intros v. apply parked_held.
    + apply NoDup_removeN; auto.
    + intros a Ha'. apply in_or_app. left. eapply Hacc; eauto.
  - pose proof (Hopen g Eo) as Ecl. specialize (Fopen Ecl).
    pose proof (parked_pop (sendq s) (sfs s) g (s_complete (gets s g)) Eo (si_nd _ _ _ _ _ IS)) as Hp.
    unfold pvalP in Hp at 1. fold (gets s g) in Hp. rewrite Ev in Hp.
    rewrite Ffi, Eb, Fopen, Hp. cbn [app tl]. rewrite N.eqb_refl, andb_true_r. split; auto.
    assert (Hin : In g (sendq s)) by (apply olast_In; auto).
    apply (si_in _ _ _ _ _ IS) in Hin. apply (so_reg _ _ (si_ok _ _ _ _ _ IS g)) in Hin.
    destruct Hin as (Ha & Hh & _).
    constructor; cbn [q_slot q_fifo q_acc]; auto.
    + rewrite upd_length. auto.
    + apply slot_keep; auto. intros _ _. apply (Fslot g Ha Hh).
    + exists (parkedP (removelast (sendq s)) (upd g (s_complete (gets s g)) (sfs s))).
      split; [|split; auto].
      * reflexivity.
      * intros v. apply parked_held.
    + apply NoDup_removeN; auto.
    + intros a Ha'. apply In_removeN in Ha'. rewrite <- Eb. apply Facc. tauto.
Qed.

Lemma NoDup_app_intro_single {A} (l : list A) x : NoDup l -> ~ In x l -> NoDup (l ++ [x]).
Proof.
  intros H1 H2. apply NoDup_rev in H1. rewrite <- (rev_involutive (l ++ [x])).
  apply NoDup_rev. rewrite rev_app_distr. simpl. constructor; auto. rewrite <- in_rev. auto.
Qed.

Definition Fresh (s : state) (o : op) : Prop :=
  forall v, In v (injected [o]) -> ~ In v (buf s) /\ forall g, s_val (gets s g) <> Some v.

Lemma notin_sendq s f : Inv s -> s_st (gets s f) <> SReg -> ~ In f (sendq s).
Proof. intros [_ IS _] H Hin. apply (si_in _ _ _ _ _ IS) in Hin. auto. Qed.

Lemma push_sendq_nil s : Inv s -> can_push s = true -> sendq s = [].
Proof.
  intros [_ IS _] H. destruct (sendq s) eqn:E; auto. exfalso. apply (can_push_true s H).
  apply (si_full _ _ _ _ _ IS). discriminate.
Qed.

Lemma fifo_out s o s' res vals q : Inv s -> legal s o = true -> out s o s' res vals ->
  FL s q -> Uniq s -> Fresh s o ->
  q_good (fifo_pre q o res vals) = q_good q /\ FL s' (fifo_pre q o res vals).
Proof.
  intros I Hl O F U Fr. pose proof I as [IR IS IH].
  pose proof F as [Flen Fslot [rest [Ffi [Fopen Fheld]]] Fnd Facc].
  unfold legal in Hl. apply andb_true_iff in Hl. destruct Hl as [Hgone Hl]. apply negb_true_iff in Hgone.
  unfold fifo_pre.
  destruct O.
  - (* CreateSend *)
    apply andb_true_iff in Hl. destruct Hl as [Hl _]. apply andb_true_iff in Hl. destruct Hl as [Hlt Hna].
    apply Nat.ltb_lt in Hlt. apply negb_true_iff in Hna.
    cbn [fifo_send fifo_fin pairs fold_left q_good]. split; [reflexivity|].
    assert (Hnv : forall x, s_val (nth f (sfs s) sabsent) <> Some x).
    { intros x Hx. destruct (val_alive s f x I Hx) as (Ha & _). congruence. }
    unfold FL. projs. constructor; cbn [q_slot q_fifo q_acc]; auto.
    + rewrite !upd_length. auto.
    + apply slot_set; auto.
    + exists rest. split; auto. split.
      * intros Hc. rewrite parked_upd_notin; auto. apply notin_sendq; auto.
        intros Hst. apply (so_reg _ _ (si_ok _ _ _ _ _ IS f)) in Hst. unfold gets in *. destruct Hst. congruence.
      * apply held_keep; auto. intros x _ Hx. destruct (Hnv x Hx).
  - (* PollSend closed *)
    apply andb_true_iff in Hl. destruct Hl as [Ha Hhp].
    assert (Hvb : ~ In v (buf s)) by (apply (u_held s U f); auto).
    assert (Q : forall sl', length sl' = length (sfs s) ->
              (forall g, g <> f -> nth g sl' None = nth g (q_slot q) None) ->
              FL (sets s (sendq s) (upd f (s_done (gets s f) w) (sfs s)))
                 (mkFifo (removeN v (q_fifo q)) (removeN v (q_acc q)) sl' (q_good q))).
    { intros sl' Hlen' Hoth. unfold FL. projs. constructor; cbn [q_slot q_fifo q_acc].
      - rewrite upd_length. auto.
      - intros g. destruct (Nat.eq_dec g f) as [->|Hne].
        + rewrite nth_upd_same by (apply alive_lt_s; auto). simpl. discriminate.
        + rewrite nth_upd_other by auto. rewrite Hoth by auto. apply Fslot.
      - exists (removeN v rest). split; [|split].
        + rewrite Ffi, removeN_app, (removeN_notin v (buf s)); auto.
        + congruence.
        + intros x Hx. apply In_removeN in Hx. destruct Hx as [Hx Hne].
          destruct (Fheld x Hx) as [g Hg]. exists g. rewrite nth_upd_other; auto.
          intro; subst. unfold gets in *. congruence.
      - apply NoDup_removeN; auto.
      - intros x Hx. apply In_removeN in Hx. apply Facc. tauto. }
    cbn [fifo_send fifo_fin hd]. rewrite (Fslot f Ha Hhp).
    destruct (polled (nth f (sfs s) sabsent)); neval; cbn [orb pairs fold_left fifo_move];
      neval; cbn [q_fifo q_acc q_slot q_good]; (split; [reflexivity|]); apply Q; auto.
    + rewrite upd_length. auto.
    + intros g Hne. rewrite nth_upd_other; auto.
  - (* PollSend park *)
    apply andb_true_iff in Hl. destruct Hl as [Ha Hhp].
    pose proof (si_ok _ _ _ _ _ IS f) as OK. fold (gets s f) in OK.
    destruct (so_unreg _ _ OK H0 Hhp) as [Hv Hlw]. specialize (Hlw H).
    assert (Ep : polled (nth f (sfs s) sabsent) = false).
    { unfold polled. fold (gets s f). rewrite Hlw. reflexivity. }
    destruct (s_val (gets s f)) as [v|] eqn:Ev; [|congruence].
    pose proof (so_tag _ _ OK v Ev) as Et.
    cbn [fifo_send fifo_fin hd]. rewrite (Fslot f Ha Hhp), Ep. neval.
    cbn [orb pairs fold_left q_good]. split; [reflexivity|].
    apply fl_notify. unfold FL. projs. constructor; cbn [q_slot q_fifo q_acc]; auto.
    + rewrite !upd_length. auto.
    + apply slot_set; auto.
    + exists (rest ++ [v]). split; [|split].
      * unfold gets in Et. rewrite Ffi, <- Et, app_assoc. reflexivity.
      * intros _. rewrite parked_cons, parked_upd_notin by (apply notin_sendq; auto; congruence).
        rewrite <- (Fopen H). f_equal. unfold pvalP. rewrite nth_upd_same by (apply alive_lt_s; auto).
        simpl. rewrite Ev. reflexivity.
      * intros x Hx. apply in_app_or in Hx. destruct Hx as [Hx|[<-|[]]].
        -- revert x Hx. apply held_keep; auto.
        -- exists f. rewrite nth_upd_same by (apply alive_lt_s; auto). simpl. auto.
  - (* PollSend push *)
    apply andb_true_iff in Hl. destruct Hl as [Ha Hhp].
    pose proof (si_ok _ _ _ _ _ IS f) as OK. fold (gets s f) in OK.
    destruct (so_unreg _ _ OK H0 Hhp) as [Hv Hlw]. specialize (Hlw H).
    assert (Ep : polled (nth f (sfs s) sabsent) = false).
    { unfold polled. fold (gets s f). rewrite Hlw. reflexivity. }
    pose proof (so_tag _ _ OK v H2) as Et.
    assert (Hvb : ~ In v (buf s)) by (apply (u_held s U f); auto).
    assert (Hq : sendq s = []) by (apply push_sendq_nil; auto).
    assert (Hrest : rest = []) by (rewrite (Fopen H), Hq; reflexivity).
    assert (Hlt : f < length (q_slot q)) by (rewrite Flen; apply alive_lt_s; auto).
    cbn [fifo_send fifo_fin hd]. rewrite (Fslot f Ha Hhp), Ep. neval.
    cbn [orb pairs fold_left q_slot q_fifo q_acc q_good]. rewrite nth_upd_same by auto.
    match goal with |- context [if ?c then _ else _] => assert (Ec : c = true) end.
    { apply andb_true_iff. split.
      - apply memN_In. apply in_or_app. right. left. auto.
      - apply negb_true_iff, memN_false. intros Hin. apply Facc in Hin. unfold gets in Et. rewrite <- Et in Hin. auto. }
    rewrite Ec. split; [reflexivity|].
    apply fl_notify. unfold FL. projs. constructor; cbn [q_slot q_fifo q_acc]; auto.
    + rewrite !upd_length. auto.
    + apply slot_set; auto; simpl; discriminate.
    + exists []. split; [|split].
      * rewrite Ffi, Hrest, !app_nil_r. unfold gets in Et. rewrite <- Et. reflexivity.
      * intros _. rewrite Hq. reflexivity.
      * intros x [].
    + apply NoDup_app_intro_single; auto. unfold gets in Et. rewrite <- Et. intros Hin. apply Facc in Hin. auto.
    + intros x Hx. apply in_app_or in Hx. apply in_or_app. destruct Hx as [Hx|[<-|[]]]; auto.
      right. left. unfold gets in Et. auto.
  - (* PollSend SReg *)
    apply andb_true_iff in Hl. destruct Hl as [Ha Hhp].
    pose proof (si_ok _ _ _ _ _ IS f) as OK. fold (gets s f) in OK.
    destruct (so_reg _ _ OK H) as (_ & _ & _ & Hlw & Hv).
    assert (Ep : polled (nth f (sfs s) sabsent) = true).
    { unfold polled. fold (gets s f). destruct (s_lastw (gets s f)); congruence. }
    cbn [fifo_send fifo_fin hd]. rewrite (Fslot f Ha Hhp), Ep. neval.
    cbn [pairs fold_left]. split; [reflexivity|].
    unfold FL. projs. constructor; auto.
    + rewrite upd_length. auto.
    + apply slot_keep; auto. intros _ _. rewrite (Fslot f Ha Hhp), Ep. reflexivity.
    + exists rest. split; auto. split.
      * intros Hc. rewrite parked_upd_same; auto.
      * apply held_keep; auto.
  - (* PollSend SComplete *)
    apply andb_true_iff in Hl. destruct Hl as [Ha Hhp].
    pose proof (si_ok _ _ _ _ _ IS f) as OK. fold (gets s f) in OK.
    destruct (so_comp _ _ OK H) as (Hv & Hlw).
    assert (Ep : polled (nth f (sfs s) sabsent) = true).
    { unfold polled. fold (gets s f). destruct (s_lastw (gets s f)); congruence. }
    cbn [fifo_send fifo_fin hd]. rewrite (Fslot f Ha Hhp), Ep. neval.
    cbn [pairs fold_left q_good]. rewrite (Fslot f Ha Hhp).
    assert (Q : forall ac', NoDup ac' -> incl ac' (buf s) ->
              FL (sets s (sendq s) (upd f (s_fin (gets s f) w) (sfs s)))
                 (mkFifo (q_fifo q) ac' (q_slot q) (q_good q))).
    { intros ac' N1 N2. unfold FL. projs. constructor; cbn [q_slot q_fifo q_acc]; auto.
      - rewrite upd_length. auto.
      - apply slot_keep; auto; simpl; discriminate.
      - exists rest. split; auto. split.
        + intros Hc. rewrite parked_upd_same; auto.
        + apply held_keep; auto. }
    destruct (memN (s_tag (nth f (sfs s) sabsent)) (q_fifo q) &&
              negb (memN (s_tag (nth f (sfs s) sabsent)) (q_acc q)))%bool eqn:Ec;
      cbn [q_good]; (split; [reflexivity|]); apply Q; auto.
    + apply andb_true_iff in Ec. destruct Ec as [_ Ec]. apply negb_true_iff, memN_false in Ec.
      apply NoDup_app_intro_single; auto.
    + apply andb_true_iff in Ec. destruct Ec as [Ec _]. apply memN_In in Ec.
      intros x Hx. apply in_app_or in Hx. destruct Hx as [Hx|[<-|[]]]; auto.
      rewrite Ffi in Ec. apply in_app_or in Ec. destruct Ec as [Ec|Ec]; auto. exfalso.
      destruct (Fheld _ Ec) as [g Hg]. fold (gets s g) in Hg.
      destruct (val_alive s g _ I Hg) as (Hga & _ & Hgt & _).
      apply (u_tag s U f g); auto. intro; subst. congruence.
  - (* CancelSend, no value left *)
    cbn [fifo_send fifo_fin pairs fold_left q_good]. split; [reflexivity|].
    unfold FL. constructor; cbn [q_slot q_fifo q_acc]; auto.
    + rewrite upd_length. auto.
    + intros g Hga Hgh. rewrite nth_upd_other; auto. intro; subst. unfold gets in *. congruence.
    + exists rest. auto.
  - (* CancelSend *)
    pose proof (si_ok _ _ _ _ _ IS f) as OK. fold (gets s f) in OK.
    cbn [fifo_send fifo_fin].
    destruct (s_val (gets s f)) as [v|] eqn:Ev; cbn [pairs fold_left fifo_move]; neval;
      cbn [q_fifo q_acc q_slot q_good]; (split; [reflexivity|]); unfold FL; projs;
      constructor; cbn [q_slot q_fifo q_acc]; auto.
    + rewrite !upd_length. auto.
    + apply slot_set; auto; simpl; discriminate.
    + assert (Hvb : ~ In v (buf s)) by (apply (u_held s U f); auto).
      exists (removeN v rest). split; [|split].
      * rewrite Ffi, removeN_app, (removeN_notin v (buf s)); auto.
      * intros Hc. rewrite (Fopen Hc). apply parked_remove; auto.
        intros g Hne. apply (held_distinct s f g v); auto.
      * intros x Hx. apply In_removeN in Hx. destruct Hx as [Hx Hne].
        destruct (Fheld x Hx) as [g Hg]. exists g. rewrite nth_upd_other; auto.
        intro; subst. unfold gets in *. congruence.
    + apply NoDup_removeN; auto.
    + intros x Hx. apply In_removeN in Hx. apply Facc. tauto.
    + rewrite !upd_length. auto.
    + apply slot_set; auto; simpl; discriminate.
    + assert (Hni : ~ In f (sendq s)).
      { apply notin_sendq; auto. intros Hst. apply (so_reg _ _ OK) in Hst. destruct Hst as (_&_&_&_&Hv). congruence. }
      exists rest. split; auto. split.
      * intros Hc. rewrite remove_notin by auto. rewrite parked_upd_notin; auto.
      * apply held_keep; auto. intros x _ Hx. unfold gets in *. congruence.
  - (* DropSend *)
    pose proof (si_ok _ _ _ _ _ IS f) as OK. fold (gets s f) in OK.
    cbn [fifo_send fifo_fin].
    destruct (s_val (gets s f)) as [v|] eqn:Ev; cbn [pairs fold_left fifo_move]; neval;
      cbn [q_fifo q_acc q_slot q_good]; (split; [reflexivity|]); unfold FL; projs;
      constructor; cbn [q_slot q_fifo q_acc]; auto.
    + rewrite !upd_length. auto.
    + apply slot_set; auto; simpl; discriminate.
    + assert (Hvb : ~ In v (buf s)) by (apply (u_held s U f); auto).
      exists (removeN v rest). split; [|split].
      * rewrite Ffi, removeN_app, (removeN_notin v (buf s)); auto.
      * intros Hc. rewrite (Fopen Hc). apply parked_remove; auto.
        intros g Hne. apply (held_distinct s f g v); auto.
      * intros x Hx. apply In_removeN in Hx. destruct Hx as [Hx Hne].
        destruct (Fheld x Hx) as [g Hg]. exists g. rewrite nth_upd_other; auto.
        intro; subst. unfold gets in *. congruence.
    + apply NoDup_removeN; auto.
    + intros x Hx. apply In_removeN in Hx. apply Facc. tauto.
    + rewrite !upd_length. auto.
    + apply slot_set; auto; simpl; discriminate.
    + assert (Hni : ~ In f (sendq s)).
      { apply notin_sendq; auto. intros Hst. apply (so_reg _ _ OK) in Hst. destruct Hst as (_&_&_&_&Hv). congruence. }
      exists rest. split; auto. split.
      * intros Hc. rewrite remove_notin by auto. rewrite parked_upd_notin; auto.
      * apply held_keep; auto. intros x _ Hx. unfold gets in *. congruence.
  - (* CreateRecv *) cbn [fifo_send fifo_fin pairs fold_left]. split; [reflexivity|exact F].
  - (* PollRecv got *)
    cbn [fifo_send fifo_fin pairs fold_left fifo_move]. neval. cbv iota.
    destruct (fifo_rcv s s1 v q I U F H0) as [G1 G2]. split; [exact G1|exact G2].
  - cbn [fifo_send fifo_fin pairs fold_left]. split; [reflexivity|exact F].
  - cbn [fifo_send fifo_fin pairs fold_left]. split; [reflexivity|exact F].
  - cbn [fifo_send fifo_fin pairs fold_left]. split; [reflexivity|exact F].
  - (* DropRecv notified *)
    cbn [fifo_send fifo_fin pairs fold_left]. split; [reflexivity|]. apply fl_notify. exact F.
  - cbn [fifo_send fifo_fin pairs fold_left]. split; [reflexivity|exact F].
  - (* TrySend closed *)
    destruct (Fr v) as [Hvb Hvh]; [left; auto|].
    cbn [fifo_send fifo_fin hd]. neval. cbn [pairs fold_left fifo_move]. neval. cbn [q_good].
    split; [reflexivity|]. unfold FL. constructor; cbn [q_slot q_fifo q_acc]; auto.
    + exists (removeN v rest). split; [|split].
      * rewrite Ffi, removeN_app, (removeN_notin v (buf s)); auto.
      * congruence.
      * intros x Hx. apply In_removeN in Hx. apply Fheld. tauto.
    + apply NoDup_removeN; auto.
    + intros x Hx. apply In_removeN in Hx. apply Facc. tauto.
  - (* TrySend push *)
    destruct (Fr v) as [Hvb Hvh]; [left; auto|].
    assert (Hq : sendq s = []) by (apply push_sendq_nil; auto).
    assert (Hrest : rest = []) by (rewrite (Fopen H), Hq; reflexivity).
    cbn [fifo_send fifo_fin hd]. neval. cbn [pairs fold_left q_good].
    split; [reflexivity|]. apply fl_notify. unfold FL. projs. constructor; cbn [q_slot q_fifo q_acc]; auto.
    + exists []. split; [|split].
      * rewrite Ffi, Hrest, !app_nil_r. reflexivity.
      * intros _. rewrite Hq. reflexivity.
      * intros x [].
    + apply NoDup_app_intro_single; auto.
    + intros x Hx. apply in_app_or in Hx. apply in_or_app. destruct Hx as [Hx|Hx]; auto.
  - (* TrySend full *)
    destruct (Fr v) as [Hvb Hvh]; [left; auto|].
    assert (Hvr : ~ In v rest).
    { intros Hin. destruct (Fheld v Hin) as [g Hg]. apply (Hvh g). auto. }
    cbn [fifo_send fifo_fin hd]. neval. cbn [pairs fold_left fifo_move]. neval. cbn [q_good].
    split; [reflexivity|]. unfold FL. constructor; cbn [q_slot q_fifo q_acc]; auto.
    + exists rest. split; auto.
      rewrite Ffi, removeN_app, (removeN_notin v (buf s)), (removeN_notin v rest); auto.
    + apply NoDup_removeN; auto.
    + intros x Hx. apply In_removeN in Hx. apply Facc. tauto.
  - (* TryRecv got *)
    cbn [fifo_send fifo_fin pairs fold_left fifo_move]. neval. cbv iota.
    destruct (fifo_rcv s s1 v q I U F H) as [G1 G2]. split; [exact G1|exact G2].
  - cbn [fifo_send fifo_fin pairs fold_left]. split; [reflexivity|exact F].
  - (* Close *)
    cbn [fifo_send fifo_fin pairs fold_left]. split; [reflexivity|].
    apply fl_close; auto. apply (si_nd _ _ _ _ _ IS).
  - cbn [fifo_send fifo_fin pairs fold_left]. split; [reflexivity|exact F].
  - cbn [fifo_send fifo_fin pairs fold_left]. split; [reflexivity|exact F].
  - cbn [fifo_send fifo_fin pairs fold_left]. split; [reflexivity|].
    apply (fl_close (cnt_s s (senders s) (pred (pend_sclose s)))); auto. apply (si_nd _ _ _ _ _ IS).
  - cbn [fifo_send fifo_fin pairs fold_left]. split; [reflexivity|exact F].
  - cbn [fifo_send fifo_fin pairs fold_left]. split; [reflexivity|exact F].
  - cbn [fifo_send fifo_fin pairs fold_left]. split; [reflexivity|].
    apply (fl_close (cnt_r s (receivers s) (pred (pend_rclose s)) (S (pend_clear s)))); auto.
    apply (si_nd _ _ _ _ _ IS).
  - (* clear *)
    cbn [fifo_send fifo_fin]. rewrite pairs_vals_of, fifo_move_dropped. cbn [q_good].
    split; [reflexivity|]. unfold FL. projs. constructor; cbn [q_slot q_fifo q_acc]; auto.
    + exists (rmall (buf s) (q_fifo q)). split; auto. split.
      * apply Nat.ltb_lt in Hl. pose proof (h_pc _ _ _ _ _ _ _ _ _ IH Hl). congruence.
      * intros x Hx. apply In_rmall in Hx. destruct Hx as [Hx Hn]. rewrite Ffi in Hx.
        apply in_app_or in Hx. destruct Hx; [tauto|auto].
    + apply NoDup_rmall; auto.
    + intros x Hx. apply In_rmall in Hx. destruct Hx as [Hx Hn]. apply Facc in Hx. tauto.
  - (* teardown *)
    cbn [fifo_send fifo_fin]. rewrite pairs_vals_of, fifo_move_dropped. cbn [q_good].
    split; [reflexivity|].
    assert (Hin : forall x, In x (buf s ++ held (sfs s)) -> In x (sortN (buf s ++ held (sfs s)))).
    { intros x Hx. apply cnt_In. rewrite cnt_sortN. apply cnt_In. auto. }
    assert (E1 : rmall (sortN (buf s ++ held (sfs s))) (q_fifo q) = []).
    { apply rmall_incl_nil. intros x Hx. apply Hin. rewrite Ffi in Hx. apply in_app_or in Hx. apply in_or_app.
      destruct Hx as [Hx|Hx]; auto. right. destruct (Fheld x Hx) as [g Hg]. eapply held_in_flight; eauto. }
    assert (E2 : rmall (sortN (buf s ++ held (sfs s))) (q_acc q) = []).
    { apply rmall_incl_nil. intros x Hx. apply Hin. apply in_or_app. left. auto. }
    rewrite E1, E2. unfold FL. projs. constructor; cbn [q_slot q_fifo q_acc]; auto.
    + rewrite map_length. auto.
    + intros f. rewrite nth_map_sabsent. simpl. discriminate.
    + exists []. split; auto. split; auto. intros x [].
    + constructor.
    + intros x [].
Qed.

Lemma nodup_app_l (a b : list tag) : NoDup (a ++ b) -> NoDup a.
Proof.
  rewrite !nodup_cnt. intros H v. specialize (H v). rewrite cnt_app in H. lia.
Qed.

Lemma fresh_of s o r : Inv s -> NoDup (in_flight s ++ injected (o :: r)) -> Fresh s o.
Proof.
  intros I Hnd v Hin. rewrite nodup_cnt in Hnd. specialize (Hnd v).
  rewrite injected_cons, in_flight_eq, !cnt_app in Hnd. apply cnt_In in Hin. split.
  - intros Hb. apply cnt_In in Hb. lia.
  - intros g Hg. apply held_in_flight in Hg; auto. apply cnt_In in Hg. lia.
Qed.

Lemma fl_chk s c q : FL s q -> FL s (chk c q).
Proof. intros [A B C D E]. constructor; auto. Qed.

Lemma fifo_step_ok s q o r : Inv s -> legal s o = true -> FL s q ->
  NoDup (in_flight s ++ injected (o :: r)) -> NoDup (atags s ++ injected (o :: r)) ->
  q_good (fifo_step (cap s) q (o, snd (step s o))) = q_good q /\
  FL (fst (step s o)) (fifo_step (cap s) q (o, snd (step s o))).
Proof.
  intros I Hl F N1 N2. rewrite fifo_step_eq.
  pose proof (step_out s o I Hl) as O.
  assert (U : Uniq s) by (apply uniq_of; auto; eapply nodup_app_l; eauto).
  destruct (fifo_out s o _ _ _ q I Hl O F U (fresh_of s o r I N1)) as [G1 G2].
  split; [|apply fl_chk; auto].
  cbn [chk q_good]. rewrite G1.
  pose proof (inv_step s o I Hl) as [_ IS' _].
  assert (Hle : length (q_acc (fifo_pre q o (o_res (snd (step s o))) (o_val (snd (step s o))))) <= cap s).
  { rewrite <- (cap_out _ _ _ _ _ O).
    etransitivity; [|apply (si_len _ _ _ _ _ IS')].
    apply NoDup_incl_length; [apply (fl_accnd _ _ _ _ _ G2)|apply (fl_acc _ _ _ _ _ G2)]. }
  apply Nat.leb_le in Hle. rewrite Hle. apply andb_true_r.
Qed.

Lemma fifo_run c : forall ops s q,
  Inv s -> cap s = c -> FL s q ->
  NoDup (in_flight s ++ injected ops) -> NoDup (atags s ++ injected ops) -> legal_run s ops ->
  q_good (fold_left (fifo_step c) (trace s ops) q) = q_good q /\
  FL (run s ops) (fold_left (fifo_step c) (trace s ops) q).
Proof.
  induction ops as [|o r IH]; intros s q I Hc F N1 N2 Hr; cbn [trace fold_left run legal_run] in *; auto.
  destruct Hr as [Hl Hr]. subst c.
  destruct (fifo_step_ok s q o r I Hl F N1 N2) as [G1 G2].
  destruct (IH (fst (step s o)) (fifo_step (cap s) q (o, snd (step s o)))) as [K1 K2]; auto.
  - apply inv_step; auto.
  - eapply cap_out. apply step_out; auto.
  - apply nodup_step; auto.
  - apply atags_step; auto.
  - split; auto. congruence.
Qed.

Lemma repeat_length {A} (x : A) k : length (repeat x k) = k.
Proof. induction k; simpl; auto. Qed.

Lemma fl_init kr ks c : FL (init kr ks c) (mkFifo [] [] (repeat None ks) true).
Proof.
  unfold FL, init. cbn [closed buf sendq sfs]. constructor; cbn [q_slot q_fifo q_acc].
  - rewrite !repeat_length. auto.
  - intros f. rewrite nth_repeat_same. simpl. discriminate.
  - exists []. split; auto. split; auto. intros v [].
  - constructor.
  - intros v [].
Qed.

Lemma atags_init kr ks c : atags (init kr ks c) = [].
Proof. unfold atags, init. cbn [sfs]. induction ks; simpl; auto. Qed.

Theorem fifo_holds : forall kr ks c ops,
  legal_run (init kr ks c) ops -> unique_tags ops ->
  fifo_ok ks c (trace (init kr ks c) ops) = true.
Proof.
  intros kr ks c ops Hr Hu. unfold fifo_ok.
  destruct (fifo_run c ops (init kr ks c) (mkFifo [] [] (repeat None ks) true)) as [G _]; auto.
  - apply inv_init.
  - apply fl_init.
  - rewrite in_flight_init. exact Hu.
  - rewrite atags_init. exact Hu.
Qed.

Theorem refines_queue : forall kr ks c ops,
  legal_run (init kr ks c) ops -> unique_tags ops ->
  closed (run (init kr ks c) ops) = false ->
  fifo_of ks c (trace (init kr ks c) ops) = abs_queue (run (init kr ks c) ops).
Proof.
  intros kr ks c ops Hr Hu Hc. unfold fifo_of.
  destruct (fifo_run c ops (init kr ks c) (mkFifo [] [] (repeat None ks) true)) as [_ G]; auto.
  - apply inv_init.
  - apply fl_init.
  - rewrite in_flight_init. exact Hu.
  - rewrite atags_init. exact Hu.
  - destruct G as [_ _ [rest [E1 [E2 _]]] _ _]. rewrite E1, (E2 Hc). apply abs_queue_eq.
Qed.
