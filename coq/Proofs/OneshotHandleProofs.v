(* C11 (oneshot and oneshot-broadcast flavours) on the encoded trace: the handle-lifecycle
   monitor [handles_ok] (unless close() was called or a value was sent, the channel is
   fulfilled / closed exactly when the sender handle is gone or no receiver handle is left)
   holds for every contract-respecting run of whole calls of the repaired model (receiver
   handles counted). *)
From FI Require Import Base Oneshot OneshotSpec OneshotProofs.

Local Ltac inv H := inversion H; subst; clear H.

Local Ltac brk :=
  repeat match goal with
  | |- context [match ?c with _ => _ end] => destruct c eqn:?
  end.

(* ------------------------------------------------------------------ *)
(* the first probe of an observation *)
Definition done_of (ob : obs) : bool := negb (N.eqb (hd 0%N (o_probe ob)) 0).

Lemma done_mk' s r wk vals : done_of (mk_obs s r wk vals) = fulfilled s.
Proof. apply done_mk. Qed.

(* ------------------------------------------------------------------ *)
(* handle counters of a state, and how one section moves them *)
Definition hv := (bool * nat * nat * bool)%type.

Definition hsum (s : state) : hv := (has_sender s, receivers s, pend_rclose s, gone s).

Definition hnext (cnt : bool) (o : op) (h : hv) : hv :=
  let '(hs, rn, pr, g) := h in
  match o with
  | DropSender => (false, rn, pr, g)
  | CloneReceiver => (hs, S rn, pr, g)
  | DropReceiverDec => (hs, pred rn, (if negb cnt || Nat.eqb rn 1 then S pr else pr), g)
  | DropReceiverClose => (hs, rn, pred pr, g)
  | Teardown => (false, 0, 0, true)
  | _ => h
  end.

Lemma hv_inj (a : bool) (b c : nat) (d : bool) a' b' c' d' :
  (a, b, c, d) = (a', b', c', d') -> a = a' /\ b = b' /\ c = c' /\ d = d'.
Proof. intros H. inversion H. repeat split; reflexivity. Qed.

Lemma do_close_sum s e :
  hsum (fst (fst (do_close s e))) = hsum s /\
  sent (fst (fst (do_close s e))) = sent s /\
  (e = false -> explicit (fst (fst (do_close s e))) = explicit s) /\
  fulfilled (fst (fst (do_close s e))) = true.
Proof.
  unfold do_close. destruct (fulfilled s) eqn:Ef.
  - cbn [fst]. repeat split; auto.
  - destruct (wake_all (rfs s) (rev (waiters s)) []) as [fs' wk]. cbn [fst].
    split; [reflexivity|split; [reflexivity|split; [|reflexivity]]].
    intros ->. cbn [explicit]. apply orb_false_r.
Qed.

(* one atomic section: the handle counters, the ghost flags, and the probe *)
Lemma step_sum s o :
  hsum (fst (step s o)) = hnext (counted s) o (hsum s) /\
  (o <> Close -> explicit (fst (step s o)) = explicit s) /\
  ((forall v, o <> Send v) -> sent (fst (step s o)) = sent s) /\
  (o <> Teardown -> done_of (snd (step s o)) = fulfilled (fst (step s o))).
Proof.
  destruct o as [v| |f|f w|f| | | | |]; unfold step.
  - (* Send *)
    destruct (fulfilled s) eqn:Ef; [|destruct (wake_all (rfs s) (rev (waiters s)) []) as [fs' wk]];
      cbn [fst snd];
      (split; [reflexivity|split; [intros _; reflexivity|split; [|intros _; apply done_mk']]]);
      intros H; exfalso; apply (H v); reflexivity.
  - (* Close *)
    destruct (do_close_sum s true) as (A & B & _ & _).
    destruct (do_close s true) as [[s' n] wk]. cbn [fst snd] in *.
    split; [exact A|split; [intros H; congruence|split; [intros _; exact B|intros _; apply done_mk']]].
  - (* CreateRecv *)
    cbn [fst snd].
    split; [reflexivity|split; [intros _; reflexivity|split; [intros _; reflexivity|intros _; apply done_mk']]].
  - (* PollRecv *)
    brk; cbn [fst snd];
    (split; [reflexivity|split; [intros _; reflexivity|split; [intros _; reflexivity|intros _; apply done_mk']]]).
  - (* DropRecv *)
    brk; cbn [fst snd];
    (split; [reflexivity|split; [intros _; reflexivity|split; [intros _; reflexivity|intros _; apply done_mk']]]).
  - (* DropSender *)
    destruct (do_close_sum (with_sr s false (receivers s) (pend_rclose s)) false) as (A & B & C & _).
    specialize (C eq_refl).
    destruct (do_close (with_sr s false (receivers s) (pend_rclose s)) false) as [[s' n] wk]. cbn [fst snd] in *.
    split; [exact A|split; [intros _; exact C|split; [intros _; exact B|intros _; apply done_mk']]].
  - (* CloneReceiver *)
    cbn [fst snd].
    split; [reflexivity|split; [intros _; reflexivity|split; [intros _; reflexivity|intros _; apply done_mk']]].
  - (* DropReceiverDec *)
    cbn [fst snd].
    split; [reflexivity|split; [intros _; reflexivity|split; [intros _; reflexivity|intros _; apply done_mk']]].
  - (* DropReceiverClose *)
    destruct (do_close_sum (with_sr s (has_sender s) (receivers s) (pred (pend_rclose s))) false) as (A & B & C & _).
    specialize (C eq_refl).
    destruct (do_close (with_sr s (has_sender s) (receivers s) (pred (pend_rclose s))) false) as [[s' n] wk].
    cbn [fst snd] in *.
    split; [exact A|split; [intros _; exact C|split; [intros _; exact B|intros _; apply done_mk']]].
  - (* Teardown *)
    cbn [fst snd].
    split; [reflexivity|split; [intros _; reflexivity|split; [intros _; reflexivity|intros H; congruence]]].
Qed.

(* a send reports R_OK exactly when the model records it as sent *)
Lemma send_sent s v :
  sent (fst (step s (Send v))) = (sent s || res_is R_OK (snd (step s (Send v))))%bool.
Proof.
  unfold step. destruct (fulfilled s) eqn:Ef.
  - cbn [fst snd]. change (res_is R_OK (mk_obs s [R_ERR; v] [] [V_BACK; v])) with false.
    rewrite orb_false_r. reflexivity.
  - destruct (wake_all (rfs s) (rev (waiters s)) []) as [fs' wk]. cbn [fst snd sent].
    change (res_is R_OK (mk_obs _ [R_OK] wk [])) with true. rewrite orb_true_r. reflexivity.
Qed.

Lemma legal_not_gone s o : legal s o = true -> gone s = false.
Proof. unfold legal. intros H. apply andb_true_iff in H. destruct H as [H _]. apply negb_true_iff in H. exact H. Qed.

Lemma step_c_legal s o : legal s o = true -> step_c s o = step s o.
Proof.
  intros H. unfold step_c.
  assert (C : callable s o = true).
  { pose proof (legal_not_gone s o H) as Hg. unfold callable. rewrite Hg. cbn [negb andb].
    destruct o; try exact H.
    unfold legal in H. rewrite Hg in H. cbn [negb andb] in H.
    apply andb_true_iff in H. destruct H as [H _]. exact H. }
  rewrite C. reflexivity.
Qed.

(* ------------------------------------------------------------------ *)
(* the monitor step in normal form, by the kind of the encoded operation *)
Inductive hk := HSend | HClose | HDropS | HCloneR | HDropR | HTeardown | HOther.

Definition hkind (l : list N) : hk :=
  match l with
  | [0%N; _] => HSend
  | [1%N] => HClose
  | [5%N] => HDropS
  | [6%N] => HCloneR
  | [9%N] => HDropR
  | [20%N] => HTeardown
  | _ => HOther
  end.

Definition ohkind (o : op) : hk :=
  match o with
  | Send _ => HSend
  | Close => HClose
  | DropSender => HDropS
  | CloneReceiver => HCloneR
  | Teardown => HTeardown
  | _ => HOther
  end.

Definition hpre (m : hmon) (k : hk) (ob : obs) : hmon :=
  match k with
  | HSend => mkHmon (h_sender m) (h_receivers m) (h_explicit m) (h_sent m || res_is R_OK ob) (h_good m)
  | HClose => mkHmon (h_sender m) (h_receivers m) true (h_sent m) (h_good m)
  | HDropS => mkHmon false (h_receivers m) (h_explicit m) (h_sent m) (h_good m)
  | HCloneR => mkHmon (h_sender m) (S (h_receivers m)) (h_explicit m) (h_sent m) (h_good m)
  | HDropR => mkHmon (h_sender m) (pred (h_receivers m)) (h_explicit m) (h_sent m) (h_good m)
  | _ => m
  end.

Definition hchk (m1 : hmon) (d : bool) : bool :=
  h_explicit m1 || h_sent m1 || Bool.eqb d (negb (h_sender m1) || Nat.eqb (h_receivers m1) 0).

Definition hmon_k (m : hmon) (k : hk) (ob : obs) : hmon :=
  let m1 := hpre m k ob in
  match k with
  | HTeardown => m1
  | _ => mkHmon (h_sender m1) (h_receivers m1) (h_explicit m1) (h_sent m1)
                (h_good m1 && hchk m1 (done_of ob))
  end.

(* case analysis of an encoded operation: list shape, and the code up to 6 bits *)
Local Ltac dpos a := destruct a as [|a]; [| do 6 (try destruct a as [a|a|]) ].
Local Ltac dlist l :=
  let a := fresh "a" in let b := fresh "b" in let c := fresh "c" in let d := fresh "d" in
  let r := fresh "r" in
  destruct l as [|a [|b [|c [|d r]]]]; try dpos a.

Lemma hmon_step_kind m l ob : hmon_step m (l, ob) = hmon_k m (hkind l) ob.
Proof. dlist l; reflexivity. Qed.

(* the split sections 7 / 8 of a receiver drop *)
Definition whole (o : op) : bool :=
  match o with DropReceiverDec | DropReceiverClose => false | _ => true end.

Lemma decode_facts s l o : decode l = Some o ->
  mstep s l = step_c s o /\ mlegal s l = (whole o && legal s o)%bool /\ hkind l = ohkind o.
Proof.
  unfold decode. intros H.
  repeat match type of H with
  | match ?x with _ => _ end = Some _ => destruct x; try discriminate H
  end.
  all: inv H; repeat split; reflexivity.
Qed.

Lemma decode_none s l : decode l = None -> mlegal s l = true -> l = [9%N].
Proof.
  intros E H. dlist l; try reflexivity; exfalso;
    cbv [decode] in E; try discriminate E; cbv [mlegal decode] in H; discriminate H.
Qed.

Lemma gone_not_mlegal s l : gone s = true -> mlegal s l = false.
Proof.
  intros Hg. destruct (mlegal s l) eqn:Hm; [exfalso|reflexivity].
  destruct (decode l) as [o|] eqn:E.
  - destruct (decode_facts s l o E) as (_ & L & _). rewrite L in Hm.
    apply andb_true_iff in Hm. destruct Hm as [_ Hl].
    pose proof (legal_not_gone s o Hl). congruence.
  - pose proof (decode_none s l E Hm) as ->. cbn [mlegal] in Hm. rewrite Hg in Hm. discriminate Hm.
Qed.

(* ------------------------------------------------------------------ *)
(* the monitor state against the model state, between whole calls *)
Record HI (m : hmon) (s : state) : Prop := {
  hi_s : h_sender m = has_sender s;
  hi_r : h_receivers m = receivers s;
  hi_e : h_explicit m = false -> explicit s = false;
  hi_t : h_sent m = false -> sent s = false;
  hi_pr : pend_rclose s = 0;
  hi_g : gone s = false
}.

Lemma hi_init k b : HI (mkHmon true 1 false false true) (init k b true).
Proof. constructor; reflexivity. Qed.

(* the condition checked after a call *)
Lemma check_ok k b s m : Reach k b true s -> HI m s -> hchk m (fulfilled s) = true.
Proof.
  intros R [Hs Hr He Ht Hpr Hg]. unfold hchk.
  destruct (h_explicit m) eqn:Ee; [reflexivity|].
  destruct (h_sent m) eqn:Et; [reflexivity|]. cbn [orb].
  destruct (implicit_close k b s R (He eq_refl) (Ht eq_refl) Hg) as (I1 & I2 & I3).
  rewrite Hs, Hr.
  destruct (fulfilled s) eqn:Ef.
  - destruct (I1 eq_refl) as [E|E]; rewrite E; cbn [negb Nat.eqb orb]; [reflexivity|].
    rewrite orb_true_r. reflexivity.
  - destruct (has_sender s) eqn:E1.
    + cbn [negb orb]. destruct (Nat.eqb (receivers s) 0) eqn:E2; [|reflexivity].
      apply Nat.eqb_eq in E2. pose proof (I3 E2 Hpr) as Hf. congruence.
    + pose proof (I2 eq_refl) as Hf. congruence.
Qed.

Lemma hstep_fin k b m kd ob s' : kd <> HTeardown -> Reach k b true s' -> HI (hpre m kd ob) s' ->
  done_of ob = fulfilled s' ->
  h_good (hmon_k m kd ob) = h_good m /\ HI (hmon_k m kd ob) s'.
Proof.
  intros Hk R H P. pose proof (check_ok k b s' _ R H) as A.
  assert (G : h_good (hpre m kd ob) = h_good m) by (destruct kd; reflexivity).
  assert (E : hmon_k m kd ob =
              mkHmon (h_sender (hpre m kd ob)) (h_receivers (hpre m kd ob)) (h_explicit (hpre m kd ob))
                     (h_sent (hpre m kd ob))
                     (h_good (hpre m kd ob) && hchk (hpre m kd ob) (done_of ob)))
    by (destruct kd; try reflexivity; congruence).
  rewrite E, P, A, G. cbn [h_good]. split; [apply andb_true_r|].
  destruct H as [Hs Hr He Ht Hpr Hg].
  constructor; cbn [h_sender h_receivers h_explicit h_sent]; assumption.
Qed.

(* ------------------------------------------------------------------ *)
(* the whole-call drop of a receiver handle *)
Lemma drop_receiver_h k b s : Reach k b true s -> legal s DropReceiverDec = true ->
  pend_rclose s = 0 ->
  Reach k b true (fst (drop_receiver s)) /\
  hsum (fst (drop_receiver s)) = (has_sender s, pred (receivers s), 0, gone s) /\
  explicit (fst (drop_receiver s)) = explicit s /\
  sent (fst (drop_receiver s)) = sent s /\
  done_of (snd (drop_receiver s)) = fulfilled (fst (drop_receiver s)).
Proof.
  intros R Hl Hpr.
  destruct (reach_flags _ _ _ _ R) as [_ Hc].
  pose proof (reach_step _ _ _ _ _ R Hl) as R1.
  destruct (step_sum s DropReceiverDec) as (S1 & X1 & T1 & P1).
  assert (N1 : DropReceiverDec <> Teardown) by discriminate.
  assert (C1 : DropReceiverDec <> Close) by discriminate.
  assert (D1 : forall v, DropReceiverDec <> Send v) by discriminate.
  specialize (X1 C1). specialize (T1 D1). specialize (P1 N1).
  pose proof (legal_not_gone _ _ Hl) as Hg.
  unfold drop_receiver. rewrite (step_c_legal _ _ Hl).
  destruct (step s DropReceiverDec) as [s1 o1] eqn:E1. cbn [fst snd] in *.
  unfold hsum in S1 at 2. cbn [hnext] in S1. rewrite Hpr, Hc in S1. cbn [negb orb] in S1.
  assert (S1' := S1). unfold hsum in S1'. apply hv_inj in S1'. destruct S1' as (_ & _ & Epr & Eg).
  destruct (Nat.ltb 0 (pend_rclose s1)) eqn:Ep.
  - assert (Hl2 : legal s1 DropReceiverClose = true) by (unfold legal; rewrite Eg, Hg, Ep; reflexivity).
    pose proof (reach_step _ _ _ _ _ R1 Hl2) as R2.
    destruct (step_sum s1 DropReceiverClose) as (S2 & X2 & T2 & P2).
    assert (N2 : DropReceiverClose <> Teardown) by discriminate.
    assert (C2 : DropReceiverClose <> Close) by discriminate.
    assert (D2 : forall v, DropReceiverClose <> Send v) by discriminate.
    specialize (X2 C2). specialize (T2 D2). specialize (P2 N2).
    rewrite (step_c_legal _ _ Hl2).
    destruct (step s1 DropReceiverClose) as [s2 o2] eqn:E2. cbn [fst snd] in *.
    split; [exact R2|]. split; [|split; [congruence|split; [congruence|exact P2]]].
    rewrite S2, S1. cbn [hnext].
    destruct (Nat.eqb (receivers s) 1); reflexivity.
  - cbn [fst snd].
    split; [exact R1|]. split; [|split; [exact X1|split; [exact T1|exact P1]]].
    rewrite S1. apply Nat.ltb_ge in Ep. rewrite Epr in Ep.
    destruct (Nat.eqb (receivers s) 1); [lia|reflexivity].
Qed.

(* ------------------------------------------------------------------ *)
(* one whole call *)
Lemma mstep_h k b s m l : Reach k b true s -> HI m s -> mlegal s l = true ->
  h_good (hmon_step m (l, snd (mstep s l))) = h_good m /\
  (gone (fst (mstep s l)) = true \/
   (Reach k b true (fst (mstep s l)) /\ HI (hmon_step m (l, snd (mstep s l))) (fst (mstep s l)))).
Proof.
  intros R M Hml.
  destruct (reach_flags _ _ _ _ R) as [_ Hc].
  pose proof M as [Ms Mr Me Mt Mpr Mg].
  rewrite hmon_step_kind.
  destruct (decode l) as [o|] eqn:E.
  - destruct (decode_facts s l o E) as (St & L & K).
    rewrite K. rewrite L in Hml. apply andb_true_iff in Hml. destruct Hml as [Hp Hl].
    rewrite St, (step_c_legal _ _ Hl).
    assert (Hdec : o = Teardown \/ o <> Teardown) by (destruct o; auto; right; discriminate).
    destruct Hdec as [->|Hnt].
    + split; [reflexivity|left; reflexivity].
    + pose proof (reach_step _ _ _ _ _ R Hl) as R'.
      destruct (step_sum s o) as (S1 & X1 & T1 & P1). specialize (P1 Hnt).
      assert (Hk : ohkind o <> HTeardown) by (destruct o; try discriminate; congruence).
      destruct (hstep_fin k b m (ohkind o) (snd (step s o)) _ Hk R') as [G H']; [|exact P1|].
      * unfold hsum in S1. rewrite Mpr, Mg, Hc in S1.
        destruct o as [v| |f|f w|f| | | | |]; try discriminate Hp; try congruence; cbn [hnext] in S1;
          apply hv_inj in S1; destruct S1 as (E1 & E2 & E3 & E4);
          (constructor; cbn [hpre ohkind h_sender h_receivers h_explicit h_sent]; try congruence);
          try (intros He; rewrite X1 by discriminate; auto);
          try (intros Hs; rewrite T1 by discriminate; auto).
        (* Send: the monitor learns of the send from the result *)
        intros Hs. rewrite send_sent. apply orb_false_iff in Hs. destruct Hs as [Hs1 Hs2].
        rewrite Hs2, (Mt Hs1). reflexivity.
      * split; [exact G|right; split; [exact R'|exact H']].
  - pose proof (decode_none s l E Hml) as ->.
    assert (Hl : legal s DropReceiverDec = true).
    { unfold legal. exact Hml. }
    change (mstep s [9%N]) with (if negb (gone s) && Nat.ltb 0 (receivers s) then drop_receiver s else (s, bad_obs)).
    change (mlegal s [9%N]) with (negb (gone s) && Nat.ltb 0 (receivers s))%bool in Hml.
    rewrite Hml. cbn [hkind].
    destruct (drop_receiver_h k b s R Hl Mpr) as (R' & S1 & X1 & T1 & P1).
    assert (Hk : HDropR <> HTeardown) by discriminate.
    destruct (hstep_fin k b m HDropR (snd (drop_receiver s)) _ Hk R') as [G H']; [|exact P1|].
    + unfold hsum in S1. apply hv_inj in S1. destruct S1 as (E1 & E2 & E3 & E4).
      constructor; cbn [hpre h_sender h_receivers h_explicit h_sent]; try congruence.
      * intros He. rewrite X1. auto.
      * intros Hs. rewrite T1. auto.
    + split; [exact G|right; split; [exact R'|exact H']].
Qed.

(* ------------------------------------------------------------------ *)
(* runs *)
Lemma handles_run k b : forall ls s m,
  Reach k b true s -> HI m s -> h_good m = true -> mlegal_run s ls = true ->
  h_good (fold_left hmon_step (mtrace s ls) m) = true.
Proof.
  induction ls as [|l r IH]; intros s m R M Hok Hr; [exact Hok|].
  cbn [mlegal_run] in Hr. apply andb_true_iff in Hr. destruct Hr as [Hl Hr].
  destruct (mstep_h k b s m l R M Hl) as [K [Hg|(R' & M')]].
  - (* torn down: the run ends here *)
    destruct r as [|l' r'].
    + cbn [mtrace]. destruct (mstep s l) as [s' ob]. cbn [fst snd fold_left mtrace] in *. congruence.
    + cbn [mlegal_run] in Hr. rewrite (gone_not_mlegal _ l' Hg) in Hr. discriminate Hr.
  - cbn [mtrace]. destruct (mstep s l) as [s' ob] eqn:E. cbn [fst snd fold_left] in *.
    apply (IH s'); auto. congruence.
Qed.

Theorem handles_trace_holds : forall k b ls,
  mlegal_run (init k b true) ls = true ->
  handles_ok (mtrace (init k b true) ls) = true.
Proof.
  intros k b ls Hr. unfold handles_ok.
  apply (handles_run k b ls (init k b true)); auto.
  - apply reach_init.
  - apply hi_init.
Qed.
