(* The boolean trace monitors of Model/MutexSpec.v (mon02/mon03/mon04) hold on every
   contract-respecting history of the model (C02_monitor, C03_monitor, C04_monitor). *)
From FI Require Import Base Mutex MutexSpec MutexProofs.

Local Ltac bool_hyps :=
  repeat match goal with
  | H : (_ && _)%bool = true |- _ => apply andb_true_iff in H; destruct H
  | H : negb _ = true |- _ => apply negb_true_iff in H
  | H : negb _ = false |- _ => apply negb_false_iff in H
  | H : Nat.ltb _ _ = true |- _ => apply Nat.ltb_lt in H
  | H : Nat.eqb _ _ = true |- _ => apply Nat.eqb_eq in H
  end.

(* ------------------------------------------------------------------ *)
(* a monitor whose step preserves a relation with the model state, and whose verdict
   stays good under that relation, is good on every legal history *)
Lemma mon_fold (mstep : mmon -> op * obs -> mmon) (R : state -> mmon -> Prop) k b :
  (forall s o m, Reach k b s -> legal s o = true -> R s m ->
     R (fst (step s o)) (mstep m (o, snd (step s o))) /\
     (mm_good m = true -> mm_good (mstep m (o, snd (step s o))) = true)) ->
  forall ops s m, Reach k b s -> R s m -> legal_run s ops -> mm_good m = true ->
    mm_good (fold_left mstep (trace s ops) m) = true.
Proof.
  intros Hstep. induction ops as [|o r IH]; simpl; intros s m Hr HR Hl Hg; auto.
  destruct Hl as [Hl1 Hl2].
  destruct (Hstep s o m Hr Hl1 HR) as [HR' Hg'].
  apply (IH (fst (step s o))); auto.
  apply reach_step; auto.
Qed.

(* ------------------------------------------------------------------ *)
(* the probes of an observation are read off the post-state *)
Lemma step_probe s o :
  o_probe (snd (step s o)) = [bN (locked (fst (step s o))); nN (guards (fst (step s o)))].
Proof.
  destruct o as [f|f w|f| | |]; simpl; auto.
  - destruct (f_hp (get s f)); simpl; auto.
    destruct (f_st (get s f)); simpl; auto.
    + destruct (can_lock_sync s); simpl; auto. destruct (memb f (waiters s)); simpl; auto.
    + destruct (negb (fair s) && negb (locked s))%bool; simpl; auto. destruct (memb f (waiters s)); simpl; auto.
    + destruct (negb (locked s)); simpl.
      * destruct (fair s && negb (memb f (waiters s)))%bool; simpl; auto.
      * destruct (fair s) eqn:Ef; simpl; auto. destruct (memb f (waiters s)); simpl; auto.
  - destruct (f_hp (get s f)); simpl; auto.
    destruct (f_st (get s f)); simpl; auto.
    + destruct (memb f (waiters s)); simpl; auto.
    + destruct (fair s && negb (memb f (waiters s)))%bool; simpl; auto.
      destruct (return_last_waiter _ _ _) as [[ws' fs'] wk]. reflexivity.
  - destruct (can_lock_sync s); simpl; auto.
  - destruct (locked s); simpl; auto.
    destruct (return_last_waiter _ _ _) as [[ws' fs'] wk]. reflexivity.
Qed.

Lemma probe_locked_step s o : probe_locked (snd (step s o)) = locked (fst (step s o)).
Proof.
  unfold probe_locked. rewrite step_probe. cbn [nth].
  destruct (locked (fst (step s o))); reflexivity.
Qed.

Lemma probe_guards_step s o : probe_guards (snd (step s o)) = nN (guards (fst (step s o))).
Proof. unfold probe_guards. rewrite step_probe. reflexivity. Qed.

(* ------------------------------------------------------------------ *)
(* C02 monitor: the monitor's guard counter is the model's *)
Lemma mon02_step_ok s o m :
  Inv s -> legal s o = true -> mm_guards m = nN (guards s) ->
  mm_guards (mon02_step m (o, snd (step s o))) = nN (guards (fst (step s o))) /\
  (mm_good m = true -> mm_good (mon02_step m (o, snd (step s o))) = true).
Proof.
  intros I Hl Hm. pose proof I as [B P]. pose proof (b_guards s B) as Hg.
  destruct m as [mwk marr mg good]. cbn [mm_guards mm_good] in *. subst mg.
  assert (Hgood : forall okb : bool, okb = true -> good = true -> (good && okb)%bool = true).
  { intros okb -> ->. reflexivity. }
  destruct o as [f|f w|f| | |]; simpl in Hl; bool_hyps.
  - (* Create *)
    cbn [step fst snd]. unfold mon02_step. cbn [mm_guards mm_good guards].
    split; [reflexivity|]. apply Hgood. rewrite Hg. destruct (locked s); reflexivity.
  - (* Poll *)
    destruct (step_poll s f w I H H0) as [(Hs & El & Hside)|(Hs & S1 & S2 & S3)]; rewrite Hs;
      cbn [fst snd]; unfold mon02_step; cbn [mm_guards mm_good].
    + rewrite El in Hg. unfold lock_state. rewrite Hg. split; [reflexivity|].
      apply Hgood. reflexivity.
    + unfold pend_state. split; [reflexivity|]. apply Hgood.
      rewrite Hg. destruct (locked s); reflexivity.
  - (* DropFut *)
    destruct (step_drop s f I Hl) as [(Hnn & Hs)|(Hn & s' & wk & Hno & Hs)]; rewrite Hs;
      cbn [fst snd]; unfold mon02_step; cbn [mm_guards mm_good].
    + unfold drop_state. split; [reflexivity|]. apply Hgood.
      rewrite Hg. destruct (locked s); reflexivity.
    + destruct Hno as [(_ & -> & _)|(g & w & _ & _ & _ & -> & _)];
        (split; [reflexivity|]; apply Hgood; cbn [fair locked guards drop_state];
         rewrite Hg; destruct (locked s); reflexivity).
  - (* TryLock *)
    unfold step. destruct (can_lock_sync s) eqn:Ec; cbn [fst snd]; unfold mon02_step;
      cbn [mm_guards mm_good].
    + apply can_lock_fair in Ec. destruct Ec as [El _]. rewrite El in Hg. rewrite Hg.
      split; [reflexivity|]. apply Hgood. reflexivity.
    + split; [reflexivity|]. apply Hgood.
      unfold probe_locked, probe_guards, mk_obs. cbn [o_probe nth].
      rewrite Hg. destruct (locked s); reflexivity.
  - (* DropGuard *)
    destruct (step_dropguard s I Hl) as (El & s' & wk & Hno & Hs). rewrite Hs.
    cbn [fst snd]. unfold mon02_step. cbn [mm_guards mm_good].
    rewrite El in Hg. rewrite Hg.
    destruct Hno as [(_ & -> & _)|(g & w & _ & _ & _ & -> & _)];
      (split; [reflexivity|]; apply Hgood; reflexivity).
  - (* IsLocked *)
    cbn [step fst snd]. unfold mon02_step. cbn [mm_guards mm_good].
    split; [reflexivity|]. apply Hgood.
    unfold probe_locked, probe_guards, res_is, mk_obs. cbn [o_probe o_res nth hd].
    rewrite Hg. destruct (locked s); reflexivity.
Qed.

Lemma mon02_holds : forall k b ops,
  legal_run (init k b) ops ->
  mm_good (fold_left mon02_step (trace (init k b) ops) mmon0) = true.
Proof.
  intros k b ops Hl.
  apply (mon_fold mon02_step (fun s m => mm_guards m = nN (guards s)) k b); auto.
  - intros s o m Hr Hlo HR. apply mon02_step_ok; auto. apply (reach_inv k b); auto.
  - apply reach_init.
Qed.

(* ------------------------------------------------------------------ *)
(* the arrival tracker lists exactly the pending futures, in either fairness mode *)
Definition arr_ok (s : state) (l : list fid) : Prop :=
  forall f, In f l <-> pending (get s f) = true.

Lemma arr_ok_set s l l' f x' (lk : bool) ws gd :
  arr_ok s l -> f < length (futs s) ->
  (forall g, g <> f -> (In g l' <-> In g l)) ->
  (In f l' <-> pending x' = true) ->
  arr_ok (mkState (fair s) lk ws (upd f x' (futs s)) gd) l'.
Proof.
  intros A Hlt Hoth Hf g. rewrite get_mk.
  destruct (nth_upd_cases (futs s) f g x' Hlt) as [[-> E]|[Hne E]]; rewrite E.
  - exact Hf.
  - rewrite (Hoth g Hne). apply A.
Qed.

Lemma arr_ok_notify m l lk gd s' wk :
  arr_ok m l -> notify_out m lk gd s' wk -> arr_ok s' l.
Proof.
  intros A [(Hw & -> & _)|(g & w & Hol & Hlt & Hg & -> & _)].
  - exact A.
  - apply (arr_ok_set m l); auto.
    + tauto.
    + rewrite (A g). rewrite Hg. split; intros _; reflexivity.
Qed.

Lemma arr_ok_drop s l f :
  arr_ok s l -> f < length (futs s) -> arr_ok (drop_state s f) (remove f l).
Proof.
  intros A Hlt. unfold drop_state. apply (arr_ok_set s l); auto.
  - intros g Hne. rewrite In_remove. tauto.
  - rewrite In_remove. split; [intros [_ D]; congruence|intros D; discriminate D].
Qed.

Lemma arr_ok_step s o l :
  Inv s -> legal s o = true -> arr_ok s l ->
  arr_ok (fst (step s o)) (arr_step l (o, snd (step s o))).
Proof.
  intros I Hl A. destruct o as [f|f w|f| | |]; simpl in Hl; bool_hyps.
  - (* Create *)
    cbn [step fst snd arr_step]. apply (arr_ok_set s l); auto.
    + tauto.
    + split; [|intros D; discriminate D].
      intros Hin. apply A in Hin. unfold pending in Hin. rewrite H0 in Hin. discriminate Hin.
  - (* Poll *)
    pose proof (alive_lt s f H) as Hlt.
    destruct (step_poll s f w I H H0) as [(Hs & _)|(Hs & _)]; rewrite Hs; cbn [fst snd].
    + change (arr_step l (Poll f w, mk_obs (lock_state s f w) [R_READY] [])) with (remove f l).
      unfold lock_state. apply (arr_ok_set s l); auto.
      * intros g Hne. rewrite In_remove. tauto.
      * rewrite In_remove. split; [intros [_ D]; congruence|intros D; discriminate D].
    + change (arr_step l (Poll f w, mk_obs (pend_state s f w) [R_PENDING] []))
        with (if memb f l then l else f :: l).
      unfold pend_state. apply (arr_ok_set s l); auto.
      * intros g Hne. destruct (memb f l); [tauto|]. simpl.
        split; [intros [D|D]; [congruence|auto]|auto].
      * split; [intros _; reflexivity|]. intros _.
        destruct (memb f l) eqn:Em; [apply memb_In; auto|left; auto].
  - (* DropFut *)
    pose proof (alive_lt s f Hl) as Hlt.
    destruct (step_drop s f I Hl) as [(Hnn & Hs)|(Hn & s' & wk & Hno & Hs)]; rewrite Hs;
      cbn [fst snd arr_step].
    + apply arr_ok_drop; auto.
    + apply (arr_ok_notify (drop_state s f) _ (locked s) (guards s) s' wk); auto.
      apply arr_ok_drop; auto.
  - (* TryLock *)
    unfold step. destruct (can_lock_sync s); exact A.
  - (* DropGuard *)
    destruct (step_dropguard s I Hl) as (El & s' & wk & Hno & Hs). rewrite Hs.
    cbn [fst snd arr_step]. apply (arr_ok_notify s _ false 0 s' wk); auto.
  - (* IsLocked *)
    exact A.
Qed.

(* ------------------------------------------------------------------ *)
(* C03, at the level of a state: free and somebody pending => a pending future (fair: the
   oldest queued one) has been notified, hence carries the ghost wake-up flag *)
Lemma free_pending_woken s :
  Inv s -> locked s = false -> (exists f, pending (get s f) = true) ->
  exists g, pending (get s g) = true /\ f_woken (get s g) = true /\
            (fair s = true -> olast (waiters s) = Some g).
Proof.
  intros [B P] El [f Hp].
  assert (Hnot : forall g, f_alive (get s g) = true -> f_st (get s g) = Notified ->
                 pending (get s g) = true /\ f_woken (get s g) = true).
  { intros g Hga Hgn. destruct (b_fut s B g Hga) as [_ _ Fno _].
    destruct (Fno Hgn) as (Hhp & _ & Hwo & _). split; auto.
    unfold pending. rewrite Hga, Hhp, Hgn. reflexivity. }
  unfold pending in Hp. bool_hyps.
  destruct (fair s) eqn:Ef.
  - assert (Hin : In f (waiters s)).
    { apply (b_exact s B). rewrite Ef. repeat split; auto.
      destruct (f_st (get s f)); try discriminate; auto. }
    assert (Hw : waiters s <> []) by (intro E; rewrite E in Hin; destruct Hin).
    destruct (olast_nonempty _ Hw) as [g Hg].
    pose proof (p_fair2 s P Ef El g Hg) as Hgn.
    pose proof (olast_In _ _ Hg) as Hgin. apply (b_exact s B) in Hgin. destruct Hgin as (Hga & _).
    destruct (Hnot g Hga Hgn) as [Q1 Q2].
    exists g. repeat split; auto.
  - destruct (f_st (get s f)) eqn:Est; try discriminate.
    + assert (Hin : In f (waiters s)).
      { apply (b_exact s B). repeat split; auto. }
      assert (Hw : waiters s <> []) by (intro E; rewrite E in Hin; destruct Hin).
      destruct (p_unfair s P Ef El Hw) as (g & Hga & Hgn).
      destruct (Hnot g Hga Hgn) as [Q1 Q2].
      exists g. repeat split; auto. discriminate.
    + destruct (Hnot f H Est) as [Q1 Q2].
      exists f. repeat split; auto. discriminate.
Qed.

(* what the C03 monitor state knows about the model state *)
Definition rel03 (s : state) (m : mmon) : Prop :=
  wtracked s (mm_wk m) /\ arr_ok s (mm_arr m) /\ (fair s = true -> mm_arr m = waiters s).

Lemma mon03_step_ok b s o m :
  Inv s -> fair s = b -> legal s o = true -> rel03 s m ->
  rel03 (fst (step s o)) (mon03_step b m (o, snd (step s o))) /\
  (mm_good m = true -> mm_good (mon03_step b m (o, snd (step s o))) = true).
Proof.
  intros I Ef Hl (T & A & Q).
  pose proof (inv_step s o I Hl) as I'.
  pose proof (fair_step s o) as Ef'.
  pose proof (wt_step s (mm_wk m) o I Hl T) as T'.
  pose proof (arr_ok_step s o (mm_arr m) I Hl A) as A'.
  assert (Q' : fair (fst (step s o)) = true ->
               arr_step (mm_arr m) (o, snd (step s o)) = waiters (fst (step s o))).
  { rewrite Ef'. intros Eft. rewrite (Q Eft). symmetry. apply arr_step_ok; auto. }
  unfold mon03_step. cbn [mm_wk mm_arr mm_good snd].
  split; [split; [exact T'|split; [exact A'|exact Q']]|].
  intros Hg. rewrite Hg. cbn [andb].
  rewrite probe_locked_step.
  destruct (locked (fst (step s o))) eqn:El'; [reflexivity|]. cbn [orb].
  destruct (olast (arr_step (mm_arr m) (o, snd (step s o)))) as [oldest|] eqn:Eo; [|reflexivity].
  assert (Hex : exists f, pending (get (fst (step s o)) f) = true).
  { exists oldest. apply A'. apply olast_In; auto. }
  destruct (free_pending_woken _ I' El' Hex) as (g & Hp & Hwo & Hol).
  assert (Hwk : wk_woken (wk_step (mm_wk m) (o, snd (step s o)) g) = true).
  { apply T'. auto. }
  destruct b.
  - assert (Eft : fair (fst (step s o)) = true) by congruence.
    rewrite (Q' Eft) in Eo. rewrite (Hol Eft) in Eo.
    assert (oldest = g) by congruence. subst oldest. exact Hwk.
  - apply existsb_exists. exists g. split; auto. apply A'. auto.
Qed.

Lemma mon03_holds : forall k b ops,
  legal_run (init k b) ops ->
  mm_good (fold_left (mon03_step b) (trace (init k b) ops) mmon0) = true.
Proof.
  intros k b ops Hl.
  apply (mon_fold (mon03_step b) rel03 k b); auto.
  - intros s o m Hr Hlo HR. apply mon03_step_ok; auto.
    + apply (reach_inv k b); auto.
    + apply (reach_fair k b); auto.
  - apply reach_init.
  - repeat split.
    + unfold get; simpl. rewrite nth_repeat_absent. reflexivity.
    + unfold get; simpl. rewrite nth_repeat_absent. auto.
    + intros D; destruct D.
    + unfold get; simpl. rewrite nth_repeat_absent. intros D; discriminate D.
Qed.

(* ------------------------------------------------------------------ *)
(* C04 monitor (fair mode): the monitor's arrival list is the wait queue *)
Lemma mon04_step_ok s o m :
  Inv s -> fair s = true -> legal s o = true -> mm_arr m = waiters s ->
  mm_arr (mon04_step m (o, snd (step s o))) = waiters (fst (step s o)) /\
  (mm_good m = true -> mm_good (mon04_step m (o, snd (step s o))) = true).
Proof.
  intros I Ef Hl Hm.
  assert (Hq : arr_step (mm_arr m) (o, snd (step s o)) = waiters (fst (step s o))).
  { rewrite Hm. symmetry. apply arr_step_ok; auto. }
  destruct m as [mwk marr mg good]. cbn [mm_arr mm_good] in *. subst marr.
  assert (Hgood : forall okb : bool, okb = true -> good = true -> (good && okb)%bool = true).
  { intros okb -> ->. reflexivity. }
  unfold mon04_step. destruct o as [f|f w|f| | |]; cbn [mm_arr mm_good];
    (split; [exact Hq|]); try (apply Hgood; reflexivity).
  - (* Poll *)
    simpl in Hl. bool_hyps. apply Hgood.
    destruct (step_poll s f w I H H0) as [(Hs & _ & Hside)|(Hs & _)]; rewrite Hs; cbn [snd].
    + change (res_is R_READY (mk_obs (lock_state s f w) [R_READY] [])) with true. cbv iota.
      destruct (Hside Ef) as [E|E]; rewrite E; [reflexivity|apply Nat.eqb_refl].
    + reflexivity.
  - (* TryLock *)
    apply Hgood. unfold step. destruct (can_lock_sync s) eqn:Ec; cbn [snd]; [|reflexivity].
    apply can_lock_fair in Ec. destruct Ec as [_ Hw]. rewrite (Hw Ef). reflexivity.
Qed.

Lemma mon04_holds : forall k ops,
  legal_run (init k true) ops ->
  mm_good (fold_left mon04_step (trace (init k true) ops) mmon0) = true.
Proof.
  intros k ops Hl.
  apply (mon_fold mon04_step (fun s m => mm_arr m = waiters s) k true); auto.
  - intros s o m Hr Hlo HR. apply mon04_step_ok; auto.
    + apply (reach_inv k true); auto.
    + apply (reach_fair k true); auto.
  - apply reach_init.
Qed.
