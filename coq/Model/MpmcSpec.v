(* Vocabulary in which C08-C11 are stated: histories, observable traces and monitors that
   are functions of the observable trace alone (operations, results, wake lists, value
   movements, the closed / buffered-count probe). *)
From FI Require Export Mpmc.

Definition run (s : state) (ops : list op) : state :=
  fold_left (fun s o => fst (step s o)) ops s.

Fixpoint legal_run (s : state) (ops : list op) : Prop :=
  match ops with
  | [] => True
  | o :: r => legal s o = true /\ legal_run (fst (step s o)) r
  end.

Fixpoint trace (s : state) (ops : list op) : list (op * obs) :=
  match ops with
  | [] => []
  | o :: r => (o, snd (step s o)) :: trace (fst (step s o)) r
  end.

(* values are uniquely tagged *)
Definition injected (ops : list op) : list tag :=
  flat_map (fun o => match o with CreateSend _ v | TrySend v => [v] | _ => [] end) ops.
Definition unique_tags (ops : list op) : Prop := NoDup (injected ops).

(* wakers private to each future: receive future f uses 2f, 2f+1; send future f uses 64+2f, 65+2f *)
Definition private_wakers (ops : list op) : Prop :=
  (forall f w, In (PollRecv f w) ops -> Nat.div w 2 = f /\ w < 64) /\
  (forall f w, In (PollSend f w) ops -> Nat.div (w - 64) 2 = f /\ 64 <= w).

Definition res_is (c : N) (ob : obs) : bool := N.eqb (hd 99%N (o_res ob)) c.

(* value movements of a step as (kind, tag) pairs *)
Fixpoint pairs (l : list N) : list (N * N) :=
  match l with
  | k :: v :: r => (k, v) :: pairs r
  | _ => []
  end.

Definition removeN (v : N) (l : list N) : list N := filter (fun x => negb (N.eqb x v)) l.
Definition memN (v : N) (l : list N) : bool := existsb (N.eqb v) l.

(* ------------------------------------------------------------------------------------ *)
(* C08: every value ends in exactly one place.  [c_live] = tags injected and not yet
   delivered / handed back / destroyed. *)
Record cons := mkCons { c_live : list N; c_ok : bool }.

Definition cons_move (c : cons) (m : N * N) : cons :=
  let '(_, v) := m in
  mkCons (removeN v (c_live c)) (c_ok c && memN v (c_live c)).      (* must be live, leaves exactly once *)

Definition cons_step (c : cons) (e : op * obs) : cons :=
  let '(o, ob) := e in
  let c1 := match o with
            | CreateSend _ v | TrySend v => mkCons (v :: c_live c) (c_ok c && negb (memN v (c_live c)))
            | _ => c
            end in
  let c2 := fold_left cons_move (pairs (o_val ob)) c1 in
  match o with
  | Teardown => mkCons (c_live c2) (c_ok c2 && match c_live c2 with [] => true | _ => false end)
  | _ => c2
  end.

Definition conservation_ok (tr : list (op * obs)) : bool :=
  c_ok (fold_left cons_step tr (mkCons [] true)).

(* ------------------------------------------------------------------------------------ *)
(* C09: the reference FIFO.  [q_fifo] = values whose send took effect (first poll of the send
   future that did not fail, or an accepted try_send) and that were not yet received, handed
   back or destroyed, oldest first; [q_acc] = those among them whose send already completed
   successfully ("accepted but unreceived"); [q_slot f] = (value carried by send future f,
   whether its send has taken effect). *)
Record fifo := mkFifo { q_fifo : list N; q_acc : list N; q_slot : list (option (N * bool)); q_good : bool }.

Definition fifo_move (q : fifo) (m : N * N) : fifo :=
  let '(k, v) := m in
  if N.eqb k V_DELIVERED then
    (* received in the order in which the sends took effect *)
    mkFifo (tl (q_fifo q)) (removeN v (q_acc q)) (q_slot q)
           (q_good q && match q_fifo q with h :: _ => N.eqb h v | [] => false end)
  else mkFifo (removeN v (q_fifo q)) (removeN v (q_acc q)) (q_slot q) (q_good q).

Definition fifo_step (cap : nat) (q : fifo) (e : op * obs) : fifo :=
  let '(o, ob) := e in
  (* 1. the send effect *)
  let q1 :=
    match o with
    | CreateSend f v => mkFifo (q_fifo q) (q_acc q) (upd f (Some (v, false)) (q_slot q)) (q_good q)
    | PollSend f _ =>
        match nth f (q_slot q) None with
        | Some (v, false) =>
            if res_is R_PANIC ob then q
            else mkFifo (if res_is R_PENDING ob || res_is R_OK ob then q_fifo q ++ [v] else q_fifo q)
                        (q_acc q) (upd f (Some (v, true)) (q_slot q)) (q_good q)
        | _ => q
        end
    | CancelSend f | DropSend f => mkFifo (q_fifo q) (q_acc q) (upd f None (q_slot q)) (q_good q)
    | TrySend v => if res_is R_OK ob then mkFifo (q_fifo q ++ [v]) (q_acc q ++ [v]) (q_slot q) (q_good q) else q
    | _ => q
    end in
  (* 2. value movements of the call *)
  let q2 := fold_left fifo_move (pairs (o_val ob)) q1 in
  (* 3. a send future completes successfully: its value is stored (still in the FIFO, now
        counted as accepted) or was already taken by a receiver *)
  let q3 :=
    match o with
    | PollSend f _ =>
        if res_is R_OK ob then
          match nth f (q_slot q1) None with
          | Some (v, _) =>
              mkFifo (q_fifo q2)
                     (if memN v (q_fifo q2) && negb (memN v (q_acc q2)) then q_acc q2 ++ [v] else q_acc q2)
                     (q_slot q2) (q_good q2)
          | None => q2
          end
        else q2
    | _ => q2
    end in
  (* capacity: at most cap accepted-but-unreceived values (capacity 0: a send completes only
     after a receiver has taken its value) *)
  mkFifo (q_fifo q3) (q_acc q3) (q_slot q3) (q_good q3 && Nat.leb (length (q_acc q3)) cap).

Definition fifo_ok (ks cap : nat) (tr : list (op * obs)) : bool :=
  q_good (fold_left (fifo_step cap) tr (mkFifo [] [] (repeat None ks) true)).

(* the reference FIFO after a history *)
Definition fifo_of (ks cap : nat) (tr : list (op * obs)) : list N :=
  q_fifo (fold_left (fifo_step cap) tr (mkFifo [] [] (repeat None ks) true)).

(* ------------------------------------------------------------------------------------ *)
(* C10: receivers.  Pending receive futures with "woken since last poll through the waker
   of that poll"; a value is available if one is buffered (probe) or, on an open unbuffered
   channel, parked in a waiting sender. *)
Record rmon := mkRmon { rm_pend : list (option N * bool);   (* per receive slot: latest waker if pending, woken *)
                        rm_stag : list (option N);          (* per send slot: the value it carries *)
                        rm_parked : list bool;              (* per send slot: registered and waiting with its value *)
                        rm_good : bool }.

Definition rm_wake (wakes : list N) (x : option N * bool) : option N * bool :=
  match x with
  | (Some w, b) => (Some w, b || memN w wakes)
  | y => y
  end.

Definition unpark (moved : list N) (stag : list (option N)) (parked : list bool) : list bool :=
  map (fun p => match fst p with
                | Some v => snd p && negb (memN v moved)
                | None => false end) (combine stag parked).

Definition rmon_step (cap : nat) (m : rmon) (e : op * obs) : rmon :=
  let '(o, ob) := e in
  let m1 :=
    match o with
    | CreateRecv f | DropRecv f => mkRmon (upd f (None, false) (rm_pend m)) (rm_stag m) (rm_parked m) (rm_good m)
    | PollRecv f w =>
        if res_is R_PENDING ob then mkRmon (upd f (Some (nN w), false) (rm_pend m)) (rm_stag m) (rm_parked m) (rm_good m)
        else if res_is R_PANIC ob then m
        else mkRmon (upd f (None, false) (rm_pend m)) (rm_stag m) (rm_parked m) (rm_good m)
    | CreateSend f v => mkRmon (rm_pend m) (upd f (Some v) (rm_stag m)) (upd f false (rm_parked m)) (rm_good m)
    | PollSend f _ =>
        if res_is R_PANIC ob then m
        else mkRmon (rm_pend m) (rm_stag m) (upd f (res_is R_PENDING ob) (rm_parked m)) (rm_good m)
    | CancelSend f | DropSend f => mkRmon (rm_pend m) (upd f None (rm_stag m)) (upd f false (rm_parked m)) (rm_good m)
    | _ => m
    end in
  let pend := map (rm_wake (o_wake ob)) (rm_pend m1) in
  let parked := unpark (map snd (pairs (o_val ob))) (rm_stag m1) (rm_parked m1) in
  let is_closed := negb (N.eqb (nth 0 (o_probe ob) 0%N) 0) in
  let buffered := nth 1 (o_probe ob) 0%N in
  let avail := negb (N.eqb buffered 0) ||
               (Nat.eqb cap 0 && negb is_closed && existsb (fun b => b) parked) in
  let some_pending := existsb (fun x => match fst x with Some _ => true | None => false end) pend in
  let some_woken := existsb (fun x => match x with (Some _, true) => true | _ => false end) pend in
  match o with
  | Teardown => mkRmon pend (rm_stag m1) parked (rm_good m1)
  | _ => mkRmon pend (rm_stag m1) parked (rm_good m1 && (negb (avail && some_pending) || some_woken))
  end.

Definition recv_wakeup_ok (kr ks cap : nat) (tr : list (op * obs)) : bool :=
  rm_good (fold_left (rmon_step cap) tr
             (mkRmon (repeat (None, false) kr) (repeat None ks) (repeat false ks) true)).

(* ------------------------------------------------------------------------------------ *)
(* model-state vocabulary for C10 / C11 *)
Definition pendingR (x : rfut) : bool :=
  r_alive x && r_hp x && match r_lastw x with Some _ => true | None => false end.
Definition pendingS (x : sfut) : bool :=
  s_alive x && s_hp x && match s_lastw x with Some _ => true | None => false end.

(* values a receiver can obtain right now *)
Definition available (s : state) : nat :=
  match cap s with
  | O => if closed s then 0 else length (sendq s)
  | _ => length (buf s)
  end.

(* the abstract queue the channel implements: buffered values, then the values parked in
   waiting senders, oldest first *)
Definition abs_queue (s : state) : list tag :=
  buf s ++ flat_map (fun f => match s_val (gets s f) with Some v => [v] | None => [] end) (rev (sendq s)).

(* ------------------------------------------------------------------------------------ *)
(* C11 (mpmc): handle lifecycle on the encoded trace.  Without an explicit close the channel
   is closed iff one side has no handle left; once the last receiver handle is gone nothing
   stays buffered.  (Shared streams own a receiver handle: code 32 on a shared channel drops it.) *)
Record hmon := mkHmon { h_senders : nat; h_receivers : nat; h_explicit : bool; h_good : bool }.

Definition hmon_step (shared : bool) (m : hmon) (e : list N * obs) : hmon :=
  let '(l, ob) := e in
  let closed' := negb (N.eqb (nth 0 (o_probe ob) 0%N) 0) in
  let buffered := nth 1 (o_probe ob) 0%N in
  let m1 :=
    match l with
    | [9%N] => mkHmon (h_senders m) (h_receivers m) true (h_good m)
    | [10%N] => mkHmon (S (h_senders m)) (h_receivers m) (h_explicit m) (h_good m)
    | [14%N] => mkHmon (pred (h_senders m)) (h_receivers m) (h_explicit m) (h_good m)
    | [13%N] => mkHmon (h_senders m) (S (h_receivers m)) (h_explicit m) (h_good m)
    | [16%N] => mkHmon (h_senders m) (pred (h_receivers m)) (h_explicit m) (h_good m)
    | [32%N; _] => if shared then mkHmon (h_senders m) (pred (h_receivers m)) (h_explicit m) (h_good m) else m
    | _ => m
    end in
  match l with
  | [20%N] => m1
  | _ => mkHmon (h_senders m1) (h_receivers m1) (h_explicit m1)
                (h_good m1 &&
                 (h_explicit m1 || Bool.eqb closed' (Nat.eqb (h_senders m1) 0 || Nat.eqb (h_receivers m1) 0)) &&
                 (negb (Nat.eqb (h_receivers m1) 0) || N.eqb buffered 0))
  end.

Definition handles_ok (shared : bool) (tr : list (list N * obs)) : bool :=
  h_good (fold_left (hmon_step shared) tr (mkHmon 1 1 false true)).

(* ------------------------------------------------------------------------------------ *)
(* C08 (placement of destruction) on the encoded trace: a value is destroyed only together with
   the send future that carries it (drop of that future), by the drop of the LAST receiver
   handle, or with the channel -- never while a receiver handle is alive.  This is the
   trace-level reading of C08_drops_only_where_allowed; [d_carry] = value carried by each send
   future (from its creation until the value is observed to move). *)
Record dmon := mkDmon { d_receivers : nat; d_carry : list (option N); d_ok : bool }.

Definition dmon_step (shared : bool) (m : dmon) (e : list N * obs) : dmon :=
  let '(l, ob) := e in
  let mv := pairs (o_val ob) in
  let dropped := map snd (filter (fun p => N.eqb (fst p) V_DROPPED) mv) in
  let moved := map snd mv in
  let carry1 := match l with
                | [0%N; f; v] => upd (N.to_nat f) (Some v) (d_carry m)
                | _ => d_carry m
                end in
  let recv1 := match l with
               | [13%N] => S (d_receivers m)
               | [16%N] => pred (d_receivers m)
               | [32%N; _] => if shared then pred (d_receivers m) else d_receivers m
               | _ => d_receivers m
               end in
  let none := match dropped with [] => true | _ => false end in
  let allowed :=
    match l with
    | [3%N; f] => forallb (fun v => match nth (N.to_nat f) carry1 None with
                                    | Some v' => N.eqb v v' | None => false end) dropped
    | [16%N] => none || Nat.eqb recv1 0
    | [32%N; _] => none || (shared && Nat.eqb recv1 0)
    | [20%N] => true
    | _ => none
    end in
  mkDmon recv1
         (map (fun c => match c with
                        | Some v => if memN v moved then None else Some v
                        | None => None end) carry1)
         (d_ok m && allowed).

Definition drops_placed_ok (shared : bool) (ks : nat) (tr : list (list N * obs)) : bool :=
  d_ok (fold_left (dmon_step shared) tr (mkDmon 1 (repeat None ks) true)).

(* ------------------------------------------------------------------------------------ *)
(* C11 (close wakes everybody) on the encoded trace: when a call closes the channel - an
   explicit close() that reports NewlyClosed, or the drop of the last sender / receiver
   handle that reports that it closed the channel - no future stays pending without having
   been woken through the waker of its latest poll.  [k_r f] / [k_s f] = latest waker of
   receive / send future f if its latest poll returned Pending, and whether that waker has
   been invoked since. *)
Record kmon := mkKmon { k_r : list (option N * bool); k_s : list (option N * bool); k_ok : bool }.

Definition k_wake (wakes : list N) (x : option N * bool) : option N * bool :=
  match x with
  | (Some w, b) => (Some w, b || memN w wakes)
  | y => y
  end.

Definition k_unwoken (x : option N * bool) : bool :=
  match x with (Some _, false) => true | _ => false end.

Definition kmon_step (m : kmon) (e : list N * obs) : kmon :=
  let '(l, ob) := e in
  let pend (w : N) : option N * bool := if res_is R_PENDING ob then (Some w, false) else (None, false) in
  let m1 :=
    match l with
    | [0%N; f; _] | [2%N; f] | [3%N; f] => mkKmon (k_r m) (upd (N.to_nat f) (None, false) (k_s m)) (k_ok m)
    | [1%N; f; w] => mkKmon (k_r m) (upd (N.to_nat f) (pend w) (k_s m)) (k_ok m)
    | [4%N; f] | [6%N; f] => mkKmon (upd (N.to_nat f) (None, false) (k_r m)) (k_s m) (k_ok m)
    | [5%N; f; w] => mkKmon (upd (N.to_nat f) (pend w) (k_r m)) (k_s m) (k_ok m)
    | _ => m
    end in
  let r2 := map (k_wake (o_wake ob)) (k_r m1) in
  let s2 := map (k_wake (o_wake ob)) (k_s m1) in
  let closing := match l with
                 | [9%N] | [14%N] | [16%N] => res_is R_TRUE ob
                 | _ => false
                 end in
  mkKmon r2 s2 (k_ok m1 && (negb closing || negb (existsb k_unwoken r2 || existsb k_unwoken s2))).

Definition close_wakes_ok (kr ks : nat) (tr : list (list N * obs)) : bool :=
  k_ok (fold_left kmon_step tr (mkKmon (repeat (None, false) kr) (repeat (None, false) ks) true)).

(* runs of the model on encoded operations with whole-call handle drops (what the harness
   executes): every call respects the contract, no handle drop is split into its sections *)
Fixpoint mtrace (s : state) (ls : list (list N)) : list (list N * obs) :=
  match ls with
  | [] => []
  | l :: r => let '(s', ob) := mstep s l in (l, ob) :: mtrace s' r
  end.

Definition mlegal (s : state) (l : list N) : bool :=
  match l with
  | [14%N] => negb (gone s) && Nat.ltb 0 (senders s)
  | [16%N] => negb (gone s) && Nat.ltb 0 (receivers s)
  | [11%N] | [12%N] | [17%N] | [18%N] | [19%N] => false
  | _ => match decode l with Some o => legal s o | None => false end
  end.

Fixpoint mlegal_run (s : state) (ls : list (list N)) : bool :=
  match ls with
  | [] => true
  | l :: r => mlegal s l && mlegal_run (fst (mstep s l)) r
  end.

Definition minjected (ls : list (list N)) : list tag :=
  flat_map (fun l => match l with [0%N; _; v] => [v] | [7%N; v] => [v] | _ => [] end) ls.

(* whole handle drops (codes 14 / 16) reach the monitors as one handle operation carrying the
   merged observation of their sections *)
Definition decode_mon (l : list N) : option op :=
  match l with
  | [14%N] => Some DropSenderClose
  | [16%N] => Some DropReceiverClear
  | _ => decode l
  end.

Definition dec_trace (tr : list (list N * obs)) : list (op * obs) :=
  flat_map (fun e => match decode_mon (fst e) with Some o => [(o, snd e)] | None => [] end) tr.

Definition monitor (which : N) (cfg : list N) (tr : list (list N * obs)) : bool :=
  match cfg with
  | kr :: ks :: c :: _ =>
      let kr := N.to_nat kr in let ks := N.to_nat ks in let c := N.to_nat c in
      match which with
      | 8%N => conservation_ok (dec_trace tr)
      | 21%N => close_wakes_ok kr ks tr
      | 18%N => drops_placed_ok (match cfg with _ :: _ :: _ :: sh :: _ => negb (N.eqb sh 0) | _ => false end) ks tr
      | 9%N => fifo_ok ks c (dec_trace tr)
      | 10%N => recv_wakeup_ok kr ks c (dec_trace tr)
      | 11%N => match cfg with _ :: _ :: _ :: sh :: _ => if N.eqb sh 0 then true else handles_ok true tr | _ => true end
      | _ => true
      end
  | _ => true
  end.

Definition machine : Base.machine := mkMachine xstate minit xstep enabled (fun x => x) monitor.
